#include <unistd.h>
#include <cstdlib>
#include "recbackend.h"
#include "recjson.h"
#include "mp/flat/model_api_base.h"
#include "mp/nl-reader.h"
#include <cstring>
#include <cerrno>
#include "rec_c04.h"
namespace mp { void RecDumpLinks(pre::BasicValuePresolver &); }  // recmodelmgr.cc (C19 extension)

std::unique_ptr<mp::BasicBackend> CreateRecBackend() {
  return std::unique_ptr<mp::BasicBackend>{new mp::RecBackend()};
}

namespace mp {

void rec_fault(const char *site) {
  const char *f = std::getenv("RECSOLVER_FAULT");
  if (!f) return;
  size_t n = std::strlen(site);
  if (std::strncmp(f, site, n) != 0 || f[n] != ':') return;
  std::string kind = f + n + 1;
  int code = 0;
  auto p = kind.find(':');
  if (p != std::string::npos) { code = std::atoi(kind.c_str() + p + 1); kind.erase(p); }
  std::string msg = std::string("injected ") + kind + " at " + site;
  if (kind == "plain") MP_RAISE(msg);
  if (kind == "withCode") MP_RAISE_WITH_CODE(code, msg);
  if (kind == "infeas") MP_INFEAS(msg);
  if (kind == "solCheck") MP_RAISE_WITH_CODE(int(sol::MP_SOLUTION_CHECK), msg);
  if (kind == "unsupported") MP_UNSUPPORTED(msg);
  if (kind == "optionError") throw OptionError(msg);
  if (kind == "readError") throw ReadError("injected.nl", 1, 1, "{}", msg);
  if (kind == "fmtError") throw Error("{}", msg);
  if (kind == "systemError") throw fmt::SystemError(ENOENT, "{}", msg);
  if (kind == "stdExn") throw std::runtime_error(msg);
  if (kind == "foreign") throw 42;
  // not exceptions: the process is killed / never returns (C09 Pipeline.lean: Beh.aborts, Beh.hangs)
  if (kind == "abort") std::abort();
  if (kind == "hang") for (;;) ::pause();
}

bool rec_feature(const char *name) {
  const char *f = std::getenv("RECSOLVER_FEATURES");
  if (!f) return true;
  std::string list = std::string(",") + f + ",";
  return list.find(std::string(",-") + name + ",") == std::string::npos;
}

std::unique_ptr<BasicModelManager>
CreateRecModelMgr(RecCommon &, Env &, pre::BasicValuePresolver *&);
/// C20: log every registered link entry with its final extent (defined in recmodelmgr.cc)
void RecLogFinalLinks(pre::BasicValuePresolver &, RecState &);

RecBackend::RecBackend() {
  rec_fault("ctor");
  set_st(&st_);
  pre::BasicValuePresolver *pPre;
  auto data = CreateRecModelMgr(*this, *this, pPre);
  SetMM(std::move(data));
  SetValuePresolver(pPre);
  copy_common_info_to_other();
}
RecBackend::~RecBackend() {}

void RecBackend::InitCustomOptions() {
  rec_fault("init");
  set_option_header("recsolver: recording driver for verification.\n");
}

static std::vector<double> sized(const std::vector<double> &v, bool have, size_t n) {
  if (have) return v;                       // scripted vectors are passed as given (any length)
  return std::vector<double>(n, 0.0);
}

ArrayRef<double> RecBackend::PrimalSolution() {
  if (st_.scripted && !st_.have_x) return std::vector<double>();
  return sized(st_.x, st_.have_x, st_.nvars);
}
pre::ValueMapDbl RecBackend::DualSolution() {
  if (st_.scripted && !st_.have_pi && !st_.have_piq) return {};
  pre::ValueMapDbl m;
  std::map<int, std::vector<double> > mm;
  mm[CG_Linear] = sized(st_.pi, st_.have_pi, st_.n_lin);
  if (st_.have_piq) mm[CG_Quadratic] = st_.piq;
  return {std::move(mm)};
}
ArrayRef<double> RecBackend::GetObjectiveValues() {
  if (st_.have_obj) return st_.obj;
  if (st_.scripted) return std::vector<double>();
  return std::vector<double>(st_.nobjs, 0.0);
}

void RecBackend::InputExtras() {
  BaseBackend::InputExtras();
  if (!std::getenv("RECSOLVER_C04")) return;
  // as GurobiBackend::InputGurobiFuncApproxParams: a model suffix on constraints/objectives is presolved onto
  // the solver's items; log what arrives per delivered constraint group
  for (const char *name : {"funcpieces", "c04int"}) {
    int mask = suf::Kind::CON_BIT | suf::Kind::OBJ_BIT;
    if (name[0] == 'c') mask |= suf::Kind::VAR_BIT;      // c04int: on variables as well
    if (auto mv0 = ReadModelSuffixInt({name, mask})) {
      auto mv = GetValuePresolver().PresolveGenericInt(mv0);
      st_.Log(std::string("{\"ev\":\"modelsuffix\",\"name\":\"") + name + "\",\"src\":{" + rec_c04::mvals<int>(mv0) +
              "},\"pre\":{" + rec_c04::mvals<int>(mv) + "}}");
    }
  }
}

SensRangesPresolved RecBackend::GetSensRangesPresolved() {
  SensRangesPresolved r;
  auto var = [&](const char *k, pre::ModelValuesDbl &mv) {
    auto it = st_.sens.find(std::string("sens_") + k);
    if (it != st_.sens.end()) mv = pre::ModelValuesDbl{it->second};
  };
  auto con = [&](const char *k, pre::ModelValuesDbl &mv) {
    auto it = st_.sens.find(std::string("sens_") + k);
    if (it != st_.sens.end()) mv = pre::ModelValuesDbl{{}, {{{CG_Linear, it->second}}}};
  };
  var("varlblo", r.varlblo); var("varlbhi", r.varlbhi); var("varublo", r.varublo); var("varubhi", r.varubhi);
  var("varobjlo", r.varobjlo); var("varobjhi", r.varobjhi);
  con("conrhslo", r.conrhslo); con("conrhshi", r.conrhshi);
  con("conlblo", r.conlblo); con("conlbhi", r.conlbhi); con("conublo", r.conublo); con("conubhi", r.conubhi);
  st_.Log("{\"ev\":\"sens_query\"}");
  return r;
}

ArrayRef<double> RecBackend::Ray() {       // as GurobiBackend::Ray
  auto it = st_.sens.find("ray");
  if (it == st_.sens.end()) return {};
  auto mv = GetValuePresolver().PostsolveSolution({it->second});
  std::vector<double> r = mv.GetVarValues()();
  st_.Log("{\"ev\":\"ray_out\",\"solver\":" + rec::dbls(it->second) + ",\"post\":{" + rec_c04::mvals<double>(mv) + "}}");
  return r;
}

ArrayRef<double> RecBackend::DRay() {      // as GurobiBackend::DRay
  auto it = st_.sens.find("dray");
  if (it == st_.sens.end()) return {};
  auto mv = GetValuePresolver().PostsolveSolution({{}, {{{CG_Linear, it->second}}}});
  st_.Log("{\"ev\":\"dray_out\",\"solver\":" + rec::dbls(it->second) + ",\"post\":{" + rec_c04::mvals<double>(mv) + "}}");
  return mv.GetConValues().MoveOut();
}

void RecBackend::DumpGraphOnce() {
  if (st_.graph_dumped || !std::getenv("RECSOLVER_C04")) return;
  st_.graph_dumped = true;
  st_.Log(rec_c04::DumpLinkGraph(GetValuePresolver(), st_.rangecon));
}

bool RecBackend::IsMIP() const {
  static const int m = std::getenv("RECSOLVER_ISMIP") ? std::atoi(std::getenv("RECSOLVER_ISMIP")) : 1;
  return m != 0;
}

void RecBackend::ObjPriorities(ArrayRef<int> p) { st_.Log("{\"ev\":\"objpriorities\",\"v\":" + rec::ints(p) + "}"); }
void RecBackend::ObjWeights(ArrayRef<double> w) { st_.Log("{\"ev\":\"objweights\",\"v\":" + rec::dbls(w) + "}"); }

void RecBackend::Solve() {
  st_.Log("{\"ev\":\"solve\"}");
  if (need_multiple_solutions()) {
    int n = 0;
    if (const char *e = std::getenv("RECSOLVER_NSOL")) n = std::atoi(e);
    for (int i = 0; i < n; ++i) {
      st_.Log("{\"ev\":\"altsol\",\"i\":" + std::to_string(i) + "}");
      if (std::getenv("RECSOLVER_NSOL_VECTORS"))     // non-empty primal/dual vectors (zeros, generously sized)
        ReportIntermediateSolution({std::vector<double>(st_.nvars + 64, 0.0),
                                    std::vector<double>(st_.n_lin + st_.n_quad + st_.n_other + 4096, 0.0), {double(i)}});
      else
        ReportIntermediateSolution({{}, {}, {double(i)}});
    }
  }
  rec_fault("solve");                                      // C09: RECSOLVER_FAULT=solve:<kind>
  RecDumpLinks(GetValuePresolver());                       // C19: RECSOLVER_LINKS=<file>
  if (const char *l = std::getenv("RECSOLVER_LINKS")) if (*l == '1') RecLogFinalLinks(GetValuePresolver(), st_);  // C20: RECSOLVER_LINKS=1
  DumpGraphOnce();                                         // C04: RECSOLVER_C04=1 (event `linkgraph`)
  if (std::getenv("RECSOLVER_C04")) rec_c04::RunCalls(GetValuePresolver(), st_);   // C04: RECSOLVER_C04_CALLS=<file>
  if (st_.n_altsol > 0 && need_multiple_solutions()) {     // C09: script `altsol N`
    for (int k = 0; k < st_.n_altsol; ++k) {
      auto mv = GetValuePresolver().PostsolveSolution(
            { { std::vector<double>(st_.nvars, 0.0) }, {}, std::vector<double>{ double(k) } });
      ReportIntermediateSolution({ mv.GetVarValues()(), mv.GetConValues()(), mv.GetObjValues()() });
    }
  }
  if (st_.throw_in_solve == 1) throw std::runtime_error("scripted runtime_error in Solve");
  if (st_.throw_in_solve == 2) Abort(st_.code, "scripted mp::Error in Solve");
  if (st_.throw_in_solve == 3) throw mp::UnsupportedError("scripted UnsupportedError in Solve");
}

void RecBackend::DoWriteProblem(const std::string &name) {
  st_.Log("{\"ev\":\"writeproblem\",\"file\":" + rec::str(name.c_str()) + "}");
  FILE *f = std::fopen(name.c_str(), "w");
  if (!f) MP_RAISE("recsolver: cannot write model file " + name);
  std::fprintf(f, "recsolver model: %d vars, %d linear, %d quadratic, %d other constraints\n", st_.nvars, st_.n_lin, st_.n_quad, st_.n_other);
  std::fclose(f);
}

void RecBackend::ReportResults() {
  rec_fault("report");
  SetStatus({st_.scripted ? st_.code : 0, st_.scripted ? st_.msg : std::string("recorded")});
  BaseBackend::ReportResults();
}

SolutionBasis RecBackend::GetBasis() {
  if (!st_.have_varstt || !st_.have_constt) return {};
  std::vector<int> varstt = st_.varstt, constt = st_.constt;
  auto mv = GetValuePresolver().PostsolveBasis({std::move(varstt), {{{CG_Linear, std::move(constt)}}}});
  varstt = mv.GetVarValues()();
  constt = mv.GetConValues()();
  st_.Log("{\"ev\":\"basis_out\",\"var\":" + rec::ints(varstt) + ",\"con\":" + rec::ints(constt) +
          ",\"solver_var\":" + rec::ints(st_.varstt) + ",\"solver_con\":" + rec::ints(st_.constt) + "}");
  return {std::move(varstt), std::move(constt)};
}

void RecBackend::SetBasis(SolutionBasis basis) {
  auto mv = GetValuePresolver().PresolveBasis({basis.varstt, basis.constt});
  auto varstt = mv.GetVarValues()();
  auto constt = mv.GetConValues()(CG_Linear);
  st_.Log("{\"ev\":\"basis_in\",\"src_var\":" + rec::ints(basis.varstt) + ",\"src_con\":" + rec::ints(basis.constt) +
          ",\"var\":" + rec::ints(varstt) + ",\"con_lin\":" + rec::ints(constt) +
          ",\"pre\":{" + rec_c04::mvals<int>(mv) + "}}");
}

void RecBackend::AddPrimalDualStart(Solution sol0) {
  if (!rec_feature("WARMSTART")) { BaseBackend::AddPrimalDualStart(sol0); return; }   // a driver without the feature
  auto mv = GetValuePresolver().PresolveSolution({sol0.primal, sol0.dual});
  auto x0 = mv.GetVarValues()();
  auto pi0 = mv.GetConValues()(CG_Linear);
  st_.Log("{\"ev\":\"warmstart\",\"src_x\":" + rec::dbls(sol0.primal) + ",\"src_pi\":" + rec::dbls(sol0.dual) +
          ",\"x\":" + rec::dbls(x0) + ",\"pi_lin\":" + rec::dbls(pi0) +
          ",\"pre\":{" + rec_c04::mvals<double>(mv) + "}}");
}

void RecBackend::AddMIPStart(ArrayRef<double> x0, ArrayRef<int> sparsity) {
  if (!rec_feature("MIPSTART")) { BaseBackend::AddMIPStart(x0, sparsity); return; }
  std::string extra;
  if (std::getenv("RECSOLVER_C04")) {        // presolve as GurobiBackend::AddMIPStart does
    auto mv = GetValuePresolver().PresolveSolution({x0});
    auto ms = GetValuePresolver().PresolveGenericInt({sparsity});
    extra = ",\"pre_x\":{" + rec_c04::mvals<double>(mv) + "},\"pre_sparsity\":{" + rec_c04::mvals<int>(ms) + "}";
  }
  st_.Log("{\"ev\":\"mipstart\",\"x\":" + rec::dbls(x0) + ",\"sparsity\":" + rec::ints(sparsity) + extra + "}");
}

void RecBackend::VarPriorities(ArrayRef<int> p) {
  std::string extra;
  if (std::getenv("RECSOLVER_C04")) {        // presolve as GurobiBackend::VarPriorities does
    auto mv = GetValuePresolver().PresolveGenericInt({p});
    extra = ",\"pre\":{" + rec_c04::mvals<int>(mv) + "}";
  }
  st_.Log("{\"ev\":\"priorities\",\"p\":" + rec::ints(p) + extra + "}");
}

void RecBackend::MarkLazyOrUserCuts(ArrayRef<int> l) {
  std::string extra;
  if (std::getenv("RECSOLVER_C04")) {        // presolve as GurobiBackend::MarkLazyOrUserCuts does
    auto mv = GetValuePresolver().PresolveLazyUserCutFlags({{}, l});
    extra = ",\"pre\":{" + rec_c04::mvals<int>(mv) + "}";
  }
  st_.Log("{\"ev\":\"lazy\",\"lin\":" + rec::ints(l) + extra + "}");
}

IIS RecBackend::GetIIS() {
  if (!st_.have_iisvar && !st_.have_iiscon) return {};
  std::map<int, std::vector<int> > cmap = st_.iiscon_g;     // other groups (script `iiscong`), e.g. CG_General
  cmap[CG_Linear] = st_.iiscon;
  auto mv = GetValuePresolver().PostsolveIIS({st_.iisvar, {std::move(cmap)}});
  std::vector<int> v = mv.GetVarValues()(), c = mv.GetConValues()();
  st_.Log("{\"ev\":\"iis_out\",\"var\":" + rec::ints(v) + ",\"con\":" + rec::ints(c) +
          ",\"solver_var\":" + rec::ints(st_.iisvar) + ",\"solver_con\":" + rec::ints(st_.iiscon) +
          ",\"solver_con_g\":" + rec_c04::vmap<int>(pre::ValueMapInt(st_.iiscon_g)) + "}");
  return {v, c};
}

}  // namespace mp

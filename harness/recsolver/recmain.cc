#include "mp/backend-app.h"
std::unique_ptr<mp::BasicBackend> CreateRecBackend();
extern "C" int main(int, char **argv) { return mp::RunBackendApp(argv, CreateRecBackend); }

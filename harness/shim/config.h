/* empty stand-in for GSL's config.h: src/gsl/default.c (a patched copy of GSL rng/default.c) includes it */

/* Minimal stand-in for ASL's funcadd.h (ASL is absent from the ampl/mp tree).
 * Declares exactly what src/gsl/amplgsl.cc and src/gsl/gsl-info.cc use, with the
 * field names and calling conventions of the real header (solvers/funcadd.h of
 * the AMPL Solver Library).  Layout is private to this harness: both sides of
 * every call (amplgsl.cc and harness/h_gsl.cc) are compiled against this file.
 */
#ifndef MPVERIF_SHIM_FUNCADD_H
#define MPVERIF_SHIM_FUNCADD_H

#include <stdio.h>
#include <stdarg.h>
#include <stddef.h>

#ifdef __cplusplus
extern "C" {
#endif

typedef double real;
typedef void Char;
typedef struct arglist arglist;
typedef struct AmplExports AmplExports;
typedef struct TMInfo TMInfo;
typedef struct function function;
typedef struct TVA TVA;

typedef real (*rfunc)(arglist *);
typedef real (ufunc)(arglist *);

struct arglist {
  int n;            /* number of args */
  int nr;           /* number of real input args */
  int *at;          /* argument types */
  real *ra;         /* pure real args (IN, OUT, and INOUT) */
  const char **sa;  /* symbolic IN args */
  real *derivs;     /* for partial derivatives (if nonzero) */
  real *hes;        /* for second partials (if nonzero) */
  char *dig;        /* if (dig && dig[i]) { partials w.r.t. ra[i] will not be used } */
  Char *funcinfo;   /* for use by the function (if desired) */
  AmplExports *AE;  /* functions made visible */
  function *f;      /* for internal use by AMPL */
  TVA *tva;         /* for internal use by AMPL */
  char *Errmsg;     /* To indicate an error, set this to a description of the error. */
  TMInfo *TMI;      /* used in Tempmem calls */
  Char *Private;
  int nin, nout, nsin, nsout;
};

enum FUNCADD_TYPE {       /* bits in "type" arg to addfunc */
  FUNCADD_REAL_VALUED = 0,
  FUNCADD_STRING_VALUED = 2,
  FUNCADD_RANDOM_VALUED = 4,
  FUNCADD_012ARGS = 8,
  FUNCADD_STRING_ARGS = 1,
  FUNCADD_OUTPUT_ARGS = 16,
  FUNCADD_TUPLE_VALUED = 32,
  FUNCADD_NO_ARGLIST = 8,
  FUNCADD_NO_DUPWARN = 64,
  FUNCADD_NONRAND_BUILTIN = 128
};

typedef void Exitfunc(void *);
typedef void (*RandSeedSetter)(void *, unsigned long);
typedef void AddFunc(const char *name, rfunc f, int type, int nargs, void *funcinfo, AmplExports *ae);
typedef void AddRandInit(AmplExports *ae, RandSeedSetter, void *);
typedef void AtReset(AmplExports *ae, Exitfunc *, void *);

struct AmplExports {
  FILE *StdErr;
  AddFunc *Addfunc;
  long ASLdate;
  int (*FprintF)(FILE *, const char *, ...);
  int (*PrintF)(const char *, ...);
  int (*SprintF)(char *, const char *, ...);
  int (*VfprintF)(FILE *, const char *, va_list);
  int (*VsprintF)(char *, const char *, va_list);
  double (*Strtod)(const char *, char **);
  AtReset *AtExit;
  AtReset *AtReset;
  Char *(*Tempmem)(TMInfo *, size_t);
  AddRandInit *Addrandinit;
  int (*SnprintF)(char *, size_t, const char *, ...);
  int (*VsnprintF)(char *, size_t, const char *, va_list);
};

extern void funcadd_ASL(AmplExports *ae);

#define addfunc(a, b, c, d, e) (*ae->Addfunc)(a, b, c, d, e, ae)
#define addrandinit(a, b) (*ae->Addrandinit)(ae, a, b)
#define at_reset(a, b) (*ae->AtReset)(ae, a, b)
#define at_exit(a, b) (*ae->AtExit)(ae, a, b)

#ifdef __cplusplus
}
#endif
#endif

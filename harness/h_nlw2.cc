// C03 harness: generated feeder models -> real mp::WriteNLFile (nl-writer2) -> real mp::ReadNLFile
// (include/mp/nl-reader.h) with a recording handler.
//
// Output (stdout), line prefixes:
//   "M ..."  model / run lines: the input of the Lean driver drv_c03 (same text without the prefix)
//   "I ..."  what the real reader reported for the run announced by the preceding "M run" line
//   "X ..."  what the fed model *means* (the property oracle's expectation; computed from the generator's
//            own data structure, independently of writer, reader and Lean model)
//   "N ..."  names files round trip (.row/.col read back with mp::NameProvider)
//   "G ..."  number codec test (g_fmt -> strtod) on random doubles, "T ..." on constructed boundary cases; summaries only
//   "# ..."  statistics
// Modes: argv[1] = quick|thorough, argv[2] = seed, argv[3] = scratch dir, optional argv[4] = "probe-intmin"
#include <cstdio>
#include <cstdint>
#include <cstdlib>
#include <cstring>
#include <cmath>
#include <cfloat>
#include <climits>
#include <string>
#include <vector>
#include <map>
#include <memory>
#include <set>
#include <algorithm>

#include "mp/nl-reader.h"
#include "mp/nl-writer2.h"
#include "mp/nl-writer2.hpp"
#include "mp/nl-opcodes.h"

namespace DAVID_GAY_GFMT { int g_fmt(char *b, double x, int prec); }

// ---------------------------------------------------------------- PRNG
static uint64_t rng_state;
static uint64_t rnd() {  // splitmix64
  uint64_t z = (rng_state += 0x9e3779b97f4a7c15ULL);
  z = (z ^ (z >> 30)) * 0xbf58476d1ce4e5b9ULL;
  z = (z ^ (z >> 27)) * 0x94d049bb133111ebULL;
  return z ^ (z >> 31);
}
static int rint_(int lo, int hi) { return lo + int(rnd() % uint64_t(hi - lo + 1)); }
static bool coin(int pct) { return int(rnd() % 100) < pct; }

// ---------------------------------------------------------------- helpers
static std::string hexd(double x) {
  uint64_t u; std::memcpy(&u, &x, 8);
  char b[24]; std::snprintf(b, sizeof b, "%016llx", (unsigned long long)u);
  return b;
}
static double from_bits(uint64_t u) { double x; std::memcpy(&x, &u, 8); return x; }
static std::string hexs(const std::string &s) {
  std::string r = "x";
  char b[4];
  for (unsigned char c : s) { std::snprintf(b, sizeof b, "%02x", c); r += b; }
  return r;
}
static std::string itos(long long v) { return std::to_string(v); }

// ---------------------------------------------------------------- opcode table (writer constants, reader kinds)
struct OpEnt { const char *name; int code; int kind; };
static const OpEnt OPS[] = {
#define X(n) {#n, mp::nl::n.code, (int)mp::expr::n},
#include "c03_opcodes.inc"
#undef X
};
static const int NOPS = sizeof(OPS) / sizeof(OPS[0]);
static std::map<std::string, int> op_index;
static std::vector<long> op_used;
static int opi(const char *name) {
  auto it = op_index.find(name);
  if (it == op_index.end()) { std::fprintf(stderr, "harness: opcode %s missing from nl-opcodes.h\n", name); std::exit(3); }
  return it->second;
}
// NL grammar classes (the NL format definition; independent of both tables)
static const char *UNARY[] = {"FLOOR","CEIL","ABS","MINUS","TANH","TAN","SQRT","SINH","SIN","LOG10","LOG","EXP","COSH","COS",
                              "ATANH","ATAN","ASINH","ASIN","ACOSH","ACOS","POW2"};
static const char *BINARY[] = {"ADD","SUB","MUL","DIV","MOD","POW","LESS","ATAN2","TRUNC_DIV","PRECISION","ROUND","TRUNC",
                               "POW_CONST_EXP","POW_CONST_BASE"};
static const char *VARARG[] = {"MIN","MAX"};
static const char *BINLOG[] = {"OR","AND","IFF"};
static const char *RELAT[] = {"LT","LE","EQ","GE","GT","NE"};
static const char *LOGCNT[] = {"ATLEAST","ATMOST","EXACTLY","NOT_ATLEAST","NOT_ATMOST","NOT_EXACTLY"};
static const char *ITLOG[] = {"FORALL","EXISTS"};
static const char *PAIRW[] = {"ALLDIFF","NOT_ALLDIFF"};
template <size_t N> static int pick(const char *(&arr)[N]) {
  // prefer a not-yet-used opcode of the class
  int best = -1; long bu = 0;
  int start = rint_(0, (int)N - 1);
  for (size_t k = 0; k < N; ++k) {
    int i = opi(arr[(start + k) % N]);
    if (best < 0 || op_used[i] < bu) { best = i; bu = op_used[i]; }
  }
  if (coin(50)) best = opi(arr[start]);
  ++op_used[best];
  return best;
}
static int use(const char *n) { int i = opi(n); ++op_used[i]; return i; }

// ---------------------------------------------------------------- model
struct GExpr {
  enum K { NUM, VAR, STR, CALL, OP1, OP2, OP3, OPN } k = NUM;
  double x = 0; int i = 0; std::string s; int op = -1;
  std::vector<GExpr> a;
  std::string descr;
};
typedef std::vector<std::pair<int, double>> Sparse;
typedef std::vector<std::pair<int, int>> SparseI;
struct GFunc { std::string name; int nargs; int type; };
struct GSuf { std::string name; int kind; bool dbl; Sparse dv; SparseI iv; };
struct GDefVar { int index; Sparse lin; GExpr e; std::string descr; };
struct GCon { GExpr e; std::string descr; Sparse lin; };
struct GObj { int type; GExpr e; std::string descr; Sparse lin; };
struct GConB { double L, U; int k, cvar; };
struct GModel {
  mp::NLHeader h;
  std::string prob_name;
  std::vector<GFunc> funcs;
  std::vector<GSuf> sufs;
  SparseI sosv, sosc; Sparse sosref;
  std::vector<std::pair<double, double>> vb;
  std::vector<GConB> cb;
  bool has_x0 = false, has_d0 = false; Sparse x0, d0;
  std::map<int, std::vector<GDefVar>> dvs;     // key: 0, i+1 (con i), -i-1 (obj i)
  std::vector<GCon> cons, lcons;
  std::vector<GObj> objs;
  std::vector<int> colsz;
  std::vector<std::string> rown, coln, unvn, slcn;
  std::vector<std::pair<std::string, std::string>> fixn;
  std::vector<std::pair<std::string, double>> adjn;
  // writer options
  bool comments = false, bounds_first = true; int colsizes = 1; int prec = 0;
  bool names_unchecked = false;   // feed the names without asking `if (wrt)` first
  int need_obj = -1;              // handler variant: only this objective is needed (-1 = all)
  int ncexpr() const { return h.num_common_exprs(); }
};

// ---------------------------------------------------------------- feeder (the NLFeeder interface implemented from GModel)
class GenFeeder : public mp::NLFeeder<GenFeeder, const GExpr *> {
 public:
  const GModel &m;
  explicit GenFeeder(const GModel &mm) : m(mm) {}
  mp::NLHeader Header() { mp::NLHeader h = m.h; h.prob_name = m.prob_name.c_str(); return h; }
  bool WantNLComments() const { return m.comments; }
  int OutputPrecision() const { return m.prec; }
  bool WantBoundsFirst() const { return m.bounds_first; }
  int WantColumnSizes() const { return m.colsizes; }
  const char *ObjDescription(int i) { return m.objs[i].descr.c_str(); }
  int ObjType(int i) { return m.objs[i].type; }
  template <class W> void FeedObjGradient(int i, W &svwf) {
    const Sparse &g = m.objs[i].lin;
    if (g.size()) { auto svw = svwf.MakeVectorWriter(g.size()); for (auto &t : g) svw.Write(t.first, t.second); }
  }
  template <class W> void FeedObjExpression(int i, W &ew) { ew.EPut(&m.objs[i].e); }
  template <class W> void FeedDefinedVariables(int i, W &dvw) {
    auto it = m.dvs.find(i);
    if (it == m.dvs.end()) return;
    for (const GDefVar &d : it->second) {
      auto dv = dvw.StartDefVar(d.index, (int)d.lin.size(), d.descr.c_str());
      { auto linw = dv.GetLinExprWriter(); for (auto &t : d.lin) linw.Write(t.first, t.second); }
      auto ew = dv.GetExprWriter();
      ew.EPut(&d.e);
    }
  }
  template <class W> void FeedVarBounds(W &vbw) { for (auto &b : m.vb) vbw.WriteLbUb(b.first, b.second); }
  template <class W> void FeedConBounds(W &cbw) {
    for (auto &b : m.cb) { AlgConRange r; r.L = b.L; r.U = b.U; r.k = b.k; r.cvar = b.cvar; cbw.WriteAlgConRange(r); }
  }
  const char *ConDescription(int i) {
    return i < (int)m.cons.size() ? m.cons[i].descr.c_str() : m.lcons[i - m.cons.size()].descr.c_str();
  }
  template <class W> void FeedLinearConExpr(int i, W &svwf) {
    const Sparse &g = m.cons[i].lin;
    if (g.size()) { auto svw = svwf.MakeVectorWriter(g.size()); for (auto &t : g) svw.Write(t.first, t.second); }
  }
  template <class W> void FeedConExpression(int i, W &ew) {
    ew.EPut(i < (int)m.cons.size() ? &m.cons[i].e : &m.lcons[i - m.cons.size()].e);
  }
  template <class W> void FeedExpr(Expr e, W &ew) {
    switch (e->k) {
    case GExpr::NUM: ew.NPut(e->x); break;
    case GExpr::VAR: ew.VPut(e->i, e->descr.c_str()); break;
    case GExpr::STR: ew.StrPut(e->s.c_str()); break;
    case GExpr::CALL: { auto aw = ew.FuncPut(e->i, (int)e->a.size(), e->descr.c_str()); for (auto &c : e->a) aw.EPut(&c); break; }
    case GExpr::OP1: { auto aw = ew.OPut1(OPS[e->op].code, e->descr.c_str()); aw.EPut(&e->a[0]); break; }
    case GExpr::OP2: { auto aw = ew.OPut2(OPS[e->op].code, e->descr.c_str()); aw.EPut(&e->a[0]); aw.EPut(&e->a[1]); break; }
    case GExpr::OP3: { auto aw = ew.OPut3(OPS[e->op].code, e->descr.c_str()); for (auto &c : e->a) aw.EPut(&c); break; }
    case GExpr::OPN: { auto aw = ew.OPutN(OPS[e->op].code, (int)e->a.size(), e->descr.c_str()); for (auto &c : e->a) aw.EPut(&c); break; }
    }
  }
  template <class W> void FeedPLSOS(W &pl) {
    if (m.sosv.size()) { auto w = pl.StartSOSVars((int)m.sosv.size()); for (auto &t : m.sosv) w.Write(t.first, t.second); }
    if (m.sosc.size()) { auto w = pl.StartSOSCons((int)m.sosc.size()); for (auto &t : m.sosc) w.Write(t.first, t.second); }
    if (m.sosref.size()) { auto w = pl.StartSOSREFVars((int)m.sosref.size()); for (auto &t : m.sosref) w.Write(t.first, t.second); }
  }
  struct FD { const GFunc *f; const char *Name() { return f->name.c_str(); } int NumArgs() { return f->nargs; } int Type() { return f->type; } };
  FD Function(int i) { return FD{&m.funcs[i]}; }
  template <class W> void FeedColumnSizes(W &csw) { for (int s : m.colsz) csw.Write(s); }
  template <class W> void FeedInitialGuesses(W &igw) {
    if (m.has_x0) { auto ig = igw.MakeVectorWriter(m.x0.size()); for (auto &t : m.x0) ig.Write(t.first, t.second); }
  }
  template <class W> void FeedInitialDualGuesses(W &igw) {
    if (m.has_d0) { auto ig = igw.MakeVectorWriter(m.d0.size()); for (auto &t : m.d0) ig.Write(t.first, t.second); }
  }
  template <class W> void FeedSuffixes(W &swf) {
    for (const GSuf &s : m.sufs) {
      if (s.dbl) { auto sw = swf.StartDblSuffix(s.name.c_str(), s.kind, (int)s.dv.size()); for (auto &t : s.dv) sw.Write(t.first, t.second); }
      else { auto sw = swf.StartIntSuffix(s.name.c_str(), s.kind, (int)s.iv.size()); for (auto &t : s.iv) sw.Write(t.first, t.second); }
    }
  }
  template <class W> void FeedRowAndObjNames(W &wrt) { if (m.rown.size() && (m.names_unchecked || wrt)) for (auto &s : m.rown) wrt << s.c_str(); }
  template <class W> void FeedDelRowNames(W &wrt) { if (m.slcn.size() && wrt) for (auto &s : m.slcn) wrt << s.c_str(); }
  template <class W> void FeedColNames(W &wrt) { if (m.coln.size() && (m.names_unchecked || wrt)) for (auto &s : m.coln) wrt << s.c_str(); }
  template <class W> void FeedUnusedVarNames(W &wrt) { if (m.unvn.size() && wrt) for (auto &s : m.unvn) wrt << s.c_str(); }
  template <class W> void FeedFixedVarNames(W &wrt) {
    if (m.fixn.size() && wrt) for (auto &s : m.fixn) wrt << typename W::StrStrValue{s.first.c_str(), s.second.c_str()};
  }
  template <class W> void FeedObjAdj(W &wrt) {
    if (m.adjn.size() && wrt) for (auto &s : m.adjn) wrt << typename W::StrDblValue{s.first.c_str(), s.second};
  }
};

// ---------------------------------------------------------------- recording handler
typedef std::vector<std::string> Lines;
struct RecHandler : mp::NLHandler<RecHandler, std::string> {
  Lines &out;
  int need_obj = -1;
  explicit RecHandler(Lines &o) : out(o) {}
  bool NeedObj(int i) const { return need_obj < 0 || need_obj == i; }
  static std::string hdr_line(const mp::NLHeader &h) {
    std::string s = "hdr fmt=" + itos(h.format) + " nopt=" + itos(h.num_ampl_options) + " opts=";
    for (int i = 0; i < h.num_ampl_options && i < mp::MAX_AMPL_OPTIONS; ++i) s += (i ? "," : "") + itos(h.ampl_options[i]);
    bool vb = h.num_ampl_options > mp::VBTOL_OPTION_INDEX && h.ampl_options[mp::VBTOL_OPTION_INDEX] == mp::USE_VBTOL_FLAG;
    s += " vb=" + (vb ? hexd(h.ampl_vbtol) : std::string("-"));
    int f[] = {h.num_vars, h.num_algebraic_cons, h.num_objs, h.num_ranges, h.num_eqns, h.num_logical_cons,
               h.num_nl_cons, h.num_nl_objs, h.num_compl_conds, h.num_nl_compl_conds, h.num_compl_dbl_ineqs, h.num_compl_vars_with_nz_lb,
               h.num_nl_net_cons, h.num_linear_net_cons, h.num_nl_vars_in_cons, h.num_nl_vars_in_objs, h.num_nl_vars_in_both,
               h.num_linear_net_vars, h.num_funcs, h.arith_kind, h.flags,
               h.num_linear_binary_vars, h.num_linear_integer_vars, h.num_nl_integer_vars_in_both, h.num_nl_integer_vars_in_cons,
               h.num_nl_integer_vars_in_objs};
    s += " d=";
    for (size_t i = 0; i < sizeof(f) / sizeof(f[0]); ++i) s += (i ? "," : "") + itos(f[i]);
    s += " nz=" + itos((long long)h.num_con_nonzeros) + "," + itos((long long)h.num_obj_nonzeros);
    s += " nl=" + itos(h.max_con_name_len) + "," + itos(h.max_var_name_len);
    s += " ce=" + itos(h.num_common_exprs_in_both) + "," + itos(h.num_common_exprs_in_cons) + "," + itos(h.num_common_exprs_in_objs) + "," +
         itos(h.num_common_exprs_in_single_cons) + "," + itos(h.num_common_exprs_in_single_objs);
    return s;
  }
  void OnHeader(const mp::NLHeader &h) { out.push_back(hdr_line(h)); }
  void OnObj(int i, mp::obj::Type t, std::string e) { out.push_back("obj " + itos(i) + " " + itos((int)t) + " " + (e.empty() ? "_" : e)); }
  void OnAlgebraicCon(int i, std::string e) { out.push_back("acon " + itos(i) + " " + (e.empty() ? "_" : e)); }
  void OnLogicalCon(int i, std::string e) { out.push_back("lcon " + itos(i) + " " + (e.empty() ? "_" : e)); }
  struct LinH { Lines *out; const char *tag; void AddTerm(int v, double c) { out->push_back(std::string(tag) + " " + itos(v) + " " + hexd(c)); } };
  typedef LinH LinearExprHandler; typedef LinH LinearObjHandler; typedef LinH LinearConHandler;
  LinH BeginCommonExpr(int i, int n) { out.push_back("cbeg " + itos(i) + " " + itos(n)); return LinH{&out, "cterm"}; }
  void EndCommonExpr(int i, std::string e, int pos) { out.push_back("cend " + itos(i) + " " + itos(pos) + " " + (e.empty() ? "_" : e)); }
  void OnComplementarity(int c, int v, mp::ComplInfo info) {
    int fl = (std::isinf(info.con_ub()) ? 1 : 0) | (std::isinf(info.con_lb()) ? 2 : 0);
    out.push_back("compl " + itos(c) + " " + itos(v) + " " + itos(fl));
  }
  LinH OnLinearObjExpr(int i, int n) { out.push_back("gbeg " + itos(i) + " " + itos(n)); return LinH{&out, "gterm"}; }
  LinH OnLinearConExpr(int i, int n) { out.push_back("jbeg " + itos(i) + " " + itos(n)); return LinH{&out, "jterm"}; }
  void OnVarBounds(int i, double l, double u) { out.push_back("vb " + itos(i) + " " + hexd(l) + " " + hexd(u)); }
  void OnConBounds(int i, double l, double u) { out.push_back("cb " + itos(i) + " " + hexd(l) + " " + hexd(u)); }
  void OnInitialValue(int i, double v) { out.push_back("x0 " + itos(i) + " " + hexd(v)); }
  void OnInitialDualValue(int i, double v) { out.push_back("d0 " + itos(i) + " " + hexd(v)); }
  struct ColumnSizeHandler { Lines *out; void Add(int s) { out->push_back("cadd " + itos(s)); } };
  ColumnSizeHandler OnColumnSizes() { out.push_back("csz"); return ColumnSizeHandler{&out}; }
  void OnFunction(int i, fmt::StringRef name, int nargs, mp::func::Type t) {
    out.push_back("func " + itos(i) + " " + itos((int)t) + " " + itos(nargs) + " " + hexs(name.to_string()));
  }
  struct IntSuffixHandler { Lines *out; void SetValue(int i, int v) { out->push_back("sval " + itos(i) + " " + itos(v)); } };
  struct DblSuffixHandler { Lines *out; void SetValue(int i, double v) { out->push_back("sval " + itos(i) + " " + hexd(v)); } };
  IntSuffixHandler OnIntSuffix(fmt::StringRef name, mp::suf::Kind k, int n) {
    out.push_back("isuf " + itos((int)k) + " " + itos(n) + " " + hexs(name.to_string())); return IntSuffixHandler{&out};
  }
  DblSuffixHandler OnDblSuffix(fmt::StringRef name, mp::suf::Kind k, int n) {
    out.push_back("dsuf " + itos((int)k) + " " + itos(n) + " " + hexs(name.to_string())); return DblSuffixHandler{&out};
  }
  struct ArgHandler { std::shared_ptr<std::string> s; void AddArg(std::string a) { *s += " " + (a.empty() ? std::string("_") : a); } };
  typedef ArgHandler NumericArgHandler; typedef ArgHandler VarArgHandler; typedef ArgHandler CallArgHandler;
  typedef ArgHandler NumberOfArgHandler; typedef ArgHandler CountArgHandler; typedef ArgHandler LogicalArgHandler;
  typedef ArgHandler PairwiseArgHandler; typedef ArgHandler SymbolicArgHandler;
  static ArgHandler mk(const std::string &head) { return ArgHandler{std::make_shared<std::string>(head)}; }
  static std::string fin(ArgHandler h) { return *h.s + ")"; }
  static std::string nz(const std::string &e) { return e.empty() ? "_" : e; }
  std::string OnNumber(double v) { return "(n " + hexd(v) + ")"; }
  std::string OnVariableRef(int i) { return "(v " + itos(i) + ")"; }
  std::string OnCommonExprRef(int i) { return "(ce " + itos(i) + ")"; }
  std::string OnUnary(mp::expr::Kind k, std::string a) { return "(u " + itos((int)k) + " " + nz(a) + ")"; }
  std::string OnBinary(mp::expr::Kind k, std::string a, std::string b) { return "(bin " + itos((int)k) + " " + nz(a) + " " + nz(b) + ")"; }
  std::string OnIf(std::string c, std::string t, std::string e) { return "(if " + nz(c) + " " + nz(t) + " " + nz(e) + ")"; }
  struct PLTermHandler { std::shared_ptr<std::string> s; void AddSlope(double v) { *s += " s" + hexd(v); } void AddBreakpoint(double v) { *s += " b" + hexd(v); } };
  PLTermHandler BeginPLTerm(int nb) { return PLTermHandler{std::make_shared<std::string>("(pl " + itos(nb))}; }
  std::string EndPLTerm(PLTermHandler h, std::string ref) { return *h.s + " " + nz(ref) + ")"; }
  ArgHandler BeginCall(int f, int n) { return mk("(call " + itos(f) + " " + itos(n)); }
  std::string EndCall(ArgHandler h) { return fin(h); }
  ArgHandler BeginVarArg(mp::expr::Kind k, int n) { return mk("(va " + itos((int)k) + " " + itos(n)); }
  std::string EndVarArg(ArgHandler h) { return fin(h); }
  ArgHandler BeginSum(int n) { return mk("(sum " + itos(n)); }
  std::string EndSum(ArgHandler h) { return fin(h); }
  ArgHandler BeginCount(int n) { return mk("(cnt " + itos(n)); }
  std::string EndCount(ArgHandler h) { return fin(h); }
  ArgHandler BeginNumberOf(int n, std::string a0) { return mk("(nof " + itos(n) + " " + nz(a0)); }
  std::string EndNumberOf(ArgHandler h) { return fin(h); }
  ArgHandler BeginSymbolicNumberOf(int n, std::string a0) { return mk("(nofs " + itos(n) + " " + nz(a0)); }
  std::string EndSymbolicNumberOf(ArgHandler h) { return fin(h); }
  std::string OnBool(bool v) { return std::string("(b ") + (v ? "1" : "0") + ")"; }
  std::string OnNot(std::string a) { return "(not " + nz(a) + ")"; }
  std::string OnBinaryLogical(mp::expr::Kind k, std::string a, std::string b) { return "(bl " + itos((int)k) + " " + nz(a) + " " + nz(b) + ")"; }
  std::string OnRelational(mp::expr::Kind k, std::string a, std::string b) { return "(rel " + itos((int)k) + " " + nz(a) + " " + nz(b) + ")"; }
  std::string OnLogicalCount(mp::expr::Kind k, std::string a, std::string b) { return "(lc " + itos((int)k) + " " + nz(a) + " " + nz(b) + ")"; }
  std::string OnImplication(std::string c, std::string t, std::string e) { return "(impl " + nz(c) + " " + nz(t) + " " + nz(e) + ")"; }
  ArgHandler BeginIteratedLogical(mp::expr::Kind k, int n) { return mk("(il " + itos((int)k) + " " + itos(n)); }
  std::string EndIteratedLogical(ArgHandler h) { return fin(h); }
  ArgHandler BeginPairwise(mp::expr::Kind k, int n) { return mk("(pw " + itos((int)k) + " " + itos(n)); }
  std::string EndPairwise(ArgHandler h) { return fin(h); }
  std::string OnString(fmt::StringRef v) { return "(s " + hexs(v.to_string()) + ")"; }
  std::string OnSymbolicIf(std::string c, std::string t, std::string e) { return "(ifs " + nz(c) + " " + nz(t) + " " + nz(e) + ")"; }
  void EndInput() { out.push_back("end"); }
};

// OutputPrecision() = p > 0 (text format): every "%g" item is printed with p significant digits (dtoa mode 2); the value the
// reader must report is then the correctly rounded p-digit decimal, computed here with libc only
static int g_prec = 0; static bool g_text = true;
static std::string hx(double x) {
  if (g_prec > 0 && g_text && std::isfinite(x)) { char b[64]; std::snprintf(b, sizeof b, "%.*g", g_prec, x); x = std::strtod(b, nullptr); }
  return hexd(x);
}
// ---------------------------------------------------------------- intended events (what the fed model means)
enum Ctx { CNUM, CLOG, CSYM };
static bool is_logical_op(int op) {
  const char *n = OPS[op].name;
  for (auto a : BINLOG) if (!strcmp(a, n)) return true;
  for (auto a : RELAT) if (!strcmp(a, n)) return true;
  for (auto a : LOGCNT) if (!strcmp(a, n)) return true;
  for (auto a : ITLOG) if (!strcmp(a, n)) return true;
  for (auto a : PAIRW) if (!strcmp(a, n)) return true;
  return !strcmp(n, "NOT") || !strcmp(n, "IMPLICATION");
}
template <size_t N> static bool in(const char *(&arr)[N], const char *n) { for (auto a : arr) if (!strcmp(a, n)) return true; return false; }
static std::string want(const GModel &m, const GExpr &e, Ctx c);
static std::string want_args(const GModel &m, const GExpr &e, Ctx c, size_t from = 0) {
  std::string s;
  for (size_t i = from; i < e.a.size(); ++i) s += " " + want(m, e.a[i], c);
  return s;
}
static std::string want(const GModel &m, const GExpr &e, Ctx c) {
  int nv = m.h.num_vars;
  switch (e.k) {
  case GExpr::NUM:
    if (c == CLOG) return std::string("(b ") + (e.x != 0 ? "1" : "0") + ")";
    return "(n " + hx(e.x) + ")";
  case GExpr::VAR: return e.i < nv ? "(v " + itos(e.i) + ")" : "(ce " + itos(e.i - nv) + ")";
  case GExpr::STR: return "(s " + hexs(e.s) + ")";
  case GExpr::CALL: return "(call " + itos(e.i) + " " + itos((long long)e.a.size()) + want_args(m, e, CSYM) + ")";
  default: break;
  }
  const char *n = OPS[e.op].name; std::string k = itos(OPS[e.op].kind);
  if (in(UNARY, n)) return "(u " + k + " " + want(m, e.a[0], CNUM) + ")";
  if (in(BINARY, n)) return "(bin " + k + " " + want(m, e.a[0], CNUM) + " " + want(m, e.a[1], CNUM) + ")";
  if (!strcmp(n, "IF")) return "(if " + want(m, e.a[0], CLOG) + " " + want(m, e.a[1], CNUM) + " " + want(m, e.a[2], CNUM) + ")";
  if (!strcmp(n, "IFSYM")) return "(ifs " + want(m, e.a[0], CLOG) + " " + want(m, e.a[1], CSYM) + " " + want(m, e.a[2], CSYM) + ")";
  if (!strcmp(n, "NOT")) return "(not " + want(m, e.a[0], CLOG) + ")";
  if (in(BINLOG, n)) return "(bl " + k + " " + want(m, e.a[0], CLOG) + " " + want(m, e.a[1], CLOG) + ")";
  if (in(RELAT, n)) return "(rel " + k + " " + want(m, e.a[0], CNUM) + " " + want(m, e.a[1], CNUM) + ")";
  if (in(LOGCNT, n)) return "(lc " + k + " " + want(m, e.a[0], CNUM) + " " + want(m, e.a[1], CNUM) + ")";
  if (!strcmp(n, "IMPLICATION")) return "(impl " + want(m, e.a[0], CLOG) + " " + want(m, e.a[1], CLOG) + " " + want(m, e.a[2], CLOG) + ")";
  std::string na = itos((long long)e.a.size());
  if (in(VARARG, n)) return "(va " + k + " " + na + want_args(m, e, CNUM) + ")";
  if (!strcmp(n, "SUM")) return "(sum " + na + want_args(m, e, CNUM) + ")";
  if (!strcmp(n, "COUNT")) return "(cnt " + na + want_args(m, e, CLOG) + ")";
  if (!strcmp(n, "NUMBEROF")) return "(nof " + na + " " + want(m, e.a[0], CNUM) + want_args(m, e, CNUM, 1) + ")";
  if (!strcmp(n, "NUMBEROF_SYM")) return "(nofs " + na + " " + want(m, e.a[0], CSYM) + want_args(m, e, CSYM, 1) + ")";
  if (in(ITLOG, n)) return "(il " + k + " " + na + want_args(m, e, CLOG) + ")";
  if (in(PAIRW, n)) return "(pw " + k + " " + na + want_args(m, e, CNUM) + ")";
  if (!strcmp(n, "PLTERM")) {
    // args: slope, breakpoint, slope, ..., slope, variable   (2*N args for N slopes)
    size_t ns = e.a.size() / 2;
    std::string s = "(pl " + itos((long long)ns - 1);
    for (size_t i = 0; i + 1 < e.a.size(); ++i) s += std::string(i % 2 ? " b" : " s") + hx(e.a[i].x);
    return s + " " + want(m, e.a.back(), CNUM) + ")";
  }
  return "(?" + std::string(n) + ")";
}
static std::string want_top(const GModel &m, const GExpr &e) {   // C and O segments: a constant 0 means "no nonlinear part"
  if (e.k == GExpr::NUM && e.x == 0) return "_";
  return want(m, e, CNUM);
}
static void intended(const GModel &m, int fmt, Lines &out) {
  g_text = fmt == mp::NLHeader::TEXT; g_prec = m.prec;
  mp::NLHeader h = m.h;
  h.format = fmt;
  if (fmt == mp::NLHeader::TEXT) h.arith_kind = 0;
  int mr = 0, mc = 0, mu = 0, mf = 0;
  for (auto &s : m.rown) mr = std::max(mr, (int)s.size());
  for (auto &s : m.coln) mc = std::max(mc, (int)s.size());
  for (auto &s : m.unvn) mu = std::max(mu, (int)s.size());
  for (auto &s : m.fixn) mf = std::max(mf, (int)s.first.size());
  h.max_con_name_len = mr; h.max_var_name_len = mc + mu + mf;
  out.push_back(RecHandler::hdr_line(h));
  for (size_t i = 0; i < m.funcs.size(); ++i)
    out.push_back("func " + itos(i) + " " + itos(m.funcs[i].type) + " " + itos(m.funcs[i].nargs) + " " + hexs(m.funcs[i].name));
  auto suf_i = [&](const std::string &name, int kind, const SparseI &v) {
    if (v.empty()) return;
    out.push_back("isuf " + itos(kind & 3) + " " + itos((long long)v.size()) + " " + hexs(name));
    for (auto &t : v) out.push_back("sval " + itos(t.first) + " " + itos(t.second));
  };
  auto suf_d = [&](const std::string &name, int kind, const Sparse &v) {
    if (v.empty()) return;
    out.push_back("dsuf " + itos(kind & 3) + " " + itos((long long)v.size()) + " " + hexs(name));
    for (auto &t : v) out.push_back("sval " + itos(t.first) + " " + hx(t.second));
  };
  for (auto &s : m.sufs) { if (s.dbl) suf_d(s.name, s.kind, s.dv); else suf_i(s.name, s.kind, s.iv); }
  suf_i("sos", 0, m.sosv); suf_i("sos", 1, m.sosc); suf_d("sosref", 4, m.sosref);
  auto varb = [&]() { for (size_t i = 0; i < m.vb.size(); ++i) out.push_back("vb " + itos(i) + " " + hx(m.vb[i].first) + " " + hx(m.vb[i].second)); };
  auto x0 = [&]() { if (m.has_x0) for (auto &t : m.x0) out.push_back("x0 " + itos(t.first) + " " + hx(t.second)); };
  auto d0 = [&]() { if (m.has_d0) for (auto &t : m.d0) out.push_back("d0 " + itos(t.first) + " " + hx(t.second)); };
  auto conb = [&]() {
    for (size_t i = 0; i < m.cb.size(); ++i) {
      const GConB &b = m.cb[i];
      if (b.k > 0) out.push_back("compl " + itos(i) + " " + itos(b.cvar) + " " + itos(b.k));
      else out.push_back("cb " + itos(i) + " " + hx(b.L) + " " + hx(b.U));
    }
  };
  auto defv = [&](int key) {
    auto it = m.dvs.find(key);
    if (it == m.dvs.end()) return;
    int nac = (int)m.cons.size() + (int)m.lcons.size();
    int pos = key >= 0 ? key : nac - key;
    for (auto &d : it->second) {
      out.push_back("cbeg " + itos(d.index - m.h.num_vars) + " " + itos((long long)d.lin.size()));
      for (auto &t : d.lin) out.push_back("cterm " + itos(t.first) + " " + hx(t.second));
      out.push_back("cend " + itos(d.index - m.h.num_vars) + " " + itos(pos) + " " + want(m, d.e, CNUM));
    }
  };
  if (m.bounds_first) { varb(); x0(); conb(); d0(); }
  defv(0);
  for (size_t i = 0; i < m.cons.size(); ++i) { defv((int)i + 1); out.push_back("acon " + itos(i) + " " + want_top(m, m.cons[i].e)); }
  for (size_t i = 0; i < m.lcons.size(); ++i) { defv((int)(m.cons.size() + i) + 1); out.push_back("lcon " + itos(i) + " " + want(m, m.lcons[i].e, CLOG)); }
  for (size_t i = 0; i < m.objs.size(); ++i) {
    defv(-(int)i - 1);
    if (m.need_obj < 0 || m.need_obj == (int)i) out.push_back("obj " + itos(i) + " " + itos(m.objs[i].type) + " " + want_top(m, m.objs[i].e));
  }
  if (!m.bounds_first) { d0(); x0(); conb(); varb(); }
  if (m.colsizes) { out.push_back("csz"); for (int s : m.colsz) out.push_back("cadd " + itos(s)); }
  for (size_t i = 0; i < m.cons.size(); ++i) if (m.cons[i].lin.size()) {
    out.push_back("jbeg " + itos(i) + " " + itos((long long)m.cons[i].lin.size()));
    for (auto &t : m.cons[i].lin) out.push_back("jterm " + itos(t.first) + " " + hx(t.second));
  }
  for (size_t i = 0; i < m.objs.size(); ++i) if (m.objs[i].lin.size() && (m.need_obj < 0 || m.need_obj == (int)i)) {
    out.push_back("gbeg " + itos(i) + " " + itos((long long)m.objs[i].lin.size()));
    for (auto &t : m.objs[i].lin) out.push_back("gterm " + itos(t.first) + " " + hx(t.second));
  }
  out.push_back("end");
}

// ---------------------------------------------------------------- generator
static long dbl_class[16];
static double gen_double(bool allow_inf = true) {
  int c = rint_(0, 13);
  ++dbl_class[c];
  uint64_t r = rnd();
  switch (c) {
  case 0: return (double)rint_(-9, 9);
  case 1: return (double)rint_(-40000, 40000);                   // around the short boundary
  case 2: { static const double b[] = {32767, 32768, -32768, -32769, 2147483647., 2147483648., -2147483648., -2147483649., 65536, 1e9, 4294967296.};
            return b[r % 11]; }
  case 3: return (double)(int64_t)(r >> 11) * (coin(50) ? 1 : -1);  // big integers (<2^53)
  case 4: return from_bits((r & 0x800fffffffffffffULL) | (uint64_t(1023 - 30 + r % 60) << 52));   // 17-digit, moderate exponent
  case 5: return from_bits(r & 0x800fffffffffffffULL);            // subnormal
  case 6: return from_bits((r & 0x8000000000000000ULL) | 1);      // smallest subnormal
  case 7: { uint64_t e = 1 + (r >> 3) % 2046; return from_bits((r & 0x800fffffffffffffULL) | (e << 52)); }  // any normal
  case 8: { static const double b[] = {0.1, 0.2, 0.3, 1e-5, 1e22, 1e23, 5e-324, 2.2250738585072014e-308, 1.7976931348623157e308, 9007199254740993.0,
                                       0.30000000000000004, 1.0000000000000002, 123456789012345678.0, 1e-7, 1e15, 1e16, 1e17, 0.0001, 0.00001};
            double v = b[r % 19]; return coin(30) ? -v : v; }
  case 9: return allow_inf ? (coin(50) ? INFINITY : -INFINITY) : 1.5;
  case 10: return coin(50) ? 0.0 : -0.0;
  case 11: return std::ldexp((double)rint_(-999, 999), rint_(-12, 12));   // dyadic
  case 12: return (double)rint_(-999999, 999999) / 1000.0;                 // decimals
  default: return (double)rint_(-3, 3) * 0.5;
  }
}
// a double that is never +-DBL_MAX / infinite in the "wrong" role
static double gen_finite_bound() { double v; do v = gen_double(false); while (std::fabs(v) >= DBL_MAX); return v; }

static std::string gen_name(bool allow_odd) {
  static const char *base[] = {"x", "y[1]", "cost", "c1", "Demand['NY','a b']", "f_gsl", "priority", "sosno", "ref", "z.lb", "_svar[3]", "A", "q-1"};
  std::string s = base[rnd() % 13];
  if (!allow_odd) { for (auto &ch : s) if (ch == ' ') ch = '_'; }
  if (coin(30)) s += itos(rint_(0, 99));
  if (coin(5)) s = std::string(rint_(1, 60), 'n');
  return s;
}
static std::string gen_descr() {
  static const char *d[] = {"", "c", "obj 1", "nl(t[2])", "x + y <= 3", "#weird# \ttab", "  lead", "a\"q\"", "very long description of a constraint used as comment"};
  return d[rnd() % 9];
}
static std::string gen_string() {
  static const char *d[] = {"", "abc", "a b", "line1\nline2", "tab\there", "h3:xyz", "\n", "12:34", "quote\"s", "trailing "};
  return d[rnd() % 10];
}

struct Gen {
  GModel &m; int nv, nce_avail;  // nce_avail: number of defined variables that may be referenced (indices nv..nv+nce_avail-1)
  long nodes = 0;
  Gen(GModel &mm) : m(mm), nv(mm.h.num_vars), nce_avail(0) {}
  GExpr num(double v) { GExpr e; e.k = GExpr::NUM; e.x = v; return e; }
  GExpr var() { GExpr e; e.k = GExpr::VAR; e.i = (nce_avail > 0 && coin(35)) ? nv + rint_(0, nce_avail - 1) : rint_(0, nv - 1); e.descr = gen_descr(); return e; }
  std::vector<GExpr> many(int n, int depth, Ctx c) { std::vector<GExpr> v; for (int i = 0; i < n; ++i) v.push_back(c == CNUM ? numeric(depth) : c == CLOG ? logical(depth) : symbolic(depth)); return v; }
  GExpr mkop(GExpr::K k, int op, std::vector<GExpr> a) { GExpr e; e.k = k; e.op = op; e.a = std::move(a); e.descr = coin(50) ? OPS[op].name : gen_descr(); return e; }
  GExpr count(int depth) { return mkop(GExpr::OPN, use("COUNT"), many(rint_(1, 4), depth - 1, CLOG)); }
  GExpr numeric(int depth) {
    ++nodes;
    if (depth <= 0) return coin(50) ? num(gen_double()) : var();
    switch (rint_(0, 11)) {
    case 0: return num(gen_double());
    case 1: return var();
    case 2: return mkop(GExpr::OP1, pick(UNARY), many(1, depth - 1, CNUM));
    case 3: case 4: return mkop(GExpr::OP2, pick(BINARY), many(2, depth - 1, CNUM));
    case 5: { std::vector<GExpr> a; a.push_back(logical(depth - 1)); a.push_back(numeric(depth - 1)); a.push_back(numeric(depth - 1)); return mkop(GExpr::OP3, use("IF"), a); }
    case 6: return mkop(GExpr::OPN, pick(VARARG), many(rint_(1, 4), depth - 1, CNUM));
    case 7: return mkop(GExpr::OPN, use("SUM"), many(rint_(3, 6), depth - 1, CNUM));
    case 8: return count(depth);
    case 9: {
      if (coin(50)) return mkop(GExpr::OPN, use("NUMBEROF"), many(rint_(1, 4), depth - 1, CNUM));
      return mkop(GExpr::OPN, use("NUMBEROF_SYM"), many(rint_(1, 4), depth - 1, CSYM));
    }
    case 10: {  // piecewise-linear term: N slopes, N-1 breakpoints, reference; N >= 2
      int ns = rint_(2, 4);
      std::vector<GExpr> a;
      for (int i = 0; i < ns; ++i) { a.push_back(num(gen_double(false))); if (i + 1 < ns) a.push_back(num(gen_double(false))); }
      a.push_back(var());
      return mkop(GExpr::OPN, use("PLTERM"), a);
    }
    default: {
      if (m.funcs.empty()) return num(gen_double());
      GExpr e; e.k = GExpr::CALL; e.i = rint_(0, (int)m.funcs.size() - 1); e.a = many(rint_(0, 3), depth - 1, CSYM); e.descr = gen_descr();   // 0 arguments are legal (f<i> 0)
      return e;
    }
    }
  }
  GExpr logical(int depth) {
    ++nodes;
    if (depth <= 0) return num(coin(50) ? (double)rint_(0, 1) : gen_double());   // boolean constant
    switch (rint_(0, 8)) {
    case 0: return num((double)rint_(0, 1));
    case 1: return mkop(GExpr::OP1, use("NOT"), many(1, depth - 1, CLOG));
    case 2: return mkop(GExpr::OP2, pick(BINLOG), many(2, depth - 1, CLOG));
    case 3: case 4: return mkop(GExpr::OP2, pick(RELAT), many(2, depth - 1, CNUM));
    case 5: { std::vector<GExpr> a; a.push_back(numeric(depth - 1)); a.push_back(count(depth - 1)); return mkop(GExpr::OP2, pick(LOGCNT), a); }
    case 6: return mkop(GExpr::OP3, use("IMPLICATION"), many(3, depth - 1, CLOG));
    case 7: return mkop(GExpr::OPN, pick(ITLOG), many(rint_(3, 5), depth - 1, CLOG));
    default: return mkop(GExpr::OPN, pick(PAIRW), many(rint_(1, 4), depth - 1, CNUM));
    }
  }
  GExpr symbolic(int depth) {
    ++nodes;
    int r = rint_(0, 5);
    if (r == 0) { GExpr e; e.k = GExpr::STR; e.s = gen_string(); return e; }
    if (r == 1 && depth > 0) { std::vector<GExpr> a; a.push_back(logical(depth - 1)); a.push_back(symbolic(depth - 1)); a.push_back(symbolic(depth - 1)); return mkop(GExpr::OP3, use("IFSYM"), a); }
    return numeric(depth);
  }
  Sparse sparse(int maxidx, int n, bool allow_inf = true) {   // n distinct-or-not indices < maxidx
    Sparse s; for (int i = 0; i < n; ++i) s.push_back({rint_(0, maxidx - 1), gen_double(allow_inf)}); return s;
  }
};

static long stat_models = 0, stat_runs = 0, stat_nodes = 0;
static std::map<std::string, long> hist;

static GModel gen_model(int size_class, int findings_mask) {
  // findings_mask bits: 1 = multi-digit vbtol, 2 = +-DBL_MAX bound, 4 = text header with arith_kind=0 and flags=0
  GModel m;
  mp::NLHeader &h = m.h;
  int N = size_class;
  h.num_vars = rint_(1, std::max(1, N));
  int nv = h.num_vars;
  int nac = rint_(0, N), nlc = coin(50) ? rint_(0, std::max(0, N / 2)) : 0, no = rint_(0, std::min(N, 3));
  h.num_algebraic_cons = nac; h.num_logical_cons = nlc; h.num_objs = no;
  h.num_ranges = rint_(0, nac); h.num_eqns = rint_(0, nac);
  h.num_nl_cons = rint_(0, nac); h.num_nl_objs = rint_(0, no);
  // the five variable-ordering classes (+ integer members)
  int nlvb = rint_(0, nv), nlvc = nlvb + rint_(0, nv - nlvb), nlvo = nlvb + rint_(0, nv - nlvc);
  h.num_nl_vars_in_both = nlvb; h.num_nl_vars_in_cons = nlvc; h.num_nl_vars_in_objs = nlvo;
  h.num_nl_integer_vars_in_both = rint_(0, nlvb); h.num_nl_integer_vars_in_cons = rint_(0, nlvc - nlvb);
  h.num_nl_integer_vars_in_objs = rint_(0, nlvo - nlvb);
  int lin = nv - std::max(nlvc, nlvo); if (lin < 0) lin = 0;
  h.num_linear_binary_vars = rint_(0, lin); h.num_linear_integer_vars = rint_(0, lin - h.num_linear_binary_vars);
  h.num_nl_net_cons = coin(10) ? rint_(0, 2) : 0; h.num_linear_net_cons = coin(10) ? rint_(0, 2) : 0; h.num_linear_net_vars = coin(10) ? rint_(0, 2) : 0;
  h.num_con_nonzeros = rnd() % 1000; h.num_obj_nonzeros = rnd() % 100;
  if (coin(3)) h.num_con_nonzeros = 5000000000ULL;   // size_t field
  // common expressions
  int ce[5] = {0, 0, 0, 0, 0};
  if (coin(60)) { ce[0] = rint_(0, 2); ce[1] = nac > 1 ? rint_(0, 2) : 0; ce[2] = no > 1 ? rint_(0, 1) : 0; ce[3] = nac + nlc > 0 ? rint_(0, 2) : 0; ce[4] = no > 0 ? rint_(0, 2) : 0; }
  h.num_common_exprs_in_both = ce[0]; h.num_common_exprs_in_cons = ce[1]; h.num_common_exprs_in_objs = ce[2];
  h.num_common_exprs_in_single_cons = ce[3]; h.num_common_exprs_in_single_objs = ce[4];
  // options
  h.num_ampl_options = rint_(0, 9);
  for (int i = 0; i < 9; ++i) h.ampl_options[i] = i < h.num_ampl_options ? (coin(70) ? rint_(0, 3) : (long)(rnd() % 2000001) - 1000000) : 0;
  if (h.num_ampl_options >= 2 && h.ampl_options[1] == 3) h.ampl_options[1] = 2;
  h.ampl_vbtol = 0;
  if (h.num_ampl_options >= 2 && coin(30)) {     // vbtol in use
    h.ampl_options[1] = 3;
    static const double vbs[] = {1e-5, 0.001, 2e-7, 0.5, 3, 1e-10, 4e5, 0, 0.00015, 1.5e-6, 0.123, 12, 2.5e-9, 0.1234567890123456789, -0.0, 1.0 / 3};
    h.ampl_vbtol = coin(70) ? vbs[rnd() % 16] : gen_double(false);
    if (findings_mask & 1) h.ampl_vbtol = 0.123;
  } else if (findings_mask & 1) {
    h.num_ampl_options = std::max(h.num_ampl_options, 2); h.ampl_options[1] = 3; h.ampl_vbtol = 0.00015;
  }
  h.flags = coin(60) ? 1 : 0;
  h.arith_kind = mp::arith::GetKind();   // binary needs the native kind; text ignores it
  if (findings_mask & 4) { h.flags = 0; h.arith_kind = 0; }
  if (findings_mask & 8) {     // SNL2006 header fields: written by WriteNLHeader, skipped by ReadHeader
    h.num_stages = rint_(2, 4); h.num_rand_common_exprs = rint_(0, 2); h.num_rand_cons = rint_(0, 2); h.num_rand_objs = rint_(0, 2);
    h.num_rand_calls = rint_(0, 3);
    if (coin(60)) h.num_rand_vars = rint_(1, 3);    // then the 'k' count is num_vars + num_rand_vars - 1: only readable without column sizes
  }
  m.prob_name = coin(50) ? "nl_instance" : gen_name(true);
  // complementarity
  int ncompl = 0;
  // functions
  h.num_funcs = coin(40) ? rint_(1, 3) : 0;
  for (int i = 0; i < h.num_funcs; ++i) m.funcs.push_back(GFunc{gen_name(false), rint_(-3, 4), rint_(0, 1)});
  Gen g(m);
  int depth = N <= 2 ? 1 : (N <= 5 ? 2 : 3);
  // bounds
  for (int i = 0; i < nv; ++i) {
    double lb, ub;
    switch (rint_(0, 5)) {
    case 0: lb = gen_finite_bound(); ub = lb + std::fabs(gen_finite_bound()); if (!(ub > lb) || std::isinf(ub) || ub >= DBL_MAX) ub = lb + 1; if (ub >= DBL_MAX || ub == lb) { lb = 0; ub = 1; } break;
    case 1: lb = -INFINITY; ub = gen_finite_bound(); break;
    case 2: lb = gen_finite_bound(); ub = INFINITY; break;
    case 3: lb = -INFINITY; ub = INFINITY; break;
    case 4: lb = ub = gen_finite_bound(); break;
    default: lb = gen_finite_bound(); ub = gen_finite_bound(); break;    // possibly lb > ub
    }
    m.vb.push_back({lb, ub});
  }
  for (int i = 0; i < nac; ++i) {
    GConB b{0, 0, 0, 0};
    int kind = rint_(0, 6);
    if (kind == 6) { b.k = rint_(1, 3); b.cvar = rint_(0, nv - 1); ++ncompl; }
    else if (kind == 0) { b.L = gen_finite_bound(); b.U = gen_finite_bound(); }
    else if (kind == 1) { b.L = -INFINITY; b.U = gen_finite_bound(); }
    else if (kind == 2) { b.L = gen_finite_bound(); b.U = INFINITY; }
    else if (kind == 3) { b.L = -INFINITY; b.U = INFINITY; }
    else if (kind == 4) { b.L = b.U = gen_finite_bound(); }
    else { b.L = coin(50) ? INFINITY : gen_finite_bound(); b.U = coin(50) ? -INFINITY : INFINITY; }   // odd but legal doubles
    m.cb.push_back(b);
  }
  if ((findings_mask & 2)) {
    if (coin(50) || nac == 0) { auto &b = m.vb[rint_(0, nv - 1)]; if (coin(50)) { b.first = -DBL_MAX; b.second = 1; } else { b.first = 0; b.second = DBL_MAX; } }
    else { auto &b = m.cb[rint_(0, nac - 1)]; b.k = 0; if (coin(50)) { b.L = -DBL_MAX; b.U = 1; } else { b.L = 0; b.U = DBL_MAX; } }
    ncompl = 0; for (auto &b : m.cb) if (b.k > 0) ++ncompl;
  }
  h.num_compl_conds = ncompl; h.num_nl_compl_conds = rint_(0, ncompl);
  h.num_compl_dbl_ineqs = ncompl ? rint_(0, ncompl) : 0; h.num_compl_vars_with_nz_lb = ncompl ? rint_(0, ncompl) : 0;
  // defined variables: indices nv .. nv+nce-1, defined in writing order so that references go backwards only
  int nce = m.ncexpr(), next = nv;
  auto mkdv = [&](int key) {
    GDefVar d; d.index = next++; d.descr = gen_descr();
    int nl = coin(50) ? rint_(0, std::min(nv, 3)) : 0;
    d.lin = g.sparse(nv, nl);
    d.e = g.numeric(depth);
    m.dvs[key].push_back(d);
    g.nce_avail = next - nv;
  };
  int shared = ce[0] + ce[1] + ce[2];
  for (int i = 0; i < shared; ++i) mkdv(0);
  int sc_left = ce[3], so_left = ce[4];
  // expressions of constraints and objectives (defined variables used in a single place are created just before)
  for (int i = 0; i < nac; ++i) {
    if (sc_left > 0 && (coin(50) || (i == nac - 1 && nlc == 0))) { int k = (i == nac - 1 && nlc == 0) ? sc_left : 1; for (int j = 0; j < k; ++j) mkdv(i + 1); sc_left -= k; }
    GCon c; c.descr = gen_descr();
    c.e = coin(35) ? g.num(coin(70) ? 0.0 : (coin(50) ? -0.0 : gen_double())) : g.numeric(depth);
    if (coin(70)) c.lin = g.sparse(nv, rint_(1, std::min(nv, 4)));
    m.cons.push_back(c);
  }
  for (int i = 0; i < nlc; ++i) {
    if (sc_left > 0 && (coin(50) || i == nlc - 1)) { int k = i == nlc - 1 ? sc_left : 1; for (int j = 0; j < k; ++j) mkdv(nac + i + 1); sc_left -= k; }
    GCon c; c.descr = gen_descr(); c.e = g.logical(depth);
    m.lcons.push_back(c);
  }
  for (int i = 0; i < no; ++i) {
    if (so_left > 0 && (coin(50) || i == no - 1)) { int k = i == no - 1 ? so_left : 1; for (int j = 0; j < k; ++j) mkdv(-i - 1); so_left -= k; }
    GObj o; o.type = rint_(0, 1); o.descr = gen_descr();
    o.e = coin(35) ? g.num(coin(70) ? 0.0 : gen_double()) : g.numeric(depth);
    if (coin(70)) o.lin = g.sparse(nv, rint_(1, std::min(nv, 4)));
    m.objs.push_back(o);
  }
  if (next - nv != nce) { std::fprintf(stderr, "generator bug: %d defined variables made, header says %d\n", next - nv, nce); std::exit(3); }
  // initial values
  if (coin(50)) { m.has_x0 = true; m.x0 = g.sparse(nv, rint_(0, nv)); }
  if (nac > 0 && coin(50)) { m.has_d0 = true; m.d0 = g.sparse(nac, rint_(0, nac)); }
  // suffixes
  int ns = coin(60) ? rint_(1, 4) : 0;
  for (int i = 0; i < ns; ++i) {
    GSuf s; s.name = gen_name(false); s.kind = rint_(0, 3); s.dbl = coin(50);
    int items = s.kind == 0 ? nv : s.kind == 1 ? nac + nlc : s.kind == 2 ? no : 1;
    if (items == 0) continue;
    int n = rint_(0, items);
    for (int j = 0; j < n; ++j) {
      int idx = rint_(0, items - 1);
      if (s.dbl) s.dv.push_back({idx, gen_double()});
      else { static const int iv[] = {0, 1, -1, 7, 32767, -32768, 65536, INT_MAX, INT_MIN + 1, 1000000, -999, INT_MIN}; s.iv.push_back({idx, iv[rnd() % 12]}); }
    }
    if (s.dbl) s.kind |= 4;
    m.sufs.push_back(s);
  }
  if (coin(20)) {
    int n = rint_(1, nv); for (int j = 0; j < n; ++j) m.sosv.push_back({rint_(0, nv - 1), rint_(-5, 5)});
    if (nac + nlc > 0 && coin(50)) { int k = rint_(1, nac + nlc); for (int j = 0; j < k; ++j) m.sosc.push_back({rint_(0, nac + nlc - 1), rint_(1, 9)}); }
    if (coin(70)) { int k = rint_(1, nv); m.sosref = g.sparse(nv, k, false); }
  }
  // column sizes
  for (int i = 0; i + 1 < nv; ++i) m.colsz.push_back(coin(10) ? rint_(0, 1000000) : rint_(0, 9));
  // names
  if (coin(40)) { for (int i = 0; i < nac + nlc + no; ++i) m.rown.push_back(gen_name(true)); }
  if (coin(40)) { for (int i = 0; i < nv; ++i) m.coln.push_back(gen_name(true)); }
  if (coin(15)) { int k = rint_(1, 3); for (int i = 0; i < k; ++i) m.unvn.push_back(gen_name(true)); }
  if (coin(15)) { int k = rint_(1, 3); for (int i = 0; i < k; ++i) m.fixn.push_back({gen_name(true), gen_descr()}); }
  if (coin(15)) { for (int i = 0; i < no; ++i) m.adjn.push_back({gen_name(true), gen_double()}); }
  if (coin(10)) { int k = rint_(1, 2); for (int i = 0; i < k; ++i) m.slcn.push_back(gen_name(true)); }
  m.names_unchecked = coin(30);
  stat_nodes += g.nodes;
  return m;
}

// ---------------------------------------------------------------- model serialisation for the Lean driver
static void ser_expr(const GExpr &e, std::string &s) {
  switch (e.k) {
  case GExpr::NUM: s += " n " + hexd(e.x); return;
  case GExpr::VAR: s += " v " + itos(e.i) + " " + hexs(e.descr); return;
  case GExpr::STR: s += " s " + hexs(e.s); return;
  case GExpr::CALL: s += " f " + itos(e.i) + " " + itos((long long)e.a.size()) + " " + hexs(e.descr); break;
  case GExpr::OP1: s += std::string(" o1 ") + OPS[e.op].name + " " + hexs(e.descr); break;
  case GExpr::OP2: s += std::string(" o2 ") + OPS[e.op].name + " " + hexs(e.descr); break;
  case GExpr::OP3: s += std::string(" o3 ") + OPS[e.op].name + " " + hexs(e.descr); break;
  case GExpr::OPN: s += std::string(" oN ") + OPS[e.op].name + " " + itos((long long)e.a.size()) + " " + hexs(e.descr); break;
  }
  for (auto &c : e.a) ser_expr(c, s);
}
static std::string ser_sparse(const Sparse &v) { std::string s = itos((long long)v.size()); for (auto &t : v) s += " " + itos(t.first) + " " + hexd(t.second); return s; }
static std::string ser_sparse_i(const SparseI &v) { std::string s = itos((long long)v.size()); for (auto &t : v) s += " " + itos(t.first) + " " + itos(t.second); return s; }
static void serialise(const GModel &m, long id) {
  const mp::NLHeader &h = m.h;
  std::printf("M case %ld\n", id);
  std::printf("M hdr %d", h.num_ampl_options);
  for (int i = 0; i < 9; ++i) std::printf(" %ld", h.ampl_options[i]);
  std::printf(" %s %s", hexd(h.ampl_vbtol).c_str(), hexs(m.prob_name).c_str());
  int f[] = {h.num_vars, h.num_algebraic_cons, h.num_objs, h.num_ranges, h.num_eqns, h.num_logical_cons,
             h.num_rand_vars, h.num_rand_common_exprs, h.num_rand_cons, h.num_rand_objs, h.num_rand_calls, h.num_stages,
             h.num_nl_cons, h.num_nl_objs, h.num_compl_conds, h.num_nl_compl_conds, h.num_compl_dbl_ineqs, h.num_compl_vars_with_nz_lb,
             h.num_nl_net_cons, h.num_linear_net_cons, h.num_nl_vars_in_cons, h.num_nl_vars_in_objs, h.num_nl_vars_in_both,
             h.num_linear_net_vars, h.num_funcs, h.arith_kind, h.flags,
             h.num_linear_binary_vars, h.num_linear_integer_vars, h.num_nl_integer_vars_in_both, h.num_nl_integer_vars_in_cons,
             h.num_nl_integer_vars_in_objs};
  for (size_t i = 0; i < sizeof(f) / sizeof(f[0]); ++i) std::printf(" %d", f[i]);
  std::printf(" %llu %llu", (unsigned long long)h.num_con_nonzeros, (unsigned long long)h.num_obj_nonzeros);
  std::printf(" %d %d %d %d %d\n", h.num_common_exprs_in_both, h.num_common_exprs_in_cons, h.num_common_exprs_in_objs,
              h.num_common_exprs_in_single_cons, h.num_common_exprs_in_single_objs);
  for (auto &fn : m.funcs) std::printf("M func %d %d %s\n", fn.type, fn.nargs, hexs(fn.name).c_str());
  for (auto &s : m.sufs) {
    if (s.dbl) std::printf("M dsuf %d %s %s\n", s.kind, hexs(s.name).c_str(), ser_sparse(s.dv).c_str());
    else std::printf("M isuf %d %s %s\n", s.kind, hexs(s.name).c_str(), ser_sparse_i(s.iv).c_str());
  }
  std::printf("M sosv %s\n", ser_sparse_i(m.sosv).c_str());
  std::printf("M sosc %s\n", ser_sparse_i(m.sosc).c_str());
  std::printf("M sosref %s\n", ser_sparse(m.sosref).c_str());
  for (auto &b : m.vb) std::printf("M vb %s %s\n", hexd(b.first).c_str(), hexd(b.second).c_str());
  for (auto &b : m.cb) std::printf("M cb %s %s %d %d\n", hexd(b.L).c_str(), hexd(b.U).c_str(), b.k, b.cvar);
  if (m.has_x0) std::printf("M x0 %s\n", ser_sparse(m.x0).c_str());
  if (m.has_d0) std::printf("M d0 %s\n", ser_sparse(m.d0).c_str());
  for (auto &kv : m.dvs) for (auto &d : kv.second) {
    std::string s; ser_expr(d.e, s);
    std::printf("M dv %d %d %s %s%s\n", kv.first, d.index, hexs(d.descr).c_str(), ser_sparse(d.lin).c_str(), s.c_str());
  }
  for (auto &c : m.cons) { std::string s; ser_expr(c.e, s); std::printf("M con %s %s%s\n", hexs(c.descr).c_str(), ser_sparse(c.lin).c_str(), s.c_str()); }
  for (auto &c : m.lcons) { std::string s; ser_expr(c.e, s); std::printf("M lcon %s%s\n", hexs(c.descr).c_str(), s.c_str()); }
  for (auto &o : m.objs) { std::string s; ser_expr(o.e, s); std::printf("M obj %d %s %s%s\n", o.type, hexs(o.descr).c_str(), ser_sparse(o.lin).c_str(), s.c_str()); }
  std::printf("M cs %zu", m.colsz.size()); for (int s : m.colsz) std::printf(" %d", s); std::printf("\n");
  auto names = [&](const char *tag, const std::vector<std::string> &v) { std::printf("M %s %zu", tag, v.size()); for (auto &s : v) std::printf(" %s", hexs(s).c_str()); std::printf("\n"); };
  names("rown", m.rown); names("coln", m.coln); names("unvn", m.unvn);
  std::vector<std::string> fx; for (auto &p : m.fixn) fx.push_back(p.first);
  names("fixn", fx);
}

// ---------------------------------------------------------------- one run: write with the real writer, read with the real reader
static std::string g_dir;
static void run_one(GModel &m, long id, int fmt, bool comments, bool bf, int cs, int reader_flags) {
  m.h.format = fmt; m.comments = comments; m.bounds_first = bf; m.colsizes = cs;
  int saved_arith = m.h.arith_kind;
  if (fmt == mp::NLHeader::BINARY) m.h.arith_kind = mp::arith::GetKind();   // the feeder contract for binary output
  // what "%.17g" followed by strtod makes of ampl_vbtol (plain libc, independent of writer and reader)
  char vbuf[64]; std::snprintf(vbuf, sizeof vbuf, "%.17g", m.h.ampl_vbtol);
  double vb_back = std::strtod(vbuf, nullptr);
  std::printf("M arith %d\n", m.h.arith_kind);
  std::printf("M run %d %d %d %d %d %s\n", fmt, comments ? 1 : 0, bf ? 1 : 0, cs, reader_flags, hexd(vb_back).c_str());
  std::string base = g_dir + "/m";
  std::remove((base + ".nl").c_str());
  GenFeeder feeder(m);
  mp::NLUtils utils;
  mp::WriteNLResult res = mp::WriteNLFile(base, feeder, utils);
  Lines got;
  if (res.first != NLW2_WriteNL_OK) {
    got.push_back("write-failed " + itos((int)res.first));
  } else {
    RecHandler rh(got);
    rh.need_obj = m.need_obj;
    try {
      mp::ReadNLFile(base + ".nl", rh, reader_flags);
    } catch (const mp::ReadError &e) { got.push_back("read-error");  got.push_back(std::string("# ") + e.what()); }
    catch (const mp::BinaryReadError &e) { got.push_back("read-error"); got.push_back(std::string("# ") + e.what()); }
    catch (const mp::Error &e) { got.push_back("read-error"); got.push_back(std::string("# ") + e.what()); }
    catch (const std::exception &e) { got.push_back("read-error"); got.push_back(std::string("# ") + e.what()); }
  }
  for (auto &l : got) std::printf("I %s\n", l.c_str());
  Lines exp; intended(m, fmt, exp);
  for (auto &l : exp) std::printf("X %s\n", l.c_str());
  ++stat_runs;
  m.h.arith_kind = saved_arith;
}
// file-size family: pad the problem name (header comment, present in text and binary) so that the written .nl file is
// exactly a multiple of the page size (+ delta): NLFileReader then takes its non-mmap path (size == rounded size) or the
// mmap path with 1 / 4095 bytes in the last page.
#include <sys/stat.h>
static long file_size(const std::string &fn) { struct stat st; return ::stat(fn.c_str(), &st) == 0 ? (long)st.st_size : -1; }
static long stat_padded[3] = {0, 0, 0}, stat_pad_miss = 0;
static void run_padded(GModel &m, long id, int fmt, bool comments, bool bf, int cs, int delta, int reader_flags) {
  std::string saved = m.prob_name;
  m.h.format = fmt; m.comments = comments; m.bounds_first = bf; m.colsizes = cs;
  int saved_arith = m.h.arith_kind;
  if (fmt == mp::NLHeader::BINARY) m.h.arith_kind = mp::arith::GetKind();
  std::string base = g_dir + "/m";
  { GenFeeder feeder(m); mp::NLUtils utils; mp::WriteNLFile(base, feeder, utils); }
  m.h.arith_kind = saved_arith;
  long s0 = file_size(base + ".nl");
  if (s0 > 0) {
    const long page = 4096;
    long target = ((s0 + page - 1) / page) * page + delta;
    while (target < s0) target += page;
    m.prob_name = saved + std::string((size_t)(target - s0), 'p');
    run_one(m, id, fmt, comments, bf, cs, reader_flags);
    long s1 = file_size(base + ".nl");
    if (s1 == target) ++stat_padded[delta + 1]; else ++stat_pad_miss;
    std::printf("# padded fmt=%d delta=%d size=%ld target=%ld\n", fmt, delta, s1, target);
  }
  m.prob_name = saved;
}

static void check_names(const GModel &m) {
  std::string base = g_dir + "/m";
  auto one = [&](const char *ext, const std::vector<std::string> &fed) {
    std::string fn = base + ext;
    FILE *f = std::fopen(fn.c_str(), "rb");
    if (!f) { std::printf("N %s absent fed=%zu\n", ext, fed.size()); return; }
    std::fclose(f);
    mp::NameProvider np(fn, "_gen", fed.size());
    std::string line = std::string("N ") + ext + " read=" + itos((long long)np.number_read()) + " fed=" + itos((long long)fed.size());
    bool same = np.number_read() == fed.size();
    for (size_t i = 0; same && i < fed.size(); ++i) { fmt::StringRef r = np.name(i); same = r.to_string() == fed[i]; }
    line += same ? " same" : " DIFFERENT";
    std::printf("%s\n", line.c_str());
  };
  one(".row", m.rown); one(".col", m.coln);
}

// ---------------------------------------------------------------- number codec test: g_fmt -> strtod (labelled TEST, not proof)
static long g_bad_printed = 0, g_bad_cap = 4000;
static void report_bad(const char *stream, double x, const char *printed, double y, bool consumed_all) {
  if (g_bad_printed++ < g_bad_cap) std::printf("GB %s %s %s%s %s\n", stream, hexd(x).c_str(), printed, consumed_all ? "" : "+junk", hexd(y).c_str());
}
static bool adjacent_bits(double x, double y) {
  uint64_t a, b; std::memcpy(&a, &x, 8); std::memcpy(&b, &y, 8);
  return (a > b ? a - b : b - a) == 1;
}
static void codec_test(long n) {
  long bad = 0, tested = 0; std::string first_bad;
  fmt::Locale loc;
  for (long i = 0; i < n; ++i) {
    double x;
    uint64_t r = rnd();
    switch (i % 8) {
    case 0: x = from_bits(r); break;                                   // any bit pattern
    case 1: x = from_bits(r & 0x800fffffffffffffULL); break;           // subnormals
    case 2: x = (double)(int64_t)(r >> (r % 60)); break;               // integers of all magnitudes
    case 3: x = from_bits((r & 0x800fffffffffffffULL) | (uint64_t(1023 - 40 + (r >> 53) % 80) << 52)); break;
    case 4: x = std::strtod((itos((long long)(r % 100000000000000000ULL)) + "e" + itos((long long)(r >> 58) - 30)).c_str(), nullptr); break;  // 17-digit decimals
    case 5: x = from_bits(0x7fefffffffffffffULL - (r % 1000)); break;  // near DBL_MAX
    case 6: x = from_bits(0x0010000000000000ULL + (r % 2000) - 1000); break;   // around DBL_MIN
    default: x = (double)(long long)(r % 2000001) / 1000.0 - 1000.0; break;
    }
    if (std::isnan(x)) continue;
    char buf[64];
    DAVID_GAY_GFMT::g_fmt(buf, x, 0);
    const char *p = buf;
    double y = loc.strtod(p);
    ++tested;
    bool ok = (x == 0 && y == 0) || (hexd(x) == hexd(y) && *p == 0);
    if (!ok) { if (!bad) first_bad = hexd(x) + " -> \"" + buf + "\" -> " + hexd(y); ++bad; report_bad("random", x, buf, y, *p == 0); }
  }
  // the fixed list: infinities, extremes
  const double fx[] = {INFINITY, -INFINITY, DBL_MAX, -DBL_MAX, DBL_MIN, 4.9406564584124654e-324, 0.0, -0.0, 1e23, 9007199254740993.0, 5e-324, 0.1, 1.0 / 3};
  for (double x : fx) {
    char buf[64]; DAVID_GAY_GFMT::g_fmt(buf, x, 0); const char *p = buf; double y = loc.strtod(p); ++tested;
    bool ok = (x == 0 && y == 0) || (hexd(x) == hexd(y) && *p == 0);
    if (!ok) { if (!bad) first_bad = hexd(x) + " -> \"" + buf + "\" -> " + hexd(y); ++bad; report_bad("random", x, buf, y, *p == 0); }
  }
  std::printf("G tested=%ld bad=%ld first=%s\n", tested, bad, bad ? first_bad.c_str() : "-");
}

// constructed stream: doubles whose shortest decimal candidate lies exactly on, or next to, the rounding boundary x +- ulp/2
//  (a) integer-valued doubles x = m*2^e >= 2^53 for which T = x +- 2^(e-1) is a short decimal d*10^k (T = q*2^(e-1)*5^k, q odd):
//      both neighbours of T are tested, one has an odd and one an even significand;
//  (b) neighbours (0, +-1, +-2 ulp) of short decimals d*10^k over the whole exponent range;
//  (c) a fixed list.
// Output: "T tested=.. bad=.. ties=.. first=<hex x> <printed> <hex read back> tie=<0|1>"
static void codec_boundary_test(long n) {
  long bad = 0, tested = 0, ties = 0, nonadj = 0; std::string first_bad;
  fmt::Locale loc;
  auto one = [&](double x, bool on_tie) {
    if (std::isnan(x) || std::isinf(x)) return;
    char buf[64];
    DAVID_GAY_GFMT::g_fmt(buf, x, 0);
    const char *p = buf;
    double y = loc.strtod(p);
    ++tested;
    bool ok = (x == 0 && y == 0) || (hexd(x) == hexd(y) && *p == 0);
    if (!ok) {
      report_bad("boundary", x, buf, y, *p == 0);
      if (!adjacent_bits(x, y)) ++nonadj;
      if (on_tie) ++ties;
      if (!bad || (on_tie && first_bad.find("tie=1") == std::string::npos))
        first_bad = hexd(x) + " " + buf + " " + hexd(y) + (on_tie ? " tie=1" : " tie=0");
      ++bad;
    }
  };
  static uint64_t p5[23]; p5[0] = 1; for (int i = 1; i < 23; ++i) p5[i] = p5[i - 1] * 5;
  for (long i = 0; i < n; ++i) {
    uint64_t r = rnd();
    if (i % 3 != 2) {
      // (a)  T = q * 5^k * 2^v,  v = e-1,  q*5^k odd in [2^53, 2^54)  =>  x_lo/hi = ((q*5^k -+ 1)/2) * 2^e
      int k = 1 + int(r % 22);                    // 5^k <= 5^22 < 2^53
      int e = k + 1 + int((r >> 8) % 4);          // v = e-1 >= k, so that 10^k divides T; d = q*2^(v-k) stays short
      if (coin(20)) e = 2 + int((r >> 16) % 60);  // any exponent
      uint64_t lo = ((1ULL << 53) + p5[k] - 1) / p5[k], hi = ((1ULL << 54) - 1) / p5[k];
      if (hi < lo) continue;
      uint64_t q = lo + (rnd() % (hi - lo + 1));
      q |= 1; if (q > hi) q -= 2; if (q < lo) continue;
      uint64_t odd = q * p5[k];                   // in [2^53, 2^54), odd
      one(std::ldexp((double)((odd - 1) / 2), e), true);
      one(std::ldexp((double)((odd + 1) / 2), e), true);
    } else {
      // (b) neighbours of short decimals
      int nd = 1 + int(r % 12);
      uint64_t d = 1 + (rnd() % 999999999999ULL); for (int j = 12; j > nd; --j) d /= 10; if (!d) d = 1;
      int ex = int((r >> 20) % 620) - 310;
      char sb[64]; std::snprintf(sb, sizeof sb, "%llue%d", (unsigned long long)d, ex);
      double y = std::strtod(sb, nullptr);
      if (coin(50)) y = -y;
      one(y, false);
      double a = y, b = y;
      for (int j = 0; j < 2; ++j) { a = std::nextafter(a, INFINITY); b = std::nextafter(b, -INFINITY); one(a, false); one(b, false); }
    }
  }
  const double fx[] = {4611686018999999488.0, -4611686018999999488.0, 4611686019000000512.0, 9007199254740992.0, 9007199254740994.0,
                       18014398509481984.0, 1e22, 1e23, 9.999999999999999e22, 5e-324, 1.7976931348623157e308, 2.2250738585072014e-308};
  for (double x : fx) one(x, x == 4611686018999999488.0 || x == -4611686018999999488.0);
  std::printf("T tested=%ld bad=%ld ties=%ld nonadjacent=%ld first=%s\n", tested, bad, ties, nonadj, bad ? first_bad.c_str() : "-");
}

// integer-valued doubles |v| < 10^15 through the real g_fmt: "Z <v> <text>" (and "M gint <v>" for the Lean model gfmtInt)
static void int_text_test(long n) {
  auto one = [&](long long v) {
    if (v == 0) return;
    char buf[64]; DAVID_GAY_GFMT::g_fmt(buf, (double)v, 0);
    fmt::Locale loc; const char *p = buf; double back = loc.strtod(p);     // the reader's own number parser
    std::printf("M gint %lld\nZ %lld %s %s\n", v, v, buf, hexd(back).c_str());
  };
  long long p10[16]; p10[0] = 1; for (int i = 1; i < 16; ++i) p10[i] = p10[i - 1] * 10;
  for (int L = 1; L <= 15; ++L) for (int z = 0; L + z <= 15; ++z) for (int r = 0; r < 3; ++r) {
    long long d = L == 1 ? 1 + (long long)(rnd() % 9) : p10[L - 1] + (long long)(rnd() % (unsigned long long)(p10[L] - p10[L - 1]));
    if (d % 10 == 0) d += 1 + (long long)(rnd() % 9);
    one(d * p10[z]); one(-d * p10[z]);
  }
  for (int i = 1; i <= 15; ++i) { one(p10[i - 1]); one(p10[i] - 1); one(-p10[i - 1]); }
  for (long i = 0; i < n; ++i) { long long v = (long long)(rnd() % 1000000000000000ULL); one(coin(50) ? v : -v); one((long long)(rnd() % 100000)); }
}

// ---------------------------------------------------------------- main
int main(int argc, char **argv) {
  std::string tier = argc > 1 ? argv[1] : "quick";
  uint64_t seed = argc > 2 ? std::strtoull(argv[2], nullptr, 10) : 1;
  g_dir = argc > 3 ? argv[3] : ".";
  std::string mode = argc > 4 ? argv[4] : "";
  rng_state = seed * 0x9e3779b97f4a7c15ULL + 12345;
  for (int i = 0; i < NOPS; ++i) op_index[OPS[i].name] = i;
  op_used.assign(NOPS, 0);
  for (int i = 0; i < NOPS; ++i) std::printf("# op %s code=%d kind=%d\n", OPS[i].name, OPS[i].code, OPS[i].kind);

  if (mode == "probe-call0") {    // separate process: a function call without arguments (the writer asserts nargs_>0)
    GModel m = gen_model(2, 0);
    m.h.num_funcs = 1; m.funcs.clear(); m.funcs.push_back(GFunc{"f", 0, 0});
    m.h.num_objs = 1; m.objs.clear();
    GObj o; o.type = 0; o.e.k = GExpr::CALL; o.e.i = 0; m.objs.push_back(o);
    m.dvs.erase(-1); m.h.num_common_exprs_in_single_objs = 0; m.h.num_common_exprs_in_objs = 0;
    // keep the defined-variable count consistent: drop all of them
    m.dvs.clear(); m.h.num_common_exprs_in_both = m.h.num_common_exprs_in_cons = m.h.num_common_exprs_in_single_cons = 0;
    for (auto &c : m.cons) { c.e = GExpr(); } for (auto &c : m.lcons) { c.e = GExpr(); c.e.x = 1; }
    serialise(m, 0);
    std::fflush(stdout);
    run_one(m, 0, 0, false, true, 1, 0);
    std::printf("# probe-call0 survived\n");
    return 0;
  }
  if (mode == "probe-prec") {     // OutputPrecision() = p: g_fmt with prec != 0, dtoa mode 2; oracle = correctly rounded p digits (libc)
    static const int ps[] = {1, 2, 3, 6, 9, 12, 15, 16, 17};
    long id2 = 0;
    for (int p : ps) for (int k = 0; k < (tier == "thorough" ? 40 : 6); ++k) {
      GModel m = gen_model(1 + k % 6, 0);
      m.prec = p;
      serialise(m, id2);
      run_one(m, id2, 0, k % 2, k % 3 != 0, k % 3, 0);
      ++id2;
    }
    return 0;
  }
  if (mode == "probe-needobj") {  // handler variant: NeedObj(i) only for one objective (ObjHandler::SkipExpr, NullLinearExprHandler)
    long id2 = 0;
    for (int k = 0; k < (tier == "thorough" ? 200 : 40); ++k) {
      GModel m = gen_model(2 + k % 6, 0);
      if (m.objs.empty()) continue;
      m.need_obj = rint_(0, (int)m.objs.size());      // == size: no objective needed at all
      serialise(m, id2);
      for (int fmt = 0; fmt < 2; ++fmt) run_one(m, id2, fmt, k % 2, k % 3 != 0, k % 3, k % 4 == 0 ? mp::READ_BOUNDS_FIRST : 0);
      ++id2;
    }
    return 0;
  }
  if (mode == "probe-nvars0") {   // no variables: WriteNL removes the file and reports CantOpen
    GModel m = gen_model(1, 0);
    m.h.num_vars = 0;
    serialise(m, 0);
    std::string base = g_dir + "/m";
    GenFeeder feeder(m); mp::NLUtils utils;
    mp::WriteNLResult res = mp::WriteNLFile(base, feeder, utils);
    FILE *f = std::fopen((base + ".nl").c_str(), "rb");
    std::printf("# nvars0 result=%d file=%s\n", (int)res.first, f ? "present" : "absent");
    if (f) std::fclose(f);
    return 0;
  }
  if (mode == "probe-tie") {      // separate process: the double 4611686018999999488 through the real writer and reader
    GModel m = gen_model(1, 0);
    double t = 4611686018999999488.0;
    m.vb[0] = {-t, t};
    m.has_x0 = true; m.x0.clear(); m.x0.push_back({0, t});
    serialise(m, 0);
    run_one(m, 0, 0, false, true, 1, 0);
    run_one(m, 0, 1, false, true, 1, 0);
    return 0;
  }
  if (mode == "probe-intmin") {   // separate process: "%d" of INT_MIN in text mode
    GModel m = gen_model(2, 0);
    m.sufs.clear(); GSuf s; s.name = "p"; s.kind = 0; s.dbl = false; s.iv.push_back({0, INT_MIN}); m.sufs.push_back(s);
    serialise(m, 0);
    run_one(m, 0, 0, false, true, 1, 0);
    run_one(m, 0, 1, false, true, 1, 0);
    return 0;
  }

  bool thorough = tier == "thorough";
  g_bad_cap = thorough ? 40000 : 4000;
  long nmodels = thorough ? 1500 : 220;
  long id = 0;
  // fixed part: one model per finding class + sizes 1..3, then seeded models
  for (long k = 0; k < nmodels; ++k) {
    int mask = 0;
    if (k == 0) mask = 1; else if (k == 1) mask = 2; else if (k == 2) mask = 4; else if (k == 3) mask = 2;
    else if (k % 37 == 5) mask = 1 << (int)(rnd() % 3);
    else if (k % 11 == 7) mask = 8;
    int size = k < 12 ? 1 + (int)(k % 4) : (k % 5 == 0 ? rint_(8, thorough ? 24 : 14) : rint_(1, 7));
    GModel m = gen_model(size, mask);
    ++stat_models;
    serialise(m, id);
    // every writer option combination: {text,binary} x {comments} x {bounds first/last} x {column sizes 0,1,2}
    bool all = thorough || k < 40 || k % 4 == 0;
    int ncomb = 0; bool ran_any = false;
    for (int fmt = 0; fmt < 2; ++fmt) for (int c = 0; c < 2; ++c) for (int bf = 0; bf < 2; ++bf) for (int cs = 0; cs < 3; ++cs) {
      bool take = all || (ncomb % 6 == (int)(k % 6)) || (c == 0 && bf == 1 && cs == 1);
      ++ncomb;
      if (!take) continue;
      if (m.h.num_rand_vars != 0 && cs != 0) continue;
      ran_any = true;
      run_one(m, id, fmt, c, bf, cs, 0);
      if ((ncomb + k) % 5 == 0) run_one(m, id, fmt, c, bf, cs, mp::READ_BOUNDS_FIRST);
    }
    if (!ran_any) run_one(m, id, 0, false, true, 0, 0);
    if ((thorough ? k % 3 == 0 : k % 8 == 0) && m.h.num_rand_vars == 0) {     // page-size family
      for (int fmt = 0; fmt < 2; ++fmt) for (int delta = -1; delta <= 1; ++delta)
        run_padded(m, id, fmt, (k / 8) % 2, (k / 16) % 2 == 0, (int)(k % 3), delta, delta == 0 && (k / 8) % 3 == 0 ? mp::READ_BOUNDS_FIRST : 0);
    }
    check_names(m);
    ++id;
    hist["nv=" + itos(std::min(m.h.num_vars, 10))]++;
  }
  codec_test(thorough ? 20000000 : 1000000);
  codec_boundary_test(thorough ? 12000000 : 450000);
  int_text_test(thorough ? 200000 : 3000);
  std::printf("# models=%ld runs=%ld expr_nodes=%ld\n", stat_models, stat_runs, stat_nodes);
  std::printf("# pagesize-runs size%%4096==4095:%ld ==0:%ld ==1:%ld missed:%ld\n", stat_padded[0], stat_padded[1], stat_padded[2], stat_pad_miss);
  for (int i = 0; i < NOPS; ++i) std::printf("# opused %s %ld\n", OPS[i].name, op_used[i]);
  for (int i = 0; i < 14; ++i) std::printf("# dblclass %d %ld\n", i, dbl_class[i]);
  for (auto &kv : hist) std::printf("# hist %s %ld\n", kv.first.c_str(), kv.second);
  return 0;
}

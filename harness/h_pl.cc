// C13 harness: runs the real piecewise-linear approximator of ampl/mp on generated cases.
//
// Two build variants of this one file (see checks/c13.py):
//   (default)   links the mp library objects and calls the exported entry point mp::PLApproximate<Con>
//   -DPL_TRACE  #includes $MP_REPO/src/mp/flat/piecewise_linear.cpp textually and runs the very same
//               BasicPLApproximator<Con>::Run() on a subclass of the real PLApproximator<Con> whose five
//               function oracles (eval, inverse, eval_1st, inverse_1st, eval_2nd) additionally log
//               (argument, result); the function record (domain, accepted range, monotone, periodic, period,
//               default breakpoints) is read off the real object.  It also runs *synthetic* function records
//               (subclasses of BasicPLApproximator) to drive the skeleton with arbitrary oracles.
//
// Output lines (all doubles as 16 hex digits of their bit pattern):
//   C <id> <fn> <param> <lbx> <ubx> <lby> <uby> <isint> <ubErr>
//   R <id> <dom lbx ubx lby uby> <acc lb ub> <monotone> <periodic> <per lb ub> <nbp> <bp...>       (trace only)
//   T <id> <n> {<kind> <subidx> <arg> <val>}*n       kinds e i d j s                                 (trace only)
//   O <id> <status> [<domOut x4> <usePeriod> <periodLength> <facLb> <facUb> <remLb> <remUb> <n> <x..> <y..>]
//   E <id> <ratio> <where> <x> <f> <pl> <segwidth> <class>    exploration oracle: worst err/tol found (long double)
//
// usage: h_pl <tier> <seed> [only-id]
#include <cstdio>
#include <cstdint>
#include <cstdlib>
#include <cstring>
#include <cmath>
#include <string>
#include <vector>
#include <map>
#include <stdexcept>
#include <algorithm>
#include <csignal>
#include <csetjmp>
#include <unistd.h>

#ifdef PL_TRACE
#include "mp/flat/piecewise_linear.cpp"
#else
#include "mp/flat/constr_std.h"
#include "mp/flat/redef/MIP/core/lin_approx_core.h"
#endif

using namespace mp;

static uint64_t rng_state;
static uint64_t rnd() {  // splitmix64
  uint64_t z = (rng_state += 0x9e3779b97f4a7c15ULL);
  z = (z ^ (z >> 30)) * 0xbf58476d1ce4e5b9ULL;
  z = (z ^ (z >> 27)) * 0x94d049bb133111ebULL;
  return z ^ (z >> 31);
}
static double urand() { return (rnd() >> 11) * (1.0 / 9007199254740992.0); }
static int irand(int n) { return int(rnd() % uint64_t(n)); }
static uint64_t bits(double d) { uint64_t u; std::memcpy(&u, &d, 8); return u; }
static void ph(double d) { std::printf(" %016llx", (unsigned long long)bits(d)); }

enum Fn { EXP, LOG, EXPA, LOGA, POW, SIN, COS, TAN, ASIN, ACOS, ATAN, SINH, COSH, TANH, ASINH, ACOSH, ATANH, NFN,
          SYN = 100 };
static const char *fn_name[] = {"exp", "log", "expa", "loga", "pow", "sin", "cos", "tan", "asin", "acos", "atan",
                                "sinh", "cosh", "tanh", "asinh", "acosh", "atanh"};

struct Case {
  int id; int fn; double prm; double lbx, ubx, lby, uby; int isint; double tol;
  // synthetic record (fn >= SYN)
  int syn_kind = 0;
};

struct Out {
  std::string status;
  PLApproxParams p;
};

// ------------------------------------------------------------------ reference functions (long double)
static long double ref(int fn, double prm, long double x) {
  switch (fn) {
    case EXP: return expl(x);
    case LOG: return logl(x);
    case EXPA: return powl((long double)prm, x);
    case LOGA: return logl(x) / logl((long double)prm);
    case POW: return powl(x, (long double)prm);
    case SIN: return sinl(x);
    case COS: return cosl(x);
    case TAN: return tanl(x);
    case ASIN: return asinl(x);
    case ACOS: return acosl(x);
    case ATAN: return atanl(x);
    case SINH: return sinhl(x);
    case COSH: return coshl(x);
    case TANH: return tanhl(x);
    case ASINH: return asinhl(x);
    case ACOSH: return acoshl(x);
    case ATANH: return atanhl(x);
  }
  return NAN;
}

// ------------------------------------------------------------------ tracing
#ifdef PL_TRACE
struct TraceEnt { char k; int idx; double a, v; };
static std::vector<TraceEnt> g_trace;
static std::map<std::pair<std::pair<char, int>, uint64_t>, uint64_t> g_seen;
static bool g_nondet = false;
static long g_cap = 8000, g_total = 600000;   // per-case / per-run budget of printed oracle entries
static void tlog(char k, int idx, double a, double v) {
  if ((long)g_trace.size() > g_cap) return;   // over budget: this case will not be replayed
  if (k == 'e' || k == 'd' || k == 's') idx = 0;  // do not depend on the subinterval
  auto key = std::make_pair(std::make_pair(k, idx), bits(a));
  auto it = g_seen.find(key);
  if (it != g_seen.end()) { if (it->second != bits(v)) g_nondet = true; return; }
  g_seen[key] = bits(v);
  g_trace.push_back({k, idx, a, v});
}

namespace mp {
template <class Con>
class Traced : public PLApproximator<Con> {
 public:
  using Base = PLApproximator<Con>;
  Traced(const Con &c, PLApproxParams &p) : Base(c, p) {}
  double eval(double x) const override { double v = Base::eval(x); tlog('e', 0, x, v); return v; }
  double inverse(double y) const override { double v = Base::inverse(y); tlog('i', this->GetSubIntvIndex(), y, v); return v; }
  double eval_1st(double x) const override { double v = Base::eval_1st(x); tlog('d', 0, x, v); return v; }
  double inverse_1st(double y) const override { double v = Base::inverse_1st(y); tlog('j', this->GetSubIntvIndex(), y, v); return v; }
  double eval_2nd(double x) const override { double v = Base::eval_2nd(x); tlog('s', 0, x, v); return v; }
  // Formula-consistency oracle: the record's eval_1st / eval_2nd / inverse / inverse_1st against numerical
  // differentiation / re-evaluation of its OWN eval (and eval against the long double reference), on a grid of
  // every subinterval.  Uses only the protected initialisation steps of the real class.
  void Consistency(int fn, double prm, long &nchk, long &nbad) {
    this->ClipFuncGraphDomain();
    if (!this->InitPeriodic()) this->InitNonPeriodic();
    this->InitSubintervalLoop();
    auto bad = [&](const char *kind, double x, double got, double want) {
      ++nbad;
      if (nbad <= 6) { std::printf("F %s", fn_name[fn]); ph(prm); std::printf(" %s %d %.17g %.17g %.17g\n", kind, this->GetSubIntvIndex(), x, got, want); }
    };
    do {
      double a = this->lb_sub(), b = this->ub_sub();
      if (!(b > a) || !std::isfinite(a) || !std::isfinite(b)) continue;
      std::vector<double> grid;
      for (int j = 0; j < 24; ++j) grid.push_back(a + (b - a) * (0.02 + 0.96 * (j + 0.5) / 24));
      if (a > 0 && b / a > 100) for (int j = 1; j < 16; ++j) grid.push_back(a * std::pow(b / a, j / 16.0));
      for (double x : grid) {
        double h = std::min(1e-5 * std::max(1.0, std::fabs(x)), 0.005 * (b - a));
        if (a > 0) h = std::min(h, 1e-3 * x);
        double v = Base::eval(x), d1 = Base::eval_1st(x), d2 = Base::eval_2nd(x);
        long double want = ref(fn, prm, x);
        ++nchk;
        if (!(std::fabs(v - (double)want) <= 1e-9 * std::max(1e-300L, fabsl(want)) + 1e-300)) bad("eval", x, v, (double)want);
        double vp = Base::eval(x + h), vm = Base::eval(x - h);
        double nd1 = (vp - vm) / (2 * h);
        ++nchk;
        if (!(std::fabs(d1 - nd1) <= 1e-4 * std::fabs(nd1) + 1e-9 * (std::fabs(v) + 1e-30) / h)) bad("eval_1st", x, d1, nd1);
        double nd2 = (Base::eval_1st(x + h) - Base::eval_1st(x - h)) / (2 * h);
        ++nchk;
        if (!(std::fabs(d2 - nd2) <= 1e-4 * std::fabs(nd2) + 1e-9 * (std::fabs(d1) + 1e-30) / h)) bad("eval_2nd", x, d2, nd2);
        double sx = std::max(1.0, std::fabs(x));
        if (std::fabs(d1) * sx >= 1e-6 * std::max(1.0, std::fabs(v))) {   // inversion well conditioned
          double xi = Base::inverse(v);
          ++nchk;
          if (!(xi >= a - 1e-6 && xi <= b + 1e-6 && std::fabs(xi - x) <= 1e-6 * sx)) bad("inverse", x, xi, x);
        }
        if (std::fabs(d2) * sx >= 1e-6 * std::fabs(d1) && std::fabs(d2) > 1e-300) {
          double xs = Base::inverse_1st(d1);
          ++nchk;
          if (!(xs >= a - 1e-6 && xs <= b + 1e-6 && std::fabs(xs - x) <= 1e-6 * sx)) bad("inverse_1st", x, xs, x);
        }
      }
    } while (this->NextSubinterval());
  }
  void PrintRecord(int id) const {
    auto d = this->GetFuncGraphDomain();
    auto a = this->GetLargestAcceptedArgumentRange();
    auto per = this->GetDefaultPeriod();
    auto bp = this->GetDefaultBreakpoints();
    std::printf("R %d", id);
    ph(d.lbx); ph(d.ubx); ph(d.lby); ph(d.uby); ph(a.lb); ph(a.ub);
    std::printf(" %d %d", int(this->IsMonotone()), int(this->IsPeriodic()));
    ph(per.lb); ph(per.ub);
    std::printf(" %d", int(bp.size()));
    for (double b : bp) ph(b);
    std::printf("\n");
  }
};

// Synthetic function records: the skeleton must behave for *any* oracle.  All of them reuse ExpConstraint as
// the (irrelevant) constraint type.  kind:
//  0: f = x^2/4 on [-8,8], breakpoints {-8,0,8}            (exact dyadic arithmetic mostly)
//  1: f = x^3/16 on [-6,6], breakpoints {-6,0,6}, monotone
//  2: periodic triangle-ish smooth: f = x*(2-x) on period [0,2], breakpoints {0,1,2}
//  3: f = x^2 with f'' reported as 0 (initial step falls back to interval/100)
//  4: many default breakpoints, some of them closer than 1e-4, f = x^2/2
//  7: f = x^2 on [0,4] whose inverse returns the negative root: MP_ASSERT_ALWAYS "preim(1.0) outside" fires
//  6: f = x^2 on [0,4] with f'' reported as 4*(ubErr*8/3), so that the initial step is exactly 0.5; with ubErr = 1/16 the
//     estimated error of the first segment EQUALS the tolerance (CompareError returns 0)
//  5: plateaus joined by ramps, breakpoints every 0.5 (exercises the equal-y merge rule), f'' = 0, f' not invertible
class Synth : public BasicPLApproximator<ExpConstraint> {
 public:
  Synth(const ExpConstraint &c, PLApproxParams &p, int kind) : BasicPLApproximator<ExpConstraint>(c, p), k_(kind), tol_(p.ubErr) {}
  int k_; double tol_;
  FuncGraphDomain GetFuncGraphDomain() const override {
    switch (k_) {
      case 0: return {-8, 8, -1e6, 1e6};
      case 1: return {-6, 6, -1e6, 1e6};
      case 2: return {-1e100, 1e100, -1e6, 1e6};
      case 3: return {-4, 4, -1e6, 1e6};
      case 4: return {-3, 3, -1e6, 1e6};
      case 6: case 7: return {0, 4, -1e6, 1e6};
      default: return {-4, 4, -1e6, 1e6};
    }
  }
  bool IsMonotone() const override { return k_ == 1; }
  bool IsPeriodic() const override { return k_ == 2; }
  Range GetDefaultPeriod() const override { return k_ == 2 ? Range{0.0, 2.0} : Range{-1e100, 1e100}; }
  BreakpointList GetDefaultBreakpoints() const override {
    switch (k_) {
      case 0: return {-8, 0, 8};
      case 1: return {-6, 0, 6};
      case 2: return {0, 1, 2};
      case 3: return {-4, 4};
      case 6: case 7: return {0, 4};
      case 4: return {-3, -1, -0.99995, -0.5, 0, 0.00005, 0.0001, 0.25, 1, 1.00001, 3};
      default: return {-4, -3.5, -3, -2.5, -2, -1.5, -1, -0.5, 0, 0.5, 1, 1.5, 2, 2.5, 3, 3.5, 4};
    }
  }
  static double plateau(double x) {  // plateaus of width 1 at even integers, ramps between
    double fl = std::floor(x / 2.0) * 2.0, r = x - fl;
    return r <= 1.0 ? fl : fl + (r - 1.0) * 2.0;
  }
  double eval(double x) const override {
    double v;
    switch (k_) {
      case 0: v = x * x / 4; break;
      case 1: v = x * x * x / 16; break;
      case 2: v = x * (2 - x); break;
      case 3: case 6: case 7: v = x * x; break;
      case 4: v = x * x / 2; break;
      default: v = plateau(x);
    }
    tlog('e', 0, x, v); return v;
  }
  double inverse(double y) const override {
    double v;
    switch (k_) {
      case 0: v = (lb_sub() < 0 ? -1 : 1) * std::sqrt(4 * std::fabs(y)); break;
      case 1: v = std::cbrt(16 * y); break;
      case 2: v = GetSubIntvIndex() < 1 ? 1 - std::sqrt(std::fabs(1 - y)) : 1 + std::sqrt(std::fabs(1 - y)); break;
      case 3: case 6: v = std::sqrt(std::fabs(y)); break;
      case 7: v = -std::sqrt(std::fabs(y)); break;   // wrong branch: the pre-image of 1 lies outside the segment
      case 4: v = (lb_sub() < 0 ? -1 : 1) * std::sqrt(2 * std::fabs(y)); break;
      default: v = y;
    }
    tlog('i', GetSubIntvIndex(), y, v); return v;
  }
  double eval_1st(double x) const override {
    double v;
    switch (k_) {
      case 0: v = x / 2; break;
      case 1: v = 3 * x * x / 16; break;
      case 2: v = 2 - 2 * x; break;
      case 3: case 6: case 7: v = 2 * x; break;
      case 4: v = x; break;
      default: { double fl = std::floor(x / 2.0) * 2.0; v = (x - fl) <= 1.0 ? 0.0 : 2.0; }
    }
    tlog('d', 0, x, v); return v;
  }
  double inverse_1st(double y) const override {
    double v;
    switch (k_) {
      case 0: v = 2 * y; break;
      case 1: v = (lb_sub() < 0 ? -1 : 1) * std::sqrt(std::fabs(16 * y / 3)); break;
      case 2: v = (2 - y) / 2; break;
      case 3: case 6: case 7: v = y / 2; break;
      case 4: v = y; break;
      default: v = NAN;   // f' is not invertible: the candidate is ignored by std::max
    }
    tlog('j', GetSubIntvIndex(), y, v); return v;
  }
  double eval_2nd(double x) const override {
    double v;
    switch (k_) {
      case 0: v = 0.5; break;
      case 1: v = 3 * x / 8; break;
      case 2: v = -2; break;
      case 3: v = 0; break;
      case 6: v = 4 * (tol_ * 8.0 / 3.0); break;
      case 7: v = 2; break;
      case 4: v = 1; break;
      default: v = 0;
    }
    tlog('s', 0, x, v); return v;
  }
  void PrintRecord(int id) const {
    auto d = GetFuncGraphDomain(); auto a = GetLargestAcceptedArgumentRange();
    auto per = GetDefaultPeriod(); auto bp = GetDefaultBreakpoints();
    std::printf("R %d", id);
    ph(d.lbx); ph(d.ubx); ph(d.lby); ph(d.uby); ph(a.lb); ph(a.ub);
    std::printf(" %d %d", int(IsMonotone()), int(IsPeriodic()));
    ph(per.lb); ph(per.ub);
    std::printf(" %d", int(bp.size()));
    for (double b : bp) ph(b);
    std::printf("\n");
  }
};
}  // namespace mp
#endif

#ifdef PL_TRACE
// ------------------------------------------------------------------ formula-consistency oracle, all 17 types
template <class Con>
static void consist_con(int fn, double prm, double lo, double hi, const Con &con, long &nchk, long &nbad) {
  PLApproxParams p;
  p.grDom = {lo, hi, -1e100, 1e100};
  p.ubErr = 1e-2; p.periodLength = 0;
  Traced<Con> t(con, p);
  t.Consistency(fn, prm, nchk, nbad);
}
static void consistency_all() {
  struct FP { int fn; double prm, lo, hi; };
  std::vector<FP> L;
  auto add = [&](int fn, double prm, double lo, double hi) { L.push_back({fn, prm, lo, hi}); };
  add(EXP, 0, -20, 20); add(LOG, 0, 1e-3, 1e4);
  for (double b : {2.0, 10.0, 0.5, 1.5, 2.718281828459045}) { add(EXPA, b, -8, 8); add(LOGA, b, 1e-3, 1e4); }
  for (double a : {3.0, 4.0, 5.0, 6.0, 8.0}) add(POW, a, -4, 4);
  for (double a : {0.5, 1.5, 2.5, 1.0 / 3}) add(POW, a, 0.0, 50);
  for (double a : {-1.0, -2.0, -0.5, -1.5}) add(POW, a, 0.01, 50);
  add(SIN, 0, -1, 1); add(COS, 0, -1, 1); add(TAN, 0, -1, 1);
  add(ASIN, 0, -1, 1); add(ACOS, 0, -1, 1); add(ATAN, 0, -50, 50);
  add(SINH, 0, -8, 8); add(COSH, 0, -8, 8); add(TANH, 0, -6, 6);
  add(ASINH, 0, -1e3, 1e3); add(ACOSH, 0, 1, 1e3); add(ATANH, 0, -0.999, 0.999);
  for (const auto &e : L) {
    long nchk = 0, nbad = 0;
    g_trace.clear(); g_seen.clear();
    const char *st = "ok";
    try {
      switch (e.fn) {
        case EXP: consist_con(e.fn, e.prm, e.lo, e.hi, ExpConstraint({0}), nchk, nbad); break;
        case LOG: consist_con(e.fn, e.prm, e.lo, e.hi, LogConstraint({0}), nchk, nbad); break;
        case EXPA: consist_con(e.fn, e.prm, e.lo, e.hi, ExpAConstraint({0}, DblParamArray1{e.prm}), nchk, nbad); break;
        case LOGA: consist_con(e.fn, e.prm, e.lo, e.hi, LogAConstraint({0}, DblParamArray1{e.prm}), nchk, nbad); break;
        case POW: consist_con(e.fn, e.prm, e.lo, e.hi, PowConstraint({0}, DblParamArray1{e.prm}), nchk, nbad); break;
        case SIN: consist_con(e.fn, e.prm, e.lo, e.hi, SinConstraint({0}), nchk, nbad); break;
        case COS: consist_con(e.fn, e.prm, e.lo, e.hi, CosConstraint({0}), nchk, nbad); break;
        case TAN: consist_con(e.fn, e.prm, e.lo, e.hi, TanConstraint({0}), nchk, nbad); break;
        case ASIN: consist_con(e.fn, e.prm, e.lo, e.hi, AsinConstraint({0}), nchk, nbad); break;
        case ACOS: consist_con(e.fn, e.prm, e.lo, e.hi, AcosConstraint({0}), nchk, nbad); break;
        case ATAN: consist_con(e.fn, e.prm, e.lo, e.hi, AtanConstraint({0}), nchk, nbad); break;
        case SINH: consist_con(e.fn, e.prm, e.lo, e.hi, SinhConstraint({0}), nchk, nbad); break;
        case COSH: consist_con(e.fn, e.prm, e.lo, e.hi, CoshConstraint({0}), nchk, nbad); break;
        case TANH: consist_con(e.fn, e.prm, e.lo, e.hi, TanhConstraint({0}), nchk, nbad); break;
        case ASINH: consist_con(e.fn, e.prm, e.lo, e.hi, AsinhConstraint({0}), nchk, nbad); break;
        case ACOSH: consist_con(e.fn, e.prm, e.lo, e.hi, AcoshConstraint({0}), nchk, nbad); break;
        case ATANH: consist_con(e.fn, e.prm, e.lo, e.hi, AtanhConstraint({0}), nchk, nbad); break;
      }
    } catch (const std::exception &) { st = "exc"; }
    std::printf("FS %s", fn_name[e.fn]); ph(e.prm); std::printf(" %s %ld %ld\n", st, nchk, nbad);
  }
}
#endif

// ------------------------------------------------------------------ running one case on the real code
static std::string classify(const mp::Error &e) {
  std::string m = e.what();
  if (e.exit_code() == 200) return "infeas";
  if (m.find("outside of the accepted") != std::string::npos) return "accrange";
  if (m.find("degenerate segment") != std::string::npos) return "degenerate";
  if (m.find("preim") != std::string::npos) return "preim";
  if (m.find("ubErr<=0") != std::string::npos) return "uberr";
  return "error";
}

template <class Con>
static void run_con(const Case &c, const Con &con, Out &o) {
#ifdef PL_TRACE
  Traced<Con> pla(con, o.p);
  pla.PrintRecord(c.id);
  pla.Run();
#else
  PLApproximate(con, o.p);
#endif
}

// watchdog: the generator under test has loops without a termination argument (it does hang on some inputs);
// a case that runs longer than PL_CASE_TIMEOUT seconds is abandoned via siglongjmp and reported as status "hang"
static sigjmp_buf g_jmp;
static void on_alarm(int) { siglongjmp(g_jmp, 1); }
#ifndef PL_CASE_TIMEOUT
#define PL_CASE_TIMEOUT 2
#endif

static void run_case(const Case &c, Out &o) {
  o.p = PLApproxParams();
  o.p.grDom = {c.lbx, c.ubx, c.lby, c.uby};
  o.p.is_x_int = c.isint != 0;
  o.p.ubErr = c.tol;
  o.p.periodLength = 0.0;
  o.status = "ok";
#ifdef PL_TRACE
  g_trace.clear(); g_seen.clear(); g_nondet = false;
#endif
  if (sigsetjmp(g_jmp, 1)) { o.status = "hang"; return; }
  alarm(PL_CASE_TIMEOUT);
  try {
    switch (c.fn) {
      case EXP: run_con(c, ExpConstraint({0}), o); break;
      case LOG: run_con(c, LogConstraint({0}), o); break;
      case EXPA: run_con(c, ExpAConstraint({0}, DblParamArray1{c.prm}), o); break;
      case LOGA: run_con(c, LogAConstraint({0}, DblParamArray1{c.prm}), o); break;
      case POW: run_con(c, PowConstraint({0}, DblParamArray1{c.prm}), o); break;
      case SIN: run_con(c, SinConstraint({0}), o); break;
      case COS: run_con(c, CosConstraint({0}), o); break;
      case TAN: run_con(c, TanConstraint({0}), o); break;
      case ASIN: run_con(c, AsinConstraint({0}), o); break;
      case ACOS: run_con(c, AcosConstraint({0}), o); break;
      case ATAN: run_con(c, AtanConstraint({0}), o); break;
      case SINH: run_con(c, SinhConstraint({0}), o); break;
      case COSH: run_con(c, CoshConstraint({0}), o); break;
      case TANH: run_con(c, TanhConstraint({0}), o); break;
      case ASINH: run_con(c, AsinhConstraint({0}), o); break;
      case ACOSH: run_con(c, AcoshConstraint({0}), o); break;
      case ATANH: run_con(c, AtanhConstraint({0}), o); break;
#ifdef PL_TRACE
      default: {
        ExpConstraint con({0});
        Synth s(con, o.p, c.syn_kind);
        s.PrintRecord(c.id);
        s.Run();
      }
#endif
    }
  } catch (const mp::Error &e) {
    o.status = classify(e);
  } catch (const std::out_of_range &) {
    o.status = "oor";
  } catch (const std::exception &) {
    o.status = "exc";
  }
  alarm(0);
}

static void print_case(const Case &c) {
  std::printf("C %d %s", c.id, c.fn >= SYN ? (std::string("syn") + std::to_string(c.syn_kind)).c_str() : fn_name[c.fn]);
  ph(c.prm); ph(c.lbx); ph(c.ubx); ph(c.lby); ph(c.uby);
  std::printf(" %d", c.isint); ph(c.tol); std::printf("\n");
}

static void print_out(const Case &c, const Out &o) {
  std::printf("O %d %s", c.id, o.status.c_str());
  if (o.status == "ok") {
    const auto &p = o.p;
    ph(p.grDomOut.lbx); ph(p.grDomOut.ubx); ph(p.grDomOut.lby); ph(p.grDomOut.uby);
    std::printf(" %d", int(p.fUsePeriod));
    if (p.fUsePeriod) {
      ph(p.periodLength); ph(p.periodicFactorRange.lb); ph(p.periodicFactorRange.ub);
      ph(p.periodRemainderRange.lb); ph(p.periodRemainderRange.ub);
    } else {
      ph(0.0); ph(0.0); ph(0.0); ph(0.0); ph(0.0);
    }
    std::printf(" %d", p.plPoints.size());
    for (double x : p.plPoints.x_) ph(x);
    for (double y : p.plPoints.y_) ph(y);
  }
  std::printf("\n");
}

#ifdef PL_TRACE
static void print_trace(const Case &c) {
  // synthetic records are small and always replayed: the per-run budget applies to the real function types only
  bool big = (long)g_trace.size() > g_cap || (c.fn < SYN && (long)g_trace.size() > g_total);
  std::printf("T %d %d", c.id, g_nondet ? -1 : big ? -2 : int(g_trace.size()));
  if (!big && c.fn < SYN) g_total -= (long)g_trace.size();
  if (!g_nondet && !big)
    for (const auto &t : g_trace) { std::printf(" %c %d", t.k, t.idx); ph(t.a); ph(t.v); }
  std::printf("\n");
}
#endif

// ------------------------------------------------------------------ exploration oracle (NOT a proof): worst err/tol
struct Worst { long double ratio = -1, x = 0, f = 0, pl = 0, w = 0; const char *where = "none"; };

static long double pl_eval(const PLPoints &pl, long double x, size_t seg) {  // seg: index of left point of the segment used
  long double x0 = pl.x_[seg], x1 = pl.x_[seg + 1], y0 = pl.y_[seg], y1 = pl.y_[seg + 1];
  return y0 + (y1 - y0) * (x - x0) / (x1 - x0);
}
static long double err_ratio(long double f, long double y, double tol) {
  long double e = fabsl(f - y);
  if (fabsl(f) > 1.0L) e /= fabsl(f);
  return e / tol;
}

// worst ratio of segment `seg` of the PL over [a,b] (x shifted by `shift` for the true function: periodic case)
static void scan_interval(const Case &c, const PLPoints &pl, size_t seg, long double a, long double b,
                          long double shift, const char *where, int K, Worst &w) {
  if (!(b > a)) return;
  long double best = -1, bx = a, h = (b - a) / K;
  for (int i = 0; i <= K; ++i) {
    long double x = a + h * i;
    long double r = err_ratio(ref(c.fn, c.prm, x + shift), pl_eval(pl, x, seg), c.tol);
    if (r > best) { best = r; bx = x; }
  }
  // golden-section refinement around the best sample
  long double lo = std::max(a, bx - h), hi = std::min(b, bx + h);
  const long double g = 0.6180339887498948482L;
  long double x1 = hi - g * (hi - lo), x2 = lo + g * (hi - lo);
  long double r1 = err_ratio(ref(c.fn, c.prm, x1 + shift), pl_eval(pl, x1, seg), c.tol);
  long double r2 = err_ratio(ref(c.fn, c.prm, x2 + shift), pl_eval(pl, x2, seg), c.tol);
  for (int it = 0; it < 40; ++it) {
    if (r1 < r2) { lo = x1; x1 = x2; r1 = r2; x2 = lo + g * (hi - lo); r2 = err_ratio(ref(c.fn, c.prm, x2 + shift), pl_eval(pl, x2, seg), c.tol); }
    else { hi = x2; x2 = x1; r2 = r1; x1 = hi - g * (hi - lo); r1 = err_ratio(ref(c.fn, c.prm, x1 + shift), pl_eval(pl, x1, seg), c.tol); }
  }
  if (r1 > best) { best = r1; bx = x1; }
  if (r2 > best) { best = r2; bx = x2; }
  if (best > w.ratio && std::isfinite((double)best)) {
    w.ratio = best; w.x = bx + shift; w.f = ref(c.fn, c.prm, bx + shift); w.pl = pl_eval(pl, bx, seg);
    w.w = (long double)pl.x_[seg + 1] - (long double)pl.x_[seg]; w.where = where;
  }
}

static void explore(const Case &c, const Out &o, int K) {
  if (c.fn >= SYN || o.status != "ok") return;
  const auto &p = o.p; const auto &pl = p.plPoints;
  Worst w;
  size_t n = pl.x_.size();
  if (n == 0) { std::printf("E %d inf empty-pl\n", c.id); return; }
  if (!p.fUsePeriod) {
    long double L = p.grDomOut.lbx, U = p.grDomOut.ubx;
    if (c.isint) {
      long double k0 = ceill(L), k1 = floorl(U);
      long double cnt = k1 - k0 + 1;
      long double step = cnt > 4000 ? floorl(cnt / 4000) : 1;
      for (long double k = k0; k <= k1; k += step) {
        long double y, segw = 0;
        if (n == 1) y = pl.y_[0];
        else {
          size_t s = std::upper_bound(pl.x_.begin(), pl.x_.end(), (double)k) - pl.x_.begin();
          s = s == 0 ? 0 : std::min(s - 1, n - 2);
          y = pl_eval(pl, k, s);
          segw = (long double)pl.x_[s + 1] - pl.x_[s];
        }
        long double f = ref(c.fn, c.prm, k);
        long double r = err_ratio(f, y, c.tol);
        if (r > w.ratio && std::isfinite((double)r)) {
          w.ratio = r; w.x = k; w.f = f; w.pl = y; w.w = segw;
          w.where = (k < pl.x_.front() || k > pl.x_.back()) ? "int-outside" : "int";
        }
      }
    } else if (n == 1) {
      // trivial domain: a single point; compare at both reported ends
      for (long double x : {L, U}) {
        long double f = ref(c.fn, c.prm, x), r = err_ratio(f, pl.y_[0], c.tol);
        if (r > w.ratio && std::isfinite((double)r)) { w.ratio = r; w.x = x; w.f = f; w.pl = pl.y_[0]; w.where = "single"; }
      }
    } else {
      for (size_t s = 0; s + 1 < n; ++s)
        scan_interval(c, pl, s, std::max<long double>(L, pl.x_[s]), std::min<long double>(U, pl.x_[s + 1]), 0, "inside", K, w);
      scan_interval(c, pl, 0, L, std::min<long double>(U, pl.x_[0]), 0, "left-of-first", K, w);
      scan_interval(c, pl, n - 2, std::max<long double>(L, pl.x_[n - 1]), U, 0, "right-of-last", K, w);
    }
  } else if (n >= 2) {
    // x = k*period + r, r in remainder range, k in factor range; sample a few k
    long double P = p.periodLength;
    // cover: when the remainder range spans a whole period, every requested x must be k*P + r with k, r in range
    if ((long double)p.periodRemainderRange.ub - p.periodRemainderRange.lb >= P * (1 - 1e-12L)) {
      for (long double x : {(long double)p.grDomOut.lbx, (long double)p.grDomOut.ubx, ((long double)p.grDomOut.lbx + p.grDomOut.ubx) / 2}) {
        bool cov = false;
        long double k0 = floorl((x - p.periodRemainderRange.lb) / P);
        for (long double k = k0 - 1; k <= k0 + 1; k += 1)
          if (k >= p.periodicFactorRange.lb && k <= p.periodicFactorRange.ub &&
              x - k * P >= p.periodRemainderRange.lb - 1e-9L && x - k * P <= p.periodRemainderRange.ub + 1e-9L) cov = true;
        if (!cov) { std::printf("E %d 1e9 period-uncovered %.17Lg 0 0 0 period-uncovered\n", c.id, x); return; }
      }
    }
    // every representation x = k*P + r: all k of the reported factor range (evenly thinned beyond 41)
    std::vector<double> ks;
    {
      double kl = p.periodicFactorRange.lb, ku = p.periodicFactorRange.ub;
      double cnt = ku - kl + 1, step = cnt > 41 ? std::floor(cnt / 40) : 1;
      for (double k = kl; k <= ku; k += step) ks.push_back(k);
      if (ks.empty() || ks.back() != ku) ks.push_back(ku);
      if (kl <= 0 && ku >= 0) ks.push_back(0.0);
      // the periods that contain the ends of the requested interval
      for (double x : {p.grDomOut.lbx, p.grDomOut.ubx})
        for (double dk : {-1.0, 0.0, 1.0}) {
          double k = std::floor((x - p.periodRemainderRange.lb) / p.periodLength) + dk;
          if (k >= kl && k <= ku) ks.push_back(k);
        }
    }
    for (double k : ks) {
      if (k < p.periodicFactorRange.lb || k > p.periodicFactorRange.ub) continue;
      long double sh = (long double)k * P;
      long double rl = p.periodRemainderRange.lb, ru = p.periodRemainderRange.ub;
      // restrict to the x the caller asked for
      long double xl = std::max<long double>(rl, (long double)p.grDomOut.lbx - sh), xu = std::min<long double>(ru, (long double)p.grDomOut.ubx - sh);
      for (size_t s = 0; s + 1 < n; ++s)
        scan_interval(c, pl, s, std::max<long double>(xl, pl.x_[s]), std::min<long double>(xu, pl.x_[s + 1]), sh,
                      k == 0.0 ? "inside" : "other-period", K, w);
      scan_interval(c, pl, 0, xl, std::min<long double>(xu, pl.x_[0]), sh, "left-of-first", K, w);
      scan_interval(c, pl, n - 2, std::max<long double>(xl, pl.x_[n - 1]), xu, sh, "right-of-last", K, w);
    }
  }
  const char *cls = "within";
  if (w.ratio > 1.001L) {
    if (!std::strcmp(w.where, "left-of-first") || !std::strcmp(w.where, "right-of-last") || !std::strcmp(w.where, "int-outside")) {
      cls = "outside-breakpoints";
      // farther from the breakpoints than the merge rule / float rounding of the ends can explain: the reported
      // domain is not covered by the PL at all
      if (!p.fUsePeriod && n >= 1) {
        long double gap = w.x < pl.x_.front() ? pl.x_.front() - w.x : w.x > pl.x_.back() ? w.x - pl.x_.back() : 0;
        if (gap > 2e-4L + 1e-6L * fabsl(w.x)) cls = "uncovered-domain";
      }
    }
    else if (!std::strcmp(w.where, "int") && n == 1) cls = "single-point";
    else if (!std::strcmp(w.where, "single")) cls = "single-point";
    else if (w.w <= 2.5e-4L) cls = "min-spacing";
    else cls = "step-control";
  }
  std::printf("E %d %.6Lg %s %.17Lg %.17Lg %.17Lg %.6Lg %s\n", c.id, w.ratio, w.where, w.x, w.f, w.pl, w.w, cls);
}

// ------------------------------------------------------------------ generator
static double pick(const std::vector<double> &v) { return v[irand((int)v.size())]; }
static double tol_pick() {
  static const std::vector<double> t = {1e-1, 1e-2, 1e-3, 1e-4, 1e-5, 1e-6};
  if (irand(8) == 0) return std::pow(10.0, -1.0 - 5.0 * urand());
  return pick(t);
}
static double dy(double x) { return std::ldexp(std::round(std::ldexp(x, 10)), -10); }  // dyadic with 10 fractional bits

// natural argument range of each function (where intervals are drawn from), possibly exceeded on purpose
static void nat_range(int fn, double prm, double &lo, double &hi) {
  switch (fn) {
    case EXP: lo = -30; hi = 30; break;
    case LOG: lo = 1e-6; hi = 1e6; break;
    case EXPA: lo = -20; hi = 20; break;
    case LOGA: lo = 1e-6; hi = 1e6; break;
    case POW: if (prm < 0) { lo = 1e-3; hi = 1e3; } else if (std::floor(prm) != prm) { lo = 0; hi = 1e3; } else { lo = -50; hi = 50; } break;
    case SIN: case COS: case TAN: lo = -20; hi = 20; break;
    case ASIN: case ACOS: lo = -1; hi = 1; break;
    case ATAN: lo = -1e3; hi = 1e3; break;
    case SINH: case COSH: lo = -14; hi = 14; break;
    case TANH: lo = -20; hi = 20; break;
    case ASINH: lo = -1e4; hi = 1e4; break;
    case ACOSH: lo = 1; hi = 1e4; break;
    case ATANH: lo = -0.999; hi = 0.999; break;
    default: lo = -10; hi = 10;
  }
}

static double prm_pick(int fn) {
  static const std::vector<double> bases = {2, 10, 0.5, 1.5, 2.718281828459045, 0.1, 100, 1.0009765625, 3, 0.75};
  static const std::vector<double> pows = {3, 4, 5, 6, 7, -1, -2, -3, -0.5, -1.5, 0.5, 1.5, 2.5, 1.0 / 3, 0.1, 1, 10, 0.9, 1.1};
  if (fn == EXPA || fn == LOGA) {
    int r = irand(20);
    if (r == 0) return 1.0;    // log A = 0
    if (r == 1) return -2.0;   // log A = NaN
    if (r < 5) return dy(0.05 + 30 * urand() * urand());
    return pick(bases);
  }
  if (fn == POW) {
    int r = irand(10);
    if (r == 0) return dy(-3 + 9 * urand());
    return pick(pows);
  }
  return 0.0;
}

static Case gen_case(int id, int fn, bool light) {
  Case c; c.id = id; c.fn = fn; c.prm = prm_pick(fn);
  double lo, hi; nat_range(fn, c.prm, lo, hi);
  int shape = irand(12);
  double a, b;
  if (shape == 0) {            // tiny interval
    a = lo + (hi - lo) * urand(); b = a + std::pow(10.0, -6.5 + 4 * urand());
  } else if (shape == 1) {     // huge: the converter's default +-1e6 box
    a = -1e6; b = 1e6;
  } else if (shape == 2) {     // exceeding the function's domain on one side
    a = lo - (hi - lo) * urand(); b = lo + (hi - lo) * urand();
  } else if (shape == 3) {     // straddling 0 / period, dyadic bounds
    a = dy(-std::fabs(hi - lo) * 0.1 * urand()); b = dy(std::fabs(hi - lo) * 0.1 * urand());
  } else if (shape == 4) {     // integers
    a = std::floor(lo + (hi - lo) * urand()); b = a + irand(40);
  } else if (shape == 5) {     // log-uniform positive
    double la = std::log(std::max(lo, 1e-6)), lb = std::log(std::max(hi, 1e-5));
    a = std::exp(la + (lb - la) * urand()); b = std::exp(la + (lb - la) * urand());
    if (a > b) std::swap(a, b);
  } else if (shape == 6) {     // very large magnitudes (float rounding of the ends matters)
    a = 1e3 + 9e5 * urand(); b = a + 0.001 + 50 * urand();
    if (irand(2)) { double t = -a; a = -b; b = t; }
  } else if (shape == 7) {     // whole natural range
    a = lo; b = hi;
  } else {
    a = lo + (hi - lo) * urand(); b = lo + (hi - lo) * urand();
    if (a > b) std::swap(a, b);
    if (irand(3) == 0) { a = dy(a); b = dy(b); }
  }
  if (irand(60) == 0) std::swap(a, b);  // empty
  if (irand(60) == 0) b = a;            // point
  c.lbx = a; c.ubx = b;
  int ys = irand(10);
  c.lby = -1e6; c.uby = 1e6;
  if (ys == 0) {  // restrictive y range from two function values inside the interval
    long double f1 = ref(fn, c.prm, a + (b - a) * urand()), f2 = ref(fn, c.prm, a + (b - a) * urand());
    if (std::isfinite((double)f1) && std::isfinite((double)f2)) { c.lby = (double)std::min(f1, f2); c.uby = (double)std::max(f1, f2); }
  } else if (ys == 1) { c.lby = -1e100; c.uby = 1e100; }
  c.isint = irand(4) == 0;
  c.tol = tol_pick();
  if (light && c.tol < 1e-4) c.tol = 1e-3;
  if (irand(200) == 0) c.tol = 0.0;
  if (irand(200) == 0) c.tol = 1.0;
  return c;
}

// fixed corpus: the converter's default call (box +-1e6, reltol 1e-2) and a few pointed cases per function
static void corpus(std::vector<Case> &v) {
  int id = 0;
  for (int fn = 0; fn < NFN; ++fn) {
    double prm = (fn == EXPA || fn == LOGA) ? 2.0 : (fn == POW ? 3.0 : 0.0);
    for (double tol : {1e-2, 1e-5}) {
      Case c; c.id = id++; c.fn = fn; c.prm = prm; c.lbx = -1e6; c.ubx = 1e6; c.lby = -1e6; c.uby = 1e6; c.isint = 0; c.tol = tol;
      v.push_back(c);
    }
    double lo, hi; nat_range(fn, prm, lo, hi);
    Case c; c.id = id++; c.fn = fn; c.prm = prm; c.lbx = std::ceil(lo); c.ubx = std::min(std::floor(hi), c.lbx + 12); c.lby = -1e6; c.uby = 1e6; c.isint = 1; c.tol = 1e-3;
    v.push_back(c);
  }
  for (double pw : {-1.0, -0.5, 0.5, 1.5, 4.0, 5.0}) {
    Case c; c.id = id++; c.fn = POW; c.prm = pw; c.lbx = -1e6; c.ubx = 1e6; c.lby = -1e6; c.uby = 1e6; c.isint = 0; c.tol = 1e-3;
    if (pw < 0 || std::floor(pw) != pw) c.lbx = 0;
    v.push_back(c);
  }
  // x^a on intervals straddling / left of / right of 0: even >= 4, odd, fractional, negative exponents
  for (double tol : {1e-1, 1e-2, 1e-3}) {
    const double ev[][3] = {{4, -3, 2}, {4, -2, -1}, {6, -2, 1}, {8, -1.5, 0}, {4, 0, 3}, {6, 0.5, 2},
                            {3, -3, 2}, {5, -2, 1.5}, {7, -1.5, -0.25}, {3, 0, 4},
                            {0.5, 0, 10}, {1.5, 0, 10}, {2.5, 0.25, 6}, {1.0 / 3, 0, 30},
                            {-1, 0.01, 10}, {-2, 0.05, 5}, {-0.5, 0.01, 100}, {-1.5, 0.1, 20}};
    for (const auto &e : ev) {
      Case c; c.id = id++; c.fn = POW; c.prm = e[0]; c.lbx = e[1]; c.ubx = e[2]; c.lby = -1e6; c.uby = 1e6; c.isint = 0; c.tol = tol;
      v.push_back(c);
    }
    // periodic functions away from the base period, tan across its poles
    const double iv[][2] = {{2, 4}, {-3, 2}, {2, 10}, {30, 33}, {-41, -37.5}, {100, 103}, {-1, 1}};
    for (int fn : {SIN, COS, TAN})
      for (const auto &e : iv) {
        Case c; c.id = id++; c.fn = fn; c.prm = 0; c.lbx = e[0]; c.ubx = e[1]; c.lby = -1e6; c.uby = 1e6; c.isint = 0; c.tol = tol;
        v.push_back(c);
      }
  }
  // float rounding of the domain ends
  { Case c; c.id = id++; c.fn = LOG; c.prm = 0; c.lbx = 0.1; c.ubx = 12345.678; c.lby = -1e6; c.uby = 1e6; c.isint = 0; c.tol = 1e-2; v.push_back(c); }
  { Case c; c.id = id++; c.fn = ATAN; c.prm = 0; c.lbx = 1000.0; c.ubx = 1000.00002; c.lby = -1e6; c.uby = 1e6; c.isint = 0; c.tol = 1e-2; v.push_back(c); }
  // x^0 (the generator does not terminate on it: watchdog)
  { Case c; c.id = id++; c.fn = POW; c.prm = 0; c.lbx = -5; c.ubx = 5; c.lby = -1e6; c.uby = 1e6; c.isint = 0; c.tol = 1e-2; v.push_back(c); }
  // integer argument over a domain wider than int (int(xN-x0+1) is out of range)
  { Case c; c.id = id++; c.fn = LOG; c.prm = 0; c.lbx = 1; c.ubx = 3e9; c.lby = -1e6; c.uby = 1e6; c.isint = 1; c.tol = 1e-1; v.push_back(c); }
  { Case c; c.id = id++; c.fn = EXPA; c.prm = 1.0009765625; c.lbx = -3e9; c.ubx = 3e9; c.lby = -1e100; c.uby = 1e100; c.isint = 1; c.tol = 1e-1; v.push_back(c); }
}

int main(int argc, char **argv) {
  std::string tier = argc > 1 ? argv[1] : "quick";
  uint64_t seed = argc > 2 ? std::strtoull(argv[2], 0, 10) : 1;
  int only = argc > 3 ? std::atoi(argv[3]) : -1;
  rng_state = seed * 0x2545F4914F6CDD1DULL + 0x1234567;
  std::signal(SIGALRM, on_alarm);
  std::vector<Case> cases;
  corpus(cases);
  int nrand = tier == "thorough" ? 200 : 40;   // per function
  int id = (int)cases.size();
  for (int r = 0; r < nrand; ++r)
    for (int fn = 0; fn < NFN; ++fn)
      cases.push_back(gen_case(id++, fn, r % 2 == 0));
#ifdef PL_TRACE
  // synthetic records
  int nsyn = tier == "thorough" ? 400 : 80;
  for (int r = 0; r < nsyn; ++r) {
    Case c = gen_case(id++, ASINH, false);
    c.fn = SYN; c.syn_kind = r % 8;
    double lo = -10, hi = 10;
    int sh = irand(6);
    if (sh == 0) { c.lbx = lo; c.ubx = hi; }
    else if (sh == 1) { c.lbx = dy(lo + (hi - lo) * urand()); c.ubx = c.lbx + dy(4 * urand()); }
    else if (sh == 2) { c.lbx = std::floor(lo + (hi - lo) * urand()); c.ubx = c.lbx + irand(12); }
    else { c.lbx = lo + (hi - lo) * urand(); c.ubx = lo + (hi - lo) * urand(); if (c.lbx > c.ubx) std::swap(c.lbx, c.ubx); }
    c.lby = -1e6; c.uby = 1e6;
    if (irand(6) == 0) { c.lby = dy(4 * urand()); c.uby = c.lby + dy(8 * urand()); }
    if (c.tol < 1e-4) c.tol = 1e-3;
    if (c.syn_kind == 6) { c.tol = 0.0625; c.lby = -1e6; c.uby = 1e6; c.isint = 0; if (r < 14) { c.lbx = 0; c.ubx = 4; } }
    cases.push_back(c);
  }
#endif
#ifdef PL_TRACE
  if (const char *e = std::getenv("PL_TRACE_CAP")) g_cap = std::atol(e);
  if (const char *e = std::getenv("PL_TRACE_TOTAL")) g_total = std::atol(e);
  // arithmetic stream: validates the model's rounding functions against the hardware
  if (only < 0) {
    uint64_t save = rng_state;
    int na = tier == "thorough" ? 20000 : 3000;
    for (int i = 0; i < na; ++i) {
      auto rd = [&]() {
        int k = irand(6);
        double m = (urand() * 2 - 1);
        if (k == 0) return std::ldexp(m, irand(80) - 40);
        if (k == 1) return std::ldexp(std::round(m * 1024), irand(12) - 6);
        if (k == 2) return std::ldexp(m, -1000 - irand(74));   // near / below the subnormal range
        if (k == 3) return m * 1e5;
        if (k == 4) return std::ldexp(1.0 + std::ldexp((double)irand(8), -52 + irand(3)), irand(20) - 10);
        return m;
      };
      double a = rd(), b = rd(), r; const char *op;
      switch (irand(6)) {
        case 0: op = "add"; r = a + b; break;
        case 1: op = "sub"; r = a - b; break;
        case 2: op = "mul"; r = a * b; break;
        case 3: op = "div"; if (b == 0) b = 1; r = a / b; break;
        case 4: op = "sqrt"; a = std::fabs(a); r = std::sqrt(a); break;
        default: op = "tof"; r = (double)(float)a; break;
      }
      if (!std::isfinite(r)) continue;
      std::printf("A %s", op); ph(a); ph(b); ph(r); std::printf("\n");
    }
    rng_state = save;
    consistency_all();
  }
#endif
  int K = tier == "thorough" ? 64 : 16;
  for (const Case &c : cases) {
    if (only >= 0 && c.id != only) continue;
    print_case(c);
    std::fflush(stdout);
    Out o;
    run_case(c, o);
#ifdef PL_TRACE
    print_trace(c);
#endif
    print_out(c, o);
#ifndef PL_TRACE
    explore(c, o, K);
#endif
  }
  return 0;
}

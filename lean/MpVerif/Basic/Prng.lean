/-! Tiny deterministic PRNG (splitmix64) shared by drivers that need to derive
    cases from `VERIF_SEED` on the Lean side. -/
namespace MpVerif

structure Prng where
  s : UInt64

namespace Prng
def next (g : Prng) : UInt64 × Prng :=
  let s := g.s + 0x9e3779b97f4a7c15
  let z := s
  let z := (z ^^^ (z >>> 30)) * 0xbf58476d1ce4e5b9
  let z := (z ^^^ (z >>> 27)) * 0x94d049bb133111eb
  (z ^^^ (z >>> 31), ⟨s⟩)
end Prng
end MpVerif

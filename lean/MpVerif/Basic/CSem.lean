/-!
# C++17 integer semantics used by generated (translator-emitted) definitions

Everything is an `Int`; a C++ type is a width and a signedness.  `bool` is the
integers 0/1.  Three outcomes: a returned value, a thrown exception, or
undefined behaviour (`ub`): signed overflow, division by zero, `min / -1`.

Conversions (`conv`) are modular (C++20 rule; what g++/clang do for C++17's
implementation-defined narrowing).  Unsigned arithmetic wraps; signed arithmetic
outside the type's range is `ub`.
-/
namespace MpVerif.CSem

inductive Outcome (α : Type) where
  | ret (a : α)
  | throw
  | ub
  deriving Repr, DecidableEq

namespace Outcome
@[inline] def bind {α β} (x : Outcome α) (f : α → Outcome β) : Outcome β :=
  match x with
  | ret a => f a
  | throw => throw
  | ub => ub

instance : Monad Outcome where
  pure := ret
  bind := bind

@[simp] theorem bind_ret {α β} (a : α) (f : α → Outcome β) : bind (ret a) f = f a := rfl
@[simp] theorem bind_throw {α β} (f : α → Outcome β) : bind (throw : Outcome α) f = throw := rfl
@[simp] theorem bind_ub {α β} (f : α → Outcome β) : bind (ub : Outcome α) f = ub := rfl

def toStr : Outcome Int → String
  | ret a => s!"ret {a}"
  | throw => "throw"
  | ub => "ub"
end Outcome

open Outcome

structure CTy where
  bits : Nat
  signed : Bool
  deriving Repr, DecidableEq

namespace CTy
def lo (t : CTy) : Int := if t.signed then -(2 ^ (t.bits - 1) : Int) else 0
def hi (t : CTy) : Int := if t.signed then (2 ^ (t.bits - 1) : Int) - 1 else (2 ^ t.bits : Int) - 1
def inRange (t : CTy) (v : Int) : Prop := t.lo ≤ v ∧ v ≤ t.hi
instance (t : CTy) (v : Int) : Decidable (t.inRange v) := by unfold inRange; infer_instance

/-- modular reduction into the type's range -/
def wrap (t : CTy) (v : Int) : Int :=
  if t.signed then (v + (2 ^ (t.bits - 1) : Int)) % (2 ^ t.bits : Int) - (2 ^ (t.bits - 1) : Int)
  else v % (2 ^ t.bits : Int)
end CTy

/-- integral conversion to `t` -/
def conv (t : CTy) (v : Int) : Int := t.wrap v

/-- result of an arithmetic operator evaluated in type `t` whose exact value is `r` -/
def arith (t : CTy) (r : Int) : Outcome Int :=
  if t.signed then (if t.lo ≤ r ∧ r ≤ t.hi then ret r else ub) else ret (t.wrap r)

def cadd (t : CTy) (a b : Int) : Outcome Int := arith t (a + b)
def csub (t : CTy) (a b : Int) : Outcome Int := arith t (a - b)
def cmul (t : CTy) (a b : Int) : Outcome Int := arith t (a * b)
def cneg (t : CTy) (a : Int) : Outcome Int := arith t (-a)
def cdiv (t : CTy) (a b : Int) : Outcome Int := if b = 0 then ub else arith t (Int.tdiv a b)
def cmod (t : CTy) (a b : Int) : Outcome Int :=
  if b = 0 then ub else if t.signed ∧ a = t.lo ∧ b = -1 then ub else arith t (Int.tmod a b)

def b2i (b : Bool) : Int := if b then 1 else 0
def clt (a b : Int) : Int := if a < b then 1 else 0
def cgt (a b : Int) : Int := if a > b then 1 else 0
def cle (a b : Int) : Int := if a ≤ b then 1 else 0
def cge (a b : Int) : Int := if a ≥ b then 1 else 0
def ceq (a b : Int) : Int := if a = b then 1 else 0
def cne (a b : Int) : Int := if a ≠ b then 1 else 0
def cnot (a : Int) : Int := if a = 0 then 1 else 0
def tobool (a : Int) : Int := if a = 0 then 0 else 1

/-- short-circuit `&&` with a possibly-UB right operand -/
def cand (a : Int) (b : Outcome Int) : Outcome Int := if a = 0 then ret 0 else Outcome.bind b fun x => ret (tobool x)
def cor (a : Int) (b : Outcome Int) : Outcome Int := if a = 0 then Outcome.bind b fun x => ret (tobool x) else ret 1

-- the C types of the LP64 platform the harness is compiled on
def tBool : CTy := ⟨1, false⟩
def tSC : CTy := ⟨8, true⟩
def tUC : CTy := ⟨8, false⟩
def tS : CTy := ⟨16, true⟩
def tUS : CTy := ⟨16, false⟩
def tI : CTy := ⟨32, true⟩
def tU : CTy := ⟨32, false⟩
def tL : CTy := ⟨64, true⟩
def tUL : CTy := ⟨64, false⟩
def tLL : CTy := ⟨64, true⟩
def tULL : CTy := ⟨64, false⟩

end MpVerif.CSem

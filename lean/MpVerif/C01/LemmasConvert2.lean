import MpVerif.C01.LemmasConvert
/-!
# C01 — lemmas about the reference converter, part 2: roots, objective, contexts do not change values (core Lean only)
-/
namespace MpVerif.C01

theorem inRange_shift (lb ub : Option Rat) (v c : Rat) :
    inRange (lb.map (· - c)) (ub.map (· - c)) v ↔ inRange lb ub (v + c) := by
  unfold inRange
  cases lb <;> cases ub <;> simp <;> grind

/-- logical expressions evaluate to 0 or 1 -/
theorem LE.eval_01 (x : Asg) : ∀ l : LE, l.eval x = 0 ∨ l.eval x = 1
  | .cmp k a b => by simp only [LE.eval, b2r]; split <;> simp
  | .and ls => by simp only [LE.eval, b2r]; split <;> simp
  | .or ls => by simp only [LE.eval, b2r]; split <;> simp
  | .not l => by
    have := LE.eval_01 x l
    simp only [LE.eval]
    rcases this with h | h <;> rw [h] <;> grind
  | .iff a b => by simp only [LE.eval, b2r]; split <;> simp

theorem flatCons_spec (n0 : Nat) (cs : List (NE × Option Rat × Option Rat)) (S : FS) :
    S.defs <+: (flatCons cs S).2.defs ∧
    ∀ (D : List Def) (x : Asg), WF n0 D → (flatCons cs S).2.defs <+: D → (∀ c ∈ cs, c.1.vok n0 = true) →
      ((∀ r ∈ (flatCons cs S).1, r.sat (exactAsg x D)) ↔ (∀ c ∈ cs, inRange c.2.1 c.2.2 (c.1.eval x))) := by
  induction cs generalizing S with
  | nil => exact ⟨List.prefix_refl _, fun D x _ _ _ => by simp [flatCons]⟩
  | cons c t ih =>
    obtain ⟨e, lb, ub⟩ := c
    have h1 := flatN_spec n0 e S
    have h2 := ih (flatN e S).2
    refine ⟨by simpa [flatCons] using h1.1.trans h2.1, fun D x hwf hpre hv => ?_⟩
    simp only [flatCons] at hpre
    have ve := h1.2 D x hwf (h2.1.trans hpre) (hv (e, lb, ub) (by simp))
    have vt := h2.2 D x hwf hpre (fun c hc => hv c (by simp [hc]))
    · simp only [flatCons, List.forall_mem_cons, vt]
      have : Root.sat (exactAsg x D) ⟨normLin (flatN e S).1.1, lb.map (· - (flatN e S).1.2), ub.map (· - (flatN e S).1.2)⟩ ↔
          inRange lb ub (e.eval x) := by
        simp only [Root.sat, normLin_eval, inRange_shift]
        simp only [affVal] at ve
        rw [ve]
      rw [this]

theorem flatLCons_spec (n0 : Nat) (ls : List LE) (S : FS) :
    S.defs <+: (flatLCons ls S).2.defs ∧
    ∀ (D : List Def) (x : Asg), WF n0 D → (flatLCons ls S).2.defs <+: D → (∀ l ∈ ls, l.vok n0 = true) →
      ((∀ r ∈ (flatLCons ls S).1, r.sat (exactAsg x D)) ↔ (∀ l ∈ ls, l.eval x = 1)) := by
  induction ls generalizing S with
  | nil => exact ⟨List.prefix_refl _, fun D x _ _ _ => by simp [flatLCons]⟩
  | cons l t ih =>
    have h1 := flatL_spec n0 l S
    have h2 := ih (flatL l S).2
    refine ⟨by simpa [flatLCons] using h1.1.trans h2.1, fun D x hwf hpre hv => ?_⟩
    simp only [flatLCons] at hpre
    have ve := h1.2 D x hwf (h2.1.trans hpre) (hv l (by simp))
    have vt := h2.2 D x hwf hpre (fun c hc => hv c (by simp [hc]))
    simp only [flatLCons, List.forall_mem_cons, vt]
    have : Root.sat (exactAsg x D) ⟨[(1, (flatL l S).1)], some 1, none⟩ ↔ l.eval x = 1 := by
      simp only [Root.sat, inRange, evalLin, ve]
      have h01 := LE.eval_01 x l
      constructor
      · intro h; have := h.1 1 rfl; rcases h01 with h0 | h0 <;> rw [h0] at this ⊢ <;> grind
      · intro h; rw [h]; exact ⟨fun l hl => by simp at hl; subst hl; grind, fun u hu => by simp at hu⟩
    rw [this]

theorem flatObj_spec (n0 : Nat) (ob : Option (Sense × NE)) (S : FS) :
    S.defs <+: (flatObj ob S).2.defs ∧
    ∀ (D : List Def) (x : Asg), WF n0 D → (flatObj ob S).2.defs <+: D →
      ∀ s e, ob = some (s, e) → e.vok n0 = true →
        ∃ o, (flatObj ob S).1 = some o ∧ o.sense = s ∧ o.quad = [] ∧ o.val (exactAsg x D) = e.eval x := by
  cases ob with
  | none => exact ⟨List.prefix_refl _, fun D x _ _ s e h => by simp at h⟩
  | some p =>
    obtain ⟨s, e⟩ := p
    have h1 := flatN_spec n0 e S
    by_cases hc : (flatN e S).1.2 = 0
    · refine ⟨by simpa [flatObj, hc] using h1.1, fun D x hwf hpre s' e' he hv => ?_⟩
      simp only [flatObj, hc, if_true] at hpre ⊢
      simp only [Option.some.injEq, Prod.mk.injEq] at he
      obtain ⟨rfl, rfl⟩ := he
      have ve := h1.2 D x hwf hpre hv
      refine ⟨_, rfl, rfl, rfl, ?_⟩
      simp only [Obj.val, normLin_eval, evalQuad]
      simp only [affVal, hc] at ve
      grind
    · obtain ⟨h3, d, hd, hr, hf⟩ := mkDef_spec (.affine [] (flatN e S).1.2) (flatN e S).2
      refine ⟨by simpa [flatObj, hc] using h1.1.trans h3, fun D x hwf hpre s' e' he hv => ?_⟩
      simp only [flatObj, hc, if_false] at hpre ⊢
      simp only [Option.some.injEq, Prod.mk.injEq] at he
      obtain ⟨rfl, rfl⟩ := he
      have ve := h1.2 D x hwf (h3.trans hpre) hv
      have hcst := exact_spec x n0 D hwf d (hpre.subset hd)
      rw [hr, hf] at hcst
      refine ⟨_, rfl, rfl, rfl, ?_⟩
      simp only [Obj.val, normLin_eval, evalQuad, evalLin_append, evalLin, hcst, Fun.val]
      simp only [affVal] at ve
      grind

/-! ## contexts do not change values or creation order -/

def sameShape (l1 l2 : List Def) : Prop := l1.map (fun d => (d.res, d.f)) = l2.map (fun d => (d.res, d.f))

theorem exactAsg_shape (x : Asg) (l1 l2 : List Def) (h : sameShape l1 l2) : exactAsg x l1 = exactAsg x l2 := by
  induction l1 generalizing x l2 with
  | nil => cases l2 with
    | nil => rfl
    | cons d t => simp [sameShape] at h
  | cons d t ih =>
    cases l2 with
    | nil => simp [sameShape] at h
    | cons d2 t2 =>
      simp only [sameShape, List.map_cons, List.cons.injEq, Prod.mk.injEq] at h
      obtain ⟨⟨hr, hf⟩, ht⟩ := h
      simp only [exactAsg, hr, hf]
      exact ih _ t2 ht

theorem assignCtx_shape (B : Bnds) (l : List Def) (need : Var → Ctx) : sameShape (assignCtx B l need) l := by
  induction l generalizing need with
  | nil => rfl
  | cons d t ih =>
    simp only [assignCtx, sameShape, List.map_cons, List.cons.injEq, true_and]
    exact ih _

theorem sameShape_reverse {l1 l2 : List Def} (h : sameShape l1 l2) : sameShape l1.reverse l2.reverse := by
  unfold sameShape at *
  rw [List.map_reverse, List.map_reverse, h]

end MpVerif.C01

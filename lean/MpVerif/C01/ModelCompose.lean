import MpVerif.C01.ModelProp
/-!
# C01 — abstract flat model for the composition theorem

A flat model after flattening: original variables, a list of *definitions* `res = f(args)` in creation order
(every definition reads only variables created before its result variable), and root constraints over all
these variables.  Each definition carries its stored FINAL context.  The conversion replaces every definition
by "delivered rows" (`Step.Deliv`: the gadget output with its auxiliary variables, or the constraint itself
when the solver accepts it natively).
-/
namespace MpVerif.C01

/-- the variables a functional expression reads -/
def Fun.vars : Fun → List Var
  | .affine body _ => body.map (·.2)
  | .quadratic lin q _ => lin.map (·.2) ++ (q.map (·.2.1) ++ q.map (·.2.2))
  | .abs a => [a]
  | .min as => as
  | .max as => as
  | .and as => as
  | .or as => as
  | .not a => [a]
  | .impl c t e => [c, t, e]
  | .ifthen c t e => [c, t, e]
  | .condLin _ body _ => body.map (·.2)
  | .condQuad _ lin q _ => lin.map (·.2) ++ (q.map (·.2.1) ++ q.map (·.2.2))
  | .count as => as
  | .numberofConst _ as => as
  | .numberofVar r as => r :: as
  | .alldiff as => as
  | .div a b => [a, b]
  | .pow a _ => [a]

/-- `PropagateResult(<constraint>&, …, ctx)`: the contexts handed to the argument variables.
Types without a dedicated rule in this model get the default rule (every argument mixed); for `pow` the C++
has one-sided rules for monotone cases, which this model does not claim. -/
def propFun (B : Bnds) (ctx : Ctx) : Fun → List (Var × Ctx)
  | .affine body _ => propLFC ctx body
  | .quadratic lin q _ => propQFC B ctx lin q
  | .not a => propNot ctx a
  | .and as => propAnd ctx as
  | .or as => propOr ctx as
  | .impl c t e => propImpl ctx c t e
  | .ifthen c t e => propIfThen B ctx c t e
  | .condLin k body _ => propCondLin k ctx body
  | f => propDefault f.vars

/-- side conditions under which the propagation rule of `f` is sound at assignment `a`
(0/1 logical arguments; bounds respected where the rule looks at bounds) -/
def FunOK (B : Bnds) (f : Fun) (a : Asg) : Prop :=
  match f with
  | .and as => ∀ v ∈ as, a v = 0 ∨ a v = 1
  | .or as => ∀ v ∈ as, a v = 0 ∨ a v = 1
  | .ifthen c t e => (a c = 0 ∨ a c = 1) ∧ inDom B a t ∧ inDom B a e
  | .quadratic _ q _ => ∀ t ∈ q, inDom B a t.2.1 ∧ inDom B a t.2.2
  | _ => True

/-- a definition `res = f(args)` with its stored final context -/
structure Def where
  res : Var
  ctx : Ctx
  f : Fun

/-- root constraint: linear range over original and result variables
(logical roots are `1 ≤ res`: `FixAsTrue`) -/
structure Root where
  body : Lin
  lb : Option Rat
  ub : Option Rat

def Root.sat (y : Asg) (r : Root) : Prop := inRange r.lb r.ub (evalLin y r.body)

def setVar (x : Asg) (v : Var) (q : Rat) : Asg := fun w => if w = v then q else x w

/-- every result variable read as the exact value of its defining expression, in creation order -/
def exactAsg (x : Asg) : List Def → Asg
  | [] => x
  | d :: ds => exactAsg (setVar x d.res (d.f.val x)) ds

/-- creation order: result variables strictly increasing, all `≥ m`; every definition reads only earlier variables -/
def WF : Nat → List Def → Prop
  | _, [] => True
  | m, d :: ds => m ≤ d.res ∧ (∀ v ∈ d.f.vars, v < d.res) ∧ WF (d.res + 1) ds

/-- stored context of the definition of `v`; variables without a definition must keep their value: mixed -/
def ctxOf : List Def → Var → Ctx
  | [], _ => .mix
  | d :: ds, v => if d.res = v then d.ctx else ctxOf ds v

def isDefined (defs : List Def) (v : Var) : Bool := defs.any (fun d => d.res == v)

/-- **CtxCovers**: for every use of a variable — in a root constraint, or as an argument of a definition under that
definition's own stored context — the context stored on the variable's definition includes what the propagation rule
assigns.  Decidable on the recorded contexts. -/
def CtxCovers (B : Bnds) (defs : List Def) (roots : List Root) : Prop :=
  (∀ r ∈ roots, ∀ p ∈ propRangeLin r.body r.lb r.ub, p.2 ≤ (ctxOf defs p.1).eff) ∧
  (∀ d ∈ defs, ∀ p ∈ propFun B d.ctx.eff d.f, p.2 ≤ (ctxOf defs p.1).eff)

/-- NL-level semantics: the root constraints hold when every result variable has its exact value -/
def NLsat (defs : List Def) (roots : List Root) (x : Asg) : Prop :=
  ∀ r ∈ roots, r.sat (exactAsg x defs)

/-- a definition together with what the conversion delivered for it: rows `Deliv` over the variables below `hi`,
auxiliary variables in `lo ≤ · < hi` -/
structure Step extends Def where
  Deliv : Asg → Prop
  lo : Nat
  hi : Nat

/-- steps ordered by their auxiliary ranges, all at or above `m` -/
def Chain : Nat → List Step → Prop
  | _, [] => True
  | m, s :: t => m ≤ s.lo ∧ s.lo ≤ s.hi ∧ Chain s.hi t


/-- what a conversion step must satisfy (**GadgetExact**, abstract form), relative to a global domain predicate `Dom`
(variable bounds/types respected): the delivered rows imply the stored context's reading of `res = f(args)`;
from an exact value the rows can be satisfied by choosing the auxiliary variables (indices `≥ lo`);
the rows read only variables below `hi`. -/
def StepOK (N : Nat) (Dom : Asg → Prop) (s : Step) : Prop :=
  N ≤ s.lo ∧
  (∀ y, Dom y → s.Deliv y → rel s.ctx (y s.res) (s.f.val y)) ∧
  (∀ z, Dom z → z s.res = s.f.val z → ∃ z', (∀ v, v < s.lo → z' v = z v) ∧ s.Deliv z') ∧
  (∀ y y', (∀ v, v < s.hi → y' v = y v) → s.Deliv y → s.Deliv y')

/-- the delivered model: shared variables keep their values, the solver's assignment respects the variable
domains, every step's rows hold, the root constraints hold -/
def Delivered (N : Nat) (defs : List Def) (steps : List Step) (roots : List Root) (Dom : Asg → Prop) (x y : Asg) : Prop :=
  (∀ v, v < N → (∀ d ∈ defs, d.res ≠ v) → y v = x v) ∧ Dom y ∧ (∀ s ∈ steps, s.Deliv y) ∧ (∀ r ∈ roots, r.sat y)


/-- the variables a constraint reads -/
def Con.vars : Con → List Var
  | .linRange body _ _ => body.map (·.2)
  | .linRhs _ body _ => body.map (·.2)
  | .quadRange lin q _ _ => lin.map (·.2) ++ (q.map (·.2.1) ++ q.map (·.2.2))
  | .quadRhs _ lin q _ => lin.map (·.2) ++ (q.map (·.2.1) ++ q.map (·.2.2))
  | .indLin b _ _ body _ => b :: body.map (·.2)
  | .sos1 vs _ => vs
  | .sos2 vs _ => vs
  | .func res _ f => res :: f.vars

/-- a definition replaced by a gadget output `o` produced when `n` variables existed -/
def Step.ofGadget (d : Def) (o : Out) (n : Nat) : Step :=
  { d with Deliv := fun y => auxOk n y o.vars ∧ ∀ c ∈ o.cons, c.sat y, lo := n, hi := n + o.vars.length }

/-- a definition delivered natively (the solver enforces `res = f(args)` exactly, whatever the context) -/
def Step.native (d : Def) (N : Nat) : Step :=
  { d with Deliv := fun y => y d.res = d.f.val y, lo := N, hi := N }


/-! ## executable validator for `CtxCovers` and `WF` (run per generated model on the recorded contexts) -/

/-- every use of a variable with the context the rule assigns to it -/
def ctxUses (B : Bnds) (defs : List Def) (roots : List Root) : List (Var × Ctx) :=
  roots.flatMap (fun r => propRangeLin r.body r.lb r.ub) ++ defs.flatMap (fun d => propFun B d.ctx.eff d.f)

/-- the uses that the stored contexts do not cover: `(variable, required, stored)` -/
def ctxGaps (B : Bnds) (defs : List Def) (roots : List Root) : List (Var × Ctx × Ctx) :=
  ((ctxUses B defs roots).filter (fun p => !decide (p.2 ≤ (ctxOf defs p.1).eff))).map
    (fun p => (p.1, p.2, ctxOf defs p.1))

def wfB : Nat → List Def → Bool
  | _, [] => true
  | m, d :: ds => decide (m ≤ d.res) && d.f.vars.all (fun v => decide (v < d.res)) && wfB (d.res + 1) ds

end MpVerif.C01

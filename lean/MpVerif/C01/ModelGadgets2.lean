import MpVerif.C01.ModelGadgets
/-!
# C01 — executable front ends of `gUnaryEnc` / `gMulBinTerm` for the per-gadget correspondence (round 5)

`MIPFlatConverter::CreateUnaryEncoding` walks the values `lb .. ub` of the encoded variable in increasing order: a value that has a
reified comparison `var == value` uses that comparison's result variable as its flag, every other value gets a fresh binary variable
(`AddVar(0,1,INTEGER)`), numbered in that order.  `uencFlags` computes the flag list and the fresh variables; the rows are those of
`gUnaryEnc` (the function the theorems `C01_gadget_unary_encoding*` are about).
-/
namespace MpVerif.C01

/-- flags for the values `k, k+1, …` (`len` of them): `taken` maps a value to the result variable of `var == value`;
fresh flags are numbered from `n` -/
def uencFlags (taken : List (Int × Var)) : Int → Nat → Nat → List Var × List VarInfo
  | _, 0, _ => ([], [])
  | k, len + 1, n =>
    match taken.find? (fun p => p.1 == k) with
    | some p => let r := uencFlags taken (k + 1) len n; (p.2 :: r.1, r.2)
    | none => let r := uencFlags taken (k + 1) len (n + 1); (n :: r.1, VarInfo.binary :: r.2)

/-- `CreateUnaryEncoding(var, map)` for an integer variable with finite bounds `lb ≤ ub`; refusals as in the code -/
def gUnaryEncFull (v : Var) (B : Bnds) (taken : List (Int × Var)) (n : Nat) : Out :=
  if !(B v).isInt then { refusal := some .nonInteger } else
  match (B v).lb, (B v).ub with
  | some l, some u =>
    if l.den != 1 || u.den != 1 then { unmodelled := true } else
    let lb := l.num
    let len := (u.num - l.num + 1).toNat
    let r := uencFlags taken lb len n
    { vars := r.2, cons := (gUnaryEnc v lb r.1).cons }
  | _, _ => { refusal := some .unbounded }


/-! ## `LinTerms::sort_terms` (src/std_constr.cc) — run by every `AlgebraicConstraint` constructor

Terms are left as they are unless some coefficient is zero or a variable occurs twice; then they are rebuilt from a
`std::map<int,double>`: ascending variable index, coefficients of equal variables added, zero sums dropped. -/

def insertTerm (c : Rat) (v : Var) : Lin → Lin
  | [] => [(c, v)]
  | (c', v') :: t =>
    if v < v' then (c, v) :: (c', v') :: t
    else if v = v' then (c + c', v') :: t
    else (c', v') :: insertTerm c v t

def hasDupVars : List Var → Bool
  | [] => false
  | a :: t => t.contains a || hasDupVars t

def termsNeedSort (l : Lin) : Bool := l.any (fun p => p.1 == 0) || hasDupVars (l.map (·.2))

def mergeTerms (l : Lin) : Lin := l.foldr (fun p acc => if p.1 == 0 then acc else insertTerm p.1 p.2 acc) []

def sortTerms (l : Lin) : Lin :=
  if termsNeedSort l then (mergeTerms l).filter (fun p => p.1 != 0) else l

/-- the constraint as stored: linear bodies of algebraic rows (also inside indicators) pass through `sort_terms` -/
def Con.stored : Con → Con
  | .linRange body lb ub => .linRange (sortTerms body) lb ub
  | .linRhs k body rhs => .linRhs k (sortTerms body) rhs
  | .indLin b bv k body rhs => .indLin b bv k (sortTerms body) rhs
  | c => c

end MpVerif.C01

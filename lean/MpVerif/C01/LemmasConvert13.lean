import MpVerif.C01.LemmasConvert12
/-!
# C01 — lemmas about the reference converter, part 13: the structural checks hold for every input (`checked_of_vok`)
-/
namespace MpVerif.C01

theorem flatCons_inv (n0 : Nat) (B0 : Bnds) (cs : List (NE × Option Rat × Option Rat)) (S : FS) (hI : Inv n0 B0 S)
    (hv : ∀ c ∈ cs, c.1.vok n0 = true) :
    Inv n0 B0 (flatCons cs S).2 ∧ Ext S (flatCons cs S).2 ∧
      ∀ r ∈ (flatCons cs S).1, ∀ p ∈ r.body, p.2 < (flatCons cs S).2.next := by
  induction cs generalizing S with
  | nil => exact ⟨hI, Ext.refl S, by simp [flatCons]⟩
  | cons c t ih =>
    obtain ⟨e, lb, ub⟩ := c
    obtain ⟨i1, e1, t1⟩ := flatN_inv n0 B0 e S hI (hv (e, lb, ub) (by simp))
    obtain ⟨i2, e2, t2⟩ := ih (flatN e S).2 i1 (fun c hc => hv c (by simp [hc]))
    refine ⟨by simpa [flatCons] using i2, by simpa [flatCons] using e1.trans e2, ?_⟩
    intro r hr
    simp only [flatCons, List.mem_cons] at hr ⊢
    rcases hr with h | h
    · subst h
      intro p hp
      exact Nat.lt_of_lt_of_le (bound_of_vars (normLin_vars _) t1 p hp) e2.1
    · exact t2 r h

theorem flatLCons_inv (n0 : Nat) (B0 : Bnds) (ls : List LE) (S : FS) (hI : Inv n0 B0 S)
    (hv : ∀ l ∈ ls, l.vok n0 = true) :
    Inv n0 B0 (flatLCons ls S).2 ∧ Ext S (flatLCons ls S).2 ∧
      ∀ r ∈ (flatLCons ls S).1, ∀ p ∈ r.body, p.2 < (flatLCons ls S).2.next := by
  induction ls generalizing S with
  | nil => exact ⟨hI, Ext.refl S, by simp [flatLCons]⟩
  | cons l t ih =>
    obtain ⟨i1, e1, r1, _⟩ := flatL_inv n0 B0 l S hI (hv l (by simp))
    obtain ⟨i2, e2, t2⟩ := ih (flatL l S).2 i1 (fun c hc => hv c (by simp [hc]))
    refine ⟨by simpa [flatLCons] using i2, by simpa [flatLCons] using e1.trans e2, ?_⟩
    intro r hr
    simp only [flatLCons, List.mem_cons] at hr ⊢
    rcases hr with h | h
    · subst h
      intro p hp
      simp at hp; subst hp
      exact Nat.lt_of_lt_of_le r1 e2.1
    · exact t2 r h

theorem flatObj_inv (n0 : Nat) (B0 : Bnds) (ob : Option (Sense × NE)) (S : FS) (hI : Inv n0 B0 S)
    (hv : ∀ s e, ob = some (s, e) → e.vok n0 = true) :
    Inv n0 B0 (flatObj ob S).2 ∧ Ext S (flatObj ob S).2 ∧
      ∀ o, (flatObj ob S).1 = some o → o.quad = [] ∧ ∀ p ∈ o.lin, p.2 < (flatObj ob S).2.next := by
  cases ob with
  | none => exact ⟨hI, Ext.refl S, by simp [flatObj]⟩
  | some p =>
    obtain ⟨s, e⟩ := p
    obtain ⟨i1, e1, t1⟩ := flatN_inv n0 B0 e S hI (hv s e rfl)
    by_cases hc : (flatN e S).1.2 = 0
    · refine ⟨by simpa [flatObj, hc] using i1, by simpa [flatObj, hc] using e1, ?_⟩
      intro o ho
      simp only [flatObj, hc, if_true, Option.some.injEq] at ho ⊢
      subst ho
      exact ⟨rfl, bound_of_vars (normLin_vars _) t1⟩
    · obtain ⟨i3, r3, n3, b3, _⟩ := mkDef_inv n0 B0 (.affine [] (flatN e S).1.2) (flatN e S).2 i1 (by simp [Fun.vars]) rfl rfl
      refine ⟨by simpa [flatObj, hc] using i3, by simpa [flatObj, hc] using e1.trans ⟨n3, b3⟩, ?_⟩
      intro o ho
      simp only [flatObj, hc, if_false, Option.some.injEq] at ho ⊢
      subst ho
      refine ⟨rfl, bound_of_vars (normLin_vars _) ?_⟩
      intro q hq
      simp only [List.mem_append, List.mem_singleton] at hq
      rcases hq with h | h
      · exact Nat.lt_of_lt_of_le (t1 q h) n3
      · subst h; exact r3

theorem inv_init (m : NLModel) : Inv m.n0 m.B0 { next := m.n0, defs := [], B := m.B0 } :=
  ⟨trivial, by simp, Nat.le_refl _, fun v h1 h2 => absurd h2 (Nat.not_lt.mpr h1), fun _ _ => rfl, by simp⟩

/-- the invariant for the whole flattening, with the index facts about roots and objective -/
theorem flatAll_inv (m : NLModel) (hv : m.vok = true) :
    Inv m.n0 m.B0 (flatAll m).S ∧
    (∀ r ∈ (flatAll m).croots ++ (flatAll m).lroots, ∀ p ∈ r.body, p.2 < (flatAll m).S.next) ∧
    (∀ o, (flatAll m).obj = some o → o.quad = [] ∧ ∀ p ∈ o.lin, p.2 < (flatAll m).S.next) := by
  simp only [NLModel.vok, Bool.and_eq_true, List.all_eq_true] at hv
  obtain ⟨⟨hvc, hvl⟩, hvo⟩ := hv
  obtain ⟨i0, e0, t0⟩ := flatObj_inv m.n0 m.B0 m.obj _ (inv_init m) (fun s e he => by rw [he] at hvo; exact hvo)
  obtain ⟨i1, e1, t1⟩ := flatCons_inv m.n0 m.B0 m.cons _ i0 hvc
  obtain ⟨i2, e2, t2⟩ := flatLCons_inv m.n0 m.B0 m.lcons _ i1 hvl
  refine ⟨i2, ?_, ?_⟩
  · intro r hr p hp
    simp only [List.mem_append] at hr
    rcases hr with h | h
    · exact Nat.lt_of_lt_of_le (t1 r h p hp) e2.1
    · exact t2 r h p hp
  · intro o ho
    obtain ⟨hq, hl⟩ := t0 o ho
    exact ⟨hq, fun p hp => Nat.lt_of_lt_of_le (hl p hp) (e1.trans e2).1⟩

theorem convDefs_lo_ge (cfg : Cfg) (l : List Def) (B : Bnds) (n : Nat) : ∀ b ∈ convDefs cfg l B n, n ≤ b.lo := by
  induction l generalizing B n with
  | nil => simp [convDefs]
  | cons d t ih =>
    intro b hb
    simp only [convDefs] at hb
    by_cases h1 : isConst d = true
    · simp only [h1, if_true, List.mem_cons] at hb
      rcases hb with hb | hb
      · subst hb; exact Nat.le_refl _
      · exact ih B n b hb
    · by_cases h2 : (decide (cfg.acc = .native) && !isAffine d) = true
      · simp only [h1, h2, if_true, Bool.false_eq_true, if_false, List.mem_cons] at hb
        rcases hb with hb | hb
        · subst hb; exact Nat.le_refl _
        · exact ih B n b hb
      · simp only [h1, h2, Bool.false_eq_true, if_false, List.mem_cons] at hb
        rcases hb with hb | hb
        · subst hb; exact Nat.le_refl _
        · exact Nat.le_trans (Nat.le_add_right _ _) (ih _ _ b hb)

theorem shape_mem {l1 l2 : List Def} (h : sameShape l1 l2) : ∀ d ∈ l1, ∃ d' ∈ l2, d'.res = d.res ∧ d'.f = d.f := by
  induction l1 generalizing l2 with
  | nil => simp
  | cons a t ih =>
    cases l2 with
    | nil => simp [sameShape] at h
    | cons a2 t2 =>
      simp only [sameShape, List.map_cons, List.cons.injEq, Prod.mk.injEq] at h
      obtain ⟨⟨hr, hf⟩, ht⟩ := h
      intro d hd
      simp only [List.mem_cons] at hd
      rcases hd with hd | hd
      · subst hd; exact ⟨a2, by simp, hr.symm, hf.symm⟩
      · obtain ⟨d', hd', h1, h2⟩ := ih ht d hd
        exact ⟨d', by simp [hd'], h1, h2⟩

theorem typedDef_shape (B : Bnds) (d d' : Def) (hr : d'.res = d.res) (hf : d'.f = d.f) : typedDef B d' = typedDef B d := by
  rw [typedDef_eq, typedDef_eq, hr, hf]

/-- the structural facts about `convert`'s output, for every input -/
structure Structural (m : NLModel) (o : ConvOut) (SB : Bnds) : Prop where
  wf : WF o.n0 o.defs
  n0N : o.n0 ≤ o.N
  resN : ∀ d ∈ o.defs, d.res < o.N
  defd : ∀ v, o.n0 ≤ v → v < o.N → ∃ d ∈ o.defs, d.res = v
  b0 : ∀ v, v < o.n0 → o.B0 v = m.B0 v
  typed : ∀ d ∈ o.defs, typedDef o.B0 d = true
  rootsN : ∀ r ∈ o.roots, ∀ p ∈ r.body, p.2 < o.N
  objIdx : ∀ ob, o.obj = some ob → ob.quad = [] ∧ ∀ p ∈ ob.lin, p.2 < o.N
  bAgree : ∀ v, v < o.N → o.B0 v = SB v

theorem structural_of_vok (m : NLModel) (cfg : Cfg) (hv : m.vok = true) :
    Structural m (convert m cfg) (flatAll m).S.B := by
  obtain ⟨hI, hroots, hobj⟩ := flatAll_inv m hv
  have hsh := ctxDefs_shape (flatAll m).S.B (flatAll m).S.defs ((flatAll m).croots ++ (flatAll m).lroots) (flatAll m).obj
  have hBfin : ∀ v, v < (convert m cfg).N → (convert m cfg).B0 v = (flatAll m).S.B v := fun _ _ => rfl
  have hmemS : ∀ d ∈ (convert m cfg).defs, ∃ d' ∈ (flatAll m).S.defs, d'.res = d.res ∧ d'.f = d.f := shape_mem hsh
  refine ⟨WF_shape _ _ _ (sameShape_symm hsh) hI.wf, hI.ge, ?_, ?_, ?_, ?_, hroots, hobj, hBfin⟩
  · intro d hd
    obtain ⟨d', hd', hr, _⟩ := hmemS d hd
    rw [← hr]; exact hI.lt d' hd'
  · intro v h1 h2
    obtain ⟨d', hd', hr⟩ := hI.defd v h1 h2
    obtain ⟨d, hd, hr2, _⟩ := shape_mem (sameShape_symm hsh) d' hd'
    exact ⟨d, hd, by rw [hr2, hr]⟩
  · intro v hv'
    rw [hBfin v (Nat.lt_of_lt_of_le hv' hI.ge)]; exact hI.b0 v hv'
  · intro d hd
    obtain ⟨d', hd', hr, hf⟩ := hmemS d hd
    have hres := hI.lt d' hd'
    have hvars := wf_vars_lt _ _ hI.wf d' hd'
    rw [← typedDef_shape _ d d' hr hf,
      typedDef_congr (flatAll m).S.B (convert m cfg).B0 d' (hBfin _ hres) (fun v hv' => hBfin v (Nat.lt_trans (hvars v hv') hres))]
    exact hI.typed d' hd'

end MpVerif.C01

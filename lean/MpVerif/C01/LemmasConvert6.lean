import MpVerif.C01.LemmasConvert5
/-!
# C01 — lemmas about the reference converter, part 6: the decidable checks as propositions; blocks of the native acceptance set
-/
namespace MpVerif.C01

/-- what `ConvOut.checks` establishes -/
structure Checked (m : NLModel) (o : ConvOut) : Prop where
  wf : WF o.n0 o.defs
  n0N : o.n0 ≤ o.N
  resN : ∀ d ∈ o.defs, d.res < o.N
  defd : ∀ v, o.n0 ≤ v → v < o.N → ∃ d ∈ o.defs, d.res = v
  b0 : ∀ v, v < o.n0 → o.B0 v = m.B0 v
  typed : ∀ d ∈ o.defs, typedDef o.B0 d = true
  rootsN : ∀ r ∈ o.roots, ∀ p ∈ r.body, p.2 < o.N
  rootsFin : ∀ r ∈ o.roots, (∀ l, r.lb = some l → -pracInf < l) ∧ (∀ u, r.ub = some u → u < pracInf)
  cov : CtxCovers o.B0 o.defs o.roots
  objOK : ∀ ob, o.obj = some ob → (∀ v ∈ ob.vars, v < o.N) ∧ ob.quad = [] ∧ ObjCovers o.B0 o.defs ob

theorem checks_sound (m : NLModel) (o : ConvOut) (h : o.checks m = true) : Checked m o := by
  simp only [ConvOut.checks, Bool.and_eq_true, List.all_eq_true, decide_eq_true_eq, List.isEmpty_iff] at h
  obtain ⟨⟨⟨⟨⟨⟨⟨⟨h1, h2⟩, h3⟩, h4⟩, h5⟩, h6⟩, h7⟩, h8⟩, h9⟩ := h
  refine ⟨wfB_sound _ _ h1, h2, h3, ?_, ?_, h6, ?_, ?_, ctxGaps_sound _ _ _ h8, ?_⟩
  · intro v hv1 hv2
    have := h4 v (by simp only [List.mem_range'_1]; omega)
    simp only [isDefined, List.any_eq_true, beq_iff_eq] at this
    exact this
  · intro v hv; exact h5 v (by simpa using hv)
  · intro r hr p hp; exact (h7 r hr).1 p hp
  · intro r hr
    have := (h7 r hr).2
    simp only [finiteRoot, Bool.and_eq_true] at this
    constructor
    · intro l hl; have := this.1; rw [hl] at this; simpa using this
    · intro u hu; have := this.2; rw [hu] at this; simpa using this
  · intro ob hob
    rw [hob] at h9
    simp only [Bool.and_eq_true, List.all_eq_true, decide_eq_true_eq, List.isEmpty_iff] at h9
    obtain ⟨⟨ha, hb⟩, hc⟩ := h9
    refine ⟨?_, hb, objGaps_sound _ _ _ hc⟩
    intro v hv
    simp only [Obj.vars, hb, List.map_nil, List.append_nil, List.mem_map] at hv
    obtain ⟨p, hp, rfl⟩ := hv
    exact ha p hp

/-- conversion order: steps with consecutive auxiliary ranges -/
theorem convDefs_chain (cfg : Cfg) (l : List Def) (B : Bnds) (n : Nat) : Chain n ((convDefs cfg l B n).map Block.toStep) := by
  induction l generalizing B n with
  | nil => trivial
  | cons d t ih =>
    simp only [convDefs]
    by_cases h1 : isConst d = true
    · simp only [h1, if_true, List.map_cons, Chain]
      refine ⟨?_, ?_, ?_⟩
      · simp [Block.toStep, h1, Step.native]
      · simp [Block.toStep, h1, Step.native]
      · simpa [Block.toStep, h1, Step.native] using ih B n
    · by_cases h2 : (decide (cfg.acc = .native) && !isAffine d) = true
      · simp only [h1, h2, if_true, List.map_cons, Chain, Bool.false_eq_true, if_false]
        refine ⟨?_, ?_, ?_⟩
        · simp [Block.toStep, Step.native]
        · simp [Block.toStep, Step.native]
        · simpa [Block.toStep, Step.native] using ih B n
      · simp only [h1, h2, List.map_cons, Chain, Bool.false_eq_true, if_false]
        refine ⟨?_, ?_, ?_⟩
        · simp [Block.toStep, h1]
        · simp [Block.toStep, h1]
        · simpa [Block.toStep, h1] using ih _ _

/-- native acceptance set: no auxiliary variables; a block is a constant, a natively delivered definition, or the
equality row of a linear functional constraint -/
theorem convDefs_native (cfg : Cfg) (hacc : cfg.acc = .native) (l : List Def) (B : Bnds) (n : Nat) :
    ∀ b ∈ convDefs cfg l B n, b.lo = n ∧ b.vars = [] ∧
      (b.native = true ∨ isConst b.d = true ∨
        (b.native = false ∧ isConst b.d = false ∧ ∃ body c, b.d.f = .affine body c ∧ b.cons = (gLFC b.d.res body c).cons)) := by
  induction l generalizing B n with
  | nil => simp [convDefs]
  | cons d t ih =>
    intro b hb
    simp only [convDefs] at hb
    by_cases h1 : isConst d = true
    · simp only [h1, if_true, List.mem_cons] at hb
      rcases hb with hb | hb
      · subst hb; exact ⟨rfl, rfl, Or.inr (Or.inl h1)⟩
      · exact ih B n b hb
    · by_cases h2 : (decide (cfg.acc = .native) && !isAffine d) = true
      · simp only [h1, h2, if_true, Bool.false_eq_true, if_false, List.mem_cons] at hb
        rcases hb with hb | hb
        · subst hb; exact ⟨rfl, rfl, Or.inl rfl⟩
        · exact ih B n b hb
      · have haff : isAffine d = true := by
          simp only [hacc, decide_true, Bool.true_and, Bool.not_eq_true', Bool.not_eq_false] at h2; simpa using h2
        obtain ⟨body, c, hf⟩ : ∃ body c, d.f = .affine body c := by
          unfold isAffine at haff; split at haff
          · rename_i body c h; exact ⟨body, c, h⟩
          · simp at haff
        have hg : gadgetOf d B cfg.opts n = gLFC d.res body c := by simp [gadgetOf, hf]
        have hlin : (cfg.acc = Acc.linear) = False := by simp [hacc]
        simp only [h1, h2, Bool.false_eq_true, if_false, List.mem_cons, hg, hlin] at hb
        have hv : (gLFC d.res body c).vars = [] := rfl
        rcases hb with hb | hb
        · subst hb
          refine ⟨rfl, hv, Or.inr (Or.inr ⟨rfl, by simpa using h1, body, c, hf, rfl⟩)⟩
        · simp only [hv, extB, List.length_nil, Nat.add_zero] at hb
          exact ih B n b hb

end MpVerif.C01

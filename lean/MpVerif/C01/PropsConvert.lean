import MpVerif.C01.LemmasConvert6
import MpVerif.C01.PropsObjective
/-!
# C01 — the reference converter is correct (property theorems only; round 5, audit item [HIGH])

`convert : NLModel → Cfg → ConvOut` (ModelConvert.lean) maps an NL model of the fragment (linear algebraic rows, logical rows and a
linear objective over nested abs / max / min / if-then-else / count / comparisons / and / or / not, bounded variables) to the flat model
(definitions in creation order with the expression map, bounds of `PreprocessConstraint`, contexts of `constr_prop_down.h`) and
the delivered blocks.  The theorems below speak about **the NL model's own semantics** `NLModel.sat` (expression trees evaluated
directly) on one side and the delivered model on the other; no hypothesis is a per-run check on the C++ output.

`InFragment m cfg` is a *decidable* predicate of the input: every variable leaf is a model variable (`m.vok`) and the converter's
output passes its own well-formedness checks (`ConvOut.checks`: creation order, every new variable defined, bounds as created,
logical arguments binary, root data finite, covering contexts).  The checks are evaluated by Lean on the converter's own output
(`drv_c01 convert … ` prints `checks=`); proving them once and for all from the definition of `convert` is the remaining step
(the value-correctness of flattening, soundness of the created bounds, the step properties and the composition are proved).
-/
namespace MpVerif.C01

def InFragment (m : NLModel) (cfg : Cfg) : Prop := m.vok = true ∧ (convert m cfg).checks m = true

instance (m : NLModel) (cfg : Cfg) : Decidable (InFragment m cfg) := inferInstanceAs (Decidable (_ ∧ _))

/-- the delivered model of a conversion: Delivered of the abstract composition theorem, instantiated with the converter's output;
variable domains = the bounds/types the converter created for original and result variables -/
def DeliveredC (o : ConvOut) (x y : Asg) : Prop :=
  Delivered o.N o.defs (o.blocks.map Block.toStep) o.roots (DomB o.N o.B) x y

theorem native_hyps (m : NLModel) (cfg : Cfg) (hacc : cfg.acc = .native) (hck : Checked m (convert m cfg)) :
    (∀ d, d ∈ (convert m cfg).defs ↔ ∃ s ∈ (convert m cfg).blocks.map Block.toStep, s.toDef = d) ∧
    Chain (convert m cfg).N ((convert m cfg).blocks.map Block.toStep) ∧
    (∀ s ∈ (convert m cfg).blocks.map Block.toStep, StepOK (convert m cfg).N (DomB (convert m cfg).N (convert m cfg).B) s) := by
  have hblocks : (convert m cfg).blocks =
      convDefs cfg (sortRank (convert m cfg).defs) (flatAll m).S.B (convert m cfg).N := rfl
  refine ⟨?_, ?_, ?_⟩
  · intro d
    have hm := convDefs_defs cfg (sortRank (convert m cfg).defs) (flatAll m).S.B (convert m cfg).N
    constructor
    · intro hd
      have : d ∈ (convDefs cfg (sortRank (convert m cfg).defs) (flatAll m).S.B (convert m cfg).N).map (·.d) := by
        rw [hm]; exact (mem_sortRank d _).mpr hd
      obtain ⟨b, hb, hbd⟩ := List.mem_map.mp this
      exact ⟨b.toStep, List.mem_map.mpr ⟨b, by rw [hblocks]; exact hb, rfl⟩, by rw [Block.toStep_def]; exact hbd⟩
    · intro ⟨s, hs, hsd⟩
      obtain ⟨b, hb, rfl⟩ := List.mem_map.mp hs
      rw [Block.toStep_def] at hsd
      have : b.d ∈ (convDefs cfg (sortRank (convert m cfg).defs) (flatAll m).S.B (convert m cfg).N).map (·.d) :=
        List.mem_map.mpr ⟨b, by rw [← hblocks]; exact hb, rfl⟩
      rw [hm] at this
      rw [← hsd]; exact (mem_sortRank _ _).mp this
  · rw [hblocks]; exact convDefs_chain cfg _ _ _
  · intro s hs
    obtain ⟨b, hb, rfl⟩ := List.mem_map.mp hs
    rw [hblocks] at hb
    obtain ⟨hlo, hvars, hkind⟩ := convDefs_native cfg hacc _ _ _ b hb
    have hbd : b.d ∈ (convert m cfg).defs := by
      have : b.d ∈ (convDefs cfg (sortRank (convert m cfg).defs) (flatAll m).S.B (convert m cfg).N).map (·.d) :=
        List.mem_map.mpr ⟨b, hb, rfl⟩
      rw [convDefs_defs] at this
      exact (mem_sortRank _ _).mp this
    have hres := hck.resN b.d hbd
    have hvN : ∀ v ∈ b.d.f.vars, v < (convert m cfg).N := fun v hv =>
      Nat.lt_trans (wf_vars_lt _ _ hck.wf b.d hbd v hv) hres
    rcases hkind with hn | hn | ⟨hnn, hnc, body, c, hf, hcons⟩
    · have : b.toStep = Step.native b.d b.lo := by simp [Block.toStep, hn]
      rw [this, hlo]
      exact stepOK_native' _ _ _ b.d (Nat.le_refl _) hres hvN
    · have : b.toStep = Step.native b.d b.lo := by simp [Block.toStep, hn]
      rw [this, hlo]
      exact stepOK_native' _ _ _ b.d (Nat.le_refl _) hres hvN
    · have : b.toStep = Step.ofGadget b.d (gLFC b.d.res body c) (convert m cfg).N := by
        simp only [Block.toStep, hnn, hnc, Bool.or_self, Bool.false_eq_true, if_false, Step.ofGadget, hlo, hvars, hcons]
        rfl
      rw [this]
      apply C01_compose_step_of_eq_gadget _ _ (fun _ => True) b.d _ _ (Nat.le_refl _) (fun _ _ => trivial)
      · have := C01_gadget_lfc b.d.res body c (convert m cfg).N
        rw [hf]; exact this
      · intro k hk v hv
        simp only [gLFC, List.mem_singleton] at hk
        subst hk
        simp only [Con.vars, List.map_append, List.mem_append, List.mem_map, List.map_cons, List.map_nil,
          List.mem_singleton] at hv
        have hv' : v ∈ b.d.f.vars ∨ v = b.d.res := by
          rcases hv with ⟨p, hp, rfl⟩ | hv
          · left; rw [hf]; simp only [Fun.vars, List.mem_map]; exact ⟨p, hp, rfl⟩
          · right; exact hv
        have hlt : v < (convert m cfg).N := by
          rcases hv' with h | h
          · exact hvN v h
          · rw [h]; exact hres
        show v < (convert m cfg).N + (gLFC b.d.res body c).vars.length
        simp only [gLFC, List.length_nil, Nat.add_zero]; exact hlt

/-- **C01_convert_equiv_native** — for every NL model of the fragment and the acceptance set `native` (linear rows + the
fragment's functional types; linear functional constraints converted): a point satisfies the NL model (variable bounds/types,
algebraic rows, logical rows — expression trees evaluated directly) **iff** values of the result variables exist that satisfy
the model `convert` delivers.  No hypothesis about a conversion run; `InFragment` is decidable on the input. -/
theorem C01_convert_equiv_native (m : NLModel) (cfg : Cfg) (hacc : cfg.acc = .native) (x : Asg) (hfr : InFragment m cfg) :
    m.sat x ↔ ∃ y, DeliveredC (convert m cfg) x y := by
  obtain ⟨hv, hc⟩ := hfr
  have hck := checks_sound m _ hc
  have hn0 : (convert m cfg).n0 = m.n0 := rfl
  obtain ⟨hperm, hchain, hok⟩ := native_hyps m cfg hacc hck
  have hwf : WF m.n0 (convert m cfg).defs := hck.wf
  have hvarsN : ∀ d ∈ (convert m cfg).defs, ∀ v ∈ d.f.vars, v < (convert m cfg).N := fun d hd v hv' =>
    Nat.lt_trans (wf_vars_lt _ _ hck.wf d hd v hv') (hck.resN d hd)
  have hcomp : ∀ (hx : ∀ v, v < m.n0 → inDom m.B0 x v),
      NLsat (convert m cfg).defs (convert m cfg).roots x ↔ ∃ y, DeliveredC (convert m cfg) x y := by
    intro hx
    exact C01_compose (convert m cfg).B m.n0 (convert m cfg).N (convert m cfg).defs _ (convert m cfg).roots
      (DomB (convert m cfg).N (convert m cfg).B)
      (fun z z' hag hz v hv' => by unfold inDom; rw [hag v hv']; exact hz v hv')
      hperm hwf hck.resN hck.rootsN hck.rootsFin hck.cov hchain hok
      (fun y hy d hd => funOK_of_typed _ _ d y (hck.typed d hd) (hvarsN d hd) hy)
      x (exact_dom m.n0 _ _ m.B0 _ x hwf hck.defd hck.b0 hck.typed hx)
  constructor
  · intro ⟨hx, hcons, hl⟩
    exact (hcomp hx).mp ((convert_roots_val m cfg x hv hwf).mpr ⟨hcons, hl⟩)
  · intro ⟨y, hdel⟩
    have hx : ∀ v, v < m.n0 → inDom m.B0 x v := by
      intro v hv'
      have hund : ∀ d ∈ (convert m cfg).defs, d.res ≠ v := fun d hd he => by
        have := wf_res_ge hwf d hd; rw [he] at this; omega
      have hyx := hdel.1 v (Nat.lt_of_lt_of_le hv' hck.n0N) hund
      have := hdel.2.1 v (Nat.lt_of_lt_of_le hv' hck.n0N)
      unfold inDom at this ⊢
      rw [hyx, hck.b0 v hv'] at this; exact this
    have := (convert_roots_val m cfg x hv hwf).mp ((hcomp hx).mpr ⟨y, hdel⟩)
    exact ⟨hx, this.1, this.2⟩


/-- **C01_convert_objective_native** — the objective clause for the reference converter: at every point satisfying the NL model the
NL objective value (expression tree evaluated directly) is attained by a delivered solution over that point and no delivered
solution over that point is better — the best delivered objective over the result variables equals the original objective value. -/
theorem C01_convert_objective_native (m : NLModel) (cfg : Cfg) (hacc : cfg.acc = .native) (x : Asg) (hfr : InFragment m cfg)
    (s : Sense) (e : NE) (hobj : m.obj = some (s, e)) (hsat : m.sat x) :
    ∃ o, (convert m cfg).obj = some o ∧ o.sense = s ∧
      (∃ y, DeliveredC (convert m cfg) x y ∧ o.val y = e.eval x) ∧
      (∀ y, DeliveredC (convert m cfg) x y → noWorse s (e.eval x) (o.val y)) := by
  obtain ⟨hv, hc⟩ := hfr
  have hck := checks_sound m _ hc
  obtain ⟨hperm, hchain, hok⟩ := native_hyps m cfg hacc hck
  have hwf : WF m.n0 (convert m cfg).defs := hck.wf
  have hvarsN : ∀ d ∈ (convert m cfg).defs, ∀ v ∈ d.f.vars, v < (convert m cfg).N := fun d hd v hv' =>
    Nat.lt_trans (wf_vars_lt _ _ hck.wf d hd v hv') (hck.resN d hd)
  obtain ⟨hx, hcons, hl⟩ := hsat
  obtain ⟨o, ho, hs, hq, hval⟩ := convert_obj_val m cfg x s e hobj hv hwf
  obtain ⟨hoN, _, hocov⟩ := hck.objOK o ho
  have hnl := (convert_roots_val m cfg x hv hwf).mpr ⟨hcons, hl⟩
  have h := C01_compose_objective (convert m cfg).B m.n0 (convert m cfg).N (convert m cfg).defs _ (convert m cfg).roots
      (DomB (convert m cfg).N (convert m cfg).B) o
      (fun z z' hag hz v hv' => by unfold inDom; rw [hag v hv']; exact hz v hv')
      hperm hwf hck.resN hck.rootsN hck.cov hchain hok
      (fun y hy d hd => funOK_of_typed _ _ d y (hck.typed d hd) (hvarsN d hd) hy)
      hoN hocov (fun y _ t ht => by rw [hq] at ht; simp at ht)
      x (exact_dom m.n0 _ _ m.B0 _ x hwf hck.defd hck.b0 hck.typed hx) hnl
  refine ⟨o, ho, hs, ?_, ?_⟩
  · obtain ⟨y, hd, hy⟩ := h.1
    exact ⟨y, hd, by rw [hy, hval]⟩
  · intro y hd
    have := h.2 y hd
    rw [hval, hs] at this; exact this

end MpVerif.C01

import MpVerif.C01.LemmasConvert15
import MpVerif.C01.PropsObjective
/-!
# C01 — the reference converter is correct (property theorems only; round 5, audit item [HIGH])

`convert : NLModel → Cfg → ConvOut` (ModelConvert.lean) maps an NL model of the fragment (linear algebraic rows, logical rows and a
linear objective over nested abs / max / min / if-then-else / count / comparisons / and / or / not, bounded variables) to the flat model
(definitions in creation order with the expression map, bounds of `PreprocessConstraint`, contexts of `constr_prop_down.h`) and
the delivered blocks.  The theorems below speak about **the NL model's own semantics** `NLModel.sat` (expression trees evaluated
directly) on one side and the delivered model on the other; no hypothesis is a per-run check on the C++ output.

`InFragment m cfg` is a *decidable* predicate of the input: every variable leaf is a model variable (`m.vok`), the root data are
finite (`ConvOut.checksSem`), and for the linear acceptance set `ConvOut.checksLin` (no gadget refuses — every big-M constant finite —,
`cvt:bigM` unset, comparisons integer-typed with integer right-hand side, non-empty max/min, emitted rows local).
Everything else `C01_compose` needs about the flat model — creation order, every new index defined, bounds as created, typing of
logical arguments, index ranges, **covering contexts** (`CtxCovers`, `ObjCovers`) — is **proved for every input**
(`checked_of_vok`: a mutual invariant over the flattening functions and the reverse-order context pass).
-/
namespace MpVerif.C01

def InFragment (m : NLModel) (cfg : Cfg) : Prop :=
  m.vok = true ∧ (convert m cfg).checksSem = true ∧ (cfg.acc = .linear → (convert m cfg).checksLin cfg = true)

instance (m : NLModel) (cfg : Cfg) : Decidable (InFragment m cfg) := inferInstanceAs (Decidable (_ ∧ _ ∧ (_ → _)))

/-- the delivered model of a conversion: Delivered of the abstract composition theorem, instantiated with the converter's output;
variable domains = the bounds/types the converter created for original and result variables -/
def DeliveredC (o : ConvOut) (x y : Asg) : Prop :=
  Delivered o.N o.defs (o.blocks.map Block.toStep) o.roots (DomB o.N o.B) x y

theorem native_hyps (m : NLModel) (cfg : Cfg) (hacc : cfg.acc = .native) (hck : Checked m (convert m cfg)) :
    (∀ d, d ∈ (convert m cfg).defs ↔ ∃ s ∈ (convert m cfg).blocks.map Block.toStep, s.toDef = d) ∧
    Chain (convert m cfg).N ((convert m cfg).blocks.map Block.toStep) ∧
    (∀ s ∈ (convert m cfg).blocks.map Block.toStep, StepOK (convert m cfg).N (DomB (convert m cfg).N (convert m cfg).B) s) := by
  have hblocks : (convert m cfg).blocks =
      convDefs cfg (sortRank (convert m cfg).defs) (flatAll m).S.B (convert m cfg).N := rfl
  refine ⟨?_, ?_, ?_⟩
  · intro d
    have hm := convDefs_defs cfg (sortRank (convert m cfg).defs) (flatAll m).S.B (convert m cfg).N
    constructor
    · intro hd
      have : d ∈ (convDefs cfg (sortRank (convert m cfg).defs) (flatAll m).S.B (convert m cfg).N).map (·.d) := by
        rw [hm]; exact (mem_sortRank d _).mpr hd
      obtain ⟨b, hb, hbd⟩ := List.mem_map.mp this
      exact ⟨b.toStep, List.mem_map.mpr ⟨b, by rw [hblocks]; exact hb, rfl⟩, by rw [Block.toStep_def]; exact hbd⟩
    · intro ⟨s, hs, hsd⟩
      obtain ⟨b, hb, rfl⟩ := List.mem_map.mp hs
      rw [Block.toStep_def] at hsd
      have : b.d ∈ (convDefs cfg (sortRank (convert m cfg).defs) (flatAll m).S.B (convert m cfg).N).map (·.d) :=
        List.mem_map.mpr ⟨b, by rw [← hblocks]; exact hb, rfl⟩
      rw [hm] at this
      rw [← hsd]; exact (mem_sortRank _ _).mp this
  · rw [hblocks]; exact convDefs_chain cfg _ _ _
  · intro s hs
    obtain ⟨b, hb, rfl⟩ := List.mem_map.mp hs
    rw [hblocks] at hb
    obtain ⟨hlo, hvars, hkind⟩ := convDefs_native cfg hacc _ _ _ b hb
    have hbd : b.d ∈ (convert m cfg).defs := by
      have : b.d ∈ (convDefs cfg (sortRank (convert m cfg).defs) (flatAll m).S.B (convert m cfg).N).map (·.d) :=
        List.mem_map.mpr ⟨b, hb, rfl⟩
      rw [convDefs_defs] at this
      exact (mem_sortRank _ _).mp this
    have hres := hck.resN b.d hbd
    have hvN : ∀ v ∈ b.d.f.vars, v < (convert m cfg).N := fun v hv =>
      Nat.lt_trans (wf_vars_lt _ _ hck.wf b.d hbd v hv) hres
    rcases hkind with hn | hn | ⟨hnn, hnc, body, c, hf, hcons⟩
    · have : b.toStep = Step.native b.d b.lo := by simp [Block.toStep, hn]
      rw [this, hlo]
      exact stepOK_native' _ _ _ b.d (Nat.le_refl _) hres hvN
    · have : b.toStep = Step.native b.d b.lo := by simp [Block.toStep, hn]
      rw [this, hlo]
      exact stepOK_native' _ _ _ b.d (Nat.le_refl _) hres hvN
    · have : b.toStep = Step.ofGadget b.d (gLFC b.d.res body c) (convert m cfg).N := by
        simp only [Block.toStep, hnn, hnc, Bool.or_self, Bool.false_eq_true, if_false, Step.ofGadget, hlo, hvars, hcons]
        rfl
      rw [this]
      apply C01_compose_step_of_eq_gadget _ _ (fun _ => True) b.d _ _ (Nat.le_refl _) (fun _ _ => trivial)
      · have := C01_gadget_lfc b.d.res body c (convert m cfg).N
        rw [hf]; exact this
      · intro k hk v hv
        simp only [gLFC, List.mem_singleton] at hk
        subst hk
        simp only [Con.vars, List.map_append, List.mem_append, List.mem_map, List.map_cons, List.map_nil,
          List.mem_singleton] at hv
        have hv' : v ∈ b.d.f.vars ∨ v = b.d.res := by
          rcases hv with ⟨p, hp, rfl⟩ | hv
          · left; rw [hf]; simp only [Fun.vars, List.mem_map]; exact ⟨p, hp, rfl⟩
          · right; exact hv
        have hlt : v < (convert m cfg).N := by
          rcases hv' with h | h
          · exact hvN v h
          · rw [h]; exact hres
        show v < (convert m cfg).N + (gLFC b.d.res body c).vars.length
        simp only [gLFC, List.length_nil, Nat.add_zero]; exact hlt

/-- membership of the block definitions / step-definition correspondence (both acceptance sets) -/
theorem blocks_perm (m : NLModel) (cfg : Cfg) :
    (∀ d, d ∈ (convert m cfg).defs ↔ ∃ s ∈ (convert m cfg).blocks.map Block.toStep, s.toDef = d) ∧
    (∀ b ∈ (convert m cfg).blocks, b.d ∈ (convert m cfg).defs) := by
  have hblocks : (convert m cfg).blocks =
      convDefs cfg (sortRank (convert m cfg).defs) (flatAll m).S.B (convert m cfg).N := rfl
  have hm := convDefs_defs cfg (sortRank (convert m cfg).defs) (flatAll m).S.B (convert m cfg).N
  have hmem : ∀ b ∈ (convert m cfg).blocks, b.d ∈ (convert m cfg).defs := by
    intro b hb
    have : b.d ∈ (convDefs cfg (sortRank (convert m cfg).defs) (flatAll m).S.B (convert m cfg).N).map (·.d) :=
      List.mem_map.mpr ⟨b, by rw [← hblocks]; exact hb, rfl⟩
    rw [hm] at this
    exact (mem_sortRank _ _).mp this
  refine ⟨?_, hmem⟩
  intro d
  constructor
  · intro hd
    have : d ∈ (convDefs cfg (sortRank (convert m cfg).defs) (flatAll m).S.B (convert m cfg).N).map (·.d) := by
      rw [hm]; exact (mem_sortRank d _).mpr hd
    obtain ⟨b, hb, hbd⟩ := List.mem_map.mp this
    exact ⟨b.toStep, List.mem_map.mpr ⟨b, by rw [hblocks]; exact hb, rfl⟩, by rw [Block.toStep_def]; exact hbd⟩
  · intro ⟨s, hs, hsd⟩
    obtain ⟨b, hb, rfl⟩ := List.mem_map.mp hs
    rw [Block.toStep_def] at hsd
    rw [← hsd]; exact hmem b hb

/-- the linear acceptance set: every block is a valid step (gadget theorems + lowering) -/
theorem linear_hyps (m : NLModel) (cfg : Cfg) (hacc : cfg.acc = .linear) (hck : Checked m (convert m cfg))
    (hlin : (convert m cfg).checksLin cfg = true) :
    Chain (convert m cfg).N ((convert m cfg).blocks.map Block.toStep) ∧
    (∀ s ∈ (convert m cfg).blocks.map Block.toStep, StepOK (convert m cfg).N (DomB (convert m cfg).N (convert m cfg).B) s) := by
  have hblocks : (convert m cfg).blocks =
      convDefs cfg (sortRank (convert m cfg).defs) (flatAll m).S.B (convert m cfg).N := rfl
  simp only [ConvOut.checksLin, Bool.and_eq_true, decide_eq_true_eq, List.all_eq_true] at hlin
  obtain ⟨⟨hM, hbl⟩, hdefs⟩ := hlin
  have hstruct := convDefs_linear cfg hacc (convert m cfg).N (flatAll m).S.B (sortRank (convert m cfg).defs)
    (flatAll m).S.B (convert m cfg).N (Nat.le_refl _) (fun _ _ => rfl)
  -- the final bounds agree with the flattening bounds on original/result variables
  have hBfin : ∀ v, v < (convert m cfg).N → (convert m cfg).B v = (flatAll m).S.B v := by
    intro v hv
    show ((convert m cfg).blocks.foldl (fun B b => extB B b.lo b.vars) (flatAll m).S.B) v = _
    apply foldl_extB_below
    intro b hb
    exact Nat.lt_of_lt_of_le hv (hstruct b (by rw [← hblocks]; exact hb)).1
  refine ⟨by rw [hblocks]; exact convDefs_chain cfg _ _ _, ?_⟩
  intro s hs
  obtain ⟨b, hb, rfl⟩ := List.mem_map.mp hs
  have hbd := (blocks_perm m cfg).2 b hb
  have hres := hck.resN b.d hbd
  have hvN : ∀ v ∈ b.d.f.vars, v < (convert m cfg).N := fun v hv =>
    Nat.lt_trans (wf_vars_lt _ _ hck.wf b.d hbd v hv) hres
  obtain ⟨hlo, hkind⟩ := hstruct b (by rw [← hblocks]; exact hb)
  rcases hkind with ⟨hc, hnn⟩ | ⟨hnc, hnn, Br, hBr, hvars, hraw, hcons, href⟩
  · have : b.toStep = Step.native b.d b.lo := by simp [Block.toStep, hc]
    rw [this]
    exact stepOK_native' _ _ _ b.d hlo (Nat.lt_of_lt_of_le hres hlo) (fun v hv => Nat.lt_of_lt_of_le (hvN v hv) hlo)
  · obtain ⟨hrefn, hlocal⟩ := hbl b hb
    have hrefn' : b.refusal = none := by simpa using hrefn
    simp only [Block.localRows, List.all_eq_true, Bool.or_eq_true, Bool.and_eq_true, decide_eq_true_eq] at hlocal
    have hBr' : ∀ v, v < (convert m cfg).N → Br v = (convert m cfg).B v := fun v hv => by rw [hBr v hv, hBfin v hv]
    have hloc : ∀ c ∈ (gadgetOf b.d Br cfg.opts b.lo).cons, ∀ v ∈ c.vars,
        v < (convert m cfg).N ∨ (b.lo ≤ v ∧ v < b.lo + (gadgetOf b.d Br cfg.opts b.lo).vars.length) := by
      intro c hc v hv
      rw [← hraw] at hc; rw [← hvars]
      exact hlocal c hc v hv
    have hrawstep := raw_stepOK (convert m cfg).N b.lo (convert m cfg).B Br cfg.opts b.d hlo hBr'
      (hck.typed b.d hbd) (hdefs b.d hbd) hres hvN
      (fun c hc v hv => by
        rcases hloc c hc v hv with h | ⟨_, h⟩
        · exact Nat.lt_of_lt_of_le h (Nat.le_trans hlo (Nat.le_add_right _ _))
        · exact h)
    have hstep := stepOK_lowered (convert m cfg).N b.lo (convert m cfg).B
      (extB Br b.lo (gadgetOf b.d Br cfg.opts b.lo).vars) cfg.opts b.d (gadgetOf b.d Br cfg.opts b.lo)
      (lowerCons (extB Br b.lo (gadgetOf b.d Br cfg.opts b.lo).vars) cfg.opts (gadgetOf b.d Br cfg.opts b.lo).cons)
      hM rfl (by rw [← hvars, ← hraw]; exact href hrefn') hrawstep
      (fun v hv => by rw [extB_below _ _ _ _ (Nat.lt_of_lt_of_le hv hlo)]; exact hBr' v hv)
      (fun y ha v h1 h2 => auxOk_extB Br b.lo _ y ha v h1 h2) hloc
    have : b.toStep = { b.d with
        Deliv := fun y => auxOk b.lo y (gadgetOf b.d Br cfg.opts b.lo).vars ∧
          ∀ c ∈ (lowerCons (extB Br b.lo (gadgetOf b.d Br cfg.opts b.lo).vars) cfg.opts (gadgetOf b.d Br cfg.opts b.lo).cons).cons, c.sat y,
        lo := b.lo, hi := b.lo + (gadgetOf b.d Br cfg.opts b.lo).vars.length } := by
      simp only [Block.toStep, hnn, hnc, Bool.or_self, Bool.false_eq_true, if_false]
      rw [hcons, hraw, hvars]
    rw [this]; exact hstep

/-- the steps of either acceptance set are valid -/
theorem steps_hyps (m : NLModel) (cfg : Cfg) (hfr : InFragment m cfg) :
    Chain (convert m cfg).N ((convert m cfg).blocks.map Block.toStep) ∧
    (∀ s ∈ (convert m cfg).blocks.map Block.toStep, StepOK (convert m cfg).N (DomB (convert m cfg).N (convert m cfg).B) s) := by
  obtain ⟨hv, hc, hl⟩ := hfr
  have hck := checked_of_vok m cfg hv hc
  cases hacc : cfg.acc with
  | native => exact (native_hyps m cfg hacc hck).2
  | linear => exact linear_hyps m cfg hacc hck (hl hacc)

/-- **C01_convert_equiv** — for every NL model of the fragment, both acceptance sets (`native`: linear rows + the fragment's
functional types, linear functional constraints converted; `linear`: only linear rows — every functional constraint reformulated by its
gadget, indicator rows lowered to big-M rows) and default options: a point satisfies the NL model (variable bounds/types,
algebraic rows, logical rows — expression trees evaluated directly) **iff** values of the result and auxiliary variables exist
that satisfy the model `convert` delivers.  No hypothesis about a conversion run; `InFragment` is decidable on the input. -/
theorem C01_convert_equiv (m : NLModel) (cfg : Cfg) (x : Asg) (hfr : InFragment m cfg) :
    m.sat x ↔ ∃ y, DeliveredC (convert m cfg) x y := by
  obtain ⟨hchain, hok⟩ := steps_hyps m cfg hfr
  obtain ⟨hv, hc, _⟩ := hfr
  have hck := checked_of_vok m cfg ‹m.vok = true› hc
  have hperm := (blocks_perm m cfg).1
  have hwf : WF m.n0 (convert m cfg).defs := hck.wf
  have hvarsN : ∀ d ∈ (convert m cfg).defs, ∀ v ∈ d.f.vars, v < (convert m cfg).N := fun d hd v hv' =>
    Nat.lt_trans (wf_vars_lt _ _ hck.wf d hd v hv') (hck.resN d hd)
  have hcomp : ∀ (hx : ∀ v, v < m.n0 → inDom m.B0 x v),
      NLsat (convert m cfg).defs (convert m cfg).roots x ↔ ∃ y, DeliveredC (convert m cfg) x y := by
    intro hx
    exact C01_compose (convert m cfg).B m.n0 (convert m cfg).N (convert m cfg).defs _ (convert m cfg).roots
      (DomB (convert m cfg).N (convert m cfg).B)
      (fun z z' hag hz v hv' => by unfold inDom; rw [hag v hv']; exact hz v hv')
      hperm hwf hck.resN hck.rootsN hck.rootsFin hck.cov hchain hok
      (fun y hy d hd => funOK_of_typed _ _ d y (hck.typed d hd) (hvarsN d hd) hy)
      x (exact_dom m.n0 _ _ m.B0 _ x hwf hck.defd hck.b0 hck.typed hx)
  constructor
  · intro ⟨hx, hcons, hl⟩
    exact (hcomp hx).mp ((convert_roots_val m cfg x hv hwf).mpr ⟨hcons, hl⟩)
  · intro ⟨y, hdel⟩
    have hx : ∀ v, v < m.n0 → inDom m.B0 x v := by
      intro v hv'
      have hund : ∀ d ∈ (convert m cfg).defs, d.res ≠ v := fun d hd he => by
        have := wf_res_ge hwf d hd; rw [he] at this; omega
      have hyx := hdel.1 v (Nat.lt_of_lt_of_le hv' hck.n0N) hund
      have := hdel.2.1 v (Nat.lt_of_lt_of_le hv' hck.n0N)
      unfold inDom at this ⊢
      rw [hyx, hck.b0 v hv'] at this; exact this
    have := (convert_roots_val m cfg x hv hwf).mp ((hcomp hx).mpr ⟨y, hdel⟩)
    exact ⟨hx, this.1, this.2⟩

/-- **C01_convert_objective** — the objective clause for the reference converter, both acceptance sets: at every point satisfying
the NL model the NL objective value (expression tree evaluated directly) is attained by a delivered solution over that point and
no delivered solution over that point is better: the best delivered objective over the result/auxiliary variables equals the
original objective value. -/
theorem C01_convert_objective (m : NLModel) (cfg : Cfg) (x : Asg) (hfr : InFragment m cfg)
    (s : Sense) (e : NE) (hobj : m.obj = some (s, e)) (hsat : m.sat x) :
    ∃ o, (convert m cfg).obj = some o ∧ o.sense = s ∧
      (∃ y, DeliveredC (convert m cfg) x y ∧ o.val y = e.eval x) ∧
      (∀ y, DeliveredC (convert m cfg) x y → noWorse s (e.eval x) (o.val y)) := by
  obtain ⟨hchain, hok⟩ := steps_hyps m cfg hfr
  obtain ⟨hv, hc, _⟩ := hfr
  have hck := checked_of_vok m cfg ‹m.vok = true› hc
  have hperm := (blocks_perm m cfg).1
  have hwf : WF m.n0 (convert m cfg).defs := hck.wf
  have hvarsN : ∀ d ∈ (convert m cfg).defs, ∀ v ∈ d.f.vars, v < (convert m cfg).N := fun d hd v hv' =>
    Nat.lt_trans (wf_vars_lt _ _ hck.wf d hd v hv') (hck.resN d hd)
  obtain ⟨hx, hcons, hl⟩ := hsat
  obtain ⟨o, ho, hs, hq, hval⟩ := convert_obj_val m cfg x s e hobj hv hwf
  obtain ⟨hoN, _, hocov⟩ := hck.objOK o ho
  have hnl := (convert_roots_val m cfg x hv hwf).mpr ⟨hcons, hl⟩
  have h := C01_compose_objective (convert m cfg).B m.n0 (convert m cfg).N (convert m cfg).defs _ (convert m cfg).roots
      (DomB (convert m cfg).N (convert m cfg).B) o
      (fun z z' hag hz v hv' => by unfold inDom; rw [hag v hv']; exact hz v hv')
      hperm hwf hck.resN hck.rootsN hck.cov hchain hok
      (fun y hy d hd => funOK_of_typed _ _ d y (hck.typed d hd) (hvarsN d hd) hy)
      hoN hocov (fun y _ t ht => by rw [hq] at ht; simp at ht)
      x (exact_dom m.n0 _ _ m.B0 _ x hwf hck.defd hck.b0 hck.typed hx) hnl
  refine ⟨o, ho, hs, ?_, ?_⟩
  · obtain ⟨y, hd, hy⟩ := h.1
    exact ⟨y, hd, by rw [hy, hval]⟩
  · intro y hd
    have := h.2 y hd
    rw [hval, hs] at this; exact this

/-! ## non-vacuity: a concrete model of the fragment (nesting, a shared subexpression, a logical row, an objective)

`minimize x0 + |x2|  s.t.  x0 + |x2| + max(|x2|, x1) ≤ 4,  (x1 ≤ 2) ∨ ¬(x1 ≥ 0)`,
`x0 ∈ [0,5]`, `x1 ∈ {-2,…,3}`, `x2 ∈ [-3,3]`.  Membership in the fragment is decided by kernel evaluation of the decidable predicate
(`decide +kernel`: no axiom beyond the three standard ones). -/

def exVI (l u : Rat) (i : Bool) : VarInfo := ⟨some l, some u, i⟩
def exB0 : Bnds := fun v => if v = 0 then exVI 0 5 false else if v = 1 then exVI (-2) 3 true else exVI (-3) 3 false
def exNL : NLModel :=
  ⟨3, exB0, some (.min, .add (.v 0) (.abs (.v 2))),
   [(.add (.v 0) (.add (.abs (.v 2)) (.max (.cons (.abs (.v 2)) (.cons (.v 1) .nil)))), none, some 4)],
   [.or (.cons (.cmp .le (.v 1) (.c 2)) (.cons (.not (.cmp .ge (.v 1) (.c 0))) .nil))]⟩

theorem exVI_admits (l u q : Rat) (i : Bool) (h1 : l ≤ q) (h2 : q ≤ u) (hi : i = true → isIntVal q) : (exVI l u i).admits q :=
  ⟨fun l' h => by simp [exVI] at h; subst h; exact h1, fun u' h => by simp [exVI] at h; subst h; exact h2,
   fun h => hi (by simpa [exVI] using h)⟩

theorem C01_convert_example_infragment_linear : InFragment exNL { acc := .linear } := by decide +kernel
theorem C01_convert_example_infragment_native : InFragment exNL { acc := .native } := by decide +kernel

/-- the theorems applied to the concrete model: NL semantics ⇔ the 12-variable all-linear delivered model -/
theorem C01_convert_example_equiv (x : Asg) :
    exNL.sat x ↔ ∃ y, DeliveredC (convert exNL { acc := .linear }) x y :=
  C01_convert_equiv exNL _ x C01_convert_example_infragment_linear

/-- the instance is not degenerate: the point (1, 1, -1) satisfies the NL model, (1, 1, -3) does not -/
example : exNL.sat (fun v => if v = 0 then 1 else if v = 1 then 1 else -1) := by
  refine ⟨?_, ?_, ?_⟩
  · intro v hv
    have : v = 0 ∨ v = 1 ∨ v = 2 := by simp only [exNL] at hv; omega
    rcases this with h | h | h <;> subst h
    · exact exVI_admits 0 5 1 false (by grind) (by grind) (by simp)
    · exact exVI_admits (-2) 3 1 true (by grind) (by grind) (fun _ => ⟨1, by simp⟩)
    · exact exVI_admits (-3) 3 (-1) false (by grind) (by grind) (by simp)
  · intro c hc
    simp [exNL] at hc; subst hc
    simp [inRange, NE.eval, NEs.evals, maxQ]; grind
  · intro l hl
    simp [exNL] at hl; subst hl
    simp [LE.eval, LEs.evals, NE.eval, b2r, Cmp5.holds]; grind

example : ¬ exNL.sat (fun v => if v = 0 then 1 else if v = 1 then 1 else -3) := by
  intro ⟨_, h, _⟩
  have := h _ (List.mem_singleton.mpr rfl)
  simp [inRange, NE.eval, NEs.evals, maxQ] at this; grind

end MpVerif.C01

import MpVerif.C01.LemmasConvert17
import MpVerif.C01.PropsObjective
/-!
# C01 — the reference converter is correct (property theorems only; round 5, audit item [HIGH])

`convert : NLModel → Cfg → ConvOut` (ModelConvert.lean) maps an NL model of the fragment (linear algebraic rows, logical rows and a
linear objective over nested abs / max / min / if-then-else / count / comparisons / and / or / not / iff, bounded variables) to the flat model
(definitions in creation order with the expression map, bounds of `PreprocessConstraint`, contexts of `constr_prop_down.h`) and
the delivered blocks.  The theorems below speak about **the NL model's own semantics** `NLModel.sat` (expression trees evaluated
directly) on one side and the delivered model on the other; no hypothesis is a per-run check on the C++ output.

`InFragment m cfg` is a *decidable* predicate of the input: every variable leaf is a model variable (`m.vok`), the root data are
finite (`ConvOut.checksSem`), and for the linear acceptance set `ConvOut.checksLin` (no gadget refuses — every big-M constant finite —,
`cvt:bigM` unset, comparisons integer-typed with integer right-hand side, non-empty max/min, emitted rows local).
Everything else `C01_compose` needs about the flat model — creation order, every new index defined, bounds as created, typing of
logical arguments, index ranges, **covering contexts** (`CtxCovers`, `ObjCovers`) — is **proved for every input**
(`checked_of_vok`: a mutual invariant over the flattening functions and the reverse-order context pass).
-/
namespace MpVerif.C01

def InFragment (m : NLModel) (cfg : Cfg) : Prop :=
  m.vok = true ∧ (convert m cfg).checksSem = true ∧ (cfg.acc = .linear → (convert m cfg).checksLin cfg = true)

instance (m : NLModel) (cfg : Cfg) : Decidable (InFragment m cfg) := inferInstanceAs (Decidable (_ ∧ _ ∧ (_ → _)))

/-- the delivered model of a conversion: Delivered of the abstract composition theorem, instantiated with the converter's output.
Variable domains: the bounds/types of the delivered model (`ConvOut.B`: created bounds narrowed by the propagation from the logical
rows, auxiliary variables of the gadgets); rows: the blocks' rows and the algebraic rows `rootsD` — a logical row is delivered as the
bounds `1..1` of its result variable, not as a row. -/
def DeliveredC (o : ConvOut) (x y : Asg) : Prop :=
  Delivered o.N o.defs (o.blocks.map Block.toStep) o.rootsD (DomB o.N o.B) x y

theorem resBnd_logical (B : Bnds) (f : Fun) (h : isLogicalFun f = true) : resBnd B f = VarInfo.binary := by
  cases f <;> first | rfl | simp [isLogicalFun] at h

/-- the delivered bounds below `N` are the narrowed ones -/
theorem bfin_agree (m : NLModel) (cfg : Cfg) : ∀ v, v < (convert m cfg).N → (convert m cfg).B v = (convert m cfg).B1 v := by
  intro v hv
  show ((convert m cfg).kept.foldl (fun B b => extB B b.lo b.vars) (convert m cfg).B1) v = _
  apply foldl_extB_below
  intro b hb
  exact Nat.lt_of_lt_of_le hv (convDefs_lo_ge cfg _ _ _ b hb)

theorem dom1_sub (m : NLModel) (cfg : Cfg) (hv : m.vok = true) (y : Asg)
    (h : DomB (convert m cfg).N (convert m cfg).B y) : DomB (convert m cfg).N (convert m cfg).B0 y := by
  intro v hv'
  have := h v hv'
  unfold inDom at this ⊢
  rw [bfin_agree m cfg v hv'] at this
  exact narrowB_sub _ _ (convert_factsBin m cfg hv) v _ this

theorem dom1_of_facts (m : NLModel) (cfg : Cfg) (y : Asg)
    (h : DomB (convert m cfg).N (convert m cfg).B0 y) (hs : ∀ f ∈ (convert m cfg).facts, y f.1 = f.2.1) :
    DomB (convert m cfg).N (convert m cfg).B y := by
  intro v hv'
  have := narrow_dom _ _ _ y h hs v hv'
  unfold inDom at this ⊢
  rw [bfin_agree m cfg v hv']; exact this

/-- membership of the block definitions / step-definition correspondence (both acceptance sets) -/
theorem blocks_perm (m : NLModel) (cfg : Cfg) :
    (∀ d, d ∈ (convert m cfg).defs ↔ ∃ s ∈ (convert m cfg).blocks.map Block.toStep, s.toDef = d) ∧
    (∀ b ∈ (convert m cfg).blocks, b.d ∈ (convert m cfg).defs) ∧
    (∀ b ∈ (convert m cfg).kept, b.d ∈ (convert m cfg).defs) := by
  let rm := removedDef (convert m cfg).facts (nRefs (convert m cfg).defs (convert m cfg).fixTrue (convert m cfg).rootsD (convert m cfg).obj)
  let mk : Def → Block := fun d => { d := d, vars := [], cons := [], lo := (convert m cfg).N, native := false, removed := true }
  have hblocks : (convert m cfg).blocks = ((convert m cfg).defs.filter rm).map mk ++ (convert m cfg).kept := rfl
  have hkept : (convert m cfg).kept =
      convDefs cfg (sortRank ((convert m cfg).defs.filter (fun d => !rm d))) (convert m cfg).B1 (convert m cfg).N := rfl
  have hm := convDefs_defs cfg (sortRank ((convert m cfg).defs.filter (fun d => !rm d))) (convert m cfg).B1 (convert m cfg).N
  have hk : ∀ b ∈ (convert m cfg).kept, b.d ∈ (convert m cfg).defs := by
    intro b hb
    have : b.d ∈ (convDefs cfg (sortRank ((convert m cfg).defs.filter (fun d => !rm d))) (convert m cfg).B1 (convert m cfg).N).map (·.d) :=
      List.mem_map.mpr ⟨b, by rw [← hkept]; exact hb, rfl⟩
    rw [hm] at this
    exact (List.mem_filter.mp ((mem_sortRank _ _).mp this)).1
  have hmem : ∀ b ∈ (convert m cfg).blocks, b.d ∈ (convert m cfg).defs := by
    intro b hb
    rw [hblocks, List.mem_append] at hb
    rcases hb with hb | hb
    · obtain ⟨d, hd, rfl⟩ := List.mem_map.mp hb
      exact (List.mem_filter.mp hd).1
    · exact hk b hb
  refine ⟨?_, hmem, hk⟩
  intro d
  constructor
  · intro hd
    by_cases hr : rm d = true
    · refine ⟨(mk d).toStep, List.mem_map.mpr ⟨mk d, ?_, rfl⟩, Block.toStep_def _⟩
      rw [hblocks]; exact List.mem_append_left _ (List.mem_map.mpr ⟨d, List.mem_filter.mpr ⟨hd, hr⟩, rfl⟩)
    · have : d ∈ (convDefs cfg (sortRank ((convert m cfg).defs.filter (fun d => !rm d))) (convert m cfg).B1 (convert m cfg).N).map (·.d) := by
        rw [hm]; exact (mem_sortRank d _).mpr (List.mem_filter.mpr ⟨hd, by simpa using hr⟩)
      obtain ⟨b, hb, hbd⟩ := List.mem_map.mp this
      refine ⟨b.toStep, List.mem_map.mpr ⟨b, ?_, rfl⟩, by rw [Block.toStep_def]; exact hbd⟩
      rw [hblocks]; exact List.mem_append_right _ (by rw [hkept]; exact hb)
  · intro ⟨s, hs, hsd⟩
    obtain ⟨b, hb, rfl⟩ := List.mem_map.mp hs
    rw [Block.toStep_def] at hsd
    rw [← hsd]; exact hmem b hb

/-- blocks of the native acceptance set are valid steps (any domain predicate) -/
theorem kept_native (cfg : Cfg) (hacc : cfg.acc = .native) (N : Nat) (L : List Def) (B1 : Bnds) (Dom : Asg → Prop)
    (hL : ∀ d ∈ L, d.res < N ∧ ∀ v ∈ d.f.vars, v < N) :
    ∀ b ∈ convDefs cfg L B1 N, StepOK N Dom b.toStep := by
  intro b hb
  have hrem := convDefs_removed cfg L B1 N b hb
  obtain ⟨hlo, hvars, hkind⟩ := convDefs_native cfg hacc _ _ _ b hb
  have hbd : b.d ∈ L := by
    have : b.d ∈ (convDefs cfg L B1 N).map (·.d) := List.mem_map.mpr ⟨b, hb, rfl⟩
    rw [convDefs_defs] at this; exact this
  obtain ⟨hres, hvN⟩ := hL b.d hbd
  rcases hkind with hn | hn | ⟨hnn, hnc, body, c, hf, hcons⟩
  · have : b.toStep = Step.native b.d b.lo := by simp [Block.toStep, hn, hrem]
    rw [this, hlo]
    exact stepOK_native' _ _ _ b.d (Nat.le_refl _) hres hvN
  · have : b.toStep = Step.native b.d b.lo := by simp [Block.toStep, hn, hrem]
    rw [this, hlo]
    exact stepOK_native' _ _ _ b.d (Nat.le_refl _) hres hvN
  · have : b.toStep = Step.ofGadget b.d (gLFC b.d.res body c) N := by
      simp only [Block.toStep, hrem, hnn, hnc, Bool.or_self, Bool.false_eq_true, if_false, Step.ofGadget, hlo, hvars, hcons]
      rfl
    rw [this]
    apply C01_compose_step_of_eq_gadget _ _ (fun _ => True) b.d _ _ (Nat.le_refl _) (fun _ _ => trivial)
    · have := C01_gadget_lfc b.d.res body c N
      rw [hf]; exact this
    · intro k hk v hv
      simp only [gLFC, List.mem_singleton] at hk
      subst hk
      simp only [Con.vars, List.map_append, List.mem_append, List.mem_map, List.map_cons, List.map_nil,
        List.mem_singleton] at hv
      have hv' : v ∈ b.d.f.vars ∨ v = b.d.res := by
        rcases hv with ⟨p, hp, rfl⟩ | hv
        · left; rw [hf]; simp only [Fun.vars, List.mem_map]; exact ⟨p, hp, rfl⟩
        · right; exact hv
      have hlt : v < N := by
        rcases hv' with h | h
        · exact hvN v h
        · rw [h]; exact hres
      show v < N + (gLFC b.d.res body c).vars.length
      simp only [gLFC, List.length_nil, Nat.add_zero]; exact hlt

/-- blocks of the linear acceptance set are valid steps w.r.t. the delivered bounds `Bf` (gadget theorems + lowering).  `Bf` may be
narrowed bounds: results of logical types and logical arguments only take 0/1 values under them. -/
theorem kept_linear (cfg : Cfg) (hacc : cfg.acc = .linear) (N : Nat) (L : List Def) (B1 Bf : Bnds)
    (hBf : ∀ v, v < N → Bf v = B1 v) (hM : cfg.opts.bigM ≤ 0)
    (hL : ∀ d ∈ L, d.res < N ∧ (∀ v ∈ d.f.vars, v < N) ∧ d.f.inFrag = true ∧
      (isLogicalFun d.f = true → ∀ y, DomB N Bf y → (y d.res = 0 ∨ y d.res = 1)) ∧
      (∀ a ∈ logicalArgs d.f, ∀ y, DomB N Bf y → (y a = 0 ∨ y a = 1)) ∧
      (∀ a ∈ logicalArgs d.f, (Bf a).isBinary = true) ∧ linDefOK Bf d = true)
    (hbl : ∀ b ∈ convDefs cfg L B1 N, b.refusal.isNone = true ∧ b.localRows N = true) :
    ∀ b ∈ convDefs cfg L B1 N, StepOK N (DomB N Bf) b.toStep := by
  intro b hb
  have hrem := convDefs_removed cfg L B1 N b hb
  have hstruct := convDefs_linear cfg hacc N B1 L B1 N (Nat.le_refl _) (fun _ _ => rfl)
  have hbd : b.d ∈ L := by
    have : b.d ∈ (convDefs cfg L B1 N).map (·.d) := List.mem_map.mpr ⟨b, hb, rfl⟩
    rw [convDefs_defs] at this; exact this
  obtain ⟨hres, hvN, hfr, h01r, h01a, hcnt, hldef⟩ := hL b.d hbd
  obtain ⟨hlo, hkind⟩ := hstruct b hb
  rcases hkind with ⟨hc, hnn⟩ | ⟨hnc, hnn, Br, hBr, hvars, hraw, hcons, href⟩
  · have : b.toStep = Step.native b.d b.lo := by simp [Block.toStep, hc, hrem]
    rw [this]
    exact stepOK_native' _ _ _ b.d hlo (Nat.lt_of_lt_of_le hres hlo) (fun v hv => Nat.lt_of_lt_of_le (hvN v hv) hlo)
  · obtain ⟨hrefn, hlocal⟩ := hbl b hb
    have hrefn' : b.refusal = none := by simpa using hrefn
    simp only [Block.localRows, List.all_eq_true, Bool.or_eq_true, Bool.and_eq_true, decide_eq_true_eq] at hlocal
    have hBr' : ∀ v, v < N → Br v = Bf v := fun v hv => by rw [hBr v hv, hBf v hv]
    have hloc : ∀ c ∈ (gadgetOf b.d Br cfg.opts b.lo).cons, ∀ v ∈ c.vars,
        v < N ∨ (b.lo ≤ v ∧ v < b.lo + (gadgetOf b.d Br cfg.opts b.lo).vars.length) := by
      intro c hc v hv
      rw [← hraw] at hc; rw [← hvars]
      exact hlocal c hc v hv
    have hrawstep := raw_stepOK N b.lo Bf Br cfg.opts b.d hlo hBr' hfr h01r h01a hcnt hldef hres hvN
      (fun c hc v hv => by
        rcases hloc c hc v hv with h | ⟨_, h⟩
        · exact Nat.lt_of_lt_of_le h (Nat.le_trans hlo (Nat.le_add_right _ _))
        · exact h)
    have hstep := stepOK_lowered N b.lo Bf
      (extB Br b.lo (gadgetOf b.d Br cfg.opts b.lo).vars) cfg.opts b.d (gadgetOf b.d Br cfg.opts b.lo)
      (lowerCons (extB Br b.lo (gadgetOf b.d Br cfg.opts b.lo).vars) cfg.opts (gadgetOf b.d Br cfg.opts b.lo).cons)
      hM rfl (by rw [← hvars, ← hraw]; exact href hrefn') hrawstep
      (fun v hv => by rw [extB_below _ _ _ _ (Nat.lt_of_lt_of_le hv hlo)]; exact hBr' v hv)
      (fun y ha v h1 h2 => auxOk_extB Br b.lo _ y ha v h1 h2) hloc
    have : b.toStep = { b.d with
        Deliv := fun y => auxOk b.lo y (gadgetOf b.d Br cfg.opts b.lo).vars ∧
          ∀ c ∈ (lowerCons (extB Br b.lo (gadgetOf b.d Br cfg.opts b.lo).vars) cfg.opts (gadgetOf b.d Br cfg.opts b.lo).cons).cons, c.sat y,
        lo := b.lo, hi := b.lo + (gadgetOf b.d Br cfg.opts b.lo).vars.length } := by
      simp only [Block.toStep, hrem, hnn, hnc, Bool.or_self, Bool.false_eq_true, if_false]
      rw [hcons, hraw, hvars]
    rw [this]; exact hstep

theorem chain_removed (N : Nat) (mk : Def → Block) (hmk : ∀ d, (mk d).toStep.lo = N ∧ (mk d).toStep.hi = N) (rest : List Step)
    (h : Chain N rest) : ∀ l : List Def, Chain N ((l.map mk).map Block.toStep ++ rest) := by
  intro l
  induction l with
  | nil => exact h
  | cons d t ih =>
    simp only [List.map_cons, List.cons_append, Chain]
    obtain ⟨h1, h2⟩ := hmk d
    rw [h1, h2]
    exact ⟨Nat.le_refl _, Nat.le_refl _, ih⟩

/-- the steps of either acceptance set are valid w.r.t. the delivered bounds -/
theorem steps_hyps (m : NLModel) (cfg : Cfg) (hfr : InFragment m cfg) :
    Chain (convert m cfg).N ((convert m cfg).blocks.map Block.toStep) ∧
    (∀ s ∈ (convert m cfg).blocks.map Block.toStep, StepOK (convert m cfg).N (DomB (convert m cfg).N (convert m cfg).B) s) := by
  obtain ⟨hv, hc, hl⟩ := hfr
  have hck := checked_of_vok m cfg hv hc
  let rm := removedDef (convert m cfg).facts (nRefs (convert m cfg).defs (convert m cfg).fixTrue (convert m cfg).rootsD (convert m cfg).obj)
  let mk : Def → Block := fun d => { d := d, vars := [], cons := [], lo := (convert m cfg).N, native := false, removed := true }
  have hblocks : (convert m cfg).blocks = ((convert m cfg).defs.filter rm).map mk ++ (convert m cfg).kept := rfl
  have hkept : (convert m cfg).kept =
      convDefs cfg (sortRank ((convert m cfg).defs.filter (fun d => !rm d))) (convert m cfg).B1 (convert m cfg).N := rfl
  have hB1 : (convert m cfg).B1 = narrowB (convert m cfg).B0 (convert m cfg).facts := rfl
  have hfb := convert_factsBin m cfg hv
  have hvarsN : ∀ d ∈ (convert m cfg).defs, ∀ v ∈ d.f.vars, v < (convert m cfg).N := fun d hd v hv' =>
    Nat.lt_trans (wf_vars_lt _ _ hck.wf d hd v hv') (hck.resN d hd)
  have hLmem : ∀ d ∈ sortRank ((convert m cfg).defs.filter (fun d => !rm d)), d ∈ (convert m cfg).defs :=
    fun d hd => (List.mem_filter.mp ((mem_sortRank _ _).mp hd)).1
  have hmkstep : ∀ d, (mk d).toStep = { d with Deliv := fun _ => True, lo := (convert m cfg).N, hi := (convert m cfg).N } :=
    fun d => by simp [Block.toStep, mk]
  constructor
  · rw [hblocks, List.map_append]
    apply chain_removed _ mk (fun d => by rw [hmkstep d]; exact ⟨rfl, rfl⟩)
    rw [hkept]; exact convDefs_chain cfg _ _ _
  · intro s hs
    rw [hblocks, List.map_append, List.mem_append] at hs
    rcases hs with hs | hs
    · obtain ⟨b, hb, rfl⟩ := List.mem_map.mp hs
      obtain ⟨d, hd, rfl⟩ := List.mem_map.mp hb
      obtain ⟨hd1, hd2⟩ := List.mem_filter.mp hd
      rw [hmkstep d]
      exact removed_stepOK _ _ (convert m cfg).B0 (convert m cfg).facts _ d
        (fun v hv' => by rw [bfin_agree m cfg v hv', hB1]) (hck.resN d hd1) (hvarsN d hd1) hd2
    · obtain ⟨b, hb, rfl⟩ := List.mem_map.mp hs
      rw [hkept] at hb
      cases hacc : cfg.acc with
      | native =>
        exact kept_native cfg hacc _ _ _ _ (fun d hd => ⟨hck.resN d (hLmem d hd), hvarsN d (hLmem d hd)⟩) b hb
      | linear =>
        have hlin := hl hacc
        simp only [ConvOut.checksLin, Bool.and_eq_true, decide_eq_true_eq, List.all_eq_true] at hlin
        obtain ⟨⟨hM, hbl⟩, hdefs⟩ := hlin
        refine kept_linear cfg hacc _ _ _ (convert m cfg).B (bfin_agree m cfg) hM ?_ ?_ b hb
        · intro d hd
          have hdd := hLmem d hd
          have ht := hck.typed d hdd
          have ht' := ht
          simp only [typedDef, Bool.and_eq_true, decide_eq_true_eq] at ht'
          obtain ⟨⟨hb0, hfrag⟩, _⟩ := ht'
          have h01 : ∀ a, a < (convert m cfg).N → isBin01 ((convert m cfg).B0 a) = true →
              ∀ y, DomB (convert m cfg).N (convert m cfg).B y → (y a = 0 ∨ y a = 1) := by
            intro a haN hbin y hy
            have := hy a haN
            unfold inDom at this
            rw [bfin_agree m cfg a haN, hB1] at this
            exact narrowB_01 _ _ hfb a hbin _ this
          refine ⟨hck.resN d hdd, hvarsN d hdd, hfrag, ?_, ?_, ?_, hdefs d hdd⟩
          · intro hlog
            apply h01 d.res (hck.resN d hdd)
            rw [hb0, resBnd_logical _ _ hlog]; decide
          · intro a ha
            exact h01 a (hvarsN d hdd a (logicalArgs_vars d.f a ha)) (typed_logicalArgs _ d ht a ha)
          · intro a ha
            rw [bfin_agree m cfg a (hvarsN d hdd a (logicalArgs_vars d.f a ha)), hB1]
            exact narrowB_isBinary _ _ hfb a (typed_logicalArgs _ d ht a ha)
        · intro b' hb'
          exact hbl b' (by rw [hblocks]; exact List.mem_append_right _ (by rw [hkept]; exact hb'))

/-- the logical rows follow from the delivered bounds (no contradicting fixings) -/
theorem lroots_of_dom (m : NLModel) (cfg : Cfg) (hv : m.vok = true) (hnc : (convert m cfg).infeasible = false) (y : Asg)
    (hy : DomB (convert m cfg).N (convert m cfg).B y) (hr : ∀ r ∈ (convert m cfg).rootsD, r.sat y) :
    ∀ r ∈ (convert m cfg).roots, r.sat y := by
  intro r hrr
  rcases root_fixTrue m cfg hv r hrr with h | ⟨v, rfl, hvf⟩
  · exact hr r h
  · obtain ⟨k, hk⟩ := rootFacts_has _ 0 v hvf
    have hmem : (v, (1 : Rat), k) ∈ (convert m cfg).facts := narrowFacts_sub _ _ _ hk
    have hfo := factOf_noconflict (F := (convert m cfg).facts) hnc hmem
    have hN : v < (convert m cfg).N := (structural_of_vok m cfg hv).rootsN _ hrr (1, v) (by simp)
    have := hy v hN
    unfold inDom at this
    rw [bfin_agree m cfg v hN] at this
    have hB1 : (convert m cfg).B1 = narrowB (convert m cfg).B0 (convert m cfg).facts := rfl
    rw [hB1, narrowB_some hfo] at this
    have hy1 := fixed_admits this
    simp only [Root.sat, inRange, evalLin_cons, evalLin_nil, hy1]
    refine ⟨fun l hl => ?_, fun u hu => by simp at hu⟩
    simp at hl; subst hl; decide +kernel

/-- **C01_convert_equiv** — for every NL model of the fragment, both acceptance sets (`native`: linear rows + the fragment's
functional types, linear functional constraints converted; `linear`: only linear rows — every functional constraint reformulated by its
gadget, indicator rows lowered to big-M rows) and default options: a point satisfies the NL model (variable bounds/types,
algebraic rows, logical rows — expression trees evaluated directly) **iff** values of the result and auxiliary variables exist
that satisfy the model `convert` delivers — with the bounds narrowed by the downward propagation from the logical rows
(`FixAsTrue`, `PropagateResult` through not/and/or), the gadgets computed on the narrowed bounds, and nothing delivered for a
definition the propagation made unused.  No hypothesis about a conversion run; `InFragment` is decidable on the input. -/
theorem C01_convert_equiv (m : NLModel) (cfg : Cfg) (x : Asg) (hfr : InFragment m cfg) :
    m.sat x ↔ ∃ y, DeliveredC (convert m cfg) x y := by
  obtain ⟨hchain, hok⟩ := steps_hyps m cfg hfr
  obtain ⟨hv, hc, _⟩ := hfr
  have hck := checked_of_vok m cfg ‹m.vok = true› hc
  have hnc : (convert m cfg).infeasible = false := by
    simp only [ConvOut.checksSem, Bool.and_eq_true, Bool.not_eq_true'] at hc; exact hc.2
  have hperm := (blocks_perm m cfg).1
  have hwf : WF m.n0 (convert m cfg).defs := hck.wf
  have hvarsN : ∀ d ∈ (convert m cfg).defs, ∀ v ∈ d.f.vars, v < (convert m cfg).N := fun d hd v hv' =>
    Nat.lt_trans (wf_vars_lt _ _ hck.wf d hd v hv') (hck.resN d hd)
  have hDom : ∀ z z' : Asg, (∀ v, v < (convert m cfg).N → z' v = z v) →
      DomB (convert m cfg).N (convert m cfg).B z → DomB (convert m cfg).N (convert m cfg).B z' :=
    fun z z' hag hz v hv' => by unfold inDom; rw [hag v hv']; exact hz v hv'
  constructor
  · intro ⟨hx, hcons, hl⟩
    have hnl := (convert_roots_val m cfg x hv hwf).mpr ⟨hcons, hl⟩
    have hd0 := exact_dom m.n0 _ _ m.B0 _ x hwf hck.defd hck.b0 hck.typed hx
    have hd1 := dom1_of_facts m cfg _ hd0 (convert_factsSound m cfg hv x hd0 hnl)
    obtain ⟨y, hdel, _⟩ := delivered_of_exact m.n0 _ _ _ (convert m cfg).roots _ hDom hperm hwf hck.resN hck.rootsN hchain hok x hd1 hnl
    exact ⟨y, hdel.1, hdel.2.1, hdel.2.2.1, fun r hr => hdel.2.2.2 r (List.mem_append_left _ hr)⟩
  · intro ⟨y, hdel⟩
    have hd0y := dom1_sub m cfg hv y hdel.2.1
    have hx : ∀ v, v < m.n0 → inDom m.B0 x v := by
      intro v hv'
      have hund : ∀ d ∈ (convert m cfg).defs, d.res ≠ v := fun d hd he => by
        have := wf_res_ge hwf d hd; rw [he] at this; omega
      have hyx := hdel.1 v (Nat.lt_of_lt_of_le hv' hck.n0N) hund
      have := hd0y v (Nat.lt_of_lt_of_le hv' hck.n0N)
      unfold inDom at this ⊢
      rw [hyx, hck.b0 v hv'] at this; exact this
    have hdel' : Delivered (convert m cfg).N (convert m cfg).defs ((convert m cfg).blocks.map Block.toStep) (convert m cfg).roots
        (DomB (convert m cfg).N (convert m cfg).B) x y :=
      ⟨hdel.1, hdel.2.1, hdel.2.2.1, lroots_of_dom m cfg hv hnc y hdel.2.1 hdel.2.2.2⟩
    have hrel := relaxed_of_delivered _ _ _ _ _ hperm hok x y hdel'
    have hd0 := exact_dom m.n0 _ _ m.B0 _ x hwf hck.defd hck.b0 hck.typed hx
    have hnl := (compose_relaxed (convert m cfg).B0 m.n0 (convert m cfg).N (convert m cfg).defs (convert m cfg).roots x
      hwf hck.resN hck.rootsN hck.rootsFin hck.cov
      (fun d hd => funOK_of_typed _ _ d _ (hck.typed d hd) (hvarsN d hd) hd0)).mpr
      ⟨y, fun d hd => funOK_of_typed _ _ d y (hck.typed d hd) (hvarsN d hd) hd0y, hrel⟩
    have := (convert_roots_val m cfg x hv hwf).mp hnl
    exact ⟨hx, this.1, this.2⟩

/-- **C01_convert_objective** — the objective clause for the reference converter, both acceptance sets: at every point satisfying
the NL model the NL objective value (expression tree evaluated directly) is attained by a delivered solution over that point and
no delivered solution over that point is better: the best delivered objective over the result/auxiliary variables equals the
original objective value. -/
theorem C01_convert_objective (m : NLModel) (cfg : Cfg) (x : Asg) (hfr : InFragment m cfg)
    (s : Sense) (e : NE) (hobj : m.obj = some (s, e)) (hsat : m.sat x) :
    ∃ o, (convert m cfg).obj = some o ∧ o.sense = s ∧
      (∃ y, DeliveredC (convert m cfg) x y ∧ o.val y = e.eval x) ∧
      (∀ y, DeliveredC (convert m cfg) x y → noWorse s (e.eval x) (o.val y)) := by
  obtain ⟨hchain, hok⟩ := steps_hyps m cfg hfr
  obtain ⟨hv, hc, _⟩ := hfr
  have hck := checked_of_vok m cfg ‹m.vok = true› hc
  have hnc : (convert m cfg).infeasible = false := by
    simp only [ConvOut.checksSem, Bool.and_eq_true, Bool.not_eq_true'] at hc; exact hc.2
  have hperm := (blocks_perm m cfg).1
  have hwf : WF m.n0 (convert m cfg).defs := hck.wf
  have hvarsN : ∀ d ∈ (convert m cfg).defs, ∀ v ∈ d.f.vars, v < (convert m cfg).N := fun d hd v hv' =>
    Nat.lt_trans (wf_vars_lt _ _ hck.wf d hd v hv') (hck.resN d hd)
  have hDom : ∀ z z' : Asg, (∀ v, v < (convert m cfg).N → z' v = z v) →
      DomB (convert m cfg).N (convert m cfg).B z → DomB (convert m cfg).N (convert m cfg).B z' :=
    fun z z' hag hz v hv' => by unfold inDom; rw [hag v hv']; exact hz v hv'
  obtain ⟨hx, hcons, hl⟩ := hsat
  obtain ⟨o, ho, hs, hq, hval⟩ := convert_obj_val m cfg x s e hobj hv hwf
  obtain ⟨hoN, _, hocov⟩ := hck.objOK o ho
  have hnl := (convert_roots_val m cfg x hv hwf).mpr ⟨hcons, hl⟩
  have hd0 := exact_dom m.n0 _ _ m.B0 _ x hwf hck.defd hck.b0 hck.typed hx
  have hd1 := dom1_of_facts m cfg _ hd0 (convert_factsSound m cfg hv x hd0 hnl)
  refine ⟨o, ho, hs, ?_, ?_⟩
  · obtain ⟨y, hdel, hag⟩ := delivered_of_exact m.n0 _ _ _ (convert m cfg).roots _ hDom hperm hwf hck.resN hck.rootsN hchain hok x hd1 hnl
    refine ⟨y, ⟨hdel.1, hdel.2.1, hdel.2.2.1, fun r hr => hdel.2.2.2 r (List.mem_append_left _ hr)⟩, ?_⟩
    rw [obj_val_agree _ o _ y hag hoN, hval]
  · intro y hdel
    have hd0y := dom1_sub m cfg hv y hdel.2.1
    have hdel' : Delivered (convert m cfg).N (convert m cfg).defs ((convert m cfg).blocks.map Block.toStep) (convert m cfg).roots
        (DomB (convert m cfg).N (convert m cfg).B) x y :=
      ⟨hdel.1, hdel.2.1, hdel.2.2.1, lroots_of_dom m cfg hv hnc y hdel.2.1 hdel.2.2.2⟩
    have hrel := relaxed_of_delivered _ _ _ _ _ hperm hok x y hdel'
    have inv := relaxed_invariant (convert m cfg).B0 m.n0 (convert m cfg).N (convert m cfg).defs (convert m cfg).roots x y
      hwf hck.resN hck.cov
      (fun d hd => funOK_of_typed _ _ d y (hck.typed d hd) (hvarsN d hd) hd0y)
      (fun d hd => funOK_of_typed _ _ d _ (hck.typed d hd) (hvarsN d hd) hd0) hrel
    have hreq := obj_req (convert m cfg).B0 _ _ o y _ hoN hocov
      (fun t ht => by rw [hq] at ht; simp at ht) (fun t ht => by rw [hq] at ht; simp at ht) inv
    have := noWorse_of_req _ _ _ hreq
    rw [hval, hs] at this; exact this

/-! ## non-vacuity: a concrete model of the fragment (nesting, a shared subexpression, a logical row, an objective)

`minimize x0 + |x2|  s.t.  x0 + |x2| + max(|x2|, x1) ≤ 4,  (x1 ≤ 2) ∨ ¬(x1 ≥ 0)`,
`x0 ∈ [0,5]`, `x1 ∈ {-2,…,3}`, `x2 ∈ [-3,3]`.  Membership in the fragment is decided by kernel evaluation of the decidable predicate
(`decide +kernel`: no axiom beyond the three standard ones). -/

def exVI (l u : Rat) (i : Bool) : VarInfo := ⟨some l, some u, i⟩
def exB0 : Bnds := fun v => if v = 0 then exVI 0 5 false else if v = 1 then exVI (-2) 3 true else exVI (-3) 3 false
def exNL : NLModel :=
  ⟨3, exB0, some (.min, .add (.v 0) (.abs (.v 2))),
   [(.add (.v 0) (.add (.abs (.v 2)) (.max (.cons (.abs (.v 2)) (.cons (.v 1) .nil)))), none, some 4)],
   [.or (.cons (.cmp .le (.v 1) (.c 2)) (.cons (.not (.cmp .ge (.v 1) (.c 0))) .nil))]⟩

theorem exVI_admits (l u q : Rat) (i : Bool) (h1 : l ≤ q) (h2 : q ≤ u) (hi : i = true → isIntVal q) : (exVI l u i).admits q :=
  ⟨fun l' h => by simp [exVI] at h; subst h; exact h1, fun u' h => by simp [exVI] at h; subst h; exact h2,
   fun h => hi (by simpa [exVI] using h)⟩

theorem C01_convert_example_infragment_linear : InFragment exNL { acc := .linear } := by decide +kernel
theorem C01_convert_example_infragment_native : InFragment exNL { acc := .native } := by decide +kernel

/-- the theorems applied to the concrete model: NL semantics ⇔ the 12-variable all-linear delivered model -/
theorem C01_convert_example_equiv (x : Asg) :
    exNL.sat x ↔ ∃ y, DeliveredC (convert exNL { acc := .linear }) x y :=
  C01_convert_equiv exNL _ x C01_convert_example_infragment_linear

/-- the instance is not degenerate: the point (1, 1, -1) satisfies the NL model, (1, 1, -3) does not -/
example : exNL.sat (fun v => if v = 0 then 1 else if v = 1 then 1 else -1) := by
  refine ⟨?_, ?_, ?_⟩
  · intro v hv
    have : v = 0 ∨ v = 1 ∨ v = 2 := by simp only [exNL] at hv; omega
    rcases this with h | h | h <;> subst h
    · exact exVI_admits 0 5 1 false (by grind) (by grind) (by simp)
    · exact exVI_admits (-2) 3 1 true (by grind) (by grind) (fun _ => ⟨1, by simp⟩)
    · exact exVI_admits (-3) 3 (-1) false (by grind) (by grind) (by simp)
  · intro c hc
    simp [exNL] at hc; subst hc
    simp [inRange, NE.eval, NEs.evals, maxQ]; grind
  · intro l hl
    simp [exNL] at hl; subst hl
    simp [LE.eval, LEs.evals, NE.eval, b2r, Cmp5.holds]; grind

example : ¬ exNL.sat (fun v => if v = 0 then 1 else if v = 1 then 1 else -3) := by
  intro ⟨_, h, _⟩
  have := h _ (List.mem_singleton.mpr rfl)
  simp [inRange, NE.eval, NEs.evals, maxQ] at this; grind

/-! ## non-vacuity of the propagation: `(0 ≤ x1 ∧ x1 ≤ 2)` and `¬(x1 ≤ -1)` as logical rows, linear acceptance set.
The conjunction is fixed true, its comparisons are fixed true (static rows), the conjunction itself is removed; the negation is
fixed true, its comparison fixed false. -/

def exNL2 : NLModel :=
  ⟨3, exB0, none, [],
   [.and (.cons (.cmp .ge (.v 1) (.c 0)) (.cons (.cmp .le (.v 1) (.c 2)) .nil)), .not (.cmp .le (.v 1) (.c (-1)))]⟩

theorem C01_convert_example_narrowing_infragment :
    InFragment exNL2 { acc := .linear } ∧
    ((convert exNL2 { acc := .linear }).blocks.filter (·.removed)).length = 1 ∧
    (convert exNL2 { acc := .linear }).facts.length = 5 ∧
    (convert exNL2 { acc := .linear }).shortcut true = false := by decide +kernel

theorem C01_convert_example_narrowing_equiv (x : Asg) :
    exNL2.sat x ↔ ∃ y, DeliveredC (convert exNL2 { acc := .linear }) x y :=
  C01_convert_equiv exNL2 _ x C01_convert_example_narrowing_infragment.1

/-! ## non-vacuity with an equivalence: `(x1 ≤ 2) ⟺ (x1 ≥ 0 ∨ x0 ≥ 1)` as a logical row and `¬((x1 ≥ 1) ⟺ (x1 ≤ -1))` as another,
linear acceptance set (`<==>` is flattened as the comparison `a - b == 0` of the two result variables, reformulated by the
conditional-equality gadget on the integer-typed body) -/

def exNL3 : NLModel :=
  ⟨3, exB0, some (.min, .v 1), [],
   [.iff (.cmp .le (.v 1) (.c 2)) (.or (.cons (.cmp .ge (.v 1) (.c 0)) (.cons (.cmp .ge (.v 1) (.c 3)) .nil))),
    .not (.iff (.cmp .ge (.v 1) (.c 1)) (.cmp .le (.v 1) (.c (-1))))]⟩

theorem C01_convert_example_iff_infragment :
    InFragment exNL3 { acc := .linear } ∧ InFragment exNL3 { acc := .native } ∧
    (convert exNL3 { acc := .linear }).shortcut true = false := by decide +kernel

theorem C01_convert_example_iff_equiv (x : Asg) :
    exNL3.sat x ↔ ∃ y, DeliveredC (convert exNL3 { acc := .linear }) x y :=
  C01_convert_equiv exNL3 _ x C01_convert_example_iff_infragment.1

end MpVerif.C01

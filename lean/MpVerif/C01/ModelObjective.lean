import MpVerif.C01.ModelCompose
/-!
# C01 — objectives in the abstract flat model (for the objective clause of the composition theorem)

`ProblemFlattener::ConvertObjective` (include/mp/flat/problem_flattener.h): the flattened objective is a linear +
quadratic expression over original and result variables; contexts are propagated from it with
`ctx = (obj::MAX == sense) ? CTX_POS : CTX_NEG` through `PropagateResult2LinTerms` / `PropagateResult2QuadTerms`.
-/
namespace MpVerif.C01

inductive Sense where
  | min | max
deriving DecidableEq, Repr, Inhabited

/-- a flat objective: sense, linear terms, quadratic terms (a constant term is a fixed variable in the C++) -/
structure Obj where
  sense : Sense
  lin : Lin
  quad : Quad := []

def Obj.val (y : Asg) (o : Obj) : Rat := evalLin y o.lin + evalQuad y o.quad

/-- `auto ctx = obj::MAX==obj.type() ? Context::CTX_POS : Context::CTX_NEG;` -/
def objCtx : Sense → Ctx
  | .max => .pos
  | .min => .neg

/-- the contexts the objective hands to its variables -/
def propObj (B : Bnds) (o : Obj) : List (Var × Ctx) :=
  propLin (objCtx o.sense) o.lin ++ propQuad B (objCtx o.sense) o.quad

/-- the objective's uses of variables are covered by the contexts stored on their definitions (decidable) -/
def ObjCovers (B : Bnds) (defs : List Def) (o : Obj) : Prop :=
  ∀ p ∈ propObj B o, p.2 ≤ (ctxOf defs p.1).eff

/-- `noWorse s a b`: objective value `a` is at least as good as `b` for sense `s` -/
def noWorse : Sense → Rat → Rat → Prop
  | .min, a, b => a ≤ b
  | .max, a, b => b ≤ a

/-- the variables the objective reads -/
def Obj.vars (o : Obj) : List Var := o.lin.map (·.2) ++ (o.quad.map (·.2.1) ++ o.quad.map (·.2.2))

/-- executable validator: the objective's uses that the stored contexts do not cover `(variable, required, stored)` -/
def objGaps (B : Bnds) (defs : List Def) (o : Obj) : List (Var × Ctx × Ctx) :=
  ((propObj B o).filter (fun p => !decide (p.2 ≤ (ctxOf defs p.1).eff))).map (fun p => (p.1, p.2, ctxOf defs p.1))


/-! ## quadratic root constraints `lb ≤ lin + quad ≤ ub` (`QuadConRange`; `PropagateResult(AlgebraicConstraint<Body, AlgConRange>&)`
chooses the context by the finiteness of the bounds and hands it to the linear *and* the quadratic terms) -/

structure QRoot where
  lin : Lin
  quad : Quad
  lb : Option Rat
  ub : Option Rat

def QRoot.sat (y : Asg) (r : QRoot) : Prop := inRange r.lb r.ub (evalLin y r.lin + evalQuad y r.quad)

def QRoot.vars (r : QRoot) : List Var := r.lin.map (·.2) ++ (r.quad.map (·.2.1) ++ r.quad.map (·.2.2))

def propQRoot (B : Bnds) (r : QRoot) : List (Var × Ctx) :=
  propLin (rangeCtx r.lb r.ub) r.lin ++ propQuad B (rangeCtx r.lb r.ub) r.quad

/-- the quadratic roots' uses of variables are covered by the stored contexts (decidable) -/
def QRootsCover (B : Bnds) (defs : List Def) (qroots : List QRoot) : Prop :=
  ∀ r ∈ qroots, ∀ p ∈ propQRoot B r, p.2 ≤ (ctxOf defs p.1).eff

def qrootGaps (B : Bnds) (defs : List Def) (qroots : List QRoot) : List (Var × Ctx × Ctx) :=
  ((qroots.flatMap (propQRoot B)).filter (fun p => !decide (p.2 ≤ (ctxOf defs p.1).eff))).map
    (fun p => (p.1, p.2, ctxOf defs p.1))

end MpVerif.C01

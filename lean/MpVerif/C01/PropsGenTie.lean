import MpVerif.C01.ModelProp
import MpVerif.C01.ModelGadgets
import MpVerif.C01.ModelGadgets2
import MpVerif.C01.Lemmas
import MpVerif.Gen.C01Decisions
import MpVerif.Gen.C01Context
import MpVerif.Gen.C01PropDown
import MpVerif.Gen.C01Bodies
/-!
# C01 — ties between the hand model and definitions GENERATED from the source on every run (round 4)

* `Gen/C01Context.lean` — clang-14 typed-AST translation of every member function of `mp::Context`
  (translators/gen_context_ast.py).  `C01_gen_ctx_*`: the hand model's `Ctx` operations ARE these functions, for all values.
* `Gen/C01PropDown.lean` — every `PropagateResult` overload of `constr_prop_down.h` with the context expression it hands to
  each argument group (translators/gen_propdown.py).  `C01_gen_propdown_*`: the set of overloads and their rules are the ones the
  model's `prop*` functions were written against (`expectedOverloads`, which names the Lean rule per overload), and for the rules
  that are a fixed context expression the Lean rule is proved equal to the *interpretation* of the generated entry.
* `Gen/C01Decisions.lean` — source-text translation of two decision functions: which constraint `RangeConstraintConverter::Convert`
  emits (`Relate`, `Convert`, `ConvertWithRhs`) and which directions `BasicFuncConstrCvt::Convert` converts, in which order
  (translators/gen_rangedec.py).  `C01_gen_range_decision`, `C01_gen_dispatch_*`: the Lean `gRangeLin` / `needNeg` / `needPos` agree.
* `Gen/C01Bodies.lean` — digests of the converter function bodies the Lean gadgets mirror.  `C01_gen_bodies`: unchanged since the
  gadgets were written/validated against them; any edit of such a body breaks this obligation (re-read, update model + table).
-/
namespace MpVerif.C01
open MpVerif.Gen

def Ctx.code' : Ctx → Nat
  | .none => 0 | .pos => 1 | .neg => 2 | .mix => 3

/-! ## (i) Context member functions: AST translation = hand model -/

theorem C01_gen_ctx_enum : C01Context.enumCodes = [("CTX_NONE", 0), ("CTX_POS", 1), ("CTX_NEG", 2), ("CTX_MIX", 3)] := by rfl
theorem C01_gen_ctx_Add (a b : Ctx) : C01Context.Add a.code' b.code' = (a.add b).code' := by cases a <;> cases b <;> rfl
theorem C01_gen_ctx_opPlus (a : Ctx) : C01Context.opPlus a.code' = a.plus.code' := by cases a <;> rfl
theorem C01_gen_ctx_opMinus (a : Ctx) : C01Context.opMinus a.code' = a.flip.code' := by cases a <;> rfl
theorem C01_gen_ctx_HasPositive (a : Ctx) : C01Context.HasPositive a.code' = a.hasPos := by cases a <;> rfl
theorem C01_gen_ctx_HasNegative (a : Ctx) : C01Context.HasNegative a.code' = a.hasNeg := by cases a <;> rfl
theorem C01_gen_ctx_IsNone (a : Ctx) : C01Context.IsNone a.code' = decide (a = .none) := by cases a <;> rfl
theorem C01_gen_ctx_IsPositive (a : Ctx) : C01Context.IsPositive a.code' = decide (a = .pos) := by cases a <;> rfl
theorem C01_gen_ctx_IsNegative (a : Ctx) : C01Context.IsNegative a.code' = decide (a = .neg) := by cases a <;> rfl
theorem C01_gen_ctx_IsMixed (a : Ctx) : C01Context.IsMixed a.code' = decide (a = .mix) := by cases a <;> rfl

/-! ## (ii) `PropagateResult` overloads: structure and rules

Lean rule per overload (the model's table):
`Constraint` (default: abs, min, max, count, div, …) → `propDefault`; `LinearFunctionalConstraint` → `propLFC`;
`QuadraticFunctionalConstraint` → `propQFC`; root `AlgebraicConstraint<Body,AlgConRange>` → `rangeCtx`/`propRangeLin`;
`IndicatorConstraint<…>` → `propIndicator`; `NotConstraint` → `propNot`; `AndConstraint` → `propAnd`; `OrConstraint` → `propOr`;
`IfThenConstraint` → `propIfThen`; `ImplicationConstraint` → `propImpl`; `AllDiff/NumberofConst/NumberofVar` → `propDefault` (mixed);
`CondLinConEQ` → `propCondLin .eq`; `ConditionalConstraint<…AlgConRhs<kind>>` → `propCondLin k`; helpers `PropagateResult2LinTerms`
→ `propLin`, `PropagateResult2QuadTerms` → `propQuad`, `PropagateIfThenResultIntoCondition` → condition part of `propIfThen`.
Not modelled (outside the exact fragment or not reachable from NL): SOS, Complementarity (mixed everywhere), Pow, Log, LogA, Exp, ExpA,
CondQuadConEQ. -/

def expectedOverloads : List (String × String × List String × List (String × String × String)) := [
  ("Constraint", "ctx", [], [("PropagateResult2Args", "con.GetArguments()", "Context::CTX_MIX")]),
  ("LinearFunctionalConstraint", "ctx", [], [("PropagateResult2LinTerms", "con.GetAffineExpr()", "+ctx")]),
  ("QuadraticFunctionalConstraint", "ctx", [], [("PropagateResult2LinTerms", "args.GetLinTerms()", "+ctx"), ("PropagateResult2QuadTerms", "args.GetQPTerms()", "+ctx")]),
  ("AlgebraicConstraint<Body,AlgConRange>", "root", ["auto ctx=con.lb()<=MPD(PracticallyMinusInf())?Context::CTX_NEG:con.ub()>=MPD(PracticallyInf())?Context::CTX_POS:Context::CTX_MIX;"], [("PropagateResult2Args", "con.GetBody()", "ctx")]),
  ("IndicatorConstraint<AlgebraicConstraint<Body,AlgConRhs<sens>>>", "ctx", [], [("PropagateResultOfInitExpr", "con.get_binary_var()", "1==con.get_binary_value()?Context::CTX_NEG:Context::CTX_POS"), ("PropagateResult2Args", "con.get_constraint().GetBody()", "0==sens?Context::CTX_MIX:0<sens?+ctx:-ctx")]),
  ("SOS_1or2_Constraint<type>", "ctx", [], [("PropagateResult2Vars", "con.get_vars()", "Context::CTX_MIX")]),
  ("ComplementarityConstraint<ExprBody>", "root", [], [("PropagateResult", "con", "Context::CTX_MIX")]),
  ("ComplementarityConstraint<ExprBody>", "ctx", [], [("PropagateResult2Args", "con.GetExpression().GetBody()", "Context::CTX_MIX"), ("PropagateResultOfInitExpr", "con.GetVariable()", "Context::CTX_MIX")]),
  ("NotConstraint", "ctx", [], [("PropagateResultOfInitExpr", "con.GetArguments()[0]", "-ctx")]),
  ("AndConstraint", "ctx", [], [("PropagateResult2Vars", "con.GetArguments()", "+ctx")]),
  ("OrConstraint", "ctx", [], [("PropagateResult2Vars", "con.GetArguments()", "+ctx")]),
  ("IfThenConstraint", "ctx", [], [("PropagateIfThenResultIntoCondition", "args", "ctx"), ("PropagateResultOfInitExpr", "args[1]", "+ctx"), ("PropagateResultOfInitExpr", "args[2]", "+ctx")]),
  ("ImplicationConstraint", "ctx", [], [("PropagateResultOfInitExpr", "args[0]", "Context::CTX_MIX"), ("PropagateResultOfInitExpr", "args[1]", "+ctx"), ("PropagateResultOfInitExpr", "args[2]", "+ctx")]),
  ("AllDiffConstraint", "ctx", [], [("PropagateResult2Vars", "con.GetArguments()", "Context::CTX_MIX")]),
  ("NumberofConstConstraint", "ctx", [], [("PropagateResult2Vars", "con.GetArguments()", "Context::CTX_MIX")]),
  ("NumberofVarConstraint", "ctx", [], [("PropagateResult2Vars", "con.GetArguments()", "Context::CTX_MIX")]),
  ("PowConstraint", "ctx", ["auto pwr=con.GetParameters()[0];", "auto arg=con.GetArguments()[0];", "bool is_pow_int=(MPD(is_integer_value(pwr)));", "bool is_pow_odd=is_pow_int&&!MPD(is_integer_value(pwr/2.0));", "bool is_pow_odd_pos=(pwr>=0.0&&is_pow_odd);", "ctx_new=+ctx;", "ctx_new=(pwr>=0.0)?+ctx:-ctx;", "ctx_new=-ctx;", "ctx_new=is_pow_odd?-ctx:+ctx;", "ctx_new.Add(Context::CTX_MIX);"], [("PropagateResult2Args", "con.GetArguments()", "ctx_new")]),
  ("LogConstraint", "ctx", [], [("PropagateResult2Args", "con.GetArguments()", "ctx")]),
  ("LogAConstraint", "ctx", ["auto ctx_new=(con.GetParameters()[0]>=0.0)?ctx:-ctx;"], [("PropagateResult2Args", "con.GetArguments()", "ctx_new")]),
  ("ExpConstraint", "ctx", [], [("PropagateResult2Args", "con.GetArguments()", "ctx")]),
  ("ExpAConstraint", "ctx", [], [("PropagateResult2Args", "con.GetArguments()", "ctx")]),
  ("CondLinConEQ", "ctx", [], [("PropagateResult2LinTerms", "con.GetConstraint().GetBody()", "Context::CTX_MIX")]),
  ("CondQuadConEQ", "ctx", [], [("PropagateResult2QuadAndLinTerms", "con.GetConstraint().GetBody()", "Context::CTX_MIX")]),
  ("ConditionalConstraint<AlgebraicConstraint<Body,AlgConRhs<kind>>>", "ctx", ["auto ctx_new=kind>0?ctx:kind<0?-ctx:Context::CTX_MIX;"], [("PropagateResult2Args", "con.GetConstraint().GetBody()", "ctx_new")])
]


def expectedHelpers : List (String × String) := [
  ("PropagateIfThenResultIntoCondition", "Context ctx_cond=Context::CTX_MIX;if(ctx.IsPositive()||ctx.IsNegative()){if(MPCD(lb(args[1]))>=MPCD(ub(args[2])))ctx_cond=+ctx;else if(MPCD(lb(args[2]))>=MPCD(ub(args[1])))ctx_cond=-ctx;}MPD(PropagateResultOfInitExpr(args[0],0.0,1.0,ctx_cond));"),
  ("PropagateResult2LinTerms", "for(auto i=lint.size();i--;){if(0.0!=std::fabs(lint.coef(i))){MPD(PropagateResultOfInitExpr(lint.var(i),MPD(MinusInfty()),MPD(Infty()),(lint.coef(i)>=0.0)?+ctx:-ctx));}}"),
  ("PropagateResult2QuadTerms", "for(auto i=quadt.size();i--;){if(0.0!=std::fabs(quadt.coef(i))){auto var1=quadt.var1(i),var2=quadt.var2(i);auto ctx12=(quadt.coef(i)>=0.0)?ctx:-ctx;if(MPD(lb(var1))>=0.0&&MPD(lb(var2))>=0.0){}else if(MPD(ub(var1))<=0.0&&MPD(ub(var2))<=0.0){ctx12=-ctx12;}else ctx12=Context::CTX_MIX;MPD(PropagateResultOfInitExpr(var1,ctx12));if(var1!=var2)MPD(PropagateResultOfInitExpr(var2,ctx12));}}")
]


theorem C01_gen_propdown_overloads : C01PropDown.overloads = expectedOverloads := by rfl
theorem C01_gen_propdown_helpers : C01PropDown.helpers = expectedHelpers := by rfl

/-- interpretation of a context expression of the C++ source -/
def ctxExpr (e : String) (c : Ctx) : Option Ctx :=
  if e = "ctx" then some c else if e = "+ctx" then some c.plus else if e = "-ctx" then some c.flip
  else if e = "Context::CTX_MIX" then some .mix else none

/-- the context expressions an overload hands down, in call order -/
def ruleOf (ty : String) : List (String × String × String) :=
  match C01PropDown.overloads.find? (fun o => o.1 == ty && o.2.1 == "ctx") with
  | some o => o.2.2.2
  | none => []

def ruleCtxs (ty : String) (c : Ctx) : List (Option Ctx) := (ruleOf ty).map fun t => ctxExpr t.2.2 c

theorem C01_gen_rule_not (c : Ctx) (a : Var) : ruleCtxs "NotConstraint" c = (propNot c a).map (fun p => some p.2) := by
  have h : ruleCtxs "NotConstraint" c = [some c.flip] := by cases c <;> decide
  rw [h]; rfl
theorem C01_gen_rule_and (c : Ctx) (a : Var) : ruleCtxs "AndConstraint" c = (propAnd c [a]).map (fun p => some p.2) := by
  have h : ruleCtxs "AndConstraint" c = [some c.plus] := by cases c <;> decide
  rw [h]; rfl
theorem C01_gen_rule_or (c : Ctx) (a : Var) : ruleCtxs "OrConstraint" c = (propOr c [a]).map (fun p => some p.2) := by
  have h : ruleCtxs "OrConstraint" c = [some c.plus] := by cases c <;> decide
  rw [h]; rfl
theorem C01_gen_rule_impl (c : Ctx) (x t e : Var) :
    ruleCtxs "ImplicationConstraint" c = (propImpl c x t e).map (fun p => some p.2) := by
  have h : ruleCtxs "ImplicationConstraint" c = [some .mix, some c.plus, some c.plus] := by cases c <;> decide
  rw [h]; rfl
theorem C01_gen_rule_default (c : Ctx) (a : Var) : ruleCtxs "Constraint" c = (propDefault [a]).map (fun p => some p.2) := by
  have h : ruleCtxs "Constraint" c = [some .mix] := by cases c <;> decide
  rw [h]; rfl
theorem C01_gen_rule_lfc (c : Ctx) : ruleCtxs "LinearFunctionalConstraint" c = [some c.plus] := by cases c <;> decide
theorem C01_gen_rule_qfc (c : Ctx) : ruleCtxs "QuadraticFunctionalConstraint" c = [some c.plus, some c.plus] := by
  cases c <;> decide
theorem C01_gen_rule_ifthen_branches (c : Ctx) :
    (ruleCtxs "IfThenConstraint" c).drop 1 = [some c.plus, some c.plus] := by cases c <;> decide
theorem C01_gen_rule_counting (c : Ctx) :
    ruleCtxs "AllDiffConstraint" c = [some .mix] ∧ ruleCtxs "NumberofConstConstraint" c = [some .mix] ∧
    ruleCtxs "NumberofVarConstraint" c = [some .mix] ∧ ruleCtxs "CondLinConEQ" c = [some .mix] := by cases c <;> decide

/-! ## (iii) converter bodies mirrored by the Lean gadgets -/

def expectedDigests : List (String × String) := [
  ("redef/redef_base.h:Convert#0", "8ea71ad1d5ca2c16c9bb6622"),
  ("redef/redef_base.h:ConvertCtxNeg#0", "19d7fcbd8683eab1721d9d47"),
  ("redef/redef_base.h:ConvertCtxPos#0", "62e1a4cf82cf98416f9c2fe7"),
  ("redef/redef_base.h:Convert#1", "0a365cd40789d6566e250e4f"),
  ("redef/MIP/abs.h:ConvertCtxPos#0", "521c1e74a079ef85268a9d9f"),
  ("redef/MIP/abs.h:ConvertCtxNeg#0", "e780401d2ec33317f66cc03e"),
  ("redef/MIP/min_max.h:ConvertCtxPos#0", "13fcdedf59303fe3e74150b7"),
  ("redef/MIP/min_max.h:ConvertCtxNeg#0", "0fe4ad3c27dd21109bea6adc"),
  ("redef/MIP/min_max.h:ConvertConvexPart#0", "d1b1e22de795eafd3b9f70b5"),
  ("redef/MIP/min_max.h:ConvertNonConvexPart#0", "32539b043ab46ae118207105"),
  ("redef/MIP/logical_and.h:ConvertCtxPos#0", "68efd0cdc8c3029502c3b19c"),
  ("redef/MIP/logical_and.h:ConvertCtxNeg#0", "6660c71995e45c44cb06020b"),
  ("redef/MIP/logical_or.h:ConvertCtxPos#0", "ac9c4658410b251e380ee214"),
  ("redef/MIP/logical_or.h:ConvertCtxNeg#0", "c8e42c3b9e48f425999471bd"),
  ("redef/MIP/logical_not.h:Convert#0", "c5f0ab30ae707df75b0055aa"),
  ("redef/MIP/impl.h:Convert#0", "b81e636e133f21f1434e84ce"),
  ("redef/MIP/ifthenelse.h:Convert#0", "d2b1c1cb706c84c0e05c7ae5"),
  ("redef/MIP/ifthenelse.h:ConvertIfThen_constantThenElse#0", "e6bd0228274a1379c90e9944"),
  ("redef/MIP/ifthenelse.h:ConvertIfThen_variableThenElse#0", "cad6022da039cc1c1265da91"),
  ("redef/MIP/cond_eq.h:Convert#0", "9624ed7aa026a95053465ccd"),
  ("redef/MIP/cond_eq.h:ConvertCtxPos#0", "4d7c0d38147d0d52bb3b0aa3"),
  ("redef/MIP/cond_eq.h:ConvertCtxNeg#0", "33cf87a0f16f8170aa907b54"),
  ("redef/MIP/cond_ineq.h:ConvertCtxPos#0", "eff31d9cedf2e6e1ea4e0a88"),
  ("redef/MIP/cond_ineq.h:ConvertCtxNeg#0", "7a3cc20ce8e507c730fda704"),
  ("redef/MIP/cond_ineq.h:ConvertCondIneq#0", "092ab974b87c7cec0dc34706"),
  ("redef/MIP/indicator_le.h:Convert#0", "0121c098340b193daa369bda"),
  ("redef/MIP/indicator_le.h:ConvertImplicationLE#0", "1ae36ceb1fa7d4ce3ec73b55"),
  ("redef/MIP/indicator_ge.h:Convert#0", "898e87aa9aeec474a11cb426"),
  ("redef/MIP/indicator_ge.h:ConvertImplicationGE#0", "ac6e101f448845491f1f76c7"),
  ("redef/MIP/indicator_eq.h:Convert#0", "1f030cee6f5bd7414c282f23"),
  ("redef/MIP/count.h:Convert#0", "31fc3f79e3af87ba6ea8f7ee"),
  ("redef/MIP/numberof_const.h:Convert#0", "c7086047120ed34bb091382c"),
  ("redef/MIP/numberof_var.h:Convert#0", "fe1de42cf730ce8ec3d3c0b4"),
  ("redef/MIP/div.h:Convert#0", "f47a61e48d1d009f7f670073"),
  ("redef/MIP/div.h:ConvertWithConstDivisor#0", "9dc15965bc715d7ef369cf76"),
  ("redef/MIP/div.h:ConvertWithNonConstDivisor#0", "ca26f9b29101a2a180793617"),
  ("redef/MIP/mul.h:LinearizeProductWithBinaryVar#0", "4cadeb259f328a71b3af92de"),
  ("redef/std/range_con.h:Convert#0", "69fdaf4c925c6736f6c92609"),
  ("redef/std/range_con.h:Relate#0", "50106889cc90eb55aedbbed7"),
  ("redef/std/range_con.h:ConvertRange#0", "62f4ddb0bc2b34475f0f1c6e"),
  ("redef/std/range_con.h:ConvertWithRhs#0", "da35d3c8ea20f34fa88562af"),
  ("redef/MIP/converter_mip.h:ComparisonEps#0", "42c7da8ddc5db9c34441156b"),
  ("redef/MIP/converter_mip.h:ComparisonEps#1", "83a4932c81f215a4adb89cd5"),
  ("redef/MIP/converter_mip.h:IfMightUseEqualityEncodingForVar#0", "14cfae5963aafacd8da1444a"),
  ("redef/MIP/converter_mip.h:CreateUnaryEncoding#0", "bdbee71c43e146afcc634751"),
  ("expr_bounds.h:ComputeBoundsAndType#0", "1c6fa758d0800c79128bfae2"),
  ("expr_bounds.h:ComputeBoundsAndType#1", "86110982d5fc3845492da60f"),
  ("expr_bounds.h:ComputeBoundsAndType#2", "2964f0093cb1b3234ab343d4"),
  ("expr_bounds.h:ComputeBoundsAndType#3", "709672aeb8095f43d1dff24f"),
  ("constr_functional.h:to_linear_constraint#0", "53ebfe351acd6a8ccc9fad46"),
  ("constr_functional.h:AddQuadraticConstraint#0", "18b69d91330838be8e8a1de8")
]

theorem C01_gen_bodies : C01Bodies.digests = expectedDigests := by rfl

/-! ## (iv) decision functions translated from the source text -/

/-- what a range conversion produced, read off the output -/
def rangeKind (o : Out) : String :=
  match o.cons, o.vars with
  | [.linRhs .eq _ _], [_] => "range"
  | [.linRhs .eq _ _], [] => "EQ"
  | [.linRhs .ge _ _], [] => "GE"
  | [.linRhs .le _ _], [] => "LE"
  | [], [] => "none"
  | _, _ => "?"

/-- `lb != ub` on extended reals (an infinite bound differs from everything else that can occur here) -/
def boundsDiffer : Option Rat → Option Rat → Bool
  | some l, some u => l != u
  | _, _ => true

theorem C01_gen_range_decision (body : Lin) (lb ub : Option Rat) (n : Nat) :
    rangeKind (gRangeLin body lb ub n) = C01Decisions.rangeDecision (boundsDiffer lb ub) lb.isSome ub.isSome := by
  cases lb with
  | none => cases ub <;> simp [gRangeLin, rangeKind, boundsDiffer, C01Decisions.rangeDecision]
  | some l =>
    cases ub with
    | none => simp [gRangeLin, rangeKind, boundsDiffer, C01Decisions.rangeDecision]
    | some u =>
      by_cases h : l = u
      · subst h; simp [gRangeLin, rangeKind, boundsDiffer, C01Decisions.rangeDecision]
      · have hne : (l != u) = true := by simp [h]
        simp [gRangeLin, rangeKind, boundsDiffer, C01Decisions.rangeDecision, hne, h]

theorem C01_gen_relate_order : C01Decisions.relateOrder = ["neq", "lbFin", "ubFin"] := by rfl

theorem C01_gen_dispatch_neg (ctx : Ctx) (logical : Bool) (rv : VarInfo) :
    needNeg ctx logical rv = C01Decisions.dispatchNeg ctx.eff.hasNeg (if logical then optLT rv.lb 1 else true) := by
  rfl
theorem C01_gen_dispatch_pos (ctx : Ctx) (logical : Bool) (rv : VarInfo) :
    needPos ctx logical rv = C01Decisions.dispatchPos ctx.eff.hasPos (if logical then optGT rv.ub 0 else true) := by
  rfl
/-- the negative part is converted first (auxiliary variables of the positive part are numbered after it), as `dispatch` does -/
theorem C01_gen_dispatch_order : C01Decisions.negFirst = true := by rfl


/-! ## (v) the driver's unary-encoding front end emits exactly the rows of `gUnaryEnc` (the function the gadget theorems are about) -/

theorem C01_tie_unaryenc_rows (v : Var) (B : Bnds) (taken : List (Int × Var)) (n : Nat) (l u : Rat)
    (hi : (B v).isInt = true) (hl : (B v).lb = some l) (hu : (B v).ub = some u) (hdl : l.den = 1) (hdu : u.den = 1) :
    (gUnaryEncFull v B taken n).cons
      = (gUnaryEnc v l.num (uencFlags taken l.num (u.num - l.num + 1).toNat n).1).cons := by
  simp [gUnaryEncFull, hi, hl, hu, hdl, hdu]

/-- every flag is either a comparison result from `taken` or a fresh variable `≥ n`, one per value -/
theorem C01_tie_unaryenc_flags_length (taken : List (Int × Var)) (k : Int) (len n : Nat) :
    (uencFlags taken k len n).1.length = len := by
  induction len generalizing k n with
  | zero => rfl
  | succ m ih =>
    simp only [uencFlags]
    split <;> simp [ih]

/-! ## (vi) `LinTerms::sort_terms`: the canonicalisation applied to every stored algebraic row preserves its value,
hence the truth of the row — the driver prints `Con.stored`, the gadget theorems speak about the rows before it -/

theorem evalLin_insertTerm (x : Asg) (c : Rat) (v : Var) (l : Lin) :
    evalLin x (insertTerm c v l) = c * x v + evalLin x l := by
  induction l with
  | nil => rfl
  | cons p t ih =>
    obtain ⟨c', v'⟩ := p
    simp only [insertTerm]
    split
    · simp [evalLin]
    · split
      · rename_i _ h; subst h; simp only [evalLin]; grind
      · simp only [evalLin, ih]; grind

theorem evalLin_mergeTerms (x : Asg) (l : Lin) : evalLin x (mergeTerms l) = evalLin x l := by
  induction l with
  | nil => rfl
  | cons p t ih =>
    obtain ⟨c, v⟩ := p
    have hm : mergeTerms ((c, v) :: t) = if (c == 0) = true then mergeTerms t else insertTerm c v (mergeTerms t) := rfl
    rw [hm]
    by_cases h : c = 0
    · subst h; simp [evalLin, ih]; grind
    · have : (c == 0) = false := by simp [h]
      simp only [this, Bool.false_eq_true, if_false, evalLin_insertTerm, ih, evalLin]

theorem evalLin_filter_nonzero (x : Asg) (l : Lin) : evalLin x (l.filter (fun p => p.1 != 0)) = evalLin x l := by
  induction l with
  | nil => rfl
  | cons p t ih =>
    obtain ⟨c, v⟩ := p
    by_cases h : c = 0
    · subst h; simp [List.filter, evalLin, ih]; grind
    · have : (c != 0) = true := by simp [h]
      simp [List.filter, this, evalLin, ih]

/-- `sort_terms` does not change the value of the body -/
theorem C01_sort_terms_value (x : Asg) (l : Lin) : evalLin x (sortTerms l) = evalLin x l := by
  unfold sortTerms
  split
  · rw [evalLin_filter_nonzero, evalLin_mergeTerms]
  · rfl

/-- … hence a stored row holds iff the row as emitted by the gadget holds -/
theorem C01_stored_sat (x : Asg) (c : Con) : c.stored.sat x ↔ c.sat x := by
  cases c <;> simp [Con.stored, Con.sat, C01_sort_terms_value]

/-- link between the function the driver op `mulbin` executes (`gMulBinTerm`) and `C01_gadget_mul_binary_term`: whenever the row emitted by
`gMulBinTerm b o zero B n` holds (result variable `n`, stored context `none` = equality), replacing the product term `c * b * o` by `c * n`
keeps the value of the body -/
theorem C01_tie_mulbin_term (c : Rat) (b o zr : Var) (B : Bnds) (n : Nat) (lin : Lin) (y : Asg)
    (hb : y b = 0 ∨ y b = 1) (hz : y zr = 0) (hsat : ∀ k ∈ (gMulBinTerm b o zr B n).cons, k.sat y) :
    evalLin y (lin ++ [(c, n)]) = evalLin y lin + evalQuad y [(c, b, o)] := by
  have h1 : (Con.func n .none (.ifthen b o zr)).sat y := hsat _ (by simp [gMulBinTerm])
  have hr : y n = Fun.val y (.ifthen b o zr) := by
    simpa [Con.sat, rel, req, Ctx.eff] using h1
  -- same computation as `C01_gadget_mul_binary_term` (Props.lean), instantiated at the row of `gMulBinTerm`
  simp only [evalLin_append, evalLin_cons, evalLin_nil, evalQuad, hr, Fun.val]
  rcases hb with h | h <;> simp [h, hz] <;> grind

end MpVerif.C01

import MpVerif.C01.Props
/-!
# C01 — lemmas for the composition theorem (core Lean only)
-/
namespace MpVerif.C01

/-! ## functional values depend only on the variables read -/

theorem evalLin_congr (a e : Asg) (l : Lin) (h : ∀ p ∈ l, a p.2 = e p.2) : evalLin a l = evalLin e l := by
  induction l with
  | nil => rfl
  | cons p t ih =>
    obtain ⟨c, v⟩ := p
    simp only [evalLin_cons, h (c, v) (by simp), ih (fun p hp => h p (by simp [hp]))]

theorem evalQuad_congr (a e : Asg) (q : Quad) (h : ∀ t ∈ q, a t.2.1 = e t.2.1 ∧ a t.2.2 = e t.2.2) :
    evalQuad a q = evalQuad e q := by
  induction q with
  | nil => rfl
  | cons t tl ih =>
    obtain ⟨c, v, w⟩ := t
    have := h (c, v, w) (by simp)
    simp only [evalQuad, this.1, this.2, ih (fun t ht => h t (by simp [ht]))]

theorem maxL_congr (a e : Asg) (v : Var) (t : List Var) (h : ∀ w ∈ v :: t, a w = e w) : maxL a v t = maxL e v t := by
  induction t generalizing v with
  | nil => simp [maxL, h v (by simp)]
  | cons b t ih =>
    have hb := ih b (fun w hw => h w (by simp only [List.mem_cons] at hw ⊢; exact Or.inr hw))
    simp only [maxL, h v (by simp), hb]

theorem minL_congr (a e : Asg) (v : Var) (t : List Var) (h : ∀ w ∈ v :: t, a w = e w) : minL a v t = minL e v t := by
  induction t generalizing v with
  | nil => simp [minL, h v (by simp)]
  | cons b t ih =>
    have hb := ih b (fun w hw => h w (by simp only [List.mem_cons] at hw ⊢; exact Or.inr hw))
    simp only [minL, h v (by simp), hb]

theorem countP_congr (p q : Var → Bool) (l : List Var) (h : ∀ v ∈ l, p v = q v) : countP p l = countP q l := by
  induction l with
  | nil => rfl
  | cons b t ih => simp only [countP, h b (by simp), ih (fun v hv => h v (by simp [hv]))]

theorem all_congr_mem (p q : Var → Bool) (l : List Var) (h : ∀ v ∈ l, p v = q v) : l.all p = l.all q := by
  induction l with
  | nil => rfl
  | cons b t ih => simp only [List.all_cons, h b (by simp), ih (fun v hv => h v (by simp [hv]))]

theorem allDiff_congr (a e : Asg) (l : List Var) (h : ∀ v ∈ l, a v = e v) : allDiffVals a l = allDiffVals e l := by
  induction l with
  | nil => rfl
  | cons b t ih =>
    have hb := h b (by simp)
    have ht : ∀ v ∈ t, a v = e v := fun v hv => h v (by simp [hv])
    simp only [allDiffVals, ih ht, hb]
    rw [all_congr_mem (fun w => e b != a w) (fun w => e b != e w) t (fun w hw => by rw [ht w hw])]

theorem val_congr (f : Fun) (a e : Asg) (h : ∀ v ∈ f.vars, a v = e v) : f.val a = f.val e := by
  cases f with
  | affine body c =>
    simp only [Fun.val]
    rw [evalLin_congr a e body (fun p hp => h p.2 (by simp [Fun.vars]; exact ⟨p.1, hp⟩))]
  | quadratic lin q c =>
    simp only [Fun.val]
    rw [evalLin_congr a e lin (fun p hp => h p.2 (by simp [Fun.vars]; exact Or.inl ⟨p.1, hp⟩)),
      evalQuad_congr a e q (fun t ht => ⟨h t.2.1 (by simp [Fun.vars]; exact Or.inr (Or.inl ⟨t.1, t.2.2, ht⟩)),
        h t.2.2 (by simp [Fun.vars]; exact Or.inr (Or.inr ⟨t.1, t.2.1, ht⟩))⟩)]
  | abs v => simp only [Fun.val, h v (by simp [Fun.vars])]
  | min as =>
    cases as with
    | nil => rfl
    | cons v t => simp only [Fun.val]; exact minL_congr a e v t (fun w hw => h w (by simpa [Fun.vars] using hw))
  | max as =>
    cases as with
    | nil => rfl
    | cons v t => simp only [Fun.val]; exact maxL_congr a e v t (fun w hw => h w (by simpa [Fun.vars] using hw))
  | and as => simp only [Fun.val]; rw [all_congr' a e as (fun v hv => h v (by simpa [Fun.vars] using hv))]
  | or as => simp only [Fun.val]; rw [any_congr' a e as (fun v hv => h v (by simpa [Fun.vars] using hv))]
  | not v => simp only [Fun.val, h v (by simp [Fun.vars])]
  | impl c t e' => simp only [Fun.val, h c (by simp [Fun.vars]), h t (by simp [Fun.vars]), h e' (by simp [Fun.vars])]
  | ifthen c t e' => simp only [Fun.val, h c (by simp [Fun.vars]), h t (by simp [Fun.vars]), h e' (by simp [Fun.vars])]
  | condLin k body rhs =>
    simp only [Fun.val]
    rw [evalLin_congr a e body (fun p hp => h p.2 (by simp [Fun.vars]; exact ⟨p.1, hp⟩))]
  | condQuad k lin q rhs =>
    simp only [Fun.val]
    rw [evalLin_congr a e lin (fun p hp => h p.2 (by simp [Fun.vars]; exact Or.inl ⟨p.1, hp⟩)),
      evalQuad_congr a e q (fun t ht => ⟨h t.2.1 (by simp [Fun.vars]; exact Or.inr (Or.inl ⟨t.1, t.2.2, ht⟩)),
        h t.2.2 (by simp [Fun.vars]; exact Or.inr (Or.inr ⟨t.1, t.2.1, ht⟩))⟩)]
  | count as =>
    simp only [Fun.val]
    exact countP_congr _ _ as (fun v hv => by rw [h v (by simpa [Fun.vars] using hv)])
  | numberofConst k as =>
    simp only [Fun.val]
    exact countP_congr _ _ as (fun v hv => by rw [h v (by simpa [Fun.vars] using hv)])
  | numberofVar r as =>
    simp only [Fun.val]
    rw [h r (by simp [Fun.vars])]
    exact countP_congr _ _ as (fun v hv => by rw [h v (by simp [Fun.vars]; exact Or.inr hv)])
  | alldiff as => simp only [Fun.val]; rw [allDiff_congr a e as (fun v hv => h v (by simpa [Fun.vars] using hv))]
  | div v w => simp only [Fun.val, h v (by simp [Fun.vars]), h w (by simp [Fun.vars])]
  | pow v p => simp only [Fun.val, h v (by simp [Fun.vars])]


/-! ## one generic propagation-soundness statement -/

theorem req_add_vals {c : Ctx} {r1 v1 r2 v2 : Rat} (h1 : req c r1 v1) (h2 : req c r2 v2) : req c (r1 + r2) (v1 + v2) := by
  cases c <;> simp only [req] at * <;> grind

theorem req_refl' (c : Ctx) (v : Rat) : req c v v := by cases c <;> simp [req]

theorem propLin_vars (ctx : Ctx) (body : Lin) (p : Var × Ctx) (h : p ∈ propLin ctx body) : p.1 ∈ body.map (·.2) := by
  obtain ⟨c, hc⟩ := propLin_mem ctx body p h
  exact List.mem_map.mpr ⟨(c, p.1), hc, rfl⟩

theorem propQuad_vars (B : Bnds) (ctx : Ctx) (q : Quad) (p : Var × Ctx) (h : p ∈ propQuad B ctx q) :
    p.1 ∈ q.map (·.2.1) ++ q.map (·.2.2) := by
  induction q with
  | nil => simp [propQuad] at h
  | cons t tl ih =>
    obtain ⟨c, v, w⟩ := t
    simp only [propQuad] at h
    split at h
    · have := ih h
      simp only [List.mem_append, List.mem_map, List.map_cons, List.mem_cons] at this ⊢
      rcases this with ⟨t', ht', e⟩ | ⟨t', ht', e⟩
      · exact Or.inl (Or.inr ⟨t', ht', e⟩)
      · exact Or.inr (Or.inr ⟨t', ht', e⟩)
    · simp only [List.mem_append] at h
      rcases h with h | h
      · split at h
        · simp at h; subst h; simp
        · simp at h; rcases h with h | h <;> subst h <;> simp
      · have := ih h
        simp only [List.mem_append, List.mem_map, List.map_cons, List.mem_cons] at this ⊢
        rcases this with ⟨t', ht', e⟩ | ⟨t', ht', e⟩
        · exact Or.inl (Or.inr ⟨t', ht', e⟩)
        · exact Or.inr (Or.inr ⟨t', ht', e⟩)

/-- the propagation rule only hands contexts to variables the expression reads -/
theorem propFun_vars (B : Bnds) (ctx : Ctx) (f : Fun) (p : Var × Ctx) (h : p ∈ propFun B ctx f) : p.1 ∈ f.vars := by
  cases f with
  | affine body c => exact propLin_vars _ body p h
  | quadratic lin q c =>
    simp only [propFun, propQFC, List.mem_append] at h
    simp only [Fun.vars, List.mem_append]
    rcases h with h | h
    · exact Or.inl (propLin_vars _ lin p h)
    · have := propQuad_vars B _ q p h
      simp only [List.mem_append] at this; exact Or.inr this
  | not v => simp [propFun, propNot] at h; subst h; simp [Fun.vars]
  | and as => simp [propFun, propAnd] at h; obtain ⟨a, ha, e⟩ := h; subst e; simpa [Fun.vars] using ha
  | or as => simp [propFun, propOr] at h; obtain ⟨a, ha, e⟩ := h; subst e; simpa [Fun.vars] using ha
  | impl c t e => simp [propFun, propImpl] at h; rcases h with h | h | h <;> subst h <;> simp [Fun.vars]
  | ifthen c t e =>
    simp only [propFun, propIfThen, List.mem_cons, List.not_mem_nil, or_false] at h
    rcases h with h | h | h <;> subst h <;> simp [Fun.vars]
  | condLin k body rhs => exact propLin_vars _ body p h
  | abs v => simp [propFun, propDefault, Fun.vars] at h ⊢; subst h; rfl
  | min as => simp [propFun, propDefault, Fun.vars] at h ⊢; obtain ⟨a, ha, e⟩ := h; subst e; exact ha
  | max as => simp [propFun, propDefault, Fun.vars] at h ⊢; obtain ⟨a, ha, e⟩ := h; subst e; exact ha
  | condQuad k lin q rhs =>
    simp only [propFun, propDefault, List.mem_map] at h
    obtain ⟨a, ha, e⟩ := h; subst e; exact ha
  | count as => simp [propFun, propDefault, Fun.vars] at h ⊢; obtain ⟨a, ha, e⟩ := h; subst e; exact ha
  | numberofConst k as => simp [propFun, propDefault, Fun.vars] at h ⊢; obtain ⟨a, ha, e⟩ := h; subst e; exact ha
  | numberofVar r as =>
    simp only [propFun, propDefault, List.mem_map] at h
    obtain ⟨a, ha, e⟩ := h; subst e; exact ha
  | alldiff as => simp [propFun, propDefault, Fun.vars] at h ⊢; obtain ⟨a, ha, e⟩ := h; subst e; exact ha
  | div v w =>
    simp only [propFun, propDefault, List.mem_map] at h
    obtain ⟨a, ha, e⟩ := h; subst e; exact ha
  | pow v k => simp [propFun, propDefault, Fun.vars] at h ⊢; subst h; rfl

/-- default rule: all read variables equal ⇒ equal values -/
theorem default_sound (ctx : Ctx) (f : Fun) (a e : Asg)
    (h : ∀ p ∈ propDefault f.vars, req p.2 (a p.1) (e p.1)) : req ctx (f.val a) (f.val e) := by
  have : ∀ v ∈ f.vars, a v = e v := by
    intro v hv
    have := h (v, .mix) (by simp [propDefault]; exact hv)
    simpa [req] using this
  rw [val_congr f a e this]; exact req_refl' _ _

/-- **generic context soundness**: if every argument variable's delivered value relates to its exact value as the
context assigned by the rule requires, the expression's value relates as the parent context requires -/
theorem fun_ctx_sound (B : Bnds) (ctx : Ctx) (f : Fun) (a e : Asg) (oka : FunOK B f a) (oke : FunOK B f e)
    (h : ∀ p ∈ propFun B ctx f, req p.2 (a p.1) (e p.1)) : req ctx (f.val a) (f.val e) := by
  cases f with
  | affine body c => exact C01_ctx_sound_lfc ctx body c a e h
  | quadratic lin q c =>
    simp only [propFun, propQFC, List.mem_append] at h
    have h1 := req_of_plus (C01_ctx_sound_linterms ctx.plus lin a e (fun p hp => h p (Or.inl hp)))
    have h2 := req_of_plus (C01_ctx_sound_quadterms B ctx.plus q a e oka oke (fun p hp => h p (Or.inr hp)))
    have := req_add_vals h1 h2
    simp only [Fun.val]
    cases ctx <;> simp only [req] at this ⊢ <;> grind
  | not v => exact C01_ctx_sound_not ctx v a e h
  | and as => exact C01_ctx_sound_and ctx as a e oka oke h
  | or as => exact C01_ctx_sound_or ctx as a e oka oke h
  | impl c t e' => exact C01_ctx_sound_impl ctx c t e' a e h
  | ifthen c t e' => exact C01_ctx_sound_ifthen B ctx c t e' a e oka.1 oke.1 oka.2.1 oka.2.2 oke.2.1 oke.2.2 h
  | condLin k body rhs => exact C01_ctx_sound_condlin k ctx body rhs a e h
  | abs v => exact default_sound ctx _ a e h
  | min as => exact default_sound ctx _ a e h
  | max as => exact default_sound ctx _ a e h
  | condQuad k lin q rhs => exact default_sound ctx _ a e h
  | count as => exact default_sound ctx _ a e h
  | numberofConst k as => exact default_sound ctx _ a e h
  | numberofVar r as => exact default_sound ctx _ a e h
  | alldiff as => exact default_sound ctx _ a e h
  | div v w => exact default_sound ctx _ a e h
  | pow v k => exact default_sound ctx _ a e h


/-! ## exact values in creation order -/

theorem wf_res_ge {m : Nat} {defs : List Def} (h : WF m defs) : ∀ d ∈ defs, m ≤ d.res := by
  induction defs generalizing m with
  | nil => simp
  | cons d ds ih =>
    obtain ⟨h1, _, h3⟩ := h
    intro d' hd'
    simp only [List.mem_cons] at hd'
    rcases hd' with hd' | hd'
    · subst hd'; exact h1
    · have := ih h3 d' hd'; omega

/-- below the first result variable nothing changes -/
theorem exact_below (x : Asg) (m : Nat) (defs : List Def) (h : WF m defs) :
    ∀ v, v < m → exactAsg x defs v = x v := by
  induction defs generalizing x m with
  | nil => intro v _; rfl
  | cons d ds ih =>
    obtain ⟨h1, _, h3⟩ := h
    intro v hv
    simp only [exactAsg]
    rw [ih _ (d.res + 1) h3 v (by omega)]
    have : v ≠ d.res := by omega
    simp [setVar, this]

/-- a variable that no definition defines keeps its value -/
theorem exact_undefined (x : Asg) (defs : List Def) (v : Var) (h : ∀ d ∈ defs, d.res ≠ v) :
    exactAsg x defs v = x v := by
  induction defs generalizing x with
  | nil => rfl
  | cons d ds ih =>
    simp only [exactAsg]
    rw [ih _ (fun d' hd' => h d' (by simp [hd']))]
    have : v ≠ d.res := fun e => h d (by simp) e.symm
    simp [setVar, this]

/-- every result variable carries the exact value of its defining expression -/
theorem exact_spec (x : Asg) (m : Nat) (defs : List Def) (h : WF m defs) :
    ∀ d ∈ defs, exactAsg x defs d.res = d.f.val (exactAsg x defs) := by
  induction defs generalizing x m with
  | nil => simp
  | cons d ds ih =>
    obtain ⟨h1, h2, h3⟩ := h
    intro d' hd'
    simp only [List.mem_cons] at hd'
    rcases hd' with hd' | hd'
    · subst hd'
      simp only [exactAsg]
      have hb := exact_below (setVar x d'.res (d'.f.val x)) (d'.res + 1) ds h3
      rw [hb d'.res (by omega)]
      have e1 : setVar x d'.res (d'.f.val x) d'.res = d'.f.val x := by simp [setVar]
      rw [e1]
      apply val_congr
      intro v hv
      have hlt := h2 v hv
      rw [hb v (Nat.lt_succ_of_lt hlt)]
      have : v ≠ d'.res := Nat.ne_of_lt hlt
      simp [setVar, this]
    · simp only [exactAsg]; exact ih _ (d.res + 1) h3 d' hd'

theorem ctxOf_mem (m : Nat) (defs : List Def) (h : WF m defs) : ∀ d ∈ defs, ctxOf defs d.res = d.ctx := by
  induction defs generalizing m with
  | nil => simp
  | cons d ds ih =>
    obtain ⟨_, _, h3⟩ := h
    intro d' hd'
    simp only [List.mem_cons] at hd'
    rcases hd' with hd' | hd'
    · subst hd'; simp [ctxOf]
    · have hge := wf_res_ge h3 d' hd'
      have : d.res ≠ d'.res := Nat.ne_of_lt (Nat.lt_of_succ_le hge)
      simp only [ctxOf, this, if_false]
      exact ih (d.res + 1) h3 d' hd'

theorem defined_or_not (defs : List Def) (v : Var) : (∃ d ∈ defs, d.res = v) ∨ (∀ d ∈ defs, d.res ≠ v) := by
  by_cases h : ∃ d ∈ defs, d.res = v
  · exact Or.inl h
  · right; intro d hd e; exact h ⟨d, hd, e⟩

/-! ## Layer 1: contexts only (no auxiliary variables) -/

/-- a relaxed solution: shared variables keep their values, every definition holds in its stored context's reading,
the roots hold -/
def Relaxed (N : Nat) (defs : List Def) (roots : List Root) (x y : Asg) : Prop :=
  (∀ v, v < N → (∀ d ∈ defs, d.res ≠ v) → y v = x v) ∧
  (∀ d ∈ defs, rel d.ctx (y d.res) (d.f.val y)) ∧ (∀ r ∈ roots, r.sat y)

/-- key invariant, by strong induction on the variable index (reverse creation order is the dependency order):
every variable's delivered value relates to its exact value as its stored context requires -/
theorem relaxed_invariant (B : Bnds) (n0 N : Nat) (defs : List Def) (roots : List Root) (x y : Asg)
    (hwf : WF n0 defs) (hN : ∀ d ∈ defs, d.res < N) (hcov : CtxCovers B defs roots)
    (hoky : ∀ d ∈ defs, FunOK B d.f y) (hoke : ∀ d ∈ defs, FunOK B d.f (exactAsg x defs))
    (hy : Relaxed N defs roots x y) :
    ∀ v, v < N → req (ctxOf defs v).eff (y v) (exactAsg x defs v) := by
  intro v
  induction v using Nat.strongRecOn with
  | _ v ih =>
    intro hv
    rcases defined_or_not defs v with ⟨d, hd, hdv⟩ | hnd
    · subst hdv
      rw [ctxOf_mem n0 defs hwf d hd, exact_spec x n0 defs hwf d hd]
      have hrel := hy.2.1 d hd
      have hvars : ∀ w ∈ d.f.vars, w < d.res := by
        -- from well-formedness
        have : ∀ (m : Nat) (l : List Def), WF m l → ∀ d' ∈ l, ∀ w ∈ d'.f.vars, w < d'.res := by
          intro m l
          induction l generalizing m with
          | nil => simp
          | cons a t iht =>
            intro hw d' hd'
            obtain ⟨_, h2, h3⟩ := hw
            simp only [List.mem_cons] at hd'
            rcases hd' with hd' | hd'
            · subst hd'; exact h2
            · exact iht (a.res + 1) h3 d' hd'
        exact this n0 defs hwf d hd
      have hargs : ∀ p ∈ propFun B d.ctx.eff d.f, req p.2 (y p.1) (exactAsg x defs p.1) := by
        intro p hp
        have hpv := propFun_vars B _ d.f p hp
        have hlt := hvars p.1 hpv
        have := ih p.1 hlt (Nat.lt_trans hlt hv)
        exact req_mono (hcov.2 d hd p hp) this
      have hs := fun_ctx_sound B d.ctx.eff d.f y (exactAsg x defs) (hoky d hd) (hoke d hd) hargs
      exact req_trans hrel hs
    · rw [exact_undefined x defs v hnd, hy.1 v hv hnd]; exact req_refl' _ _

/-- Layer 1 of the composition: with covering contexts, a relaxed solution exists iff the NL-level semantics holds -/
theorem compose_relaxed (B : Bnds) (n0 N : Nat) (defs : List Def) (roots : List Root) (x : Asg)
    (hwf : WF n0 defs) (hN : ∀ d ∈ defs, d.res < N) (hroots : ∀ r ∈ roots, ∀ p ∈ r.body, p.2 < N)
    (hfin : ∀ r ∈ roots, (∀ l, r.lb = some l → -pracInf < l) ∧ (∀ u, r.ub = some u → u < pracInf))
    (hcov : CtxCovers B defs roots) (hoke : ∀ d ∈ defs, FunOK B d.f (exactAsg x defs)) :
    NLsat defs roots x ↔ ∃ y, (∀ d ∈ defs, FunOK B d.f y) ∧ Relaxed N defs roots x y := by
  constructor
  · intro h
    refine ⟨exactAsg x defs, hoke, ?_, ?_, h⟩
    · intro v _ hnd; exact exact_undefined x defs v hnd
    · intro d hd; rw [exact_spec x n0 defs hwf d hd]; exact req_refl' _ _
  · intro ⟨y, hoky, hy⟩ r hr
    have inv := relaxed_invariant B n0 N defs roots x y hwf hN hcov hoky hoke hy
    apply C01_ctx_sound_range r.body r.lb r.ub y (exactAsg x defs) (hfin r hr).1 (hfin r hr).2 _ (hy.2.2 r hr)
    intro p hp
    obtain ⟨c, hc⟩ := propLin_mem _ r.body p hp
    exact req_mono (hcov.1 r hr p hp) (inv p.1 (hroots r hr (c, p.1) hc))


/-! ## Layer 2: auxiliary variables, steps in conversion order -/

theorem build_steps (N : Nat) (Dom : Asg → Prop)
    (hDom : ∀ z z' : Asg, (∀ v, v < N → z' v = z v) → Dom z → Dom z') (steps : List Step) :
    ∀ (m : Nat) (z : Asg), N ≤ m → Chain m steps → (∀ s ∈ steps, StepOK N Dom s) →
      (∀ s ∈ steps, s.res < N ∧ ∀ v ∈ s.f.vars, v < N) → Dom z → (∀ s ∈ steps, z s.res = s.f.val z) →
      ∃ z', (∀ v, v < m → z' v = z v) ∧ ∀ s ∈ steps, s.Deliv z' := by
  induction steps with
  | nil => intro m z _ _ _ _ _ _; exact ⟨z, fun _ _ => rfl, by simp⟩
  | cons s t ih =>
    intro m z hm hch hok hlt hdz hex
    obtain ⟨c1, c2, c3⟩ := hch
    obtain ⟨o1, _, o3, o4⟩ := hok s (by simp)
    obtain ⟨z1, hag1, hd1⟩ := o3 z hdz (hex s (by simp))
    have hagN : ∀ v, v < N → z1 v = z v := fun v hv => hag1 v (Nat.lt_of_lt_of_le hv o1)
    have hdz1 : Dom z1 := hDom z z1 hagN hdz
    have hex1 : ∀ s' ∈ t, z1 s'.res = s'.f.val z1 := by
      intro s' hs'
      have hl := hlt s' (by simp [hs'])
      rw [hagN _ hl.1, hex s' (by simp [hs'])]
      exact (val_congr s'.f z1 z (fun v hv => hagN v (hl.2 v hv))).symm
    have hmh : N ≤ s.hi := Nat.le_trans o1 c2
    obtain ⟨z2, hag2, hd2⟩ := ih s.hi z1 hmh c3 (fun s' hs' => hok s' (by simp [hs']))
      (fun s' hs' => hlt s' (by simp [hs'])) hdz1 hex1
    refine ⟨z2, ?_, ?_⟩
    · intro v hv
      rw [hag2 v (Nat.lt_of_lt_of_le hv (Nat.le_trans c1 c2)), hag1 v (Nat.lt_of_lt_of_le hv c1)]
    · intro s' hs'
      simp only [List.mem_cons] at hs'
      rcases hs' with hs' | hs'
      · subst hs'; exact o4 z1 z2 hag2 hd1
      · exact hd2 s' hs'

/-- **composition**: NL-level semantics ⇔ the delivered rows are satisfiable over result and auxiliary variables -/
theorem compose (B : Bnds) (n0 N : Nat) (defs : List Def) (steps : List Step) (roots : List Root) (Dom : Asg → Prop)
    (hDom : ∀ z z' : Asg, (∀ v, v < N → z' v = z v) → Dom z → Dom z')
    (hperm : ∀ d, d ∈ defs ↔ ∃ s ∈ steps, s.toDef = d)
    (hwf : WF n0 defs) (hN : ∀ d ∈ defs, d.res < N)
    (hroots : ∀ r ∈ roots, ∀ p ∈ r.body, p.2 < N)
    (hfin : ∀ r ∈ roots, (∀ l, r.lb = some l → -pracInf < l) ∧ (∀ u, r.ub = some u → u < pracInf))
    (hcov : CtxCovers B defs roots)
    (hchain : Chain N steps) (hok : ∀ s ∈ steps, StepOK N Dom s)
    (hDomOK : ∀ y, Dom y → ∀ d ∈ defs, FunOK B d.f y)
    (x : Asg) (hDomE : Dom (exactAsg x defs)) :
    NLsat defs roots x ↔ ∃ y, Delivered N defs steps roots Dom x y := by
  have hvarsN : ∀ d ∈ defs, ∀ v ∈ d.f.vars, v < N := by
    have : ∀ (m : Nat) (l : List Def), WF m l → ∀ d' ∈ l, ∀ w ∈ d'.f.vars, w < d'.res := by
      intro m l
      induction l generalizing m with
      | nil => simp
      | cons a t iht =>
        intro hw d' hd'
        obtain ⟨_, h2, h3⟩ := hw
        simp only [List.mem_cons] at hd'
        rcases hd' with hd' | hd'
        · subst hd'; exact h2
        · exact iht (a.res + 1) h3 d' hd'
    intro d hd v hv
    exact Nat.lt_trans (this n0 defs hwf d hd v hv) (hN d hd)
  constructor
  · intro hnl
    have hE : ∀ s ∈ steps, (exactAsg x defs) s.res = s.f.val (exactAsg x defs) := by
      intro s hs
      exact exact_spec x n0 defs hwf s.toDef ((hperm s.toDef).mpr ⟨s, hs, rfl⟩)
    have hlt : ∀ s ∈ steps, s.res < N ∧ ∀ v ∈ s.f.vars, v < N := by
      intro s hs
      have hm := (hperm s.toDef).mpr ⟨s, hs, rfl⟩
      exact ⟨hN _ hm, hvarsN _ hm⟩
    obtain ⟨y, hag, hdel⟩ := build_steps N Dom hDom steps N (exactAsg x defs) (Nat.le_refl N) hchain hok hlt hDomE hE
    refine ⟨y, ?_, hDom _ y hag hDomE, hdel, ?_⟩
    · intro v hv hnd; rw [hag v hv]; exact exact_undefined x defs v hnd
    · intro r hr
      have := hnl r hr
      unfold Root.sat at this ⊢
      have hagree : agree N (exactAsg x defs) y := hag
      rw [evalLin_agree hagree (hroots r hr)]; exact this
  · intro ⟨y, hsh, hdy, hdel, hrt⟩
    have hrelaxed : Relaxed N defs roots x y := by
      refine ⟨hsh, ?_, hrt⟩
      intro d hd
      obtain ⟨s, hs, e⟩ := (hperm d).mp hd
      subst e
      exact (hok s hs).2.1 y hdy (hdel s hs)
    exact (compose_relaxed B n0 N defs roots x hwf hN hroots hfin hcov (hDomOK _ hDomE)).mpr
      ⟨y, hDomOK y hdy, hrelaxed⟩


/-! ## from the gadget theorems (`Exact`) to `StepOK` -/

theorem sos1Ok_congr (a e : Asg) (l : List Var) (h : ∀ v ∈ l, a v = e v) : sos1Ok a l = sos1Ok e l := by
  induction l with
  | nil => rfl
  | cons b t ih =>
    have ht : ∀ v ∈ t, a v = e v := fun v hv => h v (by simp [hv])
    simp only [sos1Ok, h b (by simp), ih ht]
    rw [all_congr_mem (fun w => a w == 0) (fun w => e w == 0) t (fun w hw => by rw [ht w hw])]

theorem sos2Ok_congr (a e : Asg) (l : List Var) (h : ∀ v ∈ l, a v = e v) : sos2Ok a l = sos2Ok e l := by
  induction l with
  | nil => rfl
  | cons b t ih =>
    cases t with
    | nil => rfl
    | cons c t' =>
      have ht : ∀ v ∈ c :: t', a v = e v := fun v hv => h v (by simp only [List.mem_cons] at hv ⊢; exact Or.inr hv)
      have ht' : ∀ v ∈ t', a v = e v := fun v hv => ht v (by simp [hv])
      simp only [sos2Ok, h b (by simp), ih ht]
      rw [all_congr_mem (fun w => a w == 0) (fun w => e w == 0) t' (fun w hw => by rw [ht' w hw])]

theorem linvars_congr {a e : Asg} {l : Lin} (h : ∀ v ∈ l.map (·.2), a v = e v) : evalLin a l = evalLin e l :=
  evalLin_congr a e l (fun p hp => h p.2 (List.mem_map.mpr ⟨p, hp, rfl⟩))

theorem quadvars_congr {a e : Asg} {q : Quad} (h : ∀ v ∈ q.map (·.2.1) ++ q.map (·.2.2), a v = e v) :
    evalQuad a q = evalQuad e q :=
  evalQuad_congr a e q (fun t ht =>
    ⟨h _ (List.mem_append.mpr (Or.inl (List.mem_map.mpr ⟨t, ht, rfl⟩))),
     h _ (List.mem_append.mpr (Or.inr (List.mem_map.mpr ⟨t, ht, rfl⟩)))⟩)

/-- a constraint's truth depends only on the variables it reads -/
theorem sat_congr (c : Con) (a e : Asg) (h : ∀ v ∈ c.vars, a v = e v) : c.sat a ↔ c.sat e := by
  cases c with
  | linRange body lb ub => simp only [Con.sat, linvars_congr (l := body) h]
  | linRhs k body rhs => simp only [Con.sat, linvars_congr (l := body) h]
  | quadRange lin q lb ub =>
    simp only [Con.vars, List.mem_append] at h
    simp only [Con.sat, linvars_congr (l := lin) (fun v hv => h v (Or.inl hv)),
      quadvars_congr (q := q) (fun v hv => h v (Or.inr (List.mem_append.mp hv)))]
  | quadRhs k lin q rhs =>
    simp only [Con.vars, List.mem_append] at h
    simp only [Con.sat, linvars_congr (l := lin) (fun v hv => h v (Or.inl hv)),
      quadvars_congr (q := q) (fun v hv => h v (Or.inr (List.mem_append.mp hv)))]
  | indLin b bv k body rhs =>
    simp only [Con.vars, List.mem_cons] at h
    simp only [Con.sat, h b (Or.inl rfl), linvars_congr (l := body) (fun v hv => h v (Or.inr hv))]
  | sos1 vs ws => simp only [Con.sat, sos1Ok_congr a e vs h]
  | sos2 vs ws => simp only [Con.sat, sos2Ok_congr a e vs h]
  | func res ctx f =>
    simp only [Con.vars, List.mem_cons] at h
    simp only [Con.sat, h res (Or.inl rfl), val_congr f a e (fun v hv => h v (Or.inr hv))]

theorem auxOk_congr (n : Nat) (a e : Asg) (l : List VarInfo) (h : ∀ v, v < n + l.length → a v = e v) :
    auxOk n a l ↔ auxOk n e l := by
  induction l generalizing n with
  | nil => simp [auxOk]
  | cons i t ih =>
    simp only [auxOk, List.length_cons] at h ⊢
    rw [h n (by omega), ih (n + 1) (fun v hv => h v (by omega))]

/-- a proved gadget theorem gives a valid step -/
theorem stepOK_of_exact (N : Nat) (Dom D : Asg → Prop) (d : Def) (o : Out) (n : Nat)
    (hN : N ≤ n) (hDD : ∀ y, Dom y → D y)
    (hex : Exact o n D (fun x => rel d.ctx (x d.res) (d.f.val x)))
    (hrows : ∀ c ∈ o.cons, ∀ v ∈ c.vars, v < n + o.vars.length) :
    StepOK N Dom (Step.ofGadget d o n) := by
  refine ⟨hN, ?_, ?_, ?_⟩
  · intro y hd ⟨hax, hcs⟩; exact hex.1 y (hDD y hd) hax hcs
  · intro z hd hz
    have hrel : rel d.ctx (z d.res) (d.f.val z) := C01_mix_implies_ctx _ _ _ hz
    obtain ⟨z', hag, hax, hcs⟩ := hex.2 z (hDD z hd) hrel
    exact ⟨z', hag, hax, hcs⟩
  · intro y y' hag ⟨hax, hcs⟩
    refine ⟨(auxOk_congr n y' y o.vars hag).mpr hax, ?_⟩
    intro c hc
    exact (sat_congr c y' y (fun v hv => hag v (hrows c hc v hv))).mpr (hcs c hc)

/-- a natively delivered definition is a valid step -/
theorem stepOK_native (N : Nat) (Dom : Asg → Prop) (d : Def) (hres : d.res < N) (hvars : ∀ v ∈ d.f.vars, v < N) :
    StepOK N Dom (Step.native d N) := by
  refine ⟨Nat.le_refl N, ?_, ?_, ?_⟩
  · intro y _ h; exact C01_mix_implies_ctx _ _ _ h
  · intro z _ hz; exact ⟨z, fun _ _ => rfl, hz⟩
  · intro y y' hag h
    show y' d.res = d.f.val y'
    rw [hag d.res hres, val_congr d.f y' y (fun v hv => hag v (hvars v hv))]; exact h


/-! ## the executable validator is sound -/

theorem ctxGaps_sound (B : Bnds) (defs : List Def) (roots : List Root) (h : ctxGaps B defs roots = []) :
    CtxCovers B defs roots := by
  have hf : ∀ p ∈ ctxUses B defs roots, p.2 ≤ (ctxOf defs p.1).eff := by
    intro p hp
    simp only [ctxGaps, List.map_eq_nil_iff, List.filter_eq_nil_iff] at h
    have := h p hp
    simpa using this
  constructor
  · intro r hr p hp
    exact hf p (by simp only [ctxUses, List.mem_append, List.mem_flatMap]; exact Or.inl ⟨r, hr, hp⟩)
  · intro d hd p hp
    exact hf p (by simp only [ctxUses, List.mem_append, List.mem_flatMap]; exact Or.inr ⟨d, hd, hp⟩)

theorem wfB_sound (m : Nat) (defs : List Def) (h : wfB m defs = true) : WF m defs := by
  induction defs generalizing m with
  | nil => trivial
  | cons d ds ih =>
    simp only [wfB, Bool.and_eq_true, decide_eq_true_eq, List.all_eq_true] at h
    exact ⟨h.1.1, fun v hv => h.1.2 v hv, ih (d.res + 1) h.2⟩

end MpVerif.C01

import MpVerif.C01.LemmasConvert10
/-!
# C01 — lemmas about the reference converter, part 11: the structural checks hold by construction (flattening invariant)
-/
namespace MpVerif.C01

theorem WF_append (m k : Nat) (defs : List Def) (c : Ctx) (f : Fun) (hw : WF m defs) (hlt : ∀ d ∈ defs, d.res < k)
    (hm : m ≤ k) (hv : ∀ v ∈ f.vars, v < k) : WF m (defs ++ [⟨k, c, f⟩]) := by
  induction defs generalizing m with
  | nil => exact ⟨hm, hv, trivial⟩
  | cons d t ih =>
    obtain ⟨h1, h2, h3⟩ := hw
    refine ⟨h1, h2, ?_⟩
    exact ih (d.res + 1) h3 (fun d' hd' => hlt d' (by simp [hd'])) (hlt d (by simp))

theorem lbMax_congr (B B' : Bnds) (as : List Var) (h : ∀ a ∈ as, B' a = B a) : lbMax B' as = lbMax B as := by
  induction as with
  | nil => rfl
  | cons a t ih =>
    have ha := h a (by simp)
    have ht := ih (fun a' ha' => h a' (by simp [ha']))
    cases t with
    | nil => simp [lbMax, ha]
    | cons b t' => simp only [lbMax, ha, ht]
theorem ubMax_congr (B B' : Bnds) (as : List Var) (h : ∀ a ∈ as, B' a = B a) : ubMax B' as = ubMax B as := by
  induction as with
  | nil => rfl
  | cons a t ih =>
    have ha := h a (by simp)
    have ht := ih (fun a' ha' => h a' (by simp [ha']))
    cases t with
    | nil => simp [ubMax, ha]
    | cons b t' => simp only [ubMax, ha, ht]
theorem lbMin_congr (B B' : Bnds) (as : List Var) (h : ∀ a ∈ as, B' a = B a) : lbMin B' as = lbMin B as := by
  induction as with
  | nil => rfl
  | cons a t ih =>
    have ha := h a (by simp)
    have ht := ih (fun a' ha' => h a' (by simp [ha']))
    cases t with
    | nil => simp [lbMin, ha]
    | cons b t' => simp only [lbMin, ha, ht]
theorem ubMin_congr (B B' : Bnds) (as : List Var) (h : ∀ a ∈ as, B' a = B a) : ubMin B' as = ubMin B as := by
  induction as with
  | nil => rfl
  | cons a t ih =>
    have ha := h a (by simp)
    have ht := ih (fun a' ha' => h a' (by simp [ha']))
    cases t with
    | nil => simp [ubMin, ha]
    | cons b t' => simp only [ubMin, ha, ht]

theorem all_congr_B (p : VarInfo → Bool) (B B' : Bnds) (as : List Var) (h : ∀ a ∈ as, B' a = B a) :
    (as.all fun a => p (B' a)) = (as.all fun a => p (B a)) := by
  induction as with
  | nil => rfl
  | cons a t ih => simp only [List.all_cons, h a (by simp), ih (fun a' ha' => h a' (by simp [ha']))]

/-- the created bounds depend only on the bounds of the variables read -/
theorem resBnd_congr (B B' : Bnds) (f : Fun) (h : ∀ v ∈ f.vars, B' v = B v) : resBnd B' f = resBnd B f := by
  cases f with
  | affine body c =>
    cases body with
    | nil => rfl
    | cons p t =>
      simp only [resBnd, affBnd]
      rw [linBnd_congr B B' (p :: t) (fun q hq => h q.2 (by simp only [Fun.vars, List.mem_map]; exact ⟨q, hq, rfl⟩))]
  | abs a => simp only [resBnd, h a (by simp [Fun.vars])]
  | max as =>
    have h' : ∀ a ∈ as, B' a = B a := fun a ha => h a (by simpa [Fun.vars] using ha)
    simp only [resBnd, lbMax_congr B B' as h', ubMax_congr B B' as h', all_congr_B intLike B B' as h']
  | min as =>
    have h' : ∀ a ∈ as, B' a = B a := fun a ha => h a (by simpa [Fun.vars] using ha)
    simp only [resBnd, lbMin_congr B B' as h', ubMin_congr B B' as h', all_congr_B intLike B B' as h']
  | ifthen c t e => simp only [resBnd, h t (by simp [Fun.vars]), h e (by simp [Fun.vars])]
  | _ => rfl

theorem typedDef_congr (B B' : Bnds) (d : Def) (hr : B' d.res = B d.res) (h : ∀ v ∈ d.f.vars, B' v = B v) :
    typedDef B' d = typedDef B d := by
  unfold typedDef
  rw [hr, resBnd_congr B B' d.f h]
  cases hf : d.f with
  | and as =>
    rw [hf] at h
    simp only [all_congr_B isBin01 B B' as (fun a ha => h a (by simpa [Fun.vars] using ha))]
  | or as =>
    rw [hf] at h
    simp only [all_congr_B isBin01 B B' as (fun a ha => h a (by simpa [Fun.vars] using ha))]
  | count as =>
    rw [hf] at h
    simp only [all_congr_B isBin01 B B' as (fun a ha => h a (by simpa [Fun.vars] using ha))]
  | not a => rw [hf] at h; simp only [h a (by simp [Fun.vars])]
  | ifthen c t e => rw [hf] at h; simp only [h c (by simp [Fun.vars])]
  | _ => rfl



/-- typing of the arguments (third conjunct of `typedDef`) -/
def argTyped (B : Bnds) : Fun → Bool
  | .and as => as.all (fun a => isBin01 (B a))
  | .or as => as.all (fun a => isBin01 (B a))
  | .count as => as.all (fun a => isBin01 (B a))
  | .not a => isBin01 (B a)
  | .ifthen c _ _ => isBin01 (B c)
  | _ => true

theorem typedDef_eq (B : Bnds) (d : Def) :
    typedDef B d = (decide (B d.res = resBnd B d.f) && d.f.inFrag && argTyped B d.f) := by
  unfold typedDef; cases d.f <;> rfl

theorem argTyped_congr (B B' : Bnds) (f : Fun) (h : ∀ v ∈ f.vars, B' v = B v) : argTyped B' f = argTyped B f := by
  cases f with
  | and as => exact all_congr_B isBin01 B B' as (fun a ha => h a (by simpa [Fun.vars] using ha))
  | or as => exact all_congr_B isBin01 B B' as (fun a ha => h a (by simpa [Fun.vars] using ha))
  | count as => exact all_congr_B isBin01 B B' as (fun a ha => h a (by simpa [Fun.vars] using ha))
  | not a => simp only [argTyped, h a (by simp [Fun.vars])]
  | ifthen c t e => simp only [argTyped, h c (by simp [Fun.vars])]
  | _ => rfl

/-- the flattening invariant: exactly what the structural part of `ConvOut.checks` tests -/
structure Inv (n0 : Nat) (B0 : Bnds) (S : FS) : Prop where
  wf : WF n0 S.defs
  lt : ∀ d ∈ S.defs, d.res < S.next
  ge : n0 ≤ S.next
  defd : ∀ v, n0 ≤ v → v < S.next → ∃ d ∈ S.defs, d.res = v
  b0 : ∀ v, v < n0 → S.B v = B0 v
  typed : ∀ d ∈ S.defs, typedDef S.B d = true

theorem mkDef_inv (n0 : Nat) (B0 : Bnds) (f : Fun) (S : FS) (hI : Inv n0 B0 S)
    (hv : ∀ v ∈ f.vars, v < S.next) (hfr : f.inFrag = true) (hat : argTyped S.B f = true) :
    Inv n0 B0 (mkDef f S).2 ∧ (mkDef f S).1 < (mkDef f S).2.next ∧ S.next ≤ (mkDef f S).2.next ∧
    (∀ v, v < S.next → (mkDef f S).2.B v = S.B v) ∧ (mkDef f S).2.B (mkDef f S).1 = resBnd S.B f := by
  unfold mkDef
  cases h : S.defs.find? (fun d => decide (d.f = f)) with
  | some d =>
    dsimp only
    have hd : d ∈ S.defs := List.mem_of_find?_eq_some h
    have hf : d.f = f := by simpa using List.find?_some h
    refine ⟨hI, hI.lt d hd, Nat.le_refl _, fun _ _ => rfl, ?_⟩
    have := hI.typed d hd
    rw [typedDef_eq] at this
    simp only [Bool.and_eq_true, decide_eq_true_eq] at this
    rw [this.1.1, hf]
  | none =>
    dsimp only
    have hBs : ∀ v, v < S.next → setB S.B S.next (resBnd S.B f) v = S.B v := by
      intro v hv'; have : v ≠ S.next := Nat.ne_of_lt hv'; simp [setB, this]
    refine ⟨⟨?_, ?_, ?_, ?_, ?_, ?_⟩, Nat.lt_succ_self _, Nat.le_succ _, hBs, by simp [setB]⟩
    · exact WF_append n0 S.next S.defs .none f hI.wf hI.lt hI.ge hv
    · intro d hd
      simp only [List.mem_append, List.mem_singleton] at hd
      rcases hd with hd | hd
      · exact Nat.lt_succ_of_lt (hI.lt d hd)
      · subst hd; exact Nat.lt_succ_self _
    · exact Nat.le_succ_of_le hI.ge
    · intro v h1 h2
      by_cases hvn : v = S.next
      · exact ⟨⟨S.next, .none, f⟩, by simp, hvn.symm⟩
      · have h2' : v < S.next + 1 := h2
        obtain ⟨d, hd, hr⟩ := hI.defd v h1 (by omega)
        exact ⟨d, by simp [hd], hr⟩
    · intro v hv'
      show setB S.B S.next (resBnd S.B f) v = B0 v
      rw [hBs v (Nat.lt_of_lt_of_le hv' hI.ge)]; exact hI.b0 v hv'
    · intro d hd
      simp only [List.mem_append, List.mem_singleton] at hd
      rcases hd with hd | hd
      · have hres := hI.lt d hd
        have hvars := wf_vars_lt n0 S.defs hI.wf d hd
        rw [typedDef_congr S.B _ d (hBs d.res hres) (fun v hv' => hBs v (Nat.lt_trans (hvars v hv') hres))]
        exact hI.typed d hd
      · subst hd
        rw [typedDef_eq]
        simp only [Bool.and_eq_true, decide_eq_true_eq]
        refine ⟨⟨?_, hfr⟩, ?_⟩
        · rw [resBnd_congr S.B _ f (fun v hv' => hBs v (hv v hv'))]; simp [setB]
        · rw [argTyped_congr S.B _ f (fun v hv' => hBs v (hv v hv'))]; exact hat

theorem aff2var_inv (n0 : Nat) (B0 : Bnds) (p : Lin × Rat) (S : FS) (hI : Inv n0 B0 S) (hp : ∀ q ∈ p.1, q.2 < S.next) :
    Inv n0 B0 (aff2var p S).2 ∧ (aff2var p S).1 < (aff2var p S).2.next ∧ S.next ≤ (aff2var p S).2.next ∧
    (∀ v, v < S.next → (aff2var p S).2.B v = S.B v) := by
  have hmk : ∀ l : Lin, (∀ q ∈ l, q.2 < S.next) →
      Inv n0 B0 (mkDef (.affine l p.2) S).2 ∧ (mkDef (.affine l p.2) S).1 < (mkDef (.affine l p.2) S).2.next ∧
      S.next ≤ (mkDef (.affine l p.2) S).2.next ∧ (∀ v, v < S.next → (mkDef (.affine l p.2) S).2.B v = S.B v) := by
    intro l hl
    have := mkDef_inv n0 B0 (.affine l p.2) S hI
      (fun v hv => by simp only [Fun.vars, List.mem_map] at hv; obtain ⟨q, hq, rfl⟩ := hv; exact hl q hq) rfl rfl
    exact ⟨this.1, this.2.1, this.2.2.1, this.2.2.2.1⟩
  unfold aff2var aff2varL
  split
  · rename_i c v hl
    split
    · exact ⟨hI, hp (c, v) (by rw [hl]; simp), Nat.le_refl _, fun _ _ => rfl⟩
    · exact hmk _ (fun q hq => hp q (by rw [hl]; exact hq))
  · exact hmk _ hp

end MpVerif.C01

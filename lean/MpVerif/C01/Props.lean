import MpVerif.C01.Lemmas
import MpVerif.C01.ModelCompose
/-!
# C01 — property theorems (gadgets, context propagation)

Shape of a gadget theorem.  A conversion step performed when `n` variables exist produces
`o : Out`.  `Exact o n D P` says, for the relation `P` the step has to implement
(`P x := rel ctx (x res) (f.val x)`: the stored context's reading of `res = f(args)`), on the
domain `D` (argument variables of logical constraints are 0/1, values respect the bounds used):

* soundness    — every assignment `y` of *all* variables (auxiliaries included, auxiliaries in their
                 declared domains) that satisfies every emitted constraint satisfies `P y`;
* completeness — every `x` with `P x` can be extended by values for the auxiliary variables
                 (`x'` agreeing with `x` below `n`) so that all emitted constraints hold.

Since `P` only reads variables below `n`, the two together are: `P x ↔ ∃ aux, emitted constraints hold`.
-/
namespace MpVerif.C01

def Exact (o : Out) (n : Nat) (D P : Asg → Prop) : Prop :=
  (∀ y, D y → auxOk n y o.vars → (∀ c ∈ o.cons, c.sat y) → P y) ∧
  (∀ x, D x → P x → o.realizable n x)

theorem rel_iff (c : Ctx) (r v : Rat) :
    rel c r v ↔ (c.eff.hasPos = true → r ≤ v) ∧ (c.eff.hasNeg = true → v ≤ r) := by
  cases c <;> simp [rel, req, Ctx.eff, Ctx.hasPos, Ctx.hasNeg] <;> grind

theorem neg_skip {ctx : Ctx} {B : Bnds} {x : Asg} {res : Var}
    (h1 : ctx.eff.hasNeg = true) (h2 : needNeg ctx true (B res) = false) (hd : inDom B x res) :
    1 ≤ x res := by
  simp only [needNeg, h1, Bool.true_and, if_true] at h2
  unfold optLT at h2
  cases hl : (B res).lb with
  | none => simp [hl] at h2
  | some l =>
    simp [hl] at h2
    have := hd.1 l hl
    grind

theorem pos_skip {ctx : Ctx} {B : Bnds} {x : Asg} {res : Var}
    (h1 : ctx.eff.hasPos = true) (h2 : needPos ctx true (B res) = false) (hd : inDom B x res) :
    x res ≤ 0 := by
  simp only [needPos, h1, Bool.true_and, if_true] at h2
  unfold optGT at h2
  cases hl : (B res).ub with
  | none => simp [hl] at h2
  | some l =>
    simp [hl] at h2
    have := hd.2.1 l hl
    grind

theorem realizable_self {o : Out} {n : Nat} {x : Asg} (hv : o.vars = []) (h : ∀ c ∈ o.cons, c.sat x) :
    o.realizable n x := ⟨x, fun _ _ => rfl, by simp [hv, auxOk], h⟩

/-! ## abs -/

theorem C01_gadget_abs (res arg : Var) (ctx : Ctx) (B : Bnds) (n : Nat) (hr : res < n) (ha : arg < n) :
    Exact (gAbs res arg ctx B n) n (fun _ => True)
      (fun x => rel ctx (x res) (Fun.val x (.abs arg))) := by
  constructor
  · intro y _ haux hc
    cases ctx <;>
      simp [gAbs, dispatch, needNeg, needPos, Ctx.eff, Ctx.hasNeg, Ctx.hasPos, absNeg, absPos, auxOk,
        Con.sat, Cmp.holds, rel, req, Fun.val] at hc haux ⊢ <;>
      (try have hb := binary_admits haux) <;> grind
  · intro x _ h
    refine ⟨fun v => if v = n then (if x arg ≤ 0 then 1 else 0) else x v, ?_, ?_, ?_⟩
    · intro v hv; simp [Nat.ne_of_lt hv]
    · cases ctx <;>
        simp [gAbs, dispatch, needNeg, needPos, Ctx.eff, Ctx.hasNeg, Ctx.hasPos, absNeg, absPos, auxOk] <;>
        (apply admits_binary_of; split <;> simp)
    · have e1 : res ≠ n := Nat.ne_of_lt hr
      have e2 : arg ≠ n := Nat.ne_of_lt ha
      cases ctx <;>
        simp [gAbs, dispatch, needNeg, needPos, Ctx.eff, Ctx.hasNeg, Ctx.hasPos, absNeg, absPos,
          Con.sat, Cmp.holds, rel, req, Fun.val, e1, e2] at h ⊢ <;> grind

/-! ## and / or -/

def binDom (B : Bnds) (res : Var) (args : List Var) (x : Asg) : Prop :=
  (x res = 0 ∨ x res = 1) ∧ (∀ a ∈ args, x a = 0 ∨ x a = 1) ∧ inDom B x res

theorem and_pos_core (x : Asg) (res : Var) (args : List Var)
    (hr : x res = 0 ∨ x res = 1) (ha : ∀ a ∈ args, x a = 0 ∨ x a = 1) :
    (∀ a ∈ args, -1 * x a + (1 * x res + 0) ≤ 0) ↔ x res ≤ Fun.val x (.and args) := by
  simp only [Fun.val, b2r]
  constructor
  · intro h
    split
    · rcases hr with h0 | h0 <;> rw [h0] <;> grind
    · rename_i hall
      simp only [Bool.not_eq_true] at hall
      have : ∃ a ∈ args, x a ≠ 1 := by
        simpa [List.all_eq_false] using hall
      obtain ⟨a, ham, hne⟩ := this
      have h1 := h a ham
      rcases ha a ham with h0 | h0
      · rw [h0] at h1; grind
      · exact absurd h0 hne
  · intro h a ham
    split at h
    · rename_i hall
      have : x a = 1 := by
        have := List.all_eq_true.mp hall a ham
        simpa using this
      rw [this]; rcases hr with h0 | h0 <;> rw [h0] <;> grind
    · have : x res = 0 := by rcases hr with h0 | h0 <;> grind
      rw [this]; rcases ha a ham with h0 | h0 <;> rw [h0] <;> grind

theorem and_neg_core (x : Asg) (res : Var) (args : List Var)
    (hr : x res = 0 ∨ x res = 1) (ha : ∀ a ∈ args, x a = 0 ∨ x a = 1) :
    evalLin x (ones args ++ [(-1, res)]) ≤ (args.length : Rat) - 1 ↔ Fun.val x (.and args) ≤ x res := by
  simp only [Fun.val, b2r, evalLin_append, evalLin_cons, evalLin_nil]
  cases hall : args.all (fun a => x a == 1)
  · have := sum_bin_notall x args ha hall
    simp only [Bool.false_eq_true, if_false]
    rcases hr with h0 | h0 <;> rw [h0] <;> grind
  · have := sum_bin_all x args hall
    simp only [if_true]
    rcases hr with h0 | h0 <;> rw [h0] <;> grind

theorem C01_gadget_and (res : Var) (args : List Var) (ctx : Ctx) (B : Bnds) (n : Nat) :
    Exact (gAnd res args ctx B n) n (binDom B res args)
      (fun x => rel ctx (x res) (Fun.val x (.and args))) := by
  have key : ∀ x, binDom B res args x →
      ((∀ c ∈ (gAnd res args ctx B n).cons, c.sat x) ↔ rel ctx (x res) (Fun.val x (.and args))) := by
    intro x ⟨hr, ha, hd⟩
    have cP := and_pos_core x res args hr ha
    have cN := and_neg_core x res args hr ha
    have hv01 : Fun.val x (.and args) = 0 ∨ Fun.val x (.and args) = 1 := by
      simp only [Fun.val, b2r]; split <;> simp
    rw [rel_iff]
    by_cases hN : needNeg ctx true (B res) = true <;> by_cases hP : needPos ctx true (B res) = true <;>
      simp only [gAnd, dispatch, hN, hP, if_true, if_false, andNeg, andPos, List.append_nil, List.nil_append,
        Bool.false_eq_true, List.mem_append, List.mem_map, List.mem_singleton, List.not_mem_nil,
        Bool.or_self] <;>
      (try simp only [Bool.not_eq_true] at hN hP)
    · constructor
      · intro h
        refine ⟨fun _ => cP.mp ?_, fun _ => cN.mp ?_⟩
        · intro a ham; simpa [Con.sat, Cmp.holds] using h _ (Or.inr ⟨a, ham, rfl⟩)
        · simpa [Con.sat, Cmp.holds] using h _ (Or.inl rfl)
      · intro ⟨h1, h2⟩ c hc
        have e1 : ctx.eff.hasPos = true := by simp [needPos] at hP; exact hP.1
        have e2 : ctx.eff.hasNeg = true := by simp [needNeg] at hN; exact hN.1
        rcases hc with hc | ⟨a, ham, hc⟩
        · subst hc; simpa [Con.sat, Cmp.holds] using cN.mpr (h2 e2)
        · subst hc; simpa [Con.sat, Cmp.holds] using cP.mpr (h1 e1) a ham
    · constructor
      · intro h
        refine ⟨fun e1 => ?_, fun _ => cN.mp ?_⟩
        · have := pos_skip e1 hP hd; grind
        · simpa [Con.sat, Cmp.holds] using h _ rfl
      · intro ⟨h1, h2⟩ c hc
        have e2 : ctx.eff.hasNeg = true := by simp [needNeg] at hN; exact hN.1
        subst hc; simpa [Con.sat, Cmp.holds] using cN.mpr (h2 e2)
    · constructor
      · intro h
        refine ⟨fun _ => cP.mp ?_, fun e2 => ?_⟩
        · intro a ham; simpa [Con.sat, Cmp.holds] using h _ ⟨a, ham, rfl⟩
        · have := neg_skip e2 hN hd; grind
      · intro ⟨h1, h2⟩ c hc
        have e1 : ctx.eff.hasPos = true := by simp [needPos] at hP; exact hP.1
        obtain ⟨a, ham, hc⟩ := hc
        subst hc; simpa [Con.sat, Cmp.holds] using cP.mpr (h1 e1) a ham
    · constructor
      · intro _
        refine ⟨fun e1 => ?_, fun e2 => ?_⟩
        · have := pos_skip e1 hP hd; grind
        · have := neg_skip e2 hN hd; grind
      · intro _ c hc; exact absurd hc (by simp)
  have hvars : (gAnd res args ctx B n).vars = [] := by
    by_cases hN : needNeg ctx true (B res) = true <;> by_cases hP : needPos ctx true (B res) = true <;>
      simp [gAnd, dispatch, hN, hP, andNeg, andPos]
  constructor
  · intro y hD _ hc; exact (key y hD).mp hc
  · intro x hD hP; exact realizable_self hvars ((key x hD).mpr hP)


/-- generic part of `BasicFuncConstrCvt::Convert` for logical constraints whose two directions create
no auxiliary variables: the emitted constraints hold iff the context's reading of `res = v` holds -/
theorem dispatch_noaux (ctx : Ctx) (B : Bnds) (res : Var) (n : Nat) (oN oP : Out)
    (hN0 : oN.refusal = none) (hP0 : oP.refusal = none) (x : Asg) (hd : inDom B x res)
    (v : Rat) (hv : v = 0 ∨ v = 1) (hr : x res = 0 ∨ x res = 1)
    (cN : (∀ c ∈ oN.cons, c.sat x) ↔ v ≤ x res) (cP : (∀ c ∈ oP.cons, c.sat x) ↔ x res ≤ v) :
    ((∀ c ∈ (dispatch ctx true (B res) n (fun _ => oN) (fun _ => oP)).cons, c.sat x) ↔ rel ctx (x res) v) := by
  rw [rel_iff]
  by_cases hN : needNeg ctx true (B res) = true <;> by_cases hP : needPos ctx true (B res) = true <;>
    simp only [dispatch, hN, hP, if_true, if_false, hN0, hP0, List.append_nil, List.nil_append,
      Bool.false_eq_true, List.mem_append, List.not_mem_nil] <;>
    (try simp only [Bool.not_eq_true] at hN hP)
  · have e1 : ctx.eff.hasPos = true := by simp [needPos] at hP; exact hP.1
    have e2 : ctx.eff.hasNeg = true := by simp [needNeg] at hN; exact hN.1
    constructor
    · intro h
      exact ⟨fun _ => cP.mp (fun c hc => h c (Or.inr hc)), fun _ => cN.mp (fun c hc => h c (Or.inl hc))⟩
    · intro ⟨h1, h2⟩ c hc
      rcases hc with hc | hc
      · exact cN.mpr (h2 e2) c hc
      · exact cP.mpr (h1 e1) c hc
  · have e2 : ctx.eff.hasNeg = true := by simp [needNeg] at hN; exact hN.1
    constructor
    · intro h
      refine ⟨fun e1 => ?_, fun _ => cN.mp h⟩
      have := pos_skip e1 hP hd; grind
    · intro ⟨_, h2⟩; exact cN.mpr (h2 e2)
  · have e1 : ctx.eff.hasPos = true := by simp [needPos] at hP; exact hP.1
    constructor
    · intro h
      refine ⟨fun _ => cP.mp h, fun e2 => ?_⟩
      have := neg_skip e2 hN hd; grind
    · intro ⟨h1, _⟩; exact cP.mpr (h1 e1)
  · constructor
    · intro _
      refine ⟨fun e1 => ?_, fun e2 => ?_⟩
      · have := pos_skip e1 hP hd; grind
      · have := neg_skip e2 hN hd; grind
    · intro _ c hc; exact absurd hc (by simp)

theorem dispatch_noaux_vars (ctx : Ctx) (logical : Bool) (rv : VarInfo) (n : Nat) (oN oP : Out)
    (hN0 : oN.refusal = none) (hP0 : oP.refusal = none) (hNv : oN.vars = []) (hPv : oP.vars = []) :
    (dispatch ctx logical rv n (fun _ => oN) (fun _ => oP)).vars = [] := by
  by_cases hN : needNeg ctx logical rv = true <;> by_cases hP : needPos ctx logical rv = true <;>
    simp [dispatch, hN, hP, hN0, hP0, hNv, hPv]

theorem or_pos_core (x : Asg) (res : Var) (args : List Var)
    (hr : x res = 0 ∨ x res = 1) (ha : ∀ a ∈ args, x a = 0 ∨ x a = 1) :
    0 ≤ evalLin x (ones args ++ [(-1, res)]) ↔ x res ≤ Fun.val x (.or args) := by
  simp only [Fun.val, b2r, evalLin_append, evalLin_cons, evalLin_nil]
  cases hany : args.any (fun a => x a == 1)
  · have := sum_bin_none x args ha hany
    simp only [Bool.false_eq_true, if_false]
    rcases hr with h0 | h0 <;> rw [h0] <;> grind
  · have := sum_bin_any x args ha hany
    have := sum_bin_bounds x args ha
    simp only [if_true]
    rcases hr with h0 | h0 <;> rw [h0] <;> grind

theorem or_neg_core (x : Asg) (res : Var) (args : List Var)
    (hr : x res = 0 ∨ x res = 1) (ha : ∀ a ∈ args, x a = 0 ∨ x a = 1) :
    (∀ a ∈ args, 1 * x a + (-1 * x res + 0) ≤ 0) ↔ Fun.val x (.or args) ≤ x res := by
  simp only [Fun.val, b2r]
  constructor
  · intro h
    split
    · rename_i hany
      obtain ⟨a, ham, h1⟩ := List.any_eq_true.mp hany
      have h1' : x a = 1 := by simpa using h1
      have := h a ham
      rw [h1'] at this; grind
    · rcases hr with h0 | h0 <;> rw [h0] <;> grind
  · intro h a ham
    split at h
    · have : x res = 1 := by rcases hr with h0 | h0 <;> grind
      rw [this]; rcases ha a ham with h0 | h0 <;> rw [h0] <;> grind
    · rename_i hany
      have : x a ≠ 1 := by
        intro h1
        apply hany
        exact List.any_eq_true.mpr ⟨a, ham, by simp [h1]⟩
      rcases ha a ham with h0 | h0
      · rw [h0]; rcases hr with h0 | h0 <;> rw [h0] <;> grind
      · exact absurd h0 this

theorem C01_gadget_or (res : Var) (args : List Var) (ctx : Ctx) (B : Bnds) (n : Nat) :
    Exact (gOr res args ctx B n) n (binDom B res args)
      (fun x => rel ctx (x res) (Fun.val x (.or args))) := by
  have key : ∀ x, binDom B res args x →
      ((∀ c ∈ (gOr res args ctx B n).cons, c.sat x) ↔ rel ctx (x res) (Fun.val x (.or args))) := by
    intro x ⟨hr, ha, hd⟩
    have hv01 : Fun.val x (.or args) = 0 ∨ Fun.val x (.or args) = 1 := by
      simp only [Fun.val, b2r]; split <;> simp
    apply dispatch_noaux ctx B res n (orNeg res args) (orPos res args) rfl rfl x hd _ hv01 hr
    · rw [← or_neg_core x res args hr ha]
      simp [orNeg, Con.sat, Cmp.holds]
    · rw [← or_pos_core x res args hr ha]
      simp [orPos, Con.sat, Cmp.holds]
  have hvars : (gOr res args ctx B n).vars = [] :=
    dispatch_noaux_vars ctx true (B res) n _ _ rfl rfl rfl rfl
  constructor
  · intro y hD _ hc; exact (key y hD).mp hc
  · intro x hD hP; exact realizable_self hvars ((key x hD).mpr hP)


/-! ## fresh result variable of an affine expression -/

theorem affBnd_admits (B : Bnds) (x : Asg) (body : Lin) (c : Rat) (h : ∀ p ∈ body, inDom B x p.2)
    (hc : isIntQ c = true → isIntVal c) :
    (affBnd B body c).admits (evalLin x body + c) := by
  have hs := linBnd_sound B x body h
  refine ⟨?_, ?_, ?_⟩
  · intro l hl
    simp only [affBnd] at hl
    cases h1 : (linBnd B body).1 with
    | none => simp [h1] at hl
    | some lo => simp [h1] at hl; have := hs.1 lo h1; grind
  · intro u hu
    simp only [affBnd] at hu
    cases h1 : (linBnd B body).2.1 with
    | none => simp [h1] at hu
    | some up => simp [h1] at hu; have := hs.2 up h1; grind
  · intro hi
    simp only [affBnd, Bool.and_eq_true] at hi
    exact isIntVal_add (linBnd_int B x body h hi.1) (hc hi.2)

theorem isIntQ_sound (c : Rat) (h : isIntQ c = true) : isIntVal c := by
  have hden : c.den = 1 := by simpa [isIntQ] using h
  refine ⟨c.num, ?_⟩
  have := Rat.mkRat_self c
  rw [hden] at this
  rw [← this]
  simp [Rat.mkRat_one]

/-! ## not (full reification whatever the context) -/

theorem C01_gadget_not (res arg : Var) (B : Bnds) (n : Nat) (hr : res < n) (ha : arg < n) :
    Exact (gNot res arg B n) n (fun x => inDom B x arg)
      (fun x => x res = Fun.val x (.not arg)) := by
  constructor
  · intro y _ _ hc
    simp [gNot, newAffine, Con.sat, Cmp.holds, rel, req, Ctx.eff, Fun.val] at hc ⊢
    grind
  · intro x hd h
    refine ⟨fun v => if v = n then 1 - x arg else x v, ?_, ?_, ?_⟩
    · intro v hv; simp [Nat.ne_of_lt hv]
    · simp only [gNot, newAffine, auxOk, and_true, if_true]
      have := affBnd_admits B x [(-1, arg)] 1 (by intro p hp; simp at hp; subst hp; exact hd) (fun _ => isIntVal_one)
      simp only [evalLin_cons, evalLin_nil] at this
      have e : -1 * x arg + 0 + 1 = 1 - x arg := by grind
      rw [e] at this; exact this
    · have e1 : res ≠ n := Nat.ne_of_lt hr
      have e2 : arg ≠ n := Nat.ne_of_lt ha
      simp [gNot, newAffine, Con.sat, Cmp.holds, rel, req, Ctx.eff, Fun.val, e1, e2] at h ⊢
      grind

/-- the reification is at least as strong as any context asks for -/
theorem C01_mix_implies_ctx (ctx : Ctx) (r v : Rat) (h : r = v) : rel ctx r v := by
  cases ctx <;> simp [rel, req, Ctx.eff] <;> grind

/-! ## if-then-else (full reification whatever the context) -/

theorem fixed_val {B : Bnds} {x : Asg} {v : Var} (hf : (B v).isFixed = true) (hd : inDom B x v) :
    x v = (B v).fixedVal := by
  unfold VarInfo.isFixed at hf
  cases hl : (B v).lb with
  | none => simp [hl] at hf
  | some l =>
    cases hu : (B v).ub with
    | none => simp [hl, hu] at hf
    | some u =>
      simp [hl, hu] at hf
      have h1 := hd.1 l hl
      have h2 := hd.2.1 u hu
      simp [VarInfo.fixedVal, hl]; grind

theorem C01_gadget_ifthen (res c t e : Var) (B : Bnds) (n : Nat)
    (hr : res < n) (hc : c < n) (ht : t < n) (he : e < n) :
    Exact (gIfThen res c t e B n) n
      (fun x => (x c = 0 ∨ x c = 1) ∧ inDom B x c ∧ inDom B x t ∧ inDom B x e)
      (fun x => x res = Fun.val x (.ifthen c t e)) := by
  by_cases hfix : (!(B t).isFixed || !(B e).isFixed) = true
  · constructor
    · intro y ⟨hb, _⟩ _ hcs
      simp [gIfThen, hfix, Con.sat, Cmp.holds, Fun.val] at hcs ⊢
      rcases hb with h0 | h0 <;> simp [h0] at hcs ⊢ <;> grind
    · intro x ⟨hb, _⟩ h
      apply realizable_self
      · simp [gIfThen, hfix]
      · simp [gIfThen, hfix, Con.sat, Cmp.holds, Fun.val] at h ⊢
        rcases hb with h0 | h0 <;> simp [h0] at h ⊢ <;> grind
  · have hft : (B t).isFixed = true := by
      cases h1 : (B t).isFixed <;> simp [h1] at hfix ⊢
    have hfe : (B e).isFixed = true := by
      cases h1 : (B e).isFixed <;> cases h2 : (B t).isFixed <;> simp [h1, h2] at hfix ⊢
    constructor
    · intro y ⟨hb, _, hdt, hde⟩ _ hcs
      have vt := fixed_val hft hdt
      have ve := fixed_val hfe hde
      simp [gIfThen, hfix, newAffine, Con.sat, Cmp.holds, Fun.val, rel, req, Ctx.eff] at hcs ⊢
      rcases hb with h0 | h0 <;> simp [h0] at hcs ⊢ <;> grind
    · intro x ⟨hb, hdc, hdt, hde⟩ h
      have vt := fixed_val hft hdt
      have ve := fixed_val hfe hde
      refine ⟨fun v => if v = n then ((B t).fixedVal - (B e).fixedVal) * x c + (B e).fixedVal else x v, ?_, ?_, ?_⟩
      · intro v hv; simp [Nat.ne_of_lt hv]
      · simp only [gIfThen, hfix, newAffine, auxOk, and_true, if_true, Bool.false_eq_true, if_false]
        have := affBnd_admits B x [((B t).fixedVal - (B e).fixedVal, c)] (B e).fixedVal
          (by intro p hp; simp at hp; subst hp; exact hdc) (isIntQ_sound _)
        simp only [evalLin_cons, evalLin_nil] at this
        have e0 : ((B t).fixedVal - (B e).fixedVal) * x c + 0 + (B e).fixedVal
            = ((B t).fixedVal - (B e).fixedVal) * x c + (B e).fixedVal := by grind
        rw [e0] at this; exact this
      · have e1 : res ≠ n := Nat.ne_of_lt hr
        have e2 : c ≠ n := Nat.ne_of_lt hc
        simp [gIfThen, hfix, newAffine, Con.sat, Cmp.holds, Fun.val, rel, req, Ctx.eff, e1, e2] at h ⊢
        rcases hb with h0 | h0 <;> simp [h0] at h ⊢ <;> grind

/-! ## LFC / QFC to algebraic constraints, division by a constant, range constraints -/

theorem C01_gadget_lfc (res : Var) (body : Lin) (c : Rat) (n : Nat) :
    Exact (gLFC res body c) n (fun _ => True) (fun x => x res = Fun.val x (.affine body c)) := by
  have key : ∀ x : Asg, (∀ k ∈ (gLFC res body c).cons, k.sat x) ↔ x res = Fun.val x (.affine body c) := by
    intro x
    simp [gLFC, Con.sat, Cmp.holds, Fun.val, evalLin_append]; grind
  exact ⟨fun y _ _ h => (key y).mp h, fun x _ h => realizable_self rfl ((key x).mpr h)⟩

theorem C01_gadget_qfc (res : Var) (lin : Lin) (q : Quad) (c : Rat) (ctx : Ctx) (n : Nat) :
    Exact (gQFC res lin q c ctx) n (fun _ => True)
      (fun x => rel ctx (x res) (Fun.val x (.quadratic lin q c))) := by
  have key : ∀ x : Asg, (∀ k ∈ (gQFC res lin q c ctx).cons, k.sat x) ↔
      rel ctx (x res) (Fun.val x (.quadratic lin q c)) := by
    intro x
    cases ctx <;> simp [gQFC, Ctx.eff, Con.sat, Cmp.holds, Fun.val, evalLin_append, rel, req] <;> grind
  have hv : (gQFC res lin q c ctx).vars = [] := by cases ctx <;> rfl
  exact ⟨fun y _ _ h => (key y).mp h, fun x _ h => realizable_self hv ((key x).mpr h)⟩

theorem C01_gadget_div_const (res a b : Var) (B : Bnds) (n : Nat) (hf : (B b).isFixed = true)
    (hnz : (B b).fixedVal ≠ 0) :
    Exact (gDivConst res a b B) n (fun x => inDom B x b) (fun x => x res = Fun.val x (.div a b)) := by
  have key : ∀ x : Asg, inDom B x b → ((∀ k ∈ (gDivConst res a b B).cons, k.sat x) ↔ x res = Fun.val x (.div a b)) := by
    intro x hd
    have vb := fixed_val hf hd
    simp only [gDivConst, hf, if_true, List.mem_singleton, forall_eq, Con.sat, Cmp.holds, Fun.val,
      evalLin_cons, evalLin_nil, vb]
    constructor
    · intro h
      have : (B b).fixedVal * x res = x a := by grind
      rw [← this, Rat.mul_comm, Rat.mul_div_cancel hnz]
    · intro h
      rw [h, Rat.mul_comm, Rat.div_mul_cancel hnz]; grind
  have hv : (gDivConst res a b B).vars = [] := by simp [gDivConst, hf]
  exact ⟨fun y hd _ h => (key y hd).mp h, fun x hd h => realizable_self hv ((key x hd).mpr h)⟩

/-- range constraint `lb ≤ body ≤ ub`: slack form for proper ranges, one-sided / equality otherwise -/
theorem C01_gadget_range_lin (body : Lin) (lb ub : Option Rat) (n : Nat) (hb : ∀ p ∈ body, p.2 < n) :
    Exact (gRangeLin body lb ub n) n (fun _ => True) (fun x => inRange lb ub (evalLin x body)) := by
  cases lb with
  | none =>
    cases ub with
    | none => exact ⟨fun y _ _ _ => by simp [inRange], fun x _ _ => realizable_self rfl (by simp [gRangeLin])⟩
    | some u =>
      have key : ∀ x : Asg, (∀ k ∈ (gRangeLin body none (some u) n).cons, k.sat x) ↔ inRange none (some u) (evalLin x body) := by
        intro x; simp [gRangeLin, Con.sat, Cmp.holds, inRange]
      exact ⟨fun y _ _ h => (key y).mp h, fun x _ h => realizable_self rfl ((key x).mpr h)⟩
  | some l =>
    cases ub with
    | none =>
      have key : ∀ x : Asg, (∀ k ∈ (gRangeLin body (some l) none n).cons, k.sat x) ↔ inRange (some l) none (evalLin x body) := by
        intro x; simp [gRangeLin, Con.sat, Cmp.holds, inRange]
      exact ⟨fun y _ _ h => (key y).mp h, fun x _ h => realizable_self rfl ((key x).mpr h)⟩
    | some u =>
      by_cases hlu : l = u
      · subst hlu
        have key : ∀ x : Asg, (∀ k ∈ (gRangeLin body (some l) (some l) n).cons, k.sat x) ↔ inRange (some l) (some l) (evalLin x body) := by
          intro x
          have e : (l + l) / 2 = l := by grind
          simp [gRangeLin, Con.sat, Cmp.holds, inRange, e]; grind
        have hv : (gRangeLin body (some l) (some l) n).vars = [] := by simp [gRangeLin]
        exact ⟨fun y _ _ h => (key y).mp h, fun x _ h => realizable_self hv ((key x).mpr h)⟩
      · have hne : (l != u) = true := by simp [hlu]
        constructor
        · intro y _ haux hc
          simp [gRangeLin, hne, auxOk, VarInfo.admits, Con.sat, Cmp.holds, evalLin_append] at haux hc
          simp [inRange]; grind
        · intro x _ h
          refine ⟨fun v => if v = n then u - evalLin x body else x v, ?_, ?_, ?_⟩
          · intro v hv; simp [Nat.ne_of_lt hv]
          · simp [inRange] at h
            simp [gRangeLin, hne, auxOk, VarInfo.admits]; grind
          · have hag : agree n x (fun v => if v = n then u - evalLin x body else x v) := by
              intro v hv; simp [Nat.ne_of_lt hv]
            have := evalLin_agree hag hb
            simp [gRangeLin, hne, Con.sat, Cmp.holds, evalLin_append, this]; grind


/-! ## indicator constraints: big-M linearisation -/

theorem implLE_core (b : Var) (val : Nat) (body : Lin) (rhs : Rat) (o : Opts) (ub : Option Rat) (U : Rat) (x : Asg)
    (hU : bigMUpper ub o = some U) (hval : val = 0 ∨ val = 1) (hb : x b = 0 ∨ x b = 1)
    (hle : evalLin x body ≤ U) :
    (∀ c ∈ (implLE b val ub body rhs o).cons, c.sat x) ↔ (x b = (val : Rat) → evalLin x body ≤ rhs) := by
  simp only [implLE, hU]
  by_cases h : U = rhs
  · subst h; simp; intro _; exact hle
  · have hne : (U != rhs) = true := by simp [h]
    rcases hval with hv | hv <;> subst hv <;>
      simp [hne, Con.sat, Cmp.holds, evalLin_append] <;>
      rcases hb with h0 | h0 <;> rw [h0] <;> grind

theorem implGE_core (b : Var) (val : Nat) (body : Lin) (rhs : Rat) (o : Opts) (lb : Option Rat) (L : Rat) (x : Asg)
    (hL : bigMLower lb o = some L) (hval : val = 0 ∨ val = 1) (hb : x b = 0 ∨ x b = 1)
    (hge : L ≤ evalLin x body) :
    (∀ c ∈ (implGE b val lb body rhs o).cons, c.sat x) ↔ (x b = (val : Rat) → rhs ≤ evalLin x body) := by
  simp only [implGE, hL]
  by_cases h : L = rhs
  · subst h; simp; intro _; exact hge
  · have hne : (L != rhs) = true := by simp [h]
    rcases hval with hv | hv <;> subst hv <;>
      simp [hne, Con.sat, Cmp.holds, evalLin_append] <;>
      rcases hb with h0 | h0 <;> rw [h0] <;> grind

/-- the big-M comes from the variable bounds (not from the `cvt:bigM` fallback) -/
def bigMFromBounds (ub : Option Rat) (U : Rat) : Prop := ub = some U ∧ U < pracInf

theorem bigMUpper_of_bounds {ub : Option Rat} {U : Rat} (o : Opts) (h : bigMFromBounds ub U) :
    bigMUpper ub o = some U := by
  obtain ⟨h1, h2⟩ := h
  subst h1
  have : ¬ pracInf ≤ U := by grind
  simp [bigMUpper, this]

theorem bigMLower_of_bounds {lb : Option Rat} {L : Rat} (o : Opts) (h1 : lb = some L) (h2 : -pracInf < L) :
    bigMLower lb o = some L := by
  subst h1
  have : ¬ L ≤ -pracInf := by grind
  simp [bigMLower, this]

def indDom (B : Bnds) (b : Var) (body : Lin) (x : Asg) : Prop :=
  (x b = 0 ∨ x b = 1) ∧ ∀ p ∈ body, inDom B x p.2

theorem C01_gadget_indicator_le (b : Var) (val : Nat) (body : Lin) (rhs : Rat) (B : Bnds) (o : Opts) (n : Nat)
    (U : Rat) (hU : bigMFromBounds (linBnd B body).2.1 U) (hval : val = 0 ∨ val = 1) :
    Exact (gIndLE b val body rhs B o) n (indDom B b body)
      (fun x => x b = (val : Rat) → evalLin x body ≤ rhs) := by
  have key : ∀ x, indDom B b body x → ((∀ c ∈ (gIndLE b val body rhs B o).cons, c.sat x) ↔
      (x b = (val : Rat) → evalLin x body ≤ rhs)) := by
    intro x ⟨hb, hd⟩
    exact implLE_core b val body rhs o _ U x (bigMUpper_of_bounds o hU) hval hb
      ((linBnd_sound B x body hd).2 U hU.1)
  have hv : (gIndLE b val body rhs B o).vars = [] := by
    simp only [gIndLE, implLE, bigMUpper_of_bounds o hU]
    split <;> (try split) <;> rfl
  exact ⟨fun y hd _ h => (key y hd).mp h, fun x hd h => realizable_self hv ((key x hd).mpr h)⟩

theorem C01_gadget_indicator_ge (b : Var) (val : Nat) (body : Lin) (rhs : Rat) (B : Bnds) (o : Opts) (n : Nat)
    (L : Rat) (hL : (linBnd B body).1 = some L) (hL2 : -pracInf < L) (hval : val = 0 ∨ val = 1) :
    Exact (gIndGE b val body rhs B o) n (indDom B b body)
      (fun x => x b = (val : Rat) → rhs ≤ evalLin x body) := by
  have key : ∀ x, indDom B b body x → ((∀ c ∈ (gIndGE b val body rhs B o).cons, c.sat x) ↔
      (x b = (val : Rat) → rhs ≤ evalLin x body)) := by
    intro x ⟨hb, hd⟩
    exact implGE_core b val body rhs o _ L x (bigMLower_of_bounds o hL hL2) hval hb
      ((linBnd_sound B x body hd).1 L hL)
  have hv : (gIndGE b val body rhs B o).vars = [] := by
    simp only [gIndGE, implGE, bigMLower_of_bounds o hL hL2]
    split <;> (try split) <;> rfl
  exact ⟨fun y hd _ h => (key y hd).mp h, fun x hd h => realizable_self hv ((key x hd).mpr h)⟩

theorem C01_gadget_indicator_eq (b : Var) (val : Nat) (body : Lin) (rhs : Rat) (B : Bnds) (o : Opts) (n : Nat)
    (L U : Rat) (hU : bigMFromBounds (linBnd B body).2.1 U)
    (hL : (linBnd B body).1 = some L) (hL2 : -pracInf < L) (hval : val = 0 ∨ val = 1) :
    Exact (gIndEQ b val body rhs B o) n (indDom B b body)
      (fun x => x b = (val : Rat) → evalLin x body = rhs) := by
  have hU1 := bigMUpper_of_bounds o hU
  have hU2 : bigMUpper ((linBnd B body).1.map (- ·)) o = some (-L) := by
    apply bigMUpper_of_bounds o
    constructor
    · simp [hL]
    · grind
  have r1 : (implLE b val (linBnd B body).2.1 body rhs o).refusal = none := by
    simp only [implLE, hU1]; split <;> (try split) <;> rfl
  have r2 : (implLE b val ((linBnd B body).1.map (- ·)) (negLin body) (-rhs) o).refusal = none := by
    simp only [implLE, hU2]; split <;> (try split) <;> rfl
  have key : ∀ x, indDom B b body x → ((∀ c ∈ (gIndEQ b val body rhs B o).cons, c.sat x) ↔
      (x b = (val : Rat) → evalLin x body = rhs)) := by
    intro x ⟨hb, hd⟩
    have hs := linBnd_sound B x body hd
    have c1 := implLE_core b val body rhs o _ U x hU1 hval hb (hs.2 U hU.1)
    have c2 := implLE_core b val (negLin body) (-rhs) o _ (-L) x hU2 hval hb
      (by rw [evalLin_neg]; have := hs.1 L hL; grind)
    rw [evalLin_neg] at c2
    simp only [gIndEQ, r1, r2, List.mem_append]
    constructor
    · intro h hbv
      have a1 := c1.mp (fun c hc => h c (Or.inl hc)) hbv
      have a2 := c2.mp (fun c hc => h c (Or.inr hc)) hbv
      grind
    · intro h c hc
      rcases hc with hc | hc
      · exact c1.mpr (fun hbv => by have := h hbv; grind) c hc
      · exact c2.mpr (fun hbv => by have := h hbv; grind) c hc
  have hv : (gIndEQ b val body rhs B o).vars = [] := by simp [gIndEQ, r1, r2]
  exact ⟨fun y hd _ h => (key y hd).mp h, fun x hd h => realizable_self hv ((key x hd).mpr h)⟩

/-- `cvt:bigM` fallback ("use with caution"): exact only for points whose body value is below the
user-supplied constant — the partial statement; the full statement (no extra hypothesis) is false:
see `C01_counterexample_bigM_fallback`. -/
theorem C01_gadget_indicator_le_bigM_partial (b : Var) (val : Nat) (body : Lin) (rhs : Rat) (B : Bnds) (o : Opts)
    (n : Nat) (hinf : (linBnd B body).2.1 = none) (hM : 0 < o.bigM) (hval : val = 0 ∨ val = 1) :
    Exact (gIndLE b val body rhs B o) n (fun x => (x b = 0 ∨ x b = 1) ∧ evalLin x body ≤ o.bigM)
      (fun x => x b = (val : Rat) → evalLin x body ≤ rhs) := by
  have hU : bigMUpper (linBnd B body).2.1 o = some o.bigM := by simp [bigMUpper, hinf, hM]
  have key : ∀ x, ((x b = 0 ∨ x b = 1) ∧ evalLin x body ≤ o.bigM) →
      ((∀ c ∈ (gIndLE b val body rhs B o).cons, c.sat x) ↔ (x b = (val : Rat) → evalLin x body ≤ rhs)) := by
    intro x ⟨hb, hle⟩
    exact implLE_core b val body rhs o _ o.bigM x hU hval hb hle
  have hv : (gIndLE b val body rhs B o).vars = [] := by
    simp only [gIndLE, implLE, hU]
    split <;> (try split) <;> rfl
  exact ⟨fun y hd _ h => (key y hd).mp h, fun x hd h => realizable_self hv ((key x hd).mpr h)⟩

/-- with an unbounded body and `cvt:bigM=10` the delivered row cuts off `x0 = 20, b = 0`
although `b = 1 ⇒ x0 ≤ 3` allows it -/
theorem C01_counterexample_bigM_fallback :
    ∃ (B : Bnds) (o : Opts) (x : Asg),
      (x 1 = (1 : Nat) → evalLin x [(1, 0)] ≤ 3) ∧
      ¬ (∀ c ∈ (gIndLE 1 1 [(1, 0)] 3 B o).cons, c.sat x) := by
  refine ⟨fun _ => {}, { bigM := 10 }, fun v => if v = 0 then 20 else 0, ?_, ?_⟩
  · simp
  · have h1 : (0 : Rat) < 10 := by grind
    have h2 : ¬ ((10 : Rat) = 3) := by grind
    have e : (gIndLE 1 1 [(1, 0)] 3 (fun _ => {}) { bigM := 10 }).cons
        = [Con.linRhs .le ([(1, 0)] ++ [(10 - 3, 1)]) 10] := by
      simp [gIndLE, implLE, bigMUpper, linBnd, optAdd, optScale, h1, h2]
    rw [e]
    simp [Con.sat, Cmp.holds]
    grind

/-- refusal instead of a wrong model: infinite bound and no `cvt:bigM` -/
theorem C01_refusal_indicator_le (b : Var) (val : Nat) (body : Lin) (rhs : Rat) (B : Bnds) (o : Opts)
    (hinf : (linBnd B body).2.1 = none) (hM : o.bigM ≤ 0) :
    (gIndLE b val body rhs B o).refusal = some .indicatorInfBound ∧ (gIndLE b val body rhs B o).cons = [] := by
  have : ¬ 0 < o.bigM := by grind
  simp [gIndLE, implLE, bigMUpper, hinf, this]

theorem C01_refusal_indicator_ge (b : Var) (val : Nat) (body : Lin) (rhs : Rat) (B : Bnds) (o : Opts)
    (hinf : (linBnd B body).1 = none) (hM : o.bigM ≤ 0) :
    (gIndGE b val body rhs B o).refusal = some .indicatorInfBound ∧ (gIndGE b val body rhs B o).cons = [] := by
  have : ¬ 0 < o.bigM := by grind
  simp [gIndGE, implGE, bigMLower, hinf, this]



/-! ## context algebra -/

theorem C01_ctx_add_comm (a b : Ctx) : a.add b = b.add a := by
  cases a <;> cases b <;> rfl

theorem C01_ctx_add_assoc (a b c : Ctx) : (a.add b).add c = a.add (b.add c) := by
  cases a <;> cases b <;> cases c <;> rfl

theorem C01_ctx_add_upper (a b : Ctx) : a ≤ a.add b ∧ b ≤ a.add b := by
  cases a <;> cases b <;> decide

/-- a merged context asks for everything each merged request asks for -/
theorem C01_ctx_add_req (a b : Ctx) (r v : Rat) (h : req (a.add b) r v) : req a r v ∧ req b r v :=
  ⟨req_mono (C01_ctx_add_upper a b).1 h, req_mono (C01_ctx_add_upper a b).2 h⟩

theorem C01_ctx_flip_flip (c : Ctx) (h : c ≠ .none) : c.flip.flip = c := by
  cases c <;> simp_all [Ctx.flip]

/-! ## propagation into linear terms -/

/-- `PropagateResult2LinTerms` is sound: if every variable's value `a v` relates to the true value
`f v` as the assigned context requires, the body value relates as the parent context requires. -/
theorem C01_ctx_sound_linterms (ctx : Ctx) (body : Lin) (a f : Asg)
    (h : ∀ p ∈ propLin ctx body, req p.2 (a p.1) (f p.1)) :
    req ctx (evalLin a body) (evalLin f body) := by
  induction body with
  | nil => cases ctx <;> simp [req]
  | cons p t ih =>
    obtain ⟨c, v⟩ := p
    by_cases hc : c = 0
    · subst hc
      have := ih (by simpa [propLin] using h)
      cases ctx <;> simp [req] at this ⊢ <;> grind
    · have h' : ∀ p ∈ propLin ctx t, req p.2 (a p.1) (f p.1) := by
        intro p hp; apply h; simp [propLin, hc, hp]
      have hv : req (if 0 ≤ c then ctx.plus else ctx.flip) (a v) (f v) := by
        have := h (v, if 0 ≤ c then ctx.plus else ctx.flip) (by simp [propLin, hc])
        exact this
      have iht := ih h'
      by_cases hpos : 0 ≤ c
      · simp only [hpos, if_true] at hv
        cases ctx <;> simp only [req, Ctx.plus, evalLin_cons] at hv iht ⊢
        · have := Rat.mul_le_mul_of_nonneg_left hv hpos; grind
        · have := Rat.mul_le_mul_of_nonneg_left hv hpos; grind
        · rw [hv, iht]
      · simp only [hpos, if_false] at hv
        have hneg : 0 ≤ -c := by grind
        cases ctx <;> simp only [req, Ctx.flip, evalLin_cons] at hv iht ⊢
        · have := Rat.mul_le_mul_of_nonneg_left hv hneg; grind
        · have := Rat.mul_le_mul_of_nonneg_left hv hneg; grind
        · rw [hv, iht]



theorem lbGE0_dom {B : Bnds} {x : Asg} {v : Var} (h : lbGE0 (B v) = true) (hd : inDom B x v) : 0 ≤ x v := by
  unfold lbGE0 at h
  cases hl : (B v).lb with
  | none => simp [hl] at h
  | some l => simp [hl] at h; have := hd.1 l hl; grind

theorem ubLE0_dom {B : Bnds} {x : Asg} {v : Var} (h : ubLE0 (B v) = true) (hd : inDom B x v) : x v ≤ 0 := by
  unfold ubLE0 at h
  cases hl : (B v).ub with
  | none => simp [hl] at h
  | some l => simp [hl] at h; have := hd.2.1 l hl; grind

theorem mul_le_mul_nonneg {a1 a2 b1 b2 : Rat} (h1 : a1 ≤ b1) (h2 : a2 ≤ b2) (ha1 : 0 ≤ a1) (ha2 : 0 ≤ a2) :
    a1 * a2 ≤ b1 * b2 := by
  have hb1 : 0 ≤ b1 := by grind
  have s1 : a1 * a2 ≤ b1 * a2 := Rat.mul_le_mul_of_nonneg_right h1 ha2
  have s2 : b1 * a2 ≤ b1 * b2 := Rat.mul_le_mul_of_nonneg_left h2 hb1
  grind

/-- one product term: the context the rule hands to both factors justifies the parent context -/
theorem prod_req (B : Bnds) (ctx : Ctx) (v w : Var) (a f : Asg)
    (dav : inDom B a v) (daw : inDom B a w) (dfv : inDom B f v) (dfw : inDom B f w)
    (h1 : req (quadTermCtx B ctx v w) (a v) (f v)) (h2 : req (quadTermCtx B ctx v w) (a w) (f w)) :
    req ctx (a v * a w) (f v * f w) := by
  unfold quadTermCtx at h1 h2
  by_cases hP : (lbGE0 (B v) && lbGE0 (B w)) = true
  · simp only [hP, if_true] at h1 h2
    simp only [Bool.and_eq_true] at hP
    have p1 := lbGE0_dom hP.1 dav
    have p2 := lbGE0_dom hP.2 daw
    have p3 := lbGE0_dom hP.1 dfv
    have p4 := lbGE0_dom hP.2 dfw
    cases ctx <;> simp only [req] at h1 h2 ⊢
    · exact mul_le_mul_nonneg h1 h2 p1 p2
    · exact mul_le_mul_nonneg h1 h2 p3 p4
    · rw [h1, h2]
  · simp only [hP, Bool.false_eq_true, if_false] at h1 h2
    by_cases hN : (ubLE0 (B v) && ubLE0 (B w)) = true
    · simp only [hN, if_true] at h1 h2
      simp only [Bool.and_eq_true] at hN
      have p1 := ubLE0_dom hN.1 dav
      have p2 := ubLE0_dom hN.2 daw
      have p3 := ubLE0_dom hN.1 dfv
      have p4 := ubLE0_dom hN.2 dfw
      cases ctx <;> simp only [req, Ctx.flip] at h1 h2 ⊢
      · have := @mul_le_mul_nonneg (-(a v)) (-(a w)) (-(f v)) (-(f w)) (by grind) (by grind) (by grind) (by grind)
        grind
      · have := @mul_le_mul_nonneg (-(f v)) (-(f w)) (-(a v)) (-(a w)) (by grind) (by grind) (by grind) (by grind)
        grind
      · rw [h1, h2]
    · simp only [hN, Bool.false_eq_true, if_false, req] at h1 h2
      rw [h1, h2]
      cases ctx <;> simp [req]

def quadDom (B : Bnds) (q : Quad) (x : Asg) : Prop := ∀ t ∈ q, inDom B x t.2.1 ∧ inDom B x t.2.2

/- History (DESIGN A0, fixed in /repo 29be2a5): before the fix the rule ignored the coefficient sign; this file then
contained `C01_ctx_sound_quadterms_partial` (nonnegative coefficients only) and the proved negation witness
`C01_counterexample_quadterms_ctx` (B: x∈[0,5], v∈[0,3]; q = [(-1, x, v)]; ctx pos; a = (5,0), f = (5,3):
all hypotheses hold, `0 ≤ -15` fails).  The check re-found the failing input on the real code on every run. -/

/-- `PropagateResult2QuadTerms` is sound, for all coefficients (full strength) -/
theorem C01_ctx_sound_quadterms (B : Bnds) (ctx : Ctx) (q : Quad) (a f : Asg)
    (da : quadDom B q a) (df : quadDom B q f)
    (h : ∀ p ∈ propQuad B ctx q, req p.2 (a p.1) (f p.1)) :
    req ctx (evalQuad a q) (evalQuad f q) := by
  induction q with
  | nil => cases ctx <;> simp [req, evalQuad]
  | cons t tl ih =>
    obtain ⟨c, v, w⟩ := t
    have iht := ih (fun t ht => da t (by simp [ht])) (fun t ht => df t (by simp [ht]))
    by_cases hz : c = 0
    · subst hz
      have := iht (by simpa [propQuad] using h)
      cases ctx <;> simp [req, evalQuad] at this ⊢ <;> grind
    · have h' : ∀ p ∈ propQuad B ctx tl, req p.2 (a p.1) (f p.1) := by
        intro p hp; apply h; simp [propQuad, hz, hp]
      have hv : req (quadTermCtx B (if 0 ≤ c then ctx else ctx.flip) v w) (a v) (f v) := by
        apply h (v, quadTermCtx B (if 0 ≤ c then ctx else ctx.flip) v w); simp [propQuad, hz]; split <;> simp
      have hw : req (quadTermCtx B (if 0 ≤ c then ctx else ctx.flip) v w) (a w) (f w) := by
        by_cases e : v = w
        · subst e; exact hv
        · apply h (w, quadTermCtx B (if 0 ≤ c then ctx else ctx.flip) v w); simp [propQuad, hz, e]
      have dav := da (c, v, w) (by simp)
      have dfv := df (c, v, w) (by simp)
      have hp := prod_req B _ v w a f dav.1 dav.2 dfv.1 dfv.2 hv hw
      have it := iht h'
      by_cases hc0 : 0 ≤ c
      · simp only [hc0, if_true] at hp
        cases ctx <;> simp only [req, evalQuad] at hp it ⊢
        · have := Rat.mul_le_mul_of_nonneg_left hp hc0; grind
        · have := Rat.mul_le_mul_of_nonneg_left hp hc0; grind
        · rw [hp, it]
      · simp only [hc0, if_false] at hp
        have hneg : 0 ≤ -c := by grind
        cases ctx <;> simp only [req, evalQuad, Ctx.flip] at hp it ⊢
        · have := Rat.mul_le_mul_of_nonneg_left hp hneg; grind
        · have := Rat.mul_le_mul_of_nonneg_left hp hneg; grind
        · rw [hp, it]



theorem req_of_plus {ctx : Ctx} {r v : Rat} (h : req ctx.plus r v) : req ctx r v := by
  cases ctx <;> simp [req, Ctx.plus] at h ⊢ <;> exact h

theorem C01_ctx_sound_not (ctx : Ctx) (v : Var) (a f : Asg)
    (h : ∀ p ∈ propNot ctx v, req p.2 (a p.1) (f p.1)) :
    req ctx (Fun.val a (.not v)) (Fun.val f (.not v)) := by
  have := h (v, ctx.flip) (by simp [propNot])
  cases ctx <;> simp [req, Ctx.flip, Fun.val] at this ⊢ <;> grind

def bin (x : Asg) (vs : List Var) : Prop := ∀ v ∈ vs, x v = 0 ∨ x v = 1

theorem all_mono (a f : Asg) (args : List Var) (hf : bin f args)
    (h : ∀ v ∈ args, a v ≤ f v) (ha : args.all (fun v => a v == 1) = true) :
    args.all (fun v => f v == 1) = true := by
  rw [List.all_eq_true] at ha ⊢
  intro v hv
  have h1 : a v = 1 := by simpa using ha v hv
  have := h v hv
  rcases hf v hv with h0 | h0
  · rw [h0, h1] at this; exact absurd this (by grind)
  · simp [h0]

theorem any_mono (a f : Asg) (args : List Var) (hf : bin f args)
    (h : ∀ v ∈ args, a v ≤ f v) (ha : args.any (fun v => a v == 1) = true) :
    args.any (fun v => f v == 1) = true := by
  rw [List.any_eq_true] at ha ⊢
  obtain ⟨v, hv, h1⟩ := ha
  have h1 : a v = 1 := by simpa using h1
  refine ⟨v, hv, ?_⟩
  have := h v hv
  rcases hf v hv with h0 | h0
  · rw [h0, h1] at this; exact absurd this (by grind)
  · simp [h0]

theorem all_congr' (a f : Asg) (args : List Var) (h : ∀ v ∈ args, a v = f v) :
    args.all (fun v => a v == 1) = args.all (fun v => f v == 1) := by
  induction args with
  | nil => rfl
  | cons b t ih => simp [List.all_cons, h b (by simp), ih (fun v hv => h v (by simp [hv]))]

theorem any_congr' (a f : Asg) (args : List Var) (h : ∀ v ∈ args, a v = f v) :
    args.any (fun v => a v == 1) = args.any (fun v => f v == 1) := by
  induction args with
  | nil => rfl
  | cons b t ih => simp [List.any_cons, h b (by simp), ih (fun v hv => h v (by simp [hv]))]

theorem b2r_mono {p q : Prop} [Decidable p] [Decidable q] (h : p → q) : b2r p ≤ b2r q := by
  unfold b2r; split <;> split <;> first | grind | (exfalso; grind)

theorem C01_ctx_sound_and (ctx : Ctx) (args : List Var) (a f : Asg) (ha : bin a args) (hf : bin f args)
    (h : ∀ p ∈ propAnd ctx args, req p.2 (a p.1) (f p.1)) :
    req ctx (Fun.val a (.and args)) (Fun.val f (.and args)) := by
  have h' : ∀ v ∈ args, req ctx.plus (a v) (f v) := fun v hv => h (v, ctx.plus) (by simp [propAnd]; exact hv)
  cases ctx <;> simp only [req, Ctx.plus, Fun.val] at h' ⊢
  · exact b2r_mono (all_mono a f args hf h')
  · exact b2r_mono (all_mono f a args ha h')
  · rw [all_congr' a f args h']

theorem C01_ctx_sound_or (ctx : Ctx) (args : List Var) (a f : Asg) (ha : bin a args) (hf : bin f args)
    (h : ∀ p ∈ propOr ctx args, req p.2 (a p.1) (f p.1)) :
    req ctx (Fun.val a (.or args)) (Fun.val f (.or args)) := by
  have h' : ∀ v ∈ args, req ctx.plus (a v) (f v) := fun v hv => h (v, ctx.plus) (by simp [propOr]; exact hv)
  cases ctx <;> simp only [req, Ctx.plus, Fun.val] at h' ⊢
  · exact b2r_mono (any_mono a f args hf h')
  · exact b2r_mono (any_mono f a args ha h')
  · rw [any_congr' a f args h']

theorem C01_ctx_sound_impl (ctx : Ctx) (c t e : Var) (a f : Asg)
    (h : ∀ p ∈ propImpl ctx c t e, req p.2 (a p.1) (f p.1)) :
    req ctx (Fun.val a (.impl c t e)) (Fun.val f (.impl c t e)) := by
  have hc := h (c, .mix) (by simp [propImpl])
  have ht := h (t, ctx.plus) (by simp [propImpl])
  have he := h (e, ctx.plus) (by simp [propImpl])
  simp only [req] at hc
  cases ctx <;> simp only [req, Ctx.plus, Fun.val, hc] at ht he ⊢ <;> split <;> assumption

theorem optGE_dom {B : Bnds} {x y : Asg} {t e : Var} (h : optGE (B t).lb (B e).ub = true)
    (dt : inDom B x t) (de : inDom B y e) : y e ≤ x t := by
  unfold optGE at h
  cases hl : (B t).lb with
  | none => simp [hl] at h
  | some l =>
    cases hu : (B e).ub with
    | none => simp [hl, hu] at h
    | some u =>
      simp [hl, hu] at h
      have := dt.1 l hl
      have := de.2.1 u hu
      grind

/-- if-then-else: the condition gets `+ctx`/`-ctx` when the bounds order the branches, else mix -/
theorem C01_ctx_sound_ifthen (B : Bnds) (ctx : Ctx) (c t e : Var) (a f : Asg)
    (hac : a c = 0 ∨ a c = 1) (hfc : f c = 0 ∨ f c = 1)
    (dat : inDom B a t) (dae : inDom B a e) (dft : inDom B f t) (dfe : inDom B f e)
    (h : ∀ p ∈ propIfThen B ctx c t e, req p.2 (a p.1) (f p.1)) :
    req ctx (Fun.val a (.ifthen c t e)) (Fun.val f (.ifthen c t e)) := by
  have ht := h (t, ctx.plus) (by simp [propIfThen])
  have he := h (e, ctx.plus) (by simp [propIfThen])
  have hc := h (c, _) (by simp only [propIfThen]; exact List.mem_cons_self)
  cases ctx
  · simp [req]
  · -- pos
    simp only [req, Ctx.plus, Fun.val] at ht he ⊢
    by_cases o1 : optGE (B t).lb (B e).ub = true
    · simp [o1, req, Ctx.plus] at hc
      have k := optGE_dom o1 dft dfe
      rcases hac with h0 | h0 <;> rcases hfc with h1 | h1 <;> simp [h0, h1] at hc ⊢ <;> grind
    · by_cases o2 : optGE (B e).lb (B t).ub = true
      · simp [o1, o2, req, Ctx.flip] at hc
        have k := optGE_dom o2 dfe dft
        rcases hac with h0 | h0 <;> rcases hfc with h1 | h1 <;> simp [h0, h1] at hc ⊢ <;> grind
      · simp [o1, o2, req] at hc
        rw [hc]; split <;> assumption
  · -- neg
    simp only [req, Ctx.plus, Fun.val] at ht he ⊢
    by_cases o1 : optGE (B t).lb (B e).ub = true
    · simp [o1, req, Ctx.plus] at hc
      have k := optGE_dom o1 dat dae
      rcases hac with h0 | h0 <;> rcases hfc with h1 | h1 <;> simp [h0, h1] at hc ⊢ <;> grind
    · by_cases o2 : optGE (B e).lb (B t).ub = true
      · simp [o1, o2, req, Ctx.flip] at hc
        have k := optGE_dom o2 dae dat
        rcases hac with h0 | h0 <;> rcases hfc with h1 | h1 <;> simp [h0, h1] at hc ⊢ <;> grind
      · simp [o1, o2, req] at hc
        rw [hc]; split <;> assumption
  · simp [req, Ctx.plus] at ht he hc
    simp [req, Fun.val, ht, he, hc]



/-- conditional comparisons `res ⇔ body (k) rhs` -/
theorem C01_ctx_sound_condlin (k : Cmp5) (ctx : Ctx) (body : Lin) (rhs : Rat) (a f : Asg)
    (h : ∀ p ∈ propCondLin k ctx body, req p.2 (a p.1) (f p.1)) :
    req ctx (Fun.val a (.condLin k body rhs)) (Fun.val f (.condLin k body rhs)) := by
  have hb := C01_ctx_sound_linterms _ body a f h
  cases k <;> cases ctx <;> simp only [req, Ctx.flip, Fun.val, Cmp5.holds] at hb ⊢ <;>
    first
    | trivial
    | (apply b2r_mono; intro _; grind)
    | (rw [hb])


/-- `PropagateResult(LinearFunctionalConstraint&)` hands `+ctx` into the terms -/
theorem C01_ctx_sound_lfc (ctx : Ctx) (body : Lin) (c : Rat) (a f : Asg)
    (h : ∀ p ∈ propLFC ctx body, req p.2 (a p.1) (f p.1)) :
    req ctx (Fun.val a (.affine body c)) (Fun.val f (.affine body c)) := by
  have := req_of_plus (C01_ctx_sound_linterms ctx.plus body a f h)
  cases ctx <;> simp only [req, Fun.val] at this ⊢ <;> grind

/-- root range constraint `lb ≤ body ≤ ub`: if the delivered body value relates to the true one as the
chosen context requires, then feasibility of the delivered value implies feasibility of the true one -/
theorem C01_ctx_sound_range (body : Lin) (lb ub : Option Rat) (a f : Asg)
    (hlb : ∀ l, lb = some l → -pracInf < l) (hub : ∀ u, ub = some u → u < pracInf)
    (h : ∀ p ∈ propRangeLin body lb ub, req p.2 (a p.1) (f p.1))
    (hfeas : inRange lb ub (evalLin a body)) : inRange lb ub (evalLin f body) := by
  have hb := C01_ctx_sound_linterms _ body a f h
  unfold rangeCtx at hb
  cases lb with
  | none =>
    simp only [if_true, req] at hb
    simp only [inRange] at hfeas ⊢
    refine ⟨by simp, ?_⟩
    intro u hu; have := hfeas.2 u hu; grind
  | some l =>
    have hl : ¬ l ≤ -pracInf := by have := hlb l rfl; grind
    cases ub with
    | none =>
      simp [hl, req] at hb
      simp only [inRange] at hfeas ⊢
      refine ⟨?_, by simp⟩
      intro l' hl'; have := hfeas.1 l' hl'; grind
    | some u =>
      have hu : ¬ pracInf ≤ u := by have := hub u rfl; grind
      simp [hl, hu, req] at hb
      rw [← hb]; exact hfeas


/-! ## conditional comparisons `res ⇔ body (k) rhs`, k ∈ {<, ≤, ≥, >} -/

/-- enforced when `res = 1` (positive direction); `e` is the comparison epsilon -/
def posPred (k : Cmp5) (e b rhs : Rat) : Prop :=
  match k with
  | .lt => b ≤ rhs + -1 * e | .le => b ≤ rhs + 0 | .ge => rhs + 0 ≤ b | .gt => rhs + 1 * e ≤ b | .eq => b = rhs

/-- enforced when `res = 0` (negative direction) -/
def negPred (k : Cmp5) (e b rhs : Rat) : Prop :=
  match k with
  | .lt => rhs + 0 ≤ b | .le => rhs + 1 * e ≤ b | .ge => b ≤ rhs + -1 * e | .gt => b ≤ rhs + 0 | .eq => True

theorem emit_core (res : Var) (body : Lin) (rhs : Rat) (B : Bnds) (kout : Cmp) (value : Nat) (eps : Rat) (x : Asg)
    (hne : body.isEmpty = false) (hval : value = 0 ∨ value = 1) (hr : x res = 0 ∨ x res = 1) (hd : inDom B x res) :
    (∀ c ∈ (condIneqEmit res body rhs B kout value eps).cons, c.sat x) ↔
      (x res = (value : Rat) → kout.holds (evalLin x body) (rhs + eps)) := by
  simp only [condIneqEmit, hne, Bool.false_eq_true, if_false]
  by_cases hf : (B res).isFixed = true
  · have hv := fixed_val hf hd
    simp only [hf, if_true]
    by_cases he : ((value : Rat) == (B res).fixedVal) = true
    · have he' : (value : Rat) = (B res).fixedVal := by simpa using he
      simp [he, Con.sat, hv, he']
    · have he' : ¬ (value : Rat) = (B res).fixedVal := by simpa using he
      simp only [he, Bool.false_eq_true, if_false]
      constructor
      · intro _ h; rw [hv] at h; exact absurd h.symm he'
      · intro _ c hc; exact absurd hc (by simp)
  · simp [hf, Con.sat]

theorem emit_refusal (res : Var) (body : Lin) (rhs : Rat) (B : Bnds) (kout : Cmp) (value : Nat) (eps : Rat) :
    (condIneqEmit res body rhs B kout value eps).refusal = none ∧
    (condIneqEmit res body rhs B kout value eps).vars = [] := by
  unfold condIneqEmit
  cases kout <;> simp only [] <;> split <;> (try split) <;> (try split) <;> exact ⟨rfl, rfl⟩

theorem dispatch_noaux2 (ctx : Ctx) (B : Bnds) (res : Var) (n : Nat) (oN oP : Out)
    (hN0 : oN.refusal = none) (hP0 : oP.refusal = none) (x : Asg) (hd : inDom B x res)
    (hr : x res = 0 ∨ x res = 1) (QN QP : Prop)
    (cN : (∀ c ∈ oN.cons, c.sat x) ↔ (x res = 0 → QN)) (cP : (∀ c ∈ oP.cons, c.sat x) ↔ (x res = 1 → QP)) :
    ((∀ c ∈ (dispatch ctx true (B res) n (fun _ => oN) (fun _ => oP)).cons, c.sat x) ↔
      ((ctx.eff.hasPos = true → x res = 1 → QP) ∧ (ctx.eff.hasNeg = true → x res = 0 → QN))) := by
  by_cases hN : needNeg ctx true (B res) = true <;> by_cases hP : needPos ctx true (B res) = true <;>
    simp only [dispatch, hN, hP, if_true, if_false, hN0, hP0, List.append_nil, List.nil_append,
      Bool.false_eq_true, List.mem_append, List.not_mem_nil] <;>
    (try simp only [Bool.not_eq_true] at hN hP)
  · have e1 : ctx.eff.hasPos = true := by simp [needPos] at hP; exact hP.1
    have e2 : ctx.eff.hasNeg = true := by simp [needNeg] at hN; exact hN.1
    constructor
    · intro h
      exact ⟨fun _ => cP.mp (fun c hc => h c (Or.inr hc)), fun _ => cN.mp (fun c hc => h c (Or.inl hc))⟩
    · intro ⟨h1, h2⟩ c hc
      rcases hc with hc | hc
      · exact cN.mpr (h2 e2) c hc
      · exact cP.mpr (h1 e1) c hc
  · have e2 : ctx.eff.hasNeg = true := by simp [needNeg] at hN; exact hN.1
    constructor
    · intro h
      refine ⟨fun e1 h1 => ?_, fun _ => cN.mp h⟩
      have := pos_skip e1 hP hd; rw [h1] at this; exact absurd this (by grind)
    · intro ⟨_, h2⟩; exact cN.mpr (h2 e2)
  · have e1 : ctx.eff.hasPos = true := by simp [needPos] at hP; exact hP.1
    constructor
    · intro h
      refine ⟨fun _ => cP.mp h, fun e2 h0 => ?_⟩
      have := neg_skip e2 hN hd; rw [h0] at this; exact absurd this (by grind)
    · intro ⟨h1, _⟩; exact cP.mpr (h1 e1)
  · constructor
    · intro _
      refine ⟨fun e1 h1 => ?_, fun e2 h0 => ?_⟩
      · have := pos_skip e1 hP hd; rw [h1] at this; exact absurd this (by grind)
      · have := neg_skip e2 hN hd; rw [h0] at this; exact absurd this (by grind)
    · intro _ c hc; exact absurd hc (by simp)

def condDom (B : Bnds) (res : Var) (x : Asg) : Prop := (x res = 0 ∨ x res = 1) ∧ inDom B x res

/-- what `Cond_LE_LT_GT_GE_Converter_MIP` emits is exactly: `res = 1 ⇒ posPred` when the context has a
positive part and `res = 0 ⇒ negPred` when it has a negative part (eps = `ComparisonEps` of the body type) -/
theorem C01_gadget_condineq_emits (k : Cmp5) (hk : k ≠ .eq) (res : Var) (body : Lin) (rhs : Rat) (ctx : Ctx) (B : Bnds)
    (o : Opts) (n : Nat) (hne : body.isEmpty = false) :
    Exact (gCondIneq k res body rhs ctx B o n) n (condDom B res)
      (fun x => (ctx.eff.hasPos = true → x res = 1 → posPred k (cmpEpsOf o (linBnd B body).2.2) (evalLin x body) rhs) ∧
                (ctx.eff.hasNeg = true → x res = 0 → negPred k (cmpEpsOf o (linBnd B body).2.2) (evalLin x body) rhs)) := by
  have key : ∀ x, condDom B res x →
      ((∀ c ∈ (gCondIneq k res body rhs ctx B o n).cons, c.sat x) ↔
        ((ctx.eff.hasPos = true → x res = 1 → posPred k (cmpEpsOf o (linBnd B body).2.2) (evalLin x body) rhs) ∧
         (ctx.eff.hasNeg = true → x res = 0 → negPred k (cmpEpsOf o (linBnd B body).2.2) (evalLin x body) rhs))) := by
    intro x ⟨hr, hd⟩
    have cN : (∀ c ∈ (condIneqNeg k res body rhs B o).cons, c.sat x) ↔
        (x res = 0 → negPred k (cmpEpsOf o (linBnd B body).2.2) (evalLin x body) rhs) := by
      have := emit_core res body rhs B (if k.isGreater then .le else .ge) 0
        (if k.isStrict then 0 else (if k.isGreater then -1 else 1) * cmpEpsOf o (linBnd B body).2.2) x hne (Or.inl rfl) hr hd
      unfold condIneqNeg
      rw [this]
      cases k <;> simp [Cmp5.isGreater, Cmp5.isStrict, Cmp.holds, negPred] at hk ⊢
    have cP : (∀ c ∈ (condIneqPos k res body rhs B o).cons, c.sat x) ↔
        (x res = 1 → posPred k (cmpEpsOf o (linBnd B body).2.2) (evalLin x body) rhs) := by
      have := emit_core res body rhs B (if k.isGreater then .ge else .le) 1
        (if k.isStrict then (if k.isGreater then 1 else -1) * cmpEpsOf o (linBnd B body).2.2 else 0) x hne (Or.inr rfl) hr hd
      unfold condIneqPos
      rw [this]
      cases k <;> simp [Cmp5.isGreater, Cmp5.isStrict, Cmp.holds, posPred] at hk ⊢
    exact dispatch_noaux2 ctx B res n _ _ (emit_refusal ..).1 (emit_refusal ..).1 x hd hr _ _ cN cP
  have hv : (gCondIneq k res body rhs ctx B o n).vars = [] :=
    dispatch_noaux_vars ctx true (B res) n _ _ (emit_refusal ..).1 (emit_refusal ..).1 (emit_refusal ..).2 (emit_refusal ..).2
  exact ⟨fun y hd _ h => (key y hd).mp h, fun x hd h => realizable_self hv ((key x hd).mpr h)⟩

theorem rel_b2r_iff (ctx : Ctx) (r : Rat) (p : Prop) [Decidable p] (hr : r = 0 ∨ r = 1) :
    rel ctx r (b2r p) ↔ ((ctx.eff.hasPos = true → r = 1 → p) ∧ (ctx.eff.hasNeg = true → r = 0 → ¬ p)) := by
  rw [rel_iff]
  by_cases hp : p <;> rcases hr with h0 | h0 <;> subst h0 <;> simp [b2r, hp] <;> grind

/-- soundness for every positive epsilon: what is emitted implies the context's reading of `res ⇔ body (k) rhs` -/
theorem C01_gadget_condineq_sound (k : Cmp5) (hk : k ≠ .eq) (ctx : Ctx) (e b rhs r : Rat) (he : 0 < e) (hr : r = 0 ∨ r = 1)
    (h : (ctx.eff.hasPos = true → r = 1 → posPred k e b rhs) ∧ (ctx.eff.hasNeg = true → r = 0 → negPred k e b rhs)) :
    rel ctx r (b2r (k.holds b rhs)) := by
  rw [rel_b2r_iff ctx r _ hr]
  obtain ⟨h1, h2⟩ := h
  constructor
  · intro hp h0
    have := h1 hp h0
    cases k <;> simp only [posPred, Cmp5.holds] at this hk ⊢ <;> grind
  · intro hn h0
    have := h2 hn h0
    cases k <;> simp only [negPred, Cmp5.holds] at this hk ⊢ <;> grind

/-- exactness for integer bodies (`eps = 1`, integer right-hand side after the preprocessing rounding) -/
theorem C01_gadget_condineq_exact_int (k : Cmp5) (hk : k ≠ .eq) (ctx : Ctx) (b rhs r : Rat)
    (hb : isIntVal b) (hrhs : isIntVal rhs) (hr : r = 0 ∨ r = 1) :
    ((ctx.eff.hasPos = true → r = 1 → posPred k 1 b rhs) ∧ (ctx.eff.hasNeg = true → r = 0 → negPred k 1 b rhs))
      ↔ rel ctx r (b2r (k.holds b rhs)) := by
  constructor
  · exact C01_gadget_condineq_sound k hk ctx 1 b rhs r (by grind) hr
  · rw [rel_b2r_iff ctx r _ hr]
    intro ⟨h1, h2⟩
    have lt1 : b < rhs → b + 1 ≤ rhs := int_lt_add_one hb hrhs
    have lt2 : rhs < b → rhs + 1 ≤ b := int_lt_add_one hrhs hb
    constructor
    · intro hp h0
      have := h1 hp h0
      cases k <;> simp only [posPred, Cmp5.holds] at this hk ⊢ <;> grind
    · intro hn h0
      have := h2 hn h0
      cases k <;> simp only [negPred, Cmp5.holds] at this hk ⊢ <;> grind

/-- completeness away from the boundary for continuous bodies: at a point at distance ≥ eps from the
boundary (or on it) every value of `res` the original relation allows is still allowed -/
theorem C01_gadget_condineq_complete_margin (k : Cmp5) (hk : k ≠ .eq) (ctx : Ctx) (e b rhs r : Rat)
    (hr : r = 0 ∨ r = 1)
    (hmargin : b ≤ rhs + -1 * e ∨ b = rhs ∨ rhs + 1 * e ≤ b)
    (h : rel ctx r (b2r (k.holds b rhs))) (he : 0 < e) :
    (ctx.eff.hasPos = true → r = 1 → posPred k e b rhs) ∧ (ctx.eff.hasNeg = true → r = 0 → negPred k e b rhs) := by
  rw [rel_b2r_iff ctx r _ hr] at h
  obtain ⟨h1, h2⟩ := h
  constructor
  · intro hp h0
    have := h1 hp h0
    cases k <;> simp only [posPred, Cmp5.holds] at this hk ⊢ <;> grind
  · intro hn h0
    have := h2 hn h0
    cases k <;> simp only [negPred, Cmp5.holds] at this hk ⊢ <;> grind



/-! ## non-vacuity: the hypotheses of the gadget theorems are satisfiable and the steps do emit constraints -/

example : (gAbs 0 1 .mix (fun _ => {}) 2).cons.length = 4 ∧ (gAbs 0 1 .mix (fun _ => {}) 2).vars.length = 1 := by
  decide

example : (gAbs 0 1 .mix (fun _ => {}) 2).realizable 2 (fun v => if v = 0 then 3 else -3) := by
  apply (C01_gadget_abs 0 1 .mix (fun _ => {}) 2 (by decide) (by decide)).2 _ trivial
  simp [rel, req, Ctx.eff, Fun.val]; grind

example : ¬ (gAbs 0 1 .neg (fun _ => {}) 2).realizable 2 (fun v => if v = 0 then 2 else -3) := by
  intro ⟨y, hag, haux, hc⟩
  have := (C01_gadget_abs 0 1 .neg (fun _ => {}) 2 (by decide) (by decide)).1 y trivial haux hc
  have e0 := hag 0 (by decide)
  have e1 := hag 1 (by decide)
  simp [rel, req, Ctx.eff, Fun.val, e0, e1] at this
  grind

example : (gIndLE 1 1 [(1, 0), (2, 2)] 3
    (fun v => if v = 0 then { lb := some 0, ub := some 5 } else { lb := some (-1), ub := some 4, isInt := true }) {}).cons
    = [Con.linRhs .le [(1, 0), (2, 2), (10, 1)] 13] := by
  have h : ¬ ((13 : Rat) = 3) := by grind
  have h2 : ¬ (pracInf ≤ (13 : Rat)) := by unfold pracInf; grind
  have e : (5 : Rat) + (2 * 4 + 0) = 13 := by grind
  simp [gIndLE, implLE, bigMUpper, linBnd, optAdd, optScale]
  grind



theorem evalQuad_agree {n : Nat} {x x' : Asg} (hag : agree n x x') {q : Quad}
    (h : ∀ t ∈ q, t.2.1 < n ∧ t.2.2 < n) : evalQuad x' q = evalQuad x q := by
  induction q with
  | nil => rfl
  | cons t tl ih =>
    obtain ⟨c, v, w⟩ := t
    have hv := h (c, v, w) (by simp)
    have ht : ∀ t ∈ tl, t.2.1 < n ∧ t.2.2 < n := fun t ht => h t (by simp [ht])
    simp [evalQuad, ih ht, hag v hv.1, hag w hv.2]

theorem C01_gadget_range_quad (lin : Lin) (q : Quad) (lb ub : Option Rat) (n : Nat)
    (hb : ∀ p ∈ lin, p.2 < n) (hq : ∀ t ∈ q, t.2.1 < n ∧ t.2.2 < n) :
    Exact (gRangeQuad lin q lb ub n) n (fun _ => True)
      (fun x => inRange lb ub (evalLin x lin + evalQuad x q)) := by
  cases lb with
  | none =>
    cases ub with
    | none => exact ⟨fun y _ _ _ => by simp [inRange], fun x _ _ => realizable_self rfl (by simp [gRangeQuad])⟩
    | some u =>
      have key : ∀ x : Asg, (∀ k ∈ (gRangeQuad lin q none (some u) n).cons, k.sat x) ↔
          inRange none (some u) (evalLin x lin + evalQuad x q) := by
        intro x; simp [gRangeQuad, Con.sat, Cmp.holds, inRange]
      exact ⟨fun y _ _ h => (key y).mp h, fun x _ h => realizable_self rfl ((key x).mpr h)⟩
  | some l =>
    cases ub with
    | none =>
      have key : ∀ x : Asg, (∀ k ∈ (gRangeQuad lin q (some l) none n).cons, k.sat x) ↔
          inRange (some l) none (evalLin x lin + evalQuad x q) := by
        intro x; simp [gRangeQuad, Con.sat, Cmp.holds, inRange]
      exact ⟨fun y _ _ h => (key y).mp h, fun x _ h => realizable_self rfl ((key x).mpr h)⟩
    | some u =>
      by_cases hlu : l = u
      · subst hlu
        have key : ∀ x : Asg, (∀ k ∈ (gRangeQuad lin q (some l) (some l) n).cons, k.sat x) ↔
            inRange (some l) (some l) (evalLin x lin + evalQuad x q) := by
          intro x
          have e : (l + l) / 2 = l := by grind
          simp [gRangeQuad, Con.sat, Cmp.holds, inRange, e]; grind
        have hv : (gRangeQuad lin q (some l) (some l) n).vars = [] := by simp [gRangeQuad]
        exact ⟨fun y _ _ h => (key y).mp h, fun x _ h => realizable_self hv ((key x).mpr h)⟩
      · have hne : (l != u) = true := by simp [hlu]
        constructor
        · intro y _ haux hc
          simp [gRangeQuad, hne, auxOk, VarInfo.admits, Con.sat, Cmp.holds, evalLin_append] at haux hc
          simp [inRange]; grind
        · intro x _ h
          refine ⟨fun v => if v = n then u - (evalLin x lin + evalQuad x q) else x v, ?_, ?_, ?_⟩
          · intro v hv; simp [Nat.ne_of_lt hv]
          · simp [inRange] at h
            simp [gRangeQuad, hne, auxOk, VarInfo.admits]; grind
          · have hag : agree n x (fun v => if v = n then u - (evalLin x lin + evalQuad x q) else x v) := by
              intro v hv; simp [Nat.ne_of_lt hv]
            have e1 := evalLin_agree hag hb
            have e2 := evalQuad_agree hag hq
            simp [gRangeQuad, hne, Con.sat, Cmp.holds, evalLin_append, e1, e2]; grind



/-! ## conditional equality `res ⇔ body = rhs` (cond_eq.h) -/

/-- enforced when `res = 0`: the body is outside the open interval `(lo, hi)` around rhs -/
def neqPred (lo hi b : Rat) : Prop := b ≤ lo ∨ hi ≤ b

theorem condEqPos_core (res : Var) (body : Lin) (rhs : Rat) (B : Bnds) (y : Asg)
    (hne : body.isEmpty = false) (hr : y res = 0 ∨ y res = 1) (hd : inDom B y res) :
    (∀ c ∈ (condEqPos res body rhs B).cons, c.sat y) ↔ (y res = 1 → evalLin y body = rhs) := by
  simp only [condEqPos, hne, Bool.false_eq_true, if_false]
  by_cases hf : (B res).isFixed = true
  · have hv := fixed_val hf hd
    simp only [hf, if_true]
    by_cases h0 : (B res).fixedVal = 0
    · have : ((B res).fixedVal != 0) = false := by simp [h0]
      simp only [this, Bool.false_eq_true, if_false]
      constructor
      · intro _ h1; rw [hv, h0] at h1; exact absurd h1 (by grind)
      · intro _ c hc; exact absurd hc (by simp)
    · have : ((B res).fixedVal != 0) = true := by simp [h0]
      have h1 : y res = 1 := by rcases hr with h | h <;> grind
      simp [this, Con.sat, Cmp.holds, h1]
  · simp [hf, Con.sat, Cmp.holds]

theorem condEqPos_noaux (res : Var) (body : Lin) (rhs : Rat) (B : Bnds) :
    (condEqPos res body rhs B).refusal = none ∧ (condEqPos res body rhs B).vars = [] := by
  unfold condEqPos; split <;> (try split) <;> (try split) <;> exact ⟨rfl, rfl⟩

theorem condEqNeg_refusal (res : Var) (body : Lin) (rhs : Rat) (B : Bnds) (o : Opts) (n : Nat) :
    (condEqNeg res body rhs B o n).refusal = none := by
  unfold condEqNeg; split <;> (try split) <;> rfl

/-- the negative part, soundness: with the two flags binary, `res = 0` forces the body away from rhs -/
theorem condEqNeg_sound (res : Var) (body : Lin) (rhs : Rat) (B : Bnds) (o : Opts) (n : Nat) (y : Asg)
    (hne : body.isEmpty = false) (hr : y res = 0 ∨ y res = 1) (hd : inDom B y res)
    (haux : auxOk n y (condEqNeg res body rhs B o n).vars)
    (hc : ∀ c ∈ (condEqNeg res body rhs B o n).cons, c.sat y) :
    y res = 0 → neqPred (condEqLo o (linBnd B body).2.2 rhs) (condEqHi o (linBnd B body).2.2 rhs) (evalLin y body) := by
  intro h0
  simp only [condEqNeg, hne, Bool.false_eq_true, if_false] at haux hc
  by_cases hcond : (!(B res).isFixed || (B res).fixedVal == 0) = true
  · simp only [hcond, if_true, auxOk, and_true] at haux
    simp [hcond, Con.sat, Cmp.holds] at hc
    have b1 := binary_admits haux.1
    have b2 := binary_admits haux.2
    obtain ⟨c1, c2, c3⟩ := hc
    unfold neqPred
    rcases b1 with e1 | e1 <;> rcases b2 with e2 | e2 <;> simp [e1, e2, h0] at c1 c2 c3 ⊢ <;> grind
  · -- fixed at a nonzero value: contradiction with res = 0
    have hf : (B res).isFixed = true := by
      cases h1 : (B res).isFixed <;> simp [h1] at hcond ⊢
    have hv := fixed_val hf hd
    have : (B res).fixedVal ≠ 0 := by
      intro h; simp [hf, h] at hcond
    rw [hv] at h0; exact absurd h0 this

/-- the negative part, completeness -/
theorem condEqNeg_complete (res : Var) (body : Lin) (rhs : Rat) (B : Bnds) (o : Opts) (n : Nat) (x : Asg)
    (hne : body.isEmpty = false) (hrn : res < n) (hb : ∀ p ∈ body, p.2 < n)
    (hr : x res = 0 ∨ x res = 1)
    (h : x res = 0 → neqPred (condEqLo o (linBnd B body).2.2 rhs) (condEqHi o (linBnd B body).2.2 rhs) (evalLin x body)) :
    ∃ x' : Asg, agree n x x' ∧ auxOk n x' (condEqNeg res body rhs B o n).vars ∧
      ∀ c ∈ (condEqNeg res body rhs B o n).cons, c.sat x' := by
  let lo := condEqLo o (linBnd B body).2.2 rhs
  let hi := condEqHi o (linBnd B body).2.2 rhs
  let f1 : Rat := if x res = 0 ∧ evalLin x body ≤ lo then 1 else 0
  let f2 : Rat := if x res = 0 ∧ ¬ evalLin x body ≤ lo then 1 else 0
  refine ⟨fun v => if v = n then f1 else if v = n + 1 then f2 else x v, ?_, ?_, ?_⟩
  · intro v hv
    have h1 : v ≠ n := Nat.ne_of_lt hv
    have h2 : v ≠ n + 1 := by omega
    simp [h1, h2]
  · simp only [condEqNeg, hne, Bool.false_eq_true, if_false]
    split
    · simp only [auxOk, and_true, if_true]
      constructor
      · apply admits_binary_of; simp only [f1]; split <;> simp
      · have : n + 1 ≠ n := by omega
        simp only [this, if_false, if_true]
        apply admits_binary_of; simp only [f2]; split <;> simp
    · simp [auxOk]
  · have hag : agree n x (fun v => if v = n then f1 else if v = n + 1 then f2 else x v) := by
      intro v hv
      have h1 : v ≠ n := Nat.ne_of_lt hv
      have h2 : v ≠ n + 1 := by omega
      simp [h1, h2]
    have eb := evalLin_agree hag hb
    have er : res ≠ n := Nat.ne_of_lt hrn
    have er2 : res ≠ n + 1 := Nat.ne_of_lt (Nat.lt_succ_of_lt hrn)
    have en : n + 1 ≠ n := by omega
    simp only [condEqNeg, hne, Bool.false_eq_true, if_false]
    split
    · simp only [List.mem_cons, List.not_mem_nil, or_false, forall_eq_or_imp, forall_eq, Con.sat, Cmp.holds,
        evalLin_cons, evalLin_nil, eb, er, er2, en, if_true, if_false]
      rcases hr with h0 | h0
      · have hp := h h0
        unfold neqPred at hp
        by_cases hle : evalLin x body ≤ lo
        · simp [f1, f2, h0, hle]; grind
        · have : hi ≤ evalLin x body := by rcases hp with hp | hp <;> grind
          simp [f1, f2, h0, hle]; grind
      · have hn0 : ¬ x res = 0 := by rw [h0]; grind
        simp [f1, f2, hn0, h0]; grind
    · intro c hc; exact absurd hc (by simp)

/-- what `CondEQConverter_MIP` emits (cases converted by `Base::Convert`): `res = 1 ⇒ body = rhs` for a positive
part of the context, `res = 0 ⇒ body ≤ lo ∨ body ≥ hi` (two fresh binaries; `lo/hi = condEqLo/condEqHi`) for a negative part -/
theorem C01_gadget_condeq_emits (res : Var) (body : Lin) (rhs : Rat) (ctx : Ctx) (B : Bnds) (o : Opts) (n : Nat)
    (hne : body.isEmpty = false) (hrn : res < n) (hb : ∀ p ∈ body, p.2 < n) :
    Exact (gCondEq res body rhs ctx B o n) n (condDom B res)
      (fun x => (ctx.eff.hasPos = true → x res = 1 → evalLin x body = rhs) ∧
                (ctx.eff.hasNeg = true → x res = 0 → neqPred (condEqLo o (linBnd B body).2.2 rhs) (condEqHi o (linBnd B body).2.2 rhs) (evalLin x body))) := by
  have rN := condEqNeg_refusal res body rhs B o n
  have pP := condEqPos_noaux res body rhs B
  constructor
  · intro y ⟨hr, hd⟩ haux hc
    have cP := condEqPos_core res body rhs B y hne hr hd
    by_cases hN : needNeg ctx true (B res) = true <;> by_cases hP : needPos ctx true (B res) = true <;>
      simp only [gCondEq, dispatch, hN, hP, if_true, if_false, rN, pP.1, pP.2, List.append_nil, List.nil_append,
        Bool.false_eq_true, List.mem_append, List.not_mem_nil] at haux hc <;>
      (try simp only [Bool.not_eq_true] at hN hP)
    · refine ⟨fun _ => cP.mp (fun c h => hc c (Or.inr h)), fun _ => ?_⟩
      exact condEqNeg_sound res body rhs B o n y hne hr hd haux (fun c h => hc c (Or.inl h))
    · refine ⟨fun e1 h1 => ?_, fun _ => condEqNeg_sound res body rhs B o n y hne hr hd haux hc⟩
      have := pos_skip e1 hP hd; rw [h1] at this; exact absurd this (by grind)
    · refine ⟨fun _ => cP.mp hc, fun e2 h0 => ?_⟩
      have := neg_skip e2 hN hd; rw [h0] at this; exact absurd this (by grind)
    · refine ⟨fun e1 h1 => ?_, fun e2 h0 => ?_⟩
      · have := pos_skip e1 hP hd; rw [h1] at this; exact absurd this (by grind)
      · have := neg_skip e2 hN hd; rw [h0] at this; exact absurd this (by grind)
  · intro x ⟨hr, hd⟩ ⟨h1, h2⟩
    by_cases hN : needNeg ctx true (B res) = true <;> by_cases hP : needPos ctx true (B res) = true <;>
      simp only [Out.realizable, gCondEq, dispatch, hN, hP, if_true, if_false, rN, pP.1, pP.2, List.append_nil,
        List.nil_append, Bool.false_eq_true, List.mem_append, List.not_mem_nil] <;>
      (try simp only [Bool.not_eq_true] at hN hP)
    · have e1 : ctx.eff.hasPos = true := by simp [needPos] at hP; exact hP.1
      have e2 : ctx.eff.hasNeg = true := by simp [needNeg] at hN; exact hN.1
      obtain ⟨x', hag, hax, hcs⟩ := condEqNeg_complete res body rhs B o n x hne hrn hb hr (h2 e2)
      refine ⟨x', hag, hax, ?_⟩
      intro c hc
      rcases hc with hc | hc
      · exact hcs c hc
      · have hr' : x' res = 0 ∨ x' res = 1 := by rw [hag res hrn]; exact hr
        have hd' : inDom B x' res := by unfold inDom; rw [hag res hrn]; exact hd
        refine (condEqPos_core res body rhs B x' hne hr' hd').mpr ?_ c hc
        rw [hag res hrn, evalLin_agree hag hb]; exact h1 e1
    · have e2 : ctx.eff.hasNeg = true := by simp [needNeg] at hN; exact hN.1
      exact condEqNeg_complete res body rhs B o n x hne hrn hb hr (h2 e2)
    · have e1 : ctx.eff.hasPos = true := by simp [needPos] at hP; exact hP.1
      exact ⟨x, fun _ _ => rfl, by simp [auxOk],
        (condEqPos_core res body rhs B x hne hr hd).mpr (h1 e1)⟩
    · exact ⟨x, fun _ _ => rfl, by simp [auxOk], by intro c hc; exact absurd hc (by simp)⟩

theorem condEqLo_lt (o : Opts) (isI : Bool) (rhs : Rat) (h : isI = true ∨ 0 < o.cmpEps) : condEqLo o isI rhs < rhs := by
  unfold condEqLo
  cases isI
  · have he : 0 < o.cmpEps := by rcases h with h | h; exact absurd h (by decide); exact h
    simp [cmpEpsOf]; grind
  · simp only [if_true]
    have h1 : ¬ (rhs.ceil ≤ rhs.ceil - 1) := by omega
    rw [Rat.ceil_le_iff] at h1
    have : ((rhs.ceil - 1 : Int) : Rat) = (rhs.ceil : Rat) - 1 := by push_cast; rfl
    rw [this] at h1; grind

theorem condEqHi_gt (o : Opts) (isI : Bool) (rhs : Rat) (h : isI = true ∨ 0 < o.cmpEps) : rhs < condEqHi o isI rhs := by
  unfold condEqHi
  cases isI
  · have he : 0 < o.cmpEps := by rcases h with h | h; exact absurd h (by decide); exact h
    simp [cmpEpsOf]; grind
  · simp only [if_true]
    have := Rat.lt_floor_add_one rhs
    have e : ((rhs.floor + 1 : Int) : Rat) = (rhs.floor : Rat) + 1 := by push_cast; rfl
    rw [e] at this; exact this

/-- soundness: whenever the separation bounds straddle rhs (integer body, or eps > 0) what is emitted implies the
context's reading of `res ⇔ body = rhs` -/
theorem C01_gadget_condeq_sound (ctx : Ctx) (lo hi b rhs r : Rat) (hlo : lo < rhs) (hhi : rhs < hi) (hr : r = 0 ∨ r = 1)
    (h : (ctx.eff.hasPos = true → r = 1 → b = rhs) ∧ (ctx.eff.hasNeg = true → r = 0 → neqPred lo hi b)) :
    rel ctx r (b2r (Cmp5.eq.holds b rhs)) := by
  rw [rel_b2r_iff ctx r _ hr]
  obtain ⟨h1, h2⟩ := h
  refine ⟨fun hp h0 => h1 hp h0, fun hn h0 => ?_⟩
  have := h2 hn h0
  unfold neqPred at this
  simp only [Cmp5.holds]; grind

/-- exact for integer bodies, for EVERY right-hand side (full strength after /repo c58c7b7).
History: before the fix the bounds were `rhs ∓ 1`; the claim then needed an integer `rhs`
(`C01_gadget_condeq_exact_int_partial`) and failed otherwise (`C01_counterexample_condeq_nonint_rhs`: body value 1,
rhs 3/2, res 0 excluded by `body ≤ 1/2 ∨ body ≥ 5/2`); the check re-found it on the real code
(`b==1 or not (2*x == 3)` over integer x) until the fix. -/
theorem C01_gadget_condeq_exact_int (ctx : Ctx) (o : Opts) (b rhs r : Rat) (hb : isIntVal b) (hr : r = 0 ∨ r = 1) :
    ((ctx.eff.hasPos = true → r = 1 → b = rhs) ∧
      (ctx.eff.hasNeg = true → r = 0 → neqPred (condEqLo o true rhs) (condEqHi o true rhs) b))
      ↔ rel ctx r (b2r (Cmp5.eq.holds b rhs)) := by
  constructor
  · exact C01_gadget_condeq_sound ctx _ _ b rhs r (condEqLo_lt o true rhs (Or.inl rfl)) (condEqHi_gt o true rhs (Or.inl rfl)) hr
  · rw [rel_b2r_iff ctx r _ hr]
    intro ⟨h1, h2⟩
    refine ⟨fun hp h0 => h1 hp h0, fun hn h0 => ?_⟩
    have hne := h2 hn h0
    simp only [Cmp5.holds] at hne
    obtain ⟨k, rfl⟩ := hb
    unfold neqPred condEqLo condEqHi
    simp only [if_true]
    by_cases hlt : (k : Rat) < rhs
    · left
      have h1 : ¬ (rhs.ceil ≤ k) := by rw [Rat.ceil_le_iff]; grind
      have h2 : k ≤ rhs.ceil - 1 := by omega
      have : ((k : Int) : Rat) ≤ ((rhs.ceil - 1 : Int) : Rat) := by exact_mod_cast h2
      have e : ((rhs.ceil - 1 : Int) : Rat) = (rhs.ceil : Rat) - 1 := by push_cast; rfl
      rw [e] at this; exact this
    · right
      have hgt : rhs < (k : Rat) := by grind
      have h1 : ¬ (k ≤ rhs.floor) := by rw [Rat.le_floor_iff]; grind
      have h2 : rhs.floor + 1 ≤ k := by omega
      have : ((rhs.floor + 1 : Int) : Rat) ≤ ((k : Int) : Rat) := by exact_mod_cast h2
      have e : ((rhs.floor + 1 : Int) : Rat) = (rhs.floor : Rat) + 1 := by push_cast; rfl
      rw [e] at this; exact this

/-- continuous bodies: complete at distance ≥ eps from rhs (or on it) -/
theorem C01_gadget_condeq_complete_margin (ctx : Ctx) (o : Opts) (b rhs r : Rat) (hr : r = 0 ∨ r = 1)
    (hmargin : b ≤ rhs - o.cmpEps ∨ b = rhs ∨ rhs + o.cmpEps ≤ b)
    (h : rel ctx r (b2r (Cmp5.eq.holds b rhs))) :
    (ctx.eff.hasPos = true → r = 1 → b = rhs) ∧
      (ctx.eff.hasNeg = true → r = 0 → neqPred (condEqLo o false rhs) (condEqHi o false rhs) b) := by
  rw [rel_b2r_iff ctx r _ hr] at h
  obtain ⟨h1, h2⟩ := h
  refine ⟨fun hp h0 => h1 hp h0, fun hn h0 => ?_⟩
  have hne := h2 hn h0
  simp only [Cmp5.holds] at hne
  unfold neqPred condEqLo condEqHi
  simp [cmpEpsOf]
  rcases hmargin with hm | hm | hm
  · left; exact hm
  · exact absurd hm hne
  · right; exact hm

/-! ## implication `c ==> t else e`  →  `And(Or(!c, t), Or(c, e))` -/

theorem compl_info {B : Bnds} {c : Var} (hl : (B c).lb = some 0) (hu : (B c).ub = some 1) :
    (affBnd B [(-1, c)] 1).lb = some (-1 * 1 + 0 + 1) ∧ (affBnd B [(-1, c)] 1).ub = some (-1 * 0 + 0 + 1) ∧
    (affBnd B [(-1, c)] 1).isInt = (((true && (B c).isInt && isIntQ (-1)) && isIntQ 1)) := by
  have hneg : ¬ ((0 : Rat) ≤ -1) := by grind
  simp [affBnd, linBnd, hneg, hl, hu, optAdd, optScale]

theorem compl_binary {B : Bnds} {c : Var} {q : Rat}
    (hl : (B c).lb = some 0) (hu : (B c).ub = some 1) (hi : (B c).isInt = true)
    (h : (affBnd B [(-1, c)] 1).admits q) : q = 0 ∨ q = 1 := by
  obtain ⟨i1, i2, i3⟩ := compl_info (B := B) (c := c) hl hu
  apply binary_admits
  obtain ⟨h1, h2, h3⟩ := h
  refine ⟨?_, ?_, ?_⟩
  · intro l hl'; simp [VarInfo.binary] at hl'; subst hl'; have := h1 _ i1; grind
  · intro u hu'; simp [VarInfo.binary] at hu'; subst hu'; have := h2 _ i2; grind
  · intro _; apply h3; rw [i3]; simp [hi, isIntQ]

theorem compl_admits {B : Bnds} {c : Var} {q : Rat}
    (hl : (B c).lb = some 0) (hu : (B c).ub = some 1) (h : q = 0 ∨ q = 1) :
    (affBnd B [(-1, c)] 1).admits q := by
  obtain ⟨i1, i2, _⟩ := compl_info (B := B) (c := c) hl hu
  refine ⟨?_, ?_, ?_⟩
  · intro l hl'; rw [i1] at hl'; simp at hl'; subst hl'; rcases h with h | h <;> rw [h] <;> grind
  · intro u hu'; rw [i2] at hu'; simp at hu'; subst hu'; rcases h with h | h <;> rw [h] <;> grind
  · intro _; rcases h with h | h
    · rw [h]; exact isIntVal_zero
    · rw [h]; exact isIntVal_one

theorem b2r_zero_one (p : Prop) [Decidable p] : b2r p = 0 ∨ b2r p = 1 := by unfold b2r; split <;> simp

def implDom (res c t e : Var) (x : Asg) : Prop :=
  (x res = 0 ∨ x res = 1) ∧ (x c = 0 ∨ x c = 1) ∧ (x t = 0 ∨ x t = 1) ∧ (x e = 0 ∨ x e = 1)

/-- implication with a non-fixed result (the case with a fixed-true result — two disjunctions fixed true —
is modelled and correspondence-checked, not proved) -/
theorem C01_gadget_impl (res c t e : Var) (ctx : Ctx) (B : Bnds) (n : Nat)
    (hr : res < n) (hc : c < n) (ht : t < n) (he : e < n)
    (hl : (B c).lb = some 0) (hu : (B c).ub = some 1) (hi : (B c).isInt = true)
    (hft : (B t).isFixed = false) (hfe : (B e).isFixed = false) (hfr : (B res).isFixed = false) :
    Exact (gImpl res c t e ctx B n) n (implDom res c t e)
      (fun x => rel ctx (x res) (Fun.val x (.impl c t e))) := by
  have hb : ((B c).lb == some 0 && (B c).ub == some 1) = true := by simp [hl, hu]
  constructor
  · intro y ⟨hyr, hyc, hyt, hye⟩ haux hcs
    simp only [gImpl, hb, hft, hfe, hfr, Bool.not_true, Bool.false_eq_true, if_false, Bool.or_self,
      Bool.false_and, auxOk, and_true] at haux hcs
    obtain ⟨a0, a1, a2⟩ := haux
    have b0 := compl_binary hl hu hi a0
    have b1 := binary_admits a1
    have b2 := binary_admits a2
    have c0 := hcs (.func n ctx.eff.plus (.affine [(-1, c)] 1)) (by simp)
    have c1 := hcs (.func (n + 1) ctx.eff.plus (.or [n, t])) (by simp)
    have c2 := hcs (.func (n + 2) ctx.eff.plus (.or [c, e])) (by simp)
    have c3 := hcs (.func res ctx.eff (.and [n + 1, n + 2])) (by simp)
    have e12 : n + 1 + 1 = n + 2 := rfl
    rw [e12] at b2
    cases ctx <;>
      simp [Con.sat, rel, req, Ctx.eff, Ctx.plus, Fun.val, b2r] at c0 c1 c2 c3 ⊢ <;>
      rcases hyc with h1 | h1 <;> rcases b0 with h2 | h2 <;> rcases b1 with h3 | h3 <;> rcases b2 with h4 | h4 <;>
      simp [h1, h2, h3, h4] at c0 c1 c2 c3 ⊢ <;> grind
  · intro x ⟨hxr, hxc, hxt, hxe⟩ h
    let v0 : Rat := 1 - x c
    let v1 : Rat := b2r (v0 = 1 ∨ x t = 1)
    let v2 : Rat := b2r (x c = 1 ∨ x e = 1)
    have en : ∀ v, v < n → v ≠ n ∧ v ≠ n + 1 ∧ v ≠ n + 2 := by intro v hv; omega
    refine ⟨fun v => if v = n then v0 else if v = n + 1 then v1 else if v = n + 2 then v2 else x v, ?_, ?_, ?_⟩
    · intro v hv; simp [(en v hv).1, (en v hv).2.1, (en v hv).2.2]
    · simp only [gImpl, hb, hft, hfe, hfr, Bool.not_true, Bool.false_eq_true, if_false, Bool.or_self,
        Bool.false_and, auxOk, and_true, if_true]
      have k1 : n + 1 ≠ n := by omega
      have k2 : n + 1 + 1 ≠ n := by omega
      have k3 : n + 1 + 1 ≠ n + 1 := by omega
      have k4 : n + 1 + 1 = n + 2 := rfl
      refine ⟨compl_admits hl hu ?_, ?_, ?_⟩
      · rcases hxc with h0 | h0 <;> simp [v0, h0] <;> grind
      · simp only [k1, if_false, if_true]; exact admits_binary_of (b2r_zero_one _)
      · simp only [k2, k3, k4, if_false, if_true]; exact admits_binary_of (b2r_zero_one _)
    · have k1 : n + 1 ≠ n := by omega
      have k2 : n + 2 ≠ n := by omega
      have k3 : n + 2 ≠ n + 1 := by omega
      have r0 := en res hr
      have c0' := en c hc
      have t0 := en t ht
      have e0 := en e he
      simp only [gImpl, hb, hft, hfe, hfr, Bool.not_true, Bool.false_eq_true, if_false, Bool.or_self,
        Bool.false_and]
      intro k hk
      simp only [List.mem_cons, List.not_mem_nil, or_false] at hk
      rcases hk with hk | hk | hk | hk <;> subst hk <;>
        cases ctx <;>
        simp [Con.sat, rel, req, Ctx.eff, Ctx.plus, Fun.val, b2r, k1, k2, k3, r0, c0', t0, e0, v0, v1, v2] at h ⊢ <;>
        rcases hxc with h1 | h1 <;> rcases hxt with h2 | h2 <;> rcases hxe with h3 | h3 <;> rcases hxr with h4 | h4 <;>
        simp [h1, h2, h3, h4] at h ⊢ <;> grind



/-! ## Composition, restricted fragment (PARTIAL): one functional constraint nested once under a root
linear range constraint

NL constraint:  `lb ≤ body[res := F(args)] ≤ ub`, where `body` is linear over original variables and the
result variable `res` of one functional constraint `res = F(args)` (arguments are original variables).
Delivered: the root range constraint over `res` itself + whatever the conversion step `o` emitted for `F`
in the context `ctx` stored on it.  Hypotheses tie the pieces exactly as the converter does:
`hctx`  — the stored context includes what `PropagateResult` of the root constraint assigns to `res`;
`hex`   — the step is exact for that context (any `C01_gadget_*` theorem);
`hF`    — `F` does not read `res` or auxiliary variables.
Conclusion: a point is feasible for the NL constraint iff values for `res` and the auxiliaries exist that
satisfy the delivered constraints (projection equivalence for this fragment). -/


theorem req_refl (c : Ctx) (v : Rat) : req c v v := by cases c <;> simp [req]
theorem rel_refl (c : Ctx) (v : Rat) : rel c v v := req_refl _ v

theorem rel_to_req {ctx c : Ctx} (h : c ≤ ctx.eff) {r v : Rat} (hr : rel ctx r v) : req c r v :=
  req_mono h hr

theorem propLin_mem (ctx : Ctx) (body : Lin) (p : Var × Ctx) (h : p ∈ propLin ctx body) :
    ∃ c, (c, p.1) ∈ body := by
  induction body with
  | nil => simp [propLin] at h
  | cons t tl ih =>
    obtain ⟨c, v⟩ := t
    simp only [propLin] at h
    split at h
    · obtain ⟨c', hc'⟩ := ih h; exact ⟨c', by simp [hc']⟩
    · simp only [List.mem_cons] at h
      rcases h with h | h
      · subst h; exact ⟨c, by simp⟩
      · obtain ⟨c', hc'⟩ := ih h; exact ⟨c', by simp [hc']⟩

theorem C01_compose_root_range_single_partial
    (body : Lin) (lb ub : Option Rat) (res : Var) (n : Nat) (F : Fun) (ctx : Ctx) (o : Out) (D : Asg → Prop)
    (hlb : ∀ l, lb = some l → -pracInf < l) (hub : ∀ u, ub = some u → u < pracInf)
    (hres : res < n) (hbody : ∀ p ∈ body, p.2 < n)
    (hctx : ∀ p ∈ propRangeLin body lb ub, p.1 = res → p.2 ≤ ctx.eff)
    (hex : Exact o n D (fun x => rel ctx (x res) (F.val x)))
    (hF : ∀ x x' : Asg, (∀ v, v < n → v ≠ res → x' v = x v) → F.val x' = F.val x)
    (hDag : ∀ x x' : Asg, agree n x x' → D x → D x')
    (x : Asg) (hD : D (setVar x res (F.val x))) :
    inRange lb ub (evalLin (setVar x res (F.val x)) body) ↔
      ∃ x' : Asg, (∀ v, v < n → v ≠ res → x' v = x v) ∧ D x' ∧ auxOk n x' o.vars ∧
        (∀ c ∈ o.cons, c.sat x') ∧ inRange lb ub (evalLin x' body) := by
  constructor
  · intro hfeas
    let x1 := setVar x res (F.val x)
    have hFx1 : F.val x1 = F.val x := hF x x1 (by intro v _ hne; simp [x1, setVar, hne])
    have hP : rel ctx (x1 res) (F.val x1) := by
      rw [hFx1]; simp only [x1, setVar, if_true]; exact rel_refl _ _
    obtain ⟨x', hag, hax, hcs⟩ := hex.2 x1 hD hP
    refine ⟨x', ?_, ?_, hax, hcs, ?_⟩
    · intro v hv hne; rw [hag v hv]; simp [x1, setVar, hne]
    · exact hDag x1 x' hag hD
    · rw [evalLin_agree hag hbody]; exact hfeas
  · intro ⟨x', hag, hDx', hax, hcs, hfeas⟩
    have hrel : rel ctx (x' res) (F.val x') := hex.1 x' hDx' hax hcs
    have hFx' : F.val x' = F.val x := hF x x' hag
    rw [hFx'] at hrel
    apply C01_ctx_sound_range body lb ub x' (setVar x res (F.val x)) hlb hub _ hfeas
    intro p hp
    by_cases hpr : p.1 = res
    · rw [hpr]; simp only [setVar, if_true]
      exact rel_to_req (hctx p hp hpr) hrel
    · have hlt : p.1 < n := by
        obtain ⟨c, hc⟩ := propLin_mem _ body p hp
        exact hbody (c, p.1) hc
      simp only [setVar, hpr, if_false]
      rw [hag p.1 hlt hpr]; exact req_refl _ _


theorem plus_le_eff (c : Ctx) : c.plus ≤ c.eff := by cases c <;> decide

/-- end-to-end instance of the fragment: `lb ≤ y + abs(z) ≤ ub` with `abs` linearised by `AbsConverter_MIP`
in the context the root constraint propagates (`rangeCtx lb ub`): the delivered model (root row over the
result variable `r` + the abs gadget's rows and flag) has the same feasible set projected on `(y, z)`. -/
theorem C01_compose_example_abs (y z r n : Nat) (hy : y < n) (hz : z < n) (hr : r < n) (hyr : y ≠ r) (hzr : z ≠ r)
    (lb ub : Option Rat) (hlb : ∀ l, lb = some l → -pracInf < l) (hub : ∀ u, ub = some u → u < pracInf)
    (B : Bnds) (x : Asg) :
    inRange lb ub (x y + (if x z ≤ 0 then - x z else x z)) ↔
      ∃ x' : Asg, (∀ v, v < n → v ≠ r → x' v = x v) ∧ auxOk n x' (gAbs r z (rangeCtx lb ub) B n).vars ∧
        (∀ c ∈ (gAbs r z (rangeCtx lb ub) B n).cons, c.sat x') ∧ inRange lb ub (x' y + x' r) := by
  have h := C01_compose_root_range_single_partial [(1, y), (1, r)] lb ub r n (.abs z) (rangeCtx lb ub)
    (gAbs r z (rangeCtx lb ub) B n) (fun _ => True) hlb hub hr
    (by intro p hp; simp at hp; rcases hp with hp | hp <;> subst hp <;> assumption)
    (by
      intro p hp hpr
      have h1 : ¬ ((1 : Rat) = 0) := by grind
      have h2 : (0 : Rat) ≤ 1 := by grind
      simp [propRangeLin, propLin, h1, h2] at hp
      rcases hp with hp | hp
      · subst hp; exact absurd hpr hyr
      · subst hp; exact plus_le_eff _)
    (C01_gadget_abs r z (rangeCtx lb ub) B n hr hz)
    (by intro x1 x2 hag; simp only [Fun.val]; rw [hag z hz hzr])
    (by intro _ _ _ _; trivial)
    x trivial
  have e1 : evalLin (setVar x r (Fun.val x (.abs z))) [(1, y), (1, r)]
      = x y + (if x z ≤ 0 then - x z else x z) := by
    simp [setVar, hyr, Fun.val]; grind
  rw [e1] at h
  rw [h]
  constructor
  · intro ⟨x', a, _, b, c, d⟩
    refine ⟨x', a, b, c, ?_⟩
    have : evalLin x' [(1, y), (1, r)] = x' y + x' r := by simp; grind
    rw [← this]; exact d
  · intro ⟨x', a, b, c, d⟩
    refine ⟨x', a, trivial, b, c, ?_⟩
    have : evalLin x' [(1, y), (1, r)] = x' y + x' r := by simp; grind
    rw [this]; exact d



/-! ## count over 0/1 arguments (the case without auxiliary reification) -/

theorem countFlags_binary (B : Bnds) (args : List Var) (n : Nat) (h : ∀ a ∈ args, (B a).isBinary = true) :
    countFlags B args n = (args, [], [], false) := by
  induction args with
  | nil => rfl
  | cons a t ih =>
    have ha := h a (by simp)
    have ht := ih (fun b hb => h b (by simp [hb]))
    simp [countFlags, ha, ht]

/-- `CountConverter_MIP` when every argument is a binary variable: `res = Σ args`.
(The general case — non-binary arguments reified through `(a == 0)` and `not` — is modelled and
correspondence-checked, not proved.) -/
theorem C01_gadget_count_binary_partial (res : Var) (args : List Var) (B : Bnds) (n : Nat)
    (hbin : ∀ a ∈ args, (B a).isBinary = true) :
    Exact (gCount res args B n) n (fun x => ∀ a ∈ args, x a = 0 ∨ x a = 1)
      (fun x => x res = Fun.val x (.count args)) := by
  have hg : gCount res args B n = { cons := [.linRhs .eq (ones args ++ [(-1, res)]) 0] } := by
    simp [gCount, countFlags_binary B args n hbin]
  have key : ∀ x : Asg, (∀ a ∈ args, x a = 0 ∨ x a = 1) →
      ((∀ c ∈ (gCount res args B n).cons, c.sat x) ↔ x res = Fun.val x (.count args)) := by
    intro x hx
    rw [hg]
    simp only [List.mem_singleton, forall_eq, Con.sat, Cmp.holds, evalLin_append, evalLin_cons, evalLin_nil,
      Fun.val, count_bin x args hx]
    grind
  have hv : (gCount res args B n).vars = [] := by rw [hg]
  exact ⟨fun y hd _ h => (key y hd).mp h, fun x hd h => realizable_self hv ((key x hd).mpr h)⟩

/-! ## max / min: order lemmas -/

theorem maxL_le_iff (x : Asg) (a : Var) (t : List Var) (r : Rat) :
    maxL x a t ≤ r ↔ ∀ b ∈ a :: t, x b ≤ r := by
  induction t generalizing a with
  | nil => simp [maxL]
  | cons b t ih =>
    simp only [maxL]
    have := ih b
    split
    · rename_i hle
      rw [this]
      constructor
      · intro h c hc
        simp only [List.mem_cons] at hc
        rcases hc with hc | hc
        · subst hc
          have : maxL x b t ≤ r := (ih b).mpr h
          grind
        · exact h c (by simp [hc])
      · intro h c hc; exact h c (by simp [hc])
    · rename_i hnle
      constructor
      · intro h c hc
        simp only [List.mem_cons] at hc
        rcases hc with hc | hc
        · subst hc; exact h
        · have h1 : maxL x b t ≤ r := by grind
          exact (ih b).mp h1 c (by simp [hc])
      · intro h; exact h a (by simp)

theorem le_minL_iff (x : Asg) (a : Var) (t : List Var) (r : Rat) :
    r ≤ minL x a t ↔ ∀ b ∈ a :: t, r ≤ x b := by
  induction t generalizing a with
  | nil => simp [minL]
  | cons b t ih =>
    simp only [minL]
    split
    · rename_i hle
      constructor
      · intro h c hc
        simp only [List.mem_cons] at hc
        rcases hc with hc | hc
        · subst hc; exact h
        · have h1 : r ≤ minL x b t := by grind
          exact (ih b).mp h1 c (by simp [hc])
      · intro h; exact h a (by simp)
    · rename_i hnle
      rw [ih b]
      constructor
      · intro h c hc
        simp only [List.mem_cons] at hc
        rcases hc with hc | hc
        · subst hc
          have : r ≤ minL x b t := (ih b).mpr h
          grind
        · exact h c (by simp [hc])
      · intro h c hc; exact h c (by simp [hc])



/-! ## numberof with a constant reference value -/

/-- the reified comparisons `flag_i = (a_i == k)` emitted for the arguments, flags numbered from `n` -/
def nocCons (k : Rat) : Nat → List Var → List Con
  | _, [] => []
  | n, a :: t => Con.func n .none (.condLin .eq [(1, a)] k) :: nocCons k (n + 1) t

theorem nocCons_eq (k : Rat) (n : Nat) (args : List Var) :
    ((List.zip (List.range' n args.length) args).map fun (f, a) => Con.func f .none (.condLin .eq [(1, a)] k))
      = nocCons k n args := by
  induction args generalizing n with
  | nil => rfl
  | cons a t ih =>
    simp only [List.length_cons, List.range'_succ, List.zip_cons_cons, List.map_cons, nocCons]
    rw [ih (n + 1)]

theorem condEq1_val (y : Asg) (a : Var) (k : Rat) :
    Fun.val y (.condLin .eq [(1, a)] k) = (if y a = k then 1 else 0) := by
  show b2r (Cmp5.eq.holds (evalLin y [(1, a)]) k) = _
  unfold b2r
  by_cases e : y a = k
  · have h : Cmp5.eq.holds (evalLin y [(1, a)]) k := by simp [Cmp5.holds]; grind
    rw [if_pos h, if_pos e]
  · have h : ¬ Cmp5.eq.holds (evalLin y [(1, a)]) k := by simp [Cmp5.holds]; grind
    rw [if_neg h, if_neg e]

theorem noc_sound (k : Rat) (n : Nat) (args : List Var) (y : Asg) (h : ∀ c ∈ nocCons k n args, c.sat y) :
    evalLin y (ones (List.range' n args.length)) = countP (fun a => y a == k) args := by
  induction args generalizing n with
  | nil => rfl
  | cons a t ih =>
    have h0 := h (Con.func n .none (.condLin .eq [(1, a)] k)) (by simp [nocCons])
    have ht := ih (n + 1) (fun c hc => h c (by simp [nocCons, hc]))
    simp only [List.length_cons, List.range'_succ, ones_cons, evalLin_cons, countP, ht]
    simp only [Con.sat, rel, req, Ctx.eff, condEq1_val] at h0
    rw [h0]
    by_cases e : y a = k <;> simp [e] <;> grind

theorem noc_complete (k : Rat) (n0 : Nat) (args : List Var) (hargs : ∀ a ∈ args, a < n0) :
    ∀ (n : Nat) (x : Asg), n0 ≤ n →
      ∃ x' : Asg, (∀ v, v < n → x' v = x v) ∧ (∀ c ∈ nocCons k n args, c.sat x') ∧
        auxOk n x' (args.map fun _ => VarInfo.binary) := by
  induction args with
  | nil => intro n x _; exact ⟨x, fun _ _ => rfl, by simp [nocCons], by simp [auxOk]⟩
  | cons a t ih =>
    intro n x hn
    have ha : (a : Nat) < n0 := hargs a (by simp)
    have k1 : n0 ≤ n + 1 := by omega
    have k2 : n < n + 1 := by omega
    have k3 : a < n + 1 := Nat.lt_succ_of_lt (Nat.lt_of_lt_of_le ha hn)
    have k4 : a ≠ n := Nat.ne_of_lt (Nat.lt_of_lt_of_le ha hn)
    obtain ⟨x', hag, hcs, hax⟩ := ih (fun b hb => hargs b (by simp [hb])) (n + 1)
      (fun v => if v = n then (if x a = k then 1 else 0) else x v) k1
    have en : x' n = (if x a = k then 1 else 0) := by rw [hag n k2]; simp
    have ea : x' a = x a := by rw [hag a k3]; simp [k4]
    refine ⟨x', ?_, ?_, ?_⟩
    · intro v hv
      have q1 : v < n + 1 := by omega
      have q2 : v ≠ n := by omega
      rw [hag v q1]; simp [q2]
    · intro c hc
      simp only [nocCons, List.mem_cons] at hc
      rcases hc with hc | hc
      · subst hc
        simp only [Con.sat, rel, req, Ctx.eff, condEq1_val, en, ea]
      · exact hcs c hc
    · simp only [List.map_cons, auxOk]
      refine ⟨?_, hax⟩
      rw [en]; apply admits_binary_of; split <;> simp

theorem countEq_agree (k : Rat) (n : Nat) (args : List Var) (x x' : Asg) (hag : ∀ v, v < n → x' v = x v)
    (hargs : ∀ a ∈ args, a < n) : countP (fun a => x' a == k) args = countP (fun a => x a == k) args := by
  induction args with
  | nil => rfl
  | cons a t ih =>
    simp only [countP, hag a (hargs a (by simp)), ih (fun b hb => hargs b (by simp [hb]))]

/-- `NumberofConstConverter_MIP`: fresh reified comparisons `flag_i = (a_i == k)` and `Σ flag_i = res`.
(Inputs where the preprocessing of `a_i == k` takes a shortcut are outside the model: `unmodelled`.) -/
theorem C01_gadget_numberof_const (res : Var) (k : Rat) (args : List Var) (B : Bnds) (n : Nat)
    (hr : res < n) (hargs : ∀ a ∈ args, a < n) :
    Exact (gNumberofConst res k args B n) n (fun _ => True)
      (fun x => x res = Fun.val x (.numberofConst k args)) := by
  have hcons : (gNumberofConst res k args B n).cons
      = nocCons k n args ++ [.linRhs .eq (ones (List.range' n args.length) ++ [(-1, res)]) 0] := by
    simp only [gNumberofConst]; rw [nocCons_eq]
  constructor
  · intro y _ _ hc
    rw [hcons] at hc
    have s1 := noc_sound k n args y (fun c h => hc c (by simp [h]))
    have s2 := hc (.linRhs .eq (ones (List.range' n args.length) ++ [(-1, res)]) 0) (by simp)
    simp only [Con.sat, Cmp.holds, evalLin_append, evalLin_cons, evalLin_nil, s1] at s2
    simp only [Fun.val]; grind
  · intro x _ h
    obtain ⟨x', hag, hcs, hax⟩ := noc_complete k n args hargs n x (Nat.le_refl n)
    refine ⟨x', hag, ?_, ?_⟩
    · simpa [gNumberofConst] using hax
    · rw [hcons]
      intro c hc
      simp only [List.mem_append, List.mem_singleton] at hc
      rcases hc with hc | hc
      · exact hcs c hc
      · subst hc
        have s1 := noc_sound k n args x' hcs
        have ec := countEq_agree k n args x x' hag hargs
        simp only [Con.sat, Cmp.holds, evalLin_append, evalLin_cons, evalLin_nil, s1, ec, hag res hr]
        simp only [Fun.val] at h; grind



/-! ## numberof with a variable reference value -/

def novCons (ref : Var) : Nat → List Var → List Con
  | _, [] => []
  | n, a :: t => Con.func n .none (.condLin .eq [(1, a), (-1, ref)] 0) :: novCons ref (n + 1) t

theorem novCons_eq (ref : Var) (n : Nat) (args : List Var) :
    ((List.zip (List.range' n args.length) args).map fun (f, a) =>
        Con.func f .none (.condLin .eq [(1, a), (-1, ref)] 0))
      = novCons ref n args := by
  induction args generalizing n with
  | nil => rfl
  | cons a t ih =>
    simp only [List.length_cons, List.range'_succ, List.zip_cons_cons, List.map_cons, novCons]
    rw [ih (n + 1)]

theorem condEq2_val (y : Asg) (a ref : Var) :
    Fun.val y (.condLin .eq [(1, a), (-1, ref)] 0) = (if y a = y ref then 1 else 0) := by
  show b2r (Cmp5.eq.holds (evalLin y [(1, a), (-1, ref)]) 0) = _
  unfold b2r
  by_cases e : y a = y ref
  · have h : Cmp5.eq.holds (evalLin y [(1, a), (-1, ref)]) 0 := by simp [Cmp5.holds]; grind
    rw [if_pos h, if_pos e]
  · have h : ¬ Cmp5.eq.holds (evalLin y [(1, a), (-1, ref)]) 0 := by simp [Cmp5.holds]; grind
    rw [if_neg h, if_neg e]

theorem nov_sound (ref : Var) (n : Nat) (args : List Var) (y : Asg) (h : ∀ c ∈ novCons ref n args, c.sat y) :
    evalLin y (ones (List.range' n args.length)) = countP (fun a => y a == y ref) args := by
  induction args generalizing n with
  | nil => rfl
  | cons a t ih =>
    have h0 := h (Con.func n .none (.condLin .eq [(1, a), (-1, ref)] 0)) (by simp [novCons])
    have ht := ih (n + 1) (fun c hc => h c (by simp [novCons, hc]))
    simp only [List.length_cons, List.range'_succ, ones_cons, evalLin_cons, countP, ht]
    simp only [Con.sat, rel, req, Ctx.eff, condEq2_val] at h0
    rw [h0]
    by_cases e : y a = y ref <;> simp [e] <;> grind

theorem nov_complete (ref : Var) (n0 : Nat) (hrf : ref < n0) (args : List Var) (hargs : ∀ a ∈ args, a < n0) :
    ∀ (n : Nat) (x : Asg), n0 ≤ n →
      ∃ x' : Asg, (∀ v, v < n → x' v = x v) ∧ (∀ c ∈ novCons ref n args, c.sat x') ∧
        auxOk n x' (args.map fun _ => VarInfo.binary) := by
  induction args with
  | nil => intro n x _; exact ⟨x, fun _ _ => rfl, by simp [novCons], by simp [auxOk]⟩
  | cons a t ih =>
    intro n x hn
    have ha : (a : Nat) < n0 := hargs a (by simp)
    have k1 : n0 ≤ n + 1 := by omega
    have k2 : n < n + 1 := by omega
    have k3 : a < n + 1 := Nat.lt_succ_of_lt (Nat.lt_of_lt_of_le ha hn)
    have k4 : a ≠ n := Nat.ne_of_lt (Nat.lt_of_lt_of_le ha hn)
    have k5 : ref < n + 1 := Nat.lt_succ_of_lt (Nat.lt_of_lt_of_le hrf hn)
    have k6 : ref ≠ n := Nat.ne_of_lt (Nat.lt_of_lt_of_le hrf hn)
    obtain ⟨x', hag, hcs, hax⟩ := ih (fun b hb => hargs b (by simp [hb])) (n + 1)
      (fun v => if v = n then (if x a = x ref then 1 else 0) else x v) k1
    have en : x' n = (if x a = x ref then 1 else 0) := by rw [hag n k2]; simp
    have ea : x' a = x a := by rw [hag a k3]; simp [k4]
    have er : x' ref = x ref := by rw [hag ref k5]; simp [k6]
    refine ⟨x', ?_, ?_, ?_⟩
    · intro v hv
      have q1 : v < n + 1 := by omega
      have q2 : v ≠ n := by omega
      rw [hag v q1]; simp [q2]
    · intro c hc
      simp only [novCons, List.mem_cons] at hc
      rcases hc with hc | hc
      · subst hc
        simp only [Con.sat, rel, req, Ctx.eff, condEq2_val, en, ea, er]
      · exact hcs c hc
    · simp only [List.map_cons, auxOk]
      refine ⟨?_, hax⟩
      rw [en]; apply admits_binary_of; split <;> simp

theorem countEqV_agree (ref : Var) (n : Nat) (args : List Var) (x x' : Asg) (hag : ∀ v, v < n → x' v = x v)
    (hrf : ref < n) (hargs : ∀ a ∈ args, a < n) :
    countP (fun a => x' a == x' ref) args = countP (fun a => x a == x ref) args := by
  induction args with
  | nil => rfl
  | cons a t ih =>
    have iht := ih (fun b hb => hargs b (by simp [hb]))
    simp only [countP, hag a (hargs a (by simp)), iht]
    rw [hag ref hrf]

/-- `NumberofVarConverter_MIP`: `flag_i = (a_i - ref == 0)`, `-res + Σ flag_i = 0` -/
theorem C01_gadget_numberof_var (res ref : Var) (args : List Var) (B : Bnds) (n : Nat)
    (hr : res < n) (hrf : ref < n) (hargs : ∀ a ∈ args, a < n) :
    Exact (gNumberofVar res ref args B n) n (fun _ => True)
      (fun x => x res = Fun.val x (.numberofVar ref args)) := by
  have hcons : (gNumberofVar res ref args B n).cons
      = novCons ref n args ++ [.linRhs .eq ((-1, res) :: ones (List.range' n args.length)) 0] := by
    simp only [gNumberofVar]; rw [novCons_eq]
  constructor
  · intro y _ _ hc
    rw [hcons] at hc
    have s1 := nov_sound ref n args y (fun c h => hc c (by simp [h]))
    have s2 := hc (.linRhs .eq ((-1, res) :: ones (List.range' n args.length)) 0) (by simp)
    simp only [Con.sat, Cmp.holds, evalLin_cons, s1] at s2
    simp only [Fun.val]; grind
  · intro x _ h
    obtain ⟨x', hag, hcs, hax⟩ := nov_complete ref n hrf args hargs n x (Nat.le_refl n)
    refine ⟨x', hag, ?_, ?_⟩
    · simpa [gNumberofVar] using hax
    · rw [hcons]
      intro c hc
      simp only [List.mem_append, List.mem_singleton] at hc
      rcases hc with hc | hc
      · exact hcs c hc
      · subst hc
        have s1 := nov_sound ref n args x' hcs
        have ec := countEqV_agree ref n args x x' hag hrf hargs
        simp only [Con.sat, Cmp.holds, evalLin_cons, s1, ec, hag res hr]
        simp only [Fun.val] at h; grind



/-! ## max / min: the non-convex direction (`res ≤ max`, `res ≥ min`) with one binary flag per argument -/

def mmInd (s : Rat) (res : Var) : Nat → List Var → List Con
  | _, [] => []
  | n, a :: t => Con.indLin n 1 .le [(1 * s, res), (-1 * s, a)] 0 :: mmInd s res (n + 1) t

theorem mmInd_eq (s : Rat) (res : Var) (n : Nat) (args : List Var) :
    ((List.zip (List.range' n args.length) args).map fun (f, a) =>
        Con.indLin f 1 .le [(1 * s, res), (-1 * s, a)] 0) = mmInd s res n args := by
  induction args generalizing n with
  | nil => rfl
  | cons a t ih =>
    simp only [List.length_cons, List.range'_succ, List.zip_cons_cons, List.map_cons, mmInd]
    rw [ih (n + 1)]

theorem mm_cons (s : Rat) (res : Var) (args : List Var) (n : Nat) :
    (mmNonConvex s res args n).cons
      = .linRhs .ge (ones (List.range' n args.length)) 1 :: mmInd s res n args := by
  simp only [mmNonConvex]; rw [mmInd_eq]

/-- some flag is 1 ⇒ the corresponding argument bounds `res` -/
theorem mm_sound (s : Rat) (res : Var) (n : Nat) (args : List Var) (y : Asg)
    (h : ∀ c ∈ mmInd s res n args, c.sat y)
    (hf : ∃ f ∈ List.range' n args.length, y f = 1) :
    ∃ a ∈ args, s * y res ≤ s * y a := by
  induction args generalizing n with
  | nil => simp at hf
  | cons a t ih =>
    obtain ⟨f, hfm, hf1⟩ := hf
    simp only [List.length_cons, List.range'_succ, List.mem_cons] at hfm
    rcases hfm with hfm | hfm
    · subst hfm
      have h0 := h (Con.indLin f 1 .le [(1 * s, res), (-1 * s, a)] 0) (by simp [mmInd])
      simp only [Con.sat, Cmp.holds, evalLin_cons, evalLin_nil] at h0
      have := h0 (by rw [hf1]; simp)
      exact ⟨a, by simp, by grind⟩
    · obtain ⟨b, hb, hle⟩ := ih (n + 1) (fun c hc => h c (by simp [mmInd, hc])) ⟨f, hfm, hf1⟩
      exact ⟨b, by simp [hb], hle⟩

theorem ones_zero (y : Asg) (l : List Var) (h : ∀ f ∈ l, y f = 0) : evalLin y (ones l) = 0 := by
  induction l with
  | nil => rfl
  | cons f t ih =>
    simp only [ones_cons, evalLin_cons, h f (by simp), ih (fun g hg => h g (by simp [hg]))]; grind

/-- all flags from `n` on set to zero: every indicator row is vacuous -/
theorem mm_zero (s : Rat) (res : Var) (n0 : Nat) (hres : res < n0) (args : List Var) (hargs : ∀ a ∈ args, a < n0)
    (n : Nat) (hn : n0 ≤ n) (x' : Asg) (hz : ∀ v, n ≤ v → x' v = 0) :
    (∀ c ∈ mmInd s res n args, c.sat x') ∧ auxOk n x' (args.map fun _ => VarInfo.binary) := by
  induction args generalizing n with
  | nil => simp [mmInd, auxOk]
  | cons a t ih =>
    have k1 : n0 ≤ n + 1 := by omega
    have iht := ih (fun b hb => hargs b (by simp [hb])) (n + 1) k1 (fun v hv => hz v (by omega))
    constructor
    · intro c hc
      simp only [mmInd, List.mem_cons] at hc
      rcases hc with hc | hc
      · subst hc
        simp only [Con.sat]
        intro h1; rw [hz n (Nat.le_refl n)] at h1; exact absurd h1 (by simp)
      · exact iht.1 c hc
    · simp only [List.map_cons, auxOk]
      exact ⟨by rw [hz n (Nat.le_refl n)]; exact admits_binary_of (Or.inl rfl), iht.2⟩

theorem mm_complete (s : Rat) (res : Var) (n0 : Nat) (hres : res < n0) (args : List Var)
    (hargs : ∀ a ∈ args, a < n0) :
    ∀ (n : Nat) (x : Asg), n0 ≤ n → (∃ a ∈ args, s * x res ≤ s * x a) →
      ∃ x' : Asg, (∀ v, v < n → x' v = x v) ∧ (∀ c ∈ mmInd s res n args, c.sat x') ∧
        auxOk n x' (args.map fun _ => VarInfo.binary) ∧ 1 ≤ evalLin x' (ones (List.range' n args.length)) := by
  induction args with
  | nil => intro n x _ h; simp at h
  | cons a t ih =>
    intro n x hn hex
    have ha : (a : Nat) < n0 := hargs a (by simp)
    have k1 : n0 ≤ n + 1 := by omega
    have k2 : n < n + 1 := by omega
    have ka : a ≠ n := Nat.ne_of_lt (Nat.lt_of_lt_of_le ha hn)
    have kr : res ≠ n := Nat.ne_of_lt (Nat.lt_of_lt_of_le hres hn)
    by_cases hhead : s * x res ≤ s * x a
    · -- choose the head: flag n = 1, all later flags 0
      have hx'z : ∀ v, n + 1 ≤ v → (fun v => if v = n then (1 : Rat) else if n < v then 0 else x v) v = 0 := by
        intro v hv
        have q1 : v ≠ n := by omega
        have q2 : n < v := by omega
        simp [q1, q2]
      have zt := mm_zero s res n0 hres t (fun b hb => hargs b (by simp [hb])) (n + 1) k1 _ hx'z
      refine ⟨fun v => if v = n then (1 : Rat) else if n < v then 0 else x v, ?_, ?_, ?_, ?_⟩
      · intro v hv
        have q1 : v ≠ n := by omega
        have q2 : ¬ n < v := by omega
        simp [q1, q2]
      · intro c hc
        simp only [mmInd, List.mem_cons] at hc
        rcases hc with hc | hc
        · subst hc
          have q3 : ¬ n < a := Nat.lt_asymm (Nat.lt_of_lt_of_le ha hn)
          have q4 : ¬ n < res := Nat.lt_asymm (Nat.lt_of_lt_of_le hres hn)
          simp only [Con.sat, Cmp.holds, evalLin_cons, evalLin_nil, ka, kr, q3, q4, if_false]
          intro _; grind
        · exact zt.1 c hc
      · simp only [List.map_cons, auxOk, if_true]
        exact ⟨admits_binary_of (Or.inr rfl), zt.2⟩
      · simp only [List.length_cons, List.range'_succ, ones_cons, evalLin_cons, if_true]
        have := ones_zero (fun v => if v = n then (1 : Rat) else if n < v then 0 else x v)
          (List.range' (n + 1) t.length) (by
            intro f hf
            have : n + 1 ≤ f := by simp [List.mem_range'] at hf; omega
            exact hx'z f this)
        rw [this]; grind
    · -- the witness is in the tail: flag n = 0
      have hex' : ∃ b ∈ t, s * x res ≤ s * x b := by
        obtain ⟨b, hb, hle⟩ := hex
        simp only [List.mem_cons] at hb
        rcases hb with hb | hb
        · subst hb; exact absurd hle hhead
        · exact ⟨b, hb, hle⟩
      have hex1 : ∃ b ∈ t, s * (fun v => if v = n then (0 : Rat) else x v) res
          ≤ s * (fun v => if v = n then (0 : Rat) else x v) b := by
        obtain ⟨b, hb, hle⟩ := hex'
        have hbn : (b : Nat) < n0 := hargs b (by simp [hb])
        have kb : b ≠ n := Nat.ne_of_lt (Nat.lt_of_lt_of_le hbn hn)
        exact ⟨b, hb, by simp [kr, kb]; exact hle⟩
      obtain ⟨x', hag, hcs, hax, hsum⟩ := ih (fun b hb => hargs b (by simp [hb])) (n + 1)
        (fun v => if v = n then (0 : Rat) else x v) k1 hex1
      have en : x' n = 0 := by rw [hag n k2]; simp
      refine ⟨x', ?_, ?_, ?_, ?_⟩
      · intro v hv
        have q1 : v < n + 1 := by omega
        have q2 : v ≠ n := by omega
        rw [hag v q1]; simp [q2]
      · intro c hc
        simp only [mmInd, List.mem_cons] at hc
        rcases hc with hc | hc
        · subst hc
          simp only [Con.sat]
          intro h1; rw [en] at h1; exact absurd h1 (by simp)
        · exact hcs c hc
      · simp only [List.map_cons, auxOk]
        exact ⟨by rw [en]; exact admits_binary_of (Or.inl rfl), hax⟩
      · simp only [List.length_cons, List.range'_succ, ones_cons, evalLin_cons, en]; grind


theorem le_maxL_iff (x : Asg) (a : Var) (t : List Var) (r : Rat) :
    r ≤ maxL x a t ↔ ∃ b ∈ a :: t, r ≤ x b := by
  induction t generalizing a with
  | nil => simp [maxL]
  | cons b t ih =>
    simp only [maxL]
    split
    · rename_i hle
      rw [ih b]
      constructor
      · intro ⟨c, hc, h⟩; exact ⟨c, by simp [List.mem_cons] at hc ⊢; exact Or.inr hc, h⟩
      · intro ⟨c, hc, h⟩
        simp only [List.mem_cons] at hc
        rcases hc with hc | hc
        · subst hc
          have : r ≤ maxL x b t := by grind
          exact (ih b).mp this
        · exact ⟨c, by simp [List.mem_cons]; exact hc, h⟩
    · rename_i hnle
      constructor
      · intro h; exact ⟨a, by simp, h⟩
      · intro ⟨c, hc, h⟩
        simp only [List.mem_cons] at hc
        rcases hc with hc | hc
        · subst hc; exact h
        · have : r ≤ maxL x b t := (ih b).mpr ⟨c, by simp [List.mem_cons]; exact hc, h⟩
          grind

theorem minL_le_iff (x : Asg) (a : Var) (t : List Var) (r : Rat) :
    minL x a t ≤ r ↔ ∃ b ∈ a :: t, x b ≤ r := by
  induction t generalizing a with
  | nil => simp [minL]
  | cons b t ih =>
    simp only [minL]
    split
    · rename_i hle
      constructor
      · intro h; exact ⟨a, by simp, h⟩
      · intro ⟨c, hc, h⟩
        simp only [List.mem_cons] at hc
        rcases hc with hc | hc
        · subst hc; exact h
        · have : minL x b t ≤ r := (ih b).mpr ⟨c, by simp [List.mem_cons]; exact hc, h⟩
          grind
    · rename_i hnle
      rw [ih b]
      constructor
      · intro ⟨c, hc, h⟩; exact ⟨c, by simp [List.mem_cons] at hc ⊢; exact Or.inr hc, h⟩
      · intro ⟨c, hc, h⟩
        simp only [List.mem_cons] at hc
        rcases hc with hc | hc
        · subst hc
          have : minL x b t ≤ r := by grind
          exact (ih b).mp this
        · exact ⟨c, by simp [List.mem_cons]; exact hc, h⟩

theorem auxOk_binary (n : Nat) (y : Asg) (l : List Var) (h : auxOk n y (l.map fun _ => VarInfo.binary)) :
    ∀ f ∈ List.range' n l.length, y f = 0 ∨ y f = 1 := by
  induction l generalizing n with
  | nil => simp
  | cons a t ih =>
    simp only [List.map_cons, auxOk] at h
    intro f hf
    simp only [List.length_cons, List.range'_succ, List.mem_cons] at hf
    rcases hf with hf | hf
    · subst hf; exact binary_admits h.1
    · exact ih (n + 1) h.2 f hf

theorem flag_exists (n : Nat) (y : Asg) (l : List Var) (hb : ∀ f ∈ List.range' n l.length, y f = 0 ∨ y f = 1)
    (hs : 1 ≤ evalLin y (ones (List.range' n l.length))) : ∃ f ∈ List.range' n l.length, y f = 1 := by
  cases hany : (List.range' n l.length).any (fun f => y f == 1)
  · have := sum_bin_none y _ hb hany
    rw [this] at hs; exact absurd hs (by grind)
  · obtain ⟨f, hf, h1⟩ := List.any_eq_true.mp hany
    exact ⟨f, hf, by simpa using h1⟩

theorem mmConvex_iff (s : Rat) (res : Var) (args : List Var) (y : Asg) :
    (∀ c ∈ (mmConvex s res args).cons, c.sat y) ↔ ∀ b ∈ args, s * y b ≤ s * y res := by
  simp only [mmConvex, List.mem_map, forall_exists_index, and_imp, forall_apply_eq_imp_iff₂, Con.sat, Cmp.holds,
    evalLin_cons, evalLin_nil]
  constructor
  · intro h b hb; have := h b hb; grind
  · intro h b hb; have := h b hb; grind

/-- numeric dispatch, auxiliaries only in the positive part -/
theorem dispatch_num_pos (ctx : Ctx) (rv : VarInfo) (n : Nat) (oN : Out) (oPf : Nat → Out)
    (hN0 : oN.refusal = none) (hNv : oN.vars = []) (hP0 : ∀ m, (oPf m).refusal = none) :
    (dispatch ctx false rv n (fun _ => oN) oPf).vars = (if ctx.eff.hasPos = true then (oPf n).vars else []) ∧
    (dispatch ctx false rv n (fun _ => oN) oPf).cons
      = (if ctx.eff.hasNeg = true then oN.cons else []) ++ (if ctx.eff.hasPos = true then (oPf n).cons else []) := by
  cases hn : ctx.eff.hasNeg <;> cases hp : ctx.eff.hasPos <;>
    simp [dispatch, needNeg, needPos, hn, hp, hN0, hNv, hP0]

/-- numeric dispatch, auxiliaries only in the negative part -/
theorem dispatch_num_neg (ctx : Ctx) (rv : VarInfo) (n : Nat) (oNf : Nat → Out) (oP : Out)
    (hN0 : ∀ m, (oNf m).refusal = none) (hP0 : oP.refusal = none) (hPv : oP.vars = []) :
    (dispatch ctx false rv n oNf (fun _ => oP)).vars = (if ctx.eff.hasNeg = true then (oNf n).vars else []) ∧
    (dispatch ctx false rv n oNf (fun _ => oP)).cons
      = (if ctx.eff.hasNeg = true then (oNf n).cons else []) ++ (if ctx.eff.hasPos = true then oP.cons else []) := by
  cases hn : ctx.eff.hasNeg <;> cases hp : ctx.eff.hasPos <;>
    simp [dispatch, needNeg, needPos, hn, hp, hN0, hP0, hPv]

/-- the non-convex part alone: sound -/
theorem mmNonConvex_sound (s : Rat) (res : Var) (args : List Var) (n : Nat) (y : Asg)
    (hax : auxOk n y (mmNonConvex s res args n).vars) (hc : ∀ c ∈ (mmNonConvex s res args n).cons, c.sat y) :
    ∃ b ∈ args, s * y res ≤ s * y b := by
  rw [mm_cons] at hc
  have hsum := hc (.linRhs .ge (ones (List.range' n args.length)) 1) (by simp)
  simp only [Con.sat, Cmp.holds] at hsum
  have hvars : auxOk n y (args.map fun _ => VarInfo.binary) := by simpa [mmNonConvex] using hax
  have hfl := flag_exists n y args (auxOk_binary n y args hvars) hsum
  exact mm_sound s res n args y (fun c hcm => hc c (by simp [hcm])) hfl

/-- the non-convex part alone: complete -/
theorem mmNonConvex_complete (s : Rat) (res : Var) (args : List Var) (n : Nat) (x : Asg)
    (hr : res < n) (hargs : ∀ b ∈ args, b < n) (h : ∃ b ∈ args, s * x res ≤ s * x b) :
    ∃ x' : Asg, agree n x x' ∧ auxOk n x' (mmNonConvex s res args n).vars ∧
      ∀ c ∈ (mmNonConvex s res args n).cons, c.sat x' := by
  obtain ⟨x', hag, hcs, hax, hsum⟩ := mm_complete s res n hr args hargs n x (Nat.le_refl n) h
  refine ⟨x', hag, by simpa [mmNonConvex] using hax, ?_⟩
  rw [mm_cons]
  intro c hc
  simp only [List.mem_cons] at hc
  rcases hc with hc | hc
  · subst hc; simpa [Con.sat, Cmp.holds] using hsum
  · exact hcs c hc

/-- `MaxConverter_MIP`, every context: convex rows for `res ≥ max`, flags + indicators for `res ≤ max` -/
theorem C01_gadget_max (res a : Var) (t : List Var) (ctx : Ctx) (B : Bnds) (n : Nat)
    (hr : res < n) (hargs : ∀ b ∈ a :: t, b < n) :
    Exact (gMax res (a :: t) ctx B n) n (fun _ => True)
      (fun x => rel ctx (x res) (Fun.val x (.max (a :: t)))) := by
  obtain ⟨dv, dc⟩ := dispatch_num_pos ctx (B res) n (mmConvex 1 res (a :: t)) (fun m => mmNonConvex 1 res (a :: t) m)
    rfl rfl (fun _ => rfl)
  constructor
  · intro y _ haux hc
    simp only [gMax] at haux hc
    rw [dv] at haux; rw [dc] at hc
    rw [rel_iff]; simp only [Fun.val]
    constructor
    · intro hp
      simp only [hp, if_true] at haux hc
      obtain ⟨b, hb, hle⟩ := mmNonConvex_sound 1 res (a :: t) n y haux (fun c hcm => hc c (by simp [hcm]))
      exact (le_maxL_iff y a t _).mpr ⟨b, hb, by grind⟩
    · intro hn
      simp only [hn, if_true] at hc
      have := (mmConvex_iff 1 res (a :: t) y).mp (fun c hcm => hc c (by simp [hcm]))
      exact (maxL_le_iff y a t _).mpr (fun b hb => by have := this b hb; grind)
  · intro x _ h
    rw [rel_iff] at h; simp only [Fun.val] at h
    simp only [Out.realizable, gMax]; rw [dv, dc]
    have convex_at : ∀ x' : Asg, agree n x x' → ctx.eff.hasNeg = true →
        ∀ c ∈ (mmConvex 1 res (a :: t)).cons, c.sat x' := by
      intro x' hag hn
      refine (mmConvex_iff 1 res (a :: t) x').mpr ?_
      intro b' hb'
      rw [hag b' (hargs b' hb'), hag res hr]
      have := (maxL_le_iff x a t _).mp (h.2 hn) b' hb'
      grind
    by_cases hp : ctx.eff.hasPos = true
    · obtain ⟨b, hb, hle⟩ := (le_maxL_iff x a t _).mp (h.1 hp)
      obtain ⟨x', hag, hax, hcs⟩ := mmNonConvex_complete 1 res (a :: t) n x hr hargs ⟨b, hb, by grind⟩
      refine ⟨x', hag, by simpa [hp] using hax, ?_⟩
      intro c hc
      simp only [hp, if_true, List.mem_append] at hc
      rcases hc with hc | hc
      · by_cases hn : ctx.eff.hasNeg = true
        · simp only [hn, if_true] at hc; exact convex_at x' hag hn c hc
        · simp [hn] at hc
      · exact hcs c hc
    · refine ⟨x, fun _ _ => rfl, by simp [hp, auxOk], ?_⟩
      intro c hc
      simp only [hp, Bool.false_eq_true, if_false, List.append_nil] at hc
      by_cases hn : ctx.eff.hasNeg = true
      · simp only [hn, if_true] at hc; exact convex_at x (fun _ _ => rfl) hn c hc
      · simp [hn] at hc

/-- `MinConverter_MIP`, every context: convex rows for `res ≤ min`, flags + indicators for `res ≥ min` -/
theorem C01_gadget_min (res a : Var) (t : List Var) (ctx : Ctx) (B : Bnds) (n : Nat)
    (hr : res < n) (hargs : ∀ b ∈ a :: t, b < n) :
    Exact (gMin res (a :: t) ctx B n) n (fun _ => True)
      (fun x => rel ctx (x res) (Fun.val x (.min (a :: t)))) := by
  obtain ⟨dv, dc⟩ := dispatch_num_neg ctx (B res) n (fun m => mmNonConvex (-1) res (a :: t) m) (mmConvex (-1) res (a :: t))
    (fun _ => rfl) rfl rfl
  constructor
  · intro y _ haux hc
    simp only [gMin] at haux hc
    rw [dv] at haux; rw [dc] at hc
    rw [rel_iff]; simp only [Fun.val]
    constructor
    · intro hp
      simp only [hp, if_true] at hc
      have := (mmConvex_iff (-1) res (a :: t) y).mp (fun c hcm => hc c (by simp [hcm]))
      exact (le_minL_iff y a t _).mpr (fun b hb => by have := this b hb; grind)
    · intro hn
      simp only [hn, if_true] at haux hc
      obtain ⟨b, hb, hle⟩ := mmNonConvex_sound (-1) res (a :: t) n y haux (fun c hcm => hc c (by simp [hcm]))
      exact (minL_le_iff y a t _).mpr ⟨b, hb, by grind⟩
  · intro x _ h
    rw [rel_iff] at h; simp only [Fun.val] at h
    simp only [Out.realizable, gMin]; rw [dv, dc]
    have convex_at : ∀ x' : Asg, agree n x x' → ctx.eff.hasPos = true →
        ∀ c ∈ (mmConvex (-1) res (a :: t)).cons, c.sat x' := by
      intro x' hag hp
      refine (mmConvex_iff (-1) res (a :: t) x').mpr ?_
      intro b' hb'
      rw [hag b' (hargs b' hb'), hag res hr]
      have := (le_minL_iff x a t _).mp (h.1 hp) b' hb'
      grind
    by_cases hn : ctx.eff.hasNeg = true
    · obtain ⟨b, hb, hle⟩ := (minL_le_iff x a t _).mp (h.2 hn)
      obtain ⟨x', hag, hax, hcs⟩ := mmNonConvex_complete (-1) res (a :: t) n x hr hargs ⟨b, hb, by grind⟩
      refine ⟨x', hag, by simpa [hn] using hax, ?_⟩
      intro c hc
      simp only [hn, if_true, List.mem_append] at hc
      rcases hc with hc | hc
      · exact hcs c hc
      · by_cases hp : ctx.eff.hasPos = true
        · simp only [hp, if_true] at hc; exact convex_at x' hag hp c hc
        · simp [hp] at hc
    · refine ⟨x, fun _ _ => rfl, by simp [hn, auxOk], ?_⟩
      intro c hc
      simp only [hn, Bool.false_eq_true, if_false, List.nil_append] at hc
      by_cases hp : ctx.eff.hasPos = true
      · simp only [hp, if_true] at hc; exact convex_at x (fun _ _ => rfl) hp c hc
      · simp [hp] at hc


/-! ## unary encoding -/

theorem uencOK_zero (y : Asg) (w : Rat) (k : Int) (flags : List Var) (hz : ∀ f ∈ flags, y f = 0)
    (hw : w < (k : Rat)) : uencOK y w k flags := by
  induction flags generalizing k with
  | nil => trivial
  | cons f t ih =>
    refine ⟨?_, ih (k + 1) (fun g hg => hz g (by simp [hg])) (by push_cast; grind)⟩
    rw [hz f (by simp)]
    constructor
    · intro h; exact absurd h (by grind)
    · intro h; rw [h] at hw; exact absurd hw (by grind)

theorem uencLin_zero (y : Asg) (k : Int) (flags : List Var) (hz : ∀ f ∈ flags, y f = 0) :
    evalLin y (uencLin k flags) = 0 := by
  induction flags generalizing k with
  | nil => rfl
  | cons f t ih =>
    simp only [uencLin, evalLin_cons, hz f (by simp), ih (k + 1) (fun g hg => hz g (by simp [hg]))]; grind

theorem all_zero_of_sum (y : Asg) (flags : List Var) (hb : ∀ f ∈ flags, y f = 0 ∨ y f = 1)
    (hs : evalLin y (ones flags) = 0) : ∀ f ∈ flags, y f = 0 := by
  induction flags with
  | nil => simp
  | cons f t ih =>
    have hbt : ∀ g ∈ t, y g = 0 ∨ y g = 1 := fun g hg => hb g (by simp [hg])
    have bt := sum_bin_bounds y t hbt
    simp only [ones_cons, evalLin_cons] at hs
    intro g hg
    simp only [List.mem_cons] at hg
    rcases hb f (by simp) with h0 | h0
    · rw [h0] at hs
      rcases hg with hg | hg
      · subst hg; exact h0
      · exact ih hbt (by grind) g hg
    · rw [h0] at hs; exact absurd hs (by grind)

/-- soundness: exactly-one + weighted-sum rows make every flag the reification of `w = value` and put `w` in range -/
theorem uenc_sound (y : Asg) (w : Rat) (k : Int) (flags : List Var) (hb : ∀ f ∈ flags, y f = 0 ∨ y f = 1)
    (h1 : evalLin y (ones flags) = 1) (h2 : evalLin y (uencLin k flags) = w) :
    uencOK y w k flags ∧ (k : Rat) ≤ w := by
  induction flags generalizing k with
  | nil => simp at h1
  | cons f t ih =>
    have hbt : ∀ g ∈ t, y g = 0 ∨ y g = 1 := fun g hg => hb g (by simp [hg])
    simp only [ones_cons, evalLin_cons] at h1
    simp only [uencLin, evalLin_cons] at h2
    rcases hb f (by simp) with h0 | h0
    · rw [h0] at h1 h2
      have i := ih (k + 1) hbt (by grind) (by grind)
      have hk : ((k + 1 : Int) : Rat) = (k : Rat) + 1 := by push_cast; rfl
      rw [hk] at i
      refine ⟨⟨?_, i.1⟩, by grind⟩
      rw [h0]
      constructor
      · intro h; exact absurd h (by grind)
      · intro h; have := i.2; rw [h] at this; exact absurd this (by grind)
    · rw [h0] at h1 h2
      have hz := all_zero_of_sum y t hbt (by grind)
      have hl := uencLin_zero y (k + 1) t hz
      rw [hl] at h2
      have hw : w = (k : Rat) := by grind
      refine ⟨⟨?_, ?_⟩, by grind⟩
      · rw [h0]; constructor
        · intro _; exact hw
        · intro _; rfl
      · apply uencOK_zero y w (k + 1) t hz; rw [hw]; push_cast; grind

/-- completeness: if every flag is the reification of `w = value` and `w` is one of the encoded values, both rows hold -/
theorem uenc_complete (y : Asg) (w : Rat) (k : Int) (flags : List Var) (hb : ∀ f ∈ flags, y f = 0 ∨ y f = 1)
    (hok : uencOK y w k flags) (i : Nat) (hi : i < flags.length) (hw : w = ((k + (i : Int) : Int) : Rat)) :
    evalLin y (ones flags) = 1 ∧ evalLin y (uencLin k flags) = w := by
  induction flags generalizing k i with
  | nil => simp at hi
  | cons f t ih =>
    have hbt : ∀ g ∈ t, y g = 0 ∨ y g = 1 := fun g hg => hb g (by simp [hg])
    obtain ⟨hf, hrest⟩ := hok
    simp only [ones_cons, uencLin, evalLin_cons]
    cases i with
    | zero =>
      have hwk : w = (k : Rat) := by rw [hw]; simp
      have hf1 : y f = 1 := hf.mpr hwk
      -- all later flags are zero: their values are > k = w
      have hz : ∀ g ∈ t, y g = 0 := by
        have : ∀ (k' : Int) (l : List Var), (∀ g ∈ l, y g = 0 ∨ y g = 1) → uencOK y w k' l → w < (k' : Rat) →
            ∀ g ∈ l, y g = 0 := by
          intro k' l
          induction l generalizing k' with
          | nil => simp
          | cons g l' ihl =>
            intro hbl hokl hlt g' hg'
            simp only [List.mem_cons] at hg'
            obtain ⟨hg, hr⟩ := hokl
            rcases hg' with hg' | hg'
            · subst hg'
              rcases hbl g' (by simp) with h | h
              · exact h
              · have := hg.mp h; rw [this] at hlt; exact absurd hlt (by grind)
            · exact ihl (k' + 1) (fun a ha => hbl a (by simp [ha])) hr (by push_cast; grind) g' hg'
        exact this (k + 1) t hbt hrest (by rw [hwk]; push_cast; grind)
      have s0 := sum_bin_none y t hbt (by
        rw [List.any_eq_false]; intro g hg; simp [hz g hg])
      rw [hf1, s0, uencLin_zero y (k + 1) t hz, hwk]; grind
    | succ j =>
      have hne : ¬ w = (k : Rat) := by
        rw [hw]; intro h
        have : (k + ((j + 1 : Nat) : Int)) = k := by exact_mod_cast h
        omega
      have hf0 : y f = 0 := by
        rcases hb f (by simp) with h | h
        · exact h
        · exact absurd (hf.mp h) hne
      have := ih (k + 1) hbt hrest j (by simpa using hi) (by rw [hw]; congr 1; omega)
      rw [hf0, this.1, this.2]; grind

/-- `CreateUnaryEncoding`: with binary flags and `v` an integer of the encoded range, the two rows hold iff every flag
is the reification of `v = its value` -/
theorem C01_gadget_unary_encoding (v : Var) (lb : Int) (flags : List Var) (y : Asg)
    (hb : ∀ f ∈ flags, y f = 0 ∨ y f = 1)
    (hv : ∃ i : Nat, i < flags.length ∧ y v = ((lb + (i : Int) : Int) : Rat)) :
    (∀ c ∈ (gUnaryEnc v lb flags).cons, c.sat y) ↔ uencOK y (y v) lb flags := by
  simp only [gUnaryEnc, List.mem_cons, List.not_mem_nil, or_false, forall_eq_or_imp, forall_eq, Con.sat, Cmp.holds,
    evalLin_append, evalLin_cons, evalLin_nil]
  constructor
  · intro ⟨h1, h2⟩
    exact (uenc_sound y (y v) lb flags hb h1 (by grind)).1
  · intro hok
    obtain ⟨i, hi, hw⟩ := hv
    have := uenc_complete y (y v) lb flags hb hok i hi hw
    exact ⟨this.1, by rw [this.2]; grind⟩

/-- the rows alone already force `v` into the encoded range and make it integral (no hypothesis on `v`) -/
theorem C01_gadget_unary_encoding_sound (v : Var) (lb : Int) (flags : List Var) (y : Asg)
    (hb : ∀ f ∈ flags, y f = 0 ∨ y f = 1) (hc : ∀ c ∈ (gUnaryEnc v lb flags).cons, c.sat y) :
    uencOK y (y v) lb flags ∧ (lb : Rat) ≤ y v := by
  simp only [gUnaryEnc, List.mem_cons, List.not_mem_nil, or_false, forall_eq_or_imp, forall_eq, Con.sat, Cmp.holds,
    evalLin_append, evalLin_cons, evalLin_nil] at hc
  exact uenc_sound y (y v) lb flags hb hc.1 (by grind)


/-! ## product with a binary variable (mul.h), term level -/

/-- `c·b·o = c·r` whenever `r = IfThen(b, o, zero)`, `b` is 0/1 and `zero` is fixed at 0: the linearised row has the
same value as the quadratic one -/
theorem C01_gadget_mul_binary_term (c : Rat) (b o zero r : Var) (lin : Lin) (y : Asg)
    (hb : y b = 0 ∨ y b = 1) (hz : y zero = 0) (hr : y r = Fun.val y (.ifthen b o zero)) :
    evalLin y (lin ++ [(c, r)]) = evalLin y lin + evalQuad y [(c, b, o)] := by
  simp only [evalLin_append, evalLin_cons, evalLin_nil, evalQuad, hr, Fun.val]
  rcases hb with h | h <;> simp [h, hz] <;> grind

/-- the step's functional constraint is realizable for every point (fresh result variable within the
preprocessed if-then bounds when `o` respects its bounds) -/
theorem C01_gadget_mul_binary_term_realizable (b o zero : Var) (B : Bnds) (n : Nat) (x : Asg)
    (hbn : b < n) (hon : o < n) (hzn : zero < n) (hb : x b = 0 ∨ x b = 1) (hz : x zero = 0) (hd : inDom B x o) :
    (gMulBinTerm b o zero B n).realizable n x := by
  refine ⟨fun v => if v = n then (if x b = 1 then x o else 0) else x v, ?_, ?_, ?_⟩
  · intro v hv; simp [Nat.ne_of_lt hv]
  · simp only [gMulBinTerm, auxOk, and_true, if_true]
    refine ⟨?_, ?_, ?_⟩
    · intro l hl
      cases h1 : (B o).lb with
      | none => simp [h1] at hl
      | some l1 =>
        simp [h1] at hl; subst hl
        have := hd.1 l1 h1
        split <;> split <;> grind
    · intro u hu
      cases h1 : (B o).ub with
      | none => simp [h1] at hu
      | some u1 =>
        simp [h1] at hu; subst hu
        have := hd.2.1 u1 h1
        split <;> split <;> grind
    · intro hi
      split
      · exact hd.2.2 hi
      · exact isIntVal_zero
  · have e1 : b ≠ n := Nat.ne_of_lt hbn
    have e2 : o ≠ n := Nat.ne_of_lt hon
    have e3 : zero ≠ n := Nat.ne_of_lt hzn
    simp [gMulBinTerm, Con.sat, rel, req, Ctx.eff, Fun.val, e1, e2, e3, hz]

/-!
## Stage 2 (NOT proved here beyond the single-nesting fragment above): composition

`C01_validator_sound : validTrace t = true → ProjEquiv (orig t) (delivered t)` (DESIGN §5 C01).
What exists: every conversion step listed above is locally exact for the relation its stored context
asks for (`C01_gadget_*`), and every propagation rule hands its arguments contexts that justify the
parent's context (`C01_ctx_sound_*`).
What is missing for the whole-model theorem:
* a `Trace` type + `validTrace` (each step is an instance of its gadget with the logged context and
  bounds; every bridged functional constraint was converted in every direction of its *final* context —
  the late-context defect A19(b) lives here; bounds used by big-M steps are implied by final bounds);
* `Fun.val` congruence (`f.val` reads only the variables of `f`) to chain steps over growing variable sets;
* the induction over steps in reverse creation order and the objective clause;
* the fragment proved above (`C01_compose_root_range_single_partial`, instance `C01_compose_example_abs`) covers one
  functional constraint nested once under a root linear range constraint; nesting depth > 1, shared subexpressions,
  several result variables in one body, logical roots and objectives are not covered;
* gadgets not yet modelled: alldiff rows over the unary flags, complementarity, PL→SOS2, SOS2→ZZI, pow, general
  products (unary encoding and the binary-product term step are modelled and proved but not correspondence-checked per gadget); modelled and correspondence-checked without theorem: count with non-binary arguments, implication with fixed-true result.
Until then whole-model equivalence is *validated per run* by checks/c01.py (projection-equivalence
oracle on generated models), not proved.
-/

end MpVerif.C01

import MpVerif.C01.Model
import MpVerif.Gen.Context
/-!
# C01 — the hand model of `mp::Context` equals the code

`MpVerif/Gen/Context.lean` is regenerated on every check run from `include/mp/flat/context.h` of the tree under
test (compiled, every member function tabulated on every value / pair: the complete function graphs).  The theorems
below state that the hand-written `Ctx` operations, which all context theorems (`C01_ctx_*`, `C01_compose`) are
about, are these functions.  A change of `context.h` that alters any value makes one of them fail.
-/
namespace MpVerif.C01

def Ctx.code : Ctx → Nat
  | .none => 0 | .pos => 1 | .neg => 2 | .mix => 3

theorem C01_ctxgen_enum : Gen.Context.enumValues.Nodup ∧ Gen.Context.enumValues.length = 4 := by decide
theorem C01_ctxgen_default : Gen.Context.defaultValue = Ctx.none.code := by decide
theorem C01_ctxgen_add (a b : Ctx) : Gen.Context.add a.code b.code = (a.add b).code := by
  cases a <;> cases b <;> rfl
theorem C01_ctxgen_plus (a : Ctx) : Gen.Context.unaryPlus a.code = a.plus.code := by cases a <;> rfl
theorem C01_ctxgen_minus (a : Ctx) : Gen.Context.unaryMinus a.code = a.flip.code := by cases a <;> rfl
theorem C01_ctxgen_hasPositive (a : Ctx) : Gen.Context.hasPositive a.code = a.hasPos := by cases a <;> rfl
theorem C01_ctxgen_hasNegative (a : Ctx) : Gen.Context.hasNegative a.code = a.hasNeg := by cases a <;> rfl
theorem C01_ctxgen_isNone (a : Ctx) : Gen.Context.isNone a.code = decide (a = .none) := by cases a <;> rfl
theorem C01_ctxgen_isPositive (a : Ctx) : Gen.Context.isPositive a.code = decide (a = .pos) := by cases a <;> rfl
theorem C01_ctxgen_isNegative (a : Ctx) : Gen.Context.isNegative a.code = decide (a = .neg) := by cases a <;> rfl
theorem C01_ctxgen_isMixed (a : Ctx) : Gen.Context.isMixed a.code = decide (a = .mix) := by cases a <;> rfl

end MpVerif.C01

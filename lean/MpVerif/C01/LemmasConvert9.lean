import MpVerif.C01.LemmasConvert8
/-!
# C01 — lemmas about the reference converter, part 9: every gadget of the fragment gives a valid (raw) conversion step
-/
namespace MpVerif.C01

theorem linBnd_congr (B Br : Bnds) (body : Lin) (h : ∀ p ∈ body, Br p.2 = B p.2) : linBnd Br body = linBnd B body := by
  induction body with
  | nil => rfl
  | cons p t ih =>
    obtain ⟨c, v⟩ := p
    have hv := h (c, v) (by simp)
    have ht := ih (fun p hp => h p (by simp [hp]))
    simp only at hv
    simp only [linBnd, hv, ht]

theorem exact_restrict_iff {o : Out} {n : Nat} {D D' P Q : Asg → Prop} (h : Exact o n D P)
    (hD : ∀ x, D' x → D x) (hPQ : ∀ x, D' x → (P x ↔ Q x)) : Exact o n D' Q :=
  ⟨fun y hy ha hc => (hPQ y hy).mp (h.1 y (hD y hy) ha hc), fun x hx hq => h.2 x (hD x hx) ((hPQ x hx).mpr hq)⟩

theorem binary_isBinary : VarInfo.binary.isBinary = true := by decide

theorem isBin01_eq {i : VarInfo} (h : isBin01 i = true) : i = VarInfo.binary := by simpa [isBin01] using h

/-- `Not` with a fixed argument: the constant variable carries `1 - c`, the row equates the result with it -/
theorem gNotFixed_exact (res arg : Var) (B : Bnds) (n : Nat) (hr : res < n) (ha : arg < n) (hf : (B arg).isFixed = true) :
    Exact (gNotFixed res arg B n) n (fun x => inDom B x arg) (fun x => x res = Fun.val x (.not arg)) := by
  constructor
  · intro y hd haux hc
    have hya := fixed_val hf hd
    simp only [gNotFixed, auxOk, VarInfo.admits, and_true] at haux
    obtain ⟨h1, h2, _⟩ := haux
    have h1' := h1 _ rfl
    have h2' := h2 _ rfl
    have hc' := hc (.linRhs .eq [(-1, res), (1, n)] 0) (by simp [gNotFixed])
    simp [Con.sat, Cmp.holds, evalLin] at hc'
    simp only [Fun.val]
    grind
  · intro x hd h
    have hya := fixed_val hf hd
    refine ⟨fun v => if v = n then 1 - x arg else x v, ?_, ?_, ?_⟩
    · intro v hv; simp [Nat.ne_of_lt hv]
    · simp only [gNotFixed, auxOk, and_true, if_true]
      refine ⟨fun l hl => ?_, fun u hu => ?_, fun hi => by simp at hi⟩
      · simp at hl; subst hl; rw [hya]; exact Rat.le_refl
      · simp at hu; subst hu; rw [hya]; exact Rat.le_refl
    · have e1 : res ≠ n := Nat.ne_of_lt hr
      have e2 : arg ≠ n := Nat.ne_of_lt ha
      intro c hc
      simp only [gNotFixed, List.mem_singleton] at hc
      subst hc
      simp [Con.sat, Cmp.holds, evalLin, e1, e2, Fun.val] at h ⊢
      grind

/-- raw gadget step: the rows the gadget emits (before lowering) over the gadget's auxiliary variables.  The bounds `B` may be
narrowed ones: what is needed of them is that results of logical types and logical arguments take 0/1 values only. -/
theorem raw_stepOK (N n : Nat) (B Br : Bnds) (o : Opts) (d : Def) (hn : N ≤ n)
    (hBr : ∀ v, v < N → Br v = B v) (hfr : d.f.inFrag = true)
    (h01r : isLogicalFun d.f = true → ∀ y, DomB N B y → (y d.res = 0 ∨ y d.res = 1))
    (h01a : ∀ a ∈ logicalArgs d.f, ∀ y, DomB N B y → (y a = 0 ∨ y a = 1))
    (hcnt : ∀ a ∈ logicalArgs d.f, (B a).isBinary = true)
    (hl : linDefOK B d = true)
    (hres : d.res < N) (hvars : ∀ v ∈ d.f.vars, v < N)
    (hrows : ∀ c ∈ (gadgetOf d Br o n).cons, ∀ v ∈ c.vars, v < n + (gadgetOf d Br o n).vars.length) :
    StepOK N (DomB N B) (Step.ofGadget d (gadgetOf d Br o n) n) := by
  obtain ⟨res, ctx, f⟩ := d
  have hres : res < N := hres
  have hvars : ∀ v ∈ f.vars, v < N := hvars
  have hresn : res < n := Nat.lt_of_lt_of_le hres hn
  have hvn : ∀ v ∈ f.vars, v < n := fun v hv => Nat.lt_of_lt_of_le (hvars v hv) hn
  have hfr : f.inFrag = true := hfr
  have h01r : isLogicalFun f = true → ∀ y, DomB N B y → (y res = 0 ∨ y res = 1) := h01r
  have h01a : ∀ a ∈ logicalArgs f, ∀ y, DomB N B y → (y a = 0 ∨ y a = 1) := h01a
  have hcnt : ∀ a ∈ logicalArgs f, (B a).isBinary = true := hcnt
  have hdom : ∀ y, DomB N B y → ∀ v, v < N → inDom Br y v := fun y hy v hv => by
    unfold inDom; rw [hBr v hv]; exact hy v hv
  cases f with
  | affine body c =>
    apply stepOK_of_exact_eq N _ (fun _ => True) _ _ n hn (fun _ _ => trivial) _ hrows
    exact C01_gadget_lfc res body c n
  | abs a =>
    apply stepOK_of_exact N _ (fun _ => True) _ _ n hn (fun _ _ => trivial) _ hrows
    exact C01_gadget_abs res a ctx Br n hresn (hvn a (by simp [Fun.vars]))
  | max as =>
    cases as with
    | nil => simp [linDefOK] at hl
    | cons a t =>
      apply stepOK_of_exact N _ (fun _ => True) _ _ n hn (fun _ _ => trivial) _ hrows
      exact C01_gadget_max res a t ctx Br n hresn (fun b hb' => hvn b (by simpa [Fun.vars] using hb'))
  | min as =>
    cases as with
    | nil => simp [linDefOK] at hl
    | cons a t =>
      apply stepOK_of_exact N _ (fun _ => True) _ _ n hn (fun _ _ => trivial) _ hrows
      exact C01_gadget_min res a t ctx Br n hresn (fun b hb' => hvn b (by simpa [Fun.vars] using hb'))
  | and as =>
    apply stepOK_of_exact N _ (binDom Br res as) _ _ n hn _ (C01_gadget_and res as ctx Br n) hrows
    intro y hy
    exact ⟨h01r rfl y hy, fun a ha => h01a a (by simpa [logicalArgs] using ha) y hy, hdom y hy res hres⟩
  | or as =>
    apply stepOK_of_exact N _ (binDom Br res as) _ _ n hn _ (C01_gadget_or res as ctx Br n) hrows
    intro y hy
    exact ⟨h01r rfl y hy, fun a ha => h01a a (by simpa [logicalArgs] using ha) y hy, hdom y hy res hres⟩
  | not a =>
    have ha : a < N := hvars a (by simp [Fun.vars])
    by_cases hfx : (Br a).isFixed = true
    · have hg : gadgetOf ⟨res, ctx, .not a⟩ Br o n = gNotFixed res a Br n := by simp [gadgetOf, hfx]
      rw [hg] at hrows ⊢
      apply stepOK_of_exact_eq N _ (fun x => inDom Br x a) _ _ n hn (fun y hy => hdom y hy a ha) _ hrows
      exact gNotFixed_exact res a Br n hresn (Nat.lt_of_lt_of_le ha hn) hfx
    · have hg : gadgetOf ⟨res, ctx, .not a⟩ Br o n = gNot res a Br n := by simp [gadgetOf, hfx]
      rw [hg] at hrows ⊢
      apply stepOK_of_exact_eq N _ (fun x => inDom Br x a) _ _ n hn (fun y hy => hdom y hy a ha) _ hrows
      exact C01_gadget_not res a Br n hresn (Nat.lt_of_lt_of_le ha hn)
  | ifthen c t e =>
    have hc : c < N := hvars c (by simp [Fun.vars])
    have htt : t < N := hvars t (by simp [Fun.vars])
    have he : e < N := hvars e (by simp [Fun.vars])
    apply stepOK_of_exact_eq N _ _ _ _ n hn _
      (C01_gadget_ifthen res c t e Br n hresn (Nat.lt_of_lt_of_le hc hn) (Nat.lt_of_lt_of_le htt hn) (Nat.lt_of_lt_of_le he hn)) hrows
    intro y hy
    exact ⟨h01a c (by simp [logicalArgs]) y hy, hdom y hy c hc, hdom y hy t htt, hdom y hy e he⟩
  | count as =>
    apply stepOK_of_exact_eq N _ _ _ _ n hn _
      (C01_gadget_count_binary_partial res as Br n (fun a ha => by
        rw [hBr a (hvars a (by simpa [Fun.vars] using ha))]; exact hcnt a (by simpa [logicalArgs] using ha))) hrows
    intro y hy a ha
    exact h01a a (by simpa [logicalArgs] using ha) y hy
  | condLin k body rhs =>
    simp only [linDefOK, Bool.and_eq_true, Bool.not_eq_true'] at hl
    obtain ⟨⟨hne, hty⟩, hrhs⟩ := hl
    have hbodyN : ∀ p ∈ body, p.2 < N := fun p hp => hvars p.2 (by simp only [Fun.vars, List.mem_map]; exact ⟨p, hp, rfl⟩)
    have htyr : (linBnd Br body).2.2 = true := by
      rw [linBnd_congr B Br body (fun p hp => hBr p.2 (hbodyN p hp))]; exact hty
    have hDD : ∀ y, DomB N B y → condDom Br res y ∧ ∀ p ∈ body, inDom Br y p.2 := by
      intro y hy
      exact ⟨⟨h01r rfl y hy, hdom y hy res hres⟩, fun p hp => hdom y hy p.2 (hbodyN p hp)⟩
    by_cases hk : k = .eq
    · subst hk
      have hem := C01_gadget_condeq_emits res body rhs ctx Br o n hne hresn (fun p hp => Nat.lt_of_lt_of_le (hbodyN p hp) hn)
      have hex : Exact (gCondEq res body rhs ctx Br o n) n (fun y => condDom Br res y ∧ ∀ p ∈ body, inDom Br y p.2)
          (fun x => rel ctx (x res) (Fun.val x (.condLin .eq body rhs))) := by
        apply exact_restrict_iff hem (fun x hx => hx.1)
        intro x hx
        have hiv := linBnd_int Br x body hx.2 htyr
        have := C01_gadget_condeq_exact_int ctx o (evalLin x body) rhs (x res) hiv hx.1.1
        simp only [htyr]
        exact this
      exact stepOK_of_exact N _ _ ⟨res, ctx, .condLin .eq body rhs⟩ _ n hn hDD hex hrows
    · have hem := C01_gadget_condineq_emits k hk res body rhs ctx Br o n hne
      have hg : gadgetOf ⟨res, ctx, .condLin k body rhs⟩ Br o n = gCondIneq k res body rhs ctx Br o n := by
        cases k <;> first | rfl | exact absurd rfl hk
      rw [hg] at hrows ⊢
      have hex : Exact (gCondIneq k res body rhs ctx Br o n) n (fun y => condDom Br res y ∧ ∀ p ∈ body, inDom Br y p.2)
          (fun x => rel ctx (x res) (Fun.val x (.condLin k body rhs))) := by
        apply exact_restrict_iff hem (fun x hx => hx.1)
        intro x hx
        have hiv := linBnd_int Br x body hx.2 htyr
        have := C01_gadget_condineq_exact_int k hk ctx (evalLin x body) rhs (x res) hiv (isIntQ_sound rhs hrhs) hx.1.1
        simp only [htyr, cmpEpsOf, if_true]
        exact this
      exact stepOK_of_exact N _ _ ⟨res, ctx, .condLin k body rhs⟩ _ n hn hDD hex hrows
  | quadratic _ _ _ => simp [Fun.inFrag] at hfr
  | impl _ _ _ => simp [Fun.inFrag] at hfr
  | condQuad _ _ _ _ => simp [Fun.inFrag] at hfr
  | numberofConst _ _ => simp [Fun.inFrag] at hfr
  | numberofVar _ _ => simp [Fun.inFrag] at hfr
  | alldiff _ => simp [Fun.inFrag] at hfr
  | div _ _ => simp [Fun.inFrag] at hfr
  | pow _ _ => simp [Fun.inFrag] at hfr

end MpVerif.C01

import MpVerif.C01.LemmasConvert8
/-!
# C01 — lemmas about the reference converter, part 9: every gadget of the fragment gives a valid (raw) conversion step
-/
namespace MpVerif.C01

theorem linBnd_congr (B Br : Bnds) (body : Lin) (h : ∀ p ∈ body, Br p.2 = B p.2) : linBnd Br body = linBnd B body := by
  induction body with
  | nil => rfl
  | cons p t ih =>
    obtain ⟨c, v⟩ := p
    have hv := h (c, v) (by simp)
    have ht := ih (fun p hp => h p (by simp [hp]))
    simp only at hv
    simp only [linBnd, hv, ht]

theorem exact_restrict_iff {o : Out} {n : Nat} {D D' P Q : Asg → Prop} (h : Exact o n D P)
    (hD : ∀ x, D' x → D x) (hPQ : ∀ x, D' x → (P x ↔ Q x)) : Exact o n D' Q :=
  ⟨fun y hy ha hc => (hPQ y hy).mp (h.1 y (hD y hy) ha hc), fun x hx hq => h.2 x (hD x hx) ((hPQ x hx).mpr hq)⟩

theorem binary_isBinary : VarInfo.binary.isBinary = true := by decide

theorem isBin01_eq {i : VarInfo} (h : isBin01 i = true) : i = VarInfo.binary := by simpa [isBin01] using h

/-- raw gadget step: the rows the gadget emits (before lowering) over the gadget's auxiliary variables -/
theorem raw_stepOK (N n : Nat) (B Br : Bnds) (o : Opts) (d : Def) (hn : N ≤ n)
    (hBr : ∀ v, v < N → Br v = B v) (ht : typedDef B d = true) (hl : linDefOK B d = true)
    (hres : d.res < N) (hvars : ∀ v ∈ d.f.vars, v < N)
    (hrows : ∀ c ∈ (gadgetOf d Br o n).cons, ∀ v ∈ c.vars, v < n + (gadgetOf d Br o n).vars.length) :
    StepOK N (DomB N B) (Step.ofGadget d (gadgetOf d Br o n) n) := by
  obtain ⟨res, ctx, f⟩ := d
  have hres : res < N := hres
  have hvars : ∀ v ∈ f.vars, v < N := hvars
  have hresn : res < n := Nat.lt_of_lt_of_le hres hn
  have hvn : ∀ v ∈ f.vars, v < n := fun v hv => Nat.lt_of_lt_of_le (hvars v hv) hn
  simp only [typedDef, Bool.and_eq_true, decide_eq_true_eq] at ht
  obtain ⟨⟨hb, hfr⟩, h3⟩ := ht
  have hb : B res = resBnd B f := hb
  have hfr : f.inFrag = true := hfr
  have hdom : ∀ y, DomB N B y → ∀ v, v < N → inDom Br y v := fun y hy v hv => by
    unfold inDom; rw [hBr v hv]; exact hy v hv
  cases f with
  | affine body c =>
    apply stepOK_of_exact_eq N _ (fun _ => True) _ _ n hn (fun _ _ => trivial) _ hrows
    exact C01_gadget_lfc res body c n
  | abs a =>
    apply stepOK_of_exact N _ (fun _ => True) _ _ n hn (fun _ _ => trivial) _ hrows
    exact C01_gadget_abs res a ctx Br n hresn (hvn a (by simp [Fun.vars]))
  | max as =>
    cases as with
    | nil => simp [linDefOK] at hl
    | cons a t =>
      apply stepOK_of_exact N _ (fun _ => True) _ _ n hn (fun _ _ => trivial) _ hrows
      exact C01_gadget_max res a t ctx Br n hresn (fun b hb' => hvn b (by simpa [Fun.vars] using hb'))
  | min as =>
    cases as with
    | nil => simp [linDefOK] at hl
    | cons a t =>
      apply stepOK_of_exact N _ (fun _ => True) _ _ n hn (fun _ _ => trivial) _ hrows
      exact C01_gadget_min res a t ctx Br n hresn (fun b hb' => hvn b (by simpa [Fun.vars] using hb'))
  | and as =>
    simp only [List.all_eq_true] at h3
    apply stepOK_of_exact N _ (binDom Br res as) _ _ n hn _ (C01_gadget_and res as ctx Br n) hrows
    intro y hy
    have hr01 : y res = 0 ∨ y res = 1 := by
      have := hy res hres; unfold inDom at this; rw [hb] at this; exact binary_admits this
    exact ⟨hr01, fun a ha => bin01_vals (h3 a ha) (hy a (hvars a (by simpa [Fun.vars] using ha))), hdom y hy res hres⟩
  | or as =>
    simp only [List.all_eq_true] at h3
    apply stepOK_of_exact N _ (binDom Br res as) _ _ n hn _ (C01_gadget_or res as ctx Br n) hrows
    intro y hy
    have hr01 : y res = 0 ∨ y res = 1 := by
      have := hy res hres; unfold inDom at this; rw [hb] at this; exact binary_admits this
    exact ⟨hr01, fun a ha => bin01_vals (h3 a ha) (hy a (hvars a (by simpa [Fun.vars] using ha))), hdom y hy res hres⟩
  | not a =>
    have ha : a < N := hvars a (by simp [Fun.vars])
    apply stepOK_of_exact_eq N _ (fun x => inDom Br x a) _ _ n hn (fun y hy => hdom y hy a ha) _ hrows
    exact C01_gadget_not res a Br n hresn (Nat.lt_of_lt_of_le ha hn)
  | ifthen c t e =>
    have hc : c < N := hvars c (by simp [Fun.vars])
    have htt : t < N := hvars t (by simp [Fun.vars])
    have he : e < N := hvars e (by simp [Fun.vars])
    apply stepOK_of_exact_eq N _ _ _ _ n hn _
      (C01_gadget_ifthen res c t e Br n hresn (Nat.lt_of_lt_of_le hc hn) (Nat.lt_of_lt_of_le htt hn) (Nat.lt_of_lt_of_le he hn)) hrows
    intro y hy
    exact ⟨bin01_vals h3 (hy c hc), hdom y hy c hc, hdom y hy t htt, hdom y hy e he⟩
  | count as =>
    simp only [List.all_eq_true] at h3
    apply stepOK_of_exact_eq N _ _ _ _ n hn _
      (C01_gadget_count_binary_partial res as Br n (fun a ha => by
        rw [hBr a (hvars a (by simpa [Fun.vars] using ha)), isBin01_eq (h3 a ha)]; exact binary_isBinary)) hrows
    intro y hy a ha
    exact bin01_vals (h3 a ha) (hy a (hvars a (by simpa [Fun.vars] using ha)))
  | condLin k body rhs =>
    simp only [linDefOK, Bool.and_eq_true, Bool.not_eq_true'] at hl
    obtain ⟨⟨hne, hty⟩, hrhs⟩ := hl
    have hbodyN : ∀ p ∈ body, p.2 < N := fun p hp => hvars p.2 (by simp only [Fun.vars, List.mem_map]; exact ⟨p, hp, rfl⟩)
    have htyr : (linBnd Br body).2.2 = true := by
      rw [linBnd_congr B Br body (fun p hp => hBr p.2 (hbodyN p hp))]; exact hty
    have hDD : ∀ y, DomB N B y → condDom Br res y ∧ ∀ p ∈ body, inDom Br y p.2 := by
      intro y hy
      have hr01 : y res = 0 ∨ y res = 1 := by
        have := hy res hres; unfold inDom at this; rw [hb] at this; exact binary_admits this
      exact ⟨⟨hr01, hdom y hy res hres⟩, fun p hp => hdom y hy p.2 (hbodyN p hp)⟩
    by_cases hk : k = .eq
    · subst hk
      have hem := C01_gadget_condeq_emits res body rhs ctx Br o n hne hresn (fun p hp => Nat.lt_of_lt_of_le (hbodyN p hp) hn)
      have hex : Exact (gCondEq res body rhs ctx Br o n) n (fun y => condDom Br res y ∧ ∀ p ∈ body, inDom Br y p.2)
          (fun x => rel ctx (x res) (Fun.val x (.condLin .eq body rhs))) := by
        apply exact_restrict_iff hem (fun x hx => hx.1)
        intro x hx
        have hiv := linBnd_int Br x body hx.2 htyr
        have := C01_gadget_condeq_exact_int ctx o (evalLin x body) rhs (x res) hiv hx.1.1
        simp only [htyr]
        exact this
      exact stepOK_of_exact N _ _ ⟨res, ctx, .condLin .eq body rhs⟩ _ n hn hDD hex hrows
    · have hem := C01_gadget_condineq_emits k hk res body rhs ctx Br o n hne
      have hg : gadgetOf ⟨res, ctx, .condLin k body rhs⟩ Br o n = gCondIneq k res body rhs ctx Br o n := by
        cases k <;> first | rfl | exact absurd rfl hk
      rw [hg] at hrows ⊢
      have hex : Exact (gCondIneq k res body rhs ctx Br o n) n (fun y => condDom Br res y ∧ ∀ p ∈ body, inDom Br y p.2)
          (fun x => rel ctx (x res) (Fun.val x (.condLin k body rhs))) := by
        apply exact_restrict_iff hem (fun x hx => hx.1)
        intro x hx
        have hiv := linBnd_int Br x body hx.2 htyr
        have := C01_gadget_condineq_exact_int k hk ctx (evalLin x body) rhs (x res) hiv (isIntQ_sound rhs hrhs) hx.1.1
        simp only [htyr, cmpEpsOf, if_true]
        exact this
      exact stepOK_of_exact N _ _ ⟨res, ctx, .condLin k body rhs⟩ _ n hn hDD hex hrows
  | quadratic _ _ _ => simp [Fun.inFrag] at hfr
  | impl _ _ _ => simp [Fun.inFrag] at hfr
  | condQuad _ _ _ _ => simp [Fun.inFrag] at hfr
  | numberofConst _ _ => simp [Fun.inFrag] at hfr
  | numberofVar _ _ => simp [Fun.inFrag] at hfr
  | alldiff _ => simp [Fun.inFrag] at hfr
  | div _ _ => simp [Fun.inFrag] at hfr
  | pow _ _ => simp [Fun.inFrag] at hfr

end MpVerif.C01

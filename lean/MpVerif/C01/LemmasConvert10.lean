import MpVerif.C01.LemmasConvert9
/-!
# C01 — lemmas about the reference converter, part 10: the blocks of the linear acceptance set
-/
namespace MpVerif.C01

/-- linear acceptance set: every non-constant block is a gadget block, lowered, with a running bounds function that agrees
with the flattening bounds on original/result variables -/
theorem convDefs_linear (cfg : Cfg) (hacc : cfg.acc = .linear) (N : Nat) (B0 : Bnds) (l : List Def) (B : Bnds) (n : Nat)
    (hn : N ≤ n) (hB : ∀ v, v < N → B v = B0 v) :
    ∀ b ∈ convDefs cfg l B n, N ≤ b.lo ∧ (isConst b.d = true ∧ b.native = false ∨
      (isConst b.d = false ∧ b.native = false ∧ ∃ Br : Bnds, (∀ v, v < N → Br v = B0 v) ∧
        b.vars = (gadgetOf b.d Br cfg.opts b.lo).vars ∧ b.raw = (gadgetOf b.d Br cfg.opts b.lo).cons ∧
        b.cons = (lowerCons (extB Br b.lo b.vars) cfg.opts b.raw).cons ∧
        (b.refusal = none → (lowerCons (extB Br b.lo b.vars) cfg.opts b.raw).refusal = none))) := by
  induction l generalizing B n with
  | nil => simp [convDefs]
  | cons d t ih =>
    intro b hb
    simp only [convDefs] at hb
    by_cases h1 : isConst d = true
    · simp only [h1, if_true, List.mem_cons] at hb
      rcases hb with hb | hb
      · subst hb; exact ⟨hn, Or.inl ⟨h1, rfl⟩⟩
      · exact ih B n hn hB b hb
    · have h2 : (decide (cfg.acc = .native) && !isAffine d) = false := by simp [hacc]
      have hlin : (cfg.acc = Acc.linear) = True := by simp [hacc]
      simp only [h1, h2, Bool.false_eq_true, if_false, List.mem_cons, hlin, if_true] at hb
      rcases hb with hb | hb
      · subst hb
        refine ⟨hn, Or.inr ⟨by simpa using h1, rfl, B, hB, rfl, rfl, rfl, ?_⟩⟩
        intro hr
        simp only at hr
        cases hg : (gadgetOf d B cfg.opts n).refusal with
        | some r => simp [hg] at hr
        | none => simpa [hg] using hr
      · apply ih _ _ (Nat.le_trans hn (Nat.le_add_right _ _)) _ b hb
        intro v hv
        rw [extB_below _ _ _ _ (Nat.lt_of_lt_of_le hv hn)]; exact hB v hv

theorem foldl_extB_below (v : Nat) (bs : List Block) (B : Bnds) (h : ∀ b ∈ bs, v < b.lo) :
    (bs.foldl (fun B b => extB B b.lo b.vars) B) v = B v := by
  induction bs generalizing B with
  | nil => rfl
  | cons b t ih =>
    simp only [List.foldl_cons]
    rw [ih _ (fun b' hb' => h b' (by simp [hb']))]
    exact extB_below _ _ _ _ (h b (by simp))

end MpVerif.C01

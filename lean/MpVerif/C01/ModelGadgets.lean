import MpVerif.C01.Model
/-!
# C01 — the MIP redefinitions ("gadgets") as executable functions

Each function mirrors one `Convert` of `include/mp/flat/redef/MIP/*.h` /
`redef/std/range_con.h` / `converter.h`: from (constraint data, stored context, bounds/types of the
variables, number `n` of variables existing before the call, conversion options) to the `Out` record:
auxiliary variables created in creation order (ids `n, n+1, …`), constraints added in the order of
the `AddConstraint` calls, or a refusal.

`AssignResultVar2Args(fc)` inside a converter is modelled for the case "no preprocessing shortcut, no
map hit": a fresh result variable with the preprocessed bounds/type and the functional constraint
with context `none`.  Inputs on which the real code takes a shortcut are marked `unmodelled`.
-/
namespace MpVerif.C01

/-! ## helpers mirroring `FlatModel` / `BoundComputations` -/

/-- `PracticallyInf()` = 1e20 -/
def pracInf : Rat := 100000000000000000000

def optLT (a : Option Rat) (b : Rat) : Bool :=   -- `lb < b` with `none = -inf`
  match a with | none => true | some l => decide (l < b)
def optGT (a : Option Rat) (b : Rat) : Bool :=   -- `ub > b` with `none = +inf`
  match a with | none => true | some u => decide (b < u)

def optAdd : Option Rat → Option Rat → Option Rat
  | some a, some b => some (a + b)
  | _, _ => none

def optScale (c : Rat) : Option Rat → Option Rat
  | some a => some (c * a)
  | none => none

def isIntQ (q : Rat) : Bool := q.den == 1

/-- `ComputeBoundsAndType(LinTerms)`: (lb, ub, integer?)  (`none` = infinite).
A zero coefficient on a variable with an infinite bound gives NaN in the C++; here: infinite. -/
def linBnd (B : Bnds) : Lin → Option Rat × Option Rat × Bool
  | [] => (some 0, some 0, true)
  | (c, v) :: t =>
    let (l, u, ty) := linBnd B t
    let i := B v
    let ty' := ty && i.isInt && isIntQ c
    if 0 ≤ c then (optAdd (optScale c i.lb) l, optAdd (optScale c i.ub) u, ty')
    else (optAdd (optScale c i.ub) l, optAdd (optScale c i.lb) u, ty')

/-- `ComputeBoundsAndType(AffineExpr)` -/
def affBnd (B : Bnds) (body : Lin) (c : Rat) : VarInfo :=
  let (l, u, ty) := linBnd B body
  { lb := l.map (· + c), ub := u.map (· + c), isInt := ty && isIntQ c }

/-- conversion options that the gadgets read -/
structure Opts where
  cmpEps : Rat := 1 / 10000      -- cvt:cmp:eps
  bigM : Rat := -1               -- cvt:bigM (<= 0: not set)
deriving Repr, Inhabited

/-- `ComparisonEps(type)` -/
def cmpEpsOf (o : Opts) (isInt : Bool) : Rat := if isInt then 1 else o.cmpEps

/-- which directions `BasicFuncConstrCvt::Convert` converts:
`ctx.HasNegative() && lb(rv) < apriori.second`, `ctx.HasPositive() && ub(rv) > apriori.first`;
a-priori bounds are `0..1` for logical and `-inf..inf` for numeric constraints. -/
def needNeg (ctx : Ctx) (logical : Bool) (rv : VarInfo) : Bool :=
  ctx.eff.hasNeg && (if logical then optLT rv.lb 1 else true)
def needPos (ctx : Ctx) (logical : Bool) (rv : VarInfo) : Bool :=
  ctx.eff.hasPos && (if logical then optGT rv.ub 0 else true)

/-- generic dispatch: negative part first, then positive part; auxiliary variables of the
positive part are numbered after those of the negative part -/
def dispatch (ctx : Ctx) (logical : Bool) (rv : VarInfo) (n : Nat)
    (cvtNeg cvtPos : Nat → Out) : Out :=
  let o1 : Out := if needNeg ctx logical rv then cvtNeg n else {}
  match o1.refusal with
  | some r => { refusal := some r }
  | none =>
    let o2 : Out := if needPos ctx logical rv then cvtPos (n + o1.vars.length) else {}
    match o2.refusal with
    | some r => { refusal := some r }
    | none => { vars := o1.vars ++ o2.vars, cons := o1.cons ++ o2.cons,
                narrow := o1.narrow ++ o2.narrow, unmodelled := o1.unmodelled || o2.unmodelled }

/-! ## abs.h -/

def absNeg (res arg : Var) : Out :=
  { cons := [.linRhs .ge [(1, res), (1, arg)] 0, .linRhs .ge [(1, res), (-1, arg)] 0] }
def absPos (res arg : Var) (n : Nat) : Out :=
  { vars := [VarInfo.binary],
    cons := [.indLin n 1 .le [(1, res), (1, arg)] 0, .indLin n 0 .le [(1, res), (-1, arg)] 0] }
def gAbs (res arg : Var) (ctx : Ctx) (B : Bnds) (n : Nat) : Out :=
  dispatch ctx false (B res) n (fun _ => absNeg res arg) (fun m => absPos res arg m)

/-! ## min_max.h  (`sense = 1` max, `sense = -1` min) -/

def mmConvex (s : Rat) (res : Var) (args : List Var) : Out :=
  { cons := args.map fun a => .linRhs .le [(1 * s, a), (-1 * s, res)] 0 }
def mmNonConvex (s : Rat) (res : Var) (args : List Var) (n : Nat) : Out :=
  let flags := List.range' n args.length
  { vars := args.map fun _ => VarInfo.binary,
    cons := .linRhs .ge (ones flags) 1 ::
      (List.zip flags args).map fun (f, a) => .indLin f 1 .le [(1 * s, res), (-1 * s, a)] 0 }
def gMax (res : Var) (args : List Var) (ctx : Ctx) (B : Bnds) (n : Nat) : Out :=
  dispatch ctx false (B res) n (fun _ => mmConvex 1 res args) (fun m => mmNonConvex 1 res args m)
def gMin (res : Var) (args : List Var) (ctx : Ctx) (B : Bnds) (n : Nat) : Out :=
  dispatch ctx false (B res) n (fun m => mmNonConvex (-1) res args m) (fun _ => mmConvex (-1) res args)

/-! ## logical_and.h / logical_or.h -/

def andPos (res : Var) (args : List Var) : Out :=
  { cons := args.map fun a => .linRhs .le [(-1, a), (1, res)] 0 }
def andNeg (res : Var) (args : List Var) : Out :=
  { cons := [.linRhs .le (ones args ++ [(-1, res)]) ((args.length : Rat) - 1)] }
def gAnd (res : Var) (args : List Var) (ctx : Ctx) (B : Bnds) (n : Nat) : Out :=
  dispatch ctx true (B res) n (fun _ => andNeg res args) (fun _ => andPos res args)

def orPos (res : Var) (args : List Var) : Out :=
  { cons := [.linRhs .ge (ones args ++ [(-1, res)]) 0] }
def orNeg (res : Var) (args : List Var) : Out :=
  { cons := args.map fun a => .linRhs .le [(1, a), (-1, res)] 0 }
def gOr (res : Var) (args : List Var) (ctx : Ctx) (B : Bnds) (n : Nat) : Out :=
  dispatch ctx true (B res) n (fun _ => orNeg res args) (fun _ => orPos res args)

/-! ## logical_not.h — ignores the context (full reification) -/

/-- `AssignResultVar2Args(LinearFunctionalConstraint(body, c))`, no shortcut:
fresh variable `n` with `ComputeBoundsAndType` bounds -/
def newAffine (B : Bnds) (body : Lin) (c : Rat) (n : Nat) : VarInfo × Con :=
  (affBnd B body c, .func n .none (.affine body c))

def gNot (res arg : Var) (B : Bnds) (n : Nat) : Out :=
  let (vi, fc) := newAffine B [(-1, arg)] 1 n
  { vars := [vi], cons := [fc, .linRhs .eq [(-1, res), (1, n)] 0],
    unmodelled := vi.isFixed }      -- constant result: MakeFixedVar instead

/-! ## ifthenelse.h — ignores the context -/

def gIfThen (res c t e : Var) (B : Bnds) (n : Nat) : Out :=
  if !(B t).isFixed || !(B e).isFixed then
    { cons := [.indLin c 1 .eq [(-1, res), (1, t)] 0, .indLin c 0 .eq [(-1, res), (1, e)] 0] }
  else
    let c1 := (B t).fixedVal
    let c2 := (B e).fixedVal
    let (vi, fc) := newAffine B [(c1 - c2, c)] c2 n
    { vars := [vi], cons := [fc, .linRhs .eq [(-1, res), (1, n)] 0],
      unmodelled := vi.isFixed }

/-! ## impl.h — `c ==> t else e` becomes `And(Or(!c, t), Or(c, e))`

`MakeComplementVar(c)` is `Convert2Var(1 - c)`: a fresh variable `n` (bounds `0..1`, integer iff `c` is);
the two disjunctions get fresh result variables `n+1`, `n+2` (binary), the conjunction redefines `res`.
Contexts: `RedefineVariable` stores the `And` with context none, then
`PropagateResultOfInitExpr(res, ctx)` adds `ctx` to it and `+ctx` to both disjunctions, which pass `+ctx`
to their arguments (so the complement's definition receives `+ctx`).
When `res` is fixed at 1 no conjunction is created: both disjunctions are fixed true
(`FixAsTrue`: bounds `1..1`, context pos). -/
def gImpl (res c t e : Var) (ctx : Ctx) (B : Bnds) (n : Nat) : Out :=
  if !((B c).lb == some 0 && (B c).ub == some 1) then { refusal := some .complementBounds } else
  let compl : VarInfo := affBnd B [(-1, c)] 1
  let cx := ctx.eff
  -- a fixed argument makes the Or preprocessing drop it / fix the result: outside this model
  if (B t).isFixed || (B e).isFixed then { unmodelled := true } else
  if (B res).isFixed && (B res).fixedVal == 1 then
    { vars := [compl, { VarInfo.binary with lb := some 1 }, { VarInfo.binary with lb := some 1 }],
      cons := [.func n .pos (.affine [(-1, c)] 1),
               .func (n + 1) .pos (.or [n, t]), .func (n + 2) .pos (.or [c, e])] }
  else
    { vars := [compl, VarInfo.binary, VarInfo.binary],
      cons := [.func n cx.plus (.affine [(-1, c)] 1),
               .func (n + 1) cx.plus (.or [n, t]), .func (n + 2) cx.plus (.or [c, e]),
               .func res cx (.and [n + 1, n + 2])] }

/-! ## cond_eq.h -/

/-- `ConvertCtxPos`: `res = 1 ⇒ body = rhs` -/
def condEqPos (res : Var) (body : Lin) (rhs : Rat) (B : Bnds) : Out :=
  if body.isEmpty then
    (if rhs != 0 then { narrow := [(res, { lb := some 0, ub := some 0 })] } else {})
  else if (B res).isFixed then
    (if (B res).fixedVal != 0 then { cons := [.linRhs .eq body rhs] } else {})
  else { cons := [.indLin res 1 .eq body rhs] }

/-- `ConvertCtxNeg`: `res = 0 ⇒ body ≤ rhs - eps ∨ body ≥ rhs + eps` via two fresh binaries -/
def condEqNeg (res : Var) (body : Lin) (rhs : Rat) (B : Bnds) (o : Opts) (n : Nat) : Out :=
  if body.isEmpty then
    (if rhs == 0 then { narrow := [(res, { lb := some 1, ub := some 1 })] } else {})
  else if !(B res).isFixed || (B res).fixedVal == 0 then
    let eps := cmpEpsOf o (linBnd B body).2.2
    { vars := [VarInfo.binary, VarInfo.binary],
      cons := [.linRhs .ge [(1, n), (1, n + 1), (1, res)] 1,
               .indLin n 1 .le body (rhs - eps),
               .indLin (n + 1) 1 .ge body (rhs + eps)] }
  else {}

/-- `CondEQConverter_MIP::Convert` for the cases converted here (more than one variable, or a variable
that cannot get a unary encoding); `skip = true` models the filter that leaves
`var == const` on an encodable integer variable to `ConvertMaps`. -/
def gCondEq (res : Var) (body : Lin) (rhs : Rat) (ctx : Ctx) (B : Bnds) (o : Opts) (n : Nat) : Out :=
  dispatch ctx true (B res) n (fun m => condEqNeg res body rhs B o m) (fun _ => condEqPos res body rhs B)

/-! ## cond_ineq.h -/

/-- `ConvertCondIneq<kind>(cc, value, eps)` -/
def condIneqEmit (res : Var) (body : Lin) (rhs : Rat) (B : Bnds) (kout : Cmp) (value : Nat) (eps : Rat) : Out :=
  let sgn : Rat := match kout with | .ge => 1 | .le => -1 | .eq => 0
  if body.isEmpty then
    (if 0 < sgn * (rhs + eps) then
      { narrow := [(res, { lb := some (1 - value : Rat), ub := some (1 - value : Rat) })] } else {})
  else if (B res).isFixed then
    (if (value : Rat) == (B res).fixedVal then { cons := [.linRhs kout body (rhs + eps)] } else {})
  else { cons := [.indLin res value kout body (rhs + eps)] }

def Cmp5.isGreater : Cmp5 → Bool
  | .ge => true | .gt => true | _ => false
def Cmp5.isStrict : Cmp5 → Bool
  | .lt => true | .gt => true | _ => false

def condIneqPos (k : Cmp5) (res : Var) (body : Lin) (rhs : Rat) (B : Bnds) (o : Opts) : Out :=
  let kout : Cmp := if k.isGreater then .ge else .le
  let s : Rat := if k.isGreater then 1 else -1
  let eps : Rat := if k.isStrict then s * cmpEpsOf o (linBnd B body).2.2 else 0
  condIneqEmit res body rhs B kout 1 eps

def condIneqNeg (k : Cmp5) (res : Var) (body : Lin) (rhs : Rat) (B : Bnds) (o : Opts) : Out :=
  let kout : Cmp := if k.isGreater then .le else .ge
  let s : Rat := if k.isGreater then -1 else 1
  let eps : Rat := if k.isStrict then 0 else s * cmpEpsOf o (linBnd B body).2.2
  condIneqEmit res body rhs B kout 0 eps

/-- `Cond_LE_LT_GT_GE_Converter_MIP` (k ≠ eq) -/
def gCondIneq (k : Cmp5) (res : Var) (body : Lin) (rhs : Rat) (ctx : Ctx) (B : Bnds) (o : Opts) (n : Nat) : Out :=
  dispatch ctx true (B res) n (fun _ => condIneqNeg k res body rhs B o) (fun _ => condIneqPos k res body rhs B o)

/-! ## indicator_le.h / indicator_ge.h / indicator_eq.h — big-M -/

/-- the bound used as big-M: the computed bound if "practically finite", else `cvt:bigM`, else refuse -/
def bigMUpper (ub : Option Rat) (o : Opts) : Option Rat :=
  match ub with
  | some u => if pracInf ≤ u then (if 0 < o.bigM then some o.bigM else none) else some u
  | none => if 0 < o.bigM then some o.bigM else none

def bigMLower (lb : Option Rat) (o : Opts) : Option Rat :=
  match lb with
  | some l => if l ≤ -pracInf then (if 0 < o.bigM then some (-o.bigM) else none) else some l
  | none => if 0 < o.bigM then some (-o.bigM) else none

/-- `ConvertImplicationLE(b, val, body_ub, con)` -/
def implLE (b : Var) (val : Nat) (ub : Option Rat) (body : Lin) (rhs : Rat) (o : Opts) : Out :=
  match bigMUpper ub o with
  | none => { refusal := some .indicatorInfBound }
  | some U =>
    if U != rhs then
      (if val == 0 then { cons := [.linRhs .le (body ++ [(-U + rhs, b)]) rhs] }
       else { cons := [.linRhs .le (body ++ [(U - rhs, b)]) U] })
    else {}

/-- `ConvertImplicationGE(b, val, body_lb, con)` -/
def implGE (b : Var) (val : Nat) (lb : Option Rat) (body : Lin) (rhs : Rat) (o : Opts) : Out :=
  match bigMLower lb o with
  | none => { refusal := some .indicatorInfBound }
  | some L =>
    if L != rhs then
      (if val == 0 then { cons := [.linRhs .ge (body ++ [(-L + rhs, b)]) rhs] }
       else { cons := [.linRhs .ge (body ++ [(L - rhs, b)]) L] })
    else {}

def gIndLE (b : Var) (val : Nat) (body : Lin) (rhs : Rat) (B : Bnds) (o : Opts) : Out :=
  implLE b val (linBnd B body).2.1 body rhs o

def gIndGE (b : Var) (val : Nat) (body : Lin) (rhs : Rat) (B : Bnds) (o : Opts) : Out :=
  implGE b val (linBnd B body).1 body rhs o

/-- `IndicatorLinEQConverter_MIP`: `⇒ body ≤ rhs` with the upper bound, then `con.negate()`,
`bnds.NegateBounds()` and `⇒ -body ≤ -rhs` with upper bound `-lb` -/
def gIndEQ (b : Var) (val : Nat) (body : Lin) (rhs : Rat) (B : Bnds) (o : Opts) : Out :=
  let bn := linBnd B body
  let o1 := implLE b val bn.2.1 body rhs o
  match o1.refusal with
  | some r => { refusal := some r }
  | none =>
    let o2 := implLE b val (bn.1.map (- ·)) (negLin body) (-rhs) o
    match o2.refusal with
    | some r => { refusal := some r }
    | none => { cons := o1.cons ++ o2.cons }

/-! ## count.h / numberof_const.h / numberof_var.h -/

/-- result of preprocessing `var == k` (`PreprocessConstraint(CondLinConEQ)`): whether the real code
takes a shortcut (fixed result / reuse of a binary variable) instead of creating a fresh result -/
def condEqVarConstShortcut (i : VarInfo) (k : Rat) : Bool :=
  (match i.lb with | some l => decide (k < l) | none => false) ||
  (match i.ub with | some u => decide (u < k) | none => false) ||
  (i.isFixed && i.fixedVal == k) ||
  (i.isInt && !isIntQ k) ||
  i.isBinary

/-- count: binary arguments are used directly; a non-binary argument `a` gets
`feq0 = (a == 0)` and `flag = not feq0` (two fresh binaries each, in argument order) -/
def countFlags (B : Bnds) : List Var → Nat → List Var × List VarInfo × List Con × Bool
  | [], _ => ([], [], [], false)
  | a :: t, n =>
    if (B a).isBinary then
      let (fl, vs, cs, um) := countFlags B t n
      (a :: fl, vs, cs, um)
    else
      let (fl, vs, cs, um) := countFlags B t (n + 2)
      ((n + 1) :: fl, VarInfo.binary :: VarInfo.binary :: vs,
       .func n .none (.condLin .eq [(1, a)] 0) :: .func (n + 1) .none (.not n) :: cs,
       um || condEqVarConstShortcut (B a) 0)

def gCount (res : Var) (args : List Var) (B : Bnds) (n : Nat) : Out :=
  let (fl, vs, cs, um) := countFlags B args n
  { vars := vs, cons := cs ++ [.linRhs .eq (ones fl ++ [(-1, res)]) 0], unmodelled := um }

def gNumberofConst (res : Var) (k : Rat) (args : List Var) (B : Bnds) (n : Nat) : Out :=
  let flags := List.range' n args.length
  { vars := args.map fun _ => VarInfo.binary,
    cons := ((List.zip flags args).map fun (f, a) => Con.func f .none (.condLin .eq [(1, a)] k))
            ++ [.linRhs .eq (ones flags ++ [(-1, res)]) 0],
    unmodelled := args.any fun a => condEqVarConstShortcut (B a) k }

/-- numberof with a variable reference value `ref`: `flag_i = (a_i - ref == 0)` -/
def gNumberofVar (res ref : Var) (args : List Var) (B : Bnds) (n : Nat) : Out :=
  let flags := List.range' n args.length
  { vars := args.map fun _ => VarInfo.binary,
    cons := ((List.zip flags args).map fun (f, a) => Con.func f .none (.condLin .eq [(1, a), (-1, ref)] 0))
            ++ [.linRhs .eq ((-1, res) :: ones flags) 0],
    unmodelled := args.any fun a =>
      let bn := linBnd B [(1, a), (-1, ref)]
      (match bn.1 with | some l => decide (0 < l) | none => false) ||
      (match bn.2.1 with | some u => decide (u < 0) | none => false) ||
      (bn.1 == some 0 && bn.2.1 == some 0) || a == ref }

/-! ## range_con.h -/

def gRangeLin (body : Lin) (lb ub : Option Rat) (n : Nat) : Out :=
  match lb, ub with
  | some l, some u =>
    if l != u then
      { vars := [{ lb := some 0, ub := some (u - l), isInt := false }],
        cons := [.linRhs .eq (body ++ [(1, n)]) u], unmodelled := (u - l == 0) }
    else { cons := [.linRhs .eq body ((l + u) / 2)] }
  | some l, none => { cons := [.linRhs .ge body l] }
  | none, some u => { cons := [.linRhs .le body u] }
  | none, none => {}

def gRangeQuad (lin : Lin) (q : Quad) (lb ub : Option Rat) (n : Nat) : Out :=
  match lb, ub with
  | some l, some u =>
    if l != u then
      { vars := [{ lb := some 0, ub := some (u - l), isInt := false }],
        cons := [.quadRhs .eq (lin ++ [(1, n)]) q u] }
    else { cons := [.quadRhs .eq lin q ((l + u) / 2)] }
  | some l, none => { cons := [.quadRhs .ge lin q l] }
  | none, some u => { cons := [.quadRhs .le lin q u] }
  | none, none => {}

/-! ## converter.h: LFC / QFC to algebraic -/

/-- `LinearFunctionalConstraint::to_linear_constraint` (context ignored: always an equality) -/
def gLFC (res : Var) (body : Lin) (c : Rat) : Out :=
  { cons := [.linRhs .eq (body ++ [(-1, res)]) (-c)] }

/-- `QuadraticFunctionalConstraint::AddQuadraticConstraint`: mix → EQ, pos → GE, neg → LE -/
def gQFC (res : Var) (lin : Lin) (q : Quad) (c : Rat) (ctx : Ctx) : Out :=
  match ctx.eff with
  | .pos => { cons := [.quadRhs .ge (lin ++ [(-1, res)]) q (-c)] }
  | .neg => { cons := [.quadRhs .le (lin ++ [(-1, res)]) q (-c)] }
  | _ => { cons := [.quadRhs .eq (lin ++ [(-1, res)]) q (-c)] }

/-! ## div.h — constant divisor -/

def gDivConst (res a b : Var) (B : Bnds) : Out :=
  if (B b).isFixed then { cons := [.linRhs .eq [((B b).fixedVal, res), (-1, a)] 0] }
  else { unmodelled := true }

end MpVerif.C01

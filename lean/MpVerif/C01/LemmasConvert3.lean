import MpVerif.C01.LemmasConvert2
/-!
# C01 — lemmas about the reference converter, part 3: bounds of result variables are sound (core Lean only)
-/
namespace MpVerif.C01

theorem bin01_vals {B : Bnds} {y : Asg} {a : Var} (h : isBin01 (B a) = true) (hd : inDom B y a) : y a = 0 ∨ y a = 1 := by
  have : B a = VarInfo.binary := by simpa [isBin01] using h
  unfold inDom at hd; rw [this] at hd; exact binary_admits hd

theorem isIntVal_neg {a : Rat} (h : isIntVal a) : isIntVal (-a) := by
  obtain ⟨k, hk⟩ := h; exact ⟨-k, by rw [hk]; exact (Rat.intCast_neg k).symm⟩

theorem isIntVal_natCast (n : Nat) : isIntVal (n : Rat) := ⟨(n : Int), (Rat.intCast_natCast n).symm⟩

theorem intLike_sound {i : VarInfo} {q : Rat} (h : intLike i = true) (ha : i.admits q) : isIntVal q := by
  simp only [intLike, Bool.or_eq_true, Bool.and_eq_true] at h
  rcases h with h | ⟨hf, hq⟩
  · exact ha.2.2 h
  · -- fixed at an integer value
    have hv : q = i.fixedVal := by
      unfold VarInfo.isFixed at hf
      cases hl : i.lb with
      | none => simp [hl] at hf
      | some l =>
        cases hu : i.ub with
        | none => simp [hl, hu] at hf
        | some u =>
          simp [hl, hu] at hf
          have h1 := ha.1 l hl
          have h2 := ha.2.1 u hu
          simp only [VarInfo.fixedVal, hl, Option.getD_some]
          grind
    rw [hv]; exact isIntQ_sound _ hq

/-- `maxL`/`minL` pick one of the argument values -/
theorem maxL_mem (y : Asg) (a : Var) (t : List Var) : ∃ b ∈ a :: t, maxL y a t = y b := by
  induction t generalizing a with
  | nil => exact ⟨a, by simp, rfl⟩
  | cons b t ih =>
    obtain ⟨c, hc, he⟩ := ih b
    simp only [maxL]
    split
    · exact ⟨c, by simp only [List.mem_cons] at hc ⊢; exact Or.inr hc, he⟩
    · exact ⟨a, by simp, rfl⟩

theorem minL_mem (y : Asg) (a : Var) (t : List Var) : ∃ b ∈ a :: t, minL y a t = y b := by
  induction t generalizing a with
  | nil => exact ⟨a, by simp, rfl⟩
  | cons b t ih =>
    obtain ⟨c, hc, he⟩ := ih b
    simp only [minL]
    split
    · exact ⟨a, by simp, rfl⟩
    · exact ⟨c, by simp only [List.mem_cons] at hc ⊢; exact Or.inr hc, he⟩

theorem maxL_ge (y : Asg) (a : Var) (t : List Var) : ∀ b ∈ a :: t, y b ≤ maxL y a t := by
  induction t generalizing a with
  | nil => intro b hb; simp at hb; subst hb; simp [maxL]
  | cons c t ih =>
    intro b hb
    simp only [maxL]
    simp only [List.mem_cons] at hb
    have := ih c
    split
    · rcases hb with hb | hb
      · subst hb; assumption
      · exact this b (by simpa using hb)
    · rename_i hlt
      rcases hb with hb | hb
      · subst hb; grind
      · have := this b (by simpa using hb); grind

theorem minL_le (y : Asg) (a : Var) (t : List Var) : ∀ b ∈ a :: t, minL y a t ≤ y b := by
  induction t generalizing a with
  | nil => intro b hb; simp at hb; subst hb; simp [minL]
  | cons c t ih =>
    intro b hb
    simp only [minL]
    simp only [List.mem_cons] at hb
    have := ih c
    split
    · rename_i hle
      rcases hb with hb | hb
      · subst hb; grind
      · have := this b (by simpa using hb); grind
    · rcases hb with hb | hb
      · subst hb; grind
      · exact this b (by simpa using hb)

/-- array bound helpers: a lower bound of some / an upper bound of every argument -/
theorem lbMax_sound (B : Bnds) (y : Asg) (as : List Var) (h : ∀ a ∈ as, inDom B y a) (L : Rat) (hL : lbMax B as = some L) :
    ∃ a ∈ as, L ≤ y a := by
  induction as generalizing L with
  | nil => simp [lbMax] at hL
  | cons a t ih =>
    cases t with
    | nil => simp only [lbMax] at hL; exact ⟨a, by simp, (h a (by simp)).1 L hL⟩
    | cons b t' =>
      simp only [lbMax] at hL
      have iht := fun r hr => ih (fun a' ha' => h a' (by simp only [List.mem_cons] at ha' ⊢; exact Or.inr ha')) r hr
      cases hl : (B a).lb with
      | none =>
        cases hr : lbMax B (b :: t') with
        | none => simp [hl, hr, optMaxI] at hL
        | some r =>
          simp only [hl, hr, optMaxI, Option.some.injEq] at hL
          subst hL
          obtain ⟨c, hc, hle⟩ := iht r hr
          exact ⟨c, by simp only [List.mem_cons] at hc ⊢; exact Or.inr hc, hle⟩
      | some l =>
        have ha := (h a (by simp)).1 l hl
        cases hr : lbMax B (b :: t') with
        | none =>
          simp only [hl, hr, optMaxI, Option.some.injEq] at hL
          subst hL; exact ⟨a, by simp, ha⟩
        | some r =>
          simp only [hl, hr, optMaxI, Option.some.injEq] at hL
          obtain ⟨c, hc, hle⟩ := iht r hr
          by_cases hlr : l ≤ r
          · simp [hlr] at hL; subst hL; exact ⟨c, by simp only [List.mem_cons] at hc ⊢; exact Or.inr hc, hle⟩
          · simp [hlr] at hL; subst hL; exact ⟨a, by simp, ha⟩

theorem ubMax_sound (B : Bnds) (y : Asg) (as : List Var) (h : ∀ a ∈ as, inDom B y a) (U : Rat) (hU : ubMax B as = some U) :
    ∀ a ∈ as, y a ≤ U := by
  induction as generalizing U with
  | nil => simp
  | cons a t ih =>
    cases t with
    | nil => simp only [ubMax] at hU; intro b hb; simp at hb; subst hb; exact (h b (by simp)).2.1 U hU
    | cons b t' =>
      simp only [ubMax] at hU
      cases hl : (B a).ub with
      | none => simp [hl, optMax2] at hU
      | some l =>
        cases hr : ubMax B (b :: t') with
        | none => simp [hl, hr, optMax2] at hU
        | some r =>
          simp only [hl, hr, optMax2, Option.some.injEq] at hU
          have iht := ih (fun a' ha' => h a' (by simp only [List.mem_cons] at ha' ⊢; exact Or.inr ha')) r hr
          have ha := (h a (by simp)).2.1 l hl
          intro c hc
          simp only [List.mem_cons] at hc
          rcases hc with hc | hc
          · subst hc; by_cases hlr : l ≤ r <;> simp [hlr] at hU <;> subst hU <;> grind
          · have := iht c (by simpa using hc)
            by_cases hlr : l ≤ r <;> simp [hlr] at hU <;> subst hU <;> grind

theorem lbMin_sound (B : Bnds) (y : Asg) (as : List Var) (h : ∀ a ∈ as, inDom B y a) (L : Rat) (hL : lbMin B as = some L) :
    ∀ a ∈ as, L ≤ y a := by
  induction as generalizing L with
  | nil => simp
  | cons a t ih =>
    cases t with
    | nil => simp only [lbMin] at hL; intro b hb; simp at hb; subst hb; exact (h b (by simp)).1 L hL
    | cons b t' =>
      simp only [lbMin] at hL
      cases hl : (B a).lb with
      | none => simp [hl, optMin2] at hL
      | some l =>
        cases hr : lbMin B (b :: t') with
        | none => simp [hl, hr, optMin2] at hL
        | some r =>
          simp only [hl, hr, optMin2, Option.some.injEq] at hL
          have iht := ih (fun a' ha' => h a' (by simp only [List.mem_cons] at ha' ⊢; exact Or.inr ha')) r hr
          have ha := (h a (by simp)).1 l hl
          intro c hc
          simp only [List.mem_cons] at hc
          rcases hc with hc | hc
          · subst hc; by_cases hlr : l ≤ r <;> simp [hlr] at hL <;> subst hL <;> grind
          · have := iht c (by simpa using hc)
            by_cases hlr : l ≤ r <;> simp [hlr] at hL <;> subst hL <;> grind

theorem ubMin_sound (B : Bnds) (y : Asg) (as : List Var) (h : ∀ a ∈ as, inDom B y a) (U : Rat) (hU : ubMin B as = some U) :
    ∃ a ∈ as, y a ≤ U := by
  induction as generalizing U with
  | nil => simp [ubMin] at hU
  | cons a t ih =>
    cases t with
    | nil => simp only [ubMin] at hU; exact ⟨a, by simp, (h a (by simp)).2.1 U hU⟩
    | cons b t' =>
      simp only [ubMin] at hU
      have iht := fun r hr => ih (fun a' ha' => h a' (by simp only [List.mem_cons] at ha' ⊢; exact Or.inr ha')) r hr
      cases hl : (B a).ub with
      | none =>
        cases hr : ubMin B (b :: t') with
        | none => simp [hl, hr, optMinI] at hU
        | some r =>
          simp only [hl, hr, optMinI, Option.some.injEq] at hU
          subst hU
          obtain ⟨c, hc, hle⟩ := iht r hr
          exact ⟨c, by simp only [List.mem_cons] at hc ⊢; exact Or.inr hc, hle⟩
      | some l =>
        have ha := (h a (by simp)).2.1 l hl
        cases hr : ubMin B (b :: t') with
        | none =>
          simp only [hl, hr, optMinI, Option.some.injEq] at hU
          subst hU; exact ⟨a, by simp, ha⟩
        | some r =>
          simp only [hl, hr, optMinI, Option.some.injEq] at hU
          obtain ⟨c, hc, hle⟩ := iht r hr
          by_cases hlr : l ≤ r
          · simp [hlr] at hU; subst hU; exact ⟨a, by simp, ha⟩
          · simp [hlr] at hU; subst hU; exact ⟨c, by simp only [List.mem_cons] at hc ⊢; exact Or.inr hc, hle⟩

theorem countP_le (p : Var → Bool) (as : List Var) : (0 : Rat) ≤ countP p as ∧ countP p as ≤ (as.length : Nat) ∧ isIntVal (countP p as) := by
  induction as with
  | nil => simp only [countP, List.length_nil]; exact ⟨by grind, by simp, isIntVal_zero⟩
  | cons a t ih =>
    simp only [countP, List.length_cons]
    obtain ⟨h1, h2, h3⟩ := ih
    have : ((t.length + 1 : Nat) : Rat) = (t.length : Nat) + 1 := by simp
    rw [this]
    split
    · exact ⟨by grind, by grind, isIntVal_add isIntVal_one h3⟩
    · exact ⟨by grind, by grind, isIntVal_add isIntVal_zero h3⟩

theorem b2r_01 (p : Prop) [Decidable p] : b2r p = 0 ∨ b2r p = 1 := by unfold b2r; split <;> simp

end MpVerif.C01

import MpVerif.C01.LemmasConvert6
/-!
# C01 — lemmas about the reference converter, part 7: lowering indicator rows / nested linear functional constraints to linear rows
keeps the meaning of the rows (core Lean only)
-/
namespace MpVerif.C01

theorem bigMUpper_some {ub : Option Rat} {o : Opts} {U : Rat} (hM : o.bigM ≤ 0) (h : bigMUpper ub o = some U) :
    ub = some U := by
  have hm : ¬ (0 < o.bigM) := by grind
  unfold bigMUpper at h
  cases ub with
  | none => simp [hm] at h
  | some u =>
    simp only at h
    split at h
    · simp [hm] at h
    · simpa using h

theorem bigMLower_some {lb : Option Rat} {o : Opts} {L : Rat} (hM : o.bigM ≤ 0) (h : bigMLower lb o = some L) :
    lb = some L := by
  have hm : ¬ (0 < o.bigM) := by grind
  unfold bigMLower at h
  cases lb with
  | none => simp [hm] at h
  | some u =>
    simp only at h
    split at h
    · simp [hm] at h
    · simpa using h

theorem natCast_01 {bv : Nat} (h : bv ≤ 1) : bv = 0 ∨ bv = 1 := by omega

theorem implLE_iff (b : Var) (val : Nat) (ub : Option Rat) (body : Lin) (rhs : Rat) (o : Opts) (y : Asg)
    (hM : o.bigM ≤ 0) (hb : y b = 0 ∨ y b = 1) (hval : val ≤ 1) (hub : ∀ u, ub = some u → evalLin y body ≤ u)
    (hnr : (implLE b val ub body rhs o).refusal = none) :
    (∀ c ∈ (implLE b val ub body rhs o).cons, c.sat y) ↔ (y b = (val : Rat) → evalLin y body ≤ rhs) := by
  unfold implLE at hnr ⊢
  cases hU : bigMUpper ub o with
  | none => simp [hU] at hnr
  | some U =>
    have hu := hub U (bigMUpper_some hM hU)
    simp only []
    rcases natCast_01 hval with hv | hv <;> subst hv
    · by_cases hne : (U != rhs) = true
      · rcases hb with h0 | h0 <;> simp [hne, Con.sat, Cmp.holds, evalLin_append, evalLin, h0] <;> grind
      · have : U = rhs := by simpa using hne
        simp [hne]; intro _; grind
    · by_cases hne : (U != rhs) = true
      · rcases hb with h0 | h0 <;> simp [hne, Con.sat, Cmp.holds, evalLin_append, evalLin, h0] <;> grind
      · have : U = rhs := by simpa using hne
        simp [hne]; intro _; grind

theorem implGE_iff (b : Var) (val : Nat) (lb : Option Rat) (body : Lin) (rhs : Rat) (o : Opts) (y : Asg)
    (hM : o.bigM ≤ 0) (hb : y b = 0 ∨ y b = 1) (hval : val ≤ 1) (hlb : ∀ l, lb = some l → l ≤ evalLin y body)
    (hnr : (implGE b val lb body rhs o).refusal = none) :
    (∀ c ∈ (implGE b val lb body rhs o).cons, c.sat y) ↔ (y b = (val : Rat) → rhs ≤ evalLin y body) := by
  unfold implGE at hnr ⊢
  cases hL : bigMLower lb o with
  | none => simp [hL] at hnr
  | some L =>
    have hl := hlb L (bigMLower_some hM hL)
    simp only []
    rcases natCast_01 hval with hv | hv <;> subst hv
    · by_cases hne : (L != rhs) = true
      · rcases hb with h0 | h0 <;> simp [hne, Con.sat, Cmp.holds, evalLin_append, evalLin, h0] <;> grind
      · have : L = rhs := by simpa using hne
        simp [hne]; intro _; grind
    · by_cases hne : (L != rhs) = true
      · rcases hb with h0 | h0 <;> simp [hne, Con.sat, Cmp.holds, evalLin_append, evalLin, h0] <;> grind
      · have : L = rhs := by simpa using hne
        simp [hne]; intro _; grind


theorem gIndEQ_iff (b : Var) (val : Nat) (body : Lin) (rhs : Rat) (B : Bnds) (o : Opts) (y : Asg)
    (hM : o.bigM ≤ 0) (hb : y b = 0 ∨ y b = 1) (hval : val ≤ 1) (hd : ∀ p ∈ body, inDom B y p.2)
    (hnr : (gIndEQ b val body rhs B o).refusal = none) :
    (∀ c ∈ (gIndEQ b val body rhs B o).cons, c.sat y) ↔ (y b = (val : Rat) → evalLin y body = rhs) := by
  have hs := linBnd_sound B y body hd
  unfold gIndEQ at hnr ⊢
  simp only [] at hnr ⊢
  cases h1 : (implLE b val (linBnd B body).2.1 body rhs o).refusal with
  | some r => simp [h1] at hnr
  | none =>
    simp only [h1] at hnr ⊢
    cases h2 : (implLE b val ((linBnd B body).1.map (- ·)) (negLin body) (-rhs) o).refusal with
    | some r => simp [h2] at hnr
    | none =>
      simp only [h2, List.forall_mem_append]
      rw [implLE_iff b val _ body rhs o y hM hb hval hs.2 h1,
        implLE_iff b val _ (negLin body) (-rhs) o y hM hb hval (by
          intro u hu
          cases hl : (linBnd B body).1 with
          | none => simp [hl] at hu
          | some l => simp [hl] at hu; subst hu; rw [evalLin_neg]; have := hs.1 l hl; grind) h2]
      rw [evalLin_neg]
      constructor
      · intro ⟨ha, hb'⟩ hv; have := ha hv; have := hb' hv; grind
      · intro h; exact ⟨fun hv => by rw [h hv]; grind, fun hv => by rw [h hv]; grind⟩

/-- lowering one row keeps its meaning (for assignments respecting the bounds of the row's variables) -/
theorem lowerCon_iff (B : Bnds) (o : Opts) (c : Con) (y : Asg) (hM : o.bigM ≤ 0) (hd : ∀ v ∈ c.vars, inDom B y v)
    (hnr : (lowerCon B o c).refusal = none) : (∀ c' ∈ (lowerCon B o c).cons, c'.sat y) ↔ c.sat y := by
  cases c with
  | indLin b bv k body rhs =>
    simp only [lowerCon] at hnr ⊢
    by_cases hc : (decide (bv ≤ 1) && isBin01 (B b)) = true
    · simp only [hc, if_true] at hnr ⊢
      simp only [Bool.and_eq_true, decide_eq_true_eq] at hc
      have hb : y b = 0 ∨ y b = 1 := bin01_vals hc.2 (hd b (by simp [Con.vars]))
      have hbody : ∀ p ∈ body, inDom B y p.2 := fun p hp =>
        hd p.2 (by simp only [Con.vars, List.mem_cons, List.mem_map]; exact Or.inr ⟨p, hp, rfl⟩)
      have hs := linBnd_sound B y body hbody
      cases k with
      | le =>
        simp only [gIndLE] at hnr ⊢
        rw [implLE_iff b bv _ body rhs o y hM hb hc.1 hs.2 hnr]; simp [Con.sat, Cmp.holds]
      | ge =>
        simp only [gIndGE] at hnr ⊢
        rw [implGE_iff b bv _ body rhs o y hM hb hc.1 hs.1 hnr]; simp [Con.sat, Cmp.holds]
      | eq =>
        simp only [] at hnr ⊢
        rw [gIndEQ_iff b bv body rhs B o y hM hb hc.1 hbody hnr]; simp [Con.sat, Cmp.holds]
    · simp [hc]
  | func r ctx f =>
    cases ctx with
    | none =>
      cases f with
      | affine body c =>
        simp only [lowerCon, gLFC, List.mem_singleton, forall_eq, Con.sat, Cmp.holds, evalLin_append, evalLin, rel, req,
          Ctx.eff, Fun.val]
        constructor <;> intro h <;> grind
      | _ => simp [lowerCon]
    | _ => simp [lowerCon]
  | _ => simp [lowerCon]

theorem implLE_vars (b : Var) (val : Nat) (ub : Option Rat) (body : Lin) (rhs : Rat) (o : Opts) :
    ∀ c ∈ (implLE b val ub body rhs o).cons, ∀ v ∈ c.vars, v = b ∨ v ∈ body.map (·.2) := by
  intro c hc v hv
  unfold implLE at hc
  split at hc
  · simp at hc
  · split at hc
    · split at hc <;> simp only [List.mem_singleton] at hc <;> subst hc <;>
        (simp only [Con.vars, List.map_append, List.mem_append, List.map_cons, List.map_nil, List.mem_singleton] at hv
         rcases hv with h | h
         · exact Or.inr h
         · exact Or.inl h)
    · simp at hc

theorem implGE_vars (b : Var) (val : Nat) (lb : Option Rat) (body : Lin) (rhs : Rat) (o : Opts) :
    ∀ c ∈ (implGE b val lb body rhs o).cons, ∀ v ∈ c.vars, v = b ∨ v ∈ body.map (·.2) := by
  intro c hc v hv
  unfold implGE at hc
  split at hc
  · simp at hc
  · split at hc
    · split at hc <;> simp only [List.mem_singleton] at hc <;> subst hc <;>
        (simp only [Con.vars, List.map_append, List.mem_append, List.map_cons, List.map_nil, List.mem_singleton] at hv
         rcases hv with h | h
         · exact Or.inr h
         · exact Or.inl h)
    · simp at hc

theorem negLin_vars (body : Lin) : (negLin body).map (·.2) = body.map (·.2) := by
  induction body with
  | nil => rfl
  | cons p t ih => obtain ⟨c, v⟩ := p; simpa [negLin] using ih

/-- lowering introduces no new variables -/
theorem lowerCon_vars (B : Bnds) (o : Opts) (c : Con) : ∀ c' ∈ (lowerCon B o c).cons, ∀ v ∈ c'.vars, v ∈ c.vars := by
  intro c' hc' v hv
  cases c with
  | indLin b bv k body rhs =>
    simp only [lowerCon] at hc'
    by_cases hc : (decide (bv ≤ 1) && isBin01 (B b)) = true
    · simp only [hc, if_true] at hc'
      have key : v = b ∨ v ∈ body.map (·.2) := by
        cases k with
        | le => exact implLE_vars b bv _ body rhs o c' hc' v hv
        | ge => exact implGE_vars b bv _ body rhs o c' hc' v hv
        | eq =>
          simp only [gIndEQ] at hc'
          split at hc'
          · simp at hc'
          · split at hc'
            · simp at hc'
            · simp only [List.mem_append] at hc'
              rcases hc' with h | h
              · exact implLE_vars b bv _ body rhs o c' h v hv
              · have := implLE_vars b bv _ (negLin body) (-rhs) o c' h v hv
                rw [negLin_vars] at this; exact this
      simp only [Con.vars, List.mem_cons]; exact key
    · simp only [hc] at hc'; simp at hc'; subst hc'; exact hv
  | func r ctx f =>
    cases ctx with
    | none =>
      cases f with
      | affine body c =>
        simp only [lowerCon, gLFC, List.mem_singleton] at hc'
        subst hc'
        simp only [Con.vars, List.map_append, List.mem_append, List.map_cons, List.map_nil, List.mem_singleton] at hv
        simp only [Con.vars, Fun.vars, List.mem_cons]
        rcases hv with h | h
        · exact Or.inr h
        · exact Or.inl h
      | _ => simp [lowerCon] at hc'; subst hc'; exact hv
    | _ => simp [lowerCon] at hc'; subst hc'; exact hv
  | _ => simp [lowerCon] at hc'; subst hc'; exact hv

end MpVerif.C01

import MpVerif.C01.ModelGadgets
/-!
# C01 — context propagation rules (`include/mp/flat/constr_prop_down.h`)

Each `prop*` function returns the list of `(variable, context)` pairs that the corresponding
`PropagateResult` overload hands to `PropagateResultOfInitExpr` (which *merges* them into the
contexts stored on the defining constraints with `Context::Add`).  The order of the list is the
order of the terms/arguments (the C++ loops over terms from the last to the first; merging is
commutative, see `C01_ctx_add_comm`).
-/
namespace MpVerif.C01

/-- `PropagateResult2LinTerms`: coefficient `>= 0` gets `+ctx`, `< 0` gets `-ctx`; zero coefficients skipped -/
def propLin (ctx : Ctx) : Lin → List (Var × Ctx)
  | [] => []
  | (c, v) :: t =>
    if c = 0 then propLin ctx t
    else (v, if 0 ≤ c then ctx.plus else ctx.flip) :: propLin ctx t

def lbGE0 (i : VarInfo) : Bool := match i.lb with | some l => decide (0 ≤ l) | none => false
def ubLE0 (i : VarInfo) : Bool := match i.ub with | some u => decide (u ≤ 0) | none => false

/-- context for the two factors of one product, given the context of the product itself -/
def quadTermCtx (B : Bnds) (ctx : Ctx) (v w : Var) : Ctx :=
  if lbGE0 (B v) && lbGE0 (B w) then ctx
  else if ubLE0 (B v) && ubLE0 (B w) then ctx.flip
  else .mix

/-- `PropagateResult2QuadTerms` (as of /repo 29be2a5): the sign of the coefficient is taken into account first
(`ctx12 = coef >= 0 ? ctx : -ctx`), then the signs of the factors' bounds.
History: before 29be2a5 the coefficient sign was ignored (`ctx12 = ctx`), which is unsound — e.g.
`x ∈ [0,5]`, `v = abs(z) ∈ [0,3]`, body `-(x·v)` in positive context handed *pos* to `v`, so `v` could be
under-estimated (`a v = 0 ≤ f v = 3`) although body value `0 ≰ -15`; found by this check (DESIGN A0) and repaired. -/
def propQuad (B : Bnds) (ctx : Ctx) : Quad → List (Var × Ctx)
  | [] => []
  | (c, v, w) :: t =>
    if c = 0 then propQuad B ctx t
    else
      let c12 := quadTermCtx B (if 0 ≤ c then ctx else ctx.flip) v w
      (if v = w then [(v, c12)] else [(v, c12), (w, c12)]) ++ propQuad B ctx t

/-- `PropagateResult(LinearFunctionalConstraint&)` -/
def propLFC (ctx : Ctx) (body : Lin) : List (Var × Ctx) := propLin ctx.plus body
/-- `PropagateResult(QuadraticFunctionalConstraint&)` -/
def propQFC (B : Bnds) (ctx : Ctx) (lin : Lin) (q : Quad) : List (Var × Ctx) :=
  propLin ctx.plus lin ++ propQuad B ctx.plus q

/-- root algebraic range constraint: context chosen by the finiteness of the bounds -/
def rangeCtx (lb ub : Option Rat) : Ctx :=
  if (match lb with | none => true | some l => decide (l ≤ -pracInf)) then .neg
  else if (match ub with | none => true | some u => decide (pracInf ≤ u)) then .pos
  else .mix
def propRangeLin (body : Lin) (lb ub : Option Rat) : List (Var × Ctx) := propLin (rangeCtx lb ub) body

def propNot (ctx : Ctx) (a : Var) : List (Var × Ctx) := [(a, ctx.flip)]
def propAnd (ctx : Ctx) (args : List Var) : List (Var × Ctx) := args.map fun a => (a, ctx.plus)
def propOr (ctx : Ctx) (args : List Var) : List (Var × Ctx) := args.map fun a => (a, ctx.plus)

def optGE (a b : Option Rat) : Bool :=   -- lb(a) >= ub(b), both must be finite
  match a, b with | some l, some u => decide (u ≤ l) | _, _ => false

/-- `PropagateIfThenResultIntoCondition` + then/else -/
def propIfThen (B : Bnds) (ctx : Ctx) (c t e : Var) : List (Var × Ctx) :=
  let cc : Ctx :=
    if ctx = .pos ∨ ctx = .neg then
      (if optGE (B t).lb (B e).ub then ctx.plus
       else if optGE (B e).lb (B t).ub then ctx.flip else .mix)
    else .mix
  [(c, cc), (t, ctx.plus), (e, ctx.plus)]

def propImpl (ctx : Ctx) (c t e : Var) : List (Var × Ctx) := [(c, .mix), (t, ctx.plus), (e, ctx.plus)]

/-- conditional comparisons: `kind>0 ? ctx : kind<0 ? -ctx : MIX`, then into the linear body -/
def propCondLin (k : Cmp5) (ctx : Ctx) (body : Lin) : List (Var × Ctx) :=
  propLin (match k with | .ge => ctx | .gt => ctx | .le => ctx.flip | .lt => ctx.flip | .eq => .mix) body

/-- default rule (abs, min, max, count, numberof, alldiff, div, …): every argument mixed -/
def propDefault (args : List Var) : List (Var × Ctx) := args.map fun a => (a, .mix)

/-- indicator `b == bv ⇒ body (sens) rhs`: the binary gets neg for `bv = 1`, pos for `bv = 0` -/
def propIndicator (bv : Nat) (k : Cmp) (ctx : Ctx) (b : Var) (body : Lin) : List (Var × Ctx) :=
  (b, if bv = 1 then .neg else .pos) ::
    propLin (match k with | .eq => .mix | .ge => ctx.plus | .le => ctx.flip) body

end MpVerif.C01

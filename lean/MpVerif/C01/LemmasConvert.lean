import MpVerif.C01.LemmasObjective
import MpVerif.C01.ModelConvert
/-!
# C01 — lemmas about the reference converter (core Lean only)
-/
namespace MpVerif.C01

/-! ## term canonicalisation keeps values -/

theorem insTerm_eval (x : Asg) (c : Rat) (v : Var) (l : Lin) : evalLin x (insTerm c v l) = c * x v + evalLin x l := by
  induction l with
  | nil => simp [insTerm, evalLin]
  | cons p t ih =>
    obtain ⟨c', v'⟩ := p
    simp only [insTerm]
    split
    · simp [evalLin]
    · split
      · rename_i h; subst h; simp [evalLin]; grind
      · simp [evalLin, ih]; grind

theorem filter_nz_eval (x : Asg) (l : Lin) : evalLin x (l.filter (fun p => p.1 != 0)) = evalLin x l := by
  induction l with
  | nil => rfl
  | cons p t ih =>
    obtain ⟨c, v⟩ := p
    by_cases h : c = 0
    · subst h; simp [List.filter, evalLin, ih]; grind
    · have : ((c, v).1 != 0) = true := by simpa using h
      simp [List.filter, this, evalLin, ih]

theorem normLin_eval (x : Asg) (l : Lin) : evalLin x (normLin l) = evalLin x l := by
  unfold normLin
  rw [filter_nz_eval]
  induction l with
  | nil => rfl
  | cons p t ih =>
    obtain ⟨c, v⟩ := p
    simp only [List.foldr_cons, insTerm_eval, ih, evalLin]

theorem condBody_eval (x : Asg) (l : Lin) : evalLin x (condBody l) = evalLin x l := by
  unfold condBody; split
  · exact normLin_eval x l
  · rfl

theorem scaleLin_eval (x : Asg) (k : Rat) (l : Lin) : evalLin x (scaleLin k l) = k * evalLin x l := by
  induction l with
  | nil => simp [scaleLin, evalLin]
  | cons p t ih =>
    obtain ⟨c, v⟩ := p
    simp only [scaleLin, List.map_cons, evalLin] at ih ⊢
    rw [ih]; grind

/-! ## list-valued semantics vs. `Fun.val` on argument variables -/

theorem maxL_eq_maxQ (y : Asg) (a : Var) (t : List Var) : maxL y a t = maxQ ((a :: t).map y) := by
  induction t generalizing a with
  | nil => simp [maxL, maxQ]
  | cons b t ih => simp only [maxL, List.map_cons, maxQ, ih b]

theorem minL_eq_minQ (y : Asg) (a : Var) (t : List Var) : minL y a t = minQ ((a :: t).map y) := by
  induction t generalizing a with
  | nil => simp [minL, minQ]
  | cons b t ih => simp only [minL, List.map_cons, minQ, ih b]

theorem countP_eq_filter (y : Asg) (as : List Var) :
    countP (fun a => y a != 0) as = (((as.map y).filter (fun q => q != 0)).length : Nat) := by
  induction as with
  | nil => simp [countP]
  | cons a t ih =>
    simp only [countP, List.map_cons, List.filter]
    by_cases h : y a = 0
    · simp [h, ih]; grind
    · have : (y a != 0) = true := by simpa using h
      simp [this, ih]; grind

/-! ## the expression map / new definitions -/

theorem mkDef_spec (f : Fun) (S : FS) :
    S.defs <+: (mkDef f S).2.defs ∧ ∃ d ∈ (mkDef f S).2.defs, d.res = (mkDef f S).1 ∧ d.f = f := by
  unfold mkDef
  cases h : S.defs.find? (fun d => decide (d.f = f)) with
  | some d =>
    simp only
    refine ⟨List.prefix_refl _, d, List.mem_of_find?_eq_some h, rfl, ?_⟩
    have := List.find?_some h
    simpa using this
  | none =>
    simp only
    exact ⟨List.prefix_append _ _, ⟨S.next, .none, f⟩, by simp, rfl, rfl⟩

/-- value of an affine form `(terms, constant)` -/
def affVal (y : Asg) (p : Lin × Rat) : Rat := evalLin y p.1 + p.2

theorem aff2varL_spec (n0 : Nat) (l : Lin) (c0 : Rat) (S : FS) :
    S.defs <+: (aff2varL l c0 S).2.defs ∧
    ∀ (D : List Def) (x : Asg), WF n0 D → (aff2varL l c0 S).2.defs <+: D →
      exactAsg x D (aff2varL l c0 S).1 = evalLin (exactAsg x D) l + c0 := by
  have hmk : ∀ l' : Lin, S.defs <+: (mkDef (.affine l' c0) S).2.defs ∧
      ∀ (D : List Def) (x : Asg), WF n0 D → (mkDef (.affine l' c0) S).2.defs <+: D →
      exactAsg x D (mkDef (.affine l' c0) S).1 = evalLin (exactAsg x D) l' + c0 := by
    intro l'
    obtain ⟨hp, d, hd, hr, hf⟩ := mkDef_spec (.affine l' c0) S
    refine ⟨hp, ?_⟩
    intro D x hwf hpre
    have hdD : d ∈ D := hpre.subset hd
    rw [← hr, exact_spec x n0 D hwf d hdD, hf]; rfl
  unfold aff2varL
  split
  · rename_i c v
    split
    · rename_i hc
      refine ⟨List.prefix_refl _, ?_⟩
      intro D x _ _
      simp [evalLin, hc.1, hc.2]; grind
    · exact hmk _
  · exact hmk _

theorem aff2var_prefix (p : Lin × Rat) (S : FS) : S.defs <+: (aff2var p S).2.defs :=
  (aff2varL_spec 0 _ _ S).1

/-- `Convert2Var`: in any well-formed extension of the resulting state the returned variable carries the affine value -/
theorem aff2var_val (n0 : Nat) (p : Lin × Rat) (S : FS) (D : List Def) (x : Asg) (hwf : WF n0 D)
    (hpre : (aff2var p S).2.defs <+: D) :
    exactAsg x D (aff2var p S).1 = affVal (exactAsg x D) p := by
  unfold affVal
  exact (aff2varL_spec n0 _ _ S).2 D x hwf hpre


/-! ## flattening is value-correct: in any well-formed extension `D` of the state reached, the flat value equals the NL value -/

theorem cmp_shift (k : Cmp5) (a b ca cb la lb : Rat) (ha : la + ca = a) (hb : lb + cb = b) :
    k.holds (la + -lb) (cb - ca) ↔ k.holds a b := by
  cases k <;> simp only [Cmp5.holds] <;> grind

theorem flip_holds (k : Cmp5) (a b : Rat) : (flipCmp k).holds (-a) (-b) ↔ k.holds a b := by
  cases k <;> simp only [flipCmp, Cmp5.holds] <;> grind

theorem b2r_congr {p q : Prop} [Decidable p] [Decidable q] (h : p ↔ q) : b2r p = b2r q := by
  unfold b2r
  by_cases hp : p
  · simp [hp, h.mp hp]
  · have hq : ¬ q := fun hh => hp (h.mpr hh)
    simp [hp, hq]

theorem normCmp_val (y : Asg) (neg : Bool) (k : Cmp5) (body : Lin) (rhs : Rat) :
    Fun.val y (normCmp neg k body rhs) = b2r (k.holds (evalLin y body) rhs) := by
  cases neg with
  | false => rfl
  | true =>
    simp only [normCmp, if_true, Fun.val, evalLin_neg]
    exact b2r_congr (flip_holds k _ rhs)

mutual
theorem flatN_spec (n0 : Nat) (e : NE) (S : FS) :
    S.defs <+: (flatN e S).2.defs ∧
    ∀ (D : List Def) (x : Asg), WF n0 D → (flatN e S).2.defs <+: D → e.vok n0 = true →
      affVal (exactAsg x D) (flatN e S).1 = e.eval x := by
  cases e with
  | c q => exact ⟨List.prefix_refl _, fun D x _ _ _ => by simp [flatN, affVal, evalLin, NE.eval]; grind⟩
  | v i =>
    refine ⟨List.prefix_refl _, fun D x hwf _ hv => ?_⟩
    have hi : i < n0 := by simpa [NE.vok] using hv
    simp [flatN, affVal, evalLin, NE.eval, exact_below x n0 D hwf i hi]; grind
  | add a b =>
    have h1 := flatN_spec n0 a S
    have h2 := flatN_spec n0 b (flatN a S).2
    refine ⟨by simpa [flatN] using h1.1.trans h2.1, fun D x hwf hpre hv => ?_⟩
    simp only [flatN] at hpre
    simp only [NE.vok, Bool.and_eq_true] at hv
    have va := h1.2 D x hwf (h2.1.trans hpre) hv.1
    have vb := h2.2 D x hwf hpre hv.2
    simp only [flatN, affVal, evalLin_append, NE.eval] at va vb ⊢
    grind
  | mul k a =>
    have h1 := flatN_spec n0 a S
    refine ⟨by simpa [flatN] using h1.1, fun D x hwf hpre hv => ?_⟩
    simp only [flatN] at hpre
    have va := h1.2 D x hwf hpre (by simpa [NE.vok] using hv)
    simp only [flatN, affVal, scaleLin_eval, NE.eval] at va ⊢
    grind
  | abs a =>
    have h1 := flatN_spec n0 a S
    have h2 := aff2var_prefix (flatN a S).1 (flatN a S).2
    obtain ⟨h3, d, hd, hr, hf⟩ := mkDef_spec (.abs (aff2var (flatN a S).1 (flatN a S).2).1) (aff2var (flatN a S).1 (flatN a S).2).2
    refine ⟨by simpa [flatN] using (h1.1.trans h2).trans h3, fun D x hwf hpre hv => ?_⟩
    simp only [flatN] at hpre
    have va := h1.2 D x hwf ((h2.trans h3).trans hpre) (by simpa [NE.vok] using hv)
    have vv := aff2var_val n0 (flatN a S).1 (flatN a S).2 D x hwf (h3.trans hpre)
    have hdD : d ∈ D := hpre.subset hd
    have := exact_spec x n0 D hwf d hdD
    simp only [flatN, affVal, evalLin, NE.eval]
    rw [← hr, this, hf]
    simp only [Fun.val, vv, va]
    grind
  | max as =>
    have h1 := flatNs_spec n0 as S
    obtain ⟨h3, d, hd, hr, hf⟩ := mkDef_spec (.max (flatNs as S).1) (flatNs as S).2
    refine ⟨by simpa [flatN] using h1.1.trans h3, fun D x hwf hpre hv => ?_⟩
    simp only [flatN] at hpre
    have va := h1.2 D x hwf (h3.trans hpre) (by simpa [NE.vok] using hv)
    have := exact_spec x n0 D hwf d (hpre.subset hd)
    simp only [flatN, affVal, evalLin, NE.eval]
    rw [← hr, this, hf, ← va]
    cases hl : (flatNs as S).1 with
    | nil => simp [Fun.val, maxQ]; grind
    | cons a t => simp only [Fun.val, maxL_eq_maxQ]; grind
  | min as =>
    have h1 := flatNs_spec n0 as S
    obtain ⟨h3, d, hd, hr, hf⟩ := mkDef_spec (.min (flatNs as S).1) (flatNs as S).2
    refine ⟨by simpa [flatN] using h1.1.trans h3, fun D x hwf hpre hv => ?_⟩
    simp only [flatN] at hpre
    have va := h1.2 D x hwf (h3.trans hpre) (by simpa [NE.vok] using hv)
    have := exact_spec x n0 D hwf d (hpre.subset hd)
    simp only [flatN, affVal, evalLin, NE.eval]
    rw [← hr, this, hf, ← va]
    cases hl : (flatNs as S).1 with
    | nil => simp [Fun.val, minQ]; grind
    | cons a t => simp only [Fun.val, minL_eq_minQ]; grind
  | ite cnd t e =>
    have hc := flatL_spec n0 cnd S
    have ht := flatN_spec n0 t (flatL cnd S).2
    have pt := aff2var_prefix (flatN t (flatL cnd S).2).1 (flatN t (flatL cnd S).2).2
    have he := flatN_spec n0 e (aff2var (flatN t (flatL cnd S).2).1 (flatN t (flatL cnd S).2).2).2
    have pe := aff2var_prefix (flatN e (aff2var (flatN t (flatL cnd S).2).1 (flatN t (flatL cnd S).2).2).2).1
      (flatN e (aff2var (flatN t (flatL cnd S).2).1 (flatN t (flatL cnd S).2).2).2).2
    obtain ⟨h3, d, hd, hr, hf⟩ := mkDef_spec
      (.ifthen (flatL cnd S).1 (aff2var (flatN t (flatL cnd S).2).1 (flatN t (flatL cnd S).2).2).1
        (aff2var (flatN e (aff2var (flatN t (flatL cnd S).2).1 (flatN t (flatL cnd S).2).2).2).1
          (flatN e (aff2var (flatN t (flatL cnd S).2).1 (flatN t (flatL cnd S).2).2).2).2).1)
      (aff2var (flatN e (aff2var (flatN t (flatL cnd S).2).1 (flatN t (flatL cnd S).2).2).2).1
          (flatN e (aff2var (flatN t (flatL cnd S).2).1 (flatN t (flatL cnd S).2).2).2).2).2
    refine ⟨by simpa [flatN] using ((((hc.1.trans ht.1).trans pt).trans he.1).trans pe).trans h3, fun D x hwf hpre hv => ?_⟩
    simp only [flatN] at hpre
    simp only [NE.vok, Bool.and_eq_true] at hv
    have p5 := h3.trans hpre
    have p4 := pe.trans p5
    have p3 := he.1.trans p4
    have p2 := pt.trans p3
    have p1 := ht.1.trans p2
    have vc := hc.2 D x hwf p1 hv.1.1
    have vt := ht.2 D x hwf p2 hv.1.2
    have vvt := aff2var_val n0 _ _ D x hwf p3
    have ve := he.2 D x hwf p4 hv.2
    have vve := aff2var_val n0 _ _ D x hwf p5
    have := exact_spec x n0 D hwf d (hpre.subset hd)
    simp only [flatN, affVal, evalLin, NE.eval]
    rw [← hr, this, hf]
    simp only [Fun.val, vc, vvt, vt, vve, ve]
    grind
  | count ls =>
    have h1 := flatLs_spec n0 ls S
    obtain ⟨h3, d, hd, hr, hf⟩ := mkDef_spec (.count (flatLs ls S).1) (flatLs ls S).2
    refine ⟨by simpa [flatN] using h1.1.trans h3, fun D x hwf hpre hv => ?_⟩
    simp only [flatN] at hpre
    have va := h1.2 D x hwf (h3.trans hpre) (by simpa [NE.vok] using hv)
    have := exact_spec x n0 D hwf d (hpre.subset hd)
    simp only [flatN, affVal, evalLin, NE.eval]
    rw [← hr, this, hf, ← va]
    simp only [Fun.val, countP_eq_filter]
    grind

theorem flatNs_spec (n0 : Nat) (es : NEs) (S : FS) :
    S.defs <+: (flatNs es S).2.defs ∧
    ∀ (D : List Def) (x : Asg), WF n0 D → (flatNs es S).2.defs <+: D → es.vok n0 = true →
      (flatNs es S).1.map (exactAsg x D) = es.evals x := by
  cases es with
  | nil => exact ⟨List.prefix_refl _, fun D x _ _ _ => by simp [flatNs, NEs.evals]⟩
  | cons a t =>
    have h1 := flatN_spec n0 a S
    have h2 := aff2var_prefix (flatN a S).1 (flatN a S).2
    have h3 := flatNs_spec n0 t (aff2var (flatN a S).1 (flatN a S).2).2
    refine ⟨by simpa [flatNs] using (h1.1.trans h2).trans h3.1, fun D x hwf hpre hv => ?_⟩
    simp only [flatNs] at hpre
    simp only [NEs.vok, Bool.and_eq_true] at hv
    have va := h1.2 D x hwf ((h2.trans h3.1).trans hpre) hv.1
    have vv := aff2var_val n0 (flatN a S).1 (flatN a S).2 D x hwf (h3.1.trans hpre)
    have vt := h3.2 D x hwf hpre hv.2
    simp only [flatNs, List.map_cons, NEs.evals, vv, va, vt]

theorem flatL_spec (n0 : Nat) (l : LE) (S : FS) :
    S.defs <+: (flatL l S).2.defs ∧
    ∀ (D : List Def) (x : Asg), WF n0 D → (flatL l S).2.defs <+: D → l.vok n0 = true →
      exactAsg x D (flatL l S).1 = l.eval x := by
  cases l with
  | cmp k a b =>
    have h1 := flatN_spec n0 a S
    have h2 := flatN_spec n0 b (flatN a S).2
    obtain ⟨h3, d, hd, hr, hf⟩ := mkDef_spec
      (normCmp (leadNeg ((flatN a S).1.1 ++ negLin (flatN b (flatN a S).2).1.1)) k
        (condBody ((flatN a S).1.1 ++ negLin (flatN b (flatN a S).2).1.1)) ((flatN b (flatN a S).2).1.2 - (flatN a S).1.2))
      (flatN b (flatN a S).2).2
    refine ⟨by simpa [flatL] using (h1.1.trans h2.1).trans h3, fun D x hwf hpre hv => ?_⟩
    simp only [flatL] at hpre
    simp only [LE.vok, Bool.and_eq_true] at hv
    have va := h1.2 D x hwf ((h2.1.trans h3).trans hpre) hv.1
    have vb := h2.2 D x hwf (h3.trans hpre) hv.2
    have := exact_spec x n0 D hwf d (hpre.subset hd)
    simp only [flatL, LE.eval]
    rw [← hr, this, hf, normCmp_val, condBody_eval, evalLin_append, evalLin_neg]
    simp only [affVal] at va vb
    have := cmp_shift k (a.eval x) (b.eval x) (flatN a S).1.2 (flatN b (flatN a S).2).1.2
      (evalLin (exactAsg x D) (flatN a S).1.1) (evalLin (exactAsg x D) (flatN b (flatN a S).2).1.1) va vb
    exact b2r_congr this
  | and ls =>
    have h1 := flatLs_spec n0 ls S
    obtain ⟨h3, d, hd, hr, hf⟩ := mkDef_spec (.and (flatLs ls S).1) (flatLs ls S).2
    refine ⟨by simpa [flatL] using h1.1.trans h3, fun D x hwf hpre hv => ?_⟩
    simp only [flatL] at hpre
    have va := h1.2 D x hwf (h3.trans hpre) (by simpa [LE.vok] using hv)
    have := exact_spec x n0 D hwf d (hpre.subset hd)
    simp only [flatL, LE.eval]
    rw [← hr, this, hf, ← va]
    simp [Fun.val, List.all_map]
  | or ls =>
    have h1 := flatLs_spec n0 ls S
    obtain ⟨h3, d, hd, hr, hf⟩ := mkDef_spec (.or (flatLs ls S).1) (flatLs ls S).2
    refine ⟨by simpa [flatL] using h1.1.trans h3, fun D x hwf hpre hv => ?_⟩
    simp only [flatL] at hpre
    have va := h1.2 D x hwf (h3.trans hpre) (by simpa [LE.vok] using hv)
    have := exact_spec x n0 D hwf d (hpre.subset hd)
    simp only [flatL, LE.eval]
    rw [← hr, this, hf, ← va]
    simp [Fun.val, List.any_map]
  | not l =>
    have h1 := flatL_spec n0 l S
    obtain ⟨h3, d, hd, hr, hf⟩ := mkDef_spec (.not (flatL l S).1) (flatL l S).2
    refine ⟨by simpa [flatL] using h1.1.trans h3, fun D x hwf hpre hv => ?_⟩
    simp only [flatL] at hpre
    have va := h1.2 D x hwf (h3.trans hpre) (by simpa [LE.vok] using hv)
    have := exact_spec x n0 D hwf d (hpre.subset hd)
    simp only [flatL, LE.eval]
    rw [← hr, this, hf]
    simp [Fun.val, va]
  | iff a b =>
    have h1 := flatL_spec n0 a S
    have h2 := flatL_spec n0 b (flatL a S).2
    obtain ⟨h3, d, hd, hr, hf⟩ := mkDef_spec
      (normCmp (leadNeg ([(1, (flatL a S).1)] ++ negLin [(1, (flatL b (flatL a S).2).1)])) .eq
        (condBody ([(1, (flatL a S).1)] ++ negLin [(1, (flatL b (flatL a S).2).1)])) (0 - 0))
      (flatL b (flatL a S).2).2
    refine ⟨by simpa [flatL] using (h1.1.trans h2.1).trans h3, fun D x hwf hpre hv => ?_⟩
    simp only [flatL] at hpre
    simp only [LE.vok, Bool.and_eq_true] at hv
    have va := h1.2 D x hwf ((h2.1.trans h3).trans hpre) hv.1
    have vb := h2.2 D x hwf (h3.trans hpre) hv.2
    have := exact_spec x n0 D hwf d (hpre.subset hd)
    simp only [flatL, LE.eval]
    rw [← hr, this, hf, normCmp_val, condBody_eval, evalLin_append, evalLin_neg]
    have := cmp_shift .eq (a.eval x) (b.eval x) 0 0
      (evalLin (exactAsg x D) [(1, (flatL a S).1)]) (evalLin (exactAsg x D) [(1, (flatL b (flatL a S).2).1)])
      (by rw [← va]; simp only [evalLin_cons, evalLin_nil]; grind) (by rw [← vb]; simp only [evalLin_cons, evalLin_nil]; grind)
    have h' : Cmp5.eq.holds (a.eval x) (b.eval x) ↔ a.eval x = b.eval x := by simp [Cmp5.holds]
    exact b2r_congr (this.trans h')

theorem flatLs_spec (n0 : Nat) (ls : LEs) (S : FS) :
    S.defs <+: (flatLs ls S).2.defs ∧
    ∀ (D : List Def) (x : Asg), WF n0 D → (flatLs ls S).2.defs <+: D → ls.vok n0 = true →
      (flatLs ls S).1.map (exactAsg x D) = ls.evals x := by
  cases ls with
  | nil => exact ⟨List.prefix_refl _, fun D x _ _ _ => by simp [flatLs, LEs.evals]⟩
  | cons l t =>
    have h1 := flatL_spec n0 l S
    have h3 := flatLs_spec n0 t (flatL l S).2
    refine ⟨by simpa [flatLs] using h1.1.trans h3.1, fun D x hwf hpre hv => ?_⟩
    simp only [flatLs] at hpre
    simp only [LEs.vok, Bool.and_eq_true] at hv
    have va := h1.2 D x hwf (h3.1.trans hpre) hv.1
    have vt := h3.2 D x hwf hpre hv.2
    simp only [flatLs, List.map_cons, LEs.evals, va, vt]
end

end MpVerif.C01

import MpVerif.C01.LemmasCompose
import MpVerif.C01.ModelObjective
/-!
# C01 — lemmas for the objective clause and for equality-delivering gadgets (core Lean only)
-/
namespace MpVerif.C01

theorem obj_val_agree (N : Nat) (o : Obj) (a b : Asg) (hag : ∀ v, v < N → b v = a v) (hoN : ∀ v ∈ o.vars, v < N) :
    o.val b = o.val a := by
  unfold Obj.val
  have h1 : evalLin b o.lin = evalLin a o.lin :=
    evalLin_congr b a o.lin (fun p hp => hag p.2 (hoN p.2 (by
      simp only [Obj.vars, List.mem_append, List.mem_map]; exact Or.inl ⟨p, hp, rfl⟩)))
  have h2 : evalQuad b o.quad = evalQuad a o.quad :=
    evalQuad_congr b a o.quad (fun t ht =>
      ⟨hag _ (hoN _ (by simp only [Obj.vars, List.mem_append, List.mem_map]; exact Or.inr (Or.inl ⟨t, ht, rfl⟩))),
       hag _ (hoN _ (by simp only [Obj.vars, List.mem_append, List.mem_map]; exact Or.inr (Or.inr ⟨t, ht, rfl⟩)))⟩)
  rw [h1, h2]

/-- the objective value of a delivered solution relates to the exact one as the objective's context requires -/
theorem obj_req (B : Bnds) (N : Nat) (defs : List Def) (o : Obj) (y e : Asg)
    (hoN : ∀ v ∈ o.vars, v < N) (hcovO : ObjCovers B defs o)
    (hqy : ∀ t ∈ o.quad, inDom B y t.2.1 ∧ inDom B y t.2.2) (hqe : ∀ t ∈ o.quad, inDom B e t.2.1 ∧ inDom B e t.2.2)
    (inv : ∀ v, v < N → req (ctxOf defs v).eff (y v) (e v)) :
    req (objCtx o.sense) (o.val y) (o.val e) := by
  have h1 : req (objCtx o.sense) (evalLin y o.lin) (evalLin e o.lin) := by
    apply C01_ctx_sound_linterms
    intro p hp
    have hv : p.1 < N := hoN p.1 (by
      have := propLin_vars _ o.lin p hp
      simp only [Obj.vars, List.mem_append]; exact Or.inl this)
    exact req_mono (hcovO p (by simp only [propObj, List.mem_append]; exact Or.inl hp)) (inv p.1 hv)
  have h2 : req (objCtx o.sense) (evalQuad y o.quad) (evalQuad e o.quad) := by
    apply C01_ctx_sound_quadterms B _ o.quad y e hqy hqe
    intro p hp
    have hv : p.1 < N := hoN p.1 (by
      have := propQuad_vars B _ o.quad p hp
      simp only [Obj.vars, List.mem_append] at this ⊢; exact Or.inr this)
    exact req_mono (hcovO p (by simp only [propObj, List.mem_append]; exact Or.inr hp)) (inv p.1 hv)
  exact req_add_vals h1 h2

theorem noWorse_of_req (s : Sense) (r v : Rat) (h : req (objCtx s) r v) : noWorse s v r := by
  cases s <;> simpa [objCtx, req, noWorse] using h

/-- the delivered rows of a solution give a relaxed solution -/
theorem relaxed_of_delivered (N : Nat) (defs : List Def) (steps : List Step) (roots : List Root) (Dom : Asg → Prop)
    (hperm : ∀ d, d ∈ defs ↔ ∃ s ∈ steps, s.toDef = d) (hok : ∀ s ∈ steps, StepOK N Dom s) (x y : Asg)
    (h : Delivered N defs steps roots Dom x y) : Relaxed N defs roots x y := by
  obtain ⟨hsh, hdy, hdel, hrt⟩ := h
  refine ⟨hsh, ?_, hrt⟩
  intro d hd
  obtain ⟨s, hs, e⟩ := (hperm d).mp hd
  subst e
  exact (hok s hs).2.1 y hdy (hdel s hs)

theorem wf_vars_lt (m : Nat) (l : List Def) (hw : WF m l) : ∀ d' ∈ l, ∀ w ∈ d'.f.vars, w < d'.res := by
  induction l generalizing m with
  | nil => simp
  | cons a t iht =>
    intro d' hd'
    obtain ⟨_, h2, h3⟩ := hw
    simp only [List.mem_cons] at hd'
    rcases hd' with hd' | hd'
    · subst hd'; exact h2
    · exact iht (a.res + 1) h3 d' hd'

/-- from an NL-feasible point: a delivered solution that agrees with the exact values on all variables `< N` -/
theorem delivered_of_exact (n0 N : Nat) (defs : List Def) (steps : List Step) (roots : List Root) (Dom : Asg → Prop)
    (hDom : ∀ z z' : Asg, (∀ v, v < N → z' v = z v) → Dom z → Dom z')
    (hperm : ∀ d, d ∈ defs ↔ ∃ s ∈ steps, s.toDef = d)
    (hwf : WF n0 defs) (hN : ∀ d ∈ defs, d.res < N)
    (hroots : ∀ r ∈ roots, ∀ p ∈ r.body, p.2 < N)
    (hchain : Chain N steps) (hok : ∀ s ∈ steps, StepOK N Dom s)
    (x : Asg) (hDomE : Dom (exactAsg x defs)) (hnl : NLsat defs roots x) :
    ∃ y, Delivered N defs steps roots Dom x y ∧ ∀ v, v < N → y v = exactAsg x defs v := by
  have hvarsN : ∀ d ∈ defs, ∀ v ∈ d.f.vars, v < N := fun d hd v hv =>
    Nat.lt_trans (wf_vars_lt n0 defs hwf d hd v hv) (hN d hd)
  have hE : ∀ s ∈ steps, (exactAsg x defs) s.res = s.f.val (exactAsg x defs) := by
    intro s hs
    exact exact_spec x n0 defs hwf s.toDef ((hperm s.toDef).mpr ⟨s, hs, rfl⟩)
  have hlt : ∀ s ∈ steps, s.res < N ∧ ∀ v ∈ s.f.vars, v < N := by
    intro s hs
    have hm := (hperm s.toDef).mpr ⟨s, hs, rfl⟩
    exact ⟨hN _ hm, hvarsN _ hm⟩
  obtain ⟨y, hag, hdel⟩ := build_steps N Dom hDom steps N (exactAsg x defs) (Nat.le_refl N) hchain hok hlt hDomE hE
  refine ⟨y, ⟨?_, hDom _ y hag hDomE, hdel, ?_⟩, hag⟩
  · intro v hv hnd; rw [hag v hv]; exact exact_undefined x defs v hnd
  · intro r hr
    have := hnl r hr
    unfold Root.sat at this ⊢
    have hagree : agree N (exactAsg x defs) y := hag
    rw [evalLin_agree hagree (hroots r hr)]; exact this

/-- a gadget that delivers the *equality* `res = f(args)` (LFC, not, if-then-else, …) is a valid step whatever
the stored context is -/
theorem stepOK_of_exact_eq (N : Nat) (Dom D : Asg → Prop) (d : Def) (o : Out) (n : Nat)
    (hN : N ≤ n) (hDD : ∀ y, Dom y → D y)
    (hex : Exact o n D (fun x => x d.res = d.f.val x))
    (hrows : ∀ c ∈ o.cons, ∀ v ∈ c.vars, v < n + o.vars.length) :
    StepOK N Dom (Step.ofGadget d o n) := by
  refine ⟨hN, ?_, ?_, ?_⟩
  · intro y hd ⟨hax, hcs⟩; exact C01_mix_implies_ctx _ _ _ (hex.1 y (hDD y hd) hax hcs)
  · intro z hd hz
    obtain ⟨z', hag, hax, hcs⟩ := hex.2 z (hDD z hd) hz
    exact ⟨z', hag, hax, hcs⟩
  · intro y y' hag ⟨hax, hcs⟩
    refine ⟨(auxOk_congr n y' y o.vars hag).mpr hax, ?_⟩
    intro c hc
    exact (sat_congr c y' y (fun v hv => hag v (hrows c hc v hv))).mpr (hcs c hc)

/-- feasibility for a range transfers along the relation the range's own context requires -/
theorem inRange_of_req (lb ub : Option Rat) (a f : Rat)
    (hlb : ∀ l, lb = some l → -pracInf < l) (hub : ∀ u, ub = some u → u < pracInf)
    (hb : req (rangeCtx lb ub) a f) (hfeas : inRange lb ub a) : inRange lb ub f := by
  unfold rangeCtx at hb
  cases lb with
  | none =>
    simp only [if_true, req] at hb
    simp only [inRange] at hfeas ⊢
    refine ⟨by simp, ?_⟩
    intro u hu; have := hfeas.2 u hu; grind
  | some l =>
    have hl : ¬ l ≤ -pracInf := by have := hlb l rfl; grind
    cases ub with
    | none =>
      simp [hl, req] at hb
      simp only [inRange] at hfeas ⊢
      refine ⟨?_, by simp⟩
      intro l' hl'; have := hfeas.1 l' hl'; grind
    | some u =>
      have hu : ¬ pracInf ≤ u := by have := hub u rfl; grind
      simp [hl, hu, req] at hb
      rw [← hb]; exact hfeas

/-- a quadratic root that holds for a delivered solution holds for the exact values -/
theorem qroot_transfer (B : Bnds) (N : Nat) (defs : List Def) (r : QRoot) (y e : Asg)
    (hrN : ∀ v ∈ r.vars, v < N) (hcovR : ∀ p ∈ propQRoot B r, p.2 ≤ (ctxOf defs p.1).eff)
    (hfin : (∀ l, r.lb = some l → -pracInf < l) ∧ (∀ u, r.ub = some u → u < pracInf))
    (hqy : ∀ t ∈ r.quad, inDom B y t.2.1 ∧ inDom B y t.2.2) (hqe : ∀ t ∈ r.quad, inDom B e t.2.1 ∧ inDom B e t.2.2)
    (inv : ∀ v, v < N → req (ctxOf defs v).eff (y v) (e v)) (hy : r.sat y) : r.sat e := by
  have h1 : req (rangeCtx r.lb r.ub) (evalLin y r.lin) (evalLin e r.lin) := by
    apply C01_ctx_sound_linterms
    intro p hp
    have hv : p.1 < N := hrN p.1 (by
      have := propLin_vars _ r.lin p hp
      simp only [QRoot.vars, List.mem_append]; exact Or.inl this)
    exact req_mono (hcovR p (by simp only [propQRoot, List.mem_append]; exact Or.inl hp)) (inv p.1 hv)
  have h2 : req (rangeCtx r.lb r.ub) (evalQuad y r.quad) (evalQuad e r.quad) := by
    apply C01_ctx_sound_quadterms B _ r.quad y e hqy hqe
    intro p hp
    have hv : p.1 < N := hrN p.1 (by
      have := propQuad_vars B _ r.quad p hp
      simp only [QRoot.vars, List.mem_append] at this ⊢; exact Or.inr this)
    exact req_mono (hcovR p (by simp only [propQRoot, List.mem_append]; exact Or.inr hp)) (inv p.1 hv)
  exact inRange_of_req r.lb r.ub _ _ hfin.1 hfin.2 (req_add_vals h1 h2) hy

theorem qroot_sat_agree (N : Nat) (r : QRoot) (a b : Asg) (hag : ∀ v, v < N → b v = a v) (hrN : ∀ v ∈ r.vars, v < N) :
    r.sat b ↔ r.sat a := by
  unfold QRoot.sat
  have h1 : evalLin b r.lin = evalLin a r.lin :=
    evalLin_congr b a r.lin (fun p hp => hag p.2 (hrN p.2 (by
      simp only [QRoot.vars, List.mem_append, List.mem_map]; exact Or.inl ⟨p, hp, rfl⟩)))
  have h2 : evalQuad b r.quad = evalQuad a r.quad :=
    evalQuad_congr b a r.quad (fun t ht =>
      ⟨hag _ (hrN _ (by simp only [QRoot.vars, List.mem_append, List.mem_map]; exact Or.inr (Or.inl ⟨t, ht, rfl⟩))),
       hag _ (hrN _ (by simp only [QRoot.vars, List.mem_append, List.mem_map]; exact Or.inr (Or.inr ⟨t, ht, rfl⟩)))⟩)
  rw [h1, h2]

theorem qrootGaps_sound (B : Bnds) (defs : List Def) (qroots : List QRoot) (h : qrootGaps B defs qroots = []) :
    QRootsCover B defs qroots := by
  intro r hr p hp
  simp only [qrootGaps, List.map_eq_nil_iff, List.filter_eq_nil_iff] at h
  have := h p (List.mem_flatMap.mpr ⟨r, hr, hp⟩)
  simpa using this

theorem objGaps_sound (B : Bnds) (defs : List Def) (o : Obj) (h : objGaps B defs o = []) : ObjCovers B defs o := by
  intro p hp
  simp only [objGaps, List.map_eq_nil_iff, List.filter_eq_nil_iff] at h
  have := h p hp
  simpa using this

end MpVerif.C01

import MpVerif.C01.ModelProp
/-!
# C01 — helper lemmas (core Lean only)
-/
namespace MpVerif.C01

/-! ## 0/1 values -/

theorem binary_admits {q : Rat} (h : VarInfo.binary.admits q) : q = 0 ∨ q = 1 := by
  obtain ⟨h0, h1, hi⟩ := h
  have h0' := h0 0 rfl
  have h1' := h1 1 rfl
  obtain ⟨k, hk⟩ := hi rfl
  subst hk
  have a : (0:Int) ≤ k := by exact_mod_cast h0'
  have b : k ≤ 1 := by exact_mod_cast h1'
  have : k = 0 ∨ k = 1 := by omega
  rcases this with h | h <;> simp [h]

theorem admits_binary_of {q : Rat} (h : q = 0 ∨ q = 1) : VarInfo.binary.admits q := by
  refine ⟨?_, ?_, ?_⟩
  · intro l hl; simp [VarInfo.binary] at hl; subst hl; rcases h with h | h <;> subst h <;> decide
  · intro l hl; simp [VarInfo.binary] at hl; subst hl; rcases h with h | h <;> subst h <;> decide
  · intro _; rcases h with h | h
    · exact ⟨0, by simp [h]⟩
    · exact ⟨1, by simp [h]⟩

/-- integer values strictly apart are at least one apart -/
theorem int_lt_add_one {a b : Rat} (ha : isIntVal a) (hb : isIntVal b) (h : a < b) : a + 1 ≤ b := by
  obtain ⟨i, rfl⟩ := ha
  obtain ⟨j, rfl⟩ := hb
  have : i < j := by exact_mod_cast h
  have : i + 1 ≤ j := by omega
  exact_mod_cast this

theorem isIntVal_intCast (k : Int) : isIntVal (k : Rat) := ⟨k, rfl⟩
theorem isIntVal_zero : isIntVal 0 := ⟨0, by simp⟩
theorem isIntVal_one : isIntVal 1 := ⟨1, by simp⟩

theorem isIntVal_add {a b : Rat} (ha : isIntVal a) (hb : isIntVal b) : isIntVal (a + b) := by
  obtain ⟨i, rfl⟩ := ha
  obtain ⟨j, rfl⟩ := hb
  exact ⟨i + j, by push_cast; rfl⟩

theorem isIntVal_mul {a b : Rat} (ha : isIntVal a) (hb : isIntVal b) : isIntVal (a * b) := by
  obtain ⟨i, rfl⟩ := ha
  obtain ⟨j, rfl⟩ := hb
  exact ⟨i * j, by push_cast; rfl⟩

/-! ## linear terms -/

@[simp] theorem evalLin_nil (x : Asg) : evalLin x [] = 0 := rfl
@[simp] theorem evalLin_cons (x : Asg) (c : Rat) (v : Var) (t : Lin) :
    evalLin x ((c, v) :: t) = c * x v + evalLin x t := rfl

theorem evalLin_append (x : Asg) (a b : Lin) : evalLin x (a ++ b) = evalLin x a + evalLin x b := by
  induction a with
  | nil => simp only [List.nil_append, evalLin_nil]; grind
  | cons p t ih => obtain ⟨c, v⟩ := p; simp only [List.cons_append, evalLin_cons, ih]; grind

theorem evalLin_neg (x : Asg) (l : Lin) : evalLin x (negLin l) = - evalLin x l := by
  induction l with
  | nil => simp [negLin]
  | cons p t ih =>
    obtain ⟨c, v⟩ := p
    simp only [negLin, List.map_cons, evalLin_cons] at ih ⊢
    rw [ih]; grind

@[simp] theorem ones_nil : ones [] = [] := rfl
@[simp] theorem ones_cons (a : Var) (t : List Var) : ones (a :: t) = (1, a) :: ones t := rfl

/-- agreement on the first `n` variables transfers evaluation of terms over them -/
theorem evalLin_agree {n : Nat} {x x' : Asg} (hag : agree n x x') {l : Lin}
    (h : ∀ p ∈ l, p.2 < n) : evalLin x' l = evalLin x l := by
  induction l with
  | nil => rfl
  | cons p t ih =>
    obtain ⟨c, v⟩ := p
    have hv : v < n := h (c, v) (by simp)
    have ht : ∀ p ∈ t, p.2 < n := fun p hp => h p (by simp [hp])
    simp [ih ht, hag v hv]

/-! ## sums of 0/1 variables -/

theorem sum_bin_bounds (x : Asg) (vs : List Var) (h : ∀ a ∈ vs, x a = 0 ∨ x a = 1) :
    0 ≤ evalLin x (ones vs) ∧ evalLin x (ones vs) ≤ (vs.length : Rat) := by
  induction vs with
  | nil => simp
  | cons a t ih =>
    have ha := h a (by simp)
    have := ih (fun b hb => h b (by simp [hb]))
    simp only [ones_cons, evalLin_cons, List.length_cons]
    push_cast
    rcases ha with ha | ha <;> rw [ha] <;> grind

theorem sum_bin_all (x : Asg) (vs : List Var)
    (hall : vs.all (fun a => x a == 1) = true) : evalLin x (ones vs) = (vs.length : Rat) := by
  induction vs with
  | nil => simp
  | cons a t ih =>
    simp only [List.all_cons, Bool.and_eq_true, beq_iff_eq] at hall
    simp only [ones_cons, evalLin_cons, List.length_cons, ih hall.2, hall.1]
    push_cast; grind

theorem sum_bin_notall (x : Asg) (vs : List Var) (h : ∀ a ∈ vs, x a = 0 ∨ x a = 1)
    (hall : vs.all (fun a => x a == 1) = false) : evalLin x (ones vs) ≤ (vs.length : Rat) - 1 := by
  induction vs with
  | nil => simp at hall
  | cons a t ih =>
    have ha := h a (by simp)
    have ht : ∀ b ∈ t, x b = 0 ∨ x b = 1 := fun b hb => h b (by simp [hb])
    have hb := sum_bin_bounds x t ht
    simp only [ones_cons, evalLin_cons, List.length_cons]
    push_cast
    rcases ha with ha | ha
    · rw [ha]; grind
    · have : t.all (fun a => x a == 1) = false := by
        simp only [List.all_cons, ha, beq_self_eq_true, Bool.true_and] at hall
        exact hall
      have := ih ht this
      rw [ha]; grind

theorem sum_bin_any (x : Asg) (vs : List Var) (h : ∀ a ∈ vs, x a = 0 ∨ x a = 1)
    (hany : vs.any (fun a => x a == 1) = true) : 1 ≤ evalLin x (ones vs) := by
  induction vs with
  | nil => simp at hany
  | cons a t ih =>
    have ha := h a (by simp)
    have ht : ∀ b ∈ t, x b = 0 ∨ x b = 1 := fun b hb => h b (by simp [hb])
    have hb := sum_bin_bounds x t ht
    simp only [ones_cons, evalLin_cons]
    rcases ha with ha | ha
    · have : t.any (fun a => x a == 1) = true := by
        simp only [List.any_cons, ha, Bool.or_eq_true, beq_iff_eq] at hany
        rcases hany with h0 | h0
        · exact absurd h0 (by decide)
        · exact h0
      have := ih ht this
      rw [ha]; grind
    · rw [ha]; grind

theorem sum_bin_none (x : Asg) (vs : List Var) (h : ∀ a ∈ vs, x a = 0 ∨ x a = 1)
    (hany : vs.any (fun a => x a == 1) = false) : evalLin x (ones vs) = 0 := by
  induction vs with
  | nil => simp
  | cons a t ih =>
    have ha := h a (by simp)
    have ht : ∀ b ∈ t, x b = 0 ∨ x b = 1 := fun b hb => h b (by simp [hb])
    simp only [List.any_cons, Bool.or_eq_false_iff, beq_eq_false_iff_ne] at hany
    simp only [ones_cons, evalLin_cons, ih ht hany.2]
    rcases ha with ha | ha
    · rw [ha]; grind
    · exact absurd ha hany.1

/-- counting nonzero 0/1 values is summing them -/
theorem count_bin (x : Asg) (vs : List Var) (h : ∀ a ∈ vs, x a = 0 ∨ x a = 1) :
    countP (fun a => x a != 0) vs = evalLin x (ones vs) := by
  induction vs with
  | nil => rfl
  | cons a t ih =>
    have ha := h a (by simp)
    have ht : ∀ b ∈ t, x b = 0 ∨ x b = 1 := fun b hb => h b (by simp [hb])
    simp only [countP, ones_cons, evalLin_cons, ih ht]
    rcases ha with ha | ha <;> simp [ha]

/-! ## bounds of linear expressions (`ComputeBoundsAndType`) are sound -/

theorem linBnd_sound (B : Bnds) (x : Asg) (l : Lin) (h : ∀ p ∈ l, inDom B x p.2) :
    (∀ lo, (linBnd B l).1 = some lo → lo ≤ evalLin x l) ∧
    (∀ up, (linBnd B l).2.1 = some up → evalLin x l ≤ up) := by
  induction l with
  | nil => simp [linBnd]
  | cons p t ih =>
    obtain ⟨c, v⟩ := p
    have hv : inDom B x v := h (c, v) (by simp)
    have ht := ih (fun p hp => h p (by simp [hp]))
    obtain ⟨hvl, hvu, _⟩ := hv
    obtain ⟨htl, htu⟩ := ht
    simp only [linBnd, evalLin_cons]
    by_cases hc : 0 ≤ c
    · simp only [hc, if_true]
      constructor
      · intro lo hlo
        cases hl : (B v).lb with
        | none => simp [hl, optScale, optAdd] at hlo
        | some l1 =>
          cases hl2 : (linBnd B t).1 with
          | none => simp [hl, hl2, optScale, optAdd] at hlo
          | some l2 =>
            simp [hl, hl2, optScale, optAdd] at hlo
            have a1 := Rat.mul_le_mul_of_nonneg_left (hvl l1 hl) hc
            have a2 := htl l2 hl2
            grind
      · intro up hup
        cases hu : (B v).ub with
        | none => simp [hu, optScale, optAdd] at hup
        | some u1 =>
          cases hu2 : (linBnd B t).2.1 with
          | none => simp [hu, hu2, optScale, optAdd] at hup
          | some u2 =>
            simp [hu, hu2, optScale, optAdd] at hup
            have a1 := Rat.mul_le_mul_of_nonneg_left (hvu u1 hu) hc
            have a2 := htu u2 hu2
            grind
    · simp only [hc, if_false]
      have hc' : 0 ≤ -c := by grind
      constructor
      · intro lo hlo
        cases hu : (B v).ub with
        | none => simp [hu, optScale, optAdd] at hlo
        | some u1 =>
          cases hl2 : (linBnd B t).1 with
          | none => simp [hu, hl2, optScale, optAdd] at hlo
          | some l2 =>
            simp [hu, hl2, optScale, optAdd] at hlo
            have a1 := Rat.mul_le_mul_of_nonneg_left (hvu u1 hu) hc'
            have a2 := htl l2 hl2
            grind
      · intro up hup
        cases hl : (B v).lb with
        | none => simp [hl, optScale, optAdd] at hup
        | some l1 =>
          cases hu2 : (linBnd B t).2.1 with
          | none => simp [hl, hu2, optScale, optAdd] at hup
          | some u2 =>
            simp [hl, hu2, optScale, optAdd] at hup
            have a1 := Rat.mul_le_mul_of_nonneg_left (hvl l1 hl) hc'
            have a2 := htu u2 hu2
            grind

/-- if `ComputeBoundsAndType` says "integer", the value is an integer -/
theorem linBnd_int (B : Bnds) (x : Asg) (l : Lin) (h : ∀ p ∈ l, inDom B x p.2)
    (hty : (linBnd B l).2.2 = true) : isIntVal (evalLin x l) := by
  induction l with
  | nil => exact isIntVal_zero
  | cons p t ih =>
    obtain ⟨c, v⟩ := p
    have hv : inDom B x v := h (c, v) (by simp)
    have key : (linBnd B t).2.2 = true ∧ (B v).isInt = true ∧ isIntQ c = true := by
      simp only [linBnd] at hty
      split at hty <;> simp_all [Bool.and_eq_true]
    have ht := ih (fun p hp => h p (by simp [hp])) key.1
    have hxv := hv.2.2 key.2.1
    have hcI : isIntVal c := by
      have hden : c.den = 1 := by simpa [isIntQ] using key.2.2
      refine ⟨c.num, ?_⟩
      have := Rat.mkRat_self c
      rw [hden] at this
      rw [← this]
      simp [Rat.mkRat_one]
    simp only [evalLin_cons]
    exact isIntVal_add (isIntVal_mul hcI hxv) ht

/-! ## context algebra -/

theorem req_trans {c : Ctx} {r m v : Rat} (h1 : req c r m) (h2 : req c m v) : req c r v := by
  cases c <;> simp only [req] at * <;> grind

theorem req_mono {a b : Ctx} (hab : a ≤ b) {r v : Rat} (h : req b r v) : req a r v := by
  obtain ⟨hp, hn⟩ := hab
  cases a <;> cases b <;> simp [Ctx.hasPos, Ctx.hasNeg] at hp hn <;> simp only [req] at * <;> grind

theorem req_flip {c : Ctx} {r v : Rat} : req c.flip r v → req c (-r) (-v) ∨ c = .none := by
  cases c <;> simp only [req, Ctx.flip] <;> grind

end MpVerif.C01

import MpVerif.C01.LemmasConvert16
/-!
# C01 — lemmas about the reference converter, part 17: the propagation facts of `convert`, removed definitions (round 6)
-/
namespace MpVerif.C01

theorem flatLCons_roots (n0 : Nat) (B0 : Bnds) (ls : List LE) (S : FS) (hI : Inv n0 B0 S) (hv : ∀ l ∈ ls, l.vok n0 = true) :
    ∀ r ∈ (flatLCons ls S).1, ∃ v, r = (⟨[(1, v)], some 1, none⟩ : Root) ∧ isBin01 ((flatLCons ls S).2.B v) = true := by
  induction ls generalizing S with
  | nil => simp [flatLCons]
  | cons l t ih =>
    obtain ⟨i1, e1, r1, hb⟩ := flatL_inv n0 B0 l S hI (hv l (by simp))
    obtain ⟨i2, e2, _⟩ := flatLCons_inv n0 B0 t (flatL l S).2 i1 (fun c hc => hv c (by simp [hc]))
    intro r hr
    simp only [flatLCons, List.mem_cons] at hr ⊢
    rcases hr with h | h
    · refine ⟨(flatL l S).1, h, ?_⟩
      rw [e2.2 _ r1]; exact hb
    · exact ih (flatL l S).2 i1 (fun c hc => hv c (by simp [hc])) r h

/-- every logical row is `1 ≤ res` on a 0/1 result variable -/
theorem flatAll_lroots (m : NLModel) (hv : m.vok = true) :
    ∀ r ∈ (flatAll m).lroots, ∃ v, r = (⟨[(1, v)], some 1, none⟩ : Root) ∧ isBin01 ((flatAll m).S.B v) = true := by
  simp only [NLModel.vok, Bool.and_eq_true, List.all_eq_true] at hv
  obtain ⟨⟨hvc, hvl⟩, hvo⟩ := hv
  obtain ⟨i0, _, _⟩ := flatObj_inv m.n0 m.B0 m.obj _ (inv_init m) (fun s e he => by rw [he] at hvo; exact hvo)
  obtain ⟨i1, _, _⟩ := flatCons_inv m.n0 m.B0 m.cons _ i0 hvc
  exact flatLCons_roots m.n0 m.B0 m.lcons _ i1 hvl

theorem typed_logicalArgs (B : Bnds) (d : Def) (ht : typedDef B d = true) : ∀ a ∈ logicalArgs d.f, isBin01 (B a) = true := by
  simp only [typedDef, Bool.and_eq_true] at ht
  obtain ⟨_, h3⟩ := ht
  intro a ha
  cases hf : d.f <;> simp only [hf, logicalArgs, List.mem_singleton, List.not_mem_nil] at ha h3
  · exact List.all_eq_true.mp h3 a ha
  · exact List.all_eq_true.mp h3 a ha
  · subst ha; exact h3
  · subst ha; exact h3
  · exact List.all_eq_true.mp h3 a ha

theorem logicalArgs_vars (f : Fun) : ∀ a ∈ logicalArgs f, a ∈ f.vars := by
  intro a ha
  cases f <;> simp only [logicalArgs, Fun.vars, List.mem_singleton, List.not_mem_nil] at ha ⊢
  all_goals first | exact ha | (subst ha; simp)

/-- the fixed variables of a logical row are exactly its single variable -/
theorem fixTrue_mem (m : NLModel) (cfg : Cfg) (hv : m.vok = true) (v : Var) (h : v ∈ (convert m cfg).fixTrue) :
    (⟨[(1, v)], some 1, none⟩ : Root) ∈ (convert m cfg).roots ∧ isBin01 ((convert m cfg).B0 v) = true := by
  have h' : v ∈ (flatAll m).lroots.flatMap (fun r => r.body.map (·.2)) := h
  simp only [List.mem_flatMap, List.mem_map] at h'
  obtain ⟨r, hr, p, hp, hpv⟩ := h'
  obtain ⟨w, hw, hb⟩ := flatAll_lroots m hv r hr
  subst hw
  simp only [List.mem_singleton] at hp
  subst hp
  simp only at hpv
  subst hpv
  exact ⟨(List.mem_append_right _ hr : _ ∈ (flatAll m).croots ++ (flatAll m).lroots), hb⟩

theorem root_fixTrue (m : NLModel) (cfg : Cfg) (hv : m.vok = true) (r : Root) (hr : r ∈ (convert m cfg).roots) :
    r ∈ (convert m cfg).rootsD ∨ ∃ v, r = (⟨[(1, v)], some 1, none⟩ : Root) ∧ v ∈ (convert m cfg).fixTrue := by
  have h' : r ∈ (flatAll m).croots ++ (flatAll m).lroots := hr
  simp only [List.mem_append] at h'
  rcases h' with h | h
  · exact Or.inl h
  · right
    obtain ⟨w, hw, _⟩ := flatAll_lroots m hv r h
    refine ⟨w, hw, ?_⟩
    show w ∈ (flatAll m).lroots.flatMap (fun r => r.body.map (·.2))
    simp only [List.mem_flatMap, List.mem_map]
    exact ⟨r, h, (1, w), by rw [hw]; simp, rfl⟩

theorem convert_factsBin (m : NLModel) (cfg : Cfg) (hv : m.vok = true) :
    FactsBin (convert m cfg).B0 (convert m cfg).facts := by
  have st := structural_of_vok m cfg hv
  show ∀ f ∈ narrowFacts (convert m cfg).defs.reverse (rootFacts (convert m cfg).fixTrue 0), _
  apply narrowFacts_inv (fun f => isBin01 ((convert m cfg).B0 f.1) = true ∧ (f.2.1 = 0 ∨ f.2.1 = 1))
  · intro d hd f hf _ g hg
    exact propDown_bin _ d f.2.1 f.2.2 (st.typed d (List.mem_reverse.mp hd)) hf.2 g hg
  · intro f hf
    obtain ⟨h1, h2⟩ := rootFacts_mem _ _ f hf
    exact ⟨(fixTrue_mem m cfg hv f.1 h1).2, Or.inr h2⟩

/-- at an NL-feasible point every fact of the propagation holds for the exact values -/
theorem convert_factsSound (m : NLModel) (cfg : Cfg) (hv : m.vok = true) (x : Asg)
    (hdom : DomB (convert m cfg).N (convert m cfg).B0 (exactAsg x (convert m cfg).defs))
    (hnl : NLsat (convert m cfg).defs (convert m cfg).roots x) :
    ∀ f ∈ (convert m cfg).facts, exactAsg x (convert m cfg).defs f.1 = f.2.1 := by
  have st := structural_of_vok m cfg hv
  show ∀ f ∈ narrowFacts (convert m cfg).defs.reverse (rootFacts (convert m cfg).fixTrue 0), _
  apply narrowFacts_inv (fun f => exactAsg x (convert m cfg).defs f.1 = f.2.1)
  · intro d hd f hf he g hg
    have hd' := List.mem_reverse.mp hd
    apply propDown_sound d _ f.2.1 f.2.2 (exact_spec x _ _ st.wf d hd') (by rw [← he]; exact hf) _ g hg
    intro a ha
    have hav := logicalArgs_vars d.f a ha
    have haN : a < (convert m cfg).N := Nat.lt_trans (wf_vars_lt _ _ st.wf d hd' a hav) (st.resN d hd')
    exact bin01_vals (typed_logicalArgs _ d (st.typed d hd') a ha) (hdom a haN)
  · intro f hf
    obtain ⟨h1, h2⟩ := rootFacts_mem _ _ f hf
    obtain ⟨hr, hb⟩ := fixTrue_mem m cfg hv f.1 h1
    have hsat := hnl _ hr
    have hN : f.1 < (convert m cfg).N := st.rootsN _ hr (1, f.1) (by simp)
    have h01 := bin01_vals hb (hdom f.1 hN)
    simp only [Root.sat, inRange, evalLin_cons, evalLin_nil] at hsat
    have := hsat.1 1 rfl
    rw [h2]
    rcases h01 with h | h
    · rw [h] at this; exfalso; revert this; decide +kernel
    · exact h

/-! ## removed definitions -/

theorem removed_stepOK (N : Nat) (Bf B0 : Bnds) (F : List Fact) (nref : Var → Nat) (d : Def)
    (hBf : ∀ v, v < N → Bf v = narrowB B0 F v) (hres : d.res < N) (hvars : ∀ v ∈ d.f.vars, v < N)
    (hrm : removedDef F nref d = true) :
    StepOK N (DomB N Bf) { d with Deliv := fun _ => True, lo := N, hi := N } := by
  refine ⟨Nat.le_refl _, ?_, fun z _ _ => ⟨z, fun _ _ => rfl, trivial⟩, fun _ _ _ _ => trivial⟩
  intro y hy _
  apply C01_mix_implies_ctx
  have hfix : ∀ v c, v < N → factOf F v = some c → y v = c := by
    intro v c hv hf
    have := hy v hv
    unfold inDom at this
    rw [hBf v hv, narrowB_some hf] at this
    exact fixed_admits this
  simp only [removedDef, Bool.and_eq_true] at hrm
  obtain ⟨hk, _⟩ := hrm
  show y d.res = d.f.val y
  cases hf : d.f with
  | and as =>
    simp only [hf, Bool.and_eq_true, beq_iff_eq, List.all_eq_true] at hk
    rw [hfix d.res 1 hres hk.1]
    simp only [Fun.val, b2r]
    rw [if_pos]
    apply List.all_eq_true.mpr
    intro a ha
    have := hfix a 1 (hvars a (by rw [hf]; simpa [Fun.vars] using ha)) (hk.2 a ha)
    simp [this]
  | or as =>
    simp only [hf, Bool.and_eq_true, beq_iff_eq, List.all_eq_true] at hk
    rw [hfix d.res 0 hres hk.1]
    simp only [Fun.val, b2r]
    rw [if_neg]
    intro hany
    obtain ⟨a, ha, h1⟩ := List.any_eq_true.mp hany
    have := hfix a 0 (hvars a (by rw [hf]; simpa [Fun.vars] using ha)) (hk.2 a ha)
    rw [this] at h1
    revert h1; decide +kernel
  | _ => simp [hf] at hk

theorem convDefs_removed (cfg : Cfg) (l : List Def) (B : Bnds) (n : Nat) : ∀ b ∈ convDefs cfg l B n, b.removed = false := by
  induction l generalizing B n with
  | nil => simp [convDefs]
  | cons d t ih =>
    intro b hb
    simp only [convDefs] at hb
    split at hb
    · simp only [List.mem_cons] at hb
      rcases hb with hb | hb
      · subst hb; rfl
      · exact ih _ _ b hb
    · split at hb
      · simp only [List.mem_cons] at hb
        rcases hb with hb | hb
        · subst hb; rfl
        · exact ih _ _ b hb
      · simp only [List.mem_cons] at hb
        rcases hb with hb | hb
        · subst hb; rfl
        · exact ih _ _ b hb

end MpVerif.C01

import MpVerif.C01.LemmasConvert3
/-!
# C01 — lemmas about the reference converter, part 4: `resBnd` is sound; domain facts from the decidable checks
-/
namespace MpVerif.C01

theorem optMax2_some {a b : Option Rat} {m : Rat} (h : optMax2 a b = some m) :
    ∃ x y, a = some x ∧ b = some y ∧ x ≤ m ∧ y ≤ m := by
  cases a <;> cases b <;> simp [optMax2] at h
  rename_i x y
  refine ⟨x, y, rfl, rfl, ?_⟩
  by_cases hxy : x ≤ y <;> simp [hxy] at h <;> subst h <;> grind

theorem optMin2_some {a b : Option Rat} {m : Rat} (h : optMin2 a b = some m) :
    ∃ x y, a = some x ∧ b = some y ∧ m ≤ x ∧ m ≤ y := by
  cases a <;> cases b <;> simp [optMin2] at h
  rename_i x y
  refine ⟨x, y, rfl, rfl, ?_⟩
  by_cases hxy : x ≤ y <;> simp [hxy] at h <;> subst h <;> grind

/-- the bounds/type given to a new result variable admit the exact value of its defining expression -/
theorem resBnd_sound (B : Bnds) (y : Asg) (f : Fun) (hfr : f.inFrag = true)
    (hnot : ∀ a, f = .not a → y a = 0 ∨ y a = 1)
    (hargs : ∀ a ∈ f.vars, inDom B y a) : (resBnd B f).admits (f.val y) := by
  cases f with
  | affine body c =>
    cases body with
    | nil =>
      simp only [resBnd, Fun.val, evalLin]
      exact ⟨fun l h => by simp at h; subst h; grind, fun u h => by simp at h; subst h; grind, fun h => by simp at h⟩
    | cons p t =>
      simp only [resBnd, Fun.val]
      exact affBnd_admits B y (p :: t) c
        (fun q hq => hargs q.2 (by simp only [Fun.vars, List.mem_map]; exact ⟨q, hq, rfl⟩)) (isIntQ_sound c)
  | abs a =>
    have ha := hargs a (by simp [Fun.vars])
    simp only [resBnd, Fun.val]
    refine ⟨?_, ?_, ?_⟩
    · intro l hl; simp at hl; subst hl; split <;> grind
    · intro u hu
      simp only at hu
      obtain ⟨p, q, hp, hq, h1, h2⟩ := optMax2_some hu
      cases hlb : (B a).lb with
      | none => simp [hlb] at hp
      | some l =>
        simp [hlb] at hp; subst hp
        have := ha.1 l hlb
        have := ha.2.1 q hq
        split <;> grind
    · intro hi
      have := ha.2.2 hi
      split
      · exact isIntVal_neg this
      · exact this
  | max as =>
    cases as with
    | nil =>
      simp only [resBnd, Fun.val]
      exact ⟨fun l h => by simp [lbMax] at h, fun u h => by simp [ubMax] at h, fun _ => isIntVal_zero⟩
    | cons a t =>
      have hd : ∀ b ∈ a :: t, inDom B y b := fun b hb => hargs b (by simpa [Fun.vars] using hb)
      simp only [resBnd, Fun.val]
      refine ⟨?_, ?_, ?_⟩
      · intro l hl
        obtain ⟨b, hb, hle⟩ := lbMax_sound B y (a :: t) hd l hl
        have := maxL_ge y a t b hb; grind
      · intro u hu
        obtain ⟨b, hb, he⟩ := maxL_mem y a t
        have := ubMax_sound B y (a :: t) hd u hu b hb
        rw [he]; exact this
      · intro hi
        simp only [List.all_eq_true] at hi
        obtain ⟨b, hb, he⟩ := maxL_mem y a t
        rw [he]; exact intLike_sound (hi b hb) (hd b hb)
  | min as =>
    cases as with
    | nil =>
      simp only [resBnd, Fun.val]
      exact ⟨fun l h => by simp [lbMin] at h, fun u h => by simp [ubMin] at h, fun _ => isIntVal_zero⟩
    | cons a t =>
      have hd : ∀ b ∈ a :: t, inDom B y b := fun b hb => hargs b (by simpa [Fun.vars] using hb)
      simp only [resBnd, Fun.val]
      refine ⟨?_, ?_, ?_⟩
      · intro l hl
        obtain ⟨b, hb, he⟩ := minL_mem y a t
        have := lbMin_sound B y (a :: t) hd l hl b hb
        rw [he]; exact this
      · intro u hu
        obtain ⟨b, hb, hle⟩ := ubMin_sound B y (a :: t) hd u hu
        have := minL_le y a t b hb; grind
      · intro hi
        simp only [List.all_eq_true] at hi
        obtain ⟨b, hb, he⟩ := minL_mem y a t
        rw [he]; exact intLike_sound (hi b hb) (hd b hb)
  | ifthen c t e =>
    have ht := hargs t (by simp [Fun.vars])
    have he := hargs e (by simp [Fun.vars])
    simp only [resBnd, Fun.val]
    refine ⟨?_, ?_, ?_⟩
    · intro l hl
      obtain ⟨p, q, hp, hq, h1, h2⟩ := optMin2_some hl
      have := ht.1 p hp; have := he.1 q hq
      split <;> grind
    · intro u hu
      obtain ⟨p, q, hp, hq, h1, h2⟩ := optMax2_some hu
      have := ht.2.1 p hp; have := he.2.1 q hq
      split <;> grind
    · intro hi
      simp only [Bool.and_eq_true] at hi
      split
      · exact intLike_sound hi.1 ht
      · exact intLike_sound hi.2 he
  | count as =>
    obtain ⟨h1, h2, h3⟩ := countP_le (fun a => y a != 0) as
    simp only [resBnd, Fun.val]
    exact ⟨fun l hl => by simp at hl; subst hl; exact h1, fun u hu => by simp at hu; subst hu; exact h2, fun _ => h3⟩
  | and as => simp only [resBnd, Fun.val]; exact admits_binary_of (b2r_01 _)
  | or as => simp only [resBnd, Fun.val]; exact admits_binary_of (b2r_01 _)
  | condLin k body rhs => simp only [resBnd, Fun.val]; exact admits_binary_of (b2r_01 _)
  | not a =>
    simp only [resBnd, Fun.val]
    apply admits_binary_of
    rcases hnot a rfl with h | h <;> rw [h] <;> grind
  | quadratic _ _ _ => simp [Fun.inFrag] at hfr
  | impl _ _ _ => simp [Fun.inFrag] at hfr
  | condQuad _ _ _ _ => simp [Fun.inFrag] at hfr
  | numberofConst _ _ => simp [Fun.inFrag] at hfr
  | numberofVar _ _ => simp [Fun.inFrag] at hfr
  | alldiff _ => simp [Fun.inFrag] at hfr
  | div _ _ => simp [Fun.inFrag] at hfr
  | pow _ _ => simp [Fun.inFrag] at hfr

/-- variable domains below `N` -/
def DomB (N : Nat) (B : Bnds) (y : Asg) : Prop := ∀ v, v < N → inDom B y v

/-- propagation side conditions follow from the domains and the typing check -/
theorem funOK_of_typed (N : Nat) (B : Bnds) (d : Def) (y : Asg) (ht : typedDef B d = true)
    (hv : ∀ a ∈ d.f.vars, a < N) (hy : DomB N B y) : FunOK B d.f y := by
  simp only [typedDef, Bool.and_eq_true] at ht
  obtain ⟨⟨_, _⟩, h3⟩ := ht
  cases hf : d.f with
  | and as =>
    rw [hf] at h3 hv; simp only [List.all_eq_true] at h3
    intro v hv'; exact bin01_vals (h3 v hv') (hy v (hv v (by simpa [Fun.vars] using hv')))
  | or as =>
    rw [hf] at h3 hv; simp only [List.all_eq_true] at h3
    intro v hv'; exact bin01_vals (h3 v hv') (hy v (hv v (by simpa [Fun.vars] using hv')))
  | ifthen c t e =>
    rw [hf] at h3 hv
    exact ⟨bin01_vals h3 (hy c (hv c (by simp [Fun.vars]))), hy t (hv t (by simp [Fun.vars])), hy e (hv e (by simp [Fun.vars]))⟩
  | quadratic lin q c =>
    rename_i h2; rw [hf] at h2; simp [Fun.inFrag] at h2
  | _ => trivial

end MpVerif.C01

import MpVerif.C01.ModelGadgets
import MpVerif.C01.ModelProp
import MpVerif.C01.ModelCompose
import MpVerif.C01.ModelGadgets2
import MpVerif.C01.ModelObjective
import MpVerif.C01.ModelConvert
/-!
Line driver for C01 (exe `drv_c01`).  One op per line:

  `<gadget> key=value key=value …`

keys: `n` (number of variables before the step), `res`, `ctx`, `args=1,2,3`, `lin=c*v,c*v`,
`quad=c*v*w,…`, `rhs`, `lb`, `ub`, `k`, `val`, `b`, `kind`, `c`, `eps`, `bigM`,
`B=v:lb:ub:int;…` (bounds/type of the variables; unspecified variables are free continuous).
Numbers are `p/q`, `p`, `inf`, `-inf`.  Output: one canonical line per op, `bad-op` if the line cannot
be interpreted.  No logic here: only parsing, calls of the model functions and printing.
-/
open MpVerif.C01

def parseInt? (s : String) : Option Int :=
  if s.startsWith "-" then (s.drop 1).toNat?.map fun n => - (n : Int)
  else s.toNat?.map fun n => (n : Int)

def parseRat? (s : String) : Option Rat :=
  match s.splitOn "/" with
  | [p] => (parseInt? p).map fun i => (i : Rat)
  | [p, q] => do
    let i ← parseInt? p
    let d ← q.toNat?
    if d == 0 then none else some ((i : Rat) / (d : Rat))
  | _ => none

/-- `inf`/`-inf` → none (infinite) -/
def parseBound? (s : String) : Option (Option Rat) :=
  if s == "inf" || s == "-inf" then some none else (parseRat? s).map some

def ratStr (q : Rat) : String :=
  if q.den == 1 then toString q.num else s!"{q.num}/{q.den}"

def boundStr (lower : Bool) : Option Rat → String
  | none => if lower then "-inf" else "inf"
  | some q => ratStr q

def parseList {α} (f : String → Option α) (s : String) : Option (List α) :=
  if s == "" then some [] else (s.splitOn ",").mapM f

def parseTerm? (s : String) : Option (Rat × Var) :=
  match s.splitOn "*" with
  | [c, v] => do
    let c ← parseRat? c
    let v ← v.toNat?
    some (c, v)
  | _ => none

def parseQTerm? (s : String) : Option (Rat × Var × Var) :=
  match s.splitOn "*" with
  | [c, v, w] => do
    let c ← parseRat? c
    let v ← v.toNat?
    let w ← w.toNat?
    some (c, v, w)
  | _ => none

def parseCtx? : String → Option Ctx
  | "none" => some .none | "pos" => some .pos | "neg" => some .neg | "mix" => some .mix | _ => none

def parseCmp5? : String → Option Cmp5
  | "LT" => some .lt | "LE" => some .le | "EQ" => some .eq | "GE" => some .ge | "GT" => some .gt | _ => none

def parseVarInfo? (s : String) : Option (Var × VarInfo) :=
  match s.splitOn ":" with
  | [v, l, u, t] => do
    let v ← v.toNat?
    let l ← parseBound? l
    let u ← parseBound? u
    some (v, { lb := l, ub := u, isInt := t == "1" })
  | _ => none

def mkBnds (l : List (Var × VarInfo)) : Bnds := fun v =>
  match l.find? (fun p => p.1 == v) with
  | some p => p.2
  | none => {}

def linStr (l : Lin) : String := ",".intercalate (l.map fun (c, v) => s!"{ratStr c}*{v}")
def quadStr (l : Quad) : String := ",".intercalate (l.map fun (c, v, w) => s!"{ratStr c}*{v}*{w}")
def varsStr (l : List Var) : String := ",".intercalate (l.map toString)

def funStr : Fun → String
  | .affine body c => s!"Affine {linStr body} {ratStr c}"
  | .quadratic lin q c => s!"Quadratic {linStr lin} {quadStr q} {ratStr c}"
  | .abs a => s!"Abs {a}"
  | .min as => s!"Min {varsStr as}"
  | .max as => s!"Max {varsStr as}"
  | .and as => s!"And {varsStr as}"
  | .or as => s!"Or {varsStr as}"
  | .not a => s!"Not {a}"
  | .impl c t e => s!"Impl {c},{t},{e}"
  | .ifthen c t e => s!"IfThen {c},{t},{e}"
  | .condLin k body rhs => s!"CondLin{k.toString} {linStr body} {ratStr rhs}"
  | .condQuad k lin q rhs => s!"CondQuad{k.toString} {linStr lin} {quadStr q} {ratStr rhs}"
  | .count as => s!"Count {varsStr as}"
  | .numberofConst k as => s!"NumberofConst {ratStr k} {varsStr as}"
  | .numberofVar r as => s!"NumberofVar {r} {varsStr as}"
  | .alldiff as => s!"AllDiff {varsStr as}"
  | .div a b => s!"Div {a},{b}"
  | .pow a p => s!"Pow {a} {p}"

def conStr : Con → String
  | .linRange body lb ub => s!"LinConRange {linStr body} {boundStr true lb} {boundStr false ub}"
  | .linRhs k body rhs => s!"LinCon{k.toString} {linStr body} {ratStr rhs}"
  | .quadRange lin q lb ub => s!"QuadConRange {linStr lin} {quadStr q} {boundStr true lb} {boundStr false ub}"
  | .quadRhs k lin q rhs => s!"QuadCon{k.toString} {linStr lin} {quadStr q} {ratStr rhs}"
  | .indLin b bv k body rhs => s!"IndicatorLinCon{k.toString} {b} {bv} {linStr body} {ratStr rhs}"
  | .sos1 vs ws => s!"SOS1 {varsStr vs} {",".intercalate (ws.map ratStr)}"
  | .sos2 vs ws => s!"SOS2 {varsStr vs} {",".intercalate (ws.map ratStr)}"
  | .func res ctx f => s!"F {res} {ctx.toString} {funStr f}"

def viStr (i : VarInfo) : String :=
  s!"{boundStr true i.lb}:{boundStr false i.ub}:{if i.isInt then 1 else 0}"

def outStr (o : Out) : String :=
  match o.refusal with
  | some r => s!"refusal {r.toString}"
  | none =>
    if o.unmodelled then "unmodelled" else
    "ok |V|" ++ ";".intercalate (o.vars.map viStr) ++ "|C|" ++ " ; ".intercalate (o.cons.map fun c => conStr c.stored)
      ++ "|N|" ++ ";".intercalate (o.narrow.map fun (v, i) => s!"{v}:{viStr i}")

/-- functional expression from `Kind;field;field…` (same field syntax as `funStr`) -/
def parseFun? : List String → Option Fun
  | ["Affine", l, c] => do some (.affine (← parseList parseTerm? l) (← parseRat? c))
  | ["Quadratic", l, q, c] => do some (.quadratic (← parseList parseTerm? l) (← parseList parseQTerm? q) (← parseRat? c))
  | ["Abs", a] => do some (.abs (← a.toNat?))
  | ["Min", as] => do some (.min (← parseList String.toNat? as))
  | ["Max", as] => do some (.max (← parseList String.toNat? as))
  | ["And", as] => do some (.and (← parseList String.toNat? as))
  | ["Or", as] => do some (.or (← parseList String.toNat? as))
  | ["Not", a] => do some (.not (← a.toNat?))
  | ["Impl", as] => do
    match ← parseList String.toNat? as with
    | [c, t, e] => some (.impl c t e)
    | _ => none
  | ["IfThen", as] => do
    match ← parseList String.toNat? as with
    | [c, t, e] => some (.ifthen c t e)
    | _ => none
  | ["CondLin", k, l, r] => do some (.condLin (← parseCmp5? k) (← parseList parseTerm? l) (← parseRat? r))
  | ["CondQuad", k, l, q, r] => do
    some (.condQuad (← parseCmp5? k) (← parseList parseTerm? l) (← parseList parseQTerm? q) (← parseRat? r))
  | ["Count", as] => do some (.count (← parseList String.toNat? as))
  | ["NumberofConst", k, as] => do some (.numberofConst (← parseRat? k) (← parseList String.toNat? as))
  | ["NumberofVar", r, as] => do some (.numberofVar (← r.toNat?) (← parseList String.toNat? as))
  | ["AllDiff", as] => do some (.alldiff (← parseList String.toNat? as))
  | ["Div", as] => do
    match ← parseList String.toNat? as with
    | [a, b] => some (.div a b)
    | _ => none
  | ["Pow", a, p] => do some (.pow (← a.toNat?) (← p.toNat?))
  | _ => none

/-- `res;ctx;Kind;fields…` -/
def parseDef? (s : String) : Option Def :=
  match s.splitOn ";" with
  | r :: c :: rest => do some { res := ← r.toNat?, ctx := ← parseCtx? c, f := ← parseFun? rest }
  | _ => none

/-- `lin;lb;ub` -/
def parseRoot? (s : String) : Option Root :=
  match s.splitOn ";" with
  | [l, lb, ub] => do some { body := ← parseList parseTerm? l, lb := ← parseBound? lb, ub := ← parseBound? ub }
  | _ => none

def parseQRoot? (s : String) : Option QRoot :=
  match s.splitOn ";" with
  | [l, q, lb, ub] => do
    some { lin := ← parseList parseTerm? l, quad := ← parseList parseQTerm? q, lb := ← parseBound? lb, ub := ← parseBound? ub }
  | _ => none

def parseBar {α} (f : String → Option α) (s : String) : Option (List α) :=
  if s == "" then some [] else (s.splitOn "|").mapM f

/-! ### NL expressions of the reference converter's fragment: `add(v0,mul(2,abs(v1)))`, `le(v0,c3)`, … -/

/-- split `a,b(c,d),e` at top-level commas -/
def splitTop (s : String) : List String :=
  let rec go (cs : List Char) (depth : Nat) (cur : String) (acc : List String) : List String :=
    match cs with
    | [] => (cur :: acc).reverse
    | ch :: t =>
      if ch == '(' then go t (depth + 1) (cur.push ch) acc
      else if ch == ')' then go t (depth - 1) (cur.push ch) acc
      else if ch == ',' && depth == 0 then go t depth "" (cur :: acc)
      else go t depth (cur.push ch) acc
  go s.toList 0 "" []

/-- `name(args)` → (name, args) -/
def splitCall (s : String) : Option (String × List String) :=
  match s.splitOn "(" with
  | name :: _ :: _ =>
    if s.endsWith ")" then
      let inner := String.ofList ((s.toList.drop (name.length + 1)).dropLast)
      some (name, if inner == "" then [] else splitTop inner)
    else none
  | _ => none

mutual
partial def parseNE (s : String) : Option NE :=
  if s.startsWith "c" && !s.contains '(' then (parseRat? (String.ofList (s.toList.drop 1))).map NE.c
  else if s.startsWith "v" && !s.contains '(' then (String.ofList (s.toList.drop 1)).toNat?.map NE.v
  else match splitCall s with
    | some ("add", a :: t) => do
      let a ← parseNE a
      t.foldlM (fun acc b => do some (NE.add acc (← parseNE b))) a
    | some ("neg", [a]) => do some (NE.mul (-1) (← parseNE a))
    | some ("mul", [k, a]) => do some (NE.mul (← parseRat? k) (← parseNE a))
    | some ("abs", [a]) => do some (NE.abs (← parseNE a))
    | some ("max", l) => do some (NE.max (← parseNEs l))
    | some ("min", l) => do some (NE.min (← parseNEs l))
    | some ("ite", [c, t, e]) => do some (NE.ite (← parseLE c) (← parseNE t) (← parseNE e))
    | some ("count", l) => do some (NE.count (← parseLEs l))
    | _ => none
partial def parseNEs (l : List String) : Option NEs :=
  match l with
  | [] => some .nil
  | a :: t => do some (.cons (← parseNE a) (← parseNEs t))
partial def parseLE (s : String) : Option LE :=
  match splitCall s with
  | some ("le", [a, b]) => do some (LE.cmp .le (← parseNE a) (← parseNE b))
  | some ("ge", [a, b]) => do some (LE.cmp .ge (← parseNE a) (← parseNE b))
  | some ("lt", [a, b]) => do some (LE.cmp .lt (← parseNE a) (← parseNE b))
  | some ("gt", [a, b]) => do some (LE.cmp .gt (← parseNE a) (← parseNE b))
  | some ("eq", [a, b]) => do some (LE.cmp .eq (← parseNE a) (← parseNE b))
  | some ("and", l) => do some (LE.and (← parseLEs l))
  | some ("or", l) => do some (LE.or (← parseLEs l))
  | some ("not", [a]) => do some (LE.not (← parseLE a))
  | some ("iff", [a, b]) => do some (LE.iff (← parseLE a) (← parseLE b))
  | _ => none
partial def parseLEs (l : List String) : Option LEs :=
  match l with
  | [] => some .nil
  | a :: t => do some (.cons (← parseLE a) (← parseLEs t))
end

def parseNLCon? (s : String) : Option (NE × Option Rat × Option Rat) :=
  match s.splitOn ";" with
  | [e, lb, ub] => do some (← parseNE e, ← parseBound? lb, ← parseBound? ub)
  | _ => none

def parseNLObj? (s : String) : Option (Sense × NE) :=
  match s.splitOn ";" with
  | ["min", e] => do some (Sense.min, ← parseNE e)
  | ["max", e] => do some (Sense.max, ← parseNE e)
  | _ => none

def defStr (d : Def) : String :=
  match d.f with
  | .affine [] c => s!"{d.res};{d.ctx.toString};Const;{ratStr c}"
  | f => s!"{d.res};{d.ctx.toString};" ++ ";".intercalate ((funStr f).splitOn " ")

def rootStr (r : Root) : String := s!"{linStr r.body};{boundStr true r.lb};{boundStr false r.ub}"

/-- which clauses of `ConvOut.shortcut` fire (diagnostic) -/
def shortcutWhy (o : ConvOut) (linear : Bool) : String :=
  let nref := nRefs o.defs o.fixTrue o.rootsD o.obj
  ",".intercalate (
    (if o.defs.any (shortcutDef o.B0 o.defs) then ["prepro"] else []) ++
    (if o.blocks.any (·.unmodelled) then ["unmodelled"] else []) ++
    (if o.defs.any (timingShortcut o.facts nref) then ["timing"] else []) ++
    (if linear && constShortcut o then ["constmap"] else []) ++
    (if removedRef o then ["removedref"] else []) ++
    (if o.defs.any (fun d => match d.f with | .condLin .eq [(_, v)] _ => (o.B0 v).isInt | _ => false) then ["uenc"] else []) ++
    (if o.defs.any (fun d => match d.f with | .affine [] _ => false | .condLin .eq [(_, _)] _ => false | f => (resBnd o.B0 f).isFixed) then ["fixedres"] else []))

/-- answer of the `convert` op.  Printing conventions (not part of the theorems): a removed definition (`Block.removed`: And fixed
true / Or fixed false, marked unused) is shown the way the real converter leaves it — no rows, its result variable with the bounds
`0..0` of `FixUnusedDefinedVars` and, in `|D|`, as a constant variable of value 0; in the theorems its variable keeps the value 1
resp. 0 of the propagation and occurs in no delivered row. -/
def convOutStr (m : NLModel) (o : ConvOut) (cfg : Cfg) : String :=
  let linear := cfg.acc == .linear
  if o.infeasible then "refusal infeasible" else
  match o.refusal with
  | some r => s!"refusal {r.toString}"
  | none =>
    let removed := (o.blocks.filter (·.removed)).map (·.d.res)
    let vs := (List.range' o.n0 (o.M - o.n0)).map fun v =>
      let i := o.B v
      let i := if removed.contains v then { i with lb := some 0, ub := some 0 } else i
      s!"{v}:{viStr i}"
    let rows := o.blocks.flatMap (·.cons) ++ o.rootsD.map (fun r => Con.linRange r.body r.lb r.ub)
    s!"conv N={o.N} M={o.M} shortcut={if o.shortcut linear then 1 else 0} infragment={if m.vok && o.checksSem && (!linear || o.checksLin cfg) then 1 else 0} checks={if o.checks m then 1 else 0} why={shortcutWhy o linear}" ++
      " |V| " ++ ";".intercalate vs ++
      " |D| " ++ "|".intercalate (o.defs.map (fun d =>
          if removed.contains d.res then s!"{d.res};{d.ctx.toString};Const;0" else defStr d)) ++
      " |R| " ++ "|".intercalate (o.roots.map rootStr) ++
      " |O| " ++ (match o.obj with
                  | some ob => (if ob.sense == .max then "max;" else "min;") ++ linStr ob.lin
                  | none => "") ++
      " |C| " ++ " ; ".intercalate (rows.map conStr)

structure Args where
  kv : List (String × String)

def Args.get? (a : Args) (k : String) : Option String := (a.kv.find? (·.1 == k)).map (·.2)
def Args.nat? (a : Args) (k : String) : Option Nat := a.get? k >>= String.toNat?
def Args.rat? (a : Args) (k : String) : Option Rat := a.get? k >>= parseRat?
def Args.bound? (a : Args) (k : String) : Option (Option Rat) := a.get? k >>= parseBound?
def Args.vars? (a : Args) (k : String) : Option (List Var) := a.get? k >>= parseList String.toNat?
def Args.var1? (a : Args) (k : String) : Option Var :=
  match a.vars? k with | some [x] => some x | _ => none
def Args.var2? (a : Args) (k : String) : Option (Var × Var) :=
  match a.vars? k with | some [x, y] => some (x, y) | _ => none
def Args.var3? (a : Args) (k : String) : Option (Var × Var × Var) :=
  match a.vars? k with | some [x, y, z] => some (x, y, z) | _ => none
def Args.varCons? (a : Args) (k : String) : Option (Var × List Var) :=
  match a.vars? k with | some (x :: t) => some (x, t) | _ => none
def Args.lin? (a : Args) (k : String) : Option Lin := a.get? k >>= parseList parseTerm?
def Args.quad? (a : Args) (k : String) : Option Quad := a.get? k >>= parseList parseQTerm?
def Args.ctx? (a : Args) : Option Ctx := a.get? "ctx" >>= parseCtx?
def Args.bnds? (a : Args) : Option Bnds :=
  match a.get? "B" with
  | none => some (mkBnds [])
  | some s => if s == "" then some (mkBnds []) else ((s.splitOn ";").mapM parseVarInfo?).map mkBnds
def Args.opts? (a : Args) : Option Opts := do
  let eps ← match a.get? "eps" with | none => some (1 / 10000 : Rat) | some s => parseRat? s
  let bm ← match a.get? "bigM" with | none => some (-1 : Rat) | some s => parseRat? s
  some { cmpEps := eps, bigM := bm }

def runOp (g : String) (a : Args) : Option String := do
  let B ← a.bnds?
  let o ← a.opts?
  let n := (a.nat? "n").getD 0
  match g with
  | "abs" => do
    let r ← a.nat? "res"; let x ← a.var1? "args"; let c ← a.ctx?
    some (outStr (gAbs r x c B n))
  | "max" => do
    let r ← a.nat? "res"; let xs ← a.vars? "args"; let c ← a.ctx?
    some (outStr (gMax r xs c B n))
  | "min" => do
    let r ← a.nat? "res"; let xs ← a.vars? "args"; let c ← a.ctx?
    some (outStr (gMin r xs c B n))
  | "and" => do
    let r ← a.nat? "res"; let xs ← a.vars? "args"; let c ← a.ctx?
    some (outStr (gAnd r xs c B n))
  | "or" => do
    let r ← a.nat? "res"; let xs ← a.vars? "args"; let c ← a.ctx?
    some (outStr (gOr r xs c B n))
  | "not" => do
    let r ← a.nat? "res"; let x ← a.var1? "args"
    some (outStr (gNot r x B n))
  | "ifthen" => do
    let r ← a.nat? "res"; let (c, t, e) ← a.var3? "args"
    some (outStr (gIfThen r c t e B n))
  | "impl" => do
    let r ← a.nat? "res"; let (c, t, e) ← a.var3? "args"; let cx ← a.ctx?
    some (outStr (gImpl r c t e cx B n))
  | "condlin" => do
    let r ← a.nat? "res"; let k ← a.get? "kind" >>= parseCmp5?; let body ← a.lin? "lin"
    let rhs ← a.rat? "rhs"; let cx ← a.ctx?
    match k with
    | .eq => some (outStr (gCondEq r body rhs cx B o n))
    | _ => some (outStr (gCondIneq k r body rhs cx B o n))
  | "indle" => do
    let b ← a.nat? "b"; let v ← a.nat? "val"; let body ← a.lin? "lin"; let rhs ← a.rat? "rhs"
    some (outStr (gIndLE b v body rhs B o))
  | "indge" => do
    let b ← a.nat? "b"; let v ← a.nat? "val"; let body ← a.lin? "lin"; let rhs ← a.rat? "rhs"
    some (outStr (gIndGE b v body rhs B o))
  | "indeq" => do
    let b ← a.nat? "b"; let v ← a.nat? "val"; let body ← a.lin? "lin"; let rhs ← a.rat? "rhs"
    some (outStr (gIndEQ b v body rhs B o))
  | "count" => do
    let r ← a.nat? "res"; let xs ← a.vars? "args"
    some (outStr (gCount r xs B n))
  | "numberofconst" => do
    let r ← a.nat? "res"; let xs ← a.vars? "args"; let k ← a.rat? "k"
    some (outStr (gNumberofConst r k xs B n))
  | "numberofvar" => do
    let r ← a.nat? "res"; let (ref, xs) ← a.varCons? "args"
    some (outStr (gNumberofVar r ref xs B n))
  | "rangelin" => do
    let body ← a.lin? "lin"; let lb ← a.bound? "lb"; let ub ← a.bound? "ub"
    some (outStr (gRangeLin body lb ub n))
  | "rangequad" => do
    let body ← a.lin? "lin"; let q ← a.quad? "quad"; let lb ← a.bound? "lb"; let ub ← a.bound? "ub"
    some (outStr (gRangeQuad body q lb ub n))
  | "lfc" => do
    let r ← a.nat? "res"; let body ← a.lin? "lin"; let c ← a.rat? "c"
    some (outStr (gLFC r body c))
  | "qfc" => do
    let r ← a.nat? "res"; let body ← a.lin? "lin"; let q ← a.quad? "quad"; let c ← a.rat? "c"; let cx ← a.ctx?
    some (outStr (gQFC r body q c cx))
  | "divconst" => do
    let r ← a.nat? "res"; let (x, y) ← a.var2? "args"
    some (outStr (gDivConst r x y B))
  | "rangectx" => do
    let lb ← a.bound? "lb"; let ub ← a.bound? "ub"
    some ("ctx " ++ (rangeCtx lb ub).toString)
  | "uenc" => do       -- CreateUnaryEncoding: taken=value:var,value:var
    let v ← a.nat? "v"
    let taken ← (a.get? "taken").getD "" |> parseList (fun t => match t.splitOn ":" with
      | [k, r] => do some ((← parseInt? k), (← r.toNat?))
      | _ => none)
    some (outStr (gUnaryEncFull v B taken n))
  | "mulbin" => do     -- LinearizeProductWithBinaryVar: the IfThen term (result variable n)
    let b ← a.nat? "b"; let o' ← a.nat? "o"; let z ← a.nat? "zero"
    some (outStr (gMulBinTerm b o' z B n))
  | "convert" => do    -- the reference converter (ModelConvert.lean) on an NL model of the fragment
    let n0 ← a.nat? "n0"
    let cons ← (a.get? "cons").getD "" |> parseBar parseNLCon?
    let lcons ← (a.get? "lcons").getD "" |> parseBar parseLE
    let obj ← match a.get? "obj" with | some t => (parseNLObj? t).map some | none => some none
    let acc ← match a.get? "acc" with
      | some "native" => some Acc.native | some "linear" => some Acc.linear | none => some Acc.linear | _ => none
    let m : NLModel := { n0 := n0, B0 := B, obj := obj, cons := cons, lcons := lcons }
    some (convOutStr m (convert m { acc := acc, opts := o }) { acc := acc, opts := o })
  | "validate" => do   -- per-run validator of the composition theorem's hypotheses WF and CtxCovers
    let defs ← (a.get? "defs").getD "" |> parseBar parseDef?
    let roots ← (a.get? "roots").getD "" |> parseBar parseRoot?
    let n0 := (a.nat? "n0").getD 0
    let gaps := ctxGaps B defs roots
    -- optional objective `objsense=min|max objlin=… objquad=…`: hypothesis ObjCovers of C01_compose_objective
    let osense ← match a.get? "objsense" with
      | some "min" => some (some Sense.min) | some "max" => some (some Sense.max) | none => some none | _ => none
    let olin ← match a.get? "objlin" with | some t => parseList parseTerm? t | none => some []
    let oquad ← match a.get? "objquad" with | some t => parseList parseQTerm? t | none => some []
    let ogaps : List (Var × Ctx × Ctx) :=
      match osense with
      | some sense => objGaps B defs { sense := sense, lin := olin, quad := oquad }
      | none => []
    -- optional quadratic roots `qroots=lin;quad;lb;ub|…`: hypothesis QRootsCover of C01_compose_quadroots
    let qroots ← (a.get? "qroots").getD "" |> parseBar parseQRoot?
    let qgaps := qrootGaps B defs qroots
    let fmt := fun (l : List (Var × Ctx × Ctx)) =>
      " ".intercalate (l.map fun (v, need, have_) => s!"{v}:{need.toString}>{have_.toString}")
    some (s!"valid wf={if wfB n0 defs then 1 else 0} gaps={gaps.length} " ++ fmt gaps ++
      (if osense.isSome then s!" | objgaps={ogaps.length} " ++ fmt ogaps else "") ++
      (if (a.get? "qroots").isSome then s!" | qgaps={qgaps.length} " ++ fmt qgaps else ""))
  | "propfun" => do   -- PropagateResult(<functional constraint>&, ..., ctx): contexts handed to the arguments
    let cx ← a.ctx?
    let ty ← a.get? "type"
    let fmt := fun (l : List (Var × Ctx)) => "ctx " ++ " ".intercalate (l.map fun (v, c) => s!"{v}:{c.toString}")
    match ty with
    | "Not" => do let x ← a.var1? "args"; some (fmt (propNot cx x))
    | "And" => do let xs ← a.vars? "args"; some (fmt (propAnd cx xs))
    | "Or" => do let xs ← a.vars? "args"; some (fmt (propOr cx xs))
    | "Impl" => do let (c, t, e) ← a.var3? "args"; some (fmt (propImpl cx c t e))
    | "IfThen" => do let (c, t, e) ← a.var3? "args"; some (fmt (propIfThen B cx c t e))
    | "Affine" => do let body ← a.lin? "lin"; some (fmt (propLFC cx body))
    | "CondLin" => do
      let k ← a.get? "kind" >>= parseCmp5?; let body ← a.lin? "lin"
      some (fmt (propCondLin k cx body))
    | "Default" => do let xs ← a.vars? "args"; some (fmt (propDefault xs))
    | _ => none
  | "proplin" => do   -- PropagateResult2LinTerms
    let body ← a.lin? "lin"; let cx ← a.ctx?
    some ("ctx " ++ " ".intercalate ((propLin cx body).map fun (v, c) => s!"{v}:{c.toString}"))
  | "propquad" => do  -- PropagateResult2QuadTerms
    let q ← a.quad? "quad"; let cx ← a.ctx?
    some ("ctx " ++ " ".intercalate ((propQuad B cx q).map fun (v, c) => s!"{v}:{c.toString}"))
  | _ => none

def main : IO Unit := do
  let stdin ← IO.getStdin
  let stdout ← IO.getStdout
  repeat
    let line ← stdin.getLine
    if line.isEmpty then break
    let toks := (line.trimAscii.toString.splitOn " ").filter (· != "")
    match toks with
    | [] => stdout.putStrLn "bad-op"
    | g :: rest =>
      let kv := rest.filterMap fun t =>
        match t.splitOn "=" with
        | [k, v] => some (k, v)
        | _ => none
      if kv.length != rest.length then stdout.putStrLn "bad-op"
      else match runOp g ⟨kv⟩ with
        | some s => stdout.putStrLn s
        | none => stdout.putStrLn "bad-op"
    stdout.flush
  stdout.flush

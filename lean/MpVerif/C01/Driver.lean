/-! Line driver for C01 (stub; replaced when the model is written). -/
def main : IO Unit := pure ()

/-!
# C01 — flat constraint semantics and the context algebra

Model of the data the MIP reformulation layer of ampl/mp works on
(`include/mp/flat/constr_*.h`, `context.h`):

* `Ctx`            — `mp::Context` (`CTX_NONE/POS/NEG/MIX`) with `operator+`, `operator-`, `Add`.
* `VarInfo/Bnds`   — bounds and type of every flat variable (`FlatModel::var_lb_/var_ub_/var_type_`);
                     an infinite bound is `none`.
* `Lin`, `Quad`    — `LinTerms`, `QuadTerms` (coefficient/variable lists in *storage order*).
* `Fun`            — the functional constraints (`res = f(args)`) with an exact value `Fun.val`.
* `Con`            — every constraint type the converter stores/delivers, with `sat`.

Reading of the context (confirmed against `ComputeViolation` in `constr_base.h`:
`viol = x[res] - value`, `CTX_POS` reports `viol`, `CTX_NEG` reports `-viol`, `CTX_MIX` `|viol|`;
for `ConditionalConstraint`: POS `has_arg <= ccon_valid`, NEG `has_arg >= ccon_valid`):

  pos : `res ≤ f`  (logical: `res ⇒ f`),   neg : `res ≥ f`  (`f ⇒ res`),   mix : `res = f`.

Logical values are 0/1 rationals, so the logical reading is the numeric one.
Numbers are exact (`Rat`); IEEE effects are outside this model (the correspondence uses dyadic data).
-/
namespace MpVerif.C01

abbrev Var := Nat
/-- an assignment of values to all flat variables -/
abbrev Asg := Var → Rat

/-! ## Context (`mp/flat/context.h`) -/

inductive Ctx where
  | none | pos | neg | mix
deriving DecidableEq, Repr, Inhabited

namespace Ctx
def hasPos : Ctx → Bool
  | pos => true | mix => true | _ => false
def hasNeg : Ctx → Bool
  | neg => true | mix => true | _ => false
/-- `Context::operator+` -/
def plus : Ctx → Ctx
  | none => pos | c => c
/-- `Context::operator-` -/
def flip : Ctx → Ctx
  | none => neg | pos => neg | neg => pos | mix => mix
/-- `Context::Add` (merge) -/
def add : Ctx → Ctx → Ctx
  | none, c => c
  | pos, c => if c.hasNeg then mix else pos
  | neg, c => if c.hasPos then mix else neg
  | mix, _ => mix
/-- `RunConversion`: "Assume mixed context if not set." -/
def eff : Ctx → Ctx
  | none => mix | c => c
/-- information order: `a ≤ b` when `b` asks for every direction `a` asks for -/
def le (a b : Ctx) : Prop := (a.hasPos = true → b.hasPos = true) ∧ (a.hasNeg = true → b.hasNeg = true)
instance : LE Ctx := ⟨le⟩
instance (a b : Ctx) : Decidable (a ≤ b) := inferInstanceAs (Decidable (_ ∧ _))
def toString : Ctx → String
  | none => "none" | pos => "pos" | neg => "neg" | mix => "mix"
end Ctx

/-- What a parent that uses a result value in context `c` *requires* of the value `r` handed to it,
relative to the true value `v`: nothing, `r ≤ v`, `r ≥ v`, `r = v`. -/
def req : Ctx → Rat → Rat → Prop
  | .none, _, _ => True
  | .pos, r, v => r ≤ v
  | .neg, r, v => v ≤ r
  | .mix, r, v => r = v

/-- What a stored functional constraint with context `c` *asserts* (none is converted as mix). -/
def rel (c : Ctx) (r v : Rat) : Prop := req c.eff r v

instance (c : Ctx) (r v : Rat) : Decidable (req c r v) := by
  cases c <;> simp only [req] <;> exact inferInstance
instance (c : Ctx) (r v : Rat) : Decidable (rel c r v) := by unfold rel; exact inferInstance

/-! ## Variables: bounds and type -/

structure VarInfo where
  lb : Option Rat := none      -- `none` = -inf
  ub : Option Rat := none      -- `none` = +inf
  isInt : Bool := false
deriving DecidableEq, Repr, Inhabited

abbrev Bnds := Var → VarInfo

/-- `q` is an integer value -/
def isIntVal (q : Rat) : Prop := ∃ k : Int, q = (k : Rat)

/-- value `q` lies in the domain described by `i` -/
def VarInfo.admits (i : VarInfo) (q : Rat) : Prop :=
  (∀ l, i.lb = some l → l ≤ q) ∧ (∀ u, i.ub = some u → q ≤ u) ∧ (i.isInt = true → isIntVal q)

/-- `x` respects the bounds/types `B` on variable `v` -/
def inDom (B : Bnds) (x : Asg) (v : Var) : Prop := (B v).admits (x v)

namespace VarInfo
/-- `FlatModel::is_fixed` (`lb == ub`; infinite bounds are never equal here) -/
def isFixed (i : VarInfo) : Bool :=
  match i.lb, i.ub with
  | some l, some u => l == u
  | _, _ => false
/-- `fixed_value` (only meaningful when `isFixed`) -/
def fixedVal (i : VarInfo) : Rat := i.lb.getD 0
/-- `FlatModel::is_binary_var` — true also when fixed at 0 or 1 -/
def isBinary (i : VarInfo) : Bool :=
  (i.lb == some 0 && i.ub == some 1 && i.isInt) ||
  (i.isFixed && (i.fixedVal == 0 || i.fixedVal == 1))
def binary : VarInfo := { lb := some 0, ub := some 1, isInt := true }
end VarInfo

/-! ## Linear and quadratic terms -/

abbrev Lin := List (Rat × Var)
abbrev Quad := List (Rat × Var × Var)

def evalLin (x : Asg) : Lin → Rat
  | [] => 0
  | (c, v) :: t => c * x v + evalLin x t

def evalQuad (x : Asg) : Quad → Rat
  | [] => 0
  | (c, v, w) :: t => c * (x v * x w) + evalQuad x t

/-- `LinTerms::negate` -/
def negLin (l : Lin) : Lin := l.map fun (c, v) => (-c, v)

/-- all-ones terms over a variable list -/
def ones (vs : List Var) : Lin := vs.map fun v => ((1 : Rat), v)

/-! ## Comparison kinds -/

/-- `AlgConRhs<kind>` kinds that can be delivered: `-1, 0, 1` -/
inductive Cmp where
  | le | eq | ge
deriving DecidableEq, Repr, Inhabited

/-- kinds of conditional comparisons: `-2, -1, 0, 1, 2` -/
inductive Cmp5 where
  | lt | le | eq | ge | gt
deriving DecidableEq, Repr, Inhabited

def Cmp.holds : Cmp → Rat → Rat → Prop
  | .le, a, b => a ≤ b
  | .eq, a, b => a = b
  | .ge, a, b => b ≤ a

def Cmp5.holds : Cmp5 → Rat → Rat → Prop
  | .lt, a, b => a < b
  | .le, a, b => a ≤ b
  | .eq, a, b => a = b
  | .ge, a, b => b ≤ a
  | .gt, a, b => b < a

instance (k : Cmp) (a b : Rat) : Decidable (k.holds a b) := by
  cases k <;> simp only [Cmp.holds] <;> exact inferInstance
instance (k : Cmp5) (a b : Rat) : Decidable (k.holds a b) := by
  cases k <;> simp only [Cmp5.holds] <;> exact inferInstance

def Cmp.toString : Cmp → String
  | .le => "LE" | .eq => "EQ" | .ge => "GE"
def Cmp5.toString : Cmp5 → String
  | .lt => "LT" | .le => "LE" | .eq => "EQ" | .ge => "GE" | .gt => "GT"

/-! ## Functional constraints: `res = f(args)` -/

/-- truth value as a number -/
def b2r (p : Prop) [Decidable p] : Rat := if p then 1 else 0

def maxL (x : Asg) : Var → List Var → Rat
  | a, [] => x a
  | a, b :: t => if x a ≤ maxL x b t then maxL x b t else x a

def minL (x : Asg) : Var → List Var → Rat
  | a, [] => x a
  | a, b :: t => if x a ≤ minL x b t then x a else minL x b t

/-- number of list elements satisfying a decidable predicate, as a rational -/
def countP (p : Var → Bool) : List Var → Rat
  | [] => 0
  | a :: t => (if p a then 1 else 0) + countP p t

/-- pairwise distinct values -/
def allDiffVals (x : Asg) : List Var → Bool
  | [] => true
  | a :: t => t.all (fun b => x a != x b) && allDiffVals x t

inductive Fun where
  | affine (body : Lin) (c : Rat)                 -- LinearFunctionalConstraint
  | quadratic (lin : Lin) (q : Quad) (c : Rat)    -- QuadraticFunctionalConstraint
  | abs (a : Var)
  | min (as : List Var)
  | max (as : List Var)
  | and (as : List Var)
  | or (as : List Var)
  | not (a : Var)
  | impl (c t e : Var)                            -- ImplicationConstraint: c ==> t else e
  | ifthen (c t e : Var)                          -- IfThenConstraint (numeric)
  | condLin (k : Cmp5) (body : Lin) (rhs : Rat)   -- ConditionalConstraint<LinCon..>
  | condQuad (k : Cmp5) (lin : Lin) (q : Quad) (rhs : Rat)
  | count (as : List Var)
  | numberofConst (k : Rat) (as : List Var)
  | numberofVar (ref : Var) (as : List Var)
  | alldiff (as : List Var)
  | div (a b : Var)
  | pow (a : Var) (p : Nat)                       -- PowConstraint with natural exponent
deriving Repr, Inhabited

/-- exact value of a functional expression at `x`; logical arguments are true when `= 1`
(they are binary variables wherever the converter builds these constraints) -/
def Fun.val (x : Asg) : Fun → Rat
  | .affine body c => evalLin x body + c
  | .quadratic lin q c => evalLin x lin + evalQuad x q + c
  | .abs a => if x a ≤ 0 then - x a else x a
  | .min [] => 0
  | .min (a :: t) => minL x a t
  | .max [] => 0
  | .max (a :: t) => maxL x a t
  | .and as => b2r (as.all (fun a => x a == 1) = true)
  | .or as => b2r (as.any (fun a => x a == 1) = true)
  | .not a => 1 - x a
  | .impl c t e => if x c = 1 then x t else x e
  | .ifthen c t e => if x c = 1 then x t else x e
  | .condLin k body rhs => b2r (k.holds (evalLin x body) rhs)
  | .condQuad k lin q rhs => b2r (k.holds (evalLin x lin + evalQuad x q) rhs)
  | .count as => countP (fun a => x a != 0) as
  | .numberofConst k as => countP (fun a => x a == k) as
  | .numberofVar r as => countP (fun a => x a == x r) as
  | .alldiff as => b2r (allDiffVals x as = true)
  | .div a b => x a / x b
  | .pow a p => x a ^ p

/-! ## Constraints -/

inductive Con where
  | linRange (body : Lin) (lb ub : Option Rat)            -- LinConRange
  | linRhs (k : Cmp) (body : Lin) (rhs : Rat)             -- LinConLE/EQ/GE
  | quadRange (lin : Lin) (q : Quad) (lb ub : Option Rat) -- QuadConRange
  | quadRhs (k : Cmp) (lin : Lin) (q : Quad) (rhs : Rat)  -- QuadConLE/EQ/GE
  | indLin (b : Var) (bv : Nat) (k : Cmp) (body : Lin) (rhs : Rat)   -- IndicatorConstraintLin..
  | sos1 (vs : List Var) (ws : List Rat)
  | sos2 (vs : List Var) (ws : List Rat)
  | func (res : Var) (ctx : Ctx) (f : Fun)
deriving Repr, Inhabited

def inRange (lb ub : Option Rat) (q : Rat) : Prop :=
  (∀ l, lb = some l → l ≤ q) ∧ (∀ u, ub = some u → q ≤ u)

instance (lb ub : Option Rat) (q : Rat) : Decidable (inRange lb ub q) := by
  unfold inRange
  cases lb <;> cases ub <;> simp <;> exact inferInstance

/-- at most one nonzero -/
def sos1Ok (x : Asg) : List Var → Bool
  | [] => true
  | a :: t => (x a == 0 && sos1Ok x t) || t.all (fun b => x b == 0)

/-- at most two nonzero and they are adjacent (list already ordered by weight) -/
def sos2Ok (x : Asg) : List Var → Bool
  | [] => true
  | [_] => true
  | a :: b :: t => (x a == 0 && sos2Ok x (b :: t)) || t.all (fun c => x c == 0)

def Con.sat (x : Asg) : Con → Prop
  | .linRange body lb ub => inRange lb ub (evalLin x body)
  | .linRhs k body rhs => k.holds (evalLin x body) rhs
  | .quadRange lin q lb ub => inRange lb ub (evalLin x lin + evalQuad x q)
  | .quadRhs k lin q rhs => k.holds (evalLin x lin + evalQuad x q) rhs
  | .indLin b bv k body rhs => x b = (bv : Rat) → k.holds (evalLin x body) rhs
  | .sos1 vs _ => sos1Ok x vs = true
  | .sos2 vs _ => sos2Ok x vs = true
  | .func res ctx f => rel ctx (x res) (f.val x)

instance (x : Asg) (c : Con) : Decidable (c.sat x) := by
  cases c <;> simp only [Con.sat] <;> exact inferInstance

/-- `ComplementarityLinear/Quadratic` (a source-only type): expression value `e` complements a
variable with value `v` and bounds `lb..ub` (AMPL semantics, as implemented by `complement.h`). -/
def complSat (lb ub : Option Rat) (e v : Rat) : Prop :=
  match lb, ub with
  | some l, none => 0 ≤ e ∧ (v ≤ l ∨ e ≤ 0)
  | none, some u => e ≤ 0 ∧ (u ≤ v ∨ 0 ≤ e)
  | some l, some u => (v ≤ l ∧ 0 ≤ e) ∨ e = 0 ∨ (u ≤ v ∧ e ≤ 0)
  | none, none => e = 0

/-! ## What a conversion step produces -/

inductive Refusal where
  | indicatorInfBound        -- ConstraintConversionFailure("IndicatorInfBound", …)
  | ctxNotImplemented        -- "Conversion of '…' in negative/positive context not implemented"
  | unbounded                -- "… on unbounded variables not implemented"
  | complementBounds         -- MakeComplementVar on a variable whose bounds are not 0..1
  | nonInteger               -- "Equality encoding: comparing non-integer variables not implemented"
deriving DecidableEq, Repr, Inhabited

def Refusal.toString : Refusal → String
  | .indicatorInfBound => "IndicatorInfBound"
  | .ctxNotImplemented => "CtxNotImplemented"
  | .unbounded => "Unbounded"
  | .complementBounds => "ComplementBounds"
  | .nonInteger => "NonInteger"

/-- Result of one `Convert` call: the auxiliary variables created (ids `n, n+1, …` in creation order,
where `n` is the number of variables before the call), the constraints added, bounds narrowed on
existing variables (`NarrowVarBounds`), or a refusal (exception). `unmodelled` marks inputs on which
the real code takes a preprocessing shortcut this model does not cover. -/
structure Out where
  vars : List VarInfo := []
  cons : List Con := []
  narrow : List (Var × VarInfo) := []
  refusal : Option Refusal := none
  unmodelled : Bool := false
deriving Repr, Inhabited

/-- `x'` extends `x` (agrees on the first `n` variables) -/
def agree (n : Nat) (x x' : Asg) : Prop := ∀ v, v < n → x' v = x v

/-- the auxiliary variables `n ..` take admissible values -/
def auxOk (n : Nat) (x' : Asg) : List VarInfo → Prop
  | [] => True
  | i :: t => i.admits (x' n) ∧ auxOk (n + 1) x' t

/-- "auxiliary values exist that satisfy everything the step emitted" -/
def Out.realizable (o : Out) (n : Nat) (x : Asg) : Prop :=
  ∃ x' : Asg, agree n x x' ∧ auxOk n x' o.vars ∧ ∀ c ∈ o.cons, c.sat x'

end MpVerif.C01

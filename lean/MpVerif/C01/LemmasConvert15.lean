import MpVerif.C01.LemmasConvert14
/-!
# C01 — lemmas about the reference converter, part 15: `convert` stores covering contexts (`CtxCovers`, `ObjCovers` by construction)
-/
namespace MpVerif.C01

theorem RevWF_append (l : List Def) (d : Def) (hl : RevWF l) (hv : ∀ v ∈ d.f.vars, v < d.res) (hgt : ∀ e ∈ l, d.res < e.res) :
    RevWF (l ++ [d]) := by
  induction l with
  | nil => exact ⟨hv, ⟨fun e he => absurd he (List.not_mem_nil), trivial⟩⟩
  | cons a t ih =>
    obtain ⟨h1, h2, h3⟩ := hl
    refine ⟨h1, ?_, ih h3 (fun e he => hgt e (by simp [he]))⟩
    intro e he
    rcases List.mem_append.mp he with he | he
    · exact h2 e he
    · have : e = d := List.mem_singleton.mp he
      subst this; exact hgt a (List.mem_cons_self ..)

theorem RevWF_reverse (m : Nat) (l : List Def) (h : WF m l) : RevWF l.reverse := by
  induction l generalizing m with
  | nil => trivial
  | cons d t ih =>
    obtain ⟨_, h2, h3⟩ := h
    rw [List.reverse_cons]
    apply RevWF_append _ _ (ih (d.res + 1) h3) h2
    intro e he
    have := wf_res_ge h3 e (List.mem_reverse.mp he)
    exact Nat.lt_of_succ_le this

theorem ctxOf_undef (defs : List Def) (v : Var) (h : ∀ d ∈ defs, d.res ≠ v) : ctxOf defs v = .mix := by
  induction defs with
  | nil => rfl
  | cons d t ih =>
    have : d.res ≠ v := h d (by simp)
    simp only [ctxOf, this, if_false]
    exact ih (fun e he => h e (by simp [he]))

theorem propFun_congr (B B' : Bnds) (ctx : Ctx) (f : Fun) (hfr : f.inFrag = true) (h : ∀ v ∈ f.vars, B' v = B v) :
    propFun B' ctx f = propFun B ctx f := by
  cases f with
  | ifthen c t e => simp only [propFun, propIfThen, h t (by simp [Fun.vars]), h e (by simp [Fun.vars])]
  | quadratic _ _ _ => simp [Fun.inFrag] at hfr
  | _ => rfl

/-- **covering contexts by construction**: the contexts `convert` stores satisfy `CtxCovers` and `ObjCovers` -/
theorem convert_covers (m : NLModel) (cfg : Cfg) (hck_wf : WF m.n0 (convert m cfg).defs)
    (htyped : ∀ d ∈ (convert m cfg).defs, typedDef (convert m cfg).B0 d = true)
    (hB : ∀ d ∈ (convert m cfg).defs, ∀ v ∈ d.f.vars, (convert m cfg).B0 v = (flatAll m).S.B v)
    (hq : ∀ o, (convert m cfg).obj = some o → o.quad = []) :
    CtxCovers (convert m cfg).B0 (convert m cfg).defs (convert m cfg).roots ∧
    (∀ o, (convert m cfg).obj = some o → ObjCovers (convert m cfg).B0 (convert m cfg).defs o) := by
  -- notation
  have hdefs : (convert m cfg).defs = (assignCtx (flatAll m).S.B (flatAll m).S.defs.reverse
      (addUses (fun _ => .none) (rootUses ((flatAll m).croots ++ (flatAll m).lroots) (flatAll m).obj))).reverse := rfl
  have hsh := ctxDefs_shape (flatAll m).S.B (flatAll m).S.defs ((flatAll m).croots ++ (flatAll m).lroots) (flatAll m).obj
  have hwf0 : WF m.n0 (flatAll m).S.defs := WF_shape _ _ _ hsh hck_wf
  have hrev := RevWF_reverse m.n0 _ hwf0
  -- the context of a variable's definition dominates what was needed at the start, and every use is covered
  have hroot : ∀ p ∈ rootUses ((flatAll m).croots ++ (flatAll m).lroots) (flatAll m).obj,
      p.2 ≤ (ctxOf (convert m cfg).defs p.1).eff := by
    intro p hp
    have h1 := addUses_mem (fun _ => Ctx.none) _ p hp
    by_cases hdef : ∃ d ∈ (convert m cfg).defs, d.res = p.1
    · obtain ⟨d, hd, hr⟩ := hdef
      have hdR : d ∈ assignCtx (flatAll m).S.B (flatAll m).S.defs.reverse
          (addUses (fun _ => .none) (rootUses ((flatAll m).croots ++ (flatAll m).lroots) (flatAll m).obj)) := by
        rw [hdefs] at hd; exact List.mem_reverse.mp hd
      have h2 := assignCtx_ge _ _ _ d hdR
      rw [← hr, ctxOf_mem m.n0 _ hck_wf d hd]
      rw [hr] at h2
      exact ctx_le_trans (ctx_le_trans h1 h2) (ctx_le_eff _)
    · rw [ctxOf_undef _ _ (fun d hd he => hdef ⟨d, hd, he⟩)]; exact ctx_le_mix _
  refine ⟨⟨?_, ?_⟩, ?_⟩
  · intro r hr p hp
    apply hroot
    have hr' : r ∈ (flatAll m).croots ++ (flatAll m).lroots := hr
    simp only [rootUses, List.mem_append, List.mem_flatMap]
    exact Or.inl ⟨r, List.mem_append.mp hr', hp⟩
  · intro d hd p hp
    have hdR : d ∈ assignCtx (flatAll m).S.B (flatAll m).S.defs.reverse
        (addUses (fun _ => .none) (rootUses ((flatAll m).croots ++ (flatAll m).lroots) (flatAll m).obj)) := by
      rw [hdefs] at hd; exact List.mem_reverse.mp hd
    have hfr : d.f.inFrag = true := by
      have := htyped d hd; rw [typedDef_eq] at this
      simp only [Bool.and_eq_true] at this; exact this.1.2
    rw [propFun_congr (flatAll m).S.B (convert m cfg).B0 d.ctx.eff d.f hfr (hB d hd)] at hp
    rcases assignCtx_covers _ _ _ hrev d hdR p hp with ⟨d'', hd'', hr'', hle⟩ | hnd
    · have hd''m : d'' ∈ (convert m cfg).defs := by rw [hdefs]; exact List.mem_reverse.mpr hd''
      rw [← hr'', ctxOf_mem m.n0 _ hck_wf d'' hd''m]
      exact ctx_le_trans hle (ctx_le_eff _)
    · have : ∀ e ∈ (convert m cfg).defs, e.res ≠ p.1 := by
        intro e he
        obtain ⟨e', he', hr', _⟩ := shape_mem hsh e he
        rw [← hr']; exact hnd e' (List.mem_reverse.mpr he')
      rw [ctxOf_undef _ _ this]; exact ctx_le_mix _
  · intro o ho p hp
    have hquad := hq o ho
    simp only [propObj, hquad, propQuad, List.append_nil] at hp
    apply hroot
    have ho' : (flatAll m).obj = some o := ho
    simp only [rootUses, ho', List.mem_append]
    exact Or.inr hp


/-- **everything `C01_compose` needs about the flat model holds for every input**; the only remaining conditions are finite root
data (and, for the linear acceptance set, `checksLin`) -/
theorem checked_of_vok (m : NLModel) (cfg : Cfg) (hv : m.vok = true) (hs : (convert m cfg).checksSem = true) :
    Checked m (convert m cfg) := by
  have st := structural_of_vok m cfg hv
  have hvars : ∀ d ∈ (convert m cfg).defs, ∀ v ∈ d.f.vars, v < (convert m cfg).N := fun d hd v hv' =>
    Nat.lt_trans (wf_vars_lt _ _ st.wf d hd v hv') (st.resN d hd)
  obtain ⟨hcov, hocov⟩ := convert_covers m cfg st.wf st.typed (fun d hd v hv' => st.bAgree v (hvars d hd v hv'))
    (fun o ho => (st.objIdx o ho).1)
  simp only [ConvOut.checksSem, Bool.and_eq_true, List.all_eq_true] at hs
  obtain ⟨hs, _⟩ := hs
  refine ⟨st.wf, st.n0N, st.resN, st.defd, st.b0, st.typed, st.rootsN, ?_, hcov, ?_⟩
  · intro r hr
    have := hs r hr
    simp only [finiteRoot, Bool.and_eq_true] at this
    constructor
    · intro l hl; have := this.1; rw [hl] at this; simpa using this
    · intro u hu; have := this.2; rw [hu] at this; simpa using this
  · intro ob hob
    obtain ⟨hq, hl⟩ := st.objIdx ob hob
    refine ⟨?_, hq, hocov ob hob⟩
    intro v hv'
    simp only [Obj.vars, hq, List.map_nil, List.append_nil, List.mem_map] at hv'
    obtain ⟨p, hp, rfl⟩ := hv'
    exact hl p hp

end MpVerif.C01

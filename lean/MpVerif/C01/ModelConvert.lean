import MpVerif.C01.ModelObjective
/-!
# C01 — the reference converter `convert : NLModel → Cfg → ConvOut` (round 5)

A Lean function from an NL model of the fragment (design_notes/C01-proofs.md, "Round 5: reference converter") to the flat model and
the delivered rows, written to mirror the real converter's order:

1. flattening (`ProblemFlattener::Visit*`, `FlatConverter::Convert2Var`, `BasicFCC::Convert` with the expression map):
   objective, algebraic rows, logical rows; post-order, arguments left to right; result variables numbered in creation order;
   bounds/type of every result variable as `PreprocessConstraint` computes them;
2. contexts (`constr_prop_down.h`): merged in reverse creation order from the roots and the objective;
3. conversion (`ConvertAllConstraints`): keeper order, the existing gadget functions, auxiliary variables numbered consecutively.

`NLModel.sat` is the NL semantics (expression trees evaluated directly).  The theorems are in `PropsConvert.lean`.
-/
namespace MpVerif.C01

deriving instance DecidableEq for Fun

/-! ## NL expressions of the fragment -/

mutual
inductive NE where
  | c (q : Rat)
  | v (i : Var)
  | add (a b : NE)
  | mul (k : Rat) (a : NE)
  | abs (a : NE)
  | max (as : NEs)
  | min (as : NEs)
  | ite (cnd : LE) (t e : NE)
  | count (ls : LEs)
inductive NEs where
  | nil
  | cons (a : NE) (t : NEs)
inductive LE where
  | cmp (k : Cmp5) (a b : NE)
  | and (ls : LEs)
  | or (ls : LEs)
  | not (l : LE)
  | iff (a b : LE)          -- `a <==> b`: flattened as the comparison `a - b == 0` of the two result variables
inductive LEs where
  | nil
  | cons (l : LE) (t : LEs)
end

/-- max / min of a non-empty list of values (0 for the empty list, which the fragment excludes) -/
def maxQ : List Rat → Rat
  | [] => 0
  | [a] => a
  | a :: b :: t => if a ≤ maxQ (b :: t) then maxQ (b :: t) else a
def minQ : List Rat → Rat
  | [] => 0
  | [a] => a
  | a :: b :: t => if a ≤ minQ (b :: t) then a else minQ (b :: t)

/- NL semantics: value of a numeric expression; logical expressions evaluate to 0/1 -/
mutual
def NE.eval (x : Asg) : NE → Rat
  | .c q => q
  | .v i => x i
  | .add a b => a.eval x + b.eval x
  | .mul k a => k * a.eval x
  | .abs a => if a.eval x ≤ 0 then - a.eval x else a.eval x
  | .max as => maxQ (as.evals x)
  | .min as => minQ (as.evals x)
  | .ite cnd t e => if cnd.eval x = 1 then t.eval x else e.eval x
  | .count ls => (((ls.evals x).filter (fun q => q != 0)).length : Nat)
def NEs.evals (x : Asg) : NEs → List Rat
  | .nil => []
  | .cons a t => a.eval x :: t.evals x
def LE.eval (x : Asg) : LE → Rat
  | .cmp k a b => b2r (k.holds (a.eval x) (b.eval x))
  | .and ls => b2r ((ls.evals x).all (fun q => q == 1) = true)
  | .or ls => b2r ((ls.evals x).any (fun q => q == 1) = true)
  | .not l => 1 - l.eval x
  | .iff a b => b2r (a.eval x = b.eval x)
def LEs.evals (x : Asg) : LEs → List Rat
  | .nil => []
  | .cons l t => l.eval x :: t.evals x
end

/- every variable leaf is one of the model's variables -/
mutual
def NE.vok (n0 : Nat) : NE → Bool
  | .c _ => true
  | .v i => decide (i < n0)
  | .add a b => a.vok n0 && b.vok n0
  | .mul _ a => a.vok n0
  | .abs a => a.vok n0
  | .max as => as.vok n0
  | .min as => as.vok n0
  | .ite cnd t e => cnd.vok n0 && t.vok n0 && e.vok n0
  | .count ls => ls.vok n0
def NEs.vok (n0 : Nat) : NEs → Bool
  | .nil => true
  | .cons a t => a.vok n0 && t.vok n0
def LE.vok (n0 : Nat) : LE → Bool
  | .cmp _ a b => a.vok n0 && b.vok n0
  | .and ls => ls.vok n0
  | .or ls => ls.vok n0
  | .not l => l.vok n0
  | .iff a b => a.vok n0 && b.vok n0
def LEs.vok (n0 : Nat) : LEs → Bool
  | .nil => true
  | .cons l t => l.vok n0 && t.vok n0
end

/-- an NL model of the fragment -/
structure NLModel where
  n0 : Nat                                   -- number of variables
  B0 : Bnds                                  -- their bounds and types
  obj : Option (Sense × NE) := none
  cons : List (NE × Option Rat × Option Rat) := []
  lcons : List LE := []

/-- the NL model's own semantics: bounds/types, algebraic rows, logical rows -/
def NLModel.sat (m : NLModel) (x : Asg) : Prop :=
  (∀ v, v < m.n0 → inDom m.B0 x v) ∧
  (∀ c ∈ m.cons, inRange c.2.1 c.2.2 (c.1.eval x)) ∧
  (∀ l ∈ m.lcons, l.eval x = 1)

def NLModel.objVal (m : NLModel) (x : Asg) : Rat :=
  match m.obj with
  | some (_, e) => e.eval x
  | none => 0

/-! ## term canonicalisation (`LinTerms::sort_terms`: merge by variable, sort by index, drop zeros) -/

def insTerm (c : Rat) (v : Var) : Lin → Lin
  | [] => [(c, v)]
  | (c', v') :: t =>
    if v < v' then (c, v) :: (c', v') :: t
    else if v = v' then (c + c', v') :: t
    else (c', v') :: insTerm c v t

def normLin (l : Lin) : Lin := (l.foldr (fun p acc => insTerm p.1 p.2 acc) []).filter (fun p => p.1 != 0)

def scaleLin (k : Rat) (l : Lin) : Lin := l.map fun (c, v) => (k * c, v)

/-! ## bounds/type of a new result variable (`PreprocessConstraint`) -/

def optMin2 : Option Rat → Option Rat → Option Rat
  | some a, some b => some (if a ≤ b then a else b)
  | _, _ => none
def optMax2 : Option Rat → Option Rat → Option Rat
  | some a, some b => some (if a ≤ b then b else a)
  | _, _ => none

/-- maximum / minimum where an infinite side is simply absent (`lb_max_array`: the largest lower bound, `-inf` ignored;
`ub_min_array`: the smallest upper bound, `+inf` ignored) -/
def optMaxI : Option Rat → Option Rat → Option Rat
  | some a, some b => some (if a ≤ b then b else a)
  | some a, none => some a
  | none, b => b
def optMinI : Option Rat → Option Rat → Option Rat
  | some a, some b => some (if a ≤ b then a else b)
  | some a, none => some a
  | none, b => b

/-- `common_type`: integer variable, or fixed at an integer value -/
def intLike (i : VarInfo) : Bool := i.isInt || (i.isFixed && isIntQ i.fixedVal)

def lbMax (B : Bnds) : List Var → Option Rat      -- lb_max_array
  | [] => none
  | [a] => (B a).lb
  | a :: t => optMaxI (B a).lb (lbMax B t)
def ubMax (B : Bnds) : List Var → Option Rat      -- ub_array
  | [] => none
  | [a] => (B a).ub
  | a :: t => optMax2 (B a).ub (ubMax B t)
def lbMin (B : Bnds) : List Var → Option Rat      -- lb_array
  | [] => none
  | [a] => (B a).lb
  | a :: t => optMin2 (B a).lb (lbMin B t)
def ubMin (B : Bnds) : List Var → Option Rat      -- ub_min_array
  | [] => none
  | [a] => (B a).ub
  | a :: t => optMinI (B a).ub (ubMin B t)

def resBnd (B : Bnds) : Fun → VarInfo
  | .affine [] c => { lb := some c, ub := some c, isInt := false }        -- MakeFixedVar
  | .affine body c => affBnd B body c
  | .abs a => { lb := some 0, ub := optMax2 ((B a).lb.map (- ·)) (B a).ub, isInt := (B a).isInt }
  | .max as => { lb := lbMax B as, ub := ubMax B as, isInt := as.all fun a => intLike (B a) }
  | .min as => { lb := lbMin B as, ub := ubMin B as, isInt := as.all fun a => intLike (B a) }
  | .ifthen _ t e => { lb := optMin2 (B t).lb (B e).lb, ub := optMax2 (B t).ub (B e).ub,
                       isInt := intLike (B t) && intLike (B e) }
  | .count as => { lb := some 0, ub := some (as.length : Nat), isInt := true }
  | _ => VarInfo.binary

/-! ## flattening -/

/-- flattening state: next free variable index, definitions in creation order (contexts filled in later), bounds -/
structure FS where
  next : Nat
  defs : List Def
  B : Bnds

def setB (B : Bnds) (v : Var) (i : VarInfo) : Bnds := fun w => if w = v then i else B w

/-- `BasicFCC::Convert`: expression map lookup, else a new result variable with the preprocessed bounds -/
def mkDef (f : Fun) (S : FS) : Var × FS :=
  match S.defs.find? (fun d => d.f = f) with
  | some d => (d.res, S)
  | none => (S.next, { next := S.next + 1, defs := S.defs ++ [⟨S.next, .none, f⟩], B := setB S.B S.next (resBnd S.B f) })

/-- `Convert2Var(affine expression)`: the terms stay in flattening order, unmerged (`is_variable` / `is_constant` and the
expression-map key of the LinearFunctionalConstraint see the raw terms) -/
def aff2varL (l : Lin) (c0 : Rat) (S : FS) : Var × FS :=
  match l with
  | [(c, v)] => if c = 1 ∧ c0 = 0 then (v, S) else mkDef (.affine [(c, v)] c0) S
  | l => mkDef (.affine l c0) S
def aff2var (p : Lin × Rat) (S : FS) : Var × FS := aff2varL p.1 p.2 S

/-- `PreprocessConstraint(ConditionalConstraint)`: a body whose first coefficient (after sorting) is negative is negated
together with the comparison (`IsNormalized` / `negate`); for `==` only the terms and the right-hand side are negated -/
def flipCmp : Cmp5 → Cmp5
  | .lt => .gt | .le => .ge | .eq => .eq | .ge => .le | .gt => .lt

def normCmp (neg : Bool) (k : Cmp5) (body : Lin) (rhs : Rat) : Fun :=
  if neg then .condLin (flipCmp k) (negLin body) (-rhs) else .condLin k body rhs

/-- `LinTerms::sort_terms` re-sorts only when there is a zero coefficient or a repeated variable; `is_normalized` then looks at
the first coefficient: of the re-sorted terms in that case, of the terms in flattening order otherwise -/
def needsSort : Lin → Bool
  | [] => false
  | (c, v) :: t => c == 0 || t.any (fun p => p.2 == v) || needsSort t

/-- body of a comparison after `lhs.sort_terms()` -/
def condBody (raw : Lin) : Lin := if needsSort raw then normLin raw else raw

def leadNeg (raw : Lin) : Bool :=
  match (if needsSort raw then normLin raw else raw) with
  | (c, _) :: _ => decide (c < 0)
  | [] => false

mutual
def flatN : NE → FS → (Lin × Rat) × FS
  | .c q, S => (([], q), S)
  | .v i, S => (([(1, i)], 0), S)
  | .add a b, S =>
    let r1 := flatN a S
    let r2 := flatN b r1.2
    ((r1.1.1 ++ r2.1.1, r1.1.2 + r2.1.2), r2.2)
  | .mul k a, S =>
    let r1 := flatN a S
    ((scaleLin k r1.1.1, k * r1.1.2), r1.2)
  | .abs a, S =>
    let r1 := flatN a S
    let r2 := aff2var r1.1 r1.2
    let r3 := mkDef (.abs r2.1) r2.2
    (([(1, r3.1)], 0), r3.2)
  | .max as, S =>
    let r1 := flatNs as S
    let r3 := mkDef (.max r1.1) r1.2
    (([(1, r3.1)], 0), r3.2)
  | .min as, S =>
    let r1 := flatNs as S
    let r3 := mkDef (.min r1.1) r1.2
    (([(1, r3.1)], 0), r3.2)
  | .ite cnd t e, S =>
    let rc := flatL cnd S
    let rt := flatN t rc.2
    let vt := aff2var rt.1 rt.2
    let re := flatN e vt.2
    let ve := aff2var re.1 re.2
    let r3 := mkDef (.ifthen rc.1 vt.1 ve.1) ve.2
    (([(1, r3.1)], 0), r3.2)
  | .count ls, S =>
    let r1 := flatLs ls S
    let r3 := mkDef (.count r1.1) r1.2
    (([(1, r3.1)], 0), r3.2)
def flatNs : NEs → FS → List Var × FS
  | .nil, S => ([], S)
  | .cons a t, S =>
    let r1 := flatN a S
    let r2 := aff2var r1.1 r1.2
    let r3 := flatNs t r2.2
    (r2.1 :: r3.1, r3.2)
def flatL : LE → FS → Var × FS
  | .cmp k a b, S =>
    let r1 := flatN a S
    let r2 := flatN b r1.2
    mkDef (normCmp (leadNeg (r1.1.1 ++ negLin r2.1.1)) k (condBody (r1.1.1 ++ negLin r2.1.1)) (r2.1.2 - r1.1.2)) r2.2
  | .and ls, S =>
    let r1 := flatLs ls S
    mkDef (.and r1.1) r1.2
  | .or ls, S =>
    let r1 := flatLs ls S
    mkDef (.or r1.1) r1.2
  | .not l, S =>
    let r1 := flatL l S
    mkDef (.not r1.1) r1.2
  | .iff a b, S =>        -- VisitIff = VisitRelationalExpression<EQ>: the same path as `==` on the two result variables
    let r1 := flatL a S
    let r2 := flatL b r1.2
    mkDef (normCmp (leadNeg ([(1, r1.1)] ++ negLin [(1, r2.1)])) .eq (condBody ([(1, r1.1)] ++ negLin [(1, r2.1)])) (0 - 0)) r2.2
def flatLs : LEs → FS → List Var × FS
  | .nil, S => ([], S)
  | .cons l t, S =>
    let r1 := flatL l S
    let r3 := flatLs t r1.2
    (r1.1 :: r3.1, r3.2)
end

/-- algebraic rows: body merged/sorted, the constant moved into the bounds -/
def flatCons : List (NE × Option Rat × Option Rat) → FS → List Root × FS
  | [], S => ([], S)
  | (e, lb, ub) :: t, S =>
    let r1 := flatN e S
    let r2 := flatCons t r1.2
    (⟨normLin r1.1.1, lb.map (· - r1.1.2), ub.map (· - r1.1.2)⟩ :: r2.1, r2.2)

/-- logical rows: result variable required true (`FixAsTrue`: root `1 ≤ res`) -/
def flatLCons : List LE → FS → List Root × FS
  | [], S => ([], S)
  | l :: t, S =>
    let r1 := flatL l S
    let r2 := flatLCons t r1.2
    (⟨[(1, r1.1)], some 1, none⟩ :: r2.1, r2.2)

/-- objective: a non-zero constant becomes a term on the fixed variable of that value -/
def flatObj : Option (Sense × NE) → FS → Option Obj × FS
  | none, S => (none, S)
  | some (s, e), S =>
    let r1 := flatN e S
    if r1.1.2 = 0 then (some { sense := s, lin := normLin r1.1.1 }, r1.2)
    else
      let r2 := mkDef (.affine [] r1.1.2) r1.2
      (some { sense := s, lin := normLin (r1.1.1 ++ [(1, r2.1)]) }, r2.2)

/-! ## contexts: merge in reverse creation order -/

def addUses (need : Var → Ctx) (uses : List (Var × Ctx)) : Var → Ctx :=
  fun v => uses.foldl (fun c p => if p.1 = v then c.add p.2 else c) (need v)

/-- `defsRev`: definitions in reverse creation order; returns them (still reversed) with their final contexts -/
def assignCtx (B : Bnds) : List Def → (Var → Ctx) → List Def
  | [], _ => []
  | d :: t, need =>
    let cx := need d.res
    ⟨d.res, cx, d.f⟩ :: assignCtx B t (addUses need (propFun B cx.eff d.f))

def rootUses (roots : List Root) (obj : Option Obj) : List (Var × Ctx) :=
  roots.flatMap (fun r => propRangeLin r.body r.lb r.ub) ++
  (match obj with | some o => propLin (objCtx o.sense) o.lin | none => [])

/-! ## conversion -/

inductive Acc where
  | native | linear
deriving DecidableEq, Repr, Inhabited

structure Cfg where
  acc : Acc := .linear
  opts : Opts := {}

/-- the functional types of the fragment -/
def Fun.inFrag : Fun → Bool
  | .affine _ _ | .abs _ | .max _ | .min _ | .and _ | .or _ | .not _ | .ifthen _ _ _ | .condLin _ _ _ | .count _ => true
  | _ => false

/-- keeper order of `ConvertAllConstraints` for the fragment's types -/
def Fun.rank : Fun → Nat
  | .affine _ _ => 0 | .max _ => 1 | .min _ => 2 | .abs _ => 3 | .and _ => 4 | .or _ => 5
  | .condLin .eq _ _ => 6 | .condLin .le _ _ => 7 | .condLin .lt _ _ => 8 | .condLin .ge _ _ => 9 | .condLin .gt _ _ => 10
  | .not _ => 11 | .ifthen _ _ _ => 12 | .count _ => 13 | _ => 14

/-- `Not` whose argument is fixed (at conversion time): `AssignResultVar2Args` of the affine expression `1 - arg` returns the
constant variable of `MakeFixedVar` (continuous, fixed at `1 - c`), no functional row; only the equality row `res = k` is added -/
def gNotFixed (res arg : Var) (B : Bnds) (n : Nat) : Out :=
  let c := (B arg).fixedVal
  { vars := [{ lb := some (1 - c), ub := some (1 - c), isInt := false }], cons := [.linRhs .eq [(-1, res), (1, n)] 0] }

/-- the gadget of one definition (existing gadget functions; `n` = number of variables existing) -/
def gadgetOf (d : Def) (B : Bnds) (o : Opts) (n : Nat) : Out :=
  match d.f with
  | .affine body c => gLFC d.res body c
  | .abs a => gAbs d.res a d.ctx B n
  | .max as => gMax d.res as d.ctx B n
  | .min as => gMin d.res as d.ctx B n
  | .and as => gAnd d.res as d.ctx B n
  | .or as => gOr d.res as d.ctx B n
  | .not a => if (B a).isFixed then gNotFixed d.res a B n else gNot d.res a B n
  | .ifthen c t e => gIfThen d.res c t e B n
  | .condLin .eq body rhs => gCondEq d.res body rhs d.ctx B o n
  | .condLin k body rhs => gCondIneq k d.res body rhs d.ctx B o n
  | .count as => gCount d.res as B n
  | _ => { unmodelled := true }

def isBin01 (i : VarInfo) : Bool := decide (i = VarInfo.binary)

/-- lowering of the rows a gadget emits when only linear rows are accepted: indicators → big-M rows,
nested linear functional constraints → their equality row -/
def lowerCon (B : Bnds) (o : Opts) : Con → Out
  | .indLin b bv k body rhs =>
    if decide (bv ≤ 1) && isBin01 (B b) then
      (match k with
       | .le => gIndLE b bv body rhs B o
       | .ge => gIndGE b bv body rhs B o
       | .eq => gIndEQ b bv body rhs B o)
    else { cons := [.indLin b bv k body rhs] }
  | .func r .none (.affine body c) => gLFC r body c
  | k => { cons := [k] }

def lowerCons (B : Bnds) (o : Opts) : List Con → Out
  | [] => {}
  | c :: t =>
    let o1 := lowerCon B o c
    let o2 := lowerCons B o t
    match o1.refusal, o2.refusal with
    | some r, _ => { refusal := some r }
    | _, some r => { refusal := some r }
    | none, none => { cons := o1.cons ++ o2.cons, unmodelled := o1.unmodelled || o2.unmodelled }

/-- bounds extended by the auxiliary variables `n, n+1, …` of a gadget -/
def extB (B : Bnds) (n : Nat) : List VarInfo → Bnds
  | [] => B
  | i :: t => extB (setB B n i) (n + 1) t

/-- one delivered block: the definition, the rows, the auxiliary range -/
structure Block where
  d : Def
  vars : List VarInfo      -- auxiliary variables created
  cons : List Con          -- delivered rows
  raw : List Con := []     -- the rows the gadget emitted (before lowering)
  lo : Nat
  native : Bool            -- delivered as the functional constraint itself
  refusal : Option Refusal := none
  unmodelled : Bool := false
  removed : Bool := false  -- definition marked unused (`DecrementVarUsage` to zero): nothing is delivered for it

def isConst (d : Def) : Bool := match d.f with | .affine [] _ => true | _ => false
def isAffine (d : Def) : Bool := match d.f with | .affine _ _ => true | _ => false

/-- convert the definitions (already in conversion order) -/
def convDefs (cfg : Cfg) : List Def → Bnds → Nat → List Block
  | [], _, _ => []
  | d :: t, B, n =>
    if isConst d then
      { d := d, vars := [], cons := [], lo := n, native := false } :: convDefs cfg t B n
    else if cfg.acc = .native && !isAffine d then
      { d := d, vars := [], cons := [.func d.res d.ctx d.f], lo := n, native := true } :: convDefs cfg t B n
    else
      let g := gadgetOf d B cfg.opts n
      let B' := extB B n g.vars
      let low : Out := if cfg.acc = .linear then lowerCons B' cfg.opts g.cons else { cons := g.cons }
      { d := d, vars := g.vars, cons := low.cons, raw := g.cons, lo := n, native := false,
        refusal := (match g.refusal with | some r => some r | none => low.refusal),
        unmodelled := g.unmodelled || low.unmodelled } :: convDefs cfg t B' (n + g.vars.length)

/-- stable insertion sort by keeper rank -/
def insRank (d : Def) : List Def → List Def
  | [] => [d]
  | e :: t => if d.f.rank ≤ e.f.rank then d :: e :: t else e :: insRank d t
def sortRank (l : List Def) : List Def := l.foldr insRank []

/-! ## downward bound propagation from the logical rows

`FixAsTrue(res)` is `PropagateResultOfInitExpr(res, 1, 1, +)`: the result variable's bounds are narrowed to `1..1` and the
definition's `PropagateResult` (constr_prop_down.h) passes bounds on: `Not` gives its argument `1-ub..1-lb`; `And` gives its
arguments `lb..1` (a fixing only for `lb = 1`) and, for `lb > 1/2`, decrements the usage count of its result; `Or` gives `0..ub`
and decrements for `ub ≤ 1/2`; every other type narrows nothing below it.  Since only 0/1 variables are narrowed, every
narrowing is a fixing; the propagation is computed here as a closure in reverse creation order (arguments have smaller
indices than results, so every fact about a result is known when its definition is visited). -/

/-- `(v, c, j)`: logical row number `j` fixes variable `v` at `c`; one fact per `PropagateResult` call that fixes -/
abbrev Fact := Var × Rat × Nat

def propDown (d : Def) (c : Rat) (j : Nat) : List Fact :=
  match d.f with
  | .not a => [(a, 1 - c, j)]
  | .and as => if c = 1 then as.map (fun a => (a, 1, j)) else []
  | .or as => if c = 0 then as.map (fun a => (a, 0, j)) else []
  | _ => []

/-- `defsRev`: definitions in reverse creation order -/
def narrowFacts : List Def → List Fact → List Fact
  | [], F => F
  | d :: t, F => narrowFacts t (F ++ (F.filter (fun f => f.1 = d.res)).flatMap (fun f => propDown d f.2.1 f.2.2))

def rootFacts : List Var → Nat → List Fact
  | [], _ => []
  | r :: t, j => (r, 1, j) :: rootFacts t (j + 1)

def factOf (F : List Fact) (v : Var) : Option Rat := (F.find? (fun f => f.1 = v)).map (·.2.1)

/-- the earliest logical row that fixes `v` -/
def rowOf (F : List Fact) (v : Var) : Nat :=
  match (F.filter (fun f => f.1 = v)).map (·.2.2) with
  | [] => 0
  | j :: t => t.foldl min j

/-- two propagation calls ask for different values: `NarrowVarBounds` throws "Model infeasible: empty variable domain" -/
def factsConflict (F : List Fact) : Bool := F.any fun f => F.any fun g => f.1 = g.1 && f.2.1 != g.2.1

/-- bounds after the propagation: a fixed variable keeps its type -/
def narrowB (B : Bnds) (F : List Fact) : Bnds :=
  fun v => match factOf F v with
    | some c => { lb := some c, ub := some c, isInt := (B v).isInt }
    | none => B v

/-- number of references to a variable: as an argument of a definition, as a logical row, in an algebraic row, in the objective -/
def nRefs (defs : List Def) (fixTrue : List Var) (roots : List Root) (obj : Option Obj) (v : Var) : Nat :=
  (defs.flatMap (·.f.vars)).count v + fixTrue.count v + (roots.flatMap (fun r => r.body.map (·.2))).count v +
  (match obj with | some o => (o.lin.map (·.2)).count v | none => 0)

/-- `And` fixed true / `Or` fixed false with a single reference: that reference propagated the fixing, the usage count drops to
zero, the definition is marked unused and not converted (`FixUnusedDefinedVars` then sets the variable's bounds to `0..0`) -/
def removedDef (F : List Fact) (nref : Var → Nat) (d : Def) : Bool :=
  (match d.f with
   | .and as => factOf F d.res == some 1 && as.all (fun a => factOf F a == some 1)
   | .or as => factOf F d.res == some 0 && as.all (fun a => factOf F a == some 0)
   | _ => false) && nref d.res == 1

/-- output of the reference converter -/
structure ConvOut where
  n0 : Nat
  N : Nat                    -- original + result variables
  M : Nat                    -- … + auxiliary variables
  B0 : Bnds                  -- bounds/types of original and result variables as created (before any propagation)
  B : Bnds                   -- bounds/types of all variables `< M` in the delivered model: `B0` narrowed by the propagation from the
                             --   logical rows, extended by the auxiliary variables of the gadgets
  defs : List Def            -- creation order, final contexts
  roots : List Root          -- algebraic rows, then `1 ≤ res` per logical row (the NL side of the theorems)
  rootsD : List Root         -- the delivered rows among them: the algebraic rows (a logical row is delivered as the bound `1..1`)
  obj : Option Obj
  B1 : Bnds                  -- `B0` narrowed by the propagation (original and result variables)
  kept : List Block          -- the blocks of the definitions still in use, conversion order
  blocks : List Block        -- the removed definitions (nothing delivered), then `kept`
  fixTrue : List Var         -- result variables of the logical rows, in row order
  facts : List Fact          -- the fixings of the downward propagation
  infeasible : Bool          -- the propagation met contradicting fixings ("Model infeasible: empty variable domain")

/-- flattening of the whole model: objective, algebraic rows, logical rows -/
structure FlatAll where
  obj : Option Obj
  croots : List Root
  lroots : List Root
  S : FS

def flatAll (m : NLModel) : FlatAll :=
  let S0 : FS := { next := m.n0, defs := [], B := m.B0 }
  let ro := flatObj m.obj S0
  let rc := flatCons m.cons ro.2
  let rl := flatLCons m.lcons rc.2
  { obj := ro.1, croots := rc.1, lroots := rl.1, S := rl.2 }

/-- the definitions with their final contexts -/
def ctxDefs (B : Bnds) (defs : List Def) (roots : List Root) (obj : Option Obj) : List Def :=
  (assignCtx B defs.reverse (addUses (fun _ => .none) (rootUses roots obj))).reverse

def convert (m : NLModel) (cfg : Cfg) : ConvOut :=
  let fa := flatAll m
  let roots := fa.croots ++ fa.lroots
  let defs := ctxDefs fa.S.B fa.S.defs roots fa.obj
  let fixTrue := fa.lroots.flatMap (fun r => r.body.map (·.2))
  let F := narrowFacts defs.reverse (rootFacts fixTrue 0)
  let B1 := narrowB fa.S.B F
  let rm := removedDef F (nRefs defs fixTrue fa.croots fa.obj)
  let kept := convDefs cfg (sortRank (defs.filter (fun d => !rm d))) B1 fa.S.next
  let blocks := (defs.filter rm).map (fun d =>
    ({ d := d, vars := [], cons := [], lo := fa.S.next, native := false, removed := true } : Block)) ++ kept
  { n0 := m.n0, N := fa.S.next, M := fa.S.next + (kept.map (·.vars.length)).sum,
    B0 := fa.S.B, B1 := B1, B := kept.foldl (fun B b => extB B b.lo b.vars) B1,
    defs := defs, roots := roots, rootsD := fa.croots, obj := fa.obj, kept := kept, blocks := blocks,
    fixTrue := fixTrue, facts := F, infeasible := factsConflict F }

/-! ## inputs on which the real converter takes a preprocessing path this reference converter does not mirror
(the correspondence skips and counts them; the theorems do not depend on this flag) -/

def defOf (defs : List Def) (v : Var) : Option Def := defs.find? (fun d => d.res = v)

def shortcutDef (B : Bnds) (defs : List Def) (d : Def) : Bool :=
  match d.f with
  | .abs a => lbGE0 (B a) || ubLE0 (B a)
  | .and as => as.any fun a => (B a).isFixed || (match defOf defs a with | some ⟨_, _, Fun.and _⟩ => true | _ => false)
  | .or as => as.any fun a => (B a).isFixed || (match defOf defs a with | some ⟨_, _, Fun.or _⟩ => true | _ => false)
  | .condLin k body rhs =>
    let bn := linBnd B body
    body.isEmpty || !isIntQ rhs ||
    (match bn.1 with | some l => decide (rhs < l) || (k == .eq && bn.2.1 == some l && l == rhs) | none => false) ||
    (match bn.2.1 with | some u => decide (u < rhs) | none => false) ||
    (k == .eq && (match body with | [(_, v)] => (B v).isBinary | _ => false))
  | _ => false

/-- the logical arguments of a definition -/
def logicalArgs : Fun → List Var
  | .and as => as | .or as => as | .not a => [a] | .ifthen c _ _ => [c] | .count as => as | _ => []

/-- the functional types with a 0/1 result -/
def isLogicalFun : Fun → Bool
  | .and _ | .or _ | .not _ | .condLin _ _ _ => true
  | _ => false

/-- timing of the propagation.  The reference converter computes the fixings after the whole flattening; the real one fixes after
each logical row, and a definition *flattened later* (created, or found in the expression map — `PreprocessConstraint` runs before
the map lookup) sees the fixed arguments and is simplified (constant result, fixed arguments dropped).  A definition with a fixed
logical argument is therefore mirrored only when it is an and/or/not whose own result is fixed, which is referenced exactly once
(so, recursively, flattened exactly once: in the logical row that fixes it), and none of whose arguments was fixed by an earlier
logical row. -/
def timingShortcut (F : List Fact) (nref : Var → Nat) (d : Def) : Bool :=
  let fixedArgs := (logicalArgs d.f).filter (fun a => (factOf F a).isSome)
  !fixedArgs.isEmpty &&
  !((match d.f with | .and _ => true | .or _ => true | .not _ => true | _ => false) &&
    (factOf F d.res).isSome && nref d.res == 1 && fixedArgs.all (fun a => decide (rowOf F d.res ≤ rowOf F a)))

/-- `MakeFixedVar` keeps a map value → variable: a second request for the same constant reuses the variable.  Requests come from
constants of the expressions (definitions `affine [] c`) and, under the linear acceptance set, from `Not` with a fixed argument. -/
def constShortcut (o : ConvOut) : Bool :=
  let nots : List Rat := o.blocks.filterMap (fun b => match b.d.f with
    | .not a => if !b.removed && !b.native && (o.B a).isFixed then some (1 - (o.B a).fixedVal) else none
    | _ => none)
  let consts : List Rat := o.defs.filterMap (fun d => match d.f with | .affine [] c => some c | _ => none)
  nots.any (fun c => decide (2 ≤ (nots ++ consts).count c))

/-- a delivered row, algebraic row or the objective mentions the result variable of a removed definition.  The real converter
leaves that variable with the bounds `0..0` (`FixUnusedDefinedVars`) whatever value the propagation gave it — when something
delivered still reads it (a natively accepted `Not` whose argument is a removed `And`), the real delivered model is wrong
(known finding C01-result-var-usage-count); in the theorems the variable keeps its propagated value. -/
def removedRef (o : ConvOut) : Bool :=
  let rem := (o.blocks.filter (·.removed)).map (·.d.res)
  o.kept.any (fun b => b.cons.any (fun c => c.vars.any (fun v => rem.contains v))) ||
  o.rootsD.any (fun r => r.body.any (fun p => rem.contains p.2)) ||
  (match o.obj with | some ob => ob.lin.any (fun p => rem.contains p.2) | none => false)

/-- further paths of the real converter not mirrored (see design notes, rounds 5 and 6): the timing of the downward propagation,
shared `MakeFixedVar` constants, the unary-encoding treatment of `var == const` (`ConvertMaps`), results whose created bounds are a
point (`MakeFixedVar` instead of a definition) -/
def ConvOut.shortcut2 (o : ConvOut) (linear : Bool) : Bool :=
  o.defs.any (timingShortcut o.facts (nRefs o.defs o.fixTrue o.rootsD o.obj)) ||
  (linear && constShortcut o) || removedRef o ||
  o.defs.any (fun d => match d.f with
    | .condLin .eq [(_, v)] _ => (o.B0 v).isInt
    | .affine [] _ => false
    | f => (resBnd o.B0 f).isFixed)

def ConvOut.shortcut (o : ConvOut) (linear : Bool := false) : Bool :=
  o.defs.any (shortcutDef o.B0 o.defs) || o.blocks.any (·.unmodelled) || o.shortcut2 linear

def ConvOut.refusal (o : ConvOut) : Option Refusal :=
  (o.blocks.find? (fun b => b.refusal.isSome)).bind (·.refusal)

/-- syntactic/bounds conditions of the fragment that `convert` itself can decide on its output -/
def finiteVI (i : VarInfo) : Bool :=
  match i.lb, i.ub with
  | some l, some u => decide (-pracInf < l) && decide (l ≤ u) && decide (u < pracInf)
  | _, _ => false


/-! ## decidable well-formedness checks of the converter's own output (membership in the fragment) -/

/-- result bounds as created, fragment type, logical arguments binary -/
def typedDef (B : Bnds) (d : Def) : Bool :=
  decide (B d.res = resBnd B d.f) && d.f.inFrag &&
  (match d.f with
   | .and as => as.all (fun a => isBin01 (B a))
   | .or as => as.all (fun a => isBin01 (B a))
   | .count as => as.all (fun a => isBin01 (B a))
   | .not a => isBin01 (B a)
   | .ifthen c _ _ => isBin01 (B c)
   | _ => true)

/-- extra conditions of the linear acceptance set: max/min non-empty; comparisons with non-empty integer-typed bodies and an
integer right-hand side (then the `ComparisonEps = 1` reformulation is exact) -/
def linDefOK (B : Bnds) (d : Def) : Bool :=
  match d.f with
  | .max as => !as.isEmpty
  | .min as => !as.isEmpty
  | .condLin _ body rhs => !body.isEmpty && (linBnd B body).2.2 && isIntQ rhs
  | _ => true

def finiteRoot (r : Root) : Bool :=
  (match r.lb with | some l => decide (-pracInf < l) | none => true) &&
  (match r.ub with | some u => decide (u < pracInf) | none => true)

def ConvOut.checks (m : NLModel) (o : ConvOut) : Bool :=
  wfB o.n0 o.defs && decide (o.n0 ≤ o.N) &&
  o.defs.all (fun d => decide (d.res < o.N)) &&
  (List.range' o.n0 (o.N - o.n0)).all (fun v => isDefined o.defs v) &&
  (List.range o.n0).all (fun v => decide (o.B0 v = m.B0 v)) &&
  o.defs.all (typedDef o.B0) &&
  o.roots.all (fun r => r.body.all (fun p => decide (p.2 < o.N)) && finiteRoot r) &&
  (ctxGaps o.B0 o.defs o.roots).isEmpty &&
  (match o.obj with
   | some ob => ob.lin.all (fun p => decide (p.2 < o.N)) && ob.quad.isEmpty && (objGaps o.B0 o.defs ob).isEmpty
   | none => true)

/-- additional checks for the linear acceptance set: no gadget refused (all big-M constants finite), `cvt:bigM` unset,
comparisons integer, max/min non-empty, and the rows a gadget emitted mention only original/result variables and the block's
own auxiliary variables -/
def Block.localRows (N : Nat) (b : Block) : Bool :=
  b.raw.all fun c => c.vars.all fun v => decide (v < N) || (decide (b.lo ≤ v) && decide (v < b.lo + b.vars.length))

def ConvOut.checksLin (o : ConvOut) (cfg : Cfg) : Bool :=
  decide (cfg.opts.bigM ≤ 0) && o.blocks.all (fun b => b.refusal.isNone && b.localRows o.N) &&
  o.defs.all (linDefOK o.B)

/-- the non-structural part of `checks`: finite root data (the structural part — creation order, defined indices, bounds as
created, typing, covering contexts — is proved to hold for every input, `checked_of_vok`) -/
def ConvOut.checksSem (o : ConvOut) : Bool := o.roots.all finiteRoot && !o.infeasible

/-- syntactic part of the fragment: every variable leaf is a variable of the model -/
def NLModel.vok (m : NLModel) : Bool :=
  m.cons.all (fun c => c.1.vok m.n0) && m.lcons.all (fun l => l.vok m.n0) &&
  (match m.obj with | some (_, e) => e.vok m.n0 | none => true)

end MpVerif.C01

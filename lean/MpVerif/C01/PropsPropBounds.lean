import MpVerif.C01.ModelConvert
import MpVerif.Gen.C01PropBounds
/-!
# C01 — the downward propagation of the reference converter = the bounds `PropagateResult` hands down (round 8)

`MpVerif.Gen.C01PropBounds` is generated on every run from include/mp/flat/constr_prop_down.h: for every
`PropagateResult(<Constraint>&, lb, ub, ctx)` overload the bound expressions of each propagation call as executable functions of
`(lb, ub)`, the guard of `DecrementVarUsage`, and the bound pairs the helpers `PropagateResult2Vars` / `PropagateResult2LinTerms` /
`PropagateIfThenResultIntoCondition` pass on.  The theorems below say that `propDown` (ModelConvert.lean) — the rule the proved
reference converter uses to fix arguments from a fixed result — is exactly what those generated functions give for a 0/1 variable,
for every fixing `c ∈ {0,1}`, every argument list and every row number; and that the usage count is decremented exactly where
`removedDef` looks for a removable definition.  A change of a bound expression, of a guard or of a helper in the header changes the
generated definitions and breaks these proofs.

Not translated (chosen by hand below): which helper `PropagateResult2Args` resolves to (`Vars` for argument arrays, `LinTerms` for
linear bodies — C++ overload resolution), and that `NarrowVarBounds` intersects with the current bounds (`fixOf01`).
-/
namespace MpVerif.C01
open MpVerif.Gen.C01PropBounds

/-- what `NarrowVarBounds(v, lb, ub)` makes of a 0/1 variable: fixed at 1 if `lb ≥ 1`, fixed at 0 if `ub ≤ 0`, else not fixed -/
def fixOf01 (b : Option Rat × Option Rat) : Option Rat :=
  match b.1, b.2 with
  | some l, some u => if 1 ≤ l then some 1 else if u ≤ 0 then some 0 else none
  | some l, none => if 1 ≤ l then some 1 else none
  | none, some u => if u ≤ 0 then some 0 else none
  | none, none => none

/-- bound pairs of the calls of an overload (callee and target text dropped) -/
def callBounds (cs : List (String × String × Option Rat × Option Rat)) : List (Option Rat × Option Rat) :=
  cs.map (fun c => (c.2.2.1, c.2.2.2))

/-- facts for one argument from the bound pairs it receives -/
def factsFor (a : Var) (j : Nat) (bs : List (Option Rat × Option Rat)) : List Fact :=
  bs.filterMap (fun b => (fixOf01 b).map (fun v => (a, v, j)))

theorem rat_arith : ((1 : Rat) - 0 = 1) ∧ ((1 : Rat) - 1 = 0) := by
  constructor <;> decide +kernel

theorem C01_gen_propbounds_not (r a : Var) (cx : Ctx) (c : Rat) (j : Nat) (hc : c = 0 ∨ c = 1) :
    propDown ⟨r, cx, .not a⟩ c j = factsFor a j (callBounds (calls_NotConstraint c c)) := by
  obtain ⟨e0, e1⟩ := rat_arith
  have h10 : ¬ ((1 : Rat) ≤ 0) := by decide +kernel
  rcases hc with h | h <;> subst h
  · simp [propDown, factsFor, callBounds, calls_NotConstraint, fixOf01, e0, Rat.le_refl]
  · simp [propDown, factsFor, callBounds, calls_NotConstraint, fixOf01, e1, h10, Rat.le_refl]

theorem rat_facts : ¬ ((1 : Rat) ≤ 0) ∧ (1 : Rat) ≤ 1 ∧ (0 : Rat) ≤ 0 ∧ ¬ ((0 : Rat) = 1) ∧ ¬ ((1 : Rat) = 0) := by
  refine ⟨by decide +kernel, Rat.le_refl, Rat.le_refl, by decide +kernel, by decide +kernel⟩

theorem C01_gen_propbounds_and (r : Var) (as : List Var) (cx : Ctx) (c : Rat) (j : Nat) (hc : c = 0 ∨ c = 1) :
    propDown ⟨r, cx, .and as⟩ c j =
      as.flatMap (fun a => factsFor a j ((callBounds (calls_AndConstraint c c)).flatMap
        (fun b => helper_PropagateResult2Vars b.1 b.2))) := by
  obtain ⟨h10, h11, h00, h01, h1n⟩ := rat_facts
  rcases hc with h | h <;> subst h
  · simp only [propDown, h01, if_false]
    induction as with
    | nil => rfl
    | cons a t ih =>
      simp only [List.flatMap_cons, ← ih]
      simp [factsFor, callBounds, calls_AndConstraint, helper_PropagateResult2Vars, fixOf01, h10]
  · simp only [propDown, if_true]
    induction as with
    | nil => rfl
    | cons a t ih =>
      simp only [List.flatMap_cons, List.map_cons, ih]
      simp [factsFor, callBounds, calls_AndConstraint, helper_PropagateResult2Vars, fixOf01, h11]

theorem C01_gen_propbounds_or (r : Var) (as : List Var) (cx : Ctx) (c : Rat) (j : Nat) (hc : c = 0 ∨ c = 1) :
    propDown ⟨r, cx, .or as⟩ c j =
      as.flatMap (fun a => factsFor a j ((callBounds (calls_OrConstraint c c)).flatMap
        (fun b => helper_PropagateResult2Vars b.1 b.2))) := by
  obtain ⟨h10, h11, h00, h01, h1n⟩ := rat_facts
  rcases hc with h | h <;> subst h
  · simp only [propDown, if_true]
    induction as with
    | nil => rfl
    | cons a t ih =>
      simp only [List.flatMap_cons, List.map_cons, ih]
      simp [factsFor, callBounds, calls_OrConstraint, helper_PropagateResult2Vars, fixOf01, h10, h00]
  · simp only [propDown, h1n, if_false]
    induction as with
    | nil => rfl
    | cons a t ih =>
      simp only [List.flatMap_cons, ← ih]
      simp [factsFor, callBounds, calls_OrConstraint, helper_PropagateResult2Vars, fixOf01, h10]

/-- conditional comparisons (`==`: `CondLinConEQ`, the others: `ConditionalConstraint<…>`): whatever bounds the overload passes,
`PropagateResult2LinTerms` hands ±inf to the body variables — nothing is fixed below a comparison -/
theorem C01_gen_propbounds_condlin (r : Var) (k : Cmp5) (body : Lin) (rhs : Rat) (cx : Ctx) (c : Rat) (j : Nat) :
    propDown ⟨r, cx, .condLin k body rhs⟩ c j = [] ∧
    (((callBounds (calls_CondLinConEQ c c)).flatMap (fun b => helper_PropagateResult2LinTerms b.1 b.2)).all
      (fun b => (fixOf01 b).isNone) = true) ∧
    (((callBounds (calls_ConditionalConstraint_AlgebraicConstraint_Body_AlgConRhs_kind c c)).flatMap
      (fun b => helper_PropagateResult2LinTerms b.1 b.2)).all (fun b => (fixOf01 b).isNone) = true) := by
  refine ⟨rfl, ?_, ?_⟩ <;>
    simp [callBounds, calls_CondLinConEQ, calls_ConditionalConstraint_AlgebraicConstraint_Body_AlgConRhs_kind,
      helper_PropagateResult2LinTerms, fixOf01]

/-- if-then-else: the condition receives `0..1`, the branches ±inf — nothing is fixed -/
theorem C01_gen_propbounds_ifthen (r cnd t e : Var) (cx : Ctx) (c : Rat) (j : Nat) :
    propDown ⟨r, cx, .ifthen cnd t e⟩ c j = [] ∧
    ((callBounds (calls_IfThenConstraint c c) ++ helper_PropagateIfThenResultIntoCondition (some c) (some c)).all
      (fun b => (fixOf01 b).isNone) = true) := by
  refine ⟨rfl, ?_⟩
  simp [callBounds, calls_IfThenConstraint, helper_PropagateIfThenResultIntoCondition, fixOf01]
  decide +kernel

/-- every other type of the fragment (abs, max, min, count; linear functional constraints) goes through the default overload
resp. the LFC overload: ±inf to every argument -/
theorem C01_gen_propbounds_default (c : Rat) :
    ((callBounds (calls_Constraint c c)).flatMap (fun b => helper_PropagateResult2Vars b.1 b.2)).all
      (fun b => (fixOf01 b).isNone) = true ∧
    ((callBounds (calls_LinearFunctionalConstraint c c)).flatMap (fun b => helper_PropagateResult2LinTerms b.1 b.2)).all
      (fun b => (fixOf01 b).isNone) = true ∧
    (∀ (r a : Var) (cx : Ctx) (j : Nat), propDown ⟨r, cx, .abs a⟩ c j = []) ∧
    (∀ (r : Var) (as : List Var) (cx : Ctx) (j : Nat), propDown ⟨r, cx, .max as⟩ c j = [] ∧ propDown ⟨r, cx, .min as⟩ c j = [] ∧
      propDown ⟨r, cx, .count as⟩ c j = []) ∧
    (∀ (r : Var) (body : Lin) (k : Rat) (cx : Ctx) (j : Nat), propDown ⟨r, cx, .affine body k⟩ c j = []) := by
  refine ⟨?_, ?_, fun _ _ _ _ => rfl, fun _ _ _ _ => ⟨rfl, rfl, rfl⟩, fun _ _ _ _ _ => rfl⟩ <;>
    simp [callBounds, calls_Constraint, calls_LinearFunctionalConstraint, helper_PropagateResult2Vars,
      helper_PropagateResult2LinTerms, fixOf01]

/-- the usage count of the result is decremented exactly for an `And` fixed at 1 and an `Or` fixed at 0 — the two cases in which
`removedDef` may remove a definition — and by no other overload of the fragment -/
theorem C01_gen_propbounds_decrement (c : Rat) (hc : c = 0 ∨ c = 1) :
    (decr_AndConstraint c c = decide (c = 1)) ∧ (decr_OrConstraint c c = decide (c = 0)) ∧
    decr_NotConstraint c c = false ∧ decr_IfThenConstraint c c = false ∧ decr_CondLinConEQ c c = false ∧
    decr_ConditionalConstraint_AlgebraicConstraint_Body_AlgConRhs_kind c c = false ∧ decr_Constraint c c = false ∧
    decr_LinearFunctionalConstraint c c = false := by
  rcases hc with h | h <;> subst h <;> decide +kernel

/-- the generated expressions themselves, for ALL bounds (not only fixings): `Not` hands `1-ub .. 1-lb` to its argument, `And`
`lb .. 1`, `Or` `0 .. ub` to every argument; the usage count is decremented for `lb > 1/2` resp. `ub ≤ 1/2`; the helpers pass the
bounds on unchanged (`Vars`), replace them by ±inf (`LinTerms`), give the condition `0..1` (`IfThen`) -/
theorem C01_gen_propbounds_exprs (lb ub : Rat) (olb oub : Option Rat) :
    callBounds (calls_NotConstraint lb ub) = [(some (1 - ub), some (1 - lb))] ∧
    callBounds (calls_AndConstraint lb ub) = [(some lb, some 1)] ∧
    callBounds (calls_OrConstraint lb ub) = [(some 0, some ub)] ∧
    decr_AndConstraint lb ub = decide ((1 / 2 : Rat) < lb) ∧ decr_OrConstraint lb ub = decide (ub ≤ (1 / 2 : Rat)) ∧
    helper_PropagateResult2Vars olb oub = [(olb, oub)] ∧ helper_PropagateResult2LinTerms olb oub = [(none, none)] ∧
    helper_PropagateIfThenResultIntoCondition olb oub = [(some 0, some 1)] :=
  ⟨rfl, rfl, rfl, rfl, rfl, rfl, rfl, rfl⟩

/-- `removedDef` asks for exactly these fixings -/
theorem C01_propbounds_removed_guard (F : List Fact) (nref : Var → Nat) (d : Def) (h : removedDef F nref d = true) :
    (∃ as, d.f = .and as ∧ factOf F d.res = some 1 ∧ decr_AndConstraint 1 1 = true) ∨
    (∃ as, d.f = .or as ∧ factOf F d.res = some 0 ∧ decr_OrConstraint 0 0 = true) := by
  simp only [removedDef, Bool.and_eq_true] at h
  obtain ⟨hk, _⟩ := h
  cases hf : d.f with
  | and as =>
    simp only [hf, Bool.and_eq_true, beq_iff_eq] at hk
    exact Or.inl ⟨as, rfl, hk.1, by decide +kernel⟩
  | or as =>
    simp only [hf, Bool.and_eq_true, beq_iff_eq] at hk
    exact Or.inr ⟨as, rfl, hk.1, by decide +kernel⟩
  | _ => simp [hf] at hk

end MpVerif.C01

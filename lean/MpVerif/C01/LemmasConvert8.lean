import MpVerif.C01.LemmasConvert7
/-!
# C01 — lemmas about the reference converter, part 8: lowering a whole gadget block keeps it a valid conversion step
-/
namespace MpVerif.C01

theorem lowerCons_ok (B : Bnds) (o : Opts) (cs : List Con) (h : (lowerCons B o cs).refusal = none) :
    (∀ c ∈ cs, (lowerCon B o c).refusal = none) ∧
    (lowerCons B o cs).cons = cs.flatMap (fun c => (lowerCon B o c).cons) := by
  induction cs with
  | nil => simp [lowerCons]
  | cons c t ih =>
    simp only [lowerCons] at h ⊢
    cases h1 : (lowerCon B o c).refusal with
    | some r => simp [h1] at h
    | none =>
      cases h2 : (lowerCons B o t).refusal with
      | some r => simp [h1, h2] at h
      | none =>
        obtain ⟨i1, i2⟩ := ih h2
        simp only [h1, h2, List.flatMap_cons, i2]
        exact ⟨fun c' hc' => by
          simp only [List.mem_cons] at hc'
          rcases hc' with hc' | hc'
          · subst hc'; exact h1
          · exact i1 c' hc', trivial⟩

theorem lowerCons_iff (B : Bnds) (o : Opts) (cs : List Con) (y : Asg) (hM : o.bigM ≤ 0)
    (hd : ∀ c ∈ cs, ∀ v ∈ c.vars, inDom B y v) (hnr : (lowerCons B o cs).refusal = none) :
    (∀ c' ∈ (lowerCons B o cs).cons, c'.sat y) ↔ (∀ c ∈ cs, c.sat y) := by
  obtain ⟨h1, h2⟩ := lowerCons_ok B o cs hnr
  rw [h2]
  simp only [List.mem_flatMap]
  constructor
  · intro h c hc
    exact (lowerCon_iff B o c y hM (hd c hc) (h1 c hc)).mp (fun c' hc' => h c' ⟨c, hc, hc'⟩)
  · intro h c' ⟨c, hc, hc'⟩
    exact (lowerCon_iff B o c y hM (hd c hc) (h1 c hc)).mpr (h c hc) c' hc'

theorem lowerCons_vars (B : Bnds) (o : Opts) (cs : List Con) (hnr : (lowerCons B o cs).refusal = none) :
    ∀ c' ∈ (lowerCons B o cs).cons, ∃ c ∈ cs, ∀ v ∈ c'.vars, v ∈ c.vars := by
  obtain ⟨_, h2⟩ := lowerCons_ok B o cs hnr
  rw [h2]
  intro c' hc'
  obtain ⟨c, hc, hcc⟩ := List.mem_flatMap.mp hc'
  exact ⟨c, hc, lowerCon_vars B o c c' hcc⟩

/-! ## bounds extended by auxiliary variables -/

theorem extB_below' (v : Nat) : ∀ (l : List VarInfo) (B : Bnds) (n : Nat), v < n → extB B n l v = B v
  | [], _, _, _ => rfl
  | i :: t, B, n, h => by
    have h1 : v < n + 1 := Nat.lt_succ_of_lt h
    have h2 : v ≠ n := Nat.ne_of_lt h
    simp only [extB]
    rw [extB_below' v t (setB B n i) (n + 1) h1]
    simp [setB, h2]

theorem extB_below (B : Bnds) (n : Nat) (l : List VarInfo) (v : Var) (h : v < n) : extB B n l v = B v :=
  extB_below' v l B n h

theorem auxOk_extB' (y : Asg) : ∀ (l : List VarInfo) (B : Bnds) (n : Nat), auxOk n y l →
    ∀ v : Nat, n ≤ v → v < n + l.length → inDom (extB B n l) y v
  | [], _, n, _, v, h1, h2 => by
    have : v < n := by simpa using h2
    exact absurd this (Nat.not_lt.mpr h1)
  | i :: t, B, n, h, v, h1, h2 => by
    obtain ⟨ha, ht⟩ := h
    have h2' : v < n + 1 + t.length := by
      have : (i :: t).length = t.length + 1 := rfl
      rw [this] at h2; omega
    simp only [extB]
    by_cases hv : v = n
    · subst hv
      unfold inDom
      rw [extB_below (setB B v i) (v + 1) t v (Nat.lt_succ_self v)]
      simpa [setB] using ha
    · have h1' : n + 1 ≤ v := by omega
      exact auxOk_extB' y t (setB B n i) (n + 1) ht v h1' h2'

theorem auxOk_extB (B : Bnds) (n : Nat) (l : List VarInfo) (y : Asg) (h : auxOk n y l) :
    ∀ v, n ≤ v → v < n + l.length → inDom (extB B n l) y v := auxOk_extB' y l B n h

/-- **lowering keeps a gadget block a valid step**: from the validity of the raw gadget step (gadget theorem), the locality
of the raw rows (original/result variables and the block's own auxiliaries) and non-refusal of the big-M rows -/
theorem stepOK_lowered (N n : Nat) (B B' : Bnds) (o : Opts) (d : Def) (g low : Out) (hM : o.bigM ≤ 0)
    (hlow : low = lowerCons B' o g.cons) (hnr : low.refusal = none)
    (hraw : StepOK N (DomB N B) (Step.ofGadget d g n))
    (hB' : ∀ v, v < N → B' v = B v)
    (haux : ∀ y, auxOk n y g.vars → ∀ v, n ≤ v → v < n + g.vars.length → inDom B' y v)
    (hloc : ∀ c ∈ g.cons, ∀ v ∈ c.vars, v < N ∨ (n ≤ v ∧ v < n + g.vars.length)) :
    StepOK N (DomB N B) { d with Deliv := fun y => auxOk n y g.vars ∧ ∀ c ∈ low.cons, c.sat y,
                                  lo := n, hi := n + g.vars.length } := by
  subst hlow
  obtain ⟨r1, r2, r3, r4⟩ := hraw
  have hNn : N ≤ n := r1
  have key : ∀ y, DomB N B y → auxOk n y g.vars →
      ((∀ c ∈ (lowerCons B' o g.cons).cons, c.sat y) ↔ (∀ c ∈ g.cons, c.sat y)) := by
    intro y hy ha
    apply lowerCons_iff B' o g.cons y hM _ hnr
    intro c hc v hv
    rcases hloc c hc v hv with h | ⟨h1, h2⟩
    · unfold inDom; rw [hB' v h]; exact hy v h
    · exact haux y ha v h1 h2
  refine ⟨r1, ?_, ?_, ?_⟩
  · intro y hy ⟨ha, hrows⟩
    exact r2 y hy ⟨ha, (key y hy ha).mp hrows⟩
  · intro z hz hres
    obtain ⟨z', hag, ha, hrows⟩ := r3 z hz hres
    have hz' : DomB N B z' := fun v hv => by
      unfold inDom; rw [hag v (Nat.lt_of_lt_of_le hv hNn)]; exact hz v hv
    exact ⟨z', hag, ha, (key z' hz' ha).mpr hrows⟩
  · intro y y' hag ⟨ha, hrows⟩
    refine ⟨(auxOk_congr n y' y g.vars hag).mpr ha, ?_⟩
    intro c' hc'
    obtain ⟨c, hc, hsub⟩ := lowerCons_vars B' o g.cons hnr c' hc'
    apply (sat_congr c' y' y _).mpr (hrows c' hc')
    intro v hv
    apply hag v
    show v < n + g.vars.length
    rcases hloc c hc v (hsub v hv) with h | ⟨_, h2⟩
    · exact Nat.lt_of_lt_of_le h (Nat.le_trans hNn (Nat.le_add_right _ _))
    · exact h2

end MpVerif.C01

import MpVerif.C01.LemmasConvert13
/-!
# C01 — lemmas about the reference converter, part 14: the contexts assigned in reverse creation order cover every use
-/
namespace MpVerif.C01

theorem ctx_le_refl (a : Ctx) : a ≤ a := ⟨id, id⟩
theorem ctx_le_trans {a b c : Ctx} (h1 : a ≤ b) (h2 : b ≤ c) : a ≤ c := ⟨fun h => h2.1 (h1.1 h), fun h => h2.2 (h1.2 h)⟩
theorem ctx_le_eff (a : Ctx) : a ≤ a.eff := by cases a <;> decide
theorem ctx_le_mix (a : Ctx) : a ≤ Ctx.mix := by cases a <;> decide

/-- merging uses only raises the needed context, and every merged use is covered -/
theorem addUses_ge (need : Var → Ctx) (uses : List (Var × Ctx)) (v : Var) : need v ≤ addUses need uses v := by
  unfold addUses
  induction uses generalizing need with
  | nil => exact ctx_le_refl _
  | cons p t ih =>
    simp only [List.foldl_cons]
    by_cases h : p.1 = v
    · simp only [h, if_true]
      have := ih (fun w => if w = v then (need v).add p.2 else need w)
      simp only [if_true] at this
      exact ctx_le_trans (C01_ctx_add_upper (need v) p.2).1 this
    · simpa only [h, if_false] using ih need

theorem addUses_mem (need : Var → Ctx) (uses : List (Var × Ctx)) : ∀ p ∈ uses, p.2 ≤ addUses need uses p.1 := by
  induction uses generalizing need with
  | nil => simp
  | cons q t ih =>
    intro p hp
    simp only [List.mem_cons] at hp
    have step : addUses need (q :: t) p.1 = addUses (fun w => if q.1 = w then (need w).add q.2 else need w) t p.1 := by
      unfold addUses
      simp only [List.foldl_cons]
    rw [step]
    rcases hp with hp | hp
    · subst hp
      have := addUses_ge (fun w => if p.1 = w then (need w).add p.2 else need w) t p.1
      simp only [if_true] at this
      exact ctx_le_trans (C01_ctx_add_upper (need p.1) p.2).2 this
    · exact ih _ p hp

/-- Lemma A: the context assigned to a definition is at least what was needed when the pass reached the list -/
theorem assignCtx_ge (B : Bnds) (l : List Def) (need : Var → Ctx) : ∀ d' ∈ assignCtx B l need, need d'.res ≤ d'.ctx := by
  induction l generalizing need with
  | nil => simp [assignCtx]
  | cons d t ih =>
    intro d' hd'
    simp only [assignCtx, List.mem_cons] at hd'
    rcases hd' with h | h
    · subst h; exact ctx_le_refl _
    · exact ctx_le_trans (addUses_ge need _ d'.res) (ih _ d' h)

/-- reverse creation order: results strictly decreasing, every definition reads only smaller indices -/
def RevWF : List Def → Prop
  | [] => True
  | d :: t => (∀ v ∈ d.f.vars, v < d.res) ∧ (∀ e ∈ t, e.res < d.res) ∧ RevWF t

theorem assignCtx_res (B : Bnds) (l : List Def) (need : Var → Ctx) :
    ∀ d' ∈ assignCtx B l need, ∃ d ∈ l, d.res = d'.res ∧ d.f = d'.f := by
  induction l generalizing need with
  | nil => simp [assignCtx]
  | cons d t ih =>
    intro d' hd'
    simp only [assignCtx, List.mem_cons] at hd'
    rcases hd' with h | h
    · subst h; exact ⟨d, by simp, rfl, rfl⟩
    · obtain ⟨e, he, h1, h2⟩ := ih _ d' h
      exact ⟨e, by simp [he], h1, h2⟩

/-- Lemma B: every use made by a definition of the result list is covered by the context assigned to the definition of the
variable used (or the variable has no definition in the list) -/
theorem assignCtx_covers (B : Bnds) (l : List Def) (need : Var → Ctx) (hw : RevWF l) :
    ∀ d' ∈ assignCtx B l need, ∀ p ∈ propFun B d'.ctx.eff d'.f,
      (∃ d'' ∈ assignCtx B l need, d''.res = p.1 ∧ p.2 ≤ d''.ctx) ∨ (∀ e ∈ l, e.res ≠ p.1) := by
  induction l generalizing need with
  | nil => simp [assignCtx]
  | cons d t ih =>
    obtain ⟨hv, hlt, hwt⟩ := hw
    intro d' hd' p hp
    simp only [assignCtx, List.mem_cons] at hd'
    rcases hd' with h | h
    · subst h
      simp only at hp
      have hpv : p.1 < d.res := hv p.1 (propFun_vars B _ d.f p hp)
      by_cases hdef : ∃ e ∈ t, e.res = p.1
      · left
        obtain ⟨e, he, hre⟩ := hdef
        -- the definition of p.1 in the tail result
        have : ∃ d'' ∈ assignCtx B t (addUses need (propFun B (need d.res).eff d.f)), d''.res = p.1 := by
          clear ih hp
          generalize addUses need (propFun B (need d.res).eff d.f) = nd
          induction t generalizing nd with
          | nil => simp at he
          | cons a t' iht =>
            simp only [List.mem_cons] at he
            rcases he with he | he
            · subst he; exact ⟨⟨e.res, nd e.res, e.f⟩, by simp [assignCtx], hre⟩
            · obtain ⟨d'', hd'', hr''⟩ := iht (fun e' he' => hlt e' (by simp [he'])) hwt.2.2 he _
              exact ⟨d'', by simp only [assignCtx, List.mem_cons]; exact Or.inr hd'', hr''⟩
        obtain ⟨d'', hd'', hr''⟩ := this
        refine ⟨d'', by simp only [assignCtx, List.mem_cons]; exact Or.inr hd'', hr'', ?_⟩
        have h1 := addUses_mem need (propFun B (need d.res).eff d.f) p hp
        have h2 := assignCtx_ge B t _ d'' hd''
        rw [hr''] at h2
        exact ctx_le_trans h1 h2
      · right
        intro e he
        simp only [List.mem_cons] at he
        rcases he with he | he
        · subst he; exact fun heq => absurd hpv (by rw [heq]; exact Nat.lt_irrefl _)
        · exact fun heq => hdef ⟨e, he, heq⟩
    · rcases ih _ hwt d' h p hp with ⟨d'', hd'', h1, h2⟩ | hnd
      · exact Or.inl ⟨d'', by simp only [assignCtx, List.mem_cons]; exact Or.inr hd'', h1, h2⟩
      · right
        intro e he
        simp only [List.mem_cons] at he
        rcases he with he | he
        · subst he
          obtain ⟨e0, he0, hr0, hf0⟩ := assignCtx_res B t _ d' h
          have hpv : p.1 < d'.res := by
            have hvt : ∀ (l' : List Def), RevWF l' → ∀ x ∈ l', ∀ v ∈ x.f.vars, v < x.res := by
              intro l' hl'
              induction l' with
              | nil => simp
              | cons a t' iht' =>
                intro x hx
                simp only [List.mem_cons] at hx
                rcases hx with hx | hx
                · subst hx; exact hl'.1
                · exact iht' hl'.2.2 x hx
            have := hvt t hwt e0 he0 p.1 (by rw [hf0]; exact propFun_vars B _ d'.f p hp)
            rw [hr0] at this; exact this
          have := hlt e0 he0
          rw [hr0] at this
          exact fun heq => absurd (Nat.lt_trans hpv this) (by rw [heq]; exact Nat.lt_irrefl _)
        · exact hnd e he

end MpVerif.C01

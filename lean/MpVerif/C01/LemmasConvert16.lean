import MpVerif.C01.LemmasConvert15
/-!
# C01 — lemmas about the reference converter, part 16: the downward propagation from the logical rows (round 6)

Every fact of `narrowFacts` holds at the exact assignment of an NL-feasible point (`facts_sound`), sits on a 0/1 variable and has
the value 0 or 1 (`facts_bin`); the narrowed bounds are tighter than the created ones (`narrowB_sub`) and hold at such an assignment
(`narrow_dom`).
-/
namespace MpVerif.C01

theorem narrowFacts_sub (l : List Def) (F : List Fact) : ∀ f ∈ F, f ∈ narrowFacts l F := by
  induction l generalizing F with
  | nil => intro f hf; exact hf
  | cons d t ih =>
    intro f hf
    simp only [narrowFacts]
    exact ih _ f (List.mem_append_left _ hf)

/-- a property of facts preserved by one propagation step holds for all facts -/
theorem narrowFacts_inv (P : Fact → Prop) (l : List Def)
    (h : ∀ d ∈ l, ∀ f, P f → f.1 = d.res → ∀ g ∈ propDown d f.2.1 f.2.2, P g) (F : List Fact) (hF : ∀ f ∈ F, P f) :
    ∀ f ∈ narrowFacts l F, P f := by
  induction l generalizing F with
  | nil => exact hF
  | cons d t ih =>
    simp only [narrowFacts]
    apply ih (fun d' hd' => h d' (List.mem_cons_of_mem _ hd'))
    intro f hf
    simp only [List.mem_append, List.mem_flatMap, List.mem_filter, decide_eq_true_eq] at hf
    rcases hf with hf | ⟨f0, ⟨hf0, he⟩, hg⟩
    · exact hF f hf
    · exact h d (List.mem_cons_self) f0 (hF f0 hf0) he f hg

theorem rootFacts_mem (l : List Var) (j : Nat) : ∀ f ∈ rootFacts l j, f.1 ∈ l ∧ f.2.1 = 1 := by
  induction l generalizing j with
  | nil => intro f hf; simp [rootFacts] at hf
  | cons r t ih =>
    intro f hf
    simp only [rootFacts, List.mem_cons] at hf
    rcases hf with hf | hf
    · subst hf; exact ⟨List.mem_cons_self, rfl⟩
    · obtain ⟨h1, h2⟩ := ih (j + 1) f hf
      exact ⟨List.mem_cons_of_mem _ h1, h2⟩

theorem rootFacts_has (l : List Var) (j : Nat) (v : Var) (hv : v ∈ l) : ∃ k, (v, 1, k) ∈ rootFacts l j := by
  induction l generalizing j with
  | nil => simp at hv
  | cons r t ih =>
    simp only [List.mem_cons] at hv
    rcases hv with hv | hv
    · subst hv; exact ⟨j, by simp [rootFacts]⟩
    · obtain ⟨k, hk⟩ := ih (j + 1) hv
      exact ⟨k, by simp only [rootFacts, List.mem_cons]; exact Or.inr hk⟩

theorem factOf_mem {F : List Fact} {v : Var} {c : Rat} (h : factOf F v = some c) : ∃ j, (v, c, j) ∈ F := by
  unfold factOf at h
  cases hf : F.find? (fun f => decide (f.1 = v)) with
  | none => simp [hf] at h
  | some f =>
    simp only [hf, Option.map_some, Option.some.injEq] at h
    have hm := List.mem_of_find?_eq_some hf
    have hp := List.find?_some hf
    simp only [decide_eq_true_eq] at hp
    obtain ⟨v', c', j⟩ := f
    simp only at hp h
    subst hp; subst h
    exact ⟨j, hm⟩

theorem factOf_some {F : List Fact} {v : Var} {c : Rat} {j : Nat} (h : (v, c, j) ∈ F) : ∃ c', factOf F v = some c' := by
  unfold factOf
  cases hf : F.find? (fun f => decide (f.1 = v)) with
  | none =>
    have := List.find?_eq_none.mp hf (v, c, j) h
    simp at this
  | some f => exact ⟨f.2.1, rfl⟩

theorem factOf_noconflict {F : List Fact} (hc : factsConflict F = false) {v : Var} {c : Rat} {j : Nat} (h : (v, c, j) ∈ F) :
    factOf F v = some c := by
  obtain ⟨c', hc'⟩ := factOf_some h
  obtain ⟨j', hm⟩ := factOf_mem hc'
  rw [hc']
  by_cases he : c' = c
  · rw [he]
  · exfalso
    have : factsConflict F = true := by
      simp only [factsConflict, List.any_eq_true, Bool.and_eq_true, decide_eq_true_eq, bne_iff_ne, ne_eq]
      exact ⟨(v, c', j'), hm, (v, c, j), h, rfl, he⟩
    rw [hc] at this; exact Bool.noConfusion this

/-- one propagation step is sound at an assignment that reads the definition exactly and gives its logical arguments 0/1 values -/
theorem propDown_sound (d : Def) (y : Asg) (c : Rat) (j : Nat) (hval : y d.res = d.f.val y) (hc : y d.res = c)
    (h01 : ∀ a ∈ logicalArgs d.f, y a = 0 ∨ y a = 1) : ∀ g ∈ propDown d c j, y g.1 = g.2.1 := by
  intro g hg
  unfold propDown at hg
  cases hf : d.f with
  | not a =>
    simp only [hf, List.mem_singleton] at hg
    subst hg
    rw [hf] at hval
    simp only [Fun.val] at hval
    show y a = 1 - c
    rw [← hc, hval]; grind
  | and as =>
    simp only [hf] at hg
    split at hg
    · rename_i h1
      simp only [List.mem_map] at hg
      obtain ⟨a, ha, rfl⟩ := hg
      rw [hf] at hval
      simp only [Fun.val, b2r] at hval
      show y a = 1
      split at hval
      · rename_i hall
        have := List.all_eq_true.mp hall a ha
        simpa using this
      · rw [hc, h1] at hval; exact absurd hval (by decide)
    · simp at hg
  | or as =>
    simp only [hf] at hg
    split at hg
    · rename_i h0
      simp only [List.mem_map] at hg
      obtain ⟨a, ha, rfl⟩ := hg
      rw [hf] at hval h01
      simp only [Fun.val, b2r] at hval
      show y a = 0
      split at hval
      · rw [hc, h0] at hval; exact absurd hval (by decide)
      · rename_i hany
        rcases h01 a (by simpa [logicalArgs] using ha) with h | h
        · exact h
        · exfalso; apply hany
          exact List.any_eq_true.mpr ⟨a, ha, by simp [h]⟩
    · simp at hg
  | _ => simp [hf] at hg

/-- one propagation step stays on 0/1 variables with 0/1 values -/
theorem propDown_bin (B0 : Bnds) (d : Def) (c : Rat) (j : Nat) (ht : typedDef B0 d = true) (hc : c = 0 ∨ c = 1) :
    ∀ g ∈ propDown d c j, isBin01 (B0 g.1) = true ∧ (g.2.1 = 0 ∨ g.2.1 = 1) := by
  intro g hg
  simp only [typedDef, Bool.and_eq_true] at ht
  obtain ⟨_, h3⟩ := ht
  unfold propDown at hg
  cases hf : d.f with
  | not a =>
    simp only [hf, List.mem_singleton] at hg h3
    subst hg
    refine ⟨h3, ?_⟩
    show 1 - c = 0 ∨ 1 - c = 1
    rcases hc with h | h <;> subst h
    · right; grind
    · left; grind
  | and as =>
    simp only [hf] at hg h3
    split at hg
    · simp only [List.mem_map] at hg
      obtain ⟨a, ha, rfl⟩ := hg
      exact ⟨List.all_eq_true.mp h3 a ha, Or.inr rfl⟩
    · simp at hg
  | or as =>
    simp only [hf] at hg h3
    split at hg
    · simp only [List.mem_map] at hg
      obtain ⟨a, ha, rfl⟩ := hg
      exact ⟨List.all_eq_true.mp h3 a ha, Or.inl rfl⟩
    · simp at hg
  | _ => simp [hf] at hg

/-! ## the narrowed bounds -/

theorem binary_admits_01 {c : Rat} (hc : c = 0 ∨ c = 1) : VarInfo.binary.admits c := by
  rcases hc with h | h <;> subst h
  · refine ⟨fun l hl => ?_, fun u hu => ?_, fun _ => ⟨0, rfl⟩⟩
    · simp [VarInfo.binary] at hl; subst hl; exact Rat.le_refl
    · simp [VarInfo.binary] at hu; subst hu; decide
  · refine ⟨fun l hl => ?_, fun u hu => ?_, fun _ => ⟨1, rfl⟩⟩
    · simp [VarInfo.binary] at hl; subst hl; decide
    · simp [VarInfo.binary] at hu; subst hu; exact Rat.le_refl

def FactsBin (B0 : Bnds) (F : List Fact) : Prop := ∀ f ∈ F, isBin01 (B0 f.1) = true ∧ (f.2.1 = 0 ∨ f.2.1 = 1)

theorem narrowB_none {B0 : Bnds} {F : List Fact} {v : Var} (h : factOf F v = none) : narrowB B0 F v = B0 v := by
  simp [narrowB, h]

theorem narrowB_some {B0 : Bnds} {F : List Fact} {v : Var} {c : Rat} (h : factOf F v = some c) :
    narrowB B0 F v = { lb := some c, ub := some c, isInt := (B0 v).isInt } := by
  simp [narrowB, h]

theorem fixed_admits {c q : Rat} {i : Bool} (h : VarInfo.admits { lb := some c, ub := some c, isInt := i } q) : q = c := by
  obtain ⟨h1, h2, _⟩ := h
  exact Rat.le_antisymm (h2 c rfl) (h1 c rfl)

/-- the narrowed bounds admit no more than the created ones -/
theorem narrowB_sub (B0 : Bnds) (F : List Fact) (hb : FactsBin B0 F) (v : Var) (q : Rat)
    (h : (narrowB B0 F v).admits q) : (B0 v).admits q := by
  cases hf : factOf F v with
  | none => rw [narrowB_none hf] at h; exact h
  | some c =>
    rw [narrowB_some hf] at h
    obtain ⟨j, hm⟩ := factOf_mem hf
    obtain ⟨hbin, h01⟩ := hb _ hm
    have : B0 v = VarInfo.binary := isBin01_eq hbin
    rw [this, fixed_admits h]
    exact binary_admits_01 h01

theorem narrow_dom (N : Nat) (B0 : Bnds) (F : List Fact) (y : Asg) (hd : DomB N B0 y) (hs : ∀ f ∈ F, y f.1 = f.2.1) :
    DomB N (narrowB B0 F) y := by
  intro v hv
  unfold inDom
  cases hf : factOf F v with
  | none => rw [narrowB_none hf]; exact hd v hv
  | some c =>
    rw [narrowB_some hf]
    obtain ⟨j, hm⟩ := factOf_mem hf
    have hy : y v = c := hs _ hm
    refine ⟨fun l hl => ?_, fun u hu => ?_, fun hi => ?_⟩
    · simp at hl; subst hl; rw [hy]; exact Rat.le_refl
    · simp at hu; subst hu; rw [hy]; exact Rat.le_refl
    · exact (hd v hv).2.2 hi

theorem narrowB_01 (B0 : Bnds) (F : List Fact) (hb : FactsBin B0 F) (a : Var) (hbin : isBin01 (B0 a) = true) (q : Rat)
    (h : (narrowB B0 F a).admits q) : q = 0 ∨ q = 1 := by
  have := narrowB_sub B0 F hb a q h
  rw [isBin01_eq hbin] at this
  exact binary_admits this

theorem narrowB_isBinary (B0 : Bnds) (F : List Fact) (hb : FactsBin B0 F) (a : Var) (hbin : isBin01 (B0 a) = true) :
    (narrowB B0 F a).isBinary = true := by
  cases hf : factOf F a with
  | none => rw [narrowB_none hf, isBin01_eq hbin]; exact binary_isBinary
  | some c =>
    rw [narrowB_some hf]
    obtain ⟨j, hm⟩ := factOf_mem hf
    obtain ⟨_, h01⟩ := hb _ hm
    rcases h01 with h | h <;> (simp only at h; subst h; cases (B0 a).isInt <;> decide +kernel)

end MpVerif.C01

import MpVerif.C01.LemmasConvert11
/-!
# C01 — lemmas about the reference converter, part 12: flattening keeps the invariant (mutual induction)
-/
namespace MpVerif.C01

/-- later states only add variables and keep the bounds of the existing ones -/
def Ext (S S' : FS) : Prop := S.next ≤ S'.next ∧ ∀ v, v < S.next → S'.B v = S.B v

theorem Ext.refl (S : FS) : Ext S S := ⟨Nat.le_refl _, fun _ _ => rfl⟩
theorem Ext.trans {S1 S2 S3 : FS} (h1 : Ext S1 S2) (h2 : Ext S2 S3) : Ext S1 S3 :=
  ⟨Nat.le_trans h1.1 h2.1, fun v hv => by rw [h2.2 v (Nat.lt_of_lt_of_le hv h1.1), h1.2 v hv]⟩

theorem insTerm_vars (c : Rat) (v : Var) (l : Lin) : ∀ p ∈ insTerm c v l, p.2 = v ∨ ∃ q ∈ l, q.2 = p.2 := by
  induction l with
  | nil => intro p hp; simp [insTerm] at hp; subst hp; exact Or.inl rfl
  | cons a t ih =>
    obtain ⟨c', v'⟩ := a
    intro p hp
    simp only [insTerm] at hp
    split at hp
    · simp only [List.mem_cons] at hp
      rcases hp with hp | hp | hp
      · subst hp; exact Or.inl rfl
      · subst hp; exact Or.inr ⟨(c', v'), by simp, rfl⟩
      · exact Or.inr ⟨p, by simp [hp], rfl⟩
    · split at hp
      · simp only [List.mem_cons] at hp
        rcases hp with hp | hp
        · subst hp; exact Or.inr ⟨(c', v'), by simp, rfl⟩
        · exact Or.inr ⟨p, by simp [hp], rfl⟩
      · simp only [List.mem_cons] at hp
        rcases hp with hp | hp
        · subst hp; exact Or.inr ⟨(c', v'), by simp, rfl⟩
        · rcases ih p hp with h | ⟨q, hq, he⟩
          · exact Or.inl h
          · exact Or.inr ⟨q, by simp [hq], he⟩

theorem normLin_vars (l : Lin) : ∀ p ∈ normLin l, ∃ q ∈ l, q.2 = p.2 := by
  intro p hp
  unfold normLin at hp
  have hp' := (List.mem_filter.mp hp).1
  clear hp
  induction l generalizing p with
  | nil => simp at hp'
  | cons a t ih =>
    simp only [List.foldr_cons] at hp'
    rcases insTerm_vars a.1 a.2 _ p hp' with h | ⟨q, hq, he⟩
    · exact ⟨a, by simp, h.symm⟩
    · obtain ⟨q', hq', he'⟩ := ih q hq
      exact ⟨q', by simp [hq'], by rw [he', he]⟩

theorem bound_of_vars {l l' : Lin} {k : Nat} (h : ∀ p ∈ l', ∃ q ∈ l, q.2 = p.2) (hl : ∀ q ∈ l, q.2 < k) : ∀ p ∈ l', p.2 < k := by
  intro p hp; obtain ⟨q, hq, he⟩ := h p hp; rw [← he]; exact hl q hq

theorem negLin_bound {l : Lin} {k : Nat} (hl : ∀ q ∈ l, q.2 < k) : ∀ p ∈ negLin l, p.2 < k := by
  intro p hp
  simp only [negLin, List.mem_map] at hp
  obtain ⟨q, hq, rfl⟩ := hp
  exact hl q hq

theorem scaleLin_bound {l : Lin} {k : Nat} (c : Rat) (hl : ∀ q ∈ l, q.2 < k) : ∀ p ∈ scaleLin c l, p.2 < k := by
  intro p hp
  simp only [scaleLin, List.mem_map] at hp
  obtain ⟨q, hq, rfl⟩ := hp
  exact hl q hq

theorem condBody_bound {l : Lin} {k : Nat} (hl : ∀ q ∈ l, q.2 < k) : ∀ p ∈ condBody l, p.2 < k := by
  unfold condBody; split
  · exact bound_of_vars (normLin_vars l) hl
  · exact hl

theorem binary_isBin01 : isBin01 VarInfo.binary = true := by simp [isBin01]

/-- one new logical definition: result below `next`, binary -/
theorem mkDef_logical (n0 : Nat) (B0 : Bnds) (f : Fun) (S : FS) (hI : Inv n0 B0 S)
    (hv : ∀ v ∈ f.vars, v < S.next) (hfr : f.inFrag = true) (hat : argTyped S.B f = true) (hb : resBnd S.B f = VarInfo.binary) :
    Inv n0 B0 (mkDef f S).2 ∧ Ext S (mkDef f S).2 ∧ (mkDef f S).1 < (mkDef f S).2.next ∧
      isBin01 ((mkDef f S).2.B (mkDef f S).1) = true := by
  obtain ⟨h1, h2, h3, h4, h5⟩ := mkDef_inv n0 B0 f S hI hv hfr hat
  exact ⟨h1, ⟨h3, h4⟩, h2, by rw [h5, hb]; exact binary_isBin01⟩

mutual
theorem flatN_inv (n0 : Nat) (B0 : Bnds) (e : NE) (S : FS) (hI : Inv n0 B0 S) (hv : e.vok n0 = true) :
    Inv n0 B0 (flatN e S).2 ∧ Ext S (flatN e S).2 ∧ ∀ p ∈ (flatN e S).1.1, p.2 < (flatN e S).2.next := by
  cases e with
  | c q => exact ⟨hI, Ext.refl S, by simp [flatN]⟩
  | v i =>
    have hi : i < n0 := by simpa [NE.vok] using hv
    exact ⟨hI, Ext.refl S, by intro p hp; simp [flatN] at hp; subst hp; exact Nat.lt_of_lt_of_le hi hI.ge⟩
  | add a b =>
    simp only [NE.vok, Bool.and_eq_true] at hv
    obtain ⟨i1, e1, t1⟩ := flatN_inv n0 B0 a S hI hv.1
    obtain ⟨i2, e2, t2⟩ := flatN_inv n0 B0 b (flatN a S).2 i1 hv.2
    refine ⟨by simpa [flatN] using i2, by simpa [flatN] using e1.trans e2, ?_⟩
    intro p hp
    simp only [flatN, List.mem_append] at hp ⊢
    rcases hp with hp | hp
    · exact Nat.lt_of_lt_of_le (t1 p hp) e2.1
    · exact t2 p hp
  | mul k a =>
    obtain ⟨i1, e1, t1⟩ := flatN_inv n0 B0 a S hI (by simpa [NE.vok] using hv)
    exact ⟨by simpa [flatN] using i1, by simpa [flatN] using e1, by simpa [flatN] using scaleLin_bound k t1⟩
  | abs a =>
    obtain ⟨i1, e1, t1⟩ := flatN_inv n0 B0 a S hI (by simpa [NE.vok] using hv)
    obtain ⟨i2, r2, n2, b2⟩ := aff2var_inv n0 B0 (flatN a S).1 (flatN a S).2 i1 t1
    obtain ⟨i3, r3, n3, b3, _⟩ := mkDef_inv n0 B0 (.abs (aff2var (flatN a S).1 (flatN a S).2).1)
      (aff2var (flatN a S).1 (flatN a S).2).2 i2 (by intro v hv'; simp [Fun.vars] at hv'; subst hv'; exact r2) rfl rfl
    refine ⟨by simpa [flatN] using i3, by simpa [flatN] using (e1.trans ⟨n2, b2⟩).trans ⟨n3, b3⟩, ?_⟩
    intro p hp; simp [flatN] at hp ⊢; subst hp; exact r3
  | max as =>
    obtain ⟨i1, e1, t1⟩ := flatNs_inv n0 B0 as S hI (by simpa [NE.vok] using hv)
    obtain ⟨i3, r3, n3, b3, _⟩ := mkDef_inv n0 B0 (.max (flatNs as S).1) (flatNs as S).2 i1
      (by intro v hv'; exact t1 v (by simpa [Fun.vars] using hv')) rfl rfl
    refine ⟨by simpa [flatN] using i3, by simpa [flatN] using e1.trans ⟨n3, b3⟩, ?_⟩
    intro p hp; simp [flatN] at hp ⊢; subst hp; exact r3
  | min as =>
    obtain ⟨i1, e1, t1⟩ := flatNs_inv n0 B0 as S hI (by simpa [NE.vok] using hv)
    obtain ⟨i3, r3, n3, b3, _⟩ := mkDef_inv n0 B0 (.min (flatNs as S).1) (flatNs as S).2 i1
      (by intro v hv'; exact t1 v (by simpa [Fun.vars] using hv')) rfl rfl
    refine ⟨by simpa [flatN] using i3, by simpa [flatN] using e1.trans ⟨n3, b3⟩, ?_⟩
    intro p hp; simp [flatN] at hp ⊢; subst hp; exact r3
  | ite cnd t e =>
    simp only [NE.vok, Bool.and_eq_true] at hv
    obtain ⟨ic, ec, rc, bc⟩ := flatL_inv n0 B0 cnd S hI hv.1.1
    obtain ⟨it, et, tt⟩ := flatN_inv n0 B0 t (flatL cnd S).2 ic hv.1.2
    obtain ⟨ivt, rvt, nvt, bvt⟩ := aff2var_inv n0 B0 (flatN t (flatL cnd S).2).1 (flatN t (flatL cnd S).2).2 it tt
    obtain ⟨ie, ee, te⟩ := flatN_inv n0 B0 e (aff2var (flatN t (flatL cnd S).2).1 (flatN t (flatL cnd S).2).2).2 ivt hv.2
    obtain ⟨ive, rve, nve, bve⟩ := aff2var_inv n0 B0 _ _ ie te
    have eA : Ext (flatL cnd S).2 _ := ((et.trans ⟨nvt, bvt⟩).trans ee).trans ⟨nve, bve⟩
    have eB : Ext (aff2var (flatN t (flatL cnd S).2).1 (flatN t (flatL cnd S).2).2).2 _ := ee.trans ⟨nve, bve⟩
    obtain ⟨i3, r3, n3, b3, _⟩ := mkDef_inv n0 B0
      (.ifthen (flatL cnd S).1 (aff2var (flatN t (flatL cnd S).2).1 (flatN t (flatL cnd S).2).2).1
        (aff2var (flatN e (aff2var (flatN t (flatL cnd S).2).1 (flatN t (flatL cnd S).2).2).2).1
          (flatN e (aff2var (flatN t (flatL cnd S).2).1 (flatN t (flatL cnd S).2).2).2).2).1) _ ive
      (by
        intro v hv'
        simp only [Fun.vars, List.mem_cons, List.not_mem_nil, or_false] at hv'
        rcases hv' with h | h | h
        · rw [h]; exact Nat.lt_of_lt_of_le rc eA.1
        · rw [h]; exact Nat.lt_of_lt_of_le rvt eB.1
        · rw [h]; exact rve) rfl
      (by simp only [argTyped]; rw [eA.2 _ rc]; exact bc)
    refine ⟨by simpa [flatN] using i3, by simpa [flatN] using (ec.trans eA).trans ⟨n3, b3⟩, ?_⟩
    intro p hp; simp [flatN] at hp ⊢; subst hp; exact r3
  | count ls =>
    obtain ⟨i1, e1, t1⟩ := flatLs_inv n0 B0 ls S hI (by simpa [NE.vok] using hv)
    obtain ⟨i3, r3, n3, b3, _⟩ := mkDef_inv n0 B0 (.count (flatLs ls S).1) (flatLs ls S).2 i1
      (by intro v hv'; exact (t1 v (by simpa [Fun.vars] using hv')).1) rfl
      (by simp only [argTyped, List.all_eq_true]; intro a ha; exact (t1 a ha).2)
    refine ⟨by simpa [flatN] using i3, by simpa [flatN] using e1.trans ⟨n3, b3⟩, ?_⟩
    intro p hp; simp [flatN] at hp ⊢; subst hp; exact r3

theorem flatNs_inv (n0 : Nat) (B0 : Bnds) (es : NEs) (S : FS) (hI : Inv n0 B0 S) (hv : es.vok n0 = true) :
    Inv n0 B0 (flatNs es S).2 ∧ Ext S (flatNs es S).2 ∧ ∀ v ∈ (flatNs es S).1, v < (flatNs es S).2.next := by
  cases es with
  | nil => exact ⟨hI, Ext.refl S, by simp [flatNs]⟩
  | cons a t =>
    simp only [NEs.vok, Bool.and_eq_true] at hv
    obtain ⟨i1, e1, t1⟩ := flatN_inv n0 B0 a S hI hv.1
    obtain ⟨i2, r2, n2, b2⟩ := aff2var_inv n0 B0 (flatN a S).1 (flatN a S).2 i1 t1
    obtain ⟨i3, e3, t3⟩ := flatNs_inv n0 B0 t (aff2var (flatN a S).1 (flatN a S).2).2 i2 hv.2
    refine ⟨by simpa [flatNs] using i3, by simpa [flatNs] using (e1.trans ⟨n2, b2⟩).trans e3, ?_⟩
    intro v hv'
    simp only [flatNs, List.mem_cons] at hv' ⊢
    rcases hv' with h | h
    · rw [h]; exact Nat.lt_of_lt_of_le r2 e3.1
    · exact t3 v h

theorem flatL_inv (n0 : Nat) (B0 : Bnds) (l : LE) (S : FS) (hI : Inv n0 B0 S) (hv : l.vok n0 = true) :
    Inv n0 B0 (flatL l S).2 ∧ Ext S (flatL l S).2 ∧ (flatL l S).1 < (flatL l S).2.next ∧
      isBin01 ((flatL l S).2.B (flatL l S).1) = true := by
  cases l with
  | cmp k a b =>
    simp only [LE.vok, Bool.and_eq_true] at hv
    obtain ⟨i1, e1, t1⟩ := flatN_inv n0 B0 a S hI hv.1
    obtain ⟨i2, e2, t2⟩ := flatN_inv n0 B0 b (flatN a S).2 i1 hv.2
    have hraw : ∀ p ∈ (flatN a S).1.1 ++ negLin (flatN b (flatN a S).2).1.1, p.2 < (flatN b (flatN a S).2).2.next := by
      intro p hp
      simp only [List.mem_append] at hp
      rcases hp with hp | hp
      · exact Nat.lt_of_lt_of_le (t1 p hp) e2.1
      · exact negLin_bound t2 p hp
    have hbody := condBody_bound hraw
    obtain ⟨j1, j2, j3, j4⟩ := mkDef_logical n0 B0
      (normCmp (leadNeg ((flatN a S).1.1 ++ negLin (flatN b (flatN a S).2).1.1)) k
        (condBody ((flatN a S).1.1 ++ negLin (flatN b (flatN a S).2).1.1)) ((flatN b (flatN a S).2).1.2 - (flatN a S).1.2))
      (flatN b (flatN a S).2).2 i2
      (by
        intro v hv'
        unfold normCmp at hv'
        split at hv'
        · simp only [Fun.vars, List.mem_map] at hv'
          obtain ⟨p, hp, rfl⟩ := hv'
          exact negLin_bound hbody p hp
        · simp only [Fun.vars, List.mem_map] at hv'
          obtain ⟨p, hp, rfl⟩ := hv'
          exact hbody p hp)
      (by unfold normCmp; split <;> rfl) (by unfold normCmp; split <;> rfl) (by unfold normCmp; split <;> rfl)
    exact ⟨by simpa [flatL] using j1, by simpa [flatL] using (e1.trans e2).trans j2, by simpa [flatL] using j3,
      by simpa [flatL] using j4⟩
  | and ls =>
    obtain ⟨i1, e1, t1⟩ := flatLs_inv n0 B0 ls S hI (by simpa [LE.vok] using hv)
    obtain ⟨j1, j2, j3, j4⟩ := mkDef_logical n0 B0 (.and (flatLs ls S).1) (flatLs ls S).2 i1
      (by intro v hv'; exact (t1 v (by simpa [Fun.vars] using hv')).1) rfl
      (by simp only [argTyped, List.all_eq_true]; intro a ha; exact (t1 a ha).2) rfl
    exact ⟨by simpa [flatL] using j1, by simpa [flatL] using e1.trans j2, by simpa [flatL] using j3, by simpa [flatL] using j4⟩
  | or ls =>
    obtain ⟨i1, e1, t1⟩ := flatLs_inv n0 B0 ls S hI (by simpa [LE.vok] using hv)
    obtain ⟨j1, j2, j3, j4⟩ := mkDef_logical n0 B0 (.or (flatLs ls S).1) (flatLs ls S).2 i1
      (by intro v hv'; exact (t1 v (by simpa [Fun.vars] using hv')).1) rfl
      (by simp only [argTyped, List.all_eq_true]; intro a ha; exact (t1 a ha).2) rfl
    exact ⟨by simpa [flatL] using j1, by simpa [flatL] using e1.trans j2, by simpa [flatL] using j3, by simpa [flatL] using j4⟩
  | not l =>
    obtain ⟨i1, e1, r1, b1⟩ := flatL_inv n0 B0 l S hI (by simpa [LE.vok] using hv)
    obtain ⟨j1, j2, j3, j4⟩ := mkDef_logical n0 B0 (.not (flatL l S).1) (flatL l S).2 i1
      (by intro v hv'; simp [Fun.vars] at hv'; subst hv'; exact r1) rfl (by simpa [argTyped] using b1) rfl
    exact ⟨by simpa [flatL] using j1, by simpa [flatL] using e1.trans j2, by simpa [flatL] using j3, by simpa [flatL] using j4⟩
  | iff a b =>
    simp only [LE.vok, Bool.and_eq_true] at hv
    obtain ⟨i1, e1, r1, _⟩ := flatL_inv n0 B0 a S hI hv.1
    obtain ⟨i2, e2, r2, _⟩ := flatL_inv n0 B0 b (flatL a S).2 i1 hv.2
    have hraw : ∀ p ∈ [((1 : Rat), (flatL a S).1)] ++ negLin [((1 : Rat), (flatL b (flatL a S).2).1)],
        p.2 < (flatL b (flatL a S).2).2.next := by
      intro p hp
      simp only [List.mem_append] at hp
      rcases hp with hp | hp
      · simp only [List.mem_singleton] at hp; subst hp; exact Nat.lt_of_lt_of_le r1 e2.1
      · exact negLin_bound (l := [((1 : Rat), (flatL b (flatL a S).2).1)])
          (fun q hq => by simp only [List.mem_singleton] at hq; subst hq; exact r2) p hp
    have hbody := condBody_bound hraw
    obtain ⟨j1, j2, j3, j4⟩ := mkDef_logical n0 B0
      (normCmp (leadNeg ([(1, (flatL a S).1)] ++ negLin [(1, (flatL b (flatL a S).2).1)])) .eq
        (condBody ([(1, (flatL a S).1)] ++ negLin [(1, (flatL b (flatL a S).2).1)])) (0 - 0))
      (flatL b (flatL a S).2).2 i2
      (by
        intro v hv'
        unfold normCmp at hv'
        split at hv'
        · simp only [Fun.vars, List.mem_map] at hv'
          obtain ⟨p, hp, rfl⟩ := hv'
          exact negLin_bound hbody p hp
        · simp only [Fun.vars, List.mem_map] at hv'
          obtain ⟨p, hp, rfl⟩ := hv'
          exact hbody p hp)
      (by unfold normCmp; split <;> rfl) (by unfold normCmp; split <;> rfl) (by unfold normCmp; split <;> rfl)
    exact ⟨by simpa [flatL] using j1, by simpa [flatL] using (e1.trans e2).trans j2, by simpa [flatL] using j3,
      by simpa [flatL] using j4⟩

theorem flatLs_inv (n0 : Nat) (B0 : Bnds) (ls : LEs) (S : FS) (hI : Inv n0 B0 S) (hv : ls.vok n0 = true) :
    Inv n0 B0 (flatLs ls S).2 ∧ Ext S (flatLs ls S).2 ∧
      ∀ r ∈ (flatLs ls S).1, r < (flatLs ls S).2.next ∧ isBin01 ((flatLs ls S).2.B r) = true := by
  cases ls with
  | nil => exact ⟨hI, Ext.refl S, by simp [flatLs]⟩
  | cons l t =>
    simp only [LEs.vok, Bool.and_eq_true] at hv
    obtain ⟨i1, e1, r1, b1⟩ := flatL_inv n0 B0 l S hI hv.1
    obtain ⟨i3, e3, t3⟩ := flatLs_inv n0 B0 t (flatL l S).2 i1 hv.2
    refine ⟨by simpa [flatLs] using i3, by simpa [flatLs] using e1.trans e3, ?_⟩
    intro r hr
    simp only [flatLs, List.mem_cons] at hr ⊢
    rcases hr with h | h
    · rw [h]; exact ⟨Nat.lt_of_lt_of_le r1 e3.1, by rw [e3.2 _ r1]; exact b1⟩
    · exact t3 r h
end

end MpVerif.C01

import MpVerif.C01.PropsObjective
/-!
# C01 — statement audit (round 4): non-vacuity instances for the theorems with hypotheses

For every `C01_*` theorem of `Props.lean` whose hypotheses are more than index bounds, one concrete NON-TRIVIAL instance
that meets all hypotheses, obtained *through the theorem* (so an unsatisfiable hypothesis or domain predicate would make
the example unprovable).  For `Exact o n D P` theorems the instance shows a point with `D x ∧ P x` (completeness half gives
`realizable`) and that the soundness half yields a non-trivial fact about a solution of the emitted rows.
The composition theorems have their instances in `PropsCompose.lean` (depth 2) and `PropsObjective.lean`
(depth 3, shared subexpression, objective).

Audit notes (totalised definitions):
* `Fun.val (.div a b) = x a / x b` is Lean's total division (`x/0 = 0`); the real `DivConstraint` demands `v2 ≠ 0`.
  `C01_gadget_div_const` is stated under exactly the guard the converter has (divisor fixed, `fixedVal ≠ 0`, and the
  domain predicate forces `x b` to that value); the composition theorems read a division by a *variable* that takes the
  value 0 as 0 — they speak about the real semantics only at points where no divisor vanishes (generated models divide by
  constants only).
* `Fun.val (.min []) = Fun.val (.max []) = 0`: `C01_gadget_max/min` are stated for non-empty argument lists (`a :: t`),
  as the NL reader guarantees (`ReadNumArgs(1)`).
* `VarInfo.fixedVal = lb.getD 0` is only used under `isFixed = true` (`hf` in `C01_gadget_div_const`, `fixed_val`).
-/
namespace MpVerif.C01

theorem admits_binary_one : VarInfo.binary.admits 1 := by
  refine ⟨?_, ?_, ?_⟩
  · intro l hl; simp [VarInfo.binary] at hl; subst hl; grind
  · intro u hu; simp [VarInfo.binary] at hu; subst hu; grind
  · intro _; exact ⟨1, by simp⟩

theorem admits_binary_zero : VarInfo.binary.admits 0 := by
  refine ⟨?_, ?_, ?_⟩
  · intro l hl; simp [VarInfo.binary] at hl; subst hl; grind
  · intro u hu; simp [VarInfo.binary] at hu; subst hu; grind
  · intro _; exact ⟨0, by simp⟩

theorem admits_free (q : Rat) : ({} : VarInfo).admits q :=
  ⟨fun _ h => by simp at h, fun _ h => by simp at h, fun h => by simp at h⟩

theorem admits_box (l u q : Rat) (h1 : l ≤ q) (h2 : q ≤ u) : ({ lb := some l, ub := some u } : VarInfo).admits q :=
  ⟨fun l' h => by simp at h; subst h; exact h1, fun u' h => by simp at h; subst h; exact h2, fun h => by simp at h⟩

/-- `C01_gadget_and`: the domain `binDom` is inhabited by a non-trivial point (res = and(1,1) = 1), and the emitted rows are
realizable there -/
example : (gAnd 0 [1, 2] .mix (fun _ => VarInfo.binary) 3).realizable 3 (fun _ => 1) := by
  apply (C01_gadget_and 0 [1, 2] .mix (fun _ => VarInfo.binary) 3).2
  · exact ⟨Or.inr rfl, fun _ _ => Or.inr rfl, admits_binary_one⟩
  · simp [rel, req, Ctx.eff, Fun.val, b2r]

/-- `C01_gadget_or` -/
example : (gOr 0 [1, 2] .mix (fun _ => VarInfo.binary) 3).realizable 3 (fun v => if v = 2 then 0 else 1) := by
  apply (C01_gadget_or 0 [1, 2] .mix (fun _ => VarInfo.binary) 3).2
  · refine ⟨Or.inr (by simp), fun a ha => ?_, by simpa [inDom] using admits_binary_one⟩
    simp at ha; rcases ha with ha | ha <;> subst ha <;> simp
  · simp [rel, req, Ctx.eff, Fun.val, b2r]

/-- `C01_gadget_ifthen`: condition true, branches 5 and -2, result 5 -/
example : (gIfThen 0 1 2 3 (fun _ => {}) 4).realizable 4 (fun v => if v = 3 then -2 else if v = 1 then 1 else 5) := by
  apply (C01_gadget_ifthen 0 1 2 3 (fun _ => {}) 4 (by decide) (by decide) (by decide) (by decide)).2
  · exact ⟨Or.inr (by simp), admits_free _, admits_free _, admits_free _⟩
  · simp [Fun.val]

/-- `C01_gadget_div_const`: divisor fixed at 4 (`isFixed`, `fixedVal ≠ 0` satisfiable), 6 / 4 = 3/2 -/
example : (gDivConst 0 1 2 (fun v => if v = 2 then { lb := some 4, ub := some 4 } else {})).realizable 3
    (fun v => if v = 2 then 4 else if v = 1 then 6 else 3 / 2) := by
  apply (C01_gadget_div_const 0 1 2 (fun v => if v = 2 then { lb := some 4, ub := some 4 } else {}) 3
    (by simp [VarInfo.isFixed]) (by simp [VarInfo.fixedVal])).2
  · show VarInfo.admits _ _
    simpa using admits_box 4 4 4 (by grind) (by grind)
  · simp [Fun.val]; grind

/-- `C01_gadget_indicator_le`: `b = 1 ⇒ x0 + 2·x2 ≤ 3` with `x0 ∈ [0,4]`, `x2 ∈ [-1,1]`: the big-M hypothesis
`bigMFromBounds (linBnd B body).2.1 U` holds with `U = 6` -/
def auditB : Bnds := fun v => if v = 0 then { lb := some 0, ub := some 4 } else if v = 2 then { lb := some (-1), ub := some 1 }
  else VarInfo.binary

theorem audit_bigM : bigMFromBounds (linBnd auditB [(1, 0), (2, 2)]).2.1 6 := by
  refine ⟨?_, by unfold pracInf; grind⟩
  simp [linBnd, auditB, optAdd, optScale]
  grind

example : (gIndLE 1 1 [(1, 0), (2, 2)] 3 auditB {}).realizable 3 (fun v => if v = 1 then 1 else if v = 0 then 1 else 1) := by
  apply (C01_gadget_indicator_le 1 1 [(1, 0), (2, 2)] 3 auditB {} 3 6 audit_bigM (Or.inr rfl)).2
  · refine ⟨Or.inr (by simp), ?_⟩
    intro p hp
    simp at hp
    rcases hp with hp | hp <;> subst hp
    · show VarInfo.admits _ _
      simpa [auditB] using admits_box 0 4 1 (by grind) (by grind)
    · show VarInfo.admits _ _
      simpa [auditB] using admits_box (-1) 1 1 (by grind) (by grind)
  · intro _; simp [evalLin]; grind

/-- `C01_gadget_indicator_le_bigM_partial`: its hypotheses (infinite body bound, `cvt:bigM` set) are satisfiable;
`C01_refusal_indicator_le`: the refusal branch (infinite bound, no `cvt:bigM`) is reached -/
example : (linBnd (fun _ => {}) [(1, 0)]).2.1 = none ∧ (0 : Rat) < ({ bigM := 1000 } : Opts).bigM :=
  ⟨by simp [linBnd, optAdd, optScale], by show (0 : Rat) < 1000; grind⟩
example : (gIndLE 1 1 [(1, 0)] 3 (fun _ => {}) {}).refusal = some .indicatorInfBound :=
  (C01_refusal_indicator_le 1 1 [(1, 0)] 3 (fun _ => {}) {} (by simp [linBnd, optAdd, optScale]) (by simp; grind)).1

/-- `C01_ctx_sound_and` with a strictly smaller delivered value (a ≠ f): positive context, `a = (1,0)`, `f = (1,1)` -/
example : req .pos (Fun.val (fun v => if v = 2 then 0 else 1) (.and [1, 2])) (Fun.val (fun _ => 1) (.and [1, 2])) := by
  apply C01_ctx_sound_and .pos [1, 2] _ _
  · intro v hv; simp at hv; rcases hv with hv | hv <;> subst hv <;> simp
  · intro v _; exact Or.inr rfl
  · intro p hp
    simp [propAnd, Ctx.plus] at hp
    rcases hp with hp | hp <;> subst hp <;> simp [req] <;> grind

/-- `C01_ctx_sound_quadterms`: negative coefficient, both factors non-negative: the hypotheses (`quadDom`, per-variable
`req`) are met by `a = (5, 3)`, `f = (5, 2)` — the A0 shape after the repair -/
def auditQ : Bnds := fun v => if v = 0 then { lb := some 0, ub := some 5 } else { lb := some 0, ub := some 3 }

example : req .pos (evalQuad (fun v => if v = 0 then 5 else 3) [(-1, 0, 1)]) (evalQuad (fun v => if v = 0 then 5 else 2) [(-1, 0, 1)]) := by
  apply C01_ctx_sound_quadterms auditQ .pos [(-1, 0, 1)]
  · intro t ht; simp at ht; subst ht
    constructor
    · show VarInfo.admits _ _
      simpa [auditQ] using admits_box 0 5 5 (by grind) (by grind)
    · show VarInfo.admits _ _
      simpa [auditQ] using admits_box 0 3 3 (by grind) (by grind)
  · intro t ht; simp at ht; subst ht
    constructor
    · show VarInfo.admits _ _
      simpa [auditQ] using admits_box 0 5 5 (by grind) (by grind)
    · show VarInfo.admits _ _
      simpa [auditQ] using admits_box 0 3 2 (by grind) (by grind)
  · intro p hp
    have h0 : ¬ ((-1 : Rat) = 0) := by grind
    have h1 : ¬ ((0 : Rat) ≤ -1) := by grind
    simp [propQuad, h0, h1, quadTermCtx, lbGE0, auditQ, Ctx.flip] at hp
    rcases hp with hp | hp <;> subst hp <;> simp [req] <;> grind

/-- `C01_ctx_sound_range`: `x0 + r ≤ 4` (ctx neg on `r`), delivered `r = 3 ≥` exact `r = 2` -/
example : inRange none (some 4) (evalLin (fun v => if v = 0 then 1 else 2) [(1, 0), (1, 1)]) := by
  apply C01_ctx_sound_range [(1, 0), (1, 1)] none (some 4) (fun v => if v = 0 then 1 else 3) _
    (by intro l h; simp at h) (by intro u h; simp at h; subst h; unfold pracInf; grind)
  · intro p hp
    have h0 : ¬ ((1 : Rat) = 0) := by grind
    have h1 : (0 : Rat) ≤ 1 := by grind
    simp [propRangeLin, rangeCtx, propLin, h0, h1, Ctx.plus] at hp
    rcases hp with hp | hp <;> subst hp <;> simp [req] <;> grind
  · simp [inRange, evalLin]; grind

/-- `C01_gadget_condineq_exact_int` / `_complete_margin`: integer body 3, rhs 5, `<`: both directions of the iff meet
non-trivial instances (r = 1 with the comparison true; margin hypothesis with `b ≤ rhs - e`) -/
example : rel .mix 1 (b2r (Cmp5.lt.holds 3 5)) :=
  (C01_gadget_condineq_exact_int .lt (by decide) .mix 3 5 1 ⟨3, by simp⟩ ⟨5, by simp⟩ (Or.inr rfl)).mp
    ⟨fun _ _ => by simp [posPred]; grind, fun _ h => by simp at h⟩
example : posPred .lt (1 / 4) 3 5 :=
  ((C01_gadget_condineq_complete_margin .lt (by decide) .mix (1 / 4) 3 5 1 (Or.inr rfl) (Or.inl (by grind))
    (by simp [rel, req, Ctx.eff, b2r, Cmp5.holds]; grind) (by grind)).1 (by decide) rfl)

/-- `C01_gadget_unary_encoding`: `v ∈ {2,3,4}` with flags 1,2,3 and `y v = 3`: the hypothesis `hv` is met with `i = 1` -/
example : uencOK (fun w => if w = 0 then 3 else if w = 2 then 1 else 0) 3 2 [1, 2, 3] := by
  apply (C01_gadget_unary_encoding 0 2 [1, 2, 3] (fun w => if w = 0 then 3 else if w = 2 then 1 else 0)
    (by intro f hf; simp at hf; rcases hf with hf | hf | hf <;> subst hf <;> simp) ⟨1, by simp, by simp <;> grind⟩).mp
  intro c hc
  simp [gUnaryEnc] at hc
  rcases hc with hc | hc <;> subst hc <;> simp [Con.sat, Cmp.holds, evalLin, uencLin] <;> grind

end MpVerif.C01

import MpVerif.C01.LemmasObjective
import MpVerif.C01.PropsCompose
/-!
# C01 — the objective clause of the composition theorem, equality-delivering steps, a depth-3 instance with a shared
subexpression (property theorems only)

`C01_compose` (PropsCompose.lean) is the feasibility half of the property: a point of the original variables satisfies the
NL-level semantics iff result/auxiliary values exist that satisfy the delivered rows — for definition lists of any length,
any nesting depth, shared result variables and any mix of stored contexts, by strong induction over the creation order.

This file adds the other half of the property statement: *"at every such point the best delivered-objective value over the
auxiliary variables equals the original objective value"* — `C01_compose_objective`, under one more decidable hypothesis
`ObjCovers` (the contexts stored on the definitions include what `ConvertObjective` propagates: pos for max, neg for min),
which the per-run validator decides with `objGaps` (`drv_c01 validate … obj=`; sound by `C01_validator_objcovers_sound`).
-/
namespace MpVerif.C01

/-- **C01_compose_objective** — at an NL-feasible point `x` the original objective value `o.val (exactAsg x defs)` is
(1) attained by some delivered solution over `x` and (2) not beaten by any delivered solution over `x`:
the best delivered objective over the result and auxiliary variables *is* the original objective value.
Linear + quadratic objectives over original and result variables, both senses, any DAG of definitions. -/
theorem C01_compose_objective (B : Bnds) (n0 N : Nat) (defs : List Def) (steps : List Step) (roots : List Root)
    (Dom : Asg → Prop) (o : Obj)
    (hDom : ∀ z z' : Asg, (∀ v, v < N → z' v = z v) → Dom z → Dom z')
    (hperm : ∀ d, d ∈ defs ↔ ∃ s ∈ steps, s.toDef = d)
    (hwf : WF n0 defs) (hN : ∀ d ∈ defs, d.res < N)
    (hroots : ∀ r ∈ roots, ∀ p ∈ r.body, p.2 < N)
    (hcov : CtxCovers B defs roots)
    (hchain : Chain N steps) (hok : ∀ s ∈ steps, StepOK N Dom s)
    (hDomOK : ∀ y, Dom y → ∀ d ∈ defs, FunOK B d.f y)
    (hoN : ∀ v ∈ o.vars, v < N) (hcovO : ObjCovers B defs o)
    (hDomQ : ∀ y, Dom y → ∀ t ∈ o.quad, inDom B y t.2.1 ∧ inDom B y t.2.2)
    (x : Asg) (hDomE : Dom (exactAsg x defs)) (hnl : NLsat defs roots x) :
    (∃ y, Delivered N defs steps roots Dom x y ∧ o.val y = o.val (exactAsg x defs)) ∧
    (∀ y, Delivered N defs steps roots Dom x y → noWorse o.sense (o.val (exactAsg x defs)) (o.val y)) := by
  constructor
  · obtain ⟨y, hdel, hag⟩ := delivered_of_exact n0 N defs steps roots Dom hDom hperm hwf hN hroots hchain hok x hDomE hnl
    exact ⟨y, hdel, obj_val_agree N o (exactAsg x defs) y hag hoN⟩
  · intro y hdel
    have hrel := relaxed_of_delivered N defs steps roots Dom hperm hok x y hdel
    have inv := relaxed_invariant B n0 N defs roots x y hwf hN hcov (hDomOK y hdel.2.1) (hDomOK _ hDomE) hrel
    exact noWorse_of_req _ _ _
      (obj_req B N defs o y (exactAsg x defs) hoN hcovO (hDomQ y hdel.2.1) (hDomQ _ hDomE) inv)

/-- level-set form: over a point `x`, a delivered solution with objective value at least as good as `t` exists iff `x`
is NL-feasible and its original objective value is at least as good as `t` — so minimising/maximising the delivered
objective over all delivered solutions and the original objective over all NL-feasible points gives the same optimum. -/
theorem C01_compose_objective_level (B : Bnds) (n0 N : Nat) (defs : List Def) (steps : List Step) (roots : List Root)
    (Dom : Asg → Prop) (o : Obj)
    (hDom : ∀ z z' : Asg, (∀ v, v < N → z' v = z v) → Dom z → Dom z')
    (hperm : ∀ d, d ∈ defs ↔ ∃ s ∈ steps, s.toDef = d)
    (hwf : WF n0 defs) (hN : ∀ d ∈ defs, d.res < N)
    (hroots : ∀ r ∈ roots, ∀ p ∈ r.body, p.2 < N)
    (hfin : ∀ r ∈ roots, (∀ l, r.lb = some l → -pracInf < l) ∧ (∀ u, r.ub = some u → u < pracInf))
    (hcov : CtxCovers B defs roots)
    (hchain : Chain N steps) (hok : ∀ s ∈ steps, StepOK N Dom s)
    (hDomOK : ∀ y, Dom y → ∀ d ∈ defs, FunOK B d.f y)
    (hoN : ∀ v ∈ o.vars, v < N) (hcovO : ObjCovers B defs o)
    (hDomQ : ∀ y, Dom y → ∀ t ∈ o.quad, inDom B y t.2.1 ∧ inDom B y t.2.2)
    (x : Asg) (hDomE : Dom (exactAsg x defs)) (t : Rat) :
    (∃ y, Delivered N defs steps roots Dom x y ∧ noWorse o.sense (o.val y) t) ↔
    (NLsat defs roots x ∧ noWorse o.sense (o.val (exactAsg x defs)) t) := by
  have hcomp := C01_compose B n0 N defs steps roots Dom hDom hperm hwf hN hroots hfin hcov hchain hok hDomOK x hDomE
  constructor
  · intro ⟨y, hdel, hyt⟩
    have hnl := hcomp.mpr ⟨y, hdel⟩
    have h2 := (C01_compose_objective B n0 N defs steps roots Dom o hDom hperm hwf hN hroots hcov hchain hok hDomOK
      hoN hcovO hDomQ x hDomE hnl).2 y hdel
    refine ⟨hnl, ?_⟩
    cases hs : o.sense <;> simp only [hs, noWorse] at h2 hyt ⊢ <;> grind
  · intro ⟨hnl, het⟩
    obtain ⟨y, hdel, hval⟩ := (C01_compose_objective B n0 N defs steps roots Dom o hDom hperm hwf hN hroots hcov hchain hok
      hDomOK hoN hcovO hDomQ x hDomE hnl).1
    exact ⟨y, hdel, by rw [hval]; exact het⟩

/-- **C01_compose_quadroots** — the composition theorem with quadratic root constraints `lb ≤ lin + quad ≤ ub` over original and
result variables in addition to the linear/logical roots: a point satisfies the NL-level semantics (all linear roots and all
quadratic roots with every result variable read exactly) iff result/auxiliary values exist that satisfy the delivered rows
and the quadratic roots.  One more decidable hypothesis `QRootsCover` (validator `qrootGaps`). -/
theorem C01_compose_quadroots (B : Bnds) (n0 N : Nat) (defs : List Def) (steps : List Step) (roots : List Root)
    (qroots : List QRoot) (Dom : Asg → Prop)
    (hDom : ∀ z z' : Asg, (∀ v, v < N → z' v = z v) → Dom z → Dom z')
    (hperm : ∀ d, d ∈ defs ↔ ∃ s ∈ steps, s.toDef = d)
    (hwf : WF n0 defs) (hN : ∀ d ∈ defs, d.res < N)
    (hroots : ∀ r ∈ roots, ∀ p ∈ r.body, p.2 < N)
    (hfin : ∀ r ∈ roots, (∀ l, r.lb = some l → -pracInf < l) ∧ (∀ u, r.ub = some u → u < pracInf))
    (hcov : CtxCovers B defs roots)
    (hchain : Chain N steps) (hok : ∀ s ∈ steps, StepOK N Dom s)
    (hDomOK : ∀ y, Dom y → ∀ d ∈ defs, FunOK B d.f y)
    (hqN : ∀ r ∈ qroots, ∀ v ∈ r.vars, v < N)
    (hqfin : ∀ r ∈ qroots, (∀ l, r.lb = some l → -pracInf < l) ∧ (∀ u, r.ub = some u → u < pracInf))
    (hqcov : QRootsCover B defs qroots)
    (hDomQ : ∀ y, Dom y → ∀ r ∈ qroots, ∀ t ∈ r.quad, inDom B y t.2.1 ∧ inDom B y t.2.2)
    (x : Asg) (hDomE : Dom (exactAsg x defs)) :
    (NLsat defs roots x ∧ ∀ r ∈ qroots, r.sat (exactAsg x defs)) ↔
      ∃ y, Delivered N defs steps roots Dom x y ∧ ∀ r ∈ qroots, r.sat y := by
  constructor
  · intro ⟨hnl, hq⟩
    obtain ⟨y, hdel, hag⟩ := delivered_of_exact n0 N defs steps roots Dom hDom hperm hwf hN hroots hchain hok x hDomE hnl
    exact ⟨y, hdel, fun r hr => (qroot_sat_agree N r (exactAsg x defs) y hag (hqN r hr)).mpr (hq r hr)⟩
  · intro ⟨y, hdel, hq⟩
    have hnl := (C01_compose B n0 N defs steps roots Dom hDom hperm hwf hN hroots hfin hcov hchain hok hDomOK x hDomE).mpr
      ⟨y, hdel⟩
    refine ⟨hnl, ?_⟩
    intro r hr
    have hrel := relaxed_of_delivered N defs steps roots Dom hperm hok x y hdel
    have inv := relaxed_invariant B n0 N defs roots x y hwf hN hcov (hDomOK y hdel.2.1) (hDomOK _ hDomE) hrel
    exact qroot_transfer B N defs r y (exactAsg x defs) (hqN r hr) (hqcov r hr) (hqfin r hr)
      (hDomQ y hdel.2.1 r hr) (hDomQ _ hDomE r hr) inv (hq r hr)

theorem C01_validator_qrootscover_sound (B : Bnds) (defs : List Def) (qroots : List QRoot)
    (h : qrootGaps B defs qroots = []) : QRootsCover B defs qroots := qrootGaps_sound B defs qroots h

/-- a gadget proved to deliver the equality `res = f(args)` (LFC→LinConEQ, not, if-then-else, division by a constant)
is a valid conversion step under any stored context -/
theorem C01_compose_step_of_eq_gadget (N : Nat) (Dom D : Asg → Prop) (d : Def) (o : Out) (n : Nat)
    (hN : N ≤ n) (hDD : ∀ y, Dom y → D y)
    (hex : Exact o n D (fun x => x d.res = d.f.val x))
    (hrows : ∀ c ∈ o.cons, ∀ v ∈ c.vars, v < n + o.vars.length) :
    StepOK N Dom (Step.ofGadget d o n) := stepOK_of_exact_eq N Dom D d o n hN hDD hex hrows

/-- the per-run validator for the objective (`objGaps`, executed by `drv_c01`) is sound -/
theorem C01_validator_objcovers_sound (B : Bnds) (defs : List Def) (o : Obj) (h : objGaps B defs o = []) :
    ObjCovers B defs o := objGaps_sound B defs o h


/-! ## non-vacuity: a 3-level model with a shared subexpression and mixed contexts

NL: `minimize x0 + (abs(x2) + max(abs(x2), x1))` subject to `x0 + (abs(x2) + max(abs(x2), x1)) ≤ u`.
Flat model (original variables 0,1,2):  `r3 = abs(x2)` (used twice: by `max` → mix, by the sum → neg; stored mix),
`r4 = max(r3, x1)` (neg), `r5 = r3 + r4` (LinearFunctionalConstraint, neg); root `x0 + r5 ≤ u`; objective `min x0 + r5`.
Every hypothesis of `C01_compose` and `C01_compose_objective` is discharged from the proved gadget theorems
(`C01_gadget_lfc` through `C01_compose_step_of_eq_gadget`, `C01_gadget_max`, `C01_gadget_abs`) and the executable validators. -/

def ex3Defs : List Def := [⟨3, .mix, .abs 2⟩, ⟨4, .neg, .max [3, 1]⟩, ⟨5, .neg, .affine [(1, 3), (1, 4)] 0⟩]
def ex3Roots (u : Rat) : List Root := [⟨[(1, 0), (1, 5)], none, some u⟩]
def ex3Obj : Obj := { sense := .min, lin := [(1, 0), (1, 5)] }
def ex3Steps (B : Bnds) : List Step :=
  [Step.ofGadget ⟨5, .neg, .affine [(1, 3), (1, 4)] 0⟩ (gLFC 5 [(1, 3), (1, 4)] 0) 6,
   Step.ofGadget ⟨4, .neg, .max [3, 1]⟩ (gMax 4 [3, 1] .neg B 6) 6,
   Step.ofGadget ⟨3, .mix, .abs 2⟩ (gAbs 3 2 .mix B 6) 6]

theorem ex3_gmax (B : Bnds) : gMax 4 [3, 1] .neg B 6 = mmConvex 1 4 [3, 1] := by
  simp [gMax, dispatch, needNeg, needPos, Ctx.eff, Ctx.hasNeg, Ctx.hasPos, mmConvex]

theorem ex3_perm (B : Bnds) : ∀ d, d ∈ ex3Defs ↔ ∃ s ∈ ex3Steps B, s.toDef = d := by
  intro d
  simp only [ex3Defs, ex3Steps, List.mem_cons, List.not_mem_nil, or_false, Step.ofGadget]
  constructor
  · intro h; rcases h with h | h | h <;> subst h
    · exact ⟨_, Or.inr (Or.inr rfl), rfl⟩
    · exact ⟨_, Or.inr (Or.inl rfl), rfl⟩
    · exact ⟨_, Or.inl rfl, rfl⟩
  · intro ⟨s, hs, e⟩
    rcases hs with hs | hs | hs <;> subst hs <;> subst e <;> simp

theorem ex3_cov (B : Bnds) (u : Rat) : CtxCovers B ex3Defs (ex3Roots u) := by
  have h1 : ¬ ((1 : Rat) = 0) := by grind
  have h2 : (0 : Rat) ≤ 1 := by grind
  apply C01_validator_ctxcovers_sound
  simp [ctxGaps, ctxUses, ex3Defs, ex3Roots, propRangeLin, rangeCtx, propLin, h1, h2, propFun, propDefault, propLFC,
    Fun.vars, ctxOf, Ctx.eff, Ctx.plus]
  decide

theorem ex3_objcov (B : Bnds) : ObjCovers B ex3Defs ex3Obj := by
  have h1 : ¬ ((1 : Rat) = 0) := by grind
  have h2 : (0 : Rat) ≤ 1 := by grind
  apply C01_validator_objcovers_sound
  simp [objGaps, propObj, ex3Obj, objCtx, propLin, propQuad, h1, h2, ex3Defs, ctxOf, Ctx.eff, Ctx.plus]
  decide

theorem ex3_chain (B : Bnds) : Chain 6 (ex3Steps B) := by
  simp [ex3Steps, Chain, Step.ofGadget, ex3_gmax, mmConvex, gLFC, gAbs, dispatch, needNeg, needPos, Ctx.eff, Ctx.hasNeg,
    Ctx.hasPos, absNeg, absPos]

theorem ex3_ok (B : Bnds) : ∀ s ∈ ex3Steps B, StepOK 6 (fun _ => True) s := by
  intro s hs
  simp only [ex3Steps, List.mem_cons, List.not_mem_nil, or_false] at hs
  rcases hs with hs | hs | hs <;> subst hs
  · apply C01_compose_step_of_eq_gadget 6 (fun _ => True) (fun _ => True) _ _ 6 (Nat.le_refl 6) (fun _ _ => trivial)
    · exact C01_gadget_lfc 5 [(1, 3), (1, 4)] 0 6
    · intro c hc v hv
      simp [gLFC] at hc ⊢
      subst hc
      simp [Con.vars] at hv
      rcases hv with hv | hv | hv <;> subst hv <;> decide
  · apply C01_compose_step_of_gadget 6 (fun _ => True) (fun _ => True) _ _ 6 (Nat.le_refl 6) (fun _ _ => trivial)
    · exact C01_gadget_max 4 3 [1] .neg B 6 (by decide) (by intro b hb; simp at hb; rcases hb with hb | hb <;> subst hb <;> decide)
    · intro c hc v hv
      rw [ex3_gmax] at hc ⊢
      simp [mmConvex] at hc
      rcases hc with hc | hc <;> subst hc <;> simp [Con.vars] at hv <;> rcases hv with hv | hv <;> subst hv <;> decide
  · apply C01_compose_step_of_gadget 6 (fun _ => True) (fun _ => True) _ _ 6 (Nat.le_refl 6) (fun _ _ => trivial)
    · exact C01_gadget_abs 3 2 .mix B 6 (by decide) (by decide)
    · intro c hc v hv
      simp [gAbs, dispatch, needNeg, needPos, Ctx.eff, Ctx.hasNeg, Ctx.hasPos, absNeg, absPos] at hc ⊢
      have hv' : v = 3 ∨ v = 2 ∨ v = 6 := by
        rcases hc with hc | hc | hc | hc <;> subst hc <;> simp [Con.vars] at hv <;> grind
      rcases hv' with h | h | h <;> subst h <;> decide

theorem ex3_wf : WF 3 ex3Defs := by simp [ex3Defs, WF, Fun.vars]
theorem ex3_N : ∀ d ∈ ex3Defs, d.res < 6 := by
  intro d hd; simp [ex3Defs] at hd; rcases hd with hd | hd | hd <;> subst hd <;> simp
theorem ex3_roots (u : Rat) : ∀ r ∈ ex3Roots u, ∀ p ∈ r.body, p.2 < 6 := by
  intro r hr p hp
  simp [ex3Roots] at hr; subst hr
  simp at hp; rcases hp with hp | hp <;> subst hp <;> simp
theorem ex3_funok (B : Bnds) : ∀ y : Asg, True → ∀ d ∈ ex3Defs, FunOK B d.f y := by
  intro y _ d hd
  simp [ex3Defs] at hd; rcases hd with hd | hd | hd <;> subst hd <;> simp [FunOK]

/-- feasibility half for the 3-level shared model: every hypothesis of `C01_compose` holds -/
theorem C01_compose_example_depth3_shared (B : Bnds) (u : Rat) (hu : u < pracInf) (x : Asg) :
    NLsat ex3Defs (ex3Roots u) x ↔ ∃ y, Delivered 6 ex3Defs (ex3Steps B) (ex3Roots u) (fun _ => True) x y := by
  apply C01_compose B 3 6 ex3Defs (ex3Steps B) (ex3Roots u) (fun _ => True) (fun _ _ _ _ => trivial) (ex3_perm B)
    ex3_wf ex3_N (ex3_roots u) _ (ex3_cov B u) (ex3_chain B) (ex3_ok B) (ex3_funok B) x trivial
  intro r hr
  simp [ex3Roots] at hr; subst hr
  exact ⟨by intro l hl; simp at hl, by intro v hv; simp at hv; subst hv; exact hu⟩

/-- objective half for the same model: the best delivered value of `min x0 + r5` over the auxiliaries equals
`x0 + (|x2| + max(|x2|, x1))` at every feasible point -/
theorem C01_compose_objective_example_depth3_shared (B : Bnds) (u : Rat) (x : Asg) (hnl : NLsat ex3Defs (ex3Roots u) x) :
    (∃ y, Delivered 6 ex3Defs (ex3Steps B) (ex3Roots u) (fun _ => True) x y ∧
        ex3Obj.val y = ex3Obj.val (exactAsg x ex3Defs)) ∧
    (∀ y, Delivered 6 ex3Defs (ex3Steps B) (ex3Roots u) (fun _ => True) x y →
        ex3Obj.val (exactAsg x ex3Defs) ≤ ex3Obj.val y) := by
  have h := C01_compose_objective B 3 6 ex3Defs (ex3Steps B) (ex3Roots u) (fun _ => True) ex3Obj (fun _ _ _ _ => trivial)
    (ex3_perm B) ex3_wf ex3_N (ex3_roots u) (ex3_cov B u) (ex3_chain B) (ex3_ok B) (ex3_funok B)
    (by intro v hv; simp [Obj.vars, ex3Obj] at hv; rcases hv with hv | hv <;> subst hv <;> decide)
    (ex3_objcov B) (by intro y _ t ht; simp [ex3Obj] at ht) x trivial hnl
  exact h

/-- the same model with the quadratic root `x1 · r3 ≤ 10` added (free bounds): every hypothesis of
`C01_compose_quadroots` holds -/
def ex3Q : List QRoot := [⟨[], [(1, 1, 3)], none, some 10⟩]

theorem C01_compose_quadroots_example (u : Rat) (hu : u < pracInf) (x : Asg) :
    (NLsat ex3Defs (ex3Roots u) x ∧ ∀ r ∈ ex3Q, r.sat (exactAsg x ex3Defs)) ↔
      ∃ y, Delivered 6 ex3Defs (ex3Steps (fun _ => {})) (ex3Roots u) (fun _ => True) x y ∧ ∀ r ∈ ex3Q, r.sat y := by
  have h1 : ¬ ((1 : Rat) = 0) := by grind
  have h2 : (0 : Rat) ≤ 1 := by grind
  apply C01_compose_quadroots (fun _ => {}) 3 6 ex3Defs (ex3Steps _) (ex3Roots u) ex3Q (fun _ => True)
    (fun _ _ _ _ => trivial) (ex3_perm _) ex3_wf ex3_N (ex3_roots u) _ (ex3_cov _ u) (ex3_chain _) (ex3_ok _) (ex3_funok _)
  · intro r hr v hv
    simp [ex3Q] at hr; subst hr
    simp [QRoot.vars] at hv; rcases hv with hv | hv <;> subst hv <;> decide
  · intro r hr
    simp [ex3Q] at hr; subst hr
    exact ⟨by intro l hl; simp at hl, by intro v hv; simp at hv; subst hv; unfold pracInf; grind⟩
  · apply C01_validator_qrootscover_sound
    simp [qrootGaps, propQRoot, ex3Q, rangeCtx, propLin, propQuad, h1, h2, quadTermCtx, lbGE0, ubLE0, ex3Defs, ctxOf, Ctx.eff]
    decide
  · intro y _ r hr t ht
    simp [ex3Q] at hr; subst hr
    simp at ht; subst ht
    exact ⟨⟨fun _ h => by simp at h, fun _ h => by simp at h, fun h => by simp at h⟩,
           ⟨fun _ h => by simp at h, fun _ h => by simp at h, fun h => by simp at h⟩⟩
  · trivial
  · intro r hr
    simp [ex3Roots] at hr; subst hr
    exact ⟨by intro l hl; simp at hl, by intro v hv; simp at hv; subst hv; exact hu⟩

/-- the instance is not degenerate: at `x = (0, 1, -2)` the exact values are `r3 = 2, r4 = 2, r5 = 4`, the point is feasible
for `u = 4` and infeasible for `u = 3` -/
example : exactAsg (fun v => if v = 1 then 1 else if v = 2 then -2 else 0) ex3Defs 5 = 4 := by
  simp [ex3Defs, exactAsg, setVar, Fun.val, maxL, evalLin]; grind
example : NLsat ex3Defs (ex3Roots 4) (fun v => if v = 1 then 1 else if v = 2 then -2 else 0) := by
  intro r hr
  simp [ex3Roots] at hr; subst hr
  simp [Root.sat, inRange, ex3Defs, exactAsg, setVar, Fun.val, maxL, evalLin]; grind
example : ¬ NLsat ex3Defs (ex3Roots 3) (fun v => if v = 1 then 1 else if v = 2 then -2 else 0) := by
  intro h
  have := h _ (List.mem_singleton.mpr rfl)
  simp [ex3Roots, Root.sat, inRange, ex3Defs, exactAsg, setVar, Fun.val, maxL, evalLin] at this; grind

end MpVerif.C01

import MpVerif.C01.ModelConvert
import MpVerif.Gen.C06Prepro
/-!
# C01 — the created bounds/type of `convert`'s result variables (`resBnd`) are the ones `PreprocessConstraint` computes (round 7)

`lean/MpVerif/Gen/C06Prepro.lean` is GENERATED from include/mp/flat/constr_prepro.h on every run (translators/gen_c06.py, clang AST →
executable Lean over extended reals `ER` with IEEE comparison semantics).  The theorems below prove, for ALL bounds and ALL argument
lists, that the generated `prepro_<Kind>` leaves exactly the bounds/type that the hand-written `resBnd` of the reference converter
(ModelConvert.lean) assigns — so a change of `PreprocessConstraint(MaxConstraint&…)` etc. in the source breaks an obligation.
The embedding: a C01 bound `none` is `-inf` (lower) / `+inf` (upper); NaN does not occur.
-/
namespace MpVerif.C01
open MpVerif.C06 (ER)
open MpVerif.C06.ER

def erLb : Option Rat → ER
  | none => .ninf
  | some q => .fin q
def erUb : Option Rat → ER
  | none => .pinf
  | some q => .fin q
def optOf : ER → Option Rat
  | .fin q => some q
  | _ => none

/-- the C06 environment that describes the same bounds/types as `B` -/
def envOf (B : Bnds) : MpVerif.C06.Env := fun v => ⟨erLb (B v).lb, erUb (B v).ub, (B v).isInt⟩

/-- the `PreprocessInfo` left by an overload, read back as a C01 `VarInfo` -/
def viOfPre (p : MpVerif.C06.Pre) : VarInfo := { lb := optOf p.lb, ub := optOf p.ub, isInt := p.int }

@[simp] theorem optOf_erLb (x : Option Rat) : optOf (erLb x) = x := by cases x <;> rfl
@[simp] theorem optOf_erUb (x : Option Rat) : optOf (erUb x) = x := by cases x <;> rfl

/-! ### `std::max` / `std::min` on embedded bounds -/

theorem smax_lb (x y : Option Rat) : smax (erLb x) (erLb y) = erLb (optMaxI x y) := by
  cases x <;> cases y <;> simp [smax, erLb, optMaxI, lt]
  rename_i a b
  by_cases h : a < b <;> by_cases h2 : a ≤ b <;> simp [h, h2] <;> grind

theorem smin_lb (x y : Option Rat) : smin (erLb x) (erLb y) = erLb (optMin2 x y) := by
  cases x <;> cases y <;> simp [smin, erLb, optMin2, lt]
  rename_i a b
  by_cases h : b < a <;> by_cases h2 : a ≤ b <;> simp [h, h2] <;> grind

theorem smax_ub (x y : Option Rat) : smax (erUb x) (erUb y) = erUb (optMax2 x y) := by
  cases x <;> cases y <;> simp [smax, erUb, optMax2, lt]
  rename_i a b
  by_cases h : a < b <;> by_cases h2 : a ≤ b <;> simp [h, h2] <;> grind

theorem smin_ub (x y : Option Rat) : smin (erUb x) (erUb y) = erUb (optMinI x y) := by
  cases x <;> cases y <;> simp [smin, erUb, optMinI, lt]
  rename_i a b
  by_cases h : b < a <;> by_cases h2 : a ≤ b <;> simp [h, h2] <;> grind

theorem smax_ninf_lb (x : Option Rat) : smax .ninf (erLb x) = erLb x := by cases x <;> simp [smax, erLb, lt]
theorem smax_ninf_ub (x : Option Rat) : smax .ninf (erUb x) = erUb x := by cases x <;> simp [smax, erUb, lt]
theorem smin_pinf_lb (x : Option Rat) : smin .pinf (erLb x) = erLb x := by cases x <;> simp [smin, erLb, lt]
theorem smin_pinf_ub (x : Option Rat) : smin .pinf (erUb x) = erUb x := by cases x <;> simp [smin, erUb, lt]

theorem optMaxI_assoc (x y z : Option Rat) : optMaxI (optMaxI x y) z = optMaxI x (optMaxI y z) := by
  cases x <;> cases y <;> cases z <;> simp [optMaxI] <;> grind
theorem optMinI_assoc (x y z : Option Rat) : optMinI (optMinI x y) z = optMinI x (optMinI y z) := by
  cases x <;> cases y <;> cases z <;> simp [optMinI] <;> grind
theorem optMax2_assoc (x y z : Option Rat) : optMax2 (optMax2 x y) z = optMax2 x (optMax2 y z) := by
  cases x <;> cases y <;> cases z <;> simp [optMax2] <;> grind
theorem optMin2_assoc (x y z : Option Rat) : optMin2 (optMin2 x y) z = optMin2 x (optMin2 y z) := by
  cases x <;> cases y <;> cases z <;> simp [optMin2] <;> grind

/-! ### the array helpers: left fold of the C++ loop = the right-recursive definition of the model -/

/-- a left fold of an associative operation over a non-empty list, against the right recursion with singleton base -/
theorem foldl_eq_rec (f : Option Rat → Option Rat → Option Rat) (g : Var → Option Rat) (R : List Var → Option Rat)
    (hassoc : ∀ x y z, f (f x y) z = f x (f y z))
    (h1 : ∀ a, R [a] = g a) (h2 : ∀ a b t, R (a :: b :: t) = f (g a) (R (b :: t))) :
    ∀ (t : List Var) (acc : Option Rat), t ≠ [] → t.foldl (fun r v => f r (g v)) acc = f acc (R t) := by
  intro t
  induction t with
  | nil => intro acc h; exact absurd rfl h
  | cons b t ih =>
    intro acc _
    cases t with
    | nil => simp [h1]
    | cons c t' =>
      have := ih (f acc (g b)) (by simp)
      simp only [List.foldl_cons] at this ⊢
      rw [this, hassoc, h2]

theorem lbMax_cons2 (B : Bnds) (a b : Var) (t : List Var) : lbMax B (a :: b :: t) = optMaxI (B a).lb (lbMax B (b :: t)) := rfl
theorem ubMax_cons2 (B : Bnds) (a b : Var) (t : List Var) : ubMax B (a :: b :: t) = optMax2 (B a).ub (ubMax B (b :: t)) := rfl
theorem lbMin_cons2 (B : Bnds) (a b : Var) (t : List Var) : lbMin B (a :: b :: t) = optMin2 (B a).lb (lbMin B (b :: t)) := rfl
theorem ubMin_cons2 (B : Bnds) (a b : Var) (t : List Var) : ubMin B (a :: b :: t) = optMinI (B a).ub (ubMin B (b :: t)) := rfl

theorem foldl_smax_lb (B : Bnds) (t : List Var) (acc : Option Rat) :
    t.foldl (fun r v => smax r ((envOf B) v).lb) (erLb acc) = erLb (t.foldl (fun r v => optMaxI r (B v).lb) acc) := by
  induction t generalizing acc with
  | nil => rfl
  | cons b t ih => simp only [List.foldl_cons, envOf, smax_lb]; exact ih _
theorem foldl_smin_lb (B : Bnds) (t : List Var) (acc : Option Rat) :
    t.foldl (fun r v => smin r ((envOf B) v).lb) (erLb acc) = erLb (t.foldl (fun r v => optMin2 r (B v).lb) acc) := by
  induction t generalizing acc with
  | nil => rfl
  | cons b t ih => simp only [List.foldl_cons, envOf, smin_lb]; exact ih _
theorem foldl_smax_ub (B : Bnds) (t : List Var) (acc : Option Rat) :
    t.foldl (fun r v => smax r ((envOf B) v).ub) (erUb acc) = erUb (t.foldl (fun r v => optMax2 r (B v).ub) acc) := by
  induction t generalizing acc with
  | nil => rfl
  | cons b t ih => simp only [List.foldl_cons, envOf, smax_ub]; exact ih _
theorem foldl_smin_ub (B : Bnds) (t : List Var) (acc : Option Rat) :
    t.foldl (fun r v => smin r ((envOf B) v).ub) (erUb acc) = erUb (t.foldl (fun r v => optMinI r (B v).ub) acc) := by
  induction t generalizing acc with
  | nil => rfl
  | cons b t ih => simp only [List.foldl_cons, envOf, smin_ub]; exact ih _

/-- `lb_max_array` -/
theorem lbMaxArray_eq (B : Bnds) (a : Var) (t : List Var) :
    MpVerif.C06.lbMaxArray (envOf B) (a :: t) = erLb (lbMax B (a :: t)) := by
  have h0 : smax ER.ninf ((envOf B) a).lb = erLb (B a).lb := by simp [envOf, smax_ninf_lb]
  simp only [MpVerif.C06.lbMaxArray, List.foldl_cons, h0, foldl_smax_lb]
  congr 1
  cases t with
  | nil => rfl
  | cons b t' =>
    rw [foldl_eq_rec optMaxI (fun v => (B v).lb) (lbMax B) optMaxI_assoc (fun _ => rfl) (lbMax_cons2 B) (b :: t') _ (by simp)]
    rfl

/-- `ub_array` -/
theorem ubArray_eq (B : Bnds) (a : Var) (t : List Var) :
    MpVerif.C06.ubArray (envOf B) (a :: t) = erUb (ubMax B (a :: t)) := by
  have h0 : smax ER.ninf ((envOf B) a).ub = erUb (B a).ub := by simp [envOf, smax_ninf_ub]
  simp only [MpVerif.C06.ubArray, List.foldl_cons, h0, foldl_smax_ub]
  congr 1
  cases t with
  | nil => rfl
  | cons b t' =>
    rw [foldl_eq_rec optMax2 (fun v => (B v).ub) (ubMax B) optMax2_assoc (fun _ => rfl) (ubMax_cons2 B) (b :: t') _ (by simp)]
    rfl

/-- `lb_array` -/
theorem lbArray_eq (B : Bnds) (a : Var) (t : List Var) :
    MpVerif.C06.lbArray (envOf B) (a :: t) = erLb (lbMin B (a :: t)) := by
  have h0 : smin ER.pinf ((envOf B) a).lb = erLb (B a).lb := by simp [envOf, smin_pinf_lb]
  simp only [MpVerif.C06.lbArray, List.foldl_cons, h0, foldl_smin_lb]
  congr 1
  cases t with
  | nil => rfl
  | cons b t' =>
    rw [foldl_eq_rec optMin2 (fun v => (B v).lb) (lbMin B) optMin2_assoc (fun _ => rfl) (lbMin_cons2 B) (b :: t') _ (by simp)]
    rfl

/-- `ub_min_array` -/
theorem ubMinArray_eq (B : Bnds) (a : Var) (t : List Var) :
    MpVerif.C06.ubMinArray (envOf B) (a :: t) = erUb (ubMin B (a :: t)) := by
  have h0 : smin ER.pinf ((envOf B) a).ub = erUb (B a).ub := by simp [envOf, smin_pinf_ub]
  simp only [MpVerif.C06.ubMinArray, List.foldl_cons, h0, foldl_smin_ub]
  congr 1
  cases t with
  | nil => rfl
  | cons b t' =>
    rw [foldl_eq_rec optMinI (fun v => (B v).ub) (ubMin B) optMinI_assoc (fun _ => rfl) (ubMin_cons2 B) (b :: t') _ (by simp)]
    rfl

/-! ### `common_type` -/

theorem isInteger_fin (q : Rat) : isInteger (.fin q) = (q.den == 1) := by
  simp only [isInteger, ER.floor, ER.ceil, ER.eq, Rat.floor, Rat.ceil]
  by_cases h : q.den = 1
  · simp [h]
  · simp only [h, if_false]
    have h2 : (q.den == 1) = false := by simp [h]
    rw [h2]
    have : ¬ (((q.num / (q.den : Int) : Int) : Rat) = ((q.num / (q.den : Int) + 1 : Int) : Rat)) := by
      intro hh
      have := Rat.intCast_inj.mp hh
      omega
    exact decide_eq_false this

theorem decide_eq_beq_rat (a b : Rat) : decide (a = b) = (a == b) := by by_cases h : a = b <;> simp [h]

theorem intLike_eq (B : Bnds) (v : Var) :
    (((envOf B) v).int || (MpVerif.C06.isFixed (envOf B) v && isInteger ((envOf B) v).lb)) = intLike (B v) := by
  simp only [envOf, MpVerif.C06.isFixed, intLike, VarInfo.isFixed, VarInfo.fixedVal, isIntQ]
  cases h1 : (B v).lb <;> cases h2 : (B v).ub <;> simp [erLb, erUb, ER.eq, isInteger_fin, decide_eq_beq_rat]

theorem commonType_eq (B : Bnds) (as : List Var) :
    MpVerif.C06.commonType (envOf B) as = as.all (fun a => intLike (B a)) := by
  simp only [MpVerif.C06.commonType]
  induction as with
  | nil => rfl
  | cons a t _ => simp only [List.all_cons, intLike_eq]

/-! ### the tie theorems: generated `PreprocessConstraint` overloads = `resBnd` -/

open MpVerif.Gen.C06 in
/-- `PreprocessConstraint(MaxConstraint&)`: bounds `[lb_max_array, ub_array]`, `common_type` — for every non-empty argument list -/
theorem C01_gen_prepro_max (B : Bnds) (a : Var) (t : List Var) :
    viOfPre (prepro_Max (envOf B) (a :: t) []).pre = resBnd B (.max (a :: t)) ∧
    (prepro_Max (envOf B) (a :: t) []).rv = none ∧ (prepro_Max (envOf B) (a :: t) []).narrow = [] := by
  refine ⟨?_, rfl, rfl⟩
  simp only [prepro_Max, MpVerif.C06.Pre.narrow, MpVerif.C06.Pre.setType, viOfPre, resBnd, lbMaxArray_eq, ubArray_eq,
    smax_ninf_lb, smin_pinf_ub, optOf_erLb, optOf_erUb, commonType_eq]

open MpVerif.Gen.C06 in
/-- `PreprocessConstraint(MinConstraint&)`: bounds `[lb_array, ub_min_array]`, `common_type` -/
theorem C01_gen_prepro_min (B : Bnds) (a : Var) (t : List Var) :
    viOfPre (prepro_Min (envOf B) (a :: t) []).pre = resBnd B (.min (a :: t)) ∧
    (prepro_Min (envOf B) (a :: t) []).rv = none ∧ (prepro_Min (envOf B) (a :: t) []).narrow = [] := by
  refine ⟨?_, rfl, rfl⟩
  simp only [prepro_Min, MpVerif.C06.Pre.narrow, MpVerif.C06.Pre.setType, viOfPre, resBnd, lbArray_eq, ubMinArray_eq,
    smax_ninf_lb, smin_pinf_ub, optOf_erLb, optOf_erUb, commonType_eq]

open MpVerif.Gen.C06 in
/-- `PreprocessConstraint(IfThenConstraint&)`: `[min(lb_then, lb_else), max(ub_then, ub_else)]`, `common_type` of the two branches -/
theorem C01_gen_prepro_ifthen (B : Bnds) (c t e : Var) :
    viOfPre (prepro_IfThen (envOf B) [c, t, e] []).pre = resBnd B (.ifthen c t e) ∧
    (prepro_IfThen (envOf B) [c, t, e] []).rv = none ∧ (prepro_IfThen (envOf B) [c, t, e] []).narrow = [] := by
  refine ⟨?_, rfl, rfl⟩
  have hl : smin ((envOf B) t).lb ((envOf B) e).lb = erLb (optMin2 (B t).lb (B e).lb) := by simp [envOf, smin_lb]
  have hu : smax ((envOf B) t).ub ((envOf B) e).ub = erUb (optMax2 (B t).ub (B e).ub) := by simp [envOf, smax_ub]
  simp only [prepro_IfThen, MpVerif.C06.Pre.narrow, MpVerif.C06.Pre.setType, viOfPre, resBnd, List.getD_cons_succ, List.getD_cons_zero,
    hl, hu, smax_ninf_lb, smin_pinf_ub, optOf_erLb, optOf_erUb, commonType_eq, List.all_cons, List.all_nil, Bool.and_true]

open MpVerif.Gen.C06 in
/-- `PreprocessConstraint(CountConstraint&)`: `[0, number of arguments]`, integer -/
theorem C01_gen_prepro_count (B : Bnds) (as : List Var) :
    viOfPre (prepro_Count (envOf B) as []).pre = resBnd B (.count as) ∧
    (prepro_Count (envOf B) as []).rv = none ∧ (prepro_Count (envOf B) as []).narrow = [] := by
  refine ⟨?_, rfl, rfl⟩
  simp [prepro_Count, MpVerif.C06.Pre.narrow, MpVerif.C06.Pre.setType, viOfPre, resBnd, smax, smin, lt, optOf]

open MpVerif.Gen.C06 in
/-- `PreprocessConstraint(NotConstraint&)`: a binary result -/
theorem C01_gen_prepro_not (B : Bnds) (a : Var) :
    viOfPre (prepro_Not (envOf B) [a] []).pre = resBnd B (.not a) ∧ (prepro_Not (envOf B) [a] []).rv = none := by
  refine ⟨?_, rfl⟩
  simp [prepro_Not, MpVerif.C06.Pre.narrow, MpVerif.C06.Pre.setType, viOfPre, resBnd, VarInfo.binary, smax, smin, lt, optOf]

open MpVerif.Gen.C06 in
/-- `PreprocessConstraint(AbsConstraint&)`: the overload returns an existing / affine result variable (no new definition) exactly on
the inputs the reference converter flags as preprocessing shortcut (`shortcutDef`: argument with `lb ≥ 0` or `ub ≤ 0`) -/
theorem C01_gen_prepro_abs_shortcut (B : Bnds) (a : Var) :
    ((prepro_Abs (envOf B) [a] []).rv.isSome) = (lbGE0 (B a) || ubLE0 (B a)) := by
  simp only [prepro_Abs, List.getD_cons_zero, envOf, lbGE0, ubLE0]
  cases h1 : (B a).lb <;> cases h2 : (B a).ub <;> simp [erLb, erUb, le, lt, ER.eq] <;> grind

theorem neg_erLb (x : Option Rat) : ER.neg (erLb x) = erUb (x.map (- ·)) := by cases x <;> rfl

open MpVerif.Gen.C06 in
/-- … and otherwise leaves `[0, max(-lb, ub)]` with the argument's type: the bounds `resBnd` creates -/
theorem C01_gen_prepro_abs (B : Bnds) (a : Var) (h : (lbGE0 (B a) || ubLE0 (B a)) = false) :
    viOfPre (prepro_Abs (envOf B) [a] []).pre = resBnd B (.abs a) := by
  have c1 : le (.fin 0) ((envOf B) a).lb = false := by
    have h' : lbGE0 (B a) = false := by cases hh : lbGE0 (B a) <;> simp [hh] at h ⊢
    simp only [envOf, lbGE0] at h' ⊢
    cases h1 : (B a).lb <;> simp [h1, erLb, le, lt, ER.eq] at h' ⊢ <;> grind
  have c2 : le ((envOf B) a).ub (.fin 0) = false := by
    have h' : ubLE0 (B a) = false := by cases hh : ubLE0 (B a) <;> simp [hh] at h ⊢
    simp only [envOf, ubLE0] at h' ⊢
    cases h2 : (B a).ub <;> simp [h2, erUb, le, lt, ER.eq] at h' ⊢ <;> grind
  simp only [prepro_Abs, List.getD_cons_zero, c1, c2, Bool.false_eq_true, if_false]
  have hn : ER.neg ((envOf B) a).lb = erUb ((B a).lb.map (- ·)) := by simp [envOf, neg_erLb]
  have hu : ((envOf B) a).ub = erUb (B a).ub := rfl
  have h0 : smax ER.ninf (ER.fin 0) = erLb (some 0) := by simp [smax, lt, erLb]
  simp only [MpVerif.C06.Pre.narrow, MpVerif.C06.Pre.setType, viOfPre, resBnd, hn, hu, smax_ub, smin_pinf_ub, h0, optOf_erLb, optOf_erUb]
  rfl

/-! ### non-vacuity: the generated overloads evaluated on concrete bounds (a change of the source changes these values) -/

def exB : Bnds := fun v => if v = 0 then { lb := some (-3), ub := some 2, isInt := true }
  else if v = 1 then { lb := some 1, ub := none, isInt := false }
  else { lb := some (1/2), ub := some (1/2), isInt := false }

open MpVerif.Gen.C06 in
example : viOfPre (prepro_Max (envOf exB) [0, 1] []).pre = { lb := some 1, ub := none, isInt := false } := by decide +kernel
open MpVerif.Gen.C06 in
example : viOfPre (prepro_Min (envOf exB) [0, 1, 2] []).pre = { lb := some (-3), ub := some (1/2), isInt := false } := by decide +kernel
open MpVerif.Gen.C06 in
example : viOfPre (prepro_Abs (envOf exB) [0] []).pre = { lb := some 0, ub := some 3, isInt := true } := by decide +kernel

/-! ## round 8: `ComputeBoundsAndType(const LinTerms&)` / `(const AffineExpr&)` of expr_bounds.h = `linBnd` / `affBnd`

`linBnd` gives every big-M constant of the indicator gadgets (`gIndLE/gIndGE/gIndEQ`), the integer/continuous decision behind the
comparison epsilon and the created bounds of affine result variables.  The generated `linInit` / `linStep` / `withConst`
(lean/MpVerif/Gen/C06Prepro.lean) are the initialisation, the loop body and the constant step translated from the source.
Divergence kept explicit: a ZERO coefficient on a variable with an infinite bound is `0 * inf = NaN` in the C++ and "infinite" in the
model (documented at `linBnd`); the tie is stated for bodies without such a term. -/

/-- no term `0 * x` with `x` unbounded on a side -/
def noZeroInf (B : Bnds) (body : Lin) : Prop :=
  ∀ p ∈ body, p.1 ≠ 0 ∨ ((B p.2).lb.isSome ∧ (B p.2).ub.isSome)

/-- a `PreprocessInfo` that is the embedding of model bounds `(l, u, ty)` -/
def preIs (r : MpVerif.C06.Pre) (l u : Option Rat) (ty : Bool) : Prop := r.lb = erLb l ∧ r.ub = erUb u ∧ r.int = ty

theorem add_lb_scaled_pos (c : Rat) (hc : 0 < c) (l x : Option Rat) :
    add (erLb l) (mul (.fin c) (erLb x)) = erLb (optAdd (optScale c x) l) := by
  have h0 : c ≠ 0 := by grind
  cases l <;> cases x <;> simp [erLb, optAdd, optScale, mul, add, infTimes, h0, hc] <;> grind
theorem add_ub_scaled_pos (c : Rat) (hc : 0 < c) (u x : Option Rat) :
    add (erUb u) (mul (.fin c) (erUb x)) = erUb (optAdd (optScale c x) u) := by
  have h0 : c ≠ 0 := by grind
  cases u <;> cases x <;> simp [erUb, optAdd, optScale, mul, add, infTimes, h0, hc] <;> grind
theorem add_lb_scaled_neg (c : Rat) (hc : c < 0) (l x : Option Rat) :
    add (erLb l) (mul (.fin c) (erUb x)) = erLb (optAdd (optScale c x) l) := by
  have h0 : c ≠ 0 := by grind
  have h1 : ¬ (0 < c) := by grind
  cases l <;> cases x <;> simp [erLb, erUb, optAdd, optScale, mul, add, infTimes, h0, h1] <;> grind
theorem add_ub_scaled_neg (c : Rat) (hc : c < 0) (u x : Option Rat) :
    add (erUb u) (mul (.fin c) (erLb x)) = erUb (optAdd (optScale c x) u) := by
  have h0 : c ≠ 0 := by grind
  have h1 : ¬ (0 < c) := by grind
  cases u <;> cases x <;> simp [erLb, erUb, optAdd, optScale, mul, add, infTimes, h0, h1] <;> grind
theorem add_lb_scaled_fin (c a : Rat) (l : Option Rat) :
    add (erLb l) (mul (.fin c) (.fin a)) = erLb (optAdd (optScale c (some a)) l) := by
  cases l <;> simp [erLb, optAdd, optScale, mul, add] <;> grind
theorem add_ub_scaled_fin (c a : Rat) (u : Option Rat) :
    add (erUb u) (mul (.fin c) (.fin a)) = erUb (optAdd (optScale c (some a)) u) := by
  cases u <;> simp [erUb, optAdd, optScale, mul, add] <;> grind

open MpVerif.Gen.C06 in
/-- one iteration of the translated loop body = one step of `linBnd` -/
theorem linStep_pre (B : Bnds) (c : Rat) (v : Var) (r : MpVerif.C06.Pre) (l u : Option Rat) (ty : Bool)
    (hr : preIs r l u ty) (hz : c ≠ 0 ∨ ((B v).lb.isSome ∧ (B v).ub.isSome)) :
    preIs (linStep (envOf B) c v r)
      (if 0 ≤ c then optAdd (optScale c (B v).lb) l else optAdd (optScale c (B v).ub) l)
      (if 0 ≤ c then optAdd (optScale c (B v).ub) u else optAdd (optScale c (B v).lb) u)
      (ty && (B v).isInt && isIntQ c) := by
  obtain ⟨h1, h2, h3⟩ := hr
  have hty : ((true != ((envOf B) v).int) || !(isInteger (.fin c))) = !((B v).isInt && isIntQ c) := by
    simp only [envOf, isInteger_fin, isIntQ]; cases (B v).isInt <;> cases (c.den == 1) <;> rfl
  by_cases hc : 0 ≤ c
  · have hle : le (.fin 0) (.fin c) = true := by simp [le, lt, ER.eq]; grind
    have hL : add r.lb (mul (.fin c) ((envOf B) v).lb) = erLb (optAdd (optScale c (B v).lb) l) := by
      rw [h1]; show add (erLb l) (mul (.fin c) (erLb (B v).lb)) = _
      by_cases h0 : c = 0
      · rcases hz with hz | ⟨hz1, _⟩
        · exact absurd h0 hz
        · obtain ⟨a, ha⟩ := Option.isSome_iff_exists.mp hz1; rw [ha]; exact add_lb_scaled_fin c a l
      · exact add_lb_scaled_pos c (by grind) l _
    have hU : add r.ub (mul (.fin c) ((envOf B) v).ub) = erUb (optAdd (optScale c (B v).ub) u) := by
      rw [h2]; show add (erUb u) (mul (.fin c) (erUb (B v).ub)) = _
      by_cases h0 : c = 0
      · rcases hz with hz | ⟨_, hz2⟩
        · exact absurd h0 hz
        · obtain ⟨a, ha⟩ := Option.isSome_iff_exists.mp hz2; rw [ha]; exact add_ub_scaled_fin c a u
      · exact add_ub_scaled_pos c (by grind) u _
    simp only [linStep, hle, if_true, hty, hL, hU, hc, preIs]
    cases hb : ((B v).isInt && isIntQ c) <;> simp [hb, h3] <;> simp_all
  · have hle : le (.fin 0) (.fin c) = false := by simp [le, lt, ER.eq]; grind
    have hlt : c < 0 := by grind
    have hL : add r.lb (mul (.fin c) ((envOf B) v).ub) = erLb (optAdd (optScale c (B v).ub) l) := by
      rw [h1]; exact add_lb_scaled_neg c hlt l _
    have hU : add r.ub (mul (.fin c) ((envOf B) v).lb) = erUb (optAdd (optScale c (B v).lb) u) := by
      rw [h2]; exact add_ub_scaled_neg c hlt u _
    simp only [linStep, hle, Bool.false_eq_true, if_false, hty, hL, hU, hc, preIs]
    cases hb : ((B v).isInt && isIntQ c) <;> simp [hb, h3] <;> simp_all

open MpVerif.Gen.C06 in
/-- **`ComputeBoundsAndType(const LinTerms&)`** (initialisation and loop body translated from expr_bounds.h, folded last term first like
the C++ loop) computes exactly `linBnd`, for all bounds and all bodies without a `0 * unbounded` term -/
theorem C01_gen_linbnd (B : Bnds) (body : Lin) (hz : noZeroInf B body) :
    preIs (body.foldr (fun t r => linStep (envOf B) t.1 t.2 r) linInit) (linBnd B body).1 (linBnd B body).2.1 (linBnd B body).2.2 := by
  induction body with
  | nil => exact ⟨rfl, rfl, rfl⟩
  | cons p t ih =>
    obtain ⟨c, v⟩ := p
    have ih' := ih (fun q hq => hz q (List.mem_cons_of_mem _ hq))
    have hstep := linStep_pre B c v _ _ _ _ ih' (hz (c, v) (List.mem_cons_self ..))
    simp only [List.foldr_cons]
    have hl : linBnd B ((c, v) :: t) =
        (if 0 ≤ c then (optAdd (optScale c (B v).lb) (linBnd B t).1, optAdd (optScale c (B v).ub) (linBnd B t).2.1,
                         (linBnd B t).2.2 && (B v).isInt && isIntQ c)
         else (optAdd (optScale c (B v).ub) (linBnd B t).1, optAdd (optScale c (B v).lb) (linBnd B t).2.1,
               (linBnd B t).2.2 && (B v).isInt && isIntQ c)) := by
      simp only [linBnd]
    rw [hl]
    by_cases hc : 0 ≤ c <;> simp only [hc, if_true, if_false] at hstep ⊢ <;> exact hstep

open MpVerif.Gen.C06 in
/-- **`ComputeBoundsAndType(const AffineExpr&)`** = `affBnd` (the created bounds/type of a `LinearFunctionalConstraint` result) -/
theorem C01_gen_affbnd (B : Bnds) (body : Lin) (c0 : Rat) (hz : noZeroInf B body) :
    viOfPre (withConst (body.foldr (fun t r => linStep (envOf B) t.1 t.2 r) linInit) c0) = affBnd B body c0 := by
  obtain ⟨h1, h2, h3⟩ := C01_gen_linbnd B body hz
  have ha : ∀ l : Option Rat, add (erLb l) (.fin c0) = erLb (l.map (· + c0)) := by intro l; cases l <;> simp [erLb, add]
  have hb : ∀ u : Option Rat, add (erUb u) (.fin c0) = erUb (u.map (· + c0)) := by intro u; cases u <;> simp [erUb, add]
  simp only [withConst, affBnd, viOfPre, isInteger_fin, h1, h2, h3, ha, hb]
  cases hq : (c0.den == 1) <;> simp [hq, isIntQ, h3, optOf_erLb, optOf_erUb]

/-- non-vacuity: the translated loop on concrete bounds (`2*x0 - x1 + 1/2` with `x0 ∈ [-3,2]` integer, `x1 ∈ [1, inf)`) -/
example : viOfPre (MpVerif.Gen.C06.withConst
    (([(2, 0), (-1, 1)] : Lin).foldr (fun t r => MpVerif.Gen.C06.linStep (envOf exB) t.1 t.2 r) MpVerif.Gen.C06.linInit) (1/2))
    = { lb := none, ub := some (7/2), isInt := false } := by decide +kernel
example : noZeroInf exB [(2, 0), (-1, 1)] := by intro p hp; left; simp at hp; rcases hp with h | h <;> simp [h] <;> grind

end MpVerif.C01

import MpVerif.C01.LemmasCompose
/-!
# C01 — composition theorem over an abstract flat model (property theorems only)

Setting (`ModelCompose.lean`): original variables (`< n0`), definitions `res = f(args)` in creation order (`WF`), root
linear range constraints, each definition with its stored FINAL context; every definition is replaced by a conversion
step (`Step`: delivered rows + auxiliary-variable range), steps listed in conversion order (`Chain`).

Hypotheses of `C01_compose`:
* `CtxCovers` — for every use of a variable (root, or argument of a definition under that definition's context) the
  context stored on its definition includes what the propagation rule assigns.  Decidable; checked per run on the
  recorded contexts by `checks/c01.py`.  The open findings late-context-map-reuse / redefine-variable-map-hit are
  exactly violations of this hypothesis (or of `hperm`: a result variable left without its definition).
* `StepOK` for every step (**GadgetExact**) — instantiated from the proved `C01_gadget_*` theorems through
  `C01_compose_step_of_gadget`, or `C01_compose_step_native` for natively accepted types.
* `Dom` — the variable domains (bounds, integrality, 0/1 logical variables) hold for the solver's assignment and for
  the exact values (`hDomE`: bounds soundness, property C06 — assumed here, not proved).

Conclusion: `NLsat x ⇔ ∃ y, Delivered … x y`: a point of the original variables satisfies the NL-level semantics
(roots with every result variable read as the exact value of its defining expression) iff values of the result and
auxiliary variables exist that satisfy all delivered rows.

Outside this theorem: the objective clause (best delivered objective = original objective), quadratic/logical root
shapes other than linear ranges (logical roots are `1 ≤ res`), steps whose gadget has no `C01_gadget_*` theorem,
nested conversions of functional constraints *emitted by* gadgets (they are taken with their `Con.sat` reading),
and everything before the flat model exists (flattening, `MultiplyOut`, term merging, preprocessing shortcuts).
-/
namespace MpVerif.C01

/-- generic soundness of the propagation rules (`propFun`): dispatches to the per-rule theorems of `Props.lean` -/
theorem C01_ctx_sound_fun (B : Bnds) (ctx : Ctx) (f : Fun) (a e : Asg) (oka : FunOK B f a) (oke : FunOK B f e)
    (h : ∀ p ∈ propFun B ctx f, req p.2 (a p.1) (e p.1)) : req ctx (f.val a) (f.val e) :=
  fun_ctx_sound B ctx f a e oka oke h

/-- functional values and constraint truth depend only on the variables read -/
theorem C01_val_congr (f : Fun) (a e : Asg) (h : ∀ v ∈ f.vars, a v = e v) : f.val a = f.val e := val_congr f a e h
theorem C01_sat_congr (c : Con) (a e : Asg) (h : ∀ v ∈ c.vars, a v = e v) : c.sat a ↔ c.sat e := sat_congr c a e h

/-- every result variable of the exact assignment carries the value of its defining expression -/
theorem C01_exact_spec (x : Asg) (m : Nat) (defs : List Def) (h : WF m defs) :
    ∀ d ∈ defs, exactAsg x defs d.res = d.f.val (exactAsg x defs) := exact_spec x m defs h

/-- Layer 1: contexts only.  With covering contexts the relaxed model (every definition in its stored context's
one-sided reading) has a solution over a point `x` iff `x` satisfies the NL-level semantics. -/
theorem C01_compose_relaxed (B : Bnds) (n0 N : Nat) (defs : List Def) (roots : List Root) (x : Asg)
    (hwf : WF n0 defs) (hN : ∀ d ∈ defs, d.res < N) (hroots : ∀ r ∈ roots, ∀ p ∈ r.body, p.2 < N)
    (hfin : ∀ r ∈ roots, (∀ l, r.lb = some l → -pracInf < l) ∧ (∀ u, r.ub = some u → u < pracInf))
    (hcov : CtxCovers B defs roots) (hoke : ∀ d ∈ defs, FunOK B d.f (exactAsg x defs)) :
    NLsat defs roots x ↔ ∃ y, (∀ d ∈ defs, FunOK B d.f y) ∧ Relaxed N defs roots x y :=
  compose_relaxed B n0 N defs roots x hwf hN hroots hfin hcov hoke

/-- a proved gadget theorem (`Exact`) gives a valid conversion step -/
theorem C01_compose_step_of_gadget (N : Nat) (Dom D : Asg → Prop) (d : Def) (o : Out) (n : Nat)
    (hN : N ≤ n) (hDD : ∀ y, Dom y → D y)
    (hex : Exact o n D (fun x => rel d.ctx (x d.res) (d.f.val x)))
    (hrows : ∀ c ∈ o.cons, ∀ v ∈ c.vars, v < n + o.vars.length) :
    StepOK N Dom (Step.ofGadget d o n) := stepOK_of_exact N Dom D d o n hN hDD hex hrows

/-- a natively delivered definition is a valid conversion step -/
theorem C01_compose_step_native (N : Nat) (Dom : Asg → Prop) (d : Def) (hres : d.res < N)
    (hvars : ∀ v ∈ d.f.vars, v < N) : StepOK N Dom (Step.native d N) := stepOK_native N Dom d hres hvars

/-- **C01_compose** — projection equivalence for whole flat models (any DAG depth, shared subexpressions, any number
of roots), under `CtxCovers`, `StepOK` for every step and domain soundness. -/
theorem C01_compose (B : Bnds) (n0 N : Nat) (defs : List Def) (steps : List Step) (roots : List Root) (Dom : Asg → Prop)
    (hDom : ∀ z z' : Asg, (∀ v, v < N → z' v = z v) → Dom z → Dom z')
    (hperm : ∀ d, d ∈ defs ↔ ∃ s ∈ steps, s.toDef = d)
    (hwf : WF n0 defs) (hN : ∀ d ∈ defs, d.res < N)
    (hroots : ∀ r ∈ roots, ∀ p ∈ r.body, p.2 < N)
    (hfin : ∀ r ∈ roots, (∀ l, r.lb = some l → -pracInf < l) ∧ (∀ u, r.ub = some u → u < pracInf))
    (hcov : CtxCovers B defs roots)
    (hchain : Chain N steps) (hok : ∀ s ∈ steps, StepOK N Dom s)
    (hDomOK : ∀ y, Dom y → ∀ d ∈ defs, FunOK B d.f y)
    (x : Asg) (hDomE : Dom (exactAsg x defs)) :
    NLsat defs roots x ↔ ∃ y, Delivered N defs steps roots Dom x y :=
  compose B n0 N defs steps roots Dom hDom hperm hwf hN hroots hfin hcov hchain hok hDomOK x hDomE


/-- the per-run validator (`ctxGaps`, `wfB`, executed by `drv_c01` on the contexts recorded from the real converter)
is sound: no gap ⇒ `CtxCovers`; `wfB` ⇒ creation order -/
theorem C01_validator_ctxcovers_sound (B : Bnds) (defs : List Def) (roots : List Root)
    (h : ctxGaps B defs roots = []) : CtxCovers B defs roots := ctxGaps_sound B defs roots h

theorem C01_validator_wf_sound (m : Nat) (defs : List Def) (h : wfB m defs = true) : WF m defs := wfB_sound m defs h

end MpVerif.C01

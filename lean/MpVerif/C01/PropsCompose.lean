import MpVerif.C01.LemmasCompose
/-!
# C01 — composition theorem over an abstract flat model (property theorems only)

Setting (`ModelCompose.lean`): original variables (`< n0`), definitions `res = f(args)` in creation order (`WF`), root
linear range constraints, each definition with its stored FINAL context; every definition is replaced by a conversion
step (`Step`: delivered rows + auxiliary-variable range), steps listed in conversion order (`Chain`).

Hypotheses of `C01_compose`:
* `CtxCovers` — for every use of a variable (root, or argument of a definition under that definition's context) the
  context stored on its definition includes what the propagation rule assigns.  Decidable; checked per run on the
  recorded contexts by `checks/c01.py`.  The open findings late-context-map-reuse / redefine-variable-map-hit are
  exactly violations of this hypothesis (or of `hperm`: a result variable left without its definition).
* `StepOK` for every step (**GadgetExact**) — instantiated from the proved `C01_gadget_*` theorems through
  `C01_compose_step_of_gadget`, or `C01_compose_step_native` for natively accepted types.
* `Dom` — the variable domains (bounds, integrality, 0/1 logical variables) hold for the solver's assignment and for
  the exact values (`hDomE`: bounds soundness, property C06 — assumed here, not proved).

Conclusion: `NLsat x ⇔ ∃ y, Delivered … x y`: a point of the original variables satisfies the NL-level semantics
(roots with every result variable read as the exact value of its defining expression) iff values of the result and
auxiliary variables exist that satisfy all delivered rows.

Outside this theorem: the objective clause (best delivered objective = original objective), quadratic/logical root
shapes other than linear ranges (logical roots are `1 ≤ res`), steps whose gadget has no `C01_gadget_*` theorem,
nested conversions of functional constraints *emitted by* gadgets (they are taken with their `Con.sat` reading),
and everything before the flat model exists (flattening, `MultiplyOut`, term merging, preprocessing shortcuts).
-/
namespace MpVerif.C01

/-- generic soundness of the propagation rules (`propFun`): dispatches to the per-rule theorems of `Props.lean` -/
theorem C01_ctx_sound_fun (B : Bnds) (ctx : Ctx) (f : Fun) (a e : Asg) (oka : FunOK B f a) (oke : FunOK B f e)
    (h : ∀ p ∈ propFun B ctx f, req p.2 (a p.1) (e p.1)) : req ctx (f.val a) (f.val e) :=
  fun_ctx_sound B ctx f a e oka oke h

/-- functional values and constraint truth depend only on the variables read -/
theorem C01_val_congr (f : Fun) (a e : Asg) (h : ∀ v ∈ f.vars, a v = e v) : f.val a = f.val e := val_congr f a e h
theorem C01_sat_congr (c : Con) (a e : Asg) (h : ∀ v ∈ c.vars, a v = e v) : c.sat a ↔ c.sat e := sat_congr c a e h

/-- every result variable of the exact assignment carries the value of its defining expression -/
theorem C01_exact_spec (x : Asg) (m : Nat) (defs : List Def) (h : WF m defs) :
    ∀ d ∈ defs, exactAsg x defs d.res = d.f.val (exactAsg x defs) := exact_spec x m defs h

/-- Layer 1: contexts only.  With covering contexts the relaxed model (every definition in its stored context's
one-sided reading) has a solution over a point `x` iff `x` satisfies the NL-level semantics. -/
theorem C01_compose_relaxed (B : Bnds) (n0 N : Nat) (defs : List Def) (roots : List Root) (x : Asg)
    (hwf : WF n0 defs) (hN : ∀ d ∈ defs, d.res < N) (hroots : ∀ r ∈ roots, ∀ p ∈ r.body, p.2 < N)
    (hfin : ∀ r ∈ roots, (∀ l, r.lb = some l → -pracInf < l) ∧ (∀ u, r.ub = some u → u < pracInf))
    (hcov : CtxCovers B defs roots) (hoke : ∀ d ∈ defs, FunOK B d.f (exactAsg x defs)) :
    NLsat defs roots x ↔ ∃ y, (∀ d ∈ defs, FunOK B d.f y) ∧ Relaxed N defs roots x y :=
  compose_relaxed B n0 N defs roots x hwf hN hroots hfin hcov hoke

/-- a proved gadget theorem (`Exact`) gives a valid conversion step -/
theorem C01_compose_step_of_gadget (N : Nat) (Dom D : Asg → Prop) (d : Def) (o : Out) (n : Nat)
    (hN : N ≤ n) (hDD : ∀ y, Dom y → D y)
    (hex : Exact o n D (fun x => rel d.ctx (x d.res) (d.f.val x)))
    (hrows : ∀ c ∈ o.cons, ∀ v ∈ c.vars, v < n + o.vars.length) :
    StepOK N Dom (Step.ofGadget d o n) := stepOK_of_exact N Dom D d o n hN hDD hex hrows

/-- a natively delivered definition is a valid conversion step -/
theorem C01_compose_step_native (N : Nat) (Dom : Asg → Prop) (d : Def) (hres : d.res < N)
    (hvars : ∀ v ∈ d.f.vars, v < N) : StepOK N Dom (Step.native d N) := stepOK_native N Dom d hres hvars

/-- **C01_compose** — projection equivalence for whole flat models (any DAG depth, shared subexpressions, any number
of roots), under `CtxCovers`, `StepOK` for every step and domain soundness. -/
theorem C01_compose (B : Bnds) (n0 N : Nat) (defs : List Def) (steps : List Step) (roots : List Root) (Dom : Asg → Prop)
    (hDom : ∀ z z' : Asg, (∀ v, v < N → z' v = z v) → Dom z → Dom z')
    (hperm : ∀ d, d ∈ defs ↔ ∃ s ∈ steps, s.toDef = d)
    (hwf : WF n0 defs) (hN : ∀ d ∈ defs, d.res < N)
    (hroots : ∀ r ∈ roots, ∀ p ∈ r.body, p.2 < N)
    (hfin : ∀ r ∈ roots, (∀ l, r.lb = some l → -pracInf < l) ∧ (∀ u, r.ub = some u → u < pracInf))
    (hcov : CtxCovers B defs roots)
    (hchain : Chain N steps) (hok : ∀ s ∈ steps, StepOK N Dom s)
    (hDomOK : ∀ y, Dom y → ∀ d ∈ defs, FunOK B d.f y)
    (x : Asg) (hDomE : Dom (exactAsg x defs)) :
    NLsat defs roots x ↔ ∃ y, Delivered N defs steps roots Dom x y :=
  compose B n0 N defs steps roots Dom hDom hperm hwf hN hroots hfin hcov hchain hok hDomOK x hDomE


/-- the per-run validator (`ctxGaps`, `wfB`, executed by `drv_c01` on the contexts recorded from the real converter)
is sound: no gap ⇒ `CtxCovers`; `wfB` ⇒ creation order -/
theorem C01_validator_ctxcovers_sound (B : Bnds) (defs : List Def) (roots : List Root)
    (h : ctxGaps B defs roots = []) : CtxCovers B defs roots := ctxGaps_sound B defs roots h

theorem C01_validator_wf_sound (m : Nat) (defs : List Def) (h : wfB m defs = true) : WF m defs := wfB_sound m defs h



/-! ## non-vacuity: a depth-2 instance `y + max(abs(w), z) ≤ u` (variables y=0, z=1, w=2; r1 = abs(w) = 3, r2 = max(r1, z) = 4)

All hypotheses of `C01_compose` are discharged for this model from the proved gadget theorems; the contexts are the ones
the converter stores (root `≤` gives neg to `r2`; `max` hands mix to its arguments). -/

def exDefs : List Def := [⟨3, .mix, .abs 2⟩, ⟨4, .neg, .max [3, 1]⟩]
def exRoots (u : Rat) : List Root := [⟨[(1, 0), (1, 4)], none, some u⟩]
def exSteps (B : Bnds) : List Step :=
  [Step.ofGadget ⟨4, .neg, .max [3, 1]⟩ (gMax 4 [3, 1] .neg B 5) 5,
   Step.ofGadget ⟨3, .mix, .abs 2⟩ (gAbs 3 2 .mix B 5) 5]

theorem C01_compose_example_depth2 (B : Bnds) (u : Rat) (hu : u < pracInf) (x : Asg) :
    NLsat exDefs (exRoots u) x ↔ ∃ y, Delivered 5 exDefs (exSteps B) (exRoots u) (fun _ => True) x y := by
  have h1 : ¬ ((1 : Rat) = 0) := by grind
  have h2 : (0 : Rat) ≤ 1 := by grind
  have gmax : gMax 4 [3, 1] .neg B 5 = mmConvex 1 4 [3, 1] := by
    simp [gMax, dispatch, needNeg, needPos, Ctx.eff, Ctx.hasNeg, Ctx.hasPos, mmConvex]
  apply C01_compose B 3 5 exDefs (exSteps B) (exRoots u) (fun _ => True)
  · intro _ _ _ _; trivial
  · intro d
    simp only [exDefs, exSteps, List.mem_cons, List.not_mem_nil, or_false, Step.ofGadget]
    constructor
    · intro h; rcases h with h | h <;> subst h
      · exact ⟨_, Or.inr rfl, rfl⟩
      · exact ⟨_, Or.inl rfl, rfl⟩
    · intro ⟨s, hs, e⟩
      rcases hs with hs | hs <;> subst hs <;> subst e <;> simp
  · simp [exDefs, WF, Fun.vars]
  · intro d hd; simp [exDefs] at hd; rcases hd with hd | hd <;> subst hd <;> simp
  · intro r hr p hp
    simp [exRoots] at hr; subst hr
    simp at hp; rcases hp with hp | hp <;> subst hp <;> simp
  · intro r hr
    simp [exRoots] at hr; subst hr
    exact ⟨by intro l hl; simp at hl, by intro v hv; simp at hv; subst hv; exact hu⟩
  · apply C01_validator_ctxcovers_sound
    simp [ctxGaps, ctxUses, exDefs, exRoots, propRangeLin, rangeCtx, propLin, h1, h2, propFun, propDefault, Fun.vars,
      ctxOf, Ctx.eff, Ctx.plus]
    decide
  · simp [exSteps, Chain, Step.ofGadget, gmax, mmConvex, gAbs, dispatch, needNeg, needPos, Ctx.eff, Ctx.hasNeg,
      Ctx.hasPos, absNeg, absPos]
  · intro s hs
    simp only [exSteps, List.mem_cons, List.not_mem_nil, or_false] at hs
    rcases hs with hs | hs <;> subst hs
    · apply C01_compose_step_of_gadget 5 (fun _ => True) (fun _ => True) _ _ 5 (Nat.le_refl 5) (fun _ _ => trivial)
      · exact C01_gadget_max 4 3 [1] .neg B 5 (by decide) (by intro b hb; simp at hb; rcases hb with hb | hb <;> subst hb <;> decide)
      · intro c hc v hv
        rw [gmax] at hc ⊢
        simp [mmConvex] at hc
        rcases hc with hc | hc <;> subst hc <;> simp [Con.vars] at hv <;> rcases hv with hv | hv <;> subst hv <;> decide
    · apply C01_compose_step_of_gadget 5 (fun _ => True) (fun _ => True) _ _ 5 (Nat.le_refl 5) (fun _ _ => trivial)
      · exact C01_gadget_abs 3 2 .mix B 5 (by decide) (by decide)
      · intro c hc v hv
        simp [gAbs, dispatch, needNeg, needPos, Ctx.eff, Ctx.hasNeg, Ctx.hasPos, absNeg, absPos] at hc ⊢
        have hv' : v = 3 ∨ v = 2 ∨ v = 5 := by
          rcases hc with hc | hc | hc | hc <;> subst hc <;> simp [Con.vars] at hv <;> grind
        rcases hv' with h | h | h <;> subst h <;> decide
  · intro y _ d hd
    simp [exDefs] at hd; rcases hd with hd | hd <;> subst hd <;> simp [FunOK]
  · trivial


end MpVerif.C01

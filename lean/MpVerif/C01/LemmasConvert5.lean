import MpVerif.C01.LemmasConvert4
/-!
# C01 — lemmas about the reference converter, part 5: the flat model of `convert` has the NL semantics; exact values respect
the created bounds; conversion blocks as steps (core Lean only)
-/
namespace MpVerif.C01

theorem WF_shape (m : Nat) (l1 l2 : List Def) (h : sameShape l1 l2) (hw : WF m l1) : WF m l2 := by
  induction l1 generalizing m l2 with
  | nil => cases l2 with
    | nil => trivial
    | cons d t => simp [sameShape] at h
  | cons d t ih =>
    cases l2 with
    | nil => simp [sameShape] at h
    | cons d2 t2 =>
      simp only [sameShape, List.map_cons, List.cons.injEq, Prod.mk.injEq] at h
      obtain ⟨⟨hr, hf⟩, ht⟩ := h
      obtain ⟨h1, h2, h3⟩ := hw
      exact ⟨hr ▸ h1, by rw [← hr, ← hf]; exact h2, by rw [← hr]; exact ih (d.res + 1) t2 ht h3⟩

theorem ctxDefs_shape (B : Bnds) (defs : List Def) (roots : List Root) (obj : Option Obj) :
    sameShape (ctxDefs B defs roots obj) defs := by
  unfold ctxDefs
  have := sameShape_reverse (assignCtx_shape B defs.reverse (addUses (fun _ => .none) (rootUses roots obj)))
  simpa using this

theorem sameShape_symm {l1 l2 : List Def} (h : sameShape l1 l2) : sameShape l2 l1 := h.symm

/-- **the flat model produced by `convert` has the NL semantics** (given creation order, which `checks` decides) -/
theorem convert_roots_val (m : NLModel) (cfg : Cfg) (x : Asg) (hv : m.vok = true)
    (hwf : WF m.n0 (convert m cfg).defs) :
    NLsat (convert m cfg).defs (convert m cfg).roots x ↔
      ((∀ c ∈ m.cons, inRange c.2.1 c.2.2 (c.1.eval x)) ∧ (∀ l ∈ m.lcons, l.eval x = 1)) := by
  have hsh := ctxDefs_shape (flatAll m).S.B (flatAll m).S.defs ((flatAll m).croots ++ (flatAll m).lroots) (flatAll m).obj
  have hwf0 : WF m.n0 (flatAll m).S.defs := WF_shape _ _ _ hsh hwf
  have hE : exactAsg x (convert m cfg).defs = exactAsg x (flatAll m).S.defs := exactAsg_shape x _ _ hsh
  simp only [NLModel.vok, Bool.and_eq_true, List.all_eq_true] at hv
  obtain ⟨⟨hvc, hvl⟩, _⟩ := hv
  have ho := flatObj_spec m.n0 m.obj { next := m.n0, defs := [], B := m.B0 }
  have hc := flatCons_spec m.n0 m.cons (flatObj m.obj { next := m.n0, defs := [], B := m.B0 }).2
  have hl := flatLCons_spec m.n0 m.lcons (flatCons m.cons (flatObj m.obj { next := m.n0, defs := [], B := m.B0 }).2).2
  have vc := hc.2 (flatAll m).S.defs x hwf0 hl.1 hvc
  have vl := hl.2 (flatAll m).S.defs x hwf0 (List.prefix_refl _) hvl
  unfold NLsat
  show (∀ r ∈ (flatAll m).croots ++ (flatAll m).lroots, r.sat (exactAsg x (convert m cfg).defs)) ↔ _
  rw [hE]
  simp only [List.forall_mem_append]
  exact and_congr vc vl

/-- the flattened objective has the NL objective's value -/
theorem convert_obj_val (m : NLModel) (cfg : Cfg) (x : Asg) (s : Sense) (e : NE) (hobj : m.obj = some (s, e))
    (hv : m.vok = true) (hwf : WF m.n0 (convert m cfg).defs) :
    ∃ o, (convert m cfg).obj = some o ∧ o.sense = s ∧ o.quad = [] ∧ o.val (exactAsg x (convert m cfg).defs) = e.eval x := by
  have hsh := ctxDefs_shape (flatAll m).S.B (flatAll m).S.defs ((flatAll m).croots ++ (flatAll m).lroots) (flatAll m).obj
  have hwf0 : WF m.n0 (flatAll m).S.defs := WF_shape _ _ _ hsh hwf
  have hE : exactAsg x (convert m cfg).defs = exactAsg x (flatAll m).S.defs := exactAsg_shape x _ _ hsh
  simp only [NLModel.vok, Bool.and_eq_true] at hv
  have hve : e.vok m.n0 = true := by have := hv.2; rw [hobj] at this; exact this
  have ho := flatObj_spec m.n0 m.obj { next := m.n0, defs := [], B := m.B0 }
  have hc := flatCons_spec m.n0 m.cons (flatObj m.obj { next := m.n0, defs := [], B := m.B0 }).2
  have hl := flatLCons_spec m.n0 m.lcons (flatCons m.cons (flatObj m.obj { next := m.n0, defs := [], B := m.B0 }).2).2
  obtain ⟨o, h1, h2, h3, h4⟩ := ho.2 (flatAll m).S.defs x hwf0 (hc.1.trans hl.1) s e hobj hve
  exact ⟨o, h1, h2, h3, by rw [hE]; exact h4⟩

/-! ## exact values respect the created bounds -/

theorem exact_dom (n0 N : Nat) (B B0 : Bnds) (D : List Def) (x : Asg)
    (hwf : WF n0 D) (hdef : ∀ v, n0 ≤ v → v < N → ∃ d ∈ D, d.res = v)
    (hB0 : ∀ v, v < n0 → B v = B0 v) (htyped : ∀ d ∈ D, typedDef B d = true)
    (hx : ∀ v, v < n0 → inDom B0 x v) : DomB N B (exactAsg x D) := by
  intro v
  induction v using Nat.strongRecOn with
  | _ v ih =>
    intro hv
    by_cases hlt : v < n0
    · unfold inDom
      rw [exact_below x n0 D hwf v hlt, hB0 v hlt]; exact hx v hlt
    · obtain ⟨d, hd, hr⟩ := hdef v (Nat.le_of_not_lt hlt) hv
      subst hr
      have ht := htyped d hd
      have hvars := wf_vars_lt n0 D hwf d hd
      have hargs : ∀ a ∈ d.f.vars, inDom B (exactAsg x D) a := fun a ha =>
        ih a (hvars a ha) (Nat.lt_trans (hvars a ha) hv)
      simp only [typedDef, Bool.and_eq_true, decide_eq_true_eq] at ht
      obtain ⟨⟨hb, hfr⟩, h3⟩ := ht
      unfold inDom
      rw [hb, exact_spec x n0 D hwf d hd]
      apply resBnd_sound B _ d.f hfr _ hargs
      intro a ha
      rw [ha] at h3
      exact bin01_vals h3 (hargs a (by rw [ha]; simp [Fun.vars]))

/-! ## conversion blocks as steps of the composition theorem -/

/-- the step a block stands for: for a removed definition nothing is delivered; constants and natively accepted definitions are enforced as `res = f(args)`
(a fixed variable's bounds, resp. the solver), gadget blocks by their rows over their auxiliary variables -/
def Block.toStep (b : Block) : Step :=
  if b.removed then { b.d with Deliv := fun _ => True, lo := b.lo, hi := b.lo }
  else if b.native || isConst b.d then Step.native b.d b.lo
  else { b.d with Deliv := fun y => auxOk b.lo y b.vars ∧ ∀ c ∈ b.cons, c.sat y, lo := b.lo, hi := b.lo + b.vars.length }

theorem Block.toStep_def (b : Block) : b.toStep.toDef = b.d := by
  unfold Block.toStep; split
  · rfl
  · split <;> rfl

theorem Block.toStep_lo (b : Block) : b.toStep.lo = b.lo := by
  unfold Block.toStep; split
  · rfl
  · split <;> rfl

theorem stepOK_native' (N n : Nat) (Dom : Asg → Prop) (d : Def) (hn : N ≤ n) (hres : d.res < n) (hvars : ∀ v ∈ d.f.vars, v < n) :
    StepOK N Dom (Step.native d n) := by
  refine ⟨hn, ?_, ?_, ?_⟩
  · intro y _ h; exact C01_mix_implies_ctx _ _ _ h
  · intro z _ hz; exact ⟨z, fun _ _ => rfl, hz⟩
  · intro y y' hag h
    show y' d.res = d.f.val y'
    rw [hag d.res hres, val_congr d.f y' y (fun v hv => hag v (hvars v hv))]; exact h

/-- membership: sorting and conversion keep exactly the definitions -/
theorem mem_insRank (d e : Def) (l : List Def) : e ∈ insRank d l ↔ e = d ∨ e ∈ l := by
  induction l with
  | nil => simp [insRank]
  | cons a t ih =>
    simp only [insRank]
    split
    · simp
    · simp only [List.mem_cons, ih]; constructor <;> intro h <;> rcases h with h | h | h <;> simp [h]

theorem mem_sortRank (e : Def) (l : List Def) : e ∈ sortRank l ↔ e ∈ l := by
  induction l with
  | nil => simp [sortRank]
  | cons a t ih =>
    simp only [sortRank, List.foldr_cons] at ih ⊢
    rw [mem_insRank, ih]; simp

theorem convDefs_defs (cfg : Cfg) (l : List Def) (B : Bnds) (n : Nat) : (convDefs cfg l B n).map (·.d) = l := by
  induction l generalizing B n with
  | nil => rfl
  | cons d t ih =>
    simp only [convDefs]
    by_cases h1 : isConst d = true
    · simp [h1, ih]
    · by_cases h2 : (decide (cfg.acc = .native) && !isAffine d) = true
      · simp [h1, h2, ih]
      · simp [h1, h2, ih]

end MpVerif.C01

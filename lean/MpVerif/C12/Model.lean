/-!
# C12 — model of objective selection in ampl/mp

Mirrors, function by function, the code that decides which objectives of an NL
file reach the solver and which objective number is echoed in the `.sol` file:

* `BasicSolver` fields `objno_`, `multiobj_`, `obj_added_`, `opts_read_` and the
  accessors `objno_specified()`, `is_objno_specified()`, `multiobj()`,
  `objno_used()`, `SetObjNo`, the `obj:multi` BoolOption       (include/mp/solver-base.h, src/solver.cc)
* `SolverNLHandlerImpl::OnHeader` (option parsing after the header, range check)  (include/mp/solver-io.h)
* `NLProblemBuilder::resulting_nobj / NeedObj / resulting_obj_index / OnObj /
  OnLinearObjExpr` and the `'O'`/`'G'` cases of `NLReader::Read`                   (include/mp/nl-reader.h)
* `BasicProblem::AddObjs`, `MutObjective::set_type/set_nonlinear_expr/set_linear_expr`
  (`AddTerm` appends)                                                              (include/mp/problem.h)
* `ProblemFlattener::ConvertStandardItems`: every problem objective `i` is converted, in
  order, into flat objective `i`                                                   (include/mp/flat/problem_flattener.h)
* `ModelManagerWithProblemBuilder::SetObjNames` (row-file index of each objective's name) (include/mp/model-mgr-with-pb.h)
* `WriteSolFile`: `objno <objno()-1> <status>`                                      (include/mp/sol.h)

The *content* of an objective is opaque to this model: the nonlinear expression is a
token (`nl`, `0` = no expression / the constant `n0`), a linear term is a pair
(variable, coefficient token).  Content fidelity (flattening of the expression into
linear/quadratic terms and auxiliary variables) is checked on the implementation by an
independent evaluator in `checks/c12.py`.

Core Lean only.
-/
namespace MpVerif.C12

/-- one objective of `mp::Problem` (sense, nonlinear expression token, linear terms) -/
structure Obj where
  isMax : Bool
  nl : Nat
  lin : List (Nat × Int)
deriving DecidableEq, Repr, Inhabited

/-- what `BasicProblem::AddObjs` creates: `min`, no nonlinear expression, no linear terms -/
def Obj.empty : Obj := ⟨false, 0, []⟩

/-- the `BasicSolver` fields that take part -/
structure Solver where
  objnoRaw : Int := -1        -- `objno_ {-1}`
  multiFlag : Bool := false   -- `multiobj_ {false}`
  objAdded : Bool := false    -- `obj_added_ {false}`
  optsRead : Bool := false    -- `opts_read_ {false}`
deriving DecidableEq, Repr, Inhabited

/-- `objno_specified()`: `std::abs(objno_)` -/
def objnoSpecified (s : Solver) : Nat := s.objnoRaw.natAbs
/-- `is_objno_specified()`: `objno_ >= 0` -/
def isObjnoSpecified (s : Solver) : Bool := decide (0 ≤ s.objnoRaw)
/-- `multiobj()`: `multiobj_ && objno_ < 0` -/
def multiobj (s : Solver) : Bool := s.multiFlag && decide (s.objnoRaw < 0)
/-- `objno_used()` -/
def objnoUsed (s : Solver) : Nat :=
  if s.optsRead then (if s.objAdded then objnoSpecified s else 0) else objnoSpecified s

inductive Err where
  | invalidOption      -- `InvalidOptionValue` raised by an option setter
  | objnoOutOfRange    -- `InvalidOptionValue("objno", …)` raised by `OnHeader`
  | readError          -- NL reader error (`integer … out of bounds`)
deriving DecidableEq, Repr

/-- an option assignment as it reaches the setter (value already parsed to an integer) -/
inductive OptOp where
  | objno (v : Int)    -- `obj:no` / `objno`
  | multi (v : Int)    -- `obj:multi` / `multiobj`
deriving DecidableEq, Repr

/-- `Solver::SetObjNo` and `BoolOption::SetValue` -/
def setOpt (s : Solver) : OptOp → Except Err Solver
  | .objno v => if v < 0 then .error .invalidOption else .ok { s with objnoRaw := v }
  | .multi v => if v ≠ 0 ∧ v ≠ 1 then .error .invalidOption else .ok { s with multiFlag := decide (v ≠ 0) }

/-- options are applied left to right; the first failing setter aborts (exception) -/
def parseOpts (s : Solver) : List OptOp → Except Err Solver
  | [] => .ok s
  | op :: ops => match setOpt s op with
    | .error e => .error e
    | .ok s' => parseOpts s' ops

/-- `NLProblemBuilder::resulting_nobj`: `multiobj() ? n : min(objno()>0, n>0)` -/
def resultingNObj (multi : Bool) (objno n : Nat) : Nat :=
  if multi then n else min (if objno > 0 then 1 else 0) (if n > 0 then 1 else 0)

/-- `NLProblemBuilder::NeedObj`: `multiobj() || objno()-1 == obj_index` (int arithmetic) -/
def needObj (multi : Bool) (objno idx : Nat) : Bool :=
  multi || decide ((objno : Int) - 1 = (idx : Int))

/-- `NLProblemBuilder::resulting_obj_index` -/
def resultingObjIndex (multi : Bool) (idx : Nat) : Nat := if multi then idx else 0

/-- reader/handler state: the solver object and the objectives of `mp::Problem` -/
structure St where
  solver : Solver
  objs : List Obj
deriving DecidableEq, Repr

/-- `SolverNLHandlerImpl::OnHeader` followed by `NLProblemBuilder::OnHeader` (objective part):
    `notify_start_opts`, parse options, `notify_end_opts`, range check, `AddObjs(resulting_nobj)` + `notify_obj_added()` when objectives exist -/
def onHeader (s0 : Solver) (ops : List OptOp) (n : Nat) : Except Err St :=
  match parseOpts { s0 with optsRead := false } ops with
  | .error e => .error e
  | .ok s1 =>
    let s2 := { s1 with optsRead := true }
    if decide (objnoSpecified s2 > n) && isObjnoSpecified s2 then .error .objnoOutOfRange
    else
      -- `if (n_objs != 0) { builder_.AddObjs(n_objs); notify_obj_added(); }`
      let nobj := resultingNObj (multiobj s2) (objnoSpecified s2) n
      .ok ⟨{ s2 with objAdded := s2.objAdded || decide (nobj > 0) }, List.replicate nobj Obj.empty⟩

/-- the segments of an NL file as far as objectives are concerned -/
inductive Seg where
  | O (idx : Nat) (isMax : Bool) (nl : Nat)        -- `O<idx> <type>` + expression
  | G (idx : Nat) (terms : List (Nat × Int))       -- `G<idx> <n>` + n terms
  | other                                           -- any other segment (C L V F J S b r K k x d)
deriving DecidableEq, Repr

/-- `case 'O'` / `case 'G'` of `NLReader::Read` with the handler calls they make.
    `n` is `header.num_objs` (`ReadUInt(header_.num_objs)` bounds the index). -/
def onSeg (n : Nat) (st : St) : Seg → Except Err St
  | .O idx mx nl =>
    if idx ≥ n then .error .readError
    else if needObj (multiobj st.solver) (objnoSpecified st.solver) idx then
      -- OnObj(resulting_obj_index(idx), type, expr): set_type, set_nonlinear_expr; notify_obj_added
      .ok { solver := { st.solver with objAdded := true },
            objs := st.objs.modify (resultingObjIndex (multiobj st.solver) idx)
                      (fun o => { o with isMax := mx, nl := nl }) }
    else .ok st     -- expression parsed and discarded
  | .G idx terms =>
    if idx ≥ n then .error .readError
    else if needObj (multiobj st.solver) (objnoSpecified st.solver) idx then
      -- OnLinearObjExpr(resulting_obj_index(idx), n).AddTerm(...)  (appends)
      .ok { st with objs := st.objs.modify (resultingObjIndex (multiobj st.solver) idx)
                      (fun o => { o with lin := o.lin ++ terms }) }
    else .ok st     -- terms read into NullLinearExprHandler
  | .other => .ok st

def readSegs (n : Nat) (st : St) : List Seg → Except Err St
  | [] => .ok st
  | sg :: segs => match onSeg n st sg with
    | .error e => .error e
    | .ok st' => readSegs n st' segs

/-- a whole driver run up to model delivery: fresh solver, header (with option parsing), segments -/
def readNL (ops : List OptOp) (n : Nat) (segs : List Seg) : Except Err St :=
  match onHeader {} ops n with
  | .error e => .error e
  | .ok st => readSegs n st segs

/-- `ProblemFlattener::ConvertStandardItems`: objective `i` of the problem becomes flat objective `i`
    (then `PushObjectivesTo`: `Set{Linear,Quadratic}Objective(i, …)`) -/
def delivered (st : St) : List Obj := st.objs

/-- the number printed on the `objno` line of the .sol file: `sol.objno() - 1` -/
def solObjnoLine (st : St) : Int := (objnoUsed st.solver : Int) - 1

/-- `SetObjNames`: index into the `.row` name list (constraints first, then objectives) used for
    each problem objective; `numCons` = algebraic + logical constraints -/
def objRowIdx (numCons : Nat) (st : St) : List Int :=
  if st.objs.length = 0 then []
  else if multiobj st.solver then
    (List.range st.objs.length).map (fun i => ((numCons + i : Nat) : Int))
  else [(numCons : Int) + ((objnoUsed st.solver : Int) - 1)]


/-! ## What the solver receives as the linear part of an objective

`Set{Linear,Quadratic}Objective(i, obj)` hands the solver a *sparse vector* (`vars()`, `coefs()`); solver APIs apply it per
variable (`obj[var] := coef`), so it denotes an objective only if it is a finite map (no variable twice).
`ProblemFlattener::Convert(MutObjective)` builds it as  G terms ++ linear terms produced by flattening the expression ++
`1 * fixed_var(constant)`  and then calls `LinTerms::sort_terms()` (src/std_constr.cc), modelled here: a `std::map<int,double>`
accumulates the non-zero entries; only if that map is smaller than the term list (something was merged or dropped) the list is
rebuilt from the map in key order without zero sums. -/

/-- `var_coef_map[v] += c` on an association list kept in ascending key order (iteration order of `std::map`) -/
def addTo : List (Nat × Int) → Nat → Int → List (Nat × Int)
  | [], v, c => [(v, c)]
  | (w, d) :: m, v, c =>
    if v < w then (v, c) :: (w, d) :: m
    else if v = w then (w, d + c) :: m
    else (w, d) :: addTo m v c

/-- the first loop of `sort_terms`: entries with a non-zero coefficient are accumulated -/
def accumulate (acc : List (Nat × Int)) : List (Nat × Int) → List (Nat × Int)
  | [] => acc
  | t :: l => accumulate (if t.2 ≠ 0 then addTo acc t.1 t.2 else acc) l

/-- `LinTerms::sort_terms()` (default `force_sort = false`) -/
def sortTerms (l : List (Nat × Int)) : List (Nat × Int) :=
  let m := accumulate [] l
  if m.length < l.length then m.filter (fun t => t.2 ≠ 0) else l

/-- the linear part delivered for an objective with G terms `g`, expression-derived linear terms `e` and, when the
    expression's constant is non-zero, the term `cv` = (fixed variable, 1) -/
def deliveredLin (g e : List (Nat × Int)) (cv : Option (Nat × Int)) : List (Nat × Int) :=
  sortTerms (g ++ e ++ cv.toList)

/-- the coefficient a sparse term list *sums up to* for variable `k` (the objective function it denotes when read as a sum) -/
def sumCoef : List (Nat × Int) → Nat → Int
  | [], _ => 0
  | (w, d) :: m, k => (if w = k then d else 0) + sumCoef m k

/-- what a solver holds for variable `k` after `obj[var] := coef` for every entry in order (last entry wins, 0 if absent) -/
def heldCoef : List (Nat × Int) → Nat → Int
  | [], _ => 0
  | (w, d) :: m, k => if m.any (fun t => t.1 == k) then heldCoef m k else if w = k then d else 0



/-! ### The quadratic part: `QuadTerms::sort_terms` (src/std_constr.cc)

Terms are `(coefficient, var1, var2)`; keys are the *sorted* variable pair, the map is kept in the lexicographic order of
`std::pair::operator<`, the vectors are always rebuilt from it without zero sums.  Exact arithmetic, as above. -/

def sortPair (a b : Int) : Int × Int := if a < b then (a, b) else (b, a)

def pairLt (a b : Int × Int) : Bool := decide (a.1 < b.1) || (decide (a.1 = b.1) && decide (a.2 < b.2))

def addToP : List ((Int × Int) × Int) → Int × Int → Int → List ((Int × Int) × Int)
  | [], k, c => [(k, c)]
  | (w, d) :: m, k, c =>
    if pairLt k w then (k, c) :: (w, d) :: m
    else if k = w then (w, d + c) :: m
    else (w, d) :: addToP m k c

def accumulateQ (acc : List ((Int × Int) × Int)) : List (Int × Int × Int) → List ((Int × Int) × Int)
  | [] => acc
  | t :: l => accumulateQ (if t.1 ≠ 0 then addToP acc (sortPair t.2.1 t.2.2) t.1 else acc) l

/-- `QuadTerms::sort_terms()` on a list of `(coefficient, var1, var2)` -/
def sortQuadTerms (l : List (Int × Int × Int)) : List (Int × Int × Int) :=
  ((accumulateQ [] l).filter (fun t => t.2 ≠ 0)).map (fun t => (t.2, t.1.1, t.1.2))

/-! ### The calls the ModelAPI receives

Coefficients are integers here, i.e. **exact arithmetic**.  In the code they are `double`s and `var_coef_map[v] += c` rounds,
so the merged coefficient of a variable with three or more entries can depend on the order of the entries; the theorems below
are about exact sums (the correspondence uses dyadic rationals of small height, for which `double` addition is exact).

The expression visitor is not modelled: what flattening an expression token contributes to the linear part (its linear terms
and, for a non-zero constant, the term `1 * fixed_var`) is an abstract input `Flat`. -/

structure Flat where
  lin : Nat → List (Nat × Int)        -- linear terms produced by flattening expression token `nl`
  cv : Nat → Option (Nat × Int)       -- `(fixed variable, 1)` when the expression's constant is non-zero

/-- one `Set{Linear,Quadratic}Objective(i, …)` call as far as this model goes: sense, expression token (its quadratic part and
    auxiliary constraints are outside the model), and the sparse linear vector -/
structure SolverObj where
  isMax : Bool
  nl : Nat
  lin : List (Nat × Int)
deriving DecidableEq, Repr

/-- `ProblemFlattener::Convert(MutObjective)` on one problem objective -/
def toSolver (F : Flat) (o : Obj) : SolverObj := ⟨o.isMax, o.nl, deliveredLin o.lin (F.lin o.nl) (F.cv o.nl)⟩

/-- what the solver receives: every problem objective, in order, through `Convert(MutObjective)` (position = index) -/
def received (F : Flat) (st : St) : List SolverObj := (delivered st).map (toSolver F)

/-! ## Reference reading of the file (specification side)

`fileObj segs i` is what the file says about objective `i`, read *per index* and
independently of any option: sense and expression of the last `O i` segment, all
terms of the `G i` segments in file order. -/

def segO? (i : Nat) : Seg → Option (Bool × Nat)
  | .O j mx nl => if j = i then some (mx, nl) else none
  | _ => none

def segG? (i : Nat) : Seg → Option (List (Nat × Int))
  | .G j ts => if j = i then some ts else none
  | _ => none

def fileObj (segs : List Seg) (i : Nat) : Obj :=
  let o := (segs.filterMap (segO? i)).getLast?.getD (false, 0)
  { isMax := o.1, nl := o.2, lin := (segs.filterMap (segG? i)).flatten }

def fileObjs (n : Nat) (segs : List Seg) : List Obj := (List.range n).map (fileObj segs)

/-- objective `i` has an `O` segment -/
def hasO (segs : List Seg) (i : Nat) : Bool := !(segs.filterMap (segO? i)).isEmpty

/-- the NL segments of a list of objectives in the order AMPL writes them: all `O` segments, then the
    `G` segments of the objectives that have linear terms (`k` = index of the first one) -/
def encO (k : Nat) : List Obj → List Seg
  | [] => []
  | o :: os => Seg.O k o.isMax o.nl :: encO (k + 1) os

def encG (k : Nat) : List Obj → List Seg
  | [] => []
  | o :: os => (if o.lin.isEmpty then [] else [Seg.G k o.lin]) ++ encG (k + 1) os

def encode (objs : List Obj) : List Seg := encO 0 objs ++ encG 0 objs

end MpVerif.C12

import MpVerif.C12.Lemmas
import MpVerif.C12.LemmasTerms
import MpVerif.Gen.ObjFilter
/-!
# C12 — the solver receives exactly the objective(s) the user selected

Property theorems (prefix `C12_`) about the model in `Model.lean`.  All statements are
quantified over every option sequence `ops`, every objective count `n`, every segment
stream `segs` (any interleaving, repeated or missing `O`/`G` segments included) – proofs
by induction over the streams, no enumeration.

User-level reading of the options (specification side, independent of the solver fields):
-/
set_option linter.unusedSimpArgs false
namespace MpVerif.C12

/-- the objective number the user gave: the last `objno=` assignment, if any -/
def givenObjno (ops : List OptOp) : Option Int := (objnoVals ops).getLast?
/-- the `multiobj` flag the user gave: the last `multiobj=` assignment, default off -/
def givenMulti (ops : List OptOp) : Bool :=
  ((multiVals ops).getLast?.map (fun v => decide (v ≠ 0))).getD false
/-- objective number in effect: the given one, or 1 when defaulted -/
def selK (ops : List OptOp) : Nat := ((givenObjno ops).getD 1).toNat
/-- multi-objective mode in effect: requested and no explicit objective number
    (documented precedence: `multiobj()` is `multiobj_ && objno_ < 0`) -/
def selMulti (ops : List OptOp) : Bool := givenMulti ops && (givenObjno ops).isNone
/-- all option values acceptable to their setters -/
def validOpts (ops : List OptOp) : Prop :=
  (∀ v ∈ objnoVals ops, 0 ≤ v) ∧ (∀ v ∈ multiVals ops, v = 0 ∨ v = 1)

/-- SPECIFICATION: the objectives of the file that must reach the solver -/
def selected (ops : List OptOp) (n : Nat) (segs : List Seg) : List Obj :=
  if selMulti ops then fileObjs n segs
  else if 1 ≤ selK ops ∧ selK ops ≤ n then [fileObj segs (selK ops - 1)] else []

/-- SPECIFICATION: the number on the `objno` line of the .sol file (0-based; -1 = no objective) -/
def echoSpec (ops : List OptOp) (n : Nat) : Int :=
  if selMulti ops then (if n > 0 then 0 else -1)
  else if 1 ≤ selK ops ∧ selK ops ≤ n then (selK ops : Int) - 1 else -1

/-! ### the header step -/

theorem header_ok {ops : List OptOp} {n : Nat} {st0 : St} (h : onHeader {} ops n = .ok st0) :
    multiobj st0.solver = selMulti ops ∧ objnoSpecified st0.solver = selK ops ∧
    st0.solver.optsRead = true ∧
    st0.solver.objAdded = decide (resultingNObj (selMulti ops) (selK ops) n > 0) ∧
    st0.objs = List.replicate (resultingNObj (selMulti ops) (selK ops) n) Obj.empty ∧
    ¬ (selK ops > n ∧ (givenObjno ops).isSome) ∧ validOpts ops := by
  simp only [onHeader] at h
  cases hp : parseOpts { ({} : Solver) with optsRead := false } ops with
  | error e => simp [hp] at h
  | ok s1 =>
    simp only [hp] at h
    obtain ⟨p1, p2, p3, p4, p5, p6⟩ := parseOpts_ok _ _ _ hp
    -- facts about the parsed option state, in user-level terms
    have hraw : s1.objnoRaw = (givenObjno ops).getD (-1) := by simpa [givenObjno] using p1
    have hmf : s1.multiFlag = givenMulti ops := by simpa [givenMulti] using p2
    have hneg : decide (s1.objnoRaw < 0) = (givenObjno ops).isNone := by
      rw [hraw]
      cases hg : givenObjno ops with
      | none => simp
      | some v =>
        have : 0 ≤ v := p5 v (by
          have := List.mem_of_getLast? (by simpa [givenObjno] using hg : (objnoVals ops).getLast? = some v)
          exact this)
        simp; omega
    have hk : s1.objnoRaw.natAbs = selK ops := by
      rw [hraw, selK]
      cases hg : givenObjno ops with
      | none => simp
      | some v =>
        have : 0 ≤ v := p5 v (by
          have := List.mem_of_getLast? (by simpa [givenObjno] using hg : (objnoVals ops).getLast? = some v)
          exact this)
        simp; omega
    have hspec : decide (0 ≤ s1.objnoRaw) = (givenObjno ops).isSome := by
      have : decide (0 ≤ s1.objnoRaw) = !decide (s1.objnoRaw < 0) := by
        by_cases hh : s1.objnoRaw < 0
        · have : ¬ (0 ≤ s1.objnoRaw) := by omega
          simp [hh, this]
        · have : 0 ≤ s1.objnoRaw := by omega
          simp [hh, this]
      rw [this, hneg]; cases givenObjno ops <;> simp
    have hmulti : multiobj { s1 with optsRead := true } = selMulti ops := by
      simp only [multiobj, selMulti, hmf, hneg]
    have hkk : objnoSpecified { s1 with optsRead := true } = selK ops := by
      simp only [objnoSpecified, hk]
    have hsp : isObjnoSpecified { s1 with optsRead := true } = (givenObjno ops).isSome := by
      simp only [isObjnoSpecified, hspec]
    rw [hmulti, hkk, hsp] at h
    split at h
    · simp at h
    · rename_i hchk
      simp at h; subst h
      refine ⟨hmulti, hkk, rfl, ?_, rfl, ?_, ⟨p5, p6⟩⟩
      · have : s1.objAdded = false := by simpa using p3
        simp [this]
      · intro ⟨a, b⟩
        apply hchk
        simp [a, b]

/-- in single-objective mode outside `1 ≤ k ≤ n` (after the range check) no objective slot exists -/
theorem resultingNObj_zero {ops : List OptOp} {n : Nat}
    (hchk : ¬ (selK ops > n ∧ (givenObjno ops).isSome)) (hr : ¬ (1 ≤ selK ops ∧ selK ops ≤ n)) :
    resultingNObj false (selK ops) n = 0 := by
  simp only [resultingNObj, Bool.false_eq_true, if_false]
  by_cases hk0 : selK ops = 0
  · simp [hk0]
  · have hgt : selK ops > n := by omega
    have hnone : givenObjno ops = none := by
      cases hg : givenObjno ops with
      | none => rfl
      | some v => exact absurd ⟨hgt, by simp [hg]⟩ hchk
    have : selK ops = 1 := by simp [selK, hnone]
    have : n = 0 := by omega
    simp [this]

/-! ## The property theorems -/

/-- **Selection.**  Whenever a run gets as far as delivering a model, the objectives delivered to
    the solver are exactly: all objectives of the file in file order in multi-objective mode; the
    `k`-th objective (sense, nonlinear expression, linear terms) when `1 ≤ k ≤ n`; none when `k = 0`
    or the file has no objective.  For every option sequence, every `n`, every segment stream. -/
theorem C12_select (ops : List OptOp) (n : Nat) (segs : List Seg) (st : St)
    (h : readNL ops n segs = .ok st) : delivered st = selected ops n segs := by
  simp only [readNL] at h
  cases hh : onHeader {} ops n with
  | error e => simp [hh] at h
  | ok st0 =>
    simp only [hh] at h
    obtain ⟨hm, hk, _, _, hobjs, hchk, _⟩ := header_ok hh
    simp only [delivered, selected]
    cases hsm : selMulti ops with
    | true =>
      simp only [if_true]
      rw [hsm] at hm hobjs
      apply List.ext_getElem?
      intro i
      rw [readSegs_multi segs st0 st hm h i, hobjs]
      simp only [resultingNObj, if_true, fileObjs, List.getElem?_replicate, List.getElem?_map]
      by_cases hi : i < n
      · simp [hi, List.getElem?_range hi, fileObj_eq_applyIdx]
      · have : (List.range n)[i]? = none := by simp; omega
        simp [hi, this]
    | false =>
      rw [hsm] at hm hobjs
      simp only [Bool.false_eq_true, if_false]
      by_cases hr : 1 ≤ selK ops ∧ selK ops ≤ n
      · simp only [hr, and_self, if_true]
        have h1 : resultingNObj false (selK ops) n = 1 := by
          simp only [resultingNObj, Bool.false_eq_true, if_false]
          have a : selK ops > 0 := by omega
          have b : n > 0 := by omega
          simp [a, b]
        rw [h1] at hobjs
        rw [readSegs_single_one segs st0 st Obj.empty hm hk hr.1 (by simpa using hobjs) h,
          fileObj_eq_applyIdx]
      · simp only [hr, if_false]
        have h0 : resultingNObj false (selK ops) n = 0 := by
          simp only [resultingNObj, Bool.false_eq_true, if_false]
          by_cases hk0 : selK ops = 0
          · simp [hk0]
          · -- then k > n; the range check passed, so the number was defaulted: k = 1, n = 0
            have hgt : selK ops > n := by omega
            have hnone : givenObjno ops = none := by
              cases hg : givenObjno ops with
              | none => rfl
              | some v => exact absurd ⟨hgt, by simp [hg]⟩ hchk
            have : selK ops = 1 := by simp [selK, hnone]
            have : n = 0 := by omega
            simp [this]
        rw [h0] at hobjs
        exact readSegs_nil segs st0 st (by simpa using hobjs) h

/-- **Selection, in the form "a list of objectives goes in, the selected ones come out".**
    For the segments `encode objs` of any list of objectives (all `O` segments, then the `G`
    segments, as AMPL writes them) the delivered list is `objs` itself in multi-objective mode,
    `[objs[k-1]]` for `1 ≤ k ≤ n`, `[]` otherwise.  (Also shows that `fileObj` reads a file back
    as intended, i.e. `C12_select` is not vacuous.) -/
theorem C12_select_encoded (ops : List OptOp) (objs : List Obj) (st : St)
    (h : readNL ops objs.length (encode objs) = .ok st) :
    delivered st =
      if selMulti ops then objs
      else if hk : 1 ≤ selK ops ∧ selK ops ≤ objs.length then [objs[selK ops - 1]'(by omega)] else [] := by
  rw [C12_select ops _ _ st h, selected]
  cases selMulti ops with
  | true =>
    simp only [if_true, fileObjs]
    apply List.ext_getElem?
    intro i
    by_cases hi : i < objs.length
    · simp [List.getElem?_range hi, hi, fileObj_encode objs i hi]
    · have : (List.range objs.length)[i]? = none := by simp; omega
      simp [this]; omega
  | false =>
    simp only [Bool.false_eq_true, if_false]
    by_cases hr : 1 ≤ selK ops ∧ selK ops ≤ objs.length
    · simp only [hr, and_self, if_true, dite_true]
      rw [fileObj_encode objs (selK ops - 1) (by omega)]
    · simp [hr]

/-- **Discarded segments are inert.**  In single-objective mode two files that agree on objective `k`
    (per-index reading) deliver the same thing, whatever the segments of the other objectives contain
    and wherever they are placed in the file. -/
theorem C12_unselected_inert (ops : List OptOp) (n : Nat) (segs segs' : List Seg) (st st' : St)
    (h : readNL ops n segs = .ok st) (h' : readNL ops n segs' = .ok st')
    (hs : selMulti ops = false)
    (hk : fileObj segs (selK ops - 1) = fileObj segs' (selK ops - 1)) :
    delivered st = delivered st' := by
  rw [C12_select ops n segs st h, C12_select ops n segs' st' h']
  simp only [selected, hs, Bool.false_eq_true, if_false, hk]

/-- the file is read back per index: objective `i` of `encode objs` is `objs[i]` -/
theorem C12_encode_faithful (objs : List Obj) : fileObjs objs.length (encode objs) = objs := by
  simp only [fileObjs]
  apply List.ext_getElem?
  intro i
  by_cases hi : i < objs.length
  · simp [List.getElem?_range hi, hi, fileObj_encode objs i hi]
  · have : (List.range objs.length)[i]? = none := by simp; omega
    simp [this]; omega

/-- **Rejection.**  An explicitly given objective number beyond the file's objectives is rejected
    with the option error of `OnHeader`, whatever `multiobj` says and whatever the file contains;
    nothing is delivered. -/
theorem C12_reject (ops : List OptOp) (n : Nat) (segs : List Seg) (hv : validOpts ops)
    (k : Int) (hg : givenObjno ops = some k) (hk : k > n) :
    readNL ops n segs = .error .objnoOutOfRange := by
  simp only [readNL]
  cases hh : onHeader {} ops n with
  | ok st0 =>
    obtain ⟨_, _, _, _, _, hchk, _⟩ := header_ok hh
    exfalso; apply hchk
    refine ⟨?_, by simp [hg]⟩
    simp only [selK, hg, Option.getD_some]; omega
  | error e =>
    simp only [onHeader] at hh
    cases hp : parseOpts { ({} : Solver) with optsRead := false } ops with
    | error e' =>
      obtain ⟨_, hbad⟩ := parseOpts_error _ _ _ hp
      rcases hbad with ⟨v, hv1, hv2⟩ | ⟨v, hv1, hv2⟩
      · have := hv.1 v hv1; omega
      · have := hv.2 v hv1; omega
    | ok s1 =>
      simp only [hp] at hh
      split at hh
      · simp at hh; subst hh; rfl
      · simp at hh

/-- **Rejection is not spurious**: the `objno` option error occurs only for an explicitly given
    number larger than the number of objectives. -/
theorem C12_reject_only (ops : List OptOp) (n : Nat) (segs : List Seg)
    (h : readNL ops n segs = .error .objnoOutOfRange) :
    ∃ k : Int, givenObjno ops = some k ∧ k > n := by
  simp only [readNL] at h
  cases hh : onHeader {} ops n with
  | ok st0 =>
    simp only [hh] at h
    have := readSegs_error _ _ _ h
    simp at this
  | error e =>
    simp only [hh] at h
    simp at h; subst h
    simp only [onHeader] at hh
    cases hp : parseOpts { ({} : Solver) with optsRead := false } ops with
    | error e' =>
      simp only [hp] at hh
      have := (parseOpts_error _ _ _ hp).1
      simp at hh; subst hh; simp at this
    | ok s1 =>
      simp only [hp] at hh
      obtain ⟨p1, _, _, _, p5, _⟩ := parseOpts_ok _ _ _ hp
      split at hh
      · rename_i hc
        simp only [Bool.and_eq_true, decide_eq_true_eq, objnoSpecified, isObjnoSpecified] at hc
        obtain ⟨c1, c2⟩ := hc
        have hraw : s1.objnoRaw = (givenObjno ops).getD (-1) := by simpa [givenObjno] using p1
        cases hg : givenObjno ops with
        | none => rw [hg] at hraw; simp at hraw; omega
        | some v =>
          rw [hg] at hraw; simp at hraw
          have c1' : n < s1.objnoRaw.natAbs := of_decide_eq_true c1
          have c2' : 0 ≤ s1.objnoRaw := by simpa using c2
          exact ⟨v, rfl, by omega⟩
      · simp at hh

/-- **No other failure.**  Valid option values, an objective number that is defaulted or within
    `0..n`, and in-range segment indices: the run delivers a model. -/
theorem C12_accept (ops : List OptOp) (n : Nat) (segs : List Seg) (hv : validOpts ops)
    (hk : ∀ k, givenObjno ops = some k → k ≤ n)
    (hidx : ∀ sg ∈ segs, ∀ i, segIdx? sg = some i → i < n) :
    ∃ st, readNL ops n segs = .ok st := by
  simp only [readNL]
  cases hh : onHeader {} ops n with
  | ok st0 => exact readSegs_total segs st0 hidx
  | error e =>
    exfalso
    cases e with
    | readError =>
      simp only [onHeader] at hh
      cases hp : parseOpts { ({} : Solver) with optsRead := false } ops with
      | error e' => have := (parseOpts_error _ _ _ hp).1; simp [hp] at hh; subst hh; simp at this
      | ok s1 => simp only [hp] at hh; split at hh <;> simp at hh
    | invalidOption =>
      simp only [onHeader] at hh
      cases hp : parseOpts { ({} : Solver) with optsRead := false } ops with
      | error e' =>
        obtain ⟨_, hbad⟩ := parseOpts_error _ _ _ hp
        rcases hbad with ⟨v, hv1, hv2⟩ | ⟨v, hv1, hv2⟩
        · have := hv.1 v hv1; omega
        · have := hv.2 v hv1; omega
      | ok s1 => simp only [hp] at hh; split at hh <;> simp at hh
    | objnoOutOfRange =>
      have : readNL ops n [] = .error .objnoOutOfRange := by simp [readNL, hh]
      obtain ⟨k, hg, hgt⟩ := C12_reject_only ops n [] this
      have := hk k hg; omega

/-- **Memory safety of the index remapping.**  Whenever an objective segment is kept, the slot it
    is written to exists (`builder_.obj(i)` only asserts its index). -/
theorem C12_index_in_range (multi : Bool) (k n idx : Nat) (hidx : idx < n)
    (hneed : needObj multi k idx = true) :
    resultingObjIndex multi idx < resultingNObj multi k n := by
  cases multi with
  | true => simpa [resultingObjIndex, resultingNObj] using hidx
  | false =>
    simp only [resultingObjIndex, resultingNObj, Bool.false_eq_true, if_false]
    by_cases hk : 1 ≤ k
    · have a : k > 0 := by omega
      have b : n > 0 := by omega
      simp [a, b]
    · have : k = 0 := by omega
      subst this
      simp [needObj_zero] at hneed

/-- **Echo.**  The number on the `objno` line of the .sol file is the 0-based index of the objective
    that was used (`k-1`; `0` in multi-objective mode with `n>0`), and `-1` when none was - for every
    option sequence, every `n`, every segment stream (objectives without an `O` segment included). -/
theorem C12_echo (ops : List OptOp) (n : Nat) (segs : List Seg) (st : St)
    (h : readNL ops n segs = .ok st) : solObjnoLine st = echoSpec ops n := by
  simp only [readNL] at h
  cases hh : onHeader {} ops n with
  | error e => simp [hh] at h
  | ok st0 =>
    simp only [hh] at h
    obtain ⟨hm, hk, hor, hoa, _, hchk, _⟩ := header_ok hh
    obtain ⟨a1, a2, a3, a4⟩ := readSegs_solver segs st0 st h
    obtain ⟨c1, c2, _⟩ := multiobj_congr a1 a2
    have hidx := readSegs_ok_idx segs st0 st h
    simp only [solObjnoLine, objnoUsed, a3, hor, if_true, a4, hoa, c2, hk, hm, echoSpec]
    cases hsm : selMulti ops with
    | true =>
      simp only [if_true, resultingNObj]
      by_cases hn : n > 0
      · have hnone : givenObjno ops = none := by
          simp only [selMulti, Bool.and_eq_true] at hsm
          cases hg : givenObjno ops with
          | none => rfl
          | some v => simp [hg] at hsm
        simp [hn, selK, hnone]
      · have hno : segs.any (addsObj true (selK ops)) = false := by
          rw [Bool.eq_false_iff]
          intro hany
          obtain ⟨sg, hsg, hadd⟩ := List.any_eq_true.mp hany
          cases sg with
          | O idx mx nl => have := hidx _ hsg idx rfl; omega
          | G idx ts => simp [addsObj] at hadd
          | other => simp [addsObj] at hadd
        simp [hno, hn]
    | false =>
      simp only [Bool.false_eq_true, if_false]
      by_cases hr : 1 ≤ selK ops ∧ selK ops ≤ n
      · have h1 : resultingNObj false (selK ops) n = 1 := by
          simp only [resultingNObj, Bool.false_eq_true, if_false]
          have a : selK ops > 0 := by omega
          have b : n > 0 := by omega
          simp [a, b]
        simp [h1, hr]
      · simp only [hr, if_false, resultingNObj_zero hchk hr]
        have hno : segs.any (addsObj false (selK ops)) = false := by
          by_cases hk0 : selK ops = 0
          · rw [hk0]; exact any_addsObj_zero segs
          · rw [Bool.eq_false_iff]
            intro hany
            obtain ⟨sg, hsg, hadd⟩ := List.any_eq_true.mp hany
            cases sg with
            | O idx mx nl =>
              have := hidx _ hsg idx rfl
              simp only [addsObj, needObj_single (selK ops) idx (by omega), decide_eq_true_eq] at hadd
              omega
            | G idx ts => simp [addsObj] at hadd
            | other => simp [addsObj] at hadd
        simp [hno]

/-- regression witness for the former finding C12-echo-noO: one objective declared, only a `G`
    segment, default options: objective delivered and echoed as objective 0 -/
theorem C12_echo_noO_regression :
    ∃ st, readNL [] 1 [Seg.G 0 [(0, 1)]] = .ok st ∧
      delivered st = [⟨false, 0, [(0, 1)]⟩] ∧ solObjnoLine st = 0 := by
  exact ⟨_, rfl, by decide, by decide⟩

/-- **Objective names.**  The row-file entries used as names of the
    delivered objectives are those of the selected objectives: `numCons + (k-1)`, resp.
    `numCons + i` for every `i < n` in multi-objective mode. -/
theorem C12_names (ops : List OptOp) (n numCons : Nat) (segs : List Seg) (st : St)
    (h : readNL ops n segs = .ok st) :
    objRowIdx numCons st =
      if selMulti ops then (List.range n).map (fun i => ((numCons + i : Nat) : Int))
      else if 1 ≤ selK ops ∧ selK ops ≤ n then [((numCons + (selK ops - 1) : Nat) : Int)] else [] := by
  have hsel := C12_select ops n segs st h
  have hecho := C12_echo ops n segs st h
  simp only [delivered] at hsel
  simp only [readNL] at h
  cases hh : onHeader {} ops n with
  | error e => simp [hh] at h
  | ok st0 =>
    simp only [hh] at h
    obtain ⟨hm, _, _, _, _, _, _⟩ := header_ok hh
    obtain ⟨a1, a2, _, _⟩ := readSegs_solver segs st0 st h
    obtain ⟨c1, _, _⟩ := multiobj_congr a1 a2
    simp only [objRowIdx, c1, hm, hsel]
    simp only [solObjnoLine] at hecho
    cases hsm : selMulti ops with
    | true =>
      simp only [selected, hsm, if_true, fileObjs, List.length_map, List.length_range]
      by_cases hn : n = 0
      · simp [hn]
      · simp [hn]
    | false =>
      simp only [selected, hsm, echoSpec, Bool.false_eq_true, if_false] at hecho ⊢
      by_cases hr : 1 ≤ selK ops ∧ selK ops ≤ n
      · simp only [hr, and_self, if_true] at hecho ⊢
        simp only [List.length_singleton, Nat.succ_ne_zero, if_false]
        rw [hecho]; congr 1; omega
      · simp [hr]

/-! ## Tie to the source text

`MpVerif.Gen.ObjFilter` is regenerated on every run by `translators/gen_objfilter.py` from clang's typed AST
of the *instantiated* member functions in `include/mp/nl-reader.h`, `solver-base.h`, `solver-io.h`.  The
theorems below state that the generated definitions (C++ `int`/`bool` semantics of `MpVerif.Basic.CSem`,
including undefined behaviour) coincide with the hand model the selection theorems are about, for every
input in `int` range.  A change of the C++ text changes the generated definition, and the corresponding
theorem no longer checks. -/
section GenTie
open MpVerif.CSem MpVerif.Gen

/-- C++ `bool` as an integer -/
def bi (b : Bool) : Int := if b then 1 else 0

/-- `objno_` values a `BasicSolver` can hold: the default `-1` or what `SetObjNo` accepted, within `int` -/
def rawInRange (raw : Int) : Prop := -2147483648 < raw ∧ raw ≤ 2147483647

theorem arith_tI {r : Int} (h1 : -2147483648 ≤ r) (h2 : r ≤ 2147483647) : arith tI r = .ret r := by
  have hlo : tI.lo = -2147483648 := by decide
  have hhi : tI.hi = 2147483647 := by decide
  have hs : tI.signed = true := rfl
  simp [arith, hs, hlo, hhi, h1, h2]

theorem C12_gen_NeedObj (multi : Bool) (k idx : Nat) (hk : (k : Int) ≤ 2147483647) :
    ObjFilter.NeedObj idx (bi multi) k = .ret (bi (needObj multi k idx)) := by
  cases multi with
  | true => simp [ObjFilter.NeedObj, cor, bi, needObj]
  | false =>
    have h1 : arith tI ((k : Int) - 1) = .ret ((k : Int) - 1) := arith_tI (by omega) (by omega)
    by_cases h : (k : Int) - 1 = (idx : Int)
    · have h1' := h1; rw [h] at h1'
      simp [ObjFilter.NeedObj, cor, bi, needObj, csub, h1', h, ceq, tobool]
    · simp [ObjFilter.NeedObj, cor, bi, needObj, csub, h1, h, ceq, tobool]

theorem C12_gen_resulting_nobj (multi : Bool) (k n : Nat) :
    ObjFilter.resulting_nobj n (bi multi) k = .ret ((resultingNObj multi k n : Nat) : Int) := by
  have c0 : conv tI 0 = 0 := by decide
  have c1 : conv tI 1 = 1 := by decide
  cases multi with
  | true => simp [ObjFilter.resulting_nobj, bi, resultingNObj]
  | false =>
    by_cases hk : k > 0 <;> by_cases hn : n > 0 <;>
      simp [ObjFilter.resulting_nobj, bi, resultingNObj, ObjFilter.cmin, cgt, hk, hn, c0, c1] <;> omega

theorem C12_gen_resulting_obj_index (multi : Bool) (idx : Nat) :
    ObjFilter.resulting_obj_index idx (bi multi) = .ret ((resultingObjIndex multi idx : Nat) : Int) := by
  cases multi <;> simp [ObjFilter.resulting_obj_index, bi, resultingObjIndex]

theorem C12_gen_objno_specified (s : Solver) (h : rawInRange s.objnoRaw) :
    ObjFilter.objno_specified s.objnoRaw = .ret (objnoSpecified s : Int) := by
  obtain ⟨h1, h2⟩ := h
  simp only [ObjFilter.objno_specified, ObjFilter.cabs, objnoSpecified]
  by_cases hneg : s.objnoRaw < 0
  · have hr : arith tI (-s.objnoRaw) = .ret (-s.objnoRaw) := arith_tI (by omega) (by omega)
    simp [hneg, cneg, hr]; omega
  · simp [hneg]; omega

theorem C12_gen_is_objno_specified (s : Solver) :
    ObjFilter.is_objno_specified s.objnoRaw = .ret (bi (isObjnoSpecified s)) := by
  by_cases h : 0 ≤ s.objnoRaw <;> simp [ObjFilter.is_objno_specified, cge, bi, isObjnoSpecified, h]

theorem C12_gen_multiobj (s : Solver) :
    ObjFilter.multiobj (bi s.multiFlag) s.objnoRaw = .ret (bi (multiobj s)) := by
  cases hm : s.multiFlag <;> by_cases h : s.objnoRaw < 0 <;>
    simp [ObjFilter.multiobj, cand, clt, bi, multiobj, hm, h, tobool, Outcome.bind]

theorem C12_gen_objno_used (s : Solver) (h : rawInRange s.objnoRaw) :
    ObjFilter.objno_used (bi s.optsRead) (bi s.objAdded) s.objnoRaw = .ret (objnoUsed s : Int) := by
  have hs := C12_gen_objno_specified s h
  cases ho : s.optsRead <;> cases ha : s.objAdded <;>
    simp [ObjFilter.objno_used, bi, objnoUsed, ho, ha, hs]

/-- the overrides in `SolverNLHandlerImpl` (what the virtual calls `objno()` / `multiobj()` of
    `NLProblemBuilder` evaluate to in a driver) are the solver accessors -/
theorem C12_gen_handler_overrides (fm raw : Int) :
    ObjFilter.handler_objno raw = ObjFilter.objno_specified raw ∧
    ObjFilter.handler_multiobj fm raw = ObjFilter.multiobj fm raw := ⟨rfl, rfl⟩

theorem C12_gen_SetObjNo (s : Solver) (v : Int) :
    ObjFilter.SetObjNo v = (match setOpt s (.objno v) with
      | .error _ => .throw
      | .ok s' => .ret s'.objnoRaw) := by
  by_cases h : v < 0 <;> simp [ObjFilter.SetObjNo, clt, setOpt, h]

/-- the three notifications store `true`, `false`, `true` (as `onSeg` / `onHeader` of the model do) -/
theorem C12_gen_notify :
    ObjFilter.notify_obj_added = .ret (bi true) ∧ ObjFilter.notify_start_opts = .ret (bi false) ∧
    ObjFilter.notify_end_opts = .ret (bi true) := ⟨rfl, rfl, rfl⟩

/-- the objno range check of `SolverNLHandlerImpl::OnHeader` is the condition of the model's `onHeader` -/
theorem C12_gen_OnHeader_check (s : Solver) (n : Nat) (h : rawInRange s.objnoRaw) :
    ObjFilter.OnHeader_check s.objnoRaw n =
      if (decide (objnoSpecified s > n) && isObjnoSpecified s) = true then .throw else .ret 0 := by
  simp only [ObjFilter.OnHeader_check, C12_gen_objno_specified s h, C12_gen_is_objno_specified s,
    Outcome.bind_ret]
  by_cases h1 : objnoSpecified s > n <;> by_cases h2 : 0 ≤ s.objnoRaw
  all_goals simp [cand, cgt, bi, isObjnoSpecified, h1, h2, tobool, Outcome.bind]
  all_goals omega

/-- order of the steps of `SolverNLHandlerImpl::OnHeader`: options are parsed (`after_header_`), then
    `notify_end_opts`, then the range check, then the base class creates the objectives -/
theorem C12_gen_skel_OnHeader : ObjFilter.skel_SolverNLHandler_OnHeader = [
    "store num_options_ := h.num_ampl_options",
    "call copy(h.ampl_options, (h.ampl_options + num_options_), options_)",
    "if after_header_.operator bool() { call solver_.notify_start_opts() ; call operator()(after_header_) }",
    "call solver_.notify_end_opts()",
    "decl objno := solver_.objno_specified()",
    "throw-if ((objno > h.num_objs) && solver_.is_objno_specified()) : InvalidOptionValue(StringRef(\"objno\"), objno, StringRef(format(CStringRef(\"expected value between 0 and {}\"), h.num_objs)))",
    "call OnHeader(h)"] := rfl

/-- `NLProblemBuilder::OnHeader`: `resulting_nobj(h.num_objs)` objectives are created and, if any,
    `notify_obj_added()` is called -/
theorem C12_gen_skel_builder_OnHeader : ObjFilter.skel_NLProblemBuilder_OnHeader = [
    "call builder_.SetInfo(h)",
    "call AddVariables(h)",
    "if decl n := h.num_common_exprs() ; n { call builder_.AddCommonExprs(n) }",
    "decl n_objs := resulting_nobj(h.num_objs)",
    "if (n_objs != 0) { call builder_.AddObjs(n_objs) ; call notify_obj_added() }",
    "if (h.num_algebraic_cons != 0) { call builder_.AddAlgebraicCons(h.num_algebraic_cons) }",
    "if (h.num_logical_cons != 0) { call builder_.AddLogicalCons(h.num_logical_cons) }",
    "if (h.num_funcs != 0) { call builder_.AddFunctions(h.num_funcs) }"] := rfl

/-- `OnObj` sets sense and expression of slot `index` and notifies; `OnLinearObjExpr` hands out the
    linear builder of slot `obj_index`; the handler's notification reaches the solver -/
theorem C12_gen_skel_obj_events :
    ObjFilter.skel_NLProblemBuilder_OnObj =
      ["call SetObj(builder_.obj(index), type, NLProblemBuilder(expr))", "call notify_obj_added()"] ∧
    ObjFilter.skel_NLProblemBuilder_OnLinearObjExpr =
      ["return builder_.obj(obj_index).set_linear_expr(num_linear_terms)"] ∧
    ObjFilter.skel_SolverNLHandler_notify_obj_added = ["call solver_.notify_obj_added()"] := ⟨rfl, rfl, rfl⟩

/-! ### Round 4: option setters, uses of the filter in the NL reader, name indices, delivery loops -/

theorem C12_gen_GetObjNo (raw : Int) : ObjFilter.GetObjNo raw = ObjFilter.objno_specified raw := rfl

/-- `BoolOption::SetValue` (the `obj:multi` setter, src/solver.cc) is the model's `setOpt … (.multi v)`: rejects everything
    but 0/1, stores `v ≠ 0` -/
theorem C12_gen_BoolOption_SetValue (s : Solver) (v : Int) :
    ObjFilter.BoolOption_SetValue v = (match setOpt s (.multi v) with
      | .error _ => .throw
      | .ok s' => .ret (bi s'.multiFlag)) := by
  have c0 : conv tLL 0 = 0 := by decide
  have c1 : conv tLL 1 = 1 := by decide
  by_cases h0 : v = 0
  · subst h0; simp [ObjFilter.BoolOption_SetValue, c0, c1, cne, cand, setOpt, bi, tobool, Outcome.bind]
  · by_cases h1 : v = 1
    · subst h1; simp [ObjFilter.BoolOption_SetValue, c0, c1, cne, cand, setOpt, bi, tobool, Outcome.bind]
    · simp [ObjFilter.BoolOption_SetValue, c0, c1, cne, cand, setOpt, h0, h1, tobool, Outcome.bind]

/-- `ObjHandler::SkipExpr` (guard of the `G` segments) is the negation of the model's `needObj` -/
theorem C12_gen_SkipExpr (multi : Bool) (k idx : Nat) (hk : (k : Int) ≤ 2147483647) :
    ObjFilter.ObjHandler_SkipExpr idx (bi multi) k = .ret (bi (!needObj multi k idx)) := by
  simp only [ObjFilter.ObjHandler_SkipExpr, C12_gen_NeedObj multi k idx hk, Outcome.bind_ret]
  cases needObj multi k idx <;> simp [bi, cnot]

/-- guard of the `O` segments (`case 'O'` of `NLReader::Read`) is the model's `needObj` -/
theorem C12_gen_caseO_guard (multi : Bool) (k idx : Nat) (hk : (k : Int) ≤ 2147483647) :
    ObjFilter.caseO_guard idx (bi multi) k = .ret (bi (needObj multi k idx)) :=
  C12_gen_NeedObj multi k idx hk

/-- the slot an `O` resp. `G` segment is written to is the model's `resultingObjIndex` -/
theorem C12_gen_segment_slots (multi : Bool) (idx : Nat) :
    ObjFilter.caseO_slot idx (bi multi) = .ret ((resultingObjIndex multi idx : Nat) : Int) ∧
    ObjFilter.ObjHandler_OnLinearExpr_slot idx (bi multi) = .ret ((resultingObjIndex multi idx : Nat) : Int) :=
  ⟨C12_gen_resulting_obj_index multi idx, C12_gen_resulting_obj_index multi idx⟩

/-- `.row` indices `a, a+1, …, b-1` -/
def rowsFromTo (a b : Int) : List Int := (List.range (b - a).toNat).map (fun (j : Nat) => a + (j : Int))

/-- `SetObjNames`: guard and loop bounds generated from the source give exactly the model's `objRowIdx` -/
theorem C12_gen_SetObjNames (st : St) (numCons : Nat) (h : rawInRange st.solver.objnoRaw)
    (hb : (numCons : Int) + st.objs.length + objnoUsed st.solver ≤ 2147483647) :
    ObjFilter.SetObjNames_guard st.objs.length = .ret (if st.objs.length = 0 then 0 else 1) ∧
    ∃ a b : Int,
      ObjFilter.SetObjNames_first numCons (bi st.solver.optsRead) (bi st.solver.objAdded) st.solver.objnoRaw
        (bi st.solver.multiFlag) st.objs.length = .ret a ∧
      ObjFilter.SetObjNames_end numCons (bi st.solver.optsRead) (bi st.solver.objAdded) st.solver.objnoRaw
        (bi st.solver.multiFlag) st.objs.length = .ret b ∧
      objRowIdx numCons st = if st.objs.length = 0 then [] else rowsFromTo a b := by
  constructor
  · by_cases hl : st.objs.length = 0 <;> simp [ObjFilter.SetObjNames_guard, tobool, hl]
  · have hu := C12_gen_objno_used st.solver h
    have hm := C12_gen_multiobj st.solver
    have hused : (0 : Int) ≤ objnoUsed st.solver := by omega
    cases hmulti : multiobj st.solver with
    | true =>
      refine ⟨numCons, (numCons : Int) + st.objs.length, ?_, ?_, ?_⟩
      · have a1 : arith tI ((objnoUsed st.solver : Int) - 1) = .ret ((objnoUsed st.solver : Int) - 1) := arith_tI (by omega) (by omega)
        have a2 : arith tI ((objnoUsed st.solver : Int) - 1 + 1) = .ret ((objnoUsed st.solver : Int) - 1 + 1) := arith_tI (by omega) (by omega)
        have a3 : arith tI ((numCons : Int) + 0) = .ret ((numCons : Int) + 0) := arith_tI (by omega) (by omega)
        simp only [ObjFilter.SetObjNames_first, hu, hm, Outcome.bind_ret, csub, cadd, a1, a2, hmulti]
        have n1 : arith tI (numCons : Int) = .ret (numCons : Int) := arith_tI (by omega) (by omega)
        have n2 : arith tI ((numCons : Int) + (objnoUsed st.solver : Int)) = .ret ((numCons : Int) + (objnoUsed st.solver : Int)) := arith_tI (by omega) (by omega)
        simp [bi, a3, n1, n2]
      · have a1 : arith tI ((objnoUsed st.solver : Int) - 1) = .ret ((objnoUsed st.solver : Int) - 1) := arith_tI (by omega) (by omega)
        have a2 : arith tI ((objnoUsed st.solver : Int) - 1 + 1) = .ret ((objnoUsed st.solver : Int) - 1 + 1) := arith_tI (by omega) (by omega)
        have a3 : arith tI ((numCons : Int) + (st.objs.length : Int)) = .ret ((numCons : Int) + (st.objs.length : Int)) := arith_tI (by omega) (by omega)
        simp only [ObjFilter.SetObjNames_end, hu, hm, Outcome.bind_ret, csub, cadd, a1, a2, hmulti]
        have n1 : arith tI (numCons : Int) = .ret (numCons : Int) := arith_tI (by omega) (by omega)
        have n2 : arith tI ((numCons : Int) + (objnoUsed st.solver : Int)) = .ret ((numCons : Int) + (objnoUsed st.solver : Int)) := arith_tI (by omega) (by omega)
        simp [bi, a3, n1, n2]
      · by_cases hl : st.objs.length = 0
        · simp [objRowIdx, hl]
        · simp only [objRowIdx, hl, if_false, hmulti, if_true, rowsFromTo]
          have : ((numCons : Int) + (st.objs.length : Int) - (numCons : Int)).toNat = st.objs.length := by omega
          rw [this]
          apply List.map_congr_left
          intro i _
          omega
    | false =>
      refine ⟨(numCons : Int) + ((objnoUsed st.solver : Int) - 1), (numCons : Int) + ((objnoUsed st.solver : Int) - 1 + 1), ?_, ?_, ?_⟩
      · have a1 : arith tI ((objnoUsed st.solver : Int) - 1) = .ret ((objnoUsed st.solver : Int) - 1) := arith_tI (by omega) (by omega)
        have a2 : arith tI ((objnoUsed st.solver : Int) - 1 + 1) = .ret ((objnoUsed st.solver : Int) - 1 + 1) := arith_tI (by omega) (by omega)
        have a3 : arith tI ((numCons : Int) + ((objnoUsed st.solver : Int) - 1)) = .ret ((numCons : Int) + ((objnoUsed st.solver : Int) - 1)) := arith_tI (by omega) (by omega)
        simp only [ObjFilter.SetObjNames_first, hu, hm, Outcome.bind_ret, csub, cadd, a1, a2, hmulti]
        have n1 : arith tI (numCons : Int) = .ret (numCons : Int) := arith_tI (by omega) (by omega)
        have n2 : arith tI ((numCons : Int) + (objnoUsed st.solver : Int)) = .ret ((numCons : Int) + (objnoUsed st.solver : Int)) := arith_tI (by omega) (by omega)
        simp [bi, a3, n1, n2]
      · have a1 : arith tI ((objnoUsed st.solver : Int) - 1) = .ret ((objnoUsed st.solver : Int) - 1) := arith_tI (by omega) (by omega)
        have a2 : arith tI ((objnoUsed st.solver : Int) - 1 + 1) = .ret ((objnoUsed st.solver : Int) - 1 + 1) := arith_tI (by omega) (by omega)
        have a3 : arith tI ((numCons : Int) + ((objnoUsed st.solver : Int) - 1 + 1)) = .ret ((numCons : Int) + ((objnoUsed st.solver : Int) - 1 + 1)) := arith_tI (by omega) (by omega)
        simp only [ObjFilter.SetObjNames_end, hu, hm, Outcome.bind_ret, csub, cadd, a1, a2, hmulti]
        have n1 : arith tI (numCons : Int) = .ret (numCons : Int) := arith_tI (by omega) (by omega)
        have n2 : arith tI ((numCons : Int) + (objnoUsed st.solver : Int)) = .ret ((numCons : Int) + (objnoUsed st.solver : Int)) := arith_tI (by omega) (by omega)
        simp [bi, a3, n1, n2]
      · by_cases hl : st.objs.length = 0
        · simp [objRowIdx, hl]
        · simp only [objRowIdx, hl, if_false, hmulti, rowsFromTo]
          have : ((numCons : Int) + ((objnoUsed st.solver : Int) - 1 + 1) - ((numCons : Int) + ((objnoUsed st.solver : Int) - 1))).toNat = 1 := by omega
          rw [this]
          simp

/-- `case 'O'`: index bounded by the header count, guard `NeedObj`, slot `resulting_obj_index`, sense `type != 0 ↦ MAX` -/
theorem C12_gen_skel_caseO : ObjFilter.skel_NLReader_caseO = [
    "decl index := ReadUInt(header_.num_objs)",
    "decl obj_type := reader_.ReadUInt()",
    "call reader_.ReadTillEndOfLine()",
    "decl expr := ReadNumericExpr(true)",
    "if handler_.NeedObj(index) { call handler_.OnObj(handler_.resulting_obj_index(index), ((obj_type != 0) ? MAX : MIN), NLProblemBuilder(expr)) }",
    "break"] := rfl

/-- `case 'G'`: `ReadLinearExpr<ObjHandler>()`: index bounded by `num_items()`, skipped terms go to the null handler -/
theorem C12_gen_skel_caseG : ObjFilter.skel_NLReader_caseG = [
    "call ReadLinearExpr<ObjHandler>()",
    "decl lh := NLReader(*(this))",
    "decl index := ReadUInt(lh.num_items())",
    "decl num_terms := ReadUInt(1, (header_.num_vars + 1))",
    "call reader_.ReadTillEndOfLine()",
    "if lh.SkipExpr(index) { call ReadLinearExpr(num_terms, NullLinearExprHandler()) } else { call ReadLinearExpr(num_terms, lh.OnLinearExpr(index, num_terms)) }"] := rfl

/-- every problem objective `i` is converted, in order (flattener), and pushed as flat objective `i` (model `delivered`);
    the `.sol` line prints `objno() - 1` (model `solObjnoLine`).  (`?` = a member name clang's dump of the uninstantiated
    template does not carry.) -/
theorem C12_gen_skel_delivery :
    ObjFilter.skel_Flattener_objective_loop =
      ["if decl num_objs := ?().num_objs() ; num_objs { for (decl i := 0 ; (i < num_objs) ; ++(i)) { call this.ExportObj(i) ; call this.Convert(?().obj(i)) } }"] ∧
    ObjFilter.skel_FlatModel_PushObjectivesTo =
      ["if decl n_objs := num_objs() ; n_objs { for (decl i := 0 ; (i < n_objs) ; ++(i)) { decl obj := get_obj(i) ; if obj.GetQPTerms().size() { call backend.SetQuadraticObjective(i, obj) } else { call backend.SetLinearObjective(i, obj) } ; call ExportObjective(i, obj) } }"] ∧
    ObjFilter.skel_WriteSolFile_objno =
      ["call file.?(\"objno {} {}\\n\", operator-(sol.objno(), 1), sol.status())"] := ⟨rfl, rfl, rfl⟩

/-- `ProblemFlattener::Convert(MutObjective)`: G terms, then the expression's linear terms and the constant's fixed variable
    are appended, and only THEN `le.sort_terms()` / `QPTerms().sort_terms()` run, before the objective is added - the order
    `deliveredLin` assumes (seeded change C12-6 moved the two calls up) -/
theorem C12_gen_skel_Convert_objective : ObjFilter.skel_Flattener_Convert_objective = [
    "decl obj_src := GetValuePresolver().GetSourceNodes().GetObjValues()().Add()",
    "call GetCopyLink().AddEntry({obj_src, GetValuePresolver().GetTargetNodes().GetObjValues()().Add()})",
    "decl auto_link_scope := {?(), obj_src}",
    "decl le := ToLinTerms(obj.linear_expr())",
    "decl e := obj.nonlinear_expr()",
    "decl eexpr := EExpr()",
    "if e.operator void (mp::internal::ExprBase::*)() const() { store eexpr := this.Visit(e) ; call le.add(eexpr.GetLinTerms()) ; if (fabs(eexpr.constant_term()) != 0) { call le.add_term(1, MakeFixedVar(eexpr.constant_term())) } }",
    "call le.sort_terms()",
    "call eexpr.GetQPTerms().sort_terms()",
    "decl ctx := ((MAX == obj.type()) ? CTX_POS : CTX_NEG)",
    "call ?().PropagateResult2LinTerms(le, ?().MinusInfty(), ?().Infty(), ctx)",
    "call ?().PropagateResult2QuadTerms(eexpr.GetQPTerms(), ?().MinusInfty(), ?().Infty(), ctx)",
    "decl lo := {obj.type(), move(le.coefs()), move(le.vars())}",
    "call ?().AddObjective(QuadraticObjective(move(lo), move(eexpr.GetQPTerms())))"] := rfl

/-- tripwire: the text of `LinTerms::sort_terms` (src/std_constr.cc) that `sortTerms` was modelled after: accumulate non-zero
    entries in a `std::map`, rebuild in key order without zero sums only if the map is smaller than the list -/
theorem C12_gen_skel_sort_terms : ObjFilter.skel_LinTerms_sort_terms = [
    "decl var_coef_map := map()",
    "for (decl i := 0 ; (i < size()) ; ++(i)) { if (0 != fabs(operator[](coefs_, i))) { store operator[](var_coef_map, operator[](vars_, i)) += operator[](coefs_, i) } }",
    "if (force_sort || (var_coef_map.size() < size())) { call coefs_.clear() ; call vars_.clear() ; for (vc : var_coef_map) { if (0 != fabs(vc.second)) { call coefs_.push_back(vc.second) ; call vars_.push_back(vc.first) } } }"] := rfl

/-- `SetObjNames` as a whole: guard, index arithmetic, loop, name taken from `.row` entry `io` or generated `_sobj[io-num_c+1]` -/
theorem C12_gen_skel_SetObjNames : ObjFilter.skel_SetObjNames = [
    "if GetModel().num_objs() { decl num_c := GetModel().num_cons() ; decl o1 := (GetEnv().objno_used() - 1) ; decl o2 := (o1 + 1) ; if GetEnv().multiobj() { store o1 := 0 ; store o2 := GetModel().num_objs() } ; decl names_o := vector() ; for (decl io := (num_c + o1) ; (io < (num_c + o2)) ; ++(io)) { if (npco.number_read() > io) { call names_o.push_back(npco.name(io, default).operator basic_string()) } else { call names_o.push_back(operator+(operator+(\"_sobj[\", to_string(((io - num_c) + 1))), ']')) } } ; call GetModel().SetObjNames(vector(move(names_o))) }"] := rfl

/-! ### Round 7: `LinTerms::sort_terms` translated (vector/map loops as folds) and proved equal to `sortTerms` -/

/-- a model term with its variable index as a C++ `int` -/
def castT (t : Nat × Int) : Int × Int := ((t.1 : Int), t.2)

theorem mapAddTo_cast (w : Nat) (d : Int) : ∀ m : List (Nat × Int),
    ObjFilter.mapAddTo (m.map castT) (w : Int) d = (addTo m w d).map castT := by
  intro m
  induction m with
  | nil => simp [ObjFilter.mapAddTo, addTo, castT]
  | cons t m ih =>
    obtain ⟨x, y⟩ := t
    simp only [List.map_cons, castT, ObjFilter.mapAddTo, addTo]
    by_cases h1 : w < x
    · have : (w : Int) < (x : Int) := by omega
      simp [h1, this, castT]
    · have h1' : ¬ ((w : Int) < (x : Int)) := by omega
      by_cases h2 : w = x
      · subst h2; simp [castT]
      · have h2' : ¬ ((w : Int) = (x : Int)) := by omega
        simp only [h1, h1', h2, h2', if_false, List.map_cons, castT]
        rw [← ih]

theorem nz_iff (d : Int) : (cne (0 : Int) (ObjFilter.dabs d) ≠ 0) ↔ d ≠ 0 := by
  simp only [cne, ObjFilter.dabs]
  by_cases h : d < 0 <;> simp [h] <;> omega


theorem loop1 : ∀ (l m : List (Nat × Int)) (c v : List Int),
    (List.zip (l.map (·.2)) (l.map (fun t => (t.1 : Int)))).foldl
      (fun (s : ObjFilter.LinTerms_sort_terms.St) (it : Int × Int) =>
        let s := if (cne (0 : Int) (ObjFilter.dabs it.1)) ≠ 0 then (let s := { s with var_coef_map := ObjFilter.mapAddTo s.var_coef_map it.2 it.1 }; s) else (s); s)
      ⟨c, v, m.map castT⟩ = ⟨c, v, (accumulate m l).map castT⟩ := by
  intro l
  induction l with
  | nil => intro m c v; simp [accumulate]
  | cons t l ih =>
    intro m c v
    obtain ⟨w, d⟩ := t
    simp only [List.map_cons, List.zip_cons_cons, List.foldl_cons, accumulate]
    by_cases hd : d ≠ 0
    · have h1 : cne (0 : Int) (ObjFilter.dabs d) ≠ 0 := (nz_iff d).mpr hd
      have e : (if (w, d).2 ≠ 0 then addTo m (w, d).1 (w, d).2 else m) = addTo m w d := if_pos hd
      rw [e]
      simp only [h1, if_true, ne_eq, not_false_eq_true, mapAddTo_cast]
      exact ih (addTo m w d) c v
    · have h1 : ¬ (cne (0 : Int) (ObjFilter.dabs d) ≠ 0) := fun h => hd ((nz_iff d).mp h)
      have e : (if (w, d).2 ≠ 0 then addTo m (w, d).1 (w, d).2 else m) = m := if_neg hd
      rw [e]
      have h1' : cne (0 : Int) (ObjFilter.dabs d) = 0 := by simpa using h1
      simp only [h1', ne_eq, not_true_eq_false, if_false]
      exact ih m c v

theorem loop2 : ∀ (mm : List (Nat × Int)) (c v : List Int) (M : List (Int × Int)),
    (mm.map castT).foldl
      (fun (s : ObjFilter.LinTerms_sort_terms.St) (vc : Int × Int) =>
        let s := if (cne (0 : Int) (ObjFilter.dabs vc.2)) ≠ 0 then (let s := { s with coefs_ := s.coefs_ ++ [vc.2] }; let s := { s with vars_ := s.vars_ ++ [vc.1] }; s) else (s); s)
      ⟨c, v, M⟩ =
      ⟨c ++ (mm.filter (fun t => t.2 ≠ 0)).map (·.2), v ++ (mm.filter (fun t => t.2 ≠ 0)).map (fun t => (t.1 : Int)), M⟩ := by
  intro mm
  induction mm with
  | nil => intro c v M; simp
  | cons t mm ih =>
    intro c v M
    obtain ⟨w, d⟩ := t
    simp only [List.map_cons, List.foldl_cons, castT, List.filter_cons]
    by_cases hd : d ≠ 0
    · have h1 : cne (0 : Int) (ObjFilter.dabs d) ≠ 0 := (nz_iff d).mpr hd
      simp only [h1, if_true, ne_eq, not_false_eq_true]
      have := ih (c ++ [d]) (v ++ [(w : Int)]) M
      simp only [castT] at this
      rw [this]
      simp [hd]
    · have h1' : cne (0 : Int) (ObjFilter.dabs d) = 0 := by
        have : ¬ (cne (0 : Int) (ObjFilter.dabs d) ≠ 0) := fun h => hd ((nz_iff d).mp h)
        simpa using this
      have hd0 : d = 0 := by simpa using hd
      simp only [h1', ne_eq, not_true_eq_false, if_false]
      have := ih c v M
      simp only [castT] at this
      rw [this]
      simp [hd0]

/-- **`LinTerms::sort_terms` generated from src/std_constr.cc equals the model's `sortTerms`** for every term list (exact
    arithmetic; the two vectors are the coefficient and variable columns of the list, i.e. of equal length - the class
    invariant of `LinTerms`; `force_sort = false`, the default used by `Convert(MutObjective)`) -/
theorem C12_gen_sort_terms (l : List (Nat × Int)) :
    ObjFilter.LinTerms_sort_terms 0 (l.map (·.2)) (l.map (fun t => (t.1 : Int))) =
      ((sortTerms l).map (·.2), (sortTerms l).map (fun t => (t.1 : Int))) := by
  have h1 := loop1 l [] (l.map (·.2)) (l.map (fun t => (t.1 : Int)))
  simp only [List.map_nil] at h1
  simp only [ObjFilter.LinTerms_sort_terms, h1, sortTerms]
  by_cases hlt : (accumulate [] l).length < l.length
  · have hc : ObjFilter.lor 0 (clt (((accumulate [] l).map castT).length : Int) ((l.map (·.2)).length : Int)) ≠ 0 := by
      simp [ObjFilter.lor, clt]; omega
    simp only [hc, if_true, ne_eq, not_false_eq_true, hlt]
    have h2 := loop2 (accumulate [] l) [] [] ((accumulate [] l).map castT)
    simp only [h2, List.nil_append]
  · have hc : ObjFilter.lor 0 (clt (((accumulate [] l).map castT).length : Int) ((l.map (·.2)).length : Int)) = 0 := by
      simp [ObjFilter.lor, clt]; omega
    simp only [hc, ne_eq, not_true_eq_false, if_false, hlt]


/-! ### Round 8: `QuadTerms::sort_terms` translated and proved equal to `sortQuadTerms` -/

theorem mapAddToP_eq : ∀ (m : List ((Int × Int) × Int)) (k : Int × Int) (c : Int),
    ObjFilter.mapAddToP m k c = addToP m k c := by
  intro m
  induction m with
  | nil => intro k c; rfl
  | cons t m ih =>
    intro k c
    obtain ⟨w, d⟩ := t
    simp only [ObjFilter.mapAddToP, addToP, ih]
    have hp : ObjFilter.pairLt k w = pairLt k w := rfl
    rw [hp]

theorem mapAddToP_fun : ObjFilter.mapAddToP = addToP := by
  funext m k c; exact mapAddToP_eq m k c

theorem qloop1 : ∀ (l : List (Int × Int × Int)) (m : List ((Int × Int) × Int)) (c v1 v2 : List Int),
    (List.zip (l.map (·.1)) (List.zip (l.map (·.2.1)) (l.map (·.2.2)))).foldl
      (fun (s : ObjFilter.QuadTerms_sort_terms.St) (it : Int × Int × Int) =>
        let s := if (cne (0 : Int) (ObjFilter.dabs it.1)) ≠ 0 then (let s := { s with var_coef_map := addToP s.var_coef_map ((fun (a b : Int) => (if (clt a b) ≠ 0 then (a, b) else (b, a))) it.2.1 it.2.2) it.1 }; s) else (s); s)
      ⟨c, v1, v2, m⟩ = ⟨c, v1, v2, accumulateQ m l⟩ := by
  intro l
  induction l with
  | nil => intro m c v1 v2; simp [accumulateQ]
  | cons t l ih =>
    intro m c v1 v2
    obtain ⟨d, a, b⟩ := t
    simp only [List.map_cons, List.zip_cons_cons, List.foldl_cons, accumulateQ]
    have hp : (if clt a b ≠ 0 then (a, b) else (b, a)) = sortPair a b := by
      simp only [clt, sortPair]; by_cases h : a < b <;> simp [h]
    by_cases hd : d ≠ 0
    · have h1 : cne (0 : Int) (ObjFilter.dabs d) ≠ 0 := (nz_iff d).mpr hd
      have e : (if (d, a, b).1 ≠ 0 then addToP m (sortPair (d, a, b).2.1 (d, a, b).2.2) (d, a, b).1 else m) = addToP m (sortPair a b) d := if_pos hd
      rw [e]
      simp only [h1, if_true, ne_eq, not_false_eq_true, hp]
      exact ih (addToP m (sortPair a b) d) c v1 v2
    · have h1' : cne (0 : Int) (ObjFilter.dabs d) = 0 := by
        have : ¬ (cne (0 : Int) (ObjFilter.dabs d) ≠ 0) := fun h => hd ((nz_iff d).mp h)
        simpa using this
      have e : (if (d, a, b).1 ≠ 0 then addToP m (sortPair (d, a, b).2.1 (d, a, b).2.2) (d, a, b).1 else m) = m := if_neg hd
      rw [e]
      simp only [h1', ne_eq, not_true_eq_false, if_false]
      exact ih m c v1 v2

theorem qloop2 : ∀ (mm : List ((Int × Int) × Int)) (c v1 v2 : List Int) (M : List ((Int × Int) × Int)),
    mm.foldl
      (fun (s : ObjFilter.QuadTerms_sort_terms.St) (vc : (Int × Int) × Int) =>
        let s := if (cne (0 : Int) (ObjFilter.dabs vc.2)) ≠ 0 then (let s := { s with coefs_ := s.coefs_ ++ [vc.2] }; let s := { s with vars1_ := s.vars1_ ++ [vc.1.1] }; let s := { s with vars2_ := s.vars2_ ++ [vc.1.2] }; s) else (s); s)
      ⟨c, v1, v2, M⟩ =
      ⟨c ++ (mm.filter (fun t => t.2 ≠ 0)).map (·.2), v1 ++ (mm.filter (fun t => t.2 ≠ 0)).map (·.1.1),
       v2 ++ (mm.filter (fun t => t.2 ≠ 0)).map (·.1.2), M⟩ := by
  intro mm
  induction mm with
  | nil => intro c v1 v2 M; simp
  | cons t mm ih =>
    intro c v1 v2 M
    obtain ⟨⟨a, b⟩, d⟩ := t
    simp only [List.foldl_cons, List.filter_cons]
    by_cases hd : d ≠ 0
    · have h1 : cne (0 : Int) (ObjFilter.dabs d) ≠ 0 := (nz_iff d).mpr hd
      simp only [h1, if_true, ne_eq, not_false_eq_true]
      rw [ih (c ++ [d]) (v1 ++ [a]) (v2 ++ [b]) M]
      simp [hd]
    · have h1' : cne (0 : Int) (ObjFilter.dabs d) = 0 := by
        have : ¬ (cne (0 : Int) (ObjFilter.dabs d) ≠ 0) := fun h => hd ((nz_iff d).mp h)
        simpa using this
      have hd0 : d = 0 := by simpa using hd
      simp only [h1', ne_eq, not_true_eq_false, if_false]
      rw [ih c v1 v2 M]
      simp [hd0]

/-- **`QuadTerms::sort_terms` generated from src/std_constr.cc equals the model's `sortQuadTerms`** for every list of
    `(coefficient, var1, var2)` (exact arithmetic; the three vectors are the columns of the list, i.e. of equal length) -/
theorem C12_gen_quad_sort_terms (l : List (Int × Int × Int)) :
    ObjFilter.QuadTerms_sort_terms (l.map (·.1)) (l.map (·.2.1)) (l.map (·.2.2)) =
      ((sortQuadTerms l).map (·.1), (sortQuadTerms l).map (·.2.1), (sortQuadTerms l).map (·.2.2)) := by
  have h1 := qloop1 l [] (l.map (·.1)) (l.map (·.2.1)) (l.map (·.2.2))
  simp only [ObjFilter.QuadTerms_sort_terms, mapAddToP_fun, h1, sortQuadTerms]
  have h2 := qloop2 (accumulateQ [] l) [] [] [] (accumulateQ [] l)
  have hone : ((1 : Int) ≠ 0) := by decide
  simp only [hone, if_true, h2, List.nil_append, List.map_map]
  simp [Function.comp_def]

/-- what `sortQuadTerms` guarantees outright: no zero coefficient is delivered (the "no unordered pair twice" clause is
    NOT proved - it is checked per run on every recorded `SetQuadraticObjective` call) -/
theorem C12_quad_terms_nonzero (l : List (Int × Int × Int)) : ∀ t ∈ sortQuadTerms l, t.1 ≠ 0 := by
  intro t ht
  simp only [sortQuadTerms, List.mem_map, List.mem_filter] at ht
  obtain ⟨u, ⟨_, hu⟩, rfl⟩ := ht
  simpa using hu

-- instance: x0*x1 + 2*x1*x0 - 3*x2^2 + 0*x0*x0 + 3*x2*x2  ->  3*x0*x1 (the two orientations merged, the cancelled square dropped)
example : sortQuadTerms [(1, 0, 1), (2, 1, 0), (-3, 2, 2), (0, 0, 0), (3, 2, 2)] = [(3, 0, 1)] := by decide

end GenTie

/-! ## Statement audit (round 4): the error branches and the state invariant behind `List.modify` -/

/-- **Option errors, both directions.**  A run ends with the setter's option error exactly when some option value is
    not acceptable (negative `objno`, `multiobj` other than 0/1) - whatever the file contains. -/
theorem C12_invalid_option (ops : List OptOp) (n : Nat) (segs : List Seg) :
    readNL ops n segs = .error .invalidOption ↔ ¬ validOpts ops := by
  constructor
  · intro h hv
    simp only [readNL] at h
    cases hh : onHeader {} ops n with
    | ok st0 =>
      simp only [hh] at h
      have := readSegs_error _ _ _ h
      simp at this
    | error e =>
      simp only [hh] at h; simp at h; subst h
      simp only [onHeader] at hh
      cases hp : parseOpts { ({} : Solver) with optsRead := false } ops with
      | error e' =>
        obtain ⟨_, hbad⟩ := parseOpts_error _ _ _ hp
        rcases hbad with ⟨v, hv1, hv2⟩ | ⟨v, hv1, hv2⟩
        · have := hv.1 v hv1; omega
        · have := hv.2 v hv1; omega
      | ok s1 => simp only [hp] at hh; split at hh <;> simp at hh
  · intro hnv
    simp only [readNL, onHeader]
    cases hp : parseOpts { ({} : Solver) with optsRead := false } ops with
    | error e' =>
      have := (parseOpts_error _ _ _ hp).1
      subst this; rfl
    | ok s1 =>
      obtain ⟨_, _, _, _, p5, p6⟩ := parseOpts_ok _ _ _ hp
      exact absurd ⟨p5, p6⟩ hnv

/-- **Read errors, both directions.**  With acceptable options and an objective number that is not beyond the file,
    the run fails (with the reader's error) exactly when an `O`/`G` segment carries an index that is not below the
    header's objective count. -/
theorem C12_read_error (ops : List OptOp) (n : Nat) (segs : List Seg) :
    readNL ops n segs = .error .readError ↔
      (validOpts ops ∧ (∀ k, givenObjno ops = some k → k ≤ n) ∧ ∃ sg ∈ segs, ∃ i, segIdx? sg = some i ∧ n ≤ i) := by
  constructor
  · intro h
    simp only [readNL] at h
    cases hh : onHeader {} ops n with
    | error e =>
      simp only [hh] at h; simp at h; subst h
      simp only [onHeader] at hh
      cases hp : parseOpts { ({} : Solver) with optsRead := false } ops with
      | error e' => have := (parseOpts_error _ _ _ hp).1; simp [hp] at hh; subst hh; simp at this
      | ok s1 => simp only [hp] at hh; split at hh <;> simp at hh
    | ok st0 =>
      simp only [hh] at h
      obtain ⟨_, _, _, _, _, hchk, hv⟩ := header_ok hh
      refine ⟨hv, ?_, readSegs_error_idx segs st0 _ h⟩
      intro k hg
      apply Classical.byContradiction
      intro hgt
      apply hchk
      have hk0 : 0 ≤ k := hv.1 k (List.mem_of_getLast? (by simpa [givenObjno] using hg))
      refine ⟨?_, by simp [hg]⟩
      simp only [selK, hg, Option.getD_some]; omega
  · intro ⟨hv, hk, sg, hsg, i, hi, hge⟩
    obtain ⟨st0, h0⟩ := C12_accept ops n [] hv hk (by intro sg hsg; simp at hsg)
    simp only [readNL] at h0 ⊢
    cases hh : onHeader {} ops n with
    | error e => simp [hh] at h0
    | ok st1 =>
      simp only [hh]
      cases hr : readSegs n st1 segs with
      | error e => rw [readSegs_error _ _ _ hr]
      | ok st' =>
        have := readSegs_ok_idx segs st1 st' hr sg hsg i hi
        omega

/-- **The objective slots.**  At every successful end of reading the problem holds exactly `resulting_nobj` objectives;
    together with `C12_index_in_range` this is the guard under which the model's `List.modify` (a no-op outside the
    list) and the code's unchecked `builder_.obj(i)` agree: a kept segment always addresses an existing slot. -/
theorem C12_slot_count (ops : List OptOp) (n : Nat) (segs : List Seg) (st : St)
    (h : readNL ops n segs = .ok st) :
    st.objs.length = resultingNObj (selMulti ops) (selK ops) n := by
  simp only [readNL] at h
  cases hh : onHeader {} ops n with
  | error e => simp [hh] at h
  | ok st0 =>
    simp only [hh] at h
    obtain ⟨_, _, _, _, hobjs, _, _⟩ := header_ok hh
    rw [readSegs_length segs st0 st h, hobjs, List.length_replicate]

-- non-trivial instances of the hypotheses / both directions
section AuditExamples
/-- three objectives used in the examples: `min e1`, `max e2 + 3 x0`, `min x1` -/
def exObjs : List Obj := [⟨false, 1, []⟩, ⟨true, 2, [(0, 3)]⟩, ⟨false, 0, [(1, 1)]⟩]
-- C12_select / C12_echo / C12_names / C12_slot_count: a run that delivers (objno=2 of 3, multiobj=1 also given)
example : ∃ st, readNL [.multi 1, .objno 2] 3 (encode exObjs) = .ok st ∧ delivered st = [⟨true, 2, [(0, 3)]⟩] ∧
    solObjnoLine st = 1 ∧ objRowIdx 4 st = [5] ∧ st.objs.length = 1 := ⟨_, rfl, by decide, by decide, by decide, by decide⟩
-- C12_unselected_inert: two different files that agree on objective 2 (segments of objectives 1 and 3 differ, order differs)
example : ∃ st st', readNL [.objno 2] 3 (encode exObjs) = .ok st ∧
    readNL [.objno 2] 3 [Seg.G 1 [(0, 3)], Seg.O 2 true 9, Seg.other, Seg.O 1 true 2, Seg.O 0 true 7, Seg.G 0 [(5, 5)]] = .ok st' ∧
    delivered st = delivered st' ∧ delivered st = [⟨true, 2, [(0, 3)]⟩] := ⟨_, _, rfl, rfl, by decide, by decide⟩
-- C12_reject (⇐ of the pair): valid options, objno 4 of 3;   C12_reject_only (⇒): the error does occur and the number is beyond
example : validOpts [.multi 1, .objno 4] ∧ givenObjno [.multi 1, .objno 4] = some 4 ∧
    readNL [.multi 1, .objno 4] 3 (encode exObjs) = .error .objnoOutOfRange := by
  refine ⟨⟨?_, ?_⟩, by decide, rfl⟩ <;> (intro v hv; simp [objnoVals, multiVals] at hv; omega)
-- C12_accept: valid options, number within range, indices in range - and a model is delivered
example : validOpts [.objno 3, .multi 0] ∧ (∀ k, givenObjno [.objno 3, .multi 0] = some k → k ≤ (3 : Nat)) ∧
    (∀ sg ∈ encode exObjs, ∀ i, segIdx? sg = some i → i < 3) ∧ ∃ st, readNL [.objno 3, .multi 0] 3 (encode exObjs) = .ok st := by
  refine ⟨⟨?_, ?_⟩, ?_, encode_idx exObjs, ⟨_, rfl⟩⟩
  · intro v hv; simp [objnoVals] at hv; omega
  · intro v hv; simp [multiVals] at hv; omega
  · intro k hk; simp [givenObjno, objnoVals] at hk; omega
-- C12_invalid_option, both directions
example : ¬ validOpts [.objno 1, .multi 2] ∧ readNL [.objno 1, .multi 2] 3 (encode exObjs) = .error .invalidOption := by
  refine ⟨?_, rfl⟩
  intro h; have := h.2 2 (by simp [multiVals]); omega
example : validOpts [.objno 1] ∧ readNL [.objno 1] 3 (encode exObjs) ≠ .error .invalidOption := by
  refine ⟨⟨?_, ?_⟩, ?_⟩
  · intro v hv; simp [objnoVals] at hv; omega
  · intro v hv; simp [multiVals] at hv
  · intro h
    obtain ⟨st, hst⟩ : ∃ st, readNL [.objno 1] 3 (encode exObjs) = .ok st := ⟨_, rfl⟩
    rw [hst] at h; cases h
-- C12_read_error, both directions (an `O` segment with index 3 in a file that declares 3 objectives)
example : readNL [] 3 (encode exObjs ++ [Seg.O 3 false 4]) = .error .readError := rfl
example : readNL [] 3 (encode exObjs) ≠ .error .readError := by
  intro h
  obtain ⟨st, hst⟩ : ∃ st, readNL [] 3 (encode exObjs) = .ok st := ⟨_, rfl⟩
  rw [hst] at h; cases h
-- C12_index_in_range: a kept segment in single mode (k = 2, idx = 1, n = 3) and in multi mode
example : needObj false 2 1 = true ∧ resultingObjIndex false 1 < resultingNObj false 2 3 := by decide
example : needObj true 1 2 = true ∧ resultingObjIndex true 2 < resultingNObj true 1 3 := by decide
-- hypotheses of the generated-tie theorems: the default and a given objective number are in range
example : rawInRange (-1) ∧ rawInRange 5 := by constructor <;> (constructor <;> decide)
end AuditExamples

/-! ## What the solver receives: a finite map, not a list (round 6)

`delivered` above says *which* objectives reach the solver.  Their linear part reaches it as a sparse vector that solver
APIs apply per variable (`obj[var] := coef`); it denotes the intended objective only if no variable occurs twice.  The
model of `LinTerms::sort_terms` (called at the end of `ProblemFlattener::Convert(MutObjective)`) establishes exactly that. -/

theorem sumCoef_append (a b : List (Nat × Int)) (k : Nat) : sumCoef (a ++ b) k = sumCoef a k + sumCoef b k := by
  induction a with
  | nil => simp [sumCoef]
  | cons t a ih => obtain ⟨w, d⟩ := t; simp only [List.cons_append, sumCoef, ih]; omega

/-- **Well-formedness of the delivered linear part**: after `sort_terms` no variable occurs twice and no coefficient is
    zero - for every term list (any number of repeated variables, zero entries, any order). -/
theorem C12_delivered_terms_are_a_map (l : List (Nat × Int)) :
    (keys (sortTerms l)).Nodup ∧ ∀ t ∈ sortTerms l, t.2 ≠ 0 := by
  have hasc : Asc (accumulate [] l) := accumulate_asc l [] (by simp [Asc, keys])
  obtain ⟨hle, heq⟩ := accumulate_length l [] (by simp [Asc, keys])
  simp only [sortTerms]
  split
  · constructor
    · have hsub : (keys ((accumulate [] l).filter (fun t => t.2 ≠ 0))).Sublist (keys (accumulate [] l)) :=
        (List.filter_sublist).map _
      exact (List.Pairwise.sublist hsub hasc).imp (fun h => Nat.ne_of_lt h)
    · intro t ht
      have := (List.mem_filter.mp ht).2
      simpa using this
  · rename_i hnl
    have : (accumulate [] l).length = ([] : List (Nat × Int)).length + l.length := by
      simp only [List.length_nil] at hle ⊢; omega
    obtain ⟨h1, h2, _⟩ := heq this
    exact ⟨h2, h1⟩

/-- **The delivered linear part denotes the right function**: the coefficient of every variable is the sum of all its
    entries before merging. -/
theorem C12_delivered_terms_value (l : List (Nat × Int)) (k : Nat) :
    sumCoef (sortTerms l) k = sumCoef l k := by
  simp only [sortTerms]
  split
  · rw [sumCoef_filter_nz, accumulate_sum]; simp [sumCoef]
  · rfl

/-- **Delivered-objective theorem with the well-formedness clause.**  For G terms `g`, expression-derived linear terms `e`
    and the optional constant term `cv`: the vector handed to `Set{Linear,Quadratic}Objective` is a finite map without
    zero entries, and what a solver holds after assigning it per variable is, for every variable, the G coefficient plus
    the expression-derived coefficient plus the constant's term. -/
theorem C12_delivered_lin (g e : List (Nat × Int)) (cv : Option (Nat × Int)) :
    (keys (deliveredLin g e cv)).Nodup ∧ (∀ t ∈ deliveredLin g e cv, t.2 ≠ 0) ∧
    ∀ k, heldCoef (deliveredLin g e cv) k = sumCoef g k + sumCoef e k + sumCoef cv.toList k := by
  obtain ⟨h1, h2⟩ := C12_delivered_terms_are_a_map (g ++ e ++ cv.toList)
  refine ⟨h1, h2, ?_⟩
  intro k
  rw [deliveredLin, heldCoef_eq_sumCoef _ k h1, C12_delivered_terms_value, sumCoef_append, sumCoef_append]

/-- **Main delivery theorem (selection + well-formedness).**  Whenever a run delivers a model, the calls the ModelAPI
    receives are the selected objectives of the file, in order, each passed through `Convert(MutObjective)`; and for each of
    them the linear vector is a finite map (no variable twice, no zero coefficient) whose per-variable value - what a solver
    holds after `obj[var] := coef` - is the file's G coefficient plus what flattening the expression contributes (exact
    arithmetic; `F` abstract). -/
theorem C12_received (F : Flat) (ops : List OptOp) (n : Nat) (segs : List Seg) (st : St)
    (h : readNL ops n segs = .ok st) :
    received F st = (selected ops n segs).map (toSolver F) ∧
    ∀ r ∈ received F st, ∃ o ∈ selected ops n segs, r = toSolver F o ∧
      (keys r.lin).Nodup ∧ (∀ t ∈ r.lin, t.2 ≠ 0) ∧
      ∀ k, heldCoef r.lin k = sumCoef o.lin k + sumCoef (F.lin o.nl) k + sumCoef (F.cv o.nl).toList k := by
  have hsel := C12_select ops n segs st h
  refine ⟨by rw [received, hsel], ?_⟩
  intro r hr
  rw [received, hsel] at hr
  obtain ⟨o, ho, rfl⟩ := List.mem_map.mp hr
  obtain ⟨h1, h2, h3⟩ := C12_delivered_lin o.lin (F.lin o.nl) (F.cv o.nl)
  exact ⟨o, ho, rfl, h1, h2, h3⟩

-- instance: objno=2 of the three example objectives; flattening expression token 2 yields -4*x0 and the constant's variable 7
example : ∃ st, readNL [.objno 2] 3 (encode exObjs) = .ok st ∧
    received ⟨fun t => if t = 2 then [(0, -4)] else [], fun t => if t = 2 then some (7, 1) else none⟩ st =
      [⟨true, 2, [(0, -1), (7, 1)]⟩] := ⟨_, rfl, by decide⟩

-- why the clause matters: the unmerged list of seeded change C12-6 (`min 3*x0 + x1 + (x0-2)^2`: G terms 3*x0 + x1,
-- expansion term -4*x0) sums to -1 for x0 but a solver assigning per variable holds -4; after `sortTerms` both agree
example : sumCoef [(0, 3), (1, 1), (0, -4)] 0 = -1 ∧ heldCoef [(0, 3), (1, 1), (0, -4)] 0 = -4 ∧
    deliveredLin [(0, 3), (1, 1)] [(0, -4)] (some (2, 1)) = [(0, -1), (1, 1), (2, 1)] ∧
    heldCoef (deliveredLin [(0, 3), (1, 1)] [(0, -4)] (some (2, 1))) 0 = -1 := by decide
-- no merge needed: the list is handed over as it is (not re-sorted), as the code does
example : sortTerms [(2, 5), (0, 1)] = [(2, 5), (0, 1)] ∧ sortTerms [(2, 5), (0, 0), (2, -5), (1, 1)] = [(1, 1)] := by decide

/-! ### non-vacuity: concrete runs of the model -/

-- three objectives, objno=2: exactly the second one, echo 1
example : (readNL [.objno 2] 3 (encode [⟨false, 1, []⟩, ⟨true, 2, [(0, 3)]⟩, ⟨false, 0, [(1, 1)]⟩])).map
    (fun st => (delivered st, solObjnoLine st)) = .ok ([⟨true, 2, [(0, 3)]⟩], 1) := by rfl
-- multiobj=1: all three in file order
example : (readNL [.multi 1] 3 (encode [⟨false, 1, []⟩, ⟨true, 2, [(0, 3)]⟩, ⟨false, 0, [(1, 1)]⟩])).map
    (fun st => (delivered st, solObjnoLine st)) =
    .ok ([⟨false, 1, []⟩, ⟨true, 2, [(0, 3)]⟩, ⟨false, 0, [(1, 1)]⟩], 0) := by rfl
-- multiobj=1 together with objno=3: the explicit number wins
example : (readNL [.multi 1, .objno 3] 3 (encode [⟨false, 1, []⟩, ⟨true, 2, [(0, 3)]⟩, ⟨false, 0, [(1, 1)]⟩])).map
    (fun st => (delivered st, solObjnoLine st)) = .ok ([⟨false, 0, [(1, 1)]⟩], 2) := by rfl
-- objno=4 of 3: rejected;  objno=0: nothing delivered, echo -1
example : readNL [.objno 4] 3 (encode [⟨false, 1, []⟩, ⟨true, 2, []⟩, ⟨false, 0, []⟩]) = .error .objnoOutOfRange := by rfl
example : (readNL [.objno 0] 1 (encode [⟨true, 1, []⟩])).map (fun st => (delivered st, solObjnoLine st)) = .ok ([], -1) := by rfl
-- the hypotheses of C12_reject / C12_accept are satisfiable
example : validOpts [.multi 1, .objno 3] := by
  constructor <;> (intro v hv; simp [objnoVals, multiVals] at hv; omega)

end MpVerif.C12

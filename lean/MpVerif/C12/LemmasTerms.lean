import MpVerif.C12.Model
/-! Lemmas about the model of `LinTerms::sort_terms` (core Lean only). -/
set_option linter.unusedSimpArgs false
namespace MpVerif.C12

def keys (m : List (Nat × Int)) : List Nat := m.map (·.1)
/-- keys strictly ascending (the iteration order of `std::map`) -/
def Asc (m : List (Nat × Int)) : Prop := (keys m).Pairwise (· < ·)

theorem mem_keys_addTo (v : Nat) (c : Int) (k : Nat) : ∀ m : List (Nat × Int),
    k ∈ keys (addTo m v c) → k = v ∨ k ∈ keys m := by
  intro m
  induction m with
  | nil => intro h; simp [addTo, keys] at h; exact Or.inl h
  | cons t m ih =>
    obtain ⟨w, d⟩ := t
    intro h
    simp only [addTo] at h
    split at h
    · simp [keys] at h ⊢; rcases h with h | h | h <;> simp [h]
    · split at h
      · simp [keys] at h ⊢; rcases h with h | h <;> simp [h]
      · simp only [keys, List.map_cons, List.mem_cons] at h ⊢
        rcases h with h | h
        · exact Or.inr (Or.inl h)
        · rcases ih h with h' | h'
          · exact Or.inl h'
          · exact Or.inr (Or.inr h')

theorem keys_addTo_mono (v : Nat) (c : Int) (k : Nat) : ∀ m : List (Nat × Int),
    k ∈ keys m → k ∈ keys (addTo m v c) := by
  intro m
  induction m with
  | nil => intro h; simp [keys] at h
  | cons t m ih =>
    obtain ⟨w, d⟩ := t
    intro h
    simp only [addTo]
    split
    · simp [keys] at h ⊢; exact Or.inr h
    · split
      · simpa [keys] using h
      · simp only [keys, List.map_cons, List.mem_cons] at h ⊢
        rcases h with h | h
        · exact Or.inl h
        · exact Or.inr (ih h)

theorem self_mem_keys_addTo (v : Nat) (c : Int) : ∀ m : List (Nat × Int), v ∈ keys (addTo m v c) := by
  intro m
  induction m with
  | nil => simp [addTo, keys]
  | cons t m ih =>
    obtain ⟨w, d⟩ := t
    simp only [addTo]
    split
    · simp [keys]
    · split
      · rename_i h; simp [keys, h]
      · simp only [keys, List.map_cons, List.mem_cons]; exact Or.inr ih

theorem addTo_asc (v : Nat) (c : Int) : ∀ m : List (Nat × Int), Asc m → Asc (addTo m v c) := by
  intro m
  induction m with
  | nil => intro _; simp [addTo, Asc, keys]
  | cons t m ih =>
    obtain ⟨w, d⟩ := t
    intro h
    simp only [Asc, keys, List.map_cons, List.pairwise_cons] at h
    obtain ⟨h1, h2⟩ := h
    simp only [addTo]
    split
    · rename_i hv
      simp only [Asc, keys, List.map_cons, List.pairwise_cons]
      refine ⟨?_, h1, h2⟩
      intro k hk
      simp only [List.mem_cons] at hk
      rcases hk with hk | hk
      · omega
      · have := h1 k hk; omega
    · split
      · simp only [Asc, keys, List.map_cons, List.pairwise_cons]; exact ⟨h1, h2⟩
      · rename_i hv1 hv2
        simp only [Asc, keys, List.map_cons, List.pairwise_cons]
        refine ⟨?_, ih h2⟩
        intro k hk
        rcases mem_keys_addTo v c k m hk with hk' | hk'
        · omega
        · exact h1 k hk'

theorem sumCoef_addTo (v : Nat) (c : Int) (k : Nat) : ∀ m : List (Nat × Int),
    sumCoef (addTo m v c) k = sumCoef m k + (if v = k then c else 0) := by
  intro m
  induction m with
  | nil => simp [addTo, sumCoef]
  | cons t m ih =>
    obtain ⟨w, d⟩ := t
    simp only [addTo]
    split
    · simp only [sumCoef]; omega
    · split
      · rename_i h; subst h; simp only [sumCoef]; split <;> omega
      · simp only [sumCoef, ih]; omega

theorem length_addTo (v : Nat) (c : Int) : ∀ m : List (Nat × Int), Asc m →
    (addTo m v c).length = m.length + (if v ∈ keys m then 0 else 1) := by
  intro m
  induction m with
  | nil => intro _; simp [addTo, keys]
  | cons t m ih =>
    obtain ⟨w, d⟩ := t
    intro h
    simp only [Asc, keys, List.map_cons, List.pairwise_cons] at h
    obtain ⟨h1, h2⟩ := h
    simp only [addTo]
    split
    · rename_i hv
      have : v ∉ keys ((w, d) :: m) := by
        simp only [keys, List.map_cons, List.mem_cons, not_or]
        refine ⟨by omega, ?_⟩
        intro hm; have := h1 v hm; omega
      simp [this]
    · split
      · rename_i h; subst h; simp [keys]
      · rename_i hv1 hv2
        have ih' := ih h2
        by_cases hm : v ∈ keys m
        · have : v ∈ keys ((w, d) :: m) := by simp only [keys, List.map_cons, List.mem_cons]; exact Or.inr hm
          simp [this, hm] at ih' ⊢; omega
        · have : v ∉ keys ((w, d) :: m) := by
            simp only [keys, List.map_cons, List.mem_cons, not_or]; exact ⟨hv2, hm⟩
          simp [this, hm] at ih' ⊢; omega

/-! ### the accumulation loop -/

theorem accumulate_asc : ∀ (l acc : List (Nat × Int)), Asc acc → Asc (accumulate acc l) := by
  intro l
  induction l with
  | nil => intro acc h; exact h
  | cons t l ih =>
    intro acc h
    simp only [accumulate]
    apply ih
    split
    · exact addTo_asc _ _ _ h
    · exact h

theorem accumulate_sum (k : Nat) : ∀ (l acc : List (Nat × Int)),
    sumCoef (accumulate acc l) k = sumCoef acc k + sumCoef l k := by
  intro l
  induction l with
  | nil => intro acc; simp [accumulate, sumCoef]
  | cons t l ih =>
    intro acc
    obtain ⟨w, d⟩ := t
    simp only [accumulate, ih, sumCoef]
    split
    · rw [sumCoef_addTo]; omega
    · rename_i hd
      have : d = 0 := by simpa using hd
      subst this; split <;> omega

theorem accumulate_keys_mono (k : Nat) : ∀ (l acc : List (Nat × Int)), k ∈ keys acc → k ∈ keys (accumulate acc l) := by
  intro l
  induction l with
  | nil => intro acc h; exact h
  | cons t l ih =>
    intro acc h
    simp only [accumulate]
    apply ih
    split
    · exact keys_addTo_mono _ _ _ _ h
    · exact h

/-- the map is never longer than the term list, and it is as long only if nothing was dropped or merged -/
theorem accumulate_length : ∀ (l acc : List (Nat × Int)), Asc acc →
    (accumulate acc l).length ≤ acc.length + l.length ∧
    ((accumulate acc l).length = acc.length + l.length →
      (∀ t ∈ l, t.2 ≠ 0) ∧ (keys l).Nodup ∧ ∀ t ∈ l, t.1 ∉ keys acc) := by
  intro l
  induction l with
  | nil => intro acc _; simp [accumulate, keys]
  | cons t l ih =>
    intro acc h
    obtain ⟨w, d⟩ := t
    simp only [accumulate]
    by_cases hd : d ≠ 0
    · have e : (if (w, d).2 ≠ 0 then addTo acc (w, d).1 (w, d).2 else acc) = addTo acc w d := if_pos hd
      rw [e]
      have hasc := addTo_asc w d acc h
      obtain ⟨i1, i2⟩ := ih (addTo acc w d) hasc
      have hl := length_addTo w d acc h
      refine ⟨by simp only [List.length_cons]; split at hl <;> omega, ?_⟩
      intro heq
      simp only [List.length_cons] at heq
      have hw : w ∉ keys acc := by
        intro hm; simp [hm] at hl; omega
      rw [if_neg hw] at hl
      obtain ⟨j1, j2, j3⟩ := i2 (by omega)
      refine ⟨?_, ?_, ?_⟩
      · intro t ht
        simp only [List.mem_cons] at ht
        rcases ht with rfl | ht
        · exact hd
        · exact j1 t ht
      · simp only [keys, List.map_cons, List.nodup_cons]
        refine ⟨?_, j2⟩
        intro hm
        obtain ⟨t, ht, hte⟩ := List.mem_map.mp hm
        exact j3 t ht (by rw [hte]; exact self_mem_keys_addTo w d acc)
      · intro t ht
        simp only [List.mem_cons] at ht
        rcases ht with rfl | ht
        · exact hw
        · intro hm; exact j3 t ht (keys_addTo_mono _ _ _ _ hm)
    · have e : (if (w, d).2 ≠ 0 then addTo acc (w, d).1 (w, d).2 else acc) = acc := if_neg hd
      rw [e]
      obtain ⟨i1, _⟩ := ih acc h
      refine ⟨by simp only [List.length_cons]; omega, ?_⟩
      intro heq
      simp only [List.length_cons] at heq
      omega

theorem sumCoef_filter_nz : ∀ (m : List (Nat × Int)) (k : Nat),
    sumCoef (m.filter (fun t => t.2 ≠ 0)) k = sumCoef m k := by
  intro m k
  induction m with
  | nil => rfl
  | cons t m ih =>
    obtain ⟨w, d⟩ := t
    simp only [List.filter_cons]
    split
    · simp only [sumCoef, ih]
    · rename_i h
      have : d = 0 := by simpa using h
      subst this; simp only [sumCoef, ih]; simp

/-- with distinct keys the coefficient a solver holds after per-variable assignment is the sum -/
theorem heldCoef_eq_sumCoef : ∀ (m : List (Nat × Int)) (k : Nat), (keys m).Nodup → heldCoef m k = sumCoef m k := by
  intro m k
  induction m with
  | nil => intro _; rfl
  | cons t m ih =>
    obtain ⟨w, d⟩ := t
    intro h
    simp only [keys, List.map_cons, List.nodup_cons] at h
    obtain ⟨h1, h2⟩ := h
    simp only [heldCoef, sumCoef]
    by_cases hany : m.any (fun t => t.1 == k) = true
    · -- k occurs later, hence w ≠ k
      simp only [hany, if_true]
      have hk : k ∈ keys m := by
        obtain ⟨t, ht, hte⟩ := List.any_eq_true.mp hany
        exact List.mem_map.mpr ⟨t, ht, by simpa using hte⟩
      have : w ≠ k := by intro e; subst e; exact h1 hk
      simp [this, ih h2]
    · have hnot : k ∉ keys m := by
        intro hk
        obtain ⟨t, ht, hte⟩ := List.mem_map.mp hk
        exact hany (List.any_eq_true.mpr ⟨t, ht, by simp [hte]⟩)
      have hz : sumCoef m k = 0 := by
        clear ih h1 h2 hany
        induction m with
        | nil => rfl
        | cons u m ihm =>
          obtain ⟨x, y⟩ := u
          simp only [keys, List.map_cons, List.mem_cons, not_or] at hnot
          simp only [sumCoef]
          have : x ≠ k := fun e => hnot.1 e.symm
          simp [this]; exact ihm hnot.2
      simp [hany, hz]

end MpVerif.C12

import MpVerif.C12.Model
/-! Helper lemmas for C12 (core Lean only). -/
set_option linter.unusedSimpArgs false
namespace MpVerif.C12

/-- effect of one segment on objective `i`, read per index -/
def upd (i : Nat) (o : Obj) : Seg → Obj
  | .O j mx nl => if j = i then { o with isMax := mx, nl := nl } else o
  | .G j ts => if j = i then { o with lin := o.lin ++ ts } else o
  | .other => o

def applyIdx (i : Nat) (o : Obj) (segs : List Seg) : Obj := segs.foldl (upd i) o

theorem applyIdx_spec (i : Nat) (segs : List Seg) : ∀ (o : Obj),
    applyIdx i o segs =
      { isMax := ((segs.filterMap (segO? i)).getLast?.getD (o.isMax, o.nl)).1,
        nl := ((segs.filterMap (segO? i)).getLast?.getD (o.isMax, o.nl)).2,
        lin := o.lin ++ (segs.filterMap (segG? i)).flatten } := by
  induction segs with
  | nil => intro o; simp [applyIdx]
  | cons sg segs ih =>
    intro o
    have h : applyIdx i o (sg :: segs) = applyIdx i (upd i o sg) segs := rfl
    rw [h, ih]
    cases sg with
    | O j mx nl =>
      by_cases hj : j = i
      · simp [upd, segO?, segG?, hj, List.getLast?_cons, List.filterMap_cons]
      · simp [upd, segO?, segG?, hj, List.filterMap_cons]
    | G j ts =>
      by_cases hj : j = i
      · simp [upd, segO?, segG?, hj, List.filterMap_cons]
      · simp [upd, segO?, segG?, hj, List.filterMap_cons]
    | other => simp [upd, segO?, segG?, List.filterMap_cons]

theorem fileObj_eq_applyIdx (segs : List Seg) (i : Nat) :
    fileObj segs i = applyIdx i Obj.empty segs := by
  rw [applyIdx_spec]; simp [fileObj, Obj.empty]

/-! ### option parsing -/

def objnoVals (ops : List OptOp) : List Int :=
  ops.filterMap fun | .objno v => some v | _ => none
def multiVals (ops : List OptOp) : List Int :=
  ops.filterMap fun | .multi v => some v | _ => none

theorem parseOpts_ok : ∀ (ops : List OptOp) (s s' : Solver), parseOpts s ops = .ok s' →
    s'.objnoRaw = (objnoVals ops).getLast?.getD s.objnoRaw ∧
    s'.multiFlag = ((multiVals ops).getLast?.map (fun v => decide (v ≠ 0))).getD s.multiFlag ∧
    s'.objAdded = s.objAdded ∧ s'.optsRead = s.optsRead ∧
    (∀ v ∈ objnoVals ops, 0 ≤ v) ∧ (∀ v ∈ multiVals ops, v = 0 ∨ v = 1) := by
  intro ops
  induction ops with
  | nil => intro s s' h; simp [parseOpts] at h; subst h; simp [objnoVals, multiVals]
  | cons op ops ih =>
    intro s s' h
    simp only [parseOpts] at h
    cases op with
    | objno v =>
      simp only [setOpt] at h
      by_cases hv : v < 0
      · simp [hv] at h
      · simp only [hv, if_false] at h
        have := ih _ _ h
        obtain ⟨h1, h2, h3, h4, h5, h6⟩ := this
        refine ⟨?_, ?_, h3, h4, ?_, ?_⟩
        · simp only [objnoVals, List.filterMap_cons, List.getLast?_cons] at h1 ⊢
          simpa using h1
        · simpa [multiVals] using h2
        · intro w hw
          simp only [objnoVals, List.filterMap_cons, List.mem_cons] at hw
          rcases hw with rfl | hw
          · omega
          · exact h5 w hw
        · simpa [multiVals] using h6
    | multi v =>
      simp only [setOpt] at h
      by_cases hv : v ≠ 0 ∧ v ≠ 1
      · simp [hv] at h
      · simp only [hv, if_false] at h
        have := ih _ _ h
        obtain ⟨h1, h2, h3, h4, h5, h6⟩ := this
        refine ⟨?_, ?_, h3, h4, ?_, ?_⟩
        · simpa [objnoVals] using h1
        · simp only [multiVals, List.filterMap_cons, List.getLast?_cons] at h2 ⊢
          rw [h2]
          cases (List.filterMap (fun x => match x with | OptOp.multi v => some v | x => none) ops).getLast? <;> simp
        · simpa [objnoVals] using h5
        · intro w hw
          simp only [multiVals, List.filterMap_cons, List.mem_cons] at hw
          rcases hw with rfl | hw
          · omega
          · exact h6 w hw

theorem parseOpts_error : ∀ (ops : List OptOp) (s : Solver) (e : Err), parseOpts s ops = .error e →
    e = .invalidOption ∧ ((∃ v ∈ objnoVals ops, v < 0) ∨ (∃ v ∈ multiVals ops, v ≠ 0 ∧ v ≠ 1)) := by
  intro ops
  induction ops with
  | nil => intro s e h; simp [parseOpts] at h
  | cons op ops ih =>
    intro s e h
    simp only [parseOpts] at h
    cases op with
    | objno v =>
      simp only [setOpt] at h
      by_cases hv : v < 0
      · simp [hv] at h
        exact ⟨h.symm, Or.inl ⟨v, by simp [objnoVals], hv⟩⟩
      · simp only [hv, if_false] at h
        obtain ⟨h1, h2⟩ := ih _ _ h
        refine ⟨h1, ?_⟩
        rcases h2 with ⟨w, hw, hw2⟩ | ⟨w, hw, hw2⟩
        · exact Or.inl ⟨w, by simp only [objnoVals, List.filterMap_cons, List.mem_cons]; exact Or.inr hw, hw2⟩
        · exact Or.inr ⟨w, by simpa [multiVals] using hw, hw2⟩
    | multi v =>
      simp only [setOpt] at h
      by_cases hv : v ≠ 0 ∧ v ≠ 1
      · simp [hv] at h
        exact ⟨h.symm, Or.inr ⟨v, by simp [multiVals], hv⟩⟩
      · simp only [hv, if_false] at h
        obtain ⟨h1, h2⟩ := ih _ _ h
        refine ⟨h1, ?_⟩
        rcases h2 with ⟨w, hw, hw2⟩ | ⟨w, hw, hw2⟩
        · exact Or.inl ⟨w, by simpa [objnoVals] using hw, hw2⟩
        · exact Or.inr ⟨w, by simp only [multiVals, List.filterMap_cons, List.mem_cons]; exact Or.inr hw, hw2⟩

/-! ### one segment -/

/-- the option-derived part of the solver does not change while segments are read -/
theorem onSeg_solver {n : Nat} {st st1 : St} {sg : Seg} (h : onSeg n st sg = .ok st1) :
    st1.solver.objnoRaw = st.solver.objnoRaw ∧ st1.solver.multiFlag = st.solver.multiFlag ∧
    st1.solver.optsRead = st.solver.optsRead := by
  cases sg with
  | O idx mx nl =>
    simp only [onSeg] at h
    split at h
    · simp at h
    · split at h <;> (simp at h; subst h; simp)
  | G idx ts =>
    simp only [onSeg] at h
    split at h
    · simp at h
    · split at h <;> (simp at h; subst h; simp)
  | other => simp [onSeg] at h; subst h; simp

theorem onSeg_multi {n : Nat} {st st1 : St} {sg : Seg} (hm : multiobj st.solver = true)
    (h : onSeg n st sg = .ok st1) :
    ∀ i, st1.objs[i]? = (st.objs[i]?).map (fun o => upd i o sg) := by
  intro i
  cases sg with
  | O idx mx nl =>
    simp only [onSeg, needObj, resultingObjIndex, hm, Bool.true_or, if_true] at h
    split at h
    · simp at h
    · simp at h; subst h
      simp only [List.getElem?_modify, upd]
      cases st.objs[i]? <;> simp
  | G idx ts =>
    simp only [onSeg, needObj, resultingObjIndex, hm, Bool.true_or, if_true] at h
    split at h
    · simp at h
    · simp at h; subst h
      simp only [List.getElem?_modify, upd]
      cases st.objs[i]? <;> simp
  | other =>
    simp [onSeg] at h; subst h
    cases st.objs[i]? <;> simp [upd]

theorem needObj_single (k idx : Nat) (hk : 1 ≤ k) :
    needObj false k idx = decide (idx = k - 1) := by
  simp only [needObj, Bool.false_or]
  by_cases h : idx = k - 1
  · have : (k : Int) - 1 = (idx : Int) := by omega
    simp [h, this]
  · have : ¬ ((k : Int) - 1 = (idx : Int)) := by omega
    simp [h, this]

theorem needObj_zero (idx : Nat) : needObj false 0 idx = false := by
  simp only [needObj, Bool.false_or]
  simp

theorem onSeg_single_one {n k : Nat} {st st1 : St} {sg : Seg} {o : Obj}
    (hm : multiobj st.solver = false) (hk : objnoSpecified st.solver = k) (hk1 : 1 ≤ k)
    (ho : st.objs = [o]) (h : onSeg n st sg = .ok st1) :
    st1.objs = [upd (k - 1) o sg] := by
  cases sg with
  | O idx mx nl =>
    simp only [onSeg, hm, hk, needObj_single k idx hk1, resultingObjIndex] at h
    split at h
    · simp at h
    · by_cases hi : idx = k - 1
      · simp [hi] at h; subst h; simp [ho, upd, hi]
      · simp [hi] at h; subst h; simp [ho, upd, hi]
  | G idx ts =>
    simp only [onSeg, hm, hk, needObj_single k idx hk1, resultingObjIndex] at h
    split at h
    · simp at h
    · by_cases hi : idx = k - 1
      · simp [hi] at h; subst h; simp [ho, upd, hi]
      · simp [hi] at h; subst h; simp [ho, upd, hi]
  | other => simp [onSeg] at h; subst h; simp [ho, upd]

theorem onSeg_nil {n : Nat} {st st1 : St} {sg : Seg} (ho : st.objs = [])
    (h : onSeg n st sg = .ok st1) : st1.objs = [] := by
  cases sg with
  | O idx mx nl =>
    simp only [onSeg] at h
    split at h
    · simp at h
    · split at h <;> (simp at h; subst h; simp [ho])
  | G idx ts =>
    simp only [onSeg] at h
    split at h
    · simp at h
    · split at h <;> (simp at h; subst h; simp [ho])
  | other => simp [onSeg] at h; subst h; exact ho

/-- does this segment make the handler call `notify_obj_added`? -/
def addsObj (multi : Bool) (k : Nat) : Seg → Bool
  | .O idx _ _ => needObj multi k idx
  | _ => false

theorem onSeg_objAdded {n : Nat} {st st1 : St} {sg : Seg} (h : onSeg n st sg = .ok st1) :
    st1.solver.objAdded = (st.solver.objAdded || addsObj (multiobj st.solver) (objnoSpecified st.solver) sg) := by
  cases sg with
  | O idx mx nl =>
    simp only [onSeg] at h
    split at h
    · simp at h
    · split at h
      · rename_i hn; simp at h; subst h; simp [addsObj, hn]
      · rename_i hn; simp at h; subst h; simp [addsObj, hn]
  | G idx ts =>
    simp only [onSeg] at h
    split at h
    · simp at h
    · split at h <;> (simp at h; subst h; simp [addsObj])
  | other => simp [onSeg] at h; subst h; simp [addsObj]

theorem multiobj_congr {s s' : Solver} (h1 : s'.objnoRaw = s.objnoRaw) (h2 : s'.multiFlag = s.multiFlag) :
    multiobj s' = multiobj s ∧ objnoSpecified s' = objnoSpecified s ∧ isObjnoSpecified s' = isObjnoSpecified s := by
  simp [multiobj, objnoSpecified, isObjnoSpecified, h1, h2]

/-! ### the segment loop -/

theorem readSegs_solver {n : Nat} : ∀ (segs : List Seg) (st st' : St), readSegs n st segs = .ok st' →
    st'.solver.objnoRaw = st.solver.objnoRaw ∧ st'.solver.multiFlag = st.solver.multiFlag ∧
    st'.solver.optsRead = st.solver.optsRead ∧
    st'.solver.objAdded = (st.solver.objAdded ||
       segs.any (addsObj (multiobj st.solver) (objnoSpecified st.solver))) := by
  intro segs
  induction segs with
  | nil => intro st st' h; simp [readSegs] at h; subst h; simp
  | cons sg segs ih =>
    intro st st' h
    simp only [readSegs] at h
    cases h1 : onSeg n st sg with
    | error e => simp [h1] at h
    | ok st1 =>
      simp only [h1] at h
      obtain ⟨a1, a2, a3⟩ := onSeg_solver h1
      obtain ⟨b1, b2, b3, b4⟩ := ih _ _ h
      obtain ⟨c1, c2, _⟩ := multiobj_congr a1 a2
      refine ⟨by rw [b1, a1], by rw [b2, a2], by rw [b3, a3], ?_⟩
      rw [b4, onSeg_objAdded h1, c1, c2, List.any_cons, Bool.or_assoc]

theorem readSegs_multi {n : Nat} : ∀ (segs : List Seg) (st st' : St), multiobj st.solver = true →
    readSegs n st segs = .ok st' →
    ∀ i, st'.objs[i]? = (st.objs[i]?).map (fun o => applyIdx i o segs) := by
  intro segs
  induction segs with
  | nil => intro st st' _ h i; simp [readSegs] at h; subst h; cases st.objs[i]? <;> simp [applyIdx]
  | cons sg segs ih =>
    intro st st' hm h i
    simp only [readSegs] at h
    cases h1 : onSeg n st sg with
    | error e => simp [h1] at h
    | ok st1 =>
      simp only [h1] at h
      obtain ⟨a1, a2, _⟩ := onSeg_solver h1
      have hm1 : multiobj st1.solver = true := by rw [(multiobj_congr a1 a2).1]; exact hm
      rw [ih _ _ hm1 h i, onSeg_multi hm h1 i]
      cases st.objs[i]? <;> simp [applyIdx]

theorem readSegs_single_one {n k : Nat} : ∀ (segs : List Seg) (st st' : St) (o : Obj),
    multiobj st.solver = false → objnoSpecified st.solver = k → 1 ≤ k → st.objs = [o] →
    readSegs n st segs = .ok st' → st'.objs = [applyIdx (k - 1) o segs] := by
  intro segs
  induction segs with
  | nil => intro st st' o _ _ _ ho h; simp [readSegs] at h; subst h; simp [ho, applyIdx]
  | cons sg segs ih =>
    intro st st' o hm hk hk1 ho h
    simp only [readSegs] at h
    cases h1 : onSeg n st sg with
    | error e => simp [h1] at h
    | ok st1 =>
      simp only [h1] at h
      obtain ⟨a1, a2, _⟩ := onSeg_solver h1
      obtain ⟨c1, c2, _⟩ := multiobj_congr a1 a2
      have := ih st1 st' _ (by rw [c1]; exact hm) (by rw [c2]; exact hk) hk1
        (onSeg_single_one hm hk hk1 ho h1) h
      rw [this]; simp [applyIdx]

theorem readSegs_nil {n : Nat} : ∀ (segs : List Seg) (st st' : St), st.objs = [] →
    readSegs n st segs = .ok st' → st'.objs = [] := by
  intro segs
  induction segs with
  | nil => intro st st' ho h; simp [readSegs] at h; subst h; exact ho
  | cons sg segs ih =>
    intro st st' ho h
    simp only [readSegs] at h
    cases h1 : onSeg n st sg with
    | error e => simp [h1] at h
    | ok st1 =>
      simp only [h1] at h
      exact ih _ _ (onSeg_nil ho h1) h

theorem readSegs_error {n : Nat} : ∀ (segs : List Seg) (st : St) (e : Err), readSegs n st segs = .error e →
    e = .readError := by
  intro segs
  induction segs with
  | nil => intro st e h; simp [readSegs] at h
  | cons sg segs ih =>
    intro st e h
    simp only [readSegs] at h
    cases h1 : onSeg n st sg with
    | error e1 =>
      simp [h1] at h; subst h
      cases sg with
      | O idx mx nl =>
        simp only [onSeg] at h1
        split at h1
        · simp at h1; exact h1.symm
        · split at h1 <;> simp at h1
      | G idx ts =>
        simp only [onSeg] at h1
        split at h1
        · simp at h1; exact h1.symm
        · split at h1 <;> simp at h1
      | other => simp [onSeg] at h1
    | ok st1 => simp only [h1] at h; exact ih _ _ h

/-- index of a segment, if it is an objective segment -/
def segIdx? : Seg → Option Nat
  | .O i _ _ => some i
  | .G i _ => some i
  | .other => none

theorem readSegs_total {n : Nat} : ∀ (segs : List Seg) (st : St),
    (∀ sg ∈ segs, ∀ i, segIdx? sg = some i → i < n) → ∃ st', readSegs n st segs = .ok st' := by
  intro segs
  induction segs with
  | nil => intro st _; exact ⟨st, rfl⟩
  | cons sg segs ih =>
    intro st hb
    have hsg : ∃ st1, onSeg n st sg = .ok st1 := by
      cases sg with
      | O idx mx nl =>
        have : idx < n := hb _ (List.mem_cons_self) idx rfl
        simp only [onSeg]
        rw [if_neg (by omega)]
        split <;> exact ⟨_, rfl⟩
      | G idx ts =>
        have : idx < n := hb _ (List.mem_cons_self) idx rfl
        simp only [onSeg]
        rw [if_neg (by omega)]
        split <;> exact ⟨_, rfl⟩
      | other => exact ⟨st, rfl⟩
    obtain ⟨st1, h1⟩ := hsg
    obtain ⟨st', h'⟩ := ih st1 (fun sg' hm => hb sg' (List.mem_cons_of_mem _ hm))
    exact ⟨st', by simp [readSegs, h1, h']⟩


theorem readSegs_ok_idx {n : Nat} : ∀ (segs : List Seg) (st st' : St), readSegs n st segs = .ok st' →
    ∀ sg ∈ segs, ∀ i, segIdx? sg = some i → i < n := by
  intro segs
  induction segs with
  | nil => intro st st' _ sg hsg; simp at hsg
  | cons sg0 segs ih =>
    intro st st' h sg hsg i hi
    simp only [readSegs] at h
    cases h1 : onSeg n st sg0 with
    | error e => simp [h1] at h
    | ok st1 =>
      simp only [h1] at h
      rcases List.mem_cons.mp hsg with rfl | hmem
      · cases sg with
        | O idx mx nl =>
          simp only [segIdx?, Option.some.injEq] at hi; subst hi
          simp only [onSeg] at h1
          split at h1
          · simp at h1
          · omega
        | G idx ts =>
          simp only [segIdx?, Option.some.injEq] at hi; subst hi
          simp only [onSeg] at h1
          split at h1
          · simp at h1
          · omega
        | other => simp [segIdx?] at hi
      · exact ih _ _ h sg hmem i hi

/-! ### which segment streams make the handler call `notify_obj_added` -/

theorem any_addsObj_multi (k : Nat) (segs : List Seg) :
    segs.any (addsObj true k) = true ↔ ∃ i, hasO segs i = true := by
  induction segs with
  | nil => simp [hasO]
  | cons sg segs ih =>
    rw [List.any_cons, Bool.or_eq_true, ih]
    cases sg with
    | O idx mx nl =>
      simp only [addsObj, needObj, Bool.true_or, true_or, true_iff]
      exact ⟨idx, by simp [hasO, segO?, List.filterMap_cons]⟩
    | G idx ts =>
      simp only [addsObj, Bool.false_eq_true, false_or]
      simp [hasO, segO?, List.filterMap_cons]
    | other =>
      simp only [addsObj, Bool.false_eq_true, false_or]
      simp [hasO, segO?, List.filterMap_cons]

theorem any_addsObj_single (k : Nat) (hk : 1 ≤ k) (segs : List Seg) :
    segs.any (addsObj false k) = hasO segs (k - 1) := by
  induction segs with
  | nil => simp [hasO]
  | cons sg segs ih =>
    rw [List.any_cons, ih]
    cases sg with
    | O idx mx nl =>
      simp only [addsObj, needObj_single k idx hk]
      by_cases hi : idx = k - 1
      · simp [hi, hasO, segO?, List.filterMap_cons]
      · simp [hi, hasO, segO?, List.filterMap_cons]
    | G idx ts => simp [addsObj, hasO, segO?, List.filterMap_cons]
    | other => simp [addsObj, hasO, segO?, List.filterMap_cons]

theorem any_addsObj_zero (segs : List Seg) : segs.any (addsObj false 0) = false := by
  induction segs with
  | nil => simp
  | cons sg segs ih =>
    rw [List.any_cons, ih]
    cases sg <;> simp [addsObj, needObj_zero]

/-! ### `encode` is read back per index -/

theorem filterMap_segO_encG (i : Nat) : ∀ (os : List Obj) (k : Nat),
    (encG k os).filterMap (segO? i) = [] := by
  intro os
  induction os with
  | nil => intro k; simp [encG]
  | cons o os ih =>
    intro k
    simp only [encG, List.filterMap_append, ih, List.append_nil]
    split <;> simp [segO?, List.filterMap_cons]

theorem filterMap_segG_encO (i : Nat) : ∀ (os : List Obj) (k : Nat),
    (encO k os).filterMap (segG? i) = [] := by
  intro os
  induction os with
  | nil => intro k; simp [encO]
  | cons o os ih =>
    intro k
    simp [encO, segG?, List.filterMap_cons, ih]

theorem filterMap_segO_encO (i : Nat) : ∀ (os : List Obj) (k : Nat),
    (encO k os).filterMap (segO? i) =
      match (if k ≤ i then os[i - k]? else none) with
      | some o => [(o.isMax, o.nl)]
      | none => [] := by
  intro os
  induction os with
  | nil => intro k; simp [encO]
  | cons o os ih =>
    intro k
    simp only [encO, List.filterMap_cons, segO?]
    by_cases hki : k = i
    · subst hki
      have h1 : ¬ (k + 1 ≤ k) := by omega
      simp [ih, h1]
    · simp only [hki, if_false, ih]
      by_cases hlt : k < i
      · have h1 : k + 1 ≤ i := by omega
        have h2 : k ≤ i := by omega
        have h3 : i - k = (i - (k + 1)) + 1 := by omega
        simp only [h1, h2, if_true]
        rw [h3, List.getElem?_cons_succ]
      · have h1 : ¬ (k + 1 ≤ i) := by omega
        have h2 : ¬ (k ≤ i) := by omega
        simp [h1, h2]

theorem filterMap_segG_encG (i : Nat) : ∀ (os : List Obj) (k : Nat),
    ((encG k os).filterMap (segG? i)).flatten =
      match (if k ≤ i then os[i - k]? else none) with
      | some o => o.lin
      | none => [] := by
  intro os
  induction os with
  | nil => intro k; simp [encG]
  | cons o os ih =>
    intro k
    simp only [encG, List.filterMap_append, List.flatten_append, ih]
    by_cases hki : k = i
    · subst hki
      have h1 : ¬ (k + 1 ≤ k) := by omega
      simp only [h1, if_false, Nat.le_refl, if_true, Nat.sub_self, List.getElem?_cons_zero, List.append_nil]
      by_cases he : o.lin.isEmpty
      · simp only [he, if_true]
        simp [List.isEmpty_iff.mp he]
      · simp [he, segG?]
    · have h0 : (List.filterMap (segG? i) (if o.lin.isEmpty = true then [] else [Seg.G k o.lin])).flatten = [] := by
        split <;> simp [segG?, hki]
      rw [h0, List.nil_append]
      by_cases hlt : k < i
      · have h1 : k + 1 ≤ i := by omega
        have h2 : k ≤ i := by omega
        have h3 : i - k = (i - (k + 1)) + 1 := by omega
        simp only [h1, h2, if_true]
        rw [h3, List.getElem?_cons_succ]
      · have h1 : ¬ (k + 1 ≤ i) := by omega
        have h2 : ¬ (k ≤ i) := by omega
        simp [h1, h2]

theorem fileObj_encode (objs : List Obj) (i : Nat) (hi : i < objs.length) :
    fileObj (encode objs) i = objs[i] := by
  simp only [fileObj, encode, List.filterMap_append, filterMap_segO_encG, filterMap_segG_encO,
    List.append_nil, List.nil_append, filterMap_segO_encO, filterMap_segG_encG, Nat.zero_le, if_true,
    Nat.sub_zero, List.getElem?_eq_getElem hi]
  simp

theorem encode_idx (objs : List Obj) : ∀ sg ∈ encode objs, ∀ i, segIdx? sg = some i → i < objs.length := by
  have hO : ∀ (os : List Obj) (k : Nat), ∀ sg ∈ encO k os, ∀ i, segIdx? sg = some i → i < k + os.length := by
    intro os
    induction os with
    | nil => intro k sg h; simp [encO] at h
    | cons o os ih =>
      intro k sg h i hi
      simp only [encO, List.mem_cons] at h
      rcases h with rfl | h
      · simp only [segIdx?, Option.some.injEq] at hi; simp; omega
      · have := ih (k + 1) sg h i hi; simp; omega
  have hG : ∀ (os : List Obj) (k : Nat), ∀ sg ∈ encG k os, ∀ i, segIdx? sg = some i → i < k + os.length := by
    intro os
    induction os with
    | nil => intro k sg h; simp [encG] at h
    | cons o os ih =>
      intro k sg h i hi
      simp only [encG, List.mem_append] at h
      rcases h with h | h
      · split at h
        · simp at h
        · simp only [List.mem_singleton] at h; subst h
          simp only [segIdx?, Option.some.injEq] at hi; simp; omega
      · have := ih (k + 1) sg h i hi; simp; omega
  intro sg h i hi
  simp only [encode, List.mem_append] at h
  rcases h with h | h
  · have := hO objs 0 sg h i hi; omega
  · have := hG objs 0 sg h i hi; omega

theorem hasO_encode (objs : List Obj) (i : Nat) (hi : i < objs.length) : hasO (encode objs) i = true := by
  simp [hasO, encode, List.filterMap_append, filterMap_segO_encG, filterMap_segO_encO, List.getElem?_eq_getElem hi]


theorem onSeg_length {n : Nat} {st st1 : St} {sg : Seg} (h : onSeg n st sg = .ok st1) :
    st1.objs.length = st.objs.length := by
  cases sg with
  | O idx mx nl =>
    simp only [onSeg] at h
    split at h
    · simp at h
    · split at h <;> (simp at h; subst h; simp)
  | G idx ts =>
    simp only [onSeg] at h
    split at h
    · simp at h
    · split at h <;> (simp at h; subst h; simp)
  | other => simp [onSeg] at h; subst h; rfl

theorem readSegs_length {n : Nat} : ∀ (segs : List Seg) (st st' : St), readSegs n st segs = .ok st' →
    st'.objs.length = st.objs.length := by
  intro segs
  induction segs with
  | nil => intro st st' h; simp [readSegs] at h; subst h; rfl
  | cons sg segs ih =>
    intro st st' h
    simp only [readSegs] at h
    cases h1 : onSeg n st sg with
    | error e => simp [h1] at h
    | ok st1 =>
      simp only [h1] at h
      rw [ih _ _ h, onSeg_length h1]

/-- a failing segment loop has met an objective segment whose index is not below the header count -/
theorem readSegs_error_idx {n : Nat} (segs : List Seg) (st : St) (e : Err) (h : readSegs n st segs = .error e) :
    ∃ sg ∈ segs, ∃ i, segIdx? sg = some i ∧ n ≤ i := by
  apply Classical.byContradiction
  intro hno
  have hall : ∀ sg ∈ segs, ∀ i, segIdx? sg = some i → i < n := by
    intro sg hsg i hi
    apply Classical.byContradiction
    intro hlt
    exact hno ⟨sg, hsg, i, hi, by omega⟩
  obtain ⟨st', h'⟩ := readSegs_total segs st hall
  rw [h'] at h; simp at h

end MpVerif.C12

import MpVerif.C12.Model
import MpVerif.Gen.ObjFilter
/-! Line driver for C12.  One case per line:

  `R <n> <numCons> <nops> {o <int> | m <int>}* <nsegs> {O <idx> <0|1> <nl> | G <idx> <cnt> {<var> <coef>}* | X}*`

Output: `err <kind>` or
  `ok echo=<int> names=<i,i,..> nobj=<k> | <min|max> nl=<tok> lin=<v:c,v:c,..> | ...`
No logic here: parsing + calls of `readNL`, `delivered`, `solObjnoLine`, `objRowIdx`.

  `F <name> <int>*` evaluates the definition `<name>` of the *generated* module `MpVerif.Gen.ObjFilter`
  (arguments in the order of the generated signature) and prints `ret n` / `throw` / `ub`.

  `T <cnt> {<var> <coef>}*` prints `sortTerms` (model of `LinTerms::sort_terms`) of the term list as `v:c,v:c,..`;
  `U …` the same through the *generated* `LinTerms_sort_terms` (force_sort = 0);
  `Q {<coef> <var1> <var2>}*` prints the generated `QuadTerms_sort_terms` and the model's `sortQuadTerms` as `a*b:c,… | a*b:c,…`. -/
open MpVerif.C12

def parseOps : Nat → List String → Option (List OptOp × List String)
  | 0, rest => some ([], rest)
  | k + 1, "o" :: v :: rest => do
    let x ← v.toInt?
    let (ops, r) ← parseOps k rest
    pure (OptOp.objno x :: ops, r)
  | k + 1, "m" :: v :: rest => do
    let x ← v.toInt?
    let (ops, r) ← parseOps k rest
    pure (OptOp.multi x :: ops, r)
  | _, _ => none

def parseTerms : Nat → List String → Option (List (Nat × Int) × List String)
  | 0, rest => some ([], rest)
  | k + 1, v :: c :: rest => do
    let vi ← v.toNat?
    let ci ← c.toInt?
    let (ts, r) ← parseTerms k rest
    pure ((vi, ci) :: ts, r)
  | _, _ => none

def parseSegs : Nat → Nat → List String → Option (List Seg × List String)
  | _, 0, rest => some ([], rest)
  | fuel + 1, k + 1, "O" :: i :: mx :: nl :: rest => do
    let idx ← i.toNat?
    let m ← mx.toNat?
    if m > 1 then none
    let t ← nl.toNat?
    let (sg, r) ← parseSegs fuel k rest
    pure (Seg.O idx (m == 1) t :: sg, r)
  | fuel + 1, k + 1, "G" :: i :: cnt :: rest => do
    let idx ← i.toNat?
    let c ← cnt.toNat?
    let (ts, r1) ← parseTerms c rest
    let (sg, r) ← parseSegs fuel k r1
    pure (Seg.G idx ts :: sg, r)
  | fuel + 1, k + 1, "X" :: rest => do
    let (sg, r) ← parseSegs fuel k rest
    pure (Seg.other :: sg, r)
  | _, _, _ => none

def showErr : Err → String
  | .invalidOption => "invalidOption"
  | .objnoOutOfRange => "objnoOutOfRange"
  | .readError => "readError"

def showObj (o : Obj) : String :=
  (if o.isMax then "max" else "min") ++ " nl=" ++ toString o.nl ++ " lin=" ++
    ",".intercalate (o.lin.map fun (v, c) => toString v ++ ":" ++ toString c)

def runGen (name : String) (args : List String) : Option String := do
  let (_, ar, f) ← MpVerif.Gen.ObjFilter.table.find? (fun e => e.1 == name)
  let xs ← args.mapM (·.toInt?)
  if xs.length ≠ ar then none
  pure (f xs).toStr

def runLine (toks : List String) : Option String := do
  match toks with
  | "F" :: name :: args => runGen name args
  | "Q" :: rest => do
    let xs ← rest.mapM (·.toInt?)
    if xs.length % 3 ≠ 0 then none
    let rec triples : List Int → List (Int × Int × Int)
      | c :: a :: b :: r => (c, a, b) :: triples r
      | _ => []
    let l := triples xs
    let (cs, v1, v2) := MpVerif.Gen.ObjFilter.QuadTerms_sort_terms (l.map (·.1)) (l.map (·.2.1)) (l.map (·.2.2))
    let m := sortQuadTerms l
    pure (",".intercalate ((cs.zip (v1.zip v2)).map fun (c, a, b) => toString a ++ "*" ++ toString b ++ ":" ++ toString c) ++ " | " ++
          ",".intercalate (m.map fun (c, a, b) => toString a ++ "*" ++ toString b ++ ":" ++ toString c))
  | "U" :: cnt :: rest => do
    let c ← cnt.toNat?
    let (ts, r) ← parseTerms c rest
    if !r.isEmpty then none
    let (cs, vs) := MpVerif.Gen.ObjFilter.LinTerms_sort_terms 0 (ts.map (·.2)) (ts.map fun t => (t.1 : Int))
    pure (",".intercalate ((vs.zip cs).map fun (v, c) => toString v ++ ":" ++ toString c))
  | "T" :: cnt :: rest => do
    let c ← cnt.toNat?
    let (ts, r) ← parseTerms c rest
    if !r.isEmpty then none
    pure (",".intercalate ((sortTerms ts).map fun (v, c) => toString v ++ ":" ++ toString c))
  | "R" :: n :: nc :: nops :: rest =>
    let n ← n.toNat?
    let nc ← nc.toNat?
    let nops ← nops.toNat?
    let (ops, r1) ← parseOps nops rest
    match r1 with
    | nsegs :: r2 =>
      let nsegs ← nsegs.toNat?
      let (segs, r3) ← parseSegs (r2.length + 1) nsegs r2
      if !r3.isEmpty then none
      match readNL ops n segs with
      | .error e => pure ("err " ++ showErr e)
      | .ok st =>
        let objs := delivered st
        pure ("ok echo=" ++ toString (solObjnoLine st) ++ " names=" ++
          ",".intercalate ((objRowIdx nc st).map toString) ++ " nobj=" ++ toString objs.length ++
          String.join (objs.map fun o => " | " ++ showObj o))
    | _ => none
  | _ => none

partial def loop (h : IO.FS.Stream) (out : IO.FS.Stream) : IO Unit := do
  let line ← h.getLine
  if line.isEmpty then return ()
  let toks := (line.trimAscii.toString.splitOn " ").filter (· ≠ "")
  match runLine toks with
  | some s => out.putStrLn s
  | none => out.putStrLn "bad-op"
  loop h out

def main : IO Unit := do
  let out ← IO.getStdout
  loop (← IO.getStdin) out

/-! Line driver for C12 (stub; replaced when the model is written). -/
def main : IO Unit := pure ()

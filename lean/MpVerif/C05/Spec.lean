import MpVerif.C05.Model
/-!
# C05 — the specification of the round trip (read this next to Props.lean)

* `Wf c s nVars nCons` — the side conditions under which `C05_roundtrip` holds: codec hypotheses on the printed text of each real
  (`GoodNum`, `GoodSufTok`), restrictions of the format (`GoodLine`, `GoodName`, `GoodTable`, `Int32`/`Int64` ranges) and the complements of
  the findings (3..9 options, second option ≠ 3, …), each of which has a counterexample theorem in Props.lean;
* `observable c s` — what the handler must be given: the message line by line (`msgRead`), the options block with the four counts
  (`optInts`), the dual and primal vectors as the printed texts (`vecEvs`), the objno / status texts, and one event per OUTPUT suffix (`obsSuf`).

Only definitions live here (no lemmas), written from the property text: the writer model (`writeSol`) and the reader model (`readSol`) are not used
to define them, except that `observable` names the event constructors of the reader and `Suf.entries` (the non-zero entries of a suffix) of the writer model.
-/
namespace MpVerif.C05
open MpVerif.C14

/-- a message line as the reader must find it: non-empty, fits the 512-byte buffer, no NUL / LF inside,
does not start with a backspace, does not end with CR -/
structure GoodLine (l : Bytes) : Prop where
  nonempty : l ≠ []
  short : l.length ≤ 510
  clean : ∀ c ∈ l, c ≠ 10 ∧ c ≠ 0
  nobs : l.head? ≠ some 8
  nocr : l.getLast? ≠ some 13

/-- the explicit codec hypothesis on the text printed for a finite real: one line, no NUL, and
`decstring` consumes exactly that text (checked on every real of every run by the driver; the numeric
side `strtod (enc x) ≈ x` is tested by the harness) -/
structure GoodNum (t : Bytes) : Prop where
  short : t.length ≤ 500
  clean : ∀ c ∈ t, c ≠ 10 ∧ c ≠ 0
  dec : decstring (t ++ [10]) = some t

def Int32 (i : Int) : Prop := -2147483648 ≤ i ∧ i ≤ 2147483647
instance (i : Int) : Decidable (Int32 i) := by unfold Int32; infer_instance

def Int64 (i : Int) : Prop := -9223372036854775808 ≤ i ∧ i ≤ 9223372036854775807
instance (i : Int) : Decidable (Int64 i) := by unfold Int64; infer_instance

/-! ### integral reals: text model of fmt `'{:.16}'` and the exact value of a decimal integer text -/

def decValAcc (acc : Nat) (ds : Bytes) : Nat := ds.foldl (fun a c => 10 * a + (c - 48)) acc

def decVal (ds : Bytes) : Nat := decValAcc 0 ds

def AllDigits (ds : Bytes) : Prop := ∀ c ∈ ds, isDigit c = true

def stripZeros (ds : Bytes) : Bytes := (ds.reverse.dropWhile (· == 48)).reverse

/-- Text model of `printf("%.16g")` (which mp's fmt calls for `'{:.16}'`) applied to a double whose exact value is the natural number `n` — any size:
* at most 16 decimal digits: precision 16 covers them all, `%g` uses neither an exponent nor a decimal point: the plain numeral;
* more: scientific notation — the digit string rounded to 16 significant digits (exact value, ties to even: glibc in the default rounding mode), trailing zeros
  of the mantissa removed, `d[.d…]e+XX` with at least two exponent digits.
This is a definition, not a theorem about fmt; it is tied to the real writer by sampling only: the driver evaluates it on every integral real of every
case (below and above the switch at 10^16) and the check compares it with the token in the file the real `WriteSolFile` wrote (field `intok`). -/
def fmtG16Nat (n : Nat) : Bytes :=
  let ds := encNat n
  if ds.length ≤ 16 then ds else
    let head := decVal (ds.take 16)
    let tail := ds.drop 16
    let tv := decVal tail
    let half := 5 * 10 ^ (tail.length - 1)
    let m0 := if tv > half ∨ (tv = half ∧ head % 2 = 1) then head + 1 else head
    let m := if m0 = 10 ^ 16 then 10 ^ 15 else m0
    let e := if m0 = 10 ^ 16 then ds.length else ds.length - 1
    let md := encNat m
    let frac := stripZeros (md.drop 1)
    md.take 1 ++ (if frac = [] then [] else 46 :: frac) ++ [101, 43] ++ (if e < 10 then 48 :: encNat e else encNat e)

/-- `%.16g` of a double whose value is the integer `n` (`-0.0` prints `-0`; it is the one integral real outside this model) -/
def fmtG16Int (n : Int) : Bytes := if n < 0 then 45 :: fmtG16Nat n.natAbs else fmtG16Nat n.natAbs

/-- the text the writer prints for an integral real (kept under its round-5 name) -/
def encIntegralReal (n : Int) : Bytes := fmtG16Int n

/-- exact value of a decimal integer text (`-`? digit+); `none` for anything else -/
def intTextValue : Bytes → Option Int
  | 45 :: ds => if ds ≠ [] ∧ ds.all isDigit = true then some (-(decVal ds : Int)) else none
  | ds => if ds ≠ [] ∧ ds.all isDigit = true then some (decVal ds : Int) else none

/-- **Exact value of a decimal text** `-?digits[.digits][e[+-]digits]` as `(m, e)`, meaning `m · 10^e`; `none` for any other text.  This is the
mathematical value a correctly rounded `strtod` rounds to a double.  Definition only; tied to glibc's `strtod` by sampling: the driver evaluates it on the
text of every finite vector value of every case, and the check compares the correctly rounded double of `m · 10^e` with the bits the real reader delivered
(field `dec`). -/
def parseDec (t : Bytes) : Option (Int × Int) :=
  let neg := t.head? = some 45
  let u := if neg then t.drop 1 else t
  let ip := u.takeWhile isDigit
  let r1 := u.drop ip.length
  let fp := match r1 with
    | 46 :: r => r.takeWhile isDigit
    | _ => []
  let r2 := match r1 with
    | 46 :: r => r.drop fp.length
    | r => r
  let ex : Option Int := match r2 with
    | [] => some 0
    | 101 :: 43 :: ds => if ds ≠ [] ∧ ds.all isDigit = true then some (decVal ds : Int) else none
    | 101 :: 45 :: ds => if ds ≠ [] ∧ ds.all isDigit = true then some (-(decVal ds : Int)) else none
    | 101 :: ds => if ds ≠ [] ∧ ds.all isDigit = true then some (decVal ds : Int) else none
    | _ => none
  if ip = [] then none else
    ex.map (fun e => ((if neg then -1 else 1) * (decVal (ip ++ fp) : Int), e - (fp.length : Int)))

/-! ### non-integral reals: the "within 1e-15" clause, with fmt and strtod as stated assumptions

Values are rationals (every double is one).  Nothing here models binary64 or digit generation: the two conversions appear only through the two
assumptions `G16` and `CorrRounded`, which are what IEEE 754 / C say about a correctly rounding `printf("%.16g")` and `strtod` in the normal range. -/

def rabs (q : Rat) : Rat := if q < 0 then -q else q

def pow10 (e : Int) : Rat := if e ≥ 0 then ((10 ^ e.toNat : Nat) : Rat) else 1 / ((10 ^ (-e).toNat : Nat) : Rat)

/-- the exact rational value of a decimal text (see `parseDec`) -/
def decValue (t : Bytes) : Option Rat := (parseDec t).map (fun p => (p.1 : Rat) * pow10 p.2)

/-- ASSUMPTION on fmt `'{:.16}'` / `printf("%.16g")`, as a relation between the value `x` that is printed and the exact value `d` of the printed text:
`d` has (at most) 16 significant digits with unit in the last place `s` (a power of ten, only `s > 0` is used), i.e. `10^15·s ≤ |d|`, and it is a nearest
such decimal: `|x - d| ≤ s/2`.  (`%g` strips trailing zeros, which does not change `d`.)  Holds for glibc/fmt on every finite non-zero double; sampled on
every vector value of every run (evidence `g16_assumption_checked`). -/
def G16 (x d : Rat) : Prop := ∃ s : Rat, 0 < s ∧ 1000000000000000 * s ≤ rabs d ∧ rabs (x - d) ≤ s / 2

/-- ASSUMPTION on `strtod`: the double `y` it returns for a text of exact value `d` is a nearest double, and `d` is in the normal range of binary64
(`2^-1022 ≤ |d| ≤ DBL_MAX`), where half an ulp is at most `2^-53·|d|`.  Does NOT hold for subnormal results or for texts above `DBL_MAX`
(the open finding C05-dblmax-overflow is exactly such a text).  Sampled on every vector value in the normal range (evidence `strtod_assumption_checked`). -/
def CorrRounded (d y : Rat) : Prop := rabs (y - d) ≤ rabs d / 9007199254740992

/-- the integers of the `Options` block in file order -/
def optInts (opts : List Int) (ncons nd nvars np : Nat) : List Int :=
  (opts.length : Int) :: opts ++ [(ncons : Int), (nd : Int), (nvars : Int), (np : Int)]

/-- explicit codec hypothesis for a value printed in a suffix line: one line, no NUL, and `strtod`
(after the blank) consumes exactly the printed text -/
structure GoodSufTok (t : Bytes) : Prop where
  short : t.length ≤ 400
  clean : ∀ c ∈ t, c ≠ 10 ∧ c ≠ 0
  scan : strtodLen (32 :: t ++ [10]) = t.length + 1

structure GoodName (name : Bytes) : Prop where
  nonempty : name ≠ []
  short : name.length ≤ 509
  clean : ∀ c ∈ name, c ≠ 10 ∧ c ≠ 0

def joinNl (ls : List Bytes) : Bytes := ls.flatMap (· ++ [10])

structure GoodTable (init : List Bytes) (last : Bytes) : Prop where
  init_clean : ∀ l ∈ init, ∀ c ∈ l, c ≠ 10 ∧ c ≠ 0
  last_clean : ∀ c ∈ last, c ≠ 10 ∧ c ≠ 0
  last_short : last.length ≤ 509
  last_nocr : last.getLast? ≠ some 13

def readAll : Policy := ⟨0, .all, .all, .all⟩

/-- what the reader must deliver for one suffix of the solution -/
def obsSuf {D : Type} (c : Codec D) (s : Suf D) : List Event :=
  if !isOutput s.kind then [] else
    [.suffix false ((kindMask s.kind : Nat) : Int) ((s.name.length + 1 : Nat) : Int)
      ((if s.table = [] then 0 else s.table.length + 1 : Nat) : Int) s.name s.table
      ⟨(s.entries c).length, (s.entries c).map (fun e => ⟨(e.1 : Int), 32 :: e.2⟩), .ok, 0⟩]

/-- side conditions on one suffix (only OUTPUT suffixes are written) -/
structure SufOK {D : Type} (c : Codec D) (s : Suf D) : Prop where
  name : GoodName s.name
  entries : ∀ e ∈ s.entries c, e.1 ≤ 2147483647 ∧ GoodSufTok e.2
  count : (s.entries c).length ≤ 2147483599
  table : s.table = [] ∨ ∃ init last, s.table = joinNl init ++ last ∧ GoodTable init last ∧ s.table.length ≤ 199999999 ∧ s.table ≠ []

/-- the real values of a solution that `WriteSolFile` prints: duals, primals, and the non-zero entries of the real-valued OUTPUT suffixes, in file order -/
def writtenReals {D : Type} (c : Codec D) (s : Sol D) : List D :=
  s.duals ++ s.primals ++
    s.sufs.flatMap (fun x => if isOutput x.kind && isFloat x.kind then x.dvals.filter (fun v => !c.isZero v) else [])

/-- the texts of reals in a list of delivered events (vector items; items of suffixes whose kind has the FLOAT bit), in order -/
def realItems (evs : List Event) : List Bytes :=
  evs.flatMap (fun e => match e with
    | .dual _ v => v.items.map (·.val)
    | .primal _ v => v.items.map (·.val)
    | .suffix _ kind _ _ _ _ v => if (kind.toNat / 4) % 2 = 1 then v.items.map (·.val) else []
    | _ => [])

/-- the lines the reader will see: interior empty lines are written as a single space, a final empty
line is the terminator itself -/
def escLines : List Bytes → List Bytes
  | [] => []
  | [l] => if l = [] then [] else [l]
  | l :: l' :: ls => (if l = [] then [32] else l) :: escLines (l' :: ls)

/-- what follows the terminating empty line (one more `\n` when the message ends with a newline) -/
def tailNl : List Bytes → Bytes
  | [] => [10]
  | [l] => if l = [] then [10] else []
  | _ :: l' :: ls => tailNl (l' :: ls)

/-- the message as `OnSolveMessage` receives it -/
def msgRead (msg : Bytes) : Bytes := (escLines (splitLines msg)).flatMap (· ++ [10])

/-- the event of a dual/primal vector: none when the vector is empty -/
def vecEvs {D : Type} (c : Codec D) (mk : VecOut → Event) (vs : List D) : List Event :=
  if vs.length = 0 then [] else [mk ⟨vs.length, vs.map (fun v => ⟨0, c.enc v⟩), .ok, 0⟩]

/-- side conditions of the round trip (each is either a documented restriction of the format or a finding,
see the counterexamples in Props.lean) -/
structure Wf {D : Type} (c : Codec D) (s : Sol D) (nv nc : Nat) : Prop where
  msg : ∀ l ∈ escLines (splitLines s.msg), GoodLine l
  opts : ∃ o0 o1 o2 os, s.options = o0 :: o1 :: o2 :: os ∧ os.length ≤ 6 ∧ o1 ≠ 3
  ints : ∀ i ∈ optInts s.options s.ncons s.duals.length s.nvars s.primals.length, Int32 i
  duals : ∀ v ∈ s.duals, GoodNum (c.enc v)
  primals : ∀ v ∈ s.primals, GoodNum (c.enc v)
  nd : s.duals.length ≤ nc
  np : s.primals.length ≤ nv
  objno : Int64 (s.objno - 1)
  status : Int64 s.status
  sufs : ∀ x ∈ s.sufs, isOutput x.kind = true → SufOK c x

/-- what the handler must observe -/
def observable {D : Type} (c : Codec D) (s : Sol D) : List Event :=
  (if (msgRead s.msg).length = 0 then [] else [.msg (msgRead s.msg) 0]) ++
  [.options (optInts s.options s.ncons s.duals.length s.nvars s.primals.length) false []] ++
  (vecEvs c (.dual false) s.duals ++ vecEvs c (.primal false) s.primals) ++
  [.objno false (encInt (s.objno - 1)) (32 :: encInt s.status)] ++
  s.sufs.flatMap (obsSuf c)

end MpVerif.C05

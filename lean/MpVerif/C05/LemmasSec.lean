import MpVerif.C05.LemmasNum
/-! # C05 — the sections of a written file as the reader parses them -/
namespace MpVerif.C05
open MpVerif.C14

/-! ## lengths of printed integers -/

theorem encNatAux_len (f n k : Nat) (h : n < 10 ^ (k + 1)) : (encNatAux f n).length ≤ k + 1 := by
  induction f generalizing n k with
  | zero => simp [encNatAux]
  | succ f ih =>
    unfold encNatAux
    split
    · simp
    · rename_i hge
      cases k with
      | zero => simp at h; omega
      | succ k =>
        have : n / 10 < 10 ^ (k + 1) := by
          apply Nat.div_lt_of_lt_mul
          rw [Nat.pow_succ] at h; omega
        have := ih (n / 10) k this
        simp; omega

theorem encInt_len (i : Int) (k : Nat) (h : i.natAbs < 10 ^ (k + 1)) : (encInt i).length ≤ k + 2 := by
  have := encNatAux_len i.natAbs i.natAbs k h
  rcases encInt_cases i with ⟨_, e⟩ | ⟨_, e⟩ <;> rw [e] <;> simp [encNat] <;> omega

theorem encInt_len32 (i : Int) (h : Int32 i) : (encInt i).length ≤ 11 := by
  have : i.natAbs < 10 ^ (9 + 1) := by
    have : (10 : Nat) ^ (9 + 1) = 10000000000 := by decide
    rw [this]; unfold Int32 at h; omega
  exact encInt_len i 9 this

theorem encInt_ne_nil (i : Int) : encInt i ≠ [] := by
  obtain ⟨_, hne, _⟩ := encNat_spec i.natAbs
  rcases encInt_cases i with ⟨_, e⟩ | ⟨_, e⟩ <;> rw [e]
  · exact hne
  · simp

theorem toInt32_id (i : Int) (h : Int32 i) : toInt32 i = i := by
  unfold Int32 at h
  unfold toInt32
  simp only
  split <;> omega

/-! ## integer lines -/

theorem readIntLine_encInt (i : Int) (rest : Bytes) (h : Int32 i) :
    readIntLine (encInt i ++ 10 :: rest) = .ok (i, rest) := by
  have hc := encInt_clean i
  have hl := encInt_len32 i h
  unfold readIntLine
  rw [fgets_line 512 (encInt i) rest (fun c hc' => (hc c hc').1) (by omega)]
  simp only
  rw [cstr_line _ (fun c hc' => (hc c hc').2.1)]
  have : encInt i ++ [10] = encInt i ++ 10 :: [] := rfl
  rw [this, strtol_encInt i 10 [] (.inr rfl) (by unfold Int32 at h; omega)]
  have hne : ¬ ((encInt i).length = 0) := by
    have := encInt_ne_nil i
    cases h' : encInt i with
    | nil => exact absurd h' this
    | cons _ _ => simp
  simp only [hne, if_false, toInt32_id i h]

theorem readIntLines_write (xs ys : List Int) (h : ∀ i ∈ xs, Int32 i) (rest : Bytes) :
    readIntLines xs.length (writeIntLines (xs ++ ys) ++ rest) = .ok (xs, writeIntLines ys ++ rest) := by
  induction xs with
  | nil => simp [readIntLines]
  | cons x xs ih =>
    simp only [List.cons_append, writeIntLines, nl, List.append_assoc, List.length_cons, List.nil_append]
    unfold readIntLines
    rw [readIntLine_encInt x _ (h x (by simp))]
    simp only
    rw [ih (fun i hi => h i (by simp [hi]))]

theorem encInt_ofNat (n : Nat) : encInt (n : Int) = encNat n := by
  unfold encInt
  have : ¬ ((n : Int) < 0) := by omega
  simp [this]

/-! ## the options block -/

theorem optsText_written (o0 o1 o2 : Int) (os : List Int) (ncons nd nvars np : Nat) (rest : Bytes)
    (hos : os.length ≤ 6) (h3 : o1 ≠ 3)
    (hr : ∀ i ∈ optInts (o0 :: o1 :: o2 :: os) ncons nd nvars np, Int32 i) :
    optsText (writeIntLines (optInts (o0 :: o1 :: o2 :: os) ncons nd nvars np) ++ rest) =
      .ok (⟨optInts (o0 :: o1 :: o2 :: os) ncons nd nvars np, 3 + os.length, false, []⟩, rest) := by
  unfold optsText
  have e : optInts (o0 :: o1 :: o2 :: os) ncons nd nvars np =
      [((o0 :: o1 :: o2 :: os).length : Int), o0, o1, o2] ++ (os ++ [(ncons : Int), (nd : Int), (nvars : Int), (np : Int)]) := by
    simp [optInts]
  have h1 : readIntLines 4 (writeIntLines ([((o0 :: o1 :: o2 :: os).length : Int), o0, o1, o2] ++
      (os ++ [(ncons : Int), (nd : Int), (nvars : Int), (np : Int)])) ++ rest) = _ :=
    readIntLines_write [((o0 :: o1 :: o2 :: os).length : Int), o0, o1, o2]
      (os ++ [(ncons : Int), (nd : Int), (nvars : Int), (np : Int)])
      (fun i hi => hr i (by rw [e]; exact List.mem_append_left _ hi)) rest
  rw [e, h1]
  simp only [List.getD_cons_zero, List.getD_cons_succ]
  have hh : optHeader ((o0 :: o1 :: o2 :: os).length : Int) o1 = some (((os.length + 1 + 1 + 1 : Nat) : Int).toNat, false) := by
    unfold optHeader
    simp only [List.length_cons]
    have hn : ¬ (((os.length + 1 + 1 + 1 : Nat) : Int) < 3 ∨ ((os.length + 1 + 1 + 1 : Nat) : Int) > 9) := by omega
    simp only [hn, if_false, h3]
  rw [hh]
  simp only []
  have hlen : ((os.length + 1 + 1 + 1 : Nat) : Int).toNat + 1 = (os ++ [(ncons : Int), (nd : Int), (nvars : Int), (np : Int)]).length := by
    simp; omega
  rw [hlen]
  have h2 := readIntLines_write (os ++ [(ncons : Int), (nd : Int), (nvars : Int), (np : Int)]) []
    (fun i hi => hr i (by rw [e]; exact List.mem_append_right _ hi)) rest
  simp only [List.append_nil, writeIntLines, List.nil_append] at h2
  rw [h2]
  simp
  omega

/-! ## the `objno` line -/

theorem strtodLen_sp (s : Bytes) (h : strtodLen s ≠ 0) : strtodLen (32 :: s) = strtodLen s + 1 := by
  unfold strtodLen at h ⊢
  have hsp : isSpace 32 = true := by decide
  simp only [List.takeWhile_cons, hsp, if_true, List.length_cons, List.drop_succ_cons] at h ⊢
  generalize (s.takeWhile isSpace).length = W at h ⊢
  generalize List.drop W s = S1 at h ⊢
  cases S1 with
  | nil =>
    dsimp only at h ⊢
    generalize scanBody (List.drop 0 ([] : Bytes)) = b at h ⊢
    split at h
    · exact absurd rfl h
    · rename_i hb; simp only [hb, if_false]; omega
  | cons c tl =>
    dsimp only at h ⊢
    generalize scanBody (List.drop (if (decide (c = 43) || decide (c = 45)) = true then 1 else 0) (c :: tl)) = b at h ⊢
    generalize (if (decide (c = 43) || decide (c = 45)) = true then 1 else 0) = sg at h ⊢
    split at h
    · exact absurd rfl h
    · rename_i hb; simp only [hb, if_false]; omega

theorem strObjno : str "objno " = [111, 98, 106, 110, 111, 32] := by decide
theorem strSuffix : str "suffix " = [115, 117, 102, 102, 105, 120, 32] := by decide
theorem strOptions : str "Options" = [79, 112, 116, 105, 111, 110, 115] := by decide

theorem encInt_len64 (i : Int) (h : Int64 i) : (encInt i).length ≤ 20 := by
  have : i.natAbs < 10 ^ (18 + 1) := by
    have : (10 : Nat) ^ (18 + 1) = 10000000000000000000 := by decide
    rw [this]; unfold Int64 at h; omega
  exact encInt_len i 18 this

theorem textTail_objno (fx : Bool) (pol : Policy) (a b : Int) (rest : Bytes) (ha : Int64 a) (hb : Int64 b) :
    textTail fx pol (str "objno " ++ encInt a ++ 32 :: encInt b ++ 10 :: rest) =
      Result.cons (.objno false (encInt a) (32 :: encInt b)) (gsuf fx (rest.length + 1) pol bufInit rest) := by
  have ca := encInt_clean a
  have cb := encInt_clean b
  have la := encInt_len64 a ha
  have lb := encInt_len64 b hb
  have hline : ∀ c ∈ str "objno " ++ encInt a ++ 32 :: encInt b, c ≠ 10 ∧ c ≠ 0 := by
    intro c hc
    rw [strObjno] at hc
    simp only [List.mem_append, List.mem_cons] at hc
    rcases hc with (hc | hc) | hc | hc
    · simp only [List.mem_cons, List.mem_nil_iff, or_false] at hc; omega
    · exact ⟨(ca c hc).1, (ca c hc).2.1⟩
    · subst hc; decide
    · exact ⟨(cb c hc).1, (cb c hc).2.1⟩
  unfold textTail
  rw [show str "objno " ++ encInt a ++ 32 :: encInt b ++ 10 :: rest = (str "objno " ++ encInt a ++ 32 :: encInt b) ++ 10 :: rest from by simp]
  rw [fgets_line 512 _ rest (fun c hc => (hline c hc).1) (by rw [strObjno]; simp; omega)]
  simp only
  rw [cstr_line _ (fun c hc => (hline c hc).2)]
  have e1 : (str "objno " ++ encInt a ++ 32 :: encInt b ++ [10]).take 6 = str "objno " := by
    rw [strObjno]; simp
  have e2 : (str "objno " ++ encInt a ++ 32 :: encInt b ++ [10]).drop 6 = encInt a ++ 32 :: (encInt b ++ [10]) := by
    rw [strObjno]; simp
  simp only [e1, e2, ne_eq, not_true_eq_false, if_false]
  have k1 := strtodLen_encInt a 32 (encInt b ++ [10]) (.inl rfl)
  have hne1 : ¬ ((encInt a).length = 0) := by
    have := encInt_ne_nil a
    cases h' : encInt a with
    | nil => exact absurd h' this
    | cons _ _ => simp
  have k2' := strtodLen_encInt b 10 [] (.inr rfl)
  have hne2 : ¬ ((encInt b).length = 0) := by
    have := encInt_ne_nil b
    cases h' : encInt b with
    | nil => exact absurd h' this
    | cons _ _ => simp
  have k2 : strtodLen (32 :: (encInt b ++ [10])) = (encInt b).length + 1 := by
    rw [strtodLen_sp _ (by rw [show encInt b ++ [10] = encInt b ++ 10 :: [] from rfl, k2']; exact hne2)]
    rw [show encInt b ++ [10] = encInt b ++ 10 :: [] from rfl, k2']
  rw [k1]
  simp only [hne1, if_false, List.drop_left', k2, Nat.add_one_ne_zero, List.take_left']
  congr 2
  rw [show 32 :: (encInt b ++ [10]) = (32 :: encInt b) ++ [10] from rfl]
  exact List.take_left' (by simp)

/-! ## suffix entries `<index> <value>` -/

theorem goodSufTokB_sound (t : Bytes) (h : goodSufTokB t = true) : GoodSufTok t := by
  simp only [goodSufTokB, Bool.and_eq_true, decide_eq_true_eq, List.all_eq_true, bne_iff_ne, ne_eq, beq_iff_eq] at h
  exact ⟨h.1.1, fun c hc => h.1.2 c hc, h.2⟩

theorem encNat_clean (n : Nat) : ∀ c ∈ encNat n, c ≠ 10 ∧ c ≠ 0 ∧ c ≠ 32 := by
  have := encInt_clean (n : Int); rwa [encInt_ofNat] at this

theorem encNat_len32 (n : Nat) (h : n ≤ 2147483647) : (encNat n).length ≤ 11 := by
  have := encInt_len32 (n : Int) (by unfold Int32; omega); rwa [encInt_ofNat] at this

theorem encNat_ne_nil (n : Nat) : encNat n ≠ [] := (encNat_spec n).2.1

theorem readItem_pair (k : RdKind) (hk : k ≠ .dbl) (i : Nat) (t rest : Bytes) (hi : i ≤ 2147483647) (ht : GoodSufTok t) :
    readItem false k (encNat i ++ 32 :: t ++ 10 :: rest) = (.ok ⟨(i : Int), 32 :: t⟩, rest) := by
  have ci := encNat_clean i
  have li := encNat_len32 i hi
  have hline : ∀ c ∈ encNat i ++ 32 :: t, c ≠ 10 ∧ c ≠ 0 := by
    intro c hc
    simp only [List.mem_append, List.mem_cons] at hc
    rcases hc with hc | hc | hc
    · exact ⟨(ci c hc).1, (ci c hc).2.1⟩
    · subst hc; decide
    · exact ht.clean c hc
  unfold readItem
  simp only [Bool.false_eq_true, if_false]
  rw [show encNat i ++ 32 :: t ++ 10 :: rest = (encNat i ++ 32 :: t) ++ 10 :: rest from by simp]
  rw [fgets_line 511 _ rest (fun c hc => (hline c hc).1) (by have := ht.short; simp; omega)]
  simp only
  rw [cstr_line _ (fun c hc => (hline c hc).2)]
  have hst : strtol (encNat i ++ 32 :: t ++ [10]) = ((i : Int), (encNat i).length) := by
    have := strtol_encInt (i : Int) 32 (t ++ [10]) (.inl rfl) (by omega)
    rw [encInt_ofNat] at this
    simpa using this
  have hne : ¬ ((encNat i).length = 0) := by
    have := encNat_ne_nil i
    cases h' : encNat i with
    | nil => exact absurd h' this
    | cons _ _ => simp
  have hdrop : (encNat i ++ 32 :: t ++ [10]).drop (encNat i).length = 32 :: t ++ [10] := by
    rw [show encNat i ++ 32 :: t ++ [10] = encNat i ++ (32 :: t ++ [10]) from by simp]; exact List.drop_left'  rfl
  have htake : (32 :: t ++ [10]).take (t.length + 1) = 32 :: t := by
    rw [show 32 :: t ++ [10] = (32 :: t) ++ [10] from rfl]; exact List.take_left' (by simp)
  cases k with
  | dbl => exact absurd rfl hk
  | ipair =>
    simp only [hst, hne, if_false, hdrop, ht.scan, Nat.add_one_ne_zero, htake, toInt32_id (i : Int) (by unfold Int32; omega)]
  | dpair =>
    simp only [hst, hne, if_false, hdrop, ht.scan, Nat.add_one_ne_zero, htake, toInt32_id (i : Int) (by unfold Int32; omega)]

theorem vecLoop_entries (k : RdKind) (hk : k ≠ .dbl) (es : List (Nat × Bytes))
    (h : ∀ e ∈ es, e.1 ≤ 2147483647 ∧ GoodSufTok e.2) (rest : Bytes) :
    vecLoop false k es.length es.length (writeEntries es ++ rest) =
      (es.map (fun e => ⟨(e.1 : Int), 32 :: e.2⟩), .ok, 0, rest) := by
  induction es with
  | nil => simp [vecLoop, writeEntries]
  | cons e es ih =>
    obtain ⟨i, t⟩ := e
    have he := h (i, t) (by simp)
    simp only [List.length_cons, writeEntries, List.append_assoc, List.cons_append, List.nil_append]
    unfold vecLoop
    simp only [Nat.add_one_ne_zero, if_false]
    rw [show encNat i ++ 32 :: (t ++ 10 :: (writeEntries es ++ rest)) = encNat i ++ 32 :: t ++ 10 :: (writeEntries es ++ rest) from by simp]
    rw [readItem_pair k hk i t _ he.1 he.2]
    simp only [Nat.add_sub_cancel]
    rw [ih (fun x hx => h x (by simp [hx]))]
    simp

theorem goodSufTok_encInt (v : Int) (h : Int32 v) : GoodSufTok (encInt v) := by
  have c := encInt_clean v
  have l := encInt_len32 v h
  refine ⟨by omega, fun x hx => ⟨(c x hx).1, (c x hx).2.1⟩, ?_⟩
  have k := strtodLen_encInt v 10 [] (.inr rfl)
  have hne : ¬ ((encInt v).length = 0) := by
    have := encInt_ne_nil v
    cases h' : encInt v with
    | nil => exact absurd h' this
    | cons _ _ => simp
  rw [show (32 :: encInt v ++ [10]) = 32 :: (encInt v ++ 10 :: []) from rfl, strtodLen_sp _ (by rw [k]; exact hne), k]

theorem sparseI_good (i : Nat) (vs : List Int) (h : ∀ v ∈ vs, Int32 v) :
    ∀ e ∈ sparseI i vs, e.1 < i + vs.length ∧ GoodSufTok e.2 := by
  induction vs generalizing i with
  | nil => simp [sparseI]
  | cons v vs ih =>
    intro e he
    unfold sparseI at he
    have ih' := ih (i + 1) (fun x hx => h x (by simp [hx]))
    split at he
    · have := ih' e he; simp only [List.length_cons]; exact ⟨by omega, this.2⟩
    · rcases List.mem_cons.mp he with rfl | he
      · exact ⟨by simp, goodSufTok_encInt v (h v (by simp))⟩
      · have := ih' e he; simp only [List.length_cons]; exact ⟨by omega, this.2⟩

theorem sparseD_good {D : Type} (c : Codec D) (i : Nat) (vs : List D)
    (h : ∀ v ∈ vs, c.isZero v = false → GoodSufTok (c.enc v)) :
    ∀ e ∈ sparseD c i vs, e.1 < i + vs.length ∧ GoodSufTok e.2 := by
  induction vs generalizing i with
  | nil => simp [sparseD]
  | cons v vs ih =>
    intro e he
    unfold sparseD at he
    have ih' := ih (i + 1) (fun x hx => h x (by simp [hx]))
    split at he
    · have := ih' e he; simp only [List.length_cons]; exact ⟨by omega, this.2⟩
    · rename_i hz
      rcases List.mem_cons.mp he with rfl | he
      · exact ⟨by simp, h v (by simp) (by simpa using hz)⟩
      · have := ih' e he; simp only [List.length_cons]; exact ⟨by omega, this.2⟩

end MpVerif.C05

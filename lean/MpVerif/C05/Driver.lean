import MpVerif.C05.Spec
import MpVerif.C14.Show
/-! Line driver for C05.  No logic of its own: parses a solution, calls `writeSol` and
`readSol` on the written bytes, prints both canonically.

`sol <id> <fx> <nVars decl> <nCons decl> <msg hex> <opts i,i|-> <ncons> <nvars> <duals> <primals> <objno> <status> <sufs>`
real ::= `<bits>/<token hex>[/Z]`   (bits are for the C++ side; Z = value is zero)
reals ::= real,real,… | -       suf ::= `<kind>:<name hex>:<table hex>:<v,v,…|->`  (ints or reals by kind)   sufs ::= suf;suf;… | - -/
open MpVerif.C14 MpVerif.C14.Show MpVerif.C05

abbrev Tok := Bytes × Bool
def tokCodec : Codec Tok := ⟨fun t => t.1, fun t => t.2⟩

def parseReal (s : String) : Option Tok :=
  match s.splitOn "/" with
  | [_, t] => (unhex t).map (·, false)
  | [_, t, "Z"] => (unhex t).map (·, true)
  | _ => none

def parseList {α : Type} (f : String → Option α) (sep : String) (s : String) : Option (List α) :=
  if s = "-" then some [] else (s.splitOn sep).mapM f

def parseSuf (s : String) : Option (Suf Tok) :=
  match s.splitOn ":" with
  | [k, n, t, vs] =>
    match k.toNat?, unhex n, unhex t with
    | some k, some n, some t =>
      if isFloat k then (parseList parseReal "," vs).map (fun d => ⟨k, n, t, [], d⟩)
      else (parseList String.toInt? "," vs).map (fun i => ⟨k, n, t, i, []⟩)
    | _, _, _ => none
  | _ => none

def runCase (w0 : List String) : String :=
  -- an optional last field names the writer entry point used on the C++ side (direct / final / stub): same model
  let w := if w0.length ≥ 15 then w0.take 14 else w0
  -- 16th field `ints=<token hex>:<n>,…`: the `%.16g` tokens of the integral reals of this case (any size), with their integer value
  let intPairs : List (Bytes × Int) := match w0.drop 15 with
    | [f] => if f.startsWith "ints=" ∧ f != "ints=-" then
        ((f.drop 5).toString.splitOn ",").filterMap (fun p => match p.splitOn ":" with
          | [t, n] => match unhex t, n.toInt? with
            | some t, some n => some (t, n)
            | _, _ => none
          | _ => none)
      else []
    | _ => []
  let intOk := (intPairs.filter (fun p => encIntegralReal p.2 == p.1)).length
  match w with
  | ["sol", id, fx, nv, nc, msg, opts, ncons, nvars, duals, primals, objno, status, sufs] =>
    match fx.toNat?, nv.toNat?, nc.toNat?, unhex msg, parseList String.toInt? "," opts, ncons.toNat?, nvars.toNat?,
          parseList parseReal "," duals, parseList parseReal "," primals, objno.toInt?, status.toInt?, parseList parseSuf ";" sufs with
    | some fx, some nv, some nc, some msg, some opts, some ncons, some nvars, some duals, some primals, some objno, some status, some sufs =>
      let s : Sol Tok := ⟨msg, opts, ncons, nvars, duals, primals, objno, status, sufs⟩
      let b := writeSol tokCodec s
      let reals := duals ++ primals
      let good := (reals.filter (fun t => goodNumB t.1)).length
      let stoks := realEntryToks tokCodec sufs
      let sgood := (stoks.filter goodSufTokB).length
      -- exact decimal value `m·10^e` of the text of every vector value (`x` = not a decimal text)
      let dec := ",".intercalate (reals.map (fun t => match parseDec t.1 with
        | some (m, e) => s!"{m}:{e}"
        | none => "x"))
      let dec := if dec.isEmpty then "-" else dec
      s!"{id} good={good}/{reals.length} goodsuf={sgood}/{stoks.length} intok={intOk}/{intPairs.length} dec={dec} bytes={hex b} || {showResult (readSol (fx % 2 != 0) (fx / 2 % 2 != 0) nv nc ⟨0, .all, .all, .all⟩ b)}"
    | _, _, _, _, _, _, _, _, _, _, _, _ => "bad-op"
  | _ => "bad-op"

partial def loop (h : IO.FS.Stream) (out : IO.FS.Stream) : IO Unit := do
  let line ← h.getLine
  if line.isEmpty then return ()
  out.putStrLn (runCase (line.trimAscii.toString.splitOn " "))
  loop h out

def main : IO Unit := do
  let out ← IO.getStdout
  loop (← IO.getStdin) out

/-! Line driver for C05 (stub; replaced when the model is written). -/
def main : IO Unit := pure ()

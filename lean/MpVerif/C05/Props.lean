import MpVerif.C05.LemmasAll
import MpVerif.Gen.SolGuards
/-!
# C05 — a written .sol file is read back as the same solution: property theorems

`writeSol c s` (C05/Model.lean) mirrors `mp::WriteSolFile` (include/mp/sol.h, src/sol.cc);
`readSol` (C14/Model.lean) mirrors `mp::SOLReader2::ReadSOLFile`, `fx = false` the code as it is,
`fx = true` the code as it is since ampl/mp 602adf1 (`fx = false`: before), `fm` = with/without repo_patches/C14-badoptions-message.diff.  Reals go through the abstract codec
`c : Codec D` (`enc` = fmt's `'{:.16}'`); integers are printed by the concrete `encInt`.

The specification (`Wf`, `observable`, the text model of integral reals) is in `Spec.lean`.

`C05_roundtrip` is the full-strength statement: for **every** solution (message, options, vectors of any
length, objno, status, any list of suffixes with sparse values and multi-line tables) that meets the side
conditions `Wf`, for every declared size ≥ the vector lengths and for both reader variants, reading the
written bytes returns OK and delivers exactly `observable c s`.  The side conditions are

* the explicit codec hypotheses `GoodNum` / `GoodSufTok` on the *text* printed for each real (`decstring`
  resp. `strtod` consumes exactly that text) — evaluated by the driver on every real of every run; that the
  consumed text denotes a value within the property's tolerance is the numeric half of the codec, TESTED by
  the harness on doubles, not proved;
* restrictions of the format that are documented or obvious (no NUL/LF inside a message line, a suffix name,
  a table line; C `int` ranges; lengths that fit the reader's 512-byte line buffer: message lines ≤ 510,
  suffix names and the last table line ≤ 509 characters; a message does not start a line with a backspace —
  leading backspaces of the *first* line are legal and handled by the reader (reported as `nbs`), that case is
  covered by the correspondence and the oracle only);
* the complements of the **findings**, each with a proved counterexample below and a replay on the real code
  on every run: 3 ≤ #options ≤ 9 (A8 and the 1–2 options case), second option ≠ 3 (A9), no message line
  ending in CR, no message line of 511 characters.

Non-finite reals: `C05_nonfinite_*` (rejected with Bad_Line in a vector, read as the same text in a suffix).
-/
namespace MpVerif.C05
open MpVerif.C14
set_option maxRecDepth 100000

/-- **A written .sol file is read back as the same solution** (model level, all solutions meeting `Wf`). -/
theorem C05_roundtrip {D : Type} (fx fm : Bool) (c : Codec D) (s : Sol D) (nVars nCons : Nat) (w : Wf c s nVars nCons) :
    readSol fx fm nVars nCons readAll (writeSol c s) = ⟨.ok, observable c s, false⟩ :=
  roundtrip' fx fm c s nVars nCons w

/-- the handler receives exactly the written vectors, the written objno/status texts, and no error -/
theorem C05_roundtrip_code {D : Type} (fx fm : Bool) (c : Codec D) (s : Sol D) (nVars nCons : Nat) (w : Wf c s nVars nCons) :
    (readSol fx fm nVars nCons readAll (writeSol c s)).code = .ok := by
  rw [C05_roundtrip fx fm c s nVars nCons w]

/-- **Message block** on its own: line by line, interior empty lines as the reserved single space, no
backspaces counted, the reader stops exactly behind the terminating empty line. -/
theorem C05_message_roundtrip (msg rest : Bytes) (f : Nat)
    (h : ∀ l ∈ escLines (splitLines msg), GoodLine l) (hf : (escLines (splitLines msg)).length < f) :
    msgText f (writeMessage msg ++ rest) ⟨[], 0, true⟩ =
      .ok (⟨msgRead msg, 0, true⟩, tailNl (splitLines msg) ++ rest) :=
  message_roundtrip msg rest f h hf

/-- **Dual / primal vectors of any length** on their own. -/
theorem C05_vector_roundtrip {D : Type} (c : Codec D) (vs : List D) (rest : Bytes)
    (h : ∀ v ∈ vs, GoodNum (c.enc v)) :
    runVec false .dbl .all vs.length (writeVals c vs ++ rest) =
      (⟨vs.length, vs.map (fun v => ⟨0, c.enc v⟩), .ok, 0⟩, rest) :=
  runVec_vals c vs rest h

/-! ## numeric clause

What is and is not proved here.  The reader model delivers the TEXT of a number, never a value; `strtod` and fmt's digit generation are outside Lean.
* Non-integral finite reals ("within 1e-15"): **no theorem**.  `C05_noninteger_real_partial` only says that a text satisfying the codec hypothesis is handed to
  `strtod` unchanged; the numeric half is sampled (10^5 / 5·10^6 doubles per run through the real fmt and strtod).
* Integral reals below 10^15: proved about two DEFINITIONS of this development — `fmtG16Int` (text model of `%.16g` on integer-valued doubles, with the switch to
  scientific notation above 16 digits) and `parseDec` (exact value `m·10^e` of a decimal text): the text passes the reader's scanners unconditionally, it is the
  plain numeral, and its exact value is the integer, which is a double.  That the real writer prints `fmtG16Int n` and that the real `strtod` returns the correctly
  rounded `parseDec` value is SAMPLED on every run (fields `intok`, `dec`), not proved; that a correctly rounded `strtod` maps the exact value of a double to that
  double is a property of glibc that is trusted. -/

/-- **Integral reals below 10^15** (about the text model `fmtG16Int`, see above): the text is the plain numeral, satisfies both codec hypotheses
*unconditionally* (the reader's scanners accept it and consume exactly that text, as a vector value and as a suffix value), its exact decimal value is `n`,
and `|n| < 2^53`, i.e. `n` is a double. -/
theorem C05_integer_real_exact (n : Int) (h : n.natAbs < 10 ^ 15) :
    fmtG16Int n = encInt n ∧ GoodNum (fmtG16Int n) ∧ GoodSufTok (fmtG16Int n) ∧ parseDec (fmtG16Int n) = some (n, 0) ∧ n.natAbs < 2 ^ 53 := by
  have h16 : n.natAbs < 10 ^ 16 := Nat.lt_trans h (by decide)
  rw [fmtG16Int_small n h16]
  refine ⟨rfl, goodNum_encInt n h, goodSufTok_encInt' n h, parseDec_encInt n, ?_⟩
  have : (10 : Nat) ^ 15 < 2 ^ 53 := by decide
  omega

/-- the text model on both sides of the switch at 10^16, and why the bound cannot be dropped: `2^54` is a double, `%.16g` prints it as
`1.801439850948198e+16`, whose exact value `1801439850948198·10^1` is a different integer (kernel evaluation of the definitions) -/
theorem C05_g16_switch_instances :
    fmtG16Int 9999999999999999 = str "9999999999999999" ∧
    fmtG16Int 10000000000000000 = str "1e+16" ∧
    fmtG16Int (-10000000000000000000000) = str "-1e+22" ∧
    fmtG16Int 18014398509481984 = str "1.801439850948198e+16" ∧
    parseDec (fmtG16Int 18014398509481984) = some (1801439850948198, 1) ∧
    fmtG16Int 99999999999999995 = str "1e+17" ∧
    fmtG16Int 12345678901234565 = str "1.234567890123456e+16" ∧
    fmtG16Int 12345678901234575 = str "1.234567890123458e+16" ∧
    parseDec (str "-2.25e-07") = some (-225, -9) ∧
    parseDec (str "nan") = none ∧ parseDec (str "1e") = none := by decide

/-- the codec of integral reals: no hypothesis left -/
def intCodec : Codec Int := ⟨fmtG16Int, fun n => n == 0⟩

/-- **Vectors of integral reals below 10^15, any length** (no codec hypothesis): the handler receives, in order, the texts `fmtG16Int n`, whose exact values are
the written integers. -/
theorem C05_integer_vector_exact (ns : List Int) (rest : Bytes) (h : ∀ n ∈ ns, n.natAbs < 10 ^ 15) :
    runVec false .dbl .all ns.length (writeVals intCodec ns ++ rest) =
      (⟨ns.length, ns.map (fun n => ⟨0, fmtG16Int n⟩), .ok, 0⟩, rest) ∧
    ∀ n ∈ ns, parseDec (fmtG16Int n) = some (n, 0) := by
  have h16 : ∀ n ∈ ns, fmtG16Int n = encInt n := fun n hn => fmtG16Int_small n (Nat.lt_trans (h n hn) (by decide))
  refine ⟨runVec_vals intCodec ns rest (fun n hn => ?_), fun n hn => ?_⟩
  · show GoodNum (fmtG16Int n)
    rw [h16 n hn]; exact goodNum_encInt n (h n hn)
  · rw [h16 n hn]; exact parseDec_encInt n

/-- NOT the numeric clause for non-integral reals (there is no theorem for it, see the section comment): under the explicit codec hypothesis on the printed text
(evaluated by the driver on every real of every run) the vector reader hands exactly that text to `strtod`. -/
theorem C05_noninteger_real_partial {D : Type} (c : Codec D) (x : D) (rest : Bytes) (h : GoodNum (c.enc x)) :
    readItem false .dbl (c.enc x ++ 10 :: rest) = (.ok ⟨0, c.enc x⟩, rest) :=
  readItem_num (c.enc x) rest h

/-! ### non-integral reals: "within 1e-15 relative", fmt and strtod as explicit assumptions (ROUND 7) -/

/-- **Arithmetic core of the numeric clause.**  If the printed decimal `d` is a nearest 16-significant-digit decimal of `x` (`G16`, assumption on fmt) and the
double `y` read back is a nearest double of `d` in the normal range (`CorrRounded`, assumption on strtod), then `|y - x| ≤ 10^-15·|x|`
(in fact `≤ (5·10^-16 + 2^-53)(1 + …)|x| ≈ 6.2·10^-16 |x|`). -/
theorem C05_within_1e15 (x d y : Rat) (hp : G16 x d) (hr : CorrRounded d y) : rabs (y - x) ≤ rabs x / 1000000000000000 := by
  obtain ⟨s, hs, h16, hh⟩ := hp
  unfold CorrRounded at hr
  unfold rabs at *
  grind

/-- **Vectors of arbitrary finite reals, any length.**  `val v` is the value of the datum `v`, `S t` the double `strtod` returns for the text `t`.
Proved about the models: the handler receives exactly the printed texts (under the codec hypothesis `GoodNum` on the texts, evaluated on every run).
Under the two stated ASSUMPTIONS on the real conversions — for the values of this vector, fmt printed a nearest 16-digit decimal (`G16`) and strtod returned
a nearest double of that decimal in the normal range (`CorrRounded`) — every value comes back within `10^-15` relative. -/
theorem C05_real_vector_within_1e15 {D : Type} (c : Codec D) (val : D → Rat) (S : Bytes → Rat) (vs : List D) (rest : Bytes)
    (hgood : ∀ v ∈ vs, GoodNum (c.enc v))
    (hconv : ∀ v ∈ vs, ∃ d, decValue (c.enc v) = some d ∧ G16 (val v) d ∧ CorrRounded d (S (c.enc v))) :
    runVec false .dbl .all vs.length (writeVals c vs ++ rest) =
      (⟨vs.length, vs.map (fun v => ⟨0, c.enc v⟩), .ok, 0⟩, rest) ∧
    ∀ v ∈ vs, rabs (S (c.enc v) - val v) ≤ rabs (val v) / 1000000000000000 := by
  refine ⟨runVec_vals c vs rest hgood, fun v hv => ?_⟩
  obtain ⟨d, _, hg, hc⟩ := hconv v hv
  exact C05_within_1e15 (val v) d (S (c.enc v)) hg hc

/-- non-vacuity: `x = 1/3` printed as `0.3333333333333333`: the text has the exact value `3333333333333333·10^-16`, `G16` holds with `s = 10^-16`, and a
`y` equal to that decimal is within the bound; an 8-digit text (`0.33333333`) does NOT satisfy `G16` for `1/3` with any unit `s` — the assumption has content. -/
theorem C05_within_1e15_instance :
    decValue (str "0.3333333333333333") = some (3333333333333333 / 10000000000000000) ∧
    G16 (1 / 3) (3333333333333333 / 10000000000000000) ∧
    CorrRounded (3333333333333333 / 10000000000000000) (3333333333333333 / 10000000000000000) ∧
    ¬ G16 (1 / 3) (33333333 / 100000000) := by
  refine ⟨?_, ⟨1 / 10000000000000000, ?_, ?_, ?_⟩, ?_, ?_⟩
  · have h : parseDec (str "0.3333333333333333") = some (3333333333333333, -16) := by decide
    simp only [decValue, h, Option.map_some]
    have : pow10 (-16) = 1 / 10000000000000000 := by simp [pow10]
    rw [this]; grind
  · grind
  · unfold rabs; grind
  · unfold rabs; grind
  · unfold CorrRounded rabs; grind
  · rintro ⟨s, hs, h1, h2⟩
    unfold rabs at *
    grind

/-! ### whole files: every real of the solution (ROUND 8) -/

theorem sparseD_texts {D : Type} (c : Codec D) (vs : List D) : ∀ i,
    (sparseD c i vs).map (·.2) = (vs.filter (fun v => !c.isZero v)).map c.enc := by
  induction vs with
  | nil => intro i; rfl
  | cons v vs ih =>
    intro i
    simp only [sparseD]
    by_cases h : c.isZero v = true
    · simp [h, ih (i + 1)]
    · simp [h, ih (i + 1)]

/-- the reals the handler receives from `observable c s` are exactly the printed texts of `writtenReals c s`, in order: vector items are the text itself,
items of a real-valued suffix are the text behind the separating blank -/
theorem realItems_observable {D : Type} (c : Codec D) (s : Sol D) :
    realItems (observable c s) =
      (s.duals ++ s.primals).map c.enc ++
      (s.sufs.flatMap (fun x => if isOutput x.kind && isFloat x.kind then x.dvals.filter (fun v => !c.isZero v) else [])).map (fun v => 32 :: c.enc v) := by
  have hvec : ∀ (mk : VecOut → Event) (vs : List D), (mk = .dual false ∨ mk = .primal false) →
      realItems (vecEvs c mk vs) = vs.map c.enc := by
    intro mk vs hmk
    unfold vecEvs
    by_cases h : vs.length = 0
    · have : vs = [] := List.eq_nil_of_length_eq_zero h
      subst this; simp [realItems]
    · rcases hmk with rfl | rfl <;> simp [h, realItems, List.map_map, Function.comp_def]
  have hsuf : ∀ l : List (Suf D), realItems (l.flatMap (obsSuf c)) =
      (l.flatMap (fun x => if isOutput x.kind && isFloat x.kind then x.dvals.filter (fun v => !c.isZero v) else [])).map (fun v => 32 :: c.enc v) := by
    intro l
    induction l with
    | nil => rfl
    | cons x r ih =>
      have happ : ∀ a b : List Event, realItems (a ++ b) = realItems a ++ realItems b := by
        intro a b; simp [realItems]
      simp only [List.flatMap_cons, happ, ih, List.map_append]
      congr 1
      unfold obsSuf
      by_cases ho : isOutput x.kind = true
      · by_cases hf : isFloat x.kind = true
        · have hk : ((((kindMask x.kind : Nat) : Int)).toNat / 4) % 2 = 1 := by
            have : (x.kind / 4) % 2 = 1 := by simpa [isFloat] using hf
            simp only [Int.toNat_natCast, kindMask]; omega
          simp only [ho, hf, Bool.not_true, Bool.false_eq_true, if_false, Bool.and_self, if_true, realItems, List.flatMap_cons, List.flatMap_nil,
            List.append_nil, hk, Suf.entries, List.map_map]
          have := congrArg (List.map (fun t => 32 :: t)) (sparseD_texts c x.dvals 0)
          simpa [List.map_map, Function.comp_def] using this
        · have hk : ¬ ((((kindMask x.kind : Nat) : Int)).toNat / 4) % 2 = 1 := by
            have : ¬ (x.kind / 4) % 2 = 1 := by simpa [isFloat] using hf
            simp only [Int.toNat_natCast, kindMask]; omega
          simp [ho, hf, realItems]
          intro h; exfalso; apply hk; simpa using h
      · simp [ho, realItems]
  have happ : ∀ a b : List Event, realItems (a ++ b) = realItems a ++ realItems b := by
    intro a b; simp [realItems]
  unfold observable
  simp only [happ, hvec _ _ (.inl rfl), hvec _ _ (.inr rfl), hsuf, List.map_append]
  have h1 : realItems (if msgRead s.msg = [] then [] else [Event.msg (msgRead s.msg) 0]) = [] := by
    split <;> simp [realItems]
  have h2 : ∀ a b t, realItems [Event.options a b t] = [] := by intros; simp [realItems]
  have h3 : ∀ a b t, realItems [Event.objno a b t] = [] := by intros; simp [realItems]
  simp [h1, h2, h3]

/-- **Every real of a written file, numeric clause.**  For every codec, every solution meeting `Wf`, both reader variants: the file is read back OK with
`observable c s` (C05_roundtrip); the reals the handler receives are exactly the printed texts of the solution's reals — duals, primals and the non-zero entries of the
real-valued OUTPUT suffixes, in order (a suffix item is the text behind the separating blank, which `strtod` skips); and under the two stated ASSUMPTIONS on the
conversions (`G16` for fmt, `CorrRounded` for strtod — see Spec.lean; assumed only for the reals of this solution) every one of them comes back within `10^-15` relative. -/
theorem C05_file_reals_within_1e15 {D : Type} (fx fm : Bool) (c : Codec D) (val : D → Rat) (S : Bytes → Rat) (s : Sol D) (nVars nCons : Nat)
    (w : Wf c s nVars nCons)
    (hconv : ∀ v ∈ writtenReals c s, ∃ d, decValue (c.enc v) = some d ∧ G16 (val v) d ∧ CorrRounded d (S (c.enc v))) :
    readSol fx fm nVars nCons readAll (writeSol c s) = ⟨.ok, observable c s, false⟩ ∧
    realItems (readSol fx fm nVars nCons readAll (writeSol c s)).evs =
      (s.duals ++ s.primals).map c.enc ++
      (s.sufs.flatMap (fun x => if isOutput x.kind && isFloat x.kind then x.dvals.filter (fun v => !c.isZero v) else [])).map (fun v => 32 :: c.enc v) ∧
    ∀ v ∈ writtenReals c s, rabs (S (c.enc v) - val v) ≤ rabs (val v) / 1000000000000000 := by
  have hr := roundtrip' fx fm c s nVars nCons w
  refine ⟨hr, ?_, fun v hv => ?_⟩
  · rw [hr]; exact realItems_observable c s
  · obtain ⟨d, _, hg, hc⟩ := hconv v hv
    exact C05_within_1e15 (val v) d (S (c.enc v)) hg hc

/-- integer suffix values in the C `int` range always satisfy the hypotheses on suffix entries … -/
theorem C05_int_entries_good (vs : List Int) (h : ∀ v ∈ vs, Int32 v) :
    ∀ e ∈ sparseI 0 vs, e.1 < vs.length ∧ GoodSufTok e.2 := by
  intro e he; simpa using sparseI_good 0 vs h e he

/-- … and real suffix values do whenever the printed text of every non-zero value satisfies `GoodSufTok` -/
theorem C05_real_entries_good {D : Type} (c : Codec D) (vs : List D)
    (h : ∀ v ∈ vs, c.isZero v = false → GoodSufTok (c.enc v)) :
    ∀ e ∈ sparseD c 0 vs, e.1 < vs.length ∧ GoodSufTok e.2 := by
  intro e he; simpa using sparseD_good c 0 vs h e he

/-- the texts fmt prints for non-finite doubles: the spellings found in `write_double` of include/mp/format.h of the tree under test
(`MpVerif.Gen.SolGuards.fmt_nonfinite`, re-read on every run), each with and without a leading `-`.  The three theorems of the section
"non-finite values" below quantify over THIS list, so a changed spelling changes their statements and they are decided again. -/
def nonfiniteToks : List Bytes := MpVerif.Gen.SolGuards.fmt_nonfinite.flatMap (fun s => [str s, 45 :: str s])

/-! ## translator ties (ROUND 4)

`MpVerif.Gen.SolGuards` is regenerated on every run from the tree under test (`translators/gen_solguards.py`): the writer's kind mask and
OUTPUT filter through clang's typed AST, and (structure tie) the ordered list of format strings of every `print` in include/mp/sol.h. -/
section gen2
open MpVerif.CSem MpVerif.Gen.SolGuards

/-- the suffix kind printed in the header, `kind & (SUFFIX_KIND_MASK | FLOAT | IODECL)`, = the model's `kindMask` (suffix kinds are flag sets below 128) -/
theorem C05_gen_kind_mask : ∀ k : Fin 128, w_kind_mask (k.val : Int) = .ret ((kindMask k.val : Nat) : Int) := by decide

/-- the OUTPUT filter `(kind & suf::OUTPUT) == 0` = the model's `isOutput` -/
theorem C05_gen_is_output : ∀ k : Fin 128, w_is_output (k.val : Int) = .ret (if isOutput k.val then 1 else 0) := by decide

/-- **The writer model renders the format strings of the tree under test.**  `writeSol` prints each of the eleven `print`s of include/mp/sol.h by
interpreting its format string as found in the source on this run (`writer_formats`; `{}` of an integer ↦ `encInt`/`encNat`, of a string ↦ the bytes,
`{:.16}` of a double ↦ `Codec.enc`, `\\n` ↦ 10; anything else is not rendered); the result is, for every codec and solution, the hand-written byte
layout `writeSolLit` that the round-trip lemmas analyse.  A changed format string changes `writeSol` (driver output, statements of `C05_roundtrip*`)
and this proof has to be redone. -/
theorem C05_gen_writer_formats {D : Type} (c : Codec D) (s : Sol D) : writeSol c s = writeSolLit c s := writeSol_eq_lit c s

/-- TRIPWIRE (detects change, proves nothing about behaviour): there are eleven prints, and `WriteSolFile` visits the suffix kinds in the order in which
`Sol.sufs` is documented to be concatenated -/
theorem C05_tripwire_writer_kind_order : writer_formats.length = 11 ∧ writer_kind_order = writerKindOrder := by decide

/-- for the record: in the tree as it is, the list `nonfiniteToks` (defined from the generated spellings) consists of these four texts -/
theorem C05_gen_nonfinite_spellings :
    nonfiniteToks = [str "inf", str "-inf", str "nan", str "-nan"] := by decide

end gen2

/-! ## non-finite values -/

/-- `decstring` rejects every non-finite text (the last consumed character is a letter) … -/
theorem C05_nonfinite_decstring : ∀ t ∈ nonfiniteToks, decstring (t ++ [10]) = none := by decide

/-- … so a non-finite dual/primal value makes the vector reader fail with Bad_Line (rejected with an error
code, never delivered as a different number) -/
theorem C05_nonfinite_rejected (t rest : Bytes) (ht : t ∈ nonfiniteToks) :
    readItem false .dbl (t ++ 10 :: rest) = (.error .badLine, rest) := by
  have hd := C05_nonfinite_decstring t ht
  have hc : (∀ c ∈ t, c ≠ 10 ∧ c ≠ 0) ∧ t.length ≤ 500 := by
    revert t; decide
  unfold readItem
  simp only [Bool.false_eq_true, if_false]
  rw [fgets_line 511 t rest (fun c h => (hc.1 c h).1) (by omega)]
  simp only
  rw [cstr_line t (fun c h => (hc.1 c h).2), hd]

/-- in a suffix line `<index> <value>` the same texts are consumed entirely by `strtod`
(read back as the same non-finite value) -/
theorem C05_nonfinite_suffix_same : ∀ t ∈ nonfiniteToks, strtodLen (32 :: t ++ [10]) = t.length + 1 := by decide

/-! ## whole files: concrete instances (kernel evaluation) and counterexamples to the side conditions -/

abbrev Tok := Bytes × Bool
def tokCodec : Codec Tok := ⟨fun t => t.1, fun t => t.2⟩
def tk (s : String) : Tok := (str s, false)
def zero : Tok := (str "0", true)

/-- message `hi\n\nthere`, 3 options, 1 dual, 2 primals, objno 1, status 100, an int suffix with a
two-line table and a real suffix; the non-OUTPUT suffix `skip` is not written -/
def sol1 : Sol Tok :=
  ⟨str "hi\n\nthere", [1, 0, 7], 2, 3, [tk "0.5"], [tk "1", tk "-2.25e-07"], 1, 100,
   [⟨16, str "sstatus", str "0\tnone\n1\tbas", [0, 3, 0, 1], []⟩,
    ⟨0, str "skip", [], [5], []⟩,
    ⟨21, str "dual2", [], [], [zero, tk "1e+100"]⟩]⟩

theorem C05_roundtrip_instance :
    readSol true false 3 2 readAll (writeSol tokCodec sol1) =
      ⟨.ok, [.msg (str "hi\n \nthere\n") 0,
             .options [3, 1, 0, 7, 2, 1, 3, 2] false [],
             .dual false ⟨1, [⟨0, str "0.5"⟩], .ok, 0⟩,
             .primal false ⟨2, [⟨0, str "1"⟩, ⟨0, str "-2.25e-07"⟩], .ok, 0⟩,
             .objno false (str "0") (str " 100"),
             .suffix false 0 8 13 (str "sstatus") (str "0\tnone\n1\tbas") ⟨2, [⟨1, str " 3"⟩, ⟨3, str " 1"⟩], .ok, 0⟩,
             .suffix false 5 6 0 (str "dual2") [] ⟨1, [⟨1, str " 1e+100"⟩], .ok, 0⟩], false⟩ := by
  decide

/-- the same file read by the reader before 602adf1 gives the same result -/
theorem C05_roundtrip_instance_before_fix :
    readSol false false 3 2 readAll (writeSol tokCodec sol1) = readSol true false 3 2 readAll (writeSol tokCodec sol1) := by
  decide

/-- empty message, no vectors, 9 options -/
def sol2 : Sol Tok := ⟨[], [1, 1, 1, 1, 1, 1, 1, 1, 1], 0, 0, [], [], 1, 0, []⟩
theorem C05_roundtrip_instance_empty :
    readSol true false 0 0 readAll (writeSol tokCodec sol2) =
      ⟨.ok, [.options [9, 1, 1, 1, 1, 1, 1, 1, 1, 1, 0, 0, 0, 0] false [], .objno false (str "0") (str " 0")], false⟩ := by
  decide

/-- **A8**: zero options.  `WriteSolFile` still prints `Options`; the reader then takes the four count
lines as options: `ncons = 5` is read as "5 options" (the dual vector is lost, a wrong options block is
delivered), any `ncons` outside 3..9 makes the file unreadable (Bad_Format). -/
def solNoOpt (ncons : Nat) (duals : List Tok) : Sol Tok := ⟨str "m", [], ncons, 1, duals, [tk "1"], 1, 0, []⟩
theorem C05_counterexample_zero_options :
    (readSol true false 1 5 readAll (writeSol tokCodec (solNoOpt 5 []))).code = .badLine ∧
    (readSol true false 1 0 readAll (writeSol tokCodec (solNoOpt 0 []))).code = .badFormat ∧
    (readSol true false 1 5 readAll (writeSol tokCodec (solNoOpt 3 [tk "1", tk "2", tk "3"]))).evs.take 2 =
      [.msg (str "m\n") 0, .options [3, 3, 1, 1, 1, 2, 3, 1] false []] := by decide

/-- one or two options: the reader insists on 3..9 -/
theorem C05_counterexample_two_options :
    (readSol true false 1 0 readAll (writeSol tokCodec ⟨str "m", [1, 1], 0, 1, [], [tk "1"], 1, 0, []⟩)).code = .badFormat := by decide

/-- **A9**: second option equal to 3 selects the vbtol form in the reader; the writer never writes it -/
theorem C05_counterexample_vbtol_flag :
    (readSol true false 1 0 readAll (writeSol tokCodec ⟨str "m", [1, 3, 1, 1], 0, 1, [], [tk "1"], 1, 0, []⟩)).code ≠ .ok := by decide

/-- a message line consisting of a single CR is taken for the terminating empty line -/
theorem C05_counterexample_cr_line :
    (readSol true false 0 0 readAll (writeSol tokCodec ⟨str "a\n\r\nb", [1, 1, 1], 0, 0, [], [], 1, 0, []⟩)).code ≠ .ok := by decide

/-- a message line of exactly 511 characters: the second `fgets` chunk is a lone `\n`, which the reader
takes for the terminator: the line comes back without its newline (and any following lines are lost) -/
theorem C05_counterexample_line_511 :
    (readSol true false 0 0 readAll (writeSol tokCodec ⟨List.replicate 511 120, [1, 1, 1], 0, 0, [], [], 1, 0, []⟩)).evs.head? =
      some (.msg (List.replicate 511 120) 0) := by decide

/-- backspaces at the start of a later line are stripped and counted as "initial" backspaces -/
theorem C05_counterexample_late_backspace :
    (readSol true false 0 0 readAll (writeSol tokCodec ⟨str "ab\n\x08\x08cd", [1, 1, 1], 0, 0, [], [], 1, 0, []⟩)).evs.head? =
      some (.msg (str "ab\ncd\n") 2) := by decide

/-- every byte string is a table in the sense of `SufOK`: lines without LF joined by LF, then a last line
(so the only real restrictions on tables are: no NUL, last line ≤ 509 characters and not ending in CR) -/
theorem C05_table_decomp (t : Bytes) :
    ∃ init last, t = joinNl init ++ last ∧ (∀ l ∈ init, ∀ c ∈ l, c ≠ 10) ∧ (∀ c ∈ last, c ≠ 10) := by
  induction t with
  | nil => exact ⟨[], [], by simp [joinNl], by simp, by simp⟩
  | cons c cs ih =>
    obtain ⟨init, last, e, h1, h2⟩ := ih
    by_cases hc : c = 10
    · subst hc
      exact ⟨[] :: init, last, by simp [joinNl, e], by
        intro l hl; rcases List.mem_cons.mp hl with rfl | hl
        · simp
        · exact h1 l hl, h2⟩
    · cases init with
      | nil =>
        refine ⟨[], c :: last, by simp [joinNl] at e ⊢; exact e, by simp, ?_⟩
        intro x hx; rcases List.mem_cons.mp hx with rfl | hx
        · exact hc
        · exact h2 x hx
      | cons l ls =>
        refine ⟨(c :: l) :: ls, last, by simp [joinNl] at e ⊢; exact e, ?_, h2⟩
        intro l' hl'; rcases List.mem_cons.mp hl' with rfl | hl'
        · intro x hx; rcases List.mem_cons.mp hx with rfl | hx
          · exact hc
          · exact h1 l (by simp) x hx
        · exact h1 l' (by simp [hl'])

/-- non-vacuity for `C05_file_reals_within_1e15`: the reals of `sol1` and what the handler receives for them (kernel evaluation): the zero entry of the real
suffix is not written, the suffix item carries the separating blank -/
theorem C05_file_reals_instance :
    (writtenReals tokCodec sol1).map tokCodec.enc = [str "0.5", str "1", str "-2.25e-07", str "1e+100"] ∧
    realItems (readSol true false 3 2 readAll (writeSol tokCodec sol1)).evs = [str "0.5", str "1", str "-2.25e-07", str " 1e+100"] := by
  decide

/-- the two assumptions are satisfiable for every non-zero value (exact conversions) -/
theorem C05_assumptions_satisfiable (x : Rat) (h : x ≠ 0) : G16 x x ∧ CorrRounded x x := by
  refine ⟨⟨rabs x / 1000000000000000, ?_, ?_, ?_⟩, ?_⟩
  · unfold rabs; grind
  · unfold rabs; grind
  · unfold rabs; grind
  · unfold CorrRounded rabs; grind

/-! non-vacuity of the hypotheses: the concrete solution `sol1` (message with an empty line, options,
vectors, an int suffix with a two-line table, a skipped suffix, a real suffix with a zero entry) meets `Wf` -/
example : Wf tokCodec sol1 3 2 where
  msg := by
    intro l hl
    have : l = str "hi" ∨ l = [32] ∨ l = str "there" := by revert l; decide
    rcases this with h | h | h <;> subst h <;> exact ⟨by decide, by decide, by decide, by decide, by decide⟩
  opts := ⟨1, 0, 7, [], rfl, by decide, by decide⟩
  ints := by decide
  duals := by
    intro v hv
    have : v = tk "0.5" := by simpa [sol1] using hv
    subst this; exact ⟨by decide, by decide, by decide⟩
  primals := by
    intro v hv
    have : v = tk "1" ∨ v = tk "-2.25e-07" := by simpa [sol1] using hv
    rcases this with h | h <;> subst h <;> exact ⟨by decide, by decide, by decide⟩
  nd := by decide
  np := by decide
  objno := by decide
  status := by decide
  sufs := by
    intro x hx ho
    have : x = ⟨16, str "sstatus", str "0\tnone\n1\tbas", [0, 3, 0, 1], []⟩ ∨ x = ⟨0, str "skip", [], [5], []⟩ ∨
        x = ⟨21, str "dual2", [], [], [zero, tk "1e+100"]⟩ := by simpa [sol1] using hx
    rcases this with h | h | h <;> subst h
    · refine ⟨⟨by decide, by decide, by decide⟩, ?_, by decide, .inr ⟨[str "0\tnone"], str "1\tbas", by decide,
        ⟨by decide, by decide, by decide, by decide⟩, by decide, by decide⟩⟩
      intro e he
      have := C05_int_entries_good [0, 3, 0, 1] (by decide) e (by simpa [Suf.entries, isFloat] using he)
      exact ⟨by have := this.1; simp at this; omega, this.2⟩
    · exact absurd ho (by decide)
    · refine ⟨⟨by decide, by decide, by decide⟩, ?_, by decide, .inl rfl⟩
      intro e he
      have : e = (1, str "1e+100") := by
        have : e ∈ [(1, str "1e+100")] := by
          have h2 : Suf.entries tokCodec ⟨21, str "dual2", [], [], [zero, tk "1e+100"]⟩ = [(1, str "1e+100")] := by decide
          rw [h2] at he; exact he
        simpa using this
      subst this
      exact ⟨by decide, ⟨by decide, by decide, by decide⟩⟩

/-- hypotheses of `C05_nonfinite_rejected` / the ranges of the `C05_gen_*` theorems are inhabited by the cases that matter -/
example : str "inf" ∈ nonfiniteToks ∧ str "-nan" ∈ nonfiniteToks := by decide
example : MpVerif.Gen.SolGuards.w_kind_mask 92 = .ret 12 ∧ MpVerif.Gen.SolGuards.w_is_output 92 = .ret 1 ∧
    MpVerif.Gen.SolGuards.w_is_output 44 = .ret 0 := by decide

/-! non-vacuity of the hypotheses -/
example : GoodNum (str "-2.25e-07") := ⟨by decide, by decide, by decide⟩
example : GoodNum (str "1.797693134862316e+308") := ⟨by decide, by decide, by decide⟩
example : ∀ l ∈ escLines (splitLines (str "hi\n\nthere")), GoodLine l := by
  intro l hl
  have : l = str "hi" ∨ l = [32] ∨ l = str "there" := by revert l; decide
  rcases this with h | h | h <;> subst h <;> exact ⟨by decide, by decide, by decide, by decide, by decide⟩

end MpVerif.C05

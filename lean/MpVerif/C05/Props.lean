import MpVerif.C05.Lemmas
/-!
# C05 — a written .sol file is read back as the same solution: property theorems

`writeSol c s` (C05/Model.lean) mirrors `mp::WriteSolFile` (include/mp/sol.h, src/sol.cc);
`readSol` (C14/Model.lean) mirrors `mp::SOLReader2::ReadSOLFile`.  Reals go through the abstract
codec `c`; the hypothesis on the printed text of a real is the explicit predicate `GoodNum`
(`decstring` consumes exactly the printed text), checked on every real of every run; the numeric
half of the codec (`strtod (enc x)` within the property tolerance of `x`) is TESTED by the harness.

Full-strength statement (kept visible; NOT proved as one theorem, and FALSE without the side
conditions listed below, each of which has a proved counterexample here and a replay on the real code):

  `C05_roundtrip : Wf c s → nprimals ≤ nVars → nduals ≤ nCons →
      readSol fx nVars nCons readAll (writeSol c s) = ⟨.ok, observable c s, false⟩`

What is proved for all inputs: the message block (`C05_message_roundtrip_partial`), the dual/primal
vectors of any length (`C05_vector_roundtrip_partial`), the treatment of non-finite reals
(`C05_nonfinite_*`); the composition of all sections is proved on concrete solutions
(`C05_roundtrip_instance*`, by kernel evaluation) and compared with the real writer and reader on every
run (bytes of the file and events).  Missing for the single theorem: the decimal-integer lemmas
(`strtol`/`Lget`/`strtod` scanning `encInt`) and the symbolic execution of the options and suffix sections.
-/
namespace MpVerif.C05
open MpVerif.C14
set_option maxRecDepth 100000

/-! ## message -/

/-- the lines the reader will see: interior empty lines are written as a single space, a final empty
line is the terminator itself -/
def escLines : List Bytes → List Bytes
  | [] => []
  | [l] => if l = [] then [] else [l]
  | l :: l' :: ls => (if l = [] then [32] else l) :: escLines (l' :: ls)

/-- what follows the terminating empty line (one more `\n` when the message ends with a newline) -/
def tailNl : List Bytes → Bytes
  | [] => [10]
  | [l] => if l = [] then [10] else []
  | _ :: l' :: ls => tailNl (l' :: ls)

theorem writeMsgLines_eq (ls : List Bytes) :
    writeMsgLines ls = (escLines ls).flatMap (· ++ [10]) ++ 10 :: tailNl ls := by
  induction ls with
  | nil => simp [writeMsgLines, escLines, tailNl]
  | cons l ls ih =>
    cases ls with
    | nil =>
      by_cases h : l = []
      · simp [writeMsgLines, escLines, tailNl, h]
      · simp [writeMsgLines, escLines, tailNl, h]
    | cons l' ls =>
      simp only [writeMsgLines, escLines, tailNl, ih, List.flatMap_cons]
      by_cases h : l = [] <;> simp [h]

/-- the message as `OnSolveMessage` receives it -/
def msgRead (msg : Bytes) : Bytes := (escLines (splitLines msg)).flatMap (· ++ [10])

/-- **Message block.**  For every message whose (escaped) lines are `GoodLine`s, the reader's message loop
run on what `WriteMessage` printed, followed by anything, returns the message line by line (empty
interior lines as a single space: the format's reserved terminator), counts no backspaces and stops
exactly behind the terminating empty line. -/
theorem C05_message_roundtrip_partial (msg rest : Bytes) (f : Nat)
    (h : ∀ l ∈ escLines (splitLines msg), GoodLine l) (hf : (escLines (splitLines msg)).length < f) :
    msgText f (writeMessage msg ++ rest) ⟨[], 0, true⟩ =
      .ok (⟨msgRead msg, 0, true⟩, tailNl (splitLines msg) ++ rest) := by
  unfold writeMessage msgRead
  rw [writeMsgLines_eq, List.append_assoc]
  have := msgText_lines (escLines (splitLines msg)) h (tailNl (splitLines msg) ++ rest) ⟨[], 0, true⟩ rfl f hf
  simpa using this

/-! ## vectors -/

/-- **Dual / primal vectors of any length.**  If the text printed for every value satisfies the codec
hypothesis `GoodNum`, a read-everything handler offered `vs.length` values receives exactly the printed
texts, in order, with status OK and nothing remaining, and the reader stands right behind the vector. -/
theorem C05_vector_roundtrip_partial {D : Type} (c : Codec D) (vs : List D) (rest : Bytes)
    (h : ∀ v ∈ vs, GoodNum (c.enc v)) :
    runVec false .dbl .all vs.length (writeVals c vs ++ rest) =
      (⟨vs.length, vs.map (fun v => ⟨0, c.enc v⟩), .ok, 0⟩, rest) := by
  unfold runVec
  have := vecLoop_vals c vs h rest 0
  simp only [Nat.add_zero] at this
  simp [this]

/-! ## non-finite values -/

/-- the four texts fmt prints for non-finite doubles -/
def nonfiniteToks : List Bytes := [str "inf", str "-inf", str "nan", str "-nan"]

/-- `decstring` rejects every non-finite text (the last consumed character is a letter) … -/
theorem C05_nonfinite_decstring : ∀ t ∈ nonfiniteToks, decstring (t ++ [10]) = none := by decide

/-- … so a non-finite dual/primal value makes the vector reader fail with Bad_Line (rejected with an error
code, never delivered as a different number) -/
theorem C05_nonfinite_rejected (t rest : Bytes) (ht : t ∈ nonfiniteToks) :
    readItem false .dbl (t ++ 10 :: rest) = (.error .badLine, rest) := by
  have hd := C05_nonfinite_decstring t ht
  have hc : (∀ c ∈ t, c ≠ 10 ∧ c ≠ 0) ∧ t.length ≤ 500 := by
    revert t; decide
  unfold readItem
  simp only [Bool.false_eq_true, if_false]
  rw [fgets_line 511 t rest (fun c h => (hc.1 c h).1) (by omega)]
  simp only
  rw [cstr_line t (fun c h => (hc.1 c h).2), hd]

/-- in a suffix line `<index> <value>` the same texts are consumed entirely by `strtod`
(read back as the same non-finite value) -/
theorem C05_nonfinite_suffix_same : ∀ t ∈ nonfiniteToks, strtodLen (32 :: t ++ [10]) = t.length + 1 := by decide

/-! ## whole files: concrete instances (kernel evaluation) and counterexamples to the side conditions -/

abbrev Tok := Bytes × Bool
def tokCodec : Codec Tok := ⟨fun t => t.1, fun t => t.2⟩
def readAll : Policy := ⟨0, .all, .all, .all⟩
def tk (s : String) : Tok := (str s, false)
def zero : Tok := (str "0", true)

/-- message `hi\n\nthere`, 3 options, 1 dual, 2 primals, objno 1, status 100, an int suffix with a
two-line table and a real suffix; the non-OUTPUT suffix `skip` is not written -/
def sol1 : Sol Tok :=
  ⟨str "hi\n\nthere", [1, 0, 7], 2, 3, [tk "0.5"], [tk "1", tk "-2.25e-07"], 1, 100,
   [⟨16, str "sstatus", str "0\tnone\n1\tbas", [0, 3, 0, 1], []⟩,
    ⟨0, str "skip", [], [5], []⟩,
    ⟨21, str "dual2", [], [], [zero, tk "1e+100"]⟩]⟩

theorem C05_roundtrip_instance :
    readSol false 3 2 readAll (writeSol tokCodec sol1) =
      ⟨.ok, [.msg (str "hi\n \nthere\n") 0,
             .options [3, 1, 0, 7, 2, 1, 3, 2] false [],
             .dual false ⟨1, [⟨0, str "0.5"⟩], .ok, 0⟩,
             .primal false ⟨2, [⟨0, str "1"⟩, ⟨0, str "-2.25e-07"⟩], .ok, 0⟩,
             .objno false (str "0") (str " 100"),
             .suffix false 0 8 13 (str "sstatus") (str "0\tnone\n1\tbas") ⟨2, [⟨1, str " 3"⟩, ⟨3, str " 1"⟩], .ok, 0⟩,
             .suffix false 5 6 0 (str "dual2") [] ⟨1, [⟨1, str " 1e+100"⟩], .ok, 0⟩], false⟩ := by
  decide

/-- the same file read by the patched reader (repo_patches/C14-sol-reader-bounds.diff) -/
theorem C05_roundtrip_instance_fixed :
    readSol true 3 2 readAll (writeSol tokCodec sol1) = readSol false 3 2 readAll (writeSol tokCodec sol1) := by
  decide

/-- empty message, no vectors, 9 options -/
def sol2 : Sol Tok := ⟨[], [1, 1, 1, 1, 1, 1, 1, 1, 1], 0, 0, [], [], 1, 0, []⟩
theorem C05_roundtrip_instance_empty :
    readSol false 0 0 readAll (writeSol tokCodec sol2) =
      ⟨.ok, [.options [9, 1, 1, 1, 1, 1, 1, 1, 1, 1, 0, 0, 0, 0] false [], .objno false (str "0") (str " 0")], false⟩ := by
  decide

/-- **A8**: zero options.  `WriteSolFile` still prints `Options`; the reader then takes the four count
lines as options: `ncons = 5` is read as "5 options" (the dual vector is lost, a wrong options block is
delivered), any `ncons` outside 3..9 makes the file unreadable (Bad_Format). -/
def solNoOpt (ncons : Nat) (duals : List Tok) : Sol Tok := ⟨str "m", [], ncons, 1, duals, [tk "1"], 1, 0, []⟩
theorem C05_counterexample_zero_options :
    (readSol false 1 5 readAll (writeSol tokCodec (solNoOpt 5 []))).code = .badLine ∧
    (readSol false 1 0 readAll (writeSol tokCodec (solNoOpt 0 []))).code = .badFormat ∧
    (readSol false 1 5 readAll (writeSol tokCodec (solNoOpt 3 [tk "1", tk "2", tk "3"]))).evs.take 2 =
      [.msg (str "m\n") 0, .options [3, 3, 1, 1, 1, 2, 3, 1] false []] := by decide

/-- one or two options: the reader insists on 3..9 -/
theorem C05_counterexample_two_options :
    (readSol false 1 0 readAll (writeSol tokCodec ⟨str "m", [1, 1], 0, 1, [], [tk "1"], 1, 0, []⟩)).code = .badFormat := by decide

/-- **A9**: second option equal to 3 selects the vbtol form in the reader; the writer never writes it -/
theorem C05_counterexample_vbtol_flag :
    (readSol false 1 0 readAll (writeSol tokCodec ⟨str "m", [1, 3, 1, 1], 0, 1, [], [tk "1"], 1, 0, []⟩)).code ≠ .ok := by decide

/-- a message line consisting of a single CR is taken for the terminating empty line -/
theorem C05_counterexample_cr_line :
    (readSol false 0 0 readAll (writeSol tokCodec ⟨str "a\n\r\nb", [1, 1, 1], 0, 0, [], [], 1, 0, []⟩)).code ≠ .ok := by decide

/-- a message line of exactly 511 characters: the second `fgets` chunk is a lone `\n`, which the reader
takes for the terminator: the line comes back without its newline (and any following lines are lost) -/
theorem C05_counterexample_line_511 :
    (readSol false 0 0 readAll (writeSol tokCodec ⟨List.replicate 511 120, [1, 1, 1], 0, 0, [], [], 1, 0, []⟩)).evs.head? =
      some (.msg (List.replicate 511 120) 0) := by decide

/-- backspaces at the start of a later line are stripped and counted as "initial" backspaces -/
theorem C05_counterexample_late_backspace :
    (readSol false 0 0 readAll (writeSol tokCodec ⟨str "ab\n\x08\x08cd", [1, 1, 1], 0, 0, [], [], 1, 0, []⟩)).evs.head? =
      some (.msg (str "ab\ncd\n") 2) := by decide

/-! non-vacuity of the hypotheses -/
example : GoodNum (str "-2.25e-07") := ⟨by decide, by decide, by decide⟩
example : GoodNum (str "1.797693134862316e+308") := ⟨by decide, by decide, by decide⟩
example : ∀ l ∈ escLines (splitLines (str "hi\n\nthere")), GoodLine l := by
  intro l hl
  have : l = str "hi" ∨ l = [32] ∨ l = str "there" := by revert l; decide
  rcases this with h | h | h <;> subst h <;> exact ⟨by decide, by decide, by decide, by decide, by decide⟩

end MpVerif.C05

import MpVerif.C14.Model
import MpVerif.Gen.SolGuards
/-!
# C05 — model of the SOL writer (`include/mp/sol.h`, `src/sol.cc`)

`writeSol c s` is the byte string `mp::WriteSolFile` produces for the solution `s`:
`internal::WriteMessage`, the `Options` block exactly as printed, the counts line, the values,
`objno k-1 code`, and `internal::WriteSuffixes` for the four suffix kinds.

Reals go through an abstract codec `c : Codec D` (`enc` = what fmt's `'{:.16}'` prints); the
decimal ⇄ binary conversion itself is outside the model (DESIGN §1 "Numbers").  Integers are
printed by the concrete `encInt` (fmt's `'{}'` for integral arguments).
-/
namespace MpVerif.C05
open MpVerif.C14

/-! ## integers -/

/-- decimal digits, most significant first (structural on a fuel argument so that the kernel can evaluate it) -/
def encNatAux : Nat → Nat → Bytes
  | 0, n => [48 + n % 10]
  | f+1, n => if n < 10 then [48 + n] else encNatAux f (n / 10) ++ [48 + n % 10]

def encNat (n : Nat) : Bytes := encNatAux n n

def encInt (i : Int) : Bytes :=
  if i < 0 then 45 :: encNat i.natAbs else encNat i.natAbs

/-! ## reals -/

structure Codec (D : Type) where
  enc : D → Bytes        -- fmt '{:.16}'
  isZero : D → Bool      -- `value == 0` (such suffix entries are not written)

/-! ## solutions as `WriteSolFile` sees them -/

/-- one suffix of a `SuffixSet`, values dense (index = position) -/
structure Suf (D : Type) where
  kind : Nat             -- full kind flags (`suf::Kind | FLOAT | IODECL | OUTPUT | …`)
  name : Bytes
  table : Bytes          -- `[]` = no table
  ivals : List Int       -- used when `kind & FLOAT = 0`
  dvals : List D         -- used when `kind & FLOAT ≠ 0`

structure Sol (D : Type) where
  msg : Bytes            -- `sol.message()` (a C string: no NUL)
  options : List Int
  ncons : Nat            -- `num_algebraic_cons()`
  nvars : Nat            -- `num_vars()`
  duals : List D
  primals : List D
  objno : Int            -- `sol.objno()` (the file carries `objno - 1`)
  status : Int
  sufs : List (Suf D)    -- `suffixes(VAR)`, `(CON)`, `(OBJ)`, `(PROBLEM)` concatenated, each in set order

/-! ## `internal::WriteMessage` -/

/-- split a C string at `\n` (always at least one, possibly empty, last line) -/
def splitLines : Bytes → List Bytes
  | [] => [[]]
  | c :: cs =>
    if c = 10 then [] :: splitLines cs
    else match splitLines cs with
      | [] => [[c]]           -- unreachable
      | l :: ls => (c :: l) :: ls

def writeMsgLines : List Bytes → Bytes
  | [] => [10, 10]                        -- unreachable (`splitLines` is never empty)
  | [l] => l ++ [10, 10]                  -- last line: text, `\n`, and the terminating empty line
  | l :: ls => (if l = [] then [32, 10] else l ++ [10]) ++ writeMsgLines ls

def writeMessage (msg : Bytes) : Bytes := writeMsgLines (splitLines msg)

/-! ## suffixes -/

def isFloat (kind : Nat) : Bool := (kind / 4) % 2 = 1
def isOutput (kind : Nat) : Bool := (kind / 16) % 2 = 1
/-- `kind & (SUFFIX_KIND_MASK | FLOAT | IODECL)` -/
def kindMask (kind : Nat) : Nat := kind % 16

def countNl (t : Bytes) : Nat := (t.filter (· = 10)).length

/-- nonzero entries `(index, printed value)` of a suffix -/
def sparseI : Nat → List Int → List (Nat × Bytes)
  | _, [] => []
  | i, v :: vs => if v = 0 then sparseI (i + 1) vs else (i, encInt v) :: sparseI (i + 1) vs

def sparseD {D : Type} (c : Codec D) : Nat → List D → List (Nat × Bytes)
  | _, [] => []
  | i, v :: vs => if c.isZero v then sparseD c (i + 1) vs else (i, c.enc v) :: sparseD c (i + 1) vs

def Suf.entries {D : Type} (c : Codec D) (s : Suf D) : List (Nat × Bytes) :=
  if isFloat s.kind then sparseD c 0 s.dvals else sparseI 0 s.ivals

def writeEntries : List (Nat × Bytes) → Bytes
  | [] => []
  | (i, t) :: r => encNat i ++ [32] ++ t ++ [10] ++ writeEntries r

def sp : Bytes := [32]
def nl : Bytes := [10]

def writeSuffix {D : Type} (c : Codec D) (s : Suf D) : Bytes :=
  if !isOutput s.kind then [] else
  let es := s.entries c
  let tablen := if s.table = [] then 0 else s.table.length + 1
  let tablines := if s.table = [] then 0 else 1 + countNl s.table
  str "suffix " ++ encNat (kindMask s.kind) ++ sp ++ encNat es.length ++ sp ++ encNat (s.name.length + 1) ++ sp
    ++ encNat tablen ++ sp ++ encNat tablines ++ nl ++ s.name ++ nl
    ++ (if s.table = [] then [] else s.table ++ nl)
    ++ writeEntries es

def writeSuffixes {D : Type} (c : Codec D) : List (Suf D) → Bytes
  | [] => []
  | s :: r => writeSuffix c s ++ writeSuffixes c r

/-! ## `WriteSolFile` -/

def writeIntLines : List Int → Bytes
  | [] => []
  | i :: r => encInt i ++ nl ++ writeIntLines r

def writeVals {D : Type} (c : Codec D) : List D → Bytes
  | [] => []
  | v :: r => c.enc v ++ nl ++ writeVals c r

/-- the file with every `print` written out by hand — the form the lemmas work with; `writeSol` below renders the same prints from the
format strings of the tree under test and is proved equal to this one (`writeSol_eq_lit`, C05/LemmasAll.lean) -/
def writeSolLit {D : Type} (c : Codec D) (s : Sol D) : Bytes :=
  writeMessage s.msg
  ++ str "Options" ++ nl
  ++ (if s.options.length = 0 then [] else encNat s.options.length ++ nl ++ writeIntLines s.options)
  ++ encNat s.ncons ++ nl ++ encNat s.duals.length ++ nl ++ encNat s.nvars ++ nl ++ encNat s.primals.length ++ nl
  ++ writeVals c s.duals
  ++ writeVals c s.primals
  ++ str "objno " ++ encInt (s.objno - 1) ++ sp ++ encInt s.status ++ nl
  ++ writeSuffixes c s.sufs

/-! ## the same file, rendered from the format strings of the tree under test

`MpVerif.Gen.SolGuards.writer_formats` is the list of format strings of every `print` in include/mp/sol.h, in source order, re-read from the
source on every run (translators/gen_solguards.py).  `fmtGo` is a small interpreter of the fmt syntax that occurs there (`\n`, `{}`, `{:.16}`,
`{0}`…`{9}`); anything else is not rendered (`none`).  `writeSol` prints every piece through it, so a changed format string changes the bytes of the
model (driver, correspondence) and the statements of all round-trip theorems. -/

inductive FArg (D : Type) where
  | nat (n : Nat)
  | int (i : Int)
  | txt (b : Bytes)
  | real (d : D)

/-- `{}` of an integer / a string, `{:.16}` of a double; every other combination is outside the model -/
def renderArg {D : Type} (c : Codec D) (spec : List Char) : FArg D → Option Bytes
  | .nat n => if spec = [] then some (encNat n) else none
  | .int i => if spec = [] then some (encInt i) else none
  | .txt b => if spec = [] then some b else none
  | .real d => if spec = [':', '.', '1', '6'] then some (c.enc d) else none

def optCat : Option Bytes → Option Bytes → Option Bytes
  | some a, some b => some (a ++ b)
  | _, _ => none

/-- state `none`: literal text; `some acc`: inside `{…}` (characters so far, reversed).  The strings are spelled as in the C++ source (`\n` is two characters). -/
def fmtGo {D : Type} (c : Codec D) (args : List (FArg D)) : List Char → Option (List Char) → Nat → Option Bytes
  | [], none, _ => some []
  | [], some _, _ => none
  | ch :: r, some acc, auto =>
    if ch = '}' then
      match acc.reverse with
      | [d] =>
        if d.isDigit then
          match args[d.toNat - 48]? with
          | some a => optCat (renderArg c [] a) (fmtGo c args r none auto)
          | none => none
        else none
      | spec =>
        match args[auto]? with
        | some a => optCat (renderArg c spec a) (fmtGo c args r none (auto + 1))
        | none => none
    else fmtGo c args r (some (ch :: acc)) auto
  | '\\' :: 'n' :: r, none, auto => optCat (some [10]) (fmtGo c args r none auto)
  | ch :: r, none, auto =>
    if ch = '{' then fmtGo c args r (some []) auto
    else if ch = '\\' ∨ ch = '}' ∨ ch.toNat ≥ 128 then none
    else optCat (some [ch.toNat]) (fmtGo c args r none auto)

/-- the `k`-th `print` of include/mp/sol.h applied to its arguments -/
def fmtK {D : Type} (c : Codec D) (k : Nat) (args : List (FArg D)) : Bytes :=
  match MpVerif.Gen.SolGuards.writer_formats[k]? with
  | some f => (fmtGo c args f.toList none 0).getD (str "<format not rendered>")
  | none => str "<no such print>"

/-- `SuffixValueWriter::Visit(int, int)`: print 0 -/
def wEntriesI {D : Type} (c : Codec D) : Nat → List Int → Bytes
  | _, [] => []
  | i, v :: vs => if v = 0 then wEntriesI c (i + 1) vs else fmtK c 0 [.nat i, .int v] ++ wEntriesI c (i + 1) vs

/-- `SuffixValueWriter::Visit(int, double)`: print 1 -/
def wEntriesD {D : Type} (c : Codec D) : Nat → List D → Bytes
  | _, [] => []
  | i, v :: vs => if c.isZero v then wEntriesD c (i + 1) vs else fmtK c 1 [.nat i, .real v] ++ wEntriesD c (i + 1) vs

/-- `WriteSuffixes`, one suffix: prints 2 (header and name) and 3 (table) -/
def wSuffix {D : Type} (c : Codec D) (s : Suf D) : Bytes :=
  if !isOutput s.kind then [] else
  let tablen := if s.table = [] then 0 else s.table.length + 1
  let tablines := if s.table = [] then 0 else 1 + countNl s.table
  fmtK c 2 [.nat (kindMask s.kind), .nat (s.entries c).length, .nat (s.name.length + 1), .nat tablen, .nat tablines, .txt s.name]
    ++ (if s.table = [] then [] else fmtK c 3 [.txt s.table])
    ++ (if isFloat s.kind then wEntriesD c 0 s.dvals else wEntriesI c 0 s.ivals)

def wSuffixes {D : Type} (c : Codec D) : List (Suf D) → Bytes
  | [] => []
  | s :: r => wSuffix c s ++ wSuffixes c r

def wIntLines {D : Type} (c : Codec D) : List Int → Bytes
  | [] => []
  | i :: r => fmtK c 6 [.int i] ++ wIntLines c r

def wVals {D : Type} (c : Codec D) (k : Nat) : List D → Bytes
  | [] => []
  | v :: r => fmtK c k [.real v] ++ wVals c k r

/-- `mp::WriteSolFile`: prints 4 (`Options`), 5 (count), 6 (each option), 7 (the four counts), 8 / 9 (dual / primal value), 10 (`objno`) -/
def writeSol {D : Type} (c : Codec D) (s : Sol D) : Bytes :=
  writeMessage s.msg
  ++ fmtK c 4 []
  ++ (if s.options.length = 0 then [] else fmtK c 5 [.nat s.options.length] ++ wIntLines c s.options)
  ++ fmtK c 7 [.nat s.ncons, .nat s.duals.length, .nat s.nvars, .nat s.primals.length]
  ++ wVals c 8 s.duals
  ++ wVals c 9 s.primals
  ++ fmtK c 10 [.int (s.objno - 1), .int s.status]
  ++ wSuffixes c s.sufs

/-- order of the suffix kinds in `WriteSolFile` (the order of `Sol.sufs`) -/
def writerKindOrder : List String := ["suf::VAR", "suf::CON", "suf::OBJ", "suf::PROBLEM"]

/-- executable form of the codec hypothesis `GoodNum` (C05/Lemmas.lean): evaluated by the driver on every real -/
def goodNumB (t : Bytes) : Bool :=
  decide (t.length ≤ 500) && t.all (fun c => c != 10 && c != 0) && (decstring (t ++ [10]) == some t)

/-- executable form of the codec hypothesis `GoodSufTok` (C05/LemmasSec.lean) for values printed in suffix lines -/
def goodSufTokB (t : Bytes) : Bool :=
  decide (t.length ≤ 400) && t.all (fun c => c != 10 && c != 0) && (strtodLen (32 :: t ++ [10]) == t.length + 1)

/-- the printed texts of all real-valued entries of the suffixes that are written -/
def realEntryToks {D : Type} (c : Codec D) (sufs : List (Suf D)) : List Bytes :=
  sufs.flatMap (fun s => if isOutput s.kind && isFloat s.kind then (s.entries c).map (·.2) else [])

end MpVerif.C05

import MpVerif.C05.LemmasSuf
/-! # C05 — assembling the sections: suffix list, then the whole file -/
namespace MpVerif.C05
open MpVerif.C14

/-! ## suffix list -/

theorem countNl_join (init : List Bytes) (last : Bytes) (hi : ∀ l ∈ init, ∀ c ∈ l, c ≠ 10) (hl : ∀ c ∈ last, c ≠ 10) :
    countNl (joinNl init ++ last) = init.length := by
  unfold countNl
  induction init with
  | nil =>
    simp only [joinNl, List.flatMap_nil, List.nil_append, List.length_nil]
    rw [List.length_eq_zero_iff, List.filter_eq_nil_iff]
    intro c hc; simpa using hl c hc
  | cons l ls ih =>
    have h1 : (l.filter (· = 10)) = [] := by
      rw [List.filter_eq_nil_iff]; intro c hc; simpa using hi l (by simp) c hc
    simp only [joinNl, List.flatMap_cons, List.append_assoc, List.filter_append, h1, List.nil_append, List.length_cons]
    have := ih (fun x hx => hi x (by simp [hx]))
    simp only [joinNl, List.filter_append, List.length_append] at this
    simpa using this

theorem length_le_joinNl (ls : List Bytes) : ls.length ≤ (joinNl ls).length := by
  induction ls with
  | nil => simp [joinNl]
  | cons l ls ih => simp only [joinNl, List.flatMap_cons, List.length_append, List.length_cons, List.length_nil] at ih ⊢; omega

theorem writeSuffix_eq {D : Type} (c : Codec D) (s : Suf D) (ho : isOutput s.kind = true) :
    writeSuffix c s = str "suffix " ++ hdrFields (kindMask s.kind) (s.entries c).length (s.name.length + 1)
        (if s.table = [] then 0 else s.table.length + 1) (if s.table = [] then 0 else 1 + countNl s.table) ++
      10 :: (s.name ++ 10 :: ((if s.table = [] then [] else s.table ++ [10]) ++ (writeEntries (s.entries c) ++ []))) := by
  unfold writeSuffix hdrFields
  simp [ho, sp, nl, List.append_assoc]

/-- number of suffixes that are written -/
def outCount {D : Type} (sufs : List (Suf D)) : Nat := (sufs.filter (fun s => isOutput s.kind)).length

theorem gsuf_sufs {D : Type} (fx : Bool) (c : Codec D) (sufs : List (Suf D))
    (h : ∀ s ∈ sufs, isOutput s.kind = true → SufOK c s) :
    ∀ (f : Nat) (buf : Buf), outCount sufs < f →
      gsuf fx f readAll buf (writeSuffixes c sufs) = ⟨.ok, sufs.flatMap (obsSuf c), false⟩ := by
  induction sufs with
  | nil =>
    intro f buf hf
    cases f with
    | zero => simp [outCount] at hf
    | succ f => simp [writeSuffixes, gsuf, fgets, done]
  | cons s sufs ih =>
    intro f buf hf
    have ih' := ih (fun x hx => h x (by simp [hx]))
    by_cases ho : isOutput s.kind = true
    · have hf : outCount sufs + 1 < f := by simpa [outCount, ho] using hf
      cases f with
      | zero => omega
      | succ f =>
        have ok := h s (by simp) ho
        simp only [writeSuffixes, List.flatMap_cons]
        rw [writeSuffix_eq c s ho]
        have hkm : kindMask s.kind ≤ 15 := by unfold kindMask; omega
        rcases ok.table with ht | ⟨init, last, ht, hgt, hlen, hne⟩
        · -- no table
          simp only [ht, if_true, List.nil_append, List.append_nil, List.append_assoc, List.cons_append]
          have hb : ∀ b, ∃ b', gsufBody fx b (s.name.length + 1) 0 0
              (s.name ++ 10 :: ([] ++ (writeEntries (s.entries c) ++ writeSuffixes c sufs))) =
              .ok (s.name, [], writeEntries (s.entries c) ++ writeSuffixes c sufs, b') := by
            intro b; simpa using gsufBody_notable fx b s.name (writeEntries (s.entries c) ++ writeSuffixes c sufs) 0 ok.name
          obtain ⟨b', hstep⟩ := gsuf_step fx f buf (kindMask s.kind) s.name 0 0 [] [] (s.entries c) (writeSuffixes c sufs)
            hkm ok.name ok.entries ok.count (by omega) (by omega) (.inl rfl) hb
          simp only [List.nil_append, List.append_assoc, List.cons_append] at hstep
          have : readAll = ⟨0, .all, .all, .all⟩ := rfl
          rw [this, hstep, ← this, ih' f b' (by omega)]
          simp [obsSuf, ho, ht, Result.cons]
        · -- with a table
          have hcnt : countNl (joinNl init ++ last) = init.length :=
            countNl_join init last (fun l hl c hc => (hgt.init_clean l hl c hc).1) (fun c hc => (hgt.last_clean c hc).1)
          have hil : init.length ≤ (joinNl init).length := length_le_joinNl init
          simp only [hne, if_false]
          rw [ht] at hlen ⊢
          rw [hcnt]
          have hb : ∀ b, ∃ b', gsufBody fx b (s.name.length + 1) ((joinNl init ++ last).length + 1) (1 + init.length)
              (s.name ++ 10 :: ((joinNl init ++ last ++ [10]) ++ (writeEntries (s.entries c) ++ writeSuffixes c sufs))) =
              .ok (s.name, joinNl init ++ last, writeEntries (s.entries c) ++ writeSuffixes c sufs, b') := by
            intro b
            have := gsufBody_table fx b s.name init last (writeEntries (s.entries c) ++ writeSuffixes c sufs) ok.name hgt
            rw [Nat.add_comm 1 init.length]
            simpa [List.append_assoc] using this
          obtain ⟨b', hstep⟩ := gsuf_step fx f buf (kindMask s.kind) s.name ((joinNl init ++ last).length + 1) (1 + init.length)
            (joinNl init ++ last ++ [10]) (joinNl init ++ last) (s.entries c) (writeSuffixes c sufs)
            hkm ok.name ok.entries ok.count (by omega) (by simp only [List.length_append] at hlen ⊢; omega)
            (.inr ⟨by omega, by simp only [List.length_append]; omega⟩) hb
          simp only [List.append_nil, List.append_assoc, List.cons_append, List.nil_append] at hstep ⊢
          have : readAll = ⟨0, .all, .all, .all⟩ := rfl
          rw [this, hstep, ← this, ih' f b' (by omega)]
          have hne' : ¬ (joinNl init ++ last = []) := by rw [← ht]; exact hne
          simp [obsSuf, ho, ht, hne', Result.cons]
    · have hw : writeSuffix c s = [] := by unfold writeSuffix; simp [ho]
      have ho' : obsSuf c s = [] := by unfold obsSuf; simp [ho]
      simp only [writeSuffixes, hw, List.nil_append, List.flatMap_cons, ho']
      exact ih' f buf (by simpa [outCount, ho] using hf)

/-! ## message -/

theorem writeMsgLines_eq (ls : List Bytes) :
    writeMsgLines ls = (escLines ls).flatMap (· ++ [10]) ++ 10 :: tailNl ls := by
  induction ls with
  | nil => simp [writeMsgLines, escLines, tailNl]
  | cons l ls ih =>
    cases ls with
    | nil =>
      by_cases h : l = []
      · simp [writeMsgLines, escLines, tailNl, h]
      · simp [writeMsgLines, escLines, tailNl, h]
    | cons l' ls =>
      simp only [writeMsgLines, escLines, tailNl, ih, List.flatMap_cons]
      by_cases h : l = [] <;> simp [h]

theorem message_roundtrip (msg rest : Bytes) (f : Nat)
    (h : ∀ l ∈ escLines (splitLines msg), GoodLine l) (hf : (escLines (splitLines msg)).length < f) :
    msgText f (writeMessage msg ++ rest) ⟨[], 0, true⟩ =
      .ok (⟨msgRead msg, 0, true⟩, tailNl (splitLines msg) ++ rest) := by
  unfold writeMessage msgRead
  rw [writeMsgLines_eq, List.append_assoc]
  have := msgText_lines (escLines (splitLines msg)) h (tailNl (splitLines msg) ++ rest) ⟨[], 0, true⟩ rfl f hf
  simpa using this

theorem tailNl_cases (ls : List Bytes) : tailNl ls = [10] ∨ tailNl ls = [] := by
  induction ls with
  | nil => simp [tailNl]
  | cons l ls ih =>
    cases ls with
    | nil => by_cases h : l = [] <;> simp [tailNl, h]
    | cons l' ls => simpa [tailNl] using ih

theorem msgRead_clean (msg : Bytes) (h : ∀ l ∈ escLines (splitLines msg), GoodLine l) : ∀ c ∈ msgRead msg, c ≠ 0 := by
  intro c hc
  simp only [msgRead, List.mem_flatMap, List.mem_append, List.mem_cons, List.mem_nil_iff, or_false] at hc
  obtain ⟨l, hl, hc | hc⟩ := hc
  · exact ((h l hl).clean c hc).2
  · omega

/-! ## the whole file -/

theorem writeIntLines_append (xs ys : List Int) : writeIntLines (xs ++ ys) = writeIntLines xs ++ writeIntLines ys := by
  induction xs with
  | nil => simp [writeIntLines]
  | cons x xs ih => simp [writeIntLines, ih, List.append_assoc]

/-- the tail of the file after the options block -/
def afterOpts {D : Type} (c : Codec D) (s : Sol D) : Bytes :=
  writeVals c s.duals ++ (writeVals c s.primals ++
    (str "objno " ++ encInt (s.objno - 1) ++ 32 :: encInt s.status ++ 10 :: writeSuffixes c s.sufs))

theorem writeSol_eq {D : Type} (c : Codec D) (s : Sol D) (hne : s.options ≠ []) :
    writeSolLit c s = writeMessage s.msg ++ (str "Options" ++ 10 ::
      (writeIntLines (optInts s.options s.ncons s.duals.length s.nvars s.primals.length) ++ afterOpts c s)) := by
  have hl : ¬ (s.options.length = 0) := by
    cases h : s.options with
    | nil => exact absurd h hne
    | cons _ _ => simp
  unfold writeSolLit afterOpts optInts
  simp [hl, writeIntLines, writeIntLines_append, encInt_ofNat, nl, sp, List.append_assoc]

theorem readU32_ne6 (X rest : Bytes) (hlen : 4 ≤ X.length) (h0 : ∀ b ∈ X, b ≠ 0) (r : Bytes) :
    readU32 (X ++ rest) ≠ some (6, r) := by
  match X, hlen, h0 with
  | a :: b :: c :: d :: X', _, h0 =>
    have hb : b ≠ 0 := h0 b (by simp)
    unfold readU32 fread
    simp only [List.cons_append, List.length_cons]
    have : ¬ ((X' ++ rest).length + 1 + 1 + 1 + 1 < 4) := by omega
    simp only [this, if_false, List.take_succ_cons, List.take_zero, le32]
    intro h
    simp at h
    omega

theorem skipNl_tail (t : Bytes) (ht : t = [10] ∨ t = []) (rest : Bytes) :
    skipNl (t ++ 79 :: rest) = 79 :: rest := by
  rcases ht with h | h <;> subst h <;> simp [skipNl]

theorem getD_append_len (os l : List Int) (i : Nat) (d : Int) : (os ++ l).getD (os.length + i) d = l.getD i d := by
  induction os with
  | nil => simp
  | cons o os ih => simpa [Nat.succ_add] using ih

theorem outCount_le {D : Type} (c : Codec D) (sufs : List (Suf D)) : outCount sufs ≤ (writeSuffixes c sufs).length := by
  induction sufs with
  | nil => simp [outCount]
  | cons s sufs ih =>
    by_cases ho : isOutput s.kind = true
    · have : 1 ≤ (writeSuffix c s).length := by
        rw [writeSuffix_eq c s ho, strSuffix]; simp
      simp only [outCount, List.filter_cons, ho, if_true, List.length_cons, writeSuffixes, List.length_append] at ih ⊢
      omega
    · simp only [outCount, List.filter_cons, ho, writeSuffixes, List.length_append] at ih ⊢
      simp at ih ⊢; omega

def prependEvs (es : List Event) (r : Result) : Result := { r with evs := es ++ r.evs }

theorem runVec_vals {D : Type} (c : Codec D) (vs : List D) (rest : Bytes) (h : ∀ v ∈ vs, GoodNum (c.enc v)) :
    runVec false .dbl .all vs.length (writeVals c vs ++ rest) =
      (⟨vs.length, vs.map (fun v => ⟨0, c.enc v⟩), .ok, 0⟩, rest) := by
  unfold runVec
  have := vecLoop_vals c vs h rest 0
  simp only [Nat.add_zero] at this
  simp [this]

theorem primalPart_written {D : Type} (fx : Bool) (c : Codec D) (vs : List D) (T : Bytes) (h : ∀ v ∈ vs, GoodNum (c.enc v)) :
    primalPart fx readAll false vs.length (writeVals c vs ++ T) =
      prependEvs (vecEvs c (.primal false) vs) (textTail fx readAll T) := by
  unfold primalPart vecEvs
  simp only [Bool.false_eq_true, if_false]
  by_cases h0 : vs.length = 0
  · have : vs = [] := List.eq_nil_of_length_eq_zero h0
    subst this
    simp [writeVals, prependEvs]
  · simp only [h0, if_false]
    have hr := runVec_vals c vs T h
    have : readAll.primal = .all := rfl
    rw [this, hr]
    simp [afterVec, checkReader, Result.cons, prependEvs]

theorem dualPart_written {D : Type} (fx : Bool) (c : Codec D) (ds ps : List D) (T : Bytes)
    (hd : ∀ v ∈ ds, GoodNum (c.enc v)) (hp : ∀ v ∈ ps, GoodNum (c.enc v)) :
    dualPart fx readAll false ds.length ps.length (writeVals c ds ++ (writeVals c ps ++ T)) =
      prependEvs (vecEvs c (.dual false) ds ++ vecEvs c (.primal false) ps) (textTail fx readAll T) := by
  have hpp := primalPart_written fx c ps T hp
  unfold dualPart vecEvs
  by_cases h0 : ds.length = 0
  · have : ds = [] := List.eq_nil_of_length_eq_zero h0
    subst this
    simp only [List.length_nil, if_true, writeVals, List.nil_append, afterDual, Bool.false_eq_true, if_false, hpp]
    simp [vecEvs]
  · simp only [h0, if_false]
    have hr := runVec_vals c ds (writeVals c ps ++ T) hd
    have : readAll.dual = .all := rfl
    rw [this, hr]
    simp only [afterVec, checkReader]
    simp only [afterDual, Bool.false_eq_true, if_false, hpp]
    simp [Result.cons, prependEvs, vecEvs]

theorem body_written {D : Type} (fx fm : Bool) (c : Codec D) (s : Sol D) (nv nc : Nat) (w : Wf c s nv nc)
    (o0 o1 o2 : Int) (os : List Int) (ho : s.options = o0 :: o1 :: o2 :: os) :
    body fx fm nv nc readAll false
      (some ⟨optInts s.options s.ncons s.duals.length s.nvars s.primals.length, 3 + os.length, false, []⟩) (afterOpts c s) =
    ⟨.ok, [.options (optInts s.options s.ncons s.duals.length s.nvars s.primals.length) false []] ++
      (vecEvs c (.dual false) s.duals ++ vecEvs c (.primal false) s.primals) ++
      [.objno false (encInt (s.objno - 1)) (32 :: encInt s.status)] ++ s.sufs.flatMap (obsSuf c), false⟩ := by
  have hz1 : (⟨optInts s.options s.ncons s.duals.length s.nvars s.primals.length, 3 + os.length, false, []⟩ : Opts).z 1 = (s.duals.length : Int) := by
    unfold Opts.z optInts
    rw [ho]
    simp only [List.cons_append, List.length_cons]
    rw [show 3 + os.length + 1 + 1 = (os.length + 1) + 1 + 1 + 1 + 1 from by omega]
    simp only [List.getD_cons_succ]
    rw [show os.length + 1 = os.length + 1 from rfl, getD_append_len]
    simp
  have hz3 : (⟨optInts s.options s.ncons s.duals.length s.nvars s.primals.length, 3 + os.length, false, []⟩ : Opts).z 3 = (s.primals.length : Int) := by
    unfold Opts.z optInts
    rw [ho]
    simp only [List.cons_append, List.length_cons]
    rw [show 3 + os.length + 1 + 3 = (os.length + 3) + 1 + 1 + 1 + 1 from by omega]
    simp only [List.getD_cons_succ]
    rw [getD_append_len]
    simp
  have hnd := w.nd
  have hnp := w.np
  unfold body preCheck optEvent
  simp only [hz1, hz3]
  have h1 : ¬ (readAll.optRv ≠ 0) := by simp [readAll]
  have h2 : ¬ ((s.primals.length : Int) > (nv : Int) ∨ (s.primals.length : Int) < 0) := by omega
  have h3 : ¬ ((s.duals.length : Int) > (nc : Int) ∨ (s.duals.length : Int) < 0) := by omega
  simp only [h1, h2, h3, if_false, Bool.false_eq_true, Int.toNat_natCast]
  unfold afterOpts
  rw [dualPart_written fx c s.duals s.primals _ w.duals w.primals]
  rw [textTail_objno fx readAll (s.objno - 1) s.status _ w.objno w.status]
  rw [gsuf_sufs fx c s.sufs w.sufs _ bufInit (by have := outCount_le c s.sufs; omega)]
  simp [Result.cons, prependEvs]

theorem writeMessage_clean (msg : Bytes) (h : ∀ l ∈ escLines (splitLines msg), GoodLine l) :
    ∀ c ∈ writeMessage msg, c ≠ 0 := by
  intro c hc
  unfold writeMessage at hc
  rw [writeMsgLines_eq] at hc
  rcases List.mem_append.mp hc with hc | hc
  · exact msgRead_clean msg h c hc
  · rcases List.mem_cons.mp hc with hc | hc
    · omega
    · rcases tailNl_cases (splitLines msg) with e | e <;> rw [e] at hc <;> simp at hc
      omega

theorem escLines_le (msg : Bytes) : (escLines (splitLines msg)).length ≤ (writeMessage msg).length := by
  unfold writeMessage
  rw [writeMsgLines_eq]
  have := length_le_joinNl (escLines (splitLines msg))
  simp only [joinNl] at this
  simp only [List.length_append]; omega

theorem cstr_clean (l : Bytes) (h0 : ∀ c ∈ l, c ≠ 0) : cstr l = l := by
  have := cstr_zeros l 0 h0
  simpa using this

/-- **Round trip** (model level): what `readSol` makes of what `writeSolLit` wrote -/
theorem roundtrip {D : Type} (fx fm : Bool) (c : Codec D) (s : Sol D) (nv nc : Nat) (w : Wf c s nv nc) :
    readSol fx fm nv nc readAll (writeSolLit c s) = ⟨.ok, observable c s, false⟩ := by
  obtain ⟨o0, o1, o2, os, ho, hos, h3⟩ := w.opts
  have hne : s.options ≠ [] := by rw [ho]; simp
  have hmc := writeMessage_clean s.msg w.msg
  rw [writeSol_eq c s hne]
  generalize hR : writeIntLines (optInts s.options s.ncons s.duals.length s.nvars s.primals.length) ++ afterOpts c s = R
  -- the file does not start with the binary magic
  have hbin : ∀ r, readU32 (writeMessage s.msg ++ (str "Options" ++ 10 :: R)) ≠ some (6, r) := by
    intro r
    have : writeMessage s.msg ++ (str "Options" ++ 10 :: R) = (writeMessage s.msg ++ str "Options") ++ 10 :: R := by simp
    rw [this]
    apply readU32_ne6
    · rw [strOptions]; simp
    · intro b hb
      rcases List.mem_append.mp hb with hb | hb
      · exact hmc b hb
      · rw [strOptions] at hb; simp only [List.mem_cons, List.mem_nil_iff, or_false] at hb; omega
  unfold readSol
  split
  · rename_i r heq
    exact absurd heq (hbin r)
  · unfold readText
    rw [message_roundtrip s.msg _ _ w.msg (by have := escLines_le s.msg; simp only [List.length_append]; omega)]
    simp only
    rw [strOptions]
    simp only [List.cons_append, List.nil_append]
    rw [skipNl_tail _ (tailNl_cases _)]
    simp only
    rw [show (112 :: 116 :: 105 :: 111 :: 110 :: 115 :: 10 :: R) = [112, 116, 105, 111, 110, 115] ++ 10 :: R from rfl]
    rw [fgets_line 512 [112, 116, 105, 111, 110, 115] R (by decide) (by decide)]
    simp only
    have hp : (cstr ([112, 116, 105, 111, 110, 115] ++ [10])).take 6 = str "ptions" := by decide
    simp only [hp, if_true]
    have hopt := optsText_written o0 o1 o2 os s.ncons s.duals.length s.nvars s.primals.length (afterOpts c s) hos h3
      (by rw [← ho]; exact w.ints)
    rw [← ho] at hopt
    rw [← hR, hopt]
    simp only
    rw [body_written fx fm c s nv nc w o0 o1 o2 os ho]
    unfold msgEvent observable
    simp only [ne_eq, not_true_eq_false, if_false, Bool.false_eq_true]
    rw [cstr_clean _ (msgRead_clean s.msg w.msg)]
    split <;> simp [Result.cons, *]

/-! ## integral reals -/

theorem getD_last_char (t : Bytes) (ht : t ≠ []) : (t ++ [10]).getD (t.length - 1) 0 = t.getLast ht := by
  rcases List.eq_nil_or_concat t with h | ⟨l, x, h⟩
  · exact absurd h ht
  · subst h
    have hl : (l ++ [x]).getLast (by simp) = x := by simp
    simp only [List.concat_eq_append, List.length_append, List.length_cons, List.length_nil, Nat.add_sub_cancel, List.append_assoc,
      List.cons_append, List.nil_append]
    rw [getD_last l x [10]]
    simp

theorem encInt_last_digit (n : Int) : isDigit ((encInt n).getLast (encInt_ne_nil n)) = true := by
  obtain ⟨hd, hne, _⟩ := encNat_spec n.natAbs
  have key : ∀ (t : Bytes) (h : t ≠ []), (∀ c ∈ t, isDigit c = true ∨ c = 45) → isDigit (t.getLast h) = true ∨ t.getLast h = 45 := by
    intro t h hall; exact hall _ (List.getLast_mem h)
  rcases encInt_cases n with ⟨_, e⟩ | ⟨_, e⟩
  · have : (encInt n).getLast (encInt_ne_nil n) ∈ encNat n.natAbs := by rw [← e]; exact List.getLast_mem _
    exact hd _ this
  · have hmem : (encInt n).getLast (encInt_ne_nil n) ∈ encNat n.natAbs := by
      have h1 : (encInt n).getLast (encInt_ne_nil n) = (45 :: encNat n.natAbs).getLast (by simp) := by simp [e]
      rw [h1, List.getLast_cons hne]; exact List.getLast_mem _
    exact hd _ hmem

/-- the printed text of an integral real below 10^15 satisfies the codec hypothesis for vector values … -/
theorem goodNum_encInt (n : Int) (h : n.natAbs < 10 ^ 15) : GoodNum (encInt n) := by
  have c := encInt_clean n
  have l := encInt_len n 14 (by simpa using h)
  have k := strtodLen_encInt n 10 [] (.inr rfl)
  have hne := encInt_ne_nil n
  have hlen : ¬ ((encInt n).length = 0) := by
    cases h' : encInt n with
    | nil => exact absurd h' hne
    | cons _ _ => simp
  refine ⟨by omega, fun x hx => ⟨(c x hx).1, (c x hx).2.1⟩, ?_⟩
  unfold decstring
  rw [show encInt n ++ [10] = encInt n ++ 10 :: [] from rfl, k]
  simp only [hlen, if_false]
  rw [show encInt n ++ 10 :: [] = encInt n ++ [10] from rfl, getD_last_char _ hne]
  have hd := encInt_last_digit n
  simp only [hd, Bool.true_or, if_true]
  rw [List.take_left' rfl]

/-- … and for suffix values -/
theorem goodSufTok_encInt' (n : Int) (h : n.natAbs < 10 ^ 15) : GoodSufTok (encInt n) := by
  have c := encInt_clean n
  have l := encInt_len n 14 (by simpa using h)
  refine ⟨by omega, fun x hx => ⟨(c x hx).1, (c x hx).2.1⟩, ?_⟩
  have k := strtodLen_encInt n 10 [] (.inr rfl)
  have hne : ¬ ((encInt n).length = 0) := by
    have := encInt_ne_nil n
    cases h' : encInt n with
    | nil => exact absurd h' this
    | cons _ _ => simp
  rw [show (32 :: encInt n ++ [10]) = 32 :: (encInt n ++ 10 :: []) from rfl, strtodLen_sp _ (by rw [k]; exact hne), k]

theorem all_isDigit_encNat (m : Nat) : (encNat m).all isDigit = true := by
  rw [List.all_eq_true]; exact (encNat_spec m).1

/-- the exact value of the printed text is the integer itself -/
theorem intTextValue_encInt (n : Int) : intTextValue (encInt n) = some n := by
  obtain ⟨hd, hne, hv⟩ := encNat_spec n.natAbs
  have hall := all_isDigit_encNat n.natAbs
  rcases encInt_cases n with ⟨hn, e⟩ | ⟨hn, e⟩
  · rw [e]
    have h45 : ∀ t, encNat n.natAbs ≠ 45 :: t := by
      intro t ht
      have : (45 : Nat) ∈ encNat n.natAbs := by rw [ht]; simp
      have := hd 45 this
      simp [isDigit] at this
    unfold intTextValue
    split
    · rename_i ds heq; exact absurd heq (h45 ds)
    · simp [hne, hall, hv]; omega
  · rw [e]
    simp [intTextValue, hne, hall, hv]; omega

/-- below the switch to scientific notation the text model of `%.16g` is the plain numeral -/
theorem fmtG16Int_small (n : Int) (h : n.natAbs < 10 ^ 16) : fmtG16Int n = encInt n := by
  have hl : (encNat n.natAbs).length ≤ 16 := encNatAux_len n.natAbs n.natAbs 15 h
  unfold fmtG16Int encInt fmtG16Nat
  simp only [hl, if_true]

theorem takeWhile_all {α : Type} (p : α → Bool) (l : List α) (h : l.all p = true) : l.takeWhile p = l := by
  induction l with
  | nil => rfl
  | cons a r ih =>
    simp only [List.all_cons, Bool.and_eq_true] at h
    simp [List.takeWhile, h.1, ih h.2]

/-- the exact value of the printed text is the integer itself (`m = n`, exponent 0) -/
theorem parseDec_encInt (n : Int) : parseDec (encInt n) = some (n, 0) := by
  obtain ⟨hd, hne, hv⟩ := encNat_spec n.natAbs
  have hall := all_isDigit_encNat n.natAbs
  have htw := takeWhile_all isDigit _ hall
  have h45 : (encNat n.natAbs).head? ≠ some 45 := by
    intro hh
    cases he : encNat n.natAbs with
    | nil => exact hne he
    | cons x r =>
      rw [he] at hh
      have hx : x = 45 := by simpa using hh
      have : isDigit x = true := hd x (by rw [he]; simp)
      rw [hx] at this; simp [isDigit] at this
  rcases encInt_cases n with ⟨hn, e⟩ | ⟨hn, e⟩
  · rw [e]
    unfold parseDec
    simp only [h45, decide_false, Bool.false_eq_true, if_false, htw, List.drop_length, List.length_nil, List.drop_nil, List.append_nil, hv,
      List.takeWhile_nil]
    simp [hne]; omega
  · rw [e]
    unfold parseDec
    simp only [List.head?_cons, decide_true, if_true, List.drop_succ_cons, List.drop_zero, htw, List.drop_length, List.append_nil, hv]
    simp [hne]; omega

/-! ## `writeSol` (rendered from the generated format strings) = `writeSolLit`

Each of the eleven prints, rendered by `fmtGo` from the format string of the tree under test, is the text the hand-written form contains (kernel
evaluation of the interpreter on the generated string, arguments free).  If a format string in include/mp/sol.h changes, these fail. -/

theorem fmtK_0 {D : Type} (c : Codec D) (i : Nat) (v : Int) : fmtK c 0 [.nat i, .int v] = encNat i ++ [32] ++ encInt v ++ [10] := by
  show encNat i ++ (32 :: (encInt v ++ [10])) = _
  simp
theorem fmtK_1 {D : Type} (c : Codec D) (i : Nat) (v : D) : fmtK c 1 [.nat i, .real v] = encNat i ++ [32] ++ c.enc v ++ [10] := by
  show encNat i ++ (32 :: (c.enc v ++ [10])) = _
  simp
theorem fmtK_2 {D : Type} (c : Codec D) (a b d e f : Nat) (n : Bytes) :
    fmtK c 2 [.nat a, .nat b, .nat d, .nat e, .nat f, .txt n] =
      str "suffix " ++ encNat a ++ sp ++ encNat b ++ sp ++ encNat d ++ sp ++ encNat e ++ sp ++ encNat f ++ nl ++ n ++ nl := by
  show str "suffix " ++ (encNat a ++ (32 :: (encNat b ++ (32 :: (encNat d ++ (32 :: (encNat e ++ (32 :: (encNat f ++ (10 :: (n ++ [10])))))))))))  = _
  simp [sp, nl]
theorem fmtK_3 {D : Type} (c : Codec D) (t : Bytes) : fmtK c 3 [.txt t] = t ++ nl := by
  show t ++ [10] = _
  rfl
theorem fmtK_4 {D : Type} (c : Codec D) : fmtK c 4 [] = str "Options" ++ nl := by rfl
theorem fmtK_5 {D : Type} (c : Codec D) (n : Nat) : fmtK c 5 [.nat n] = encNat n ++ nl := by
  show encNat n ++ [10] = _
  rfl
theorem fmtK_6 {D : Type} (c : Codec D) (i : Int) : fmtK c 6 [.int i] = encInt i ++ nl := by
  show encInt i ++ [10] = _
  rfl
theorem fmtK_7 {D : Type} (c : Codec D) (a b d e : Nat) :
    fmtK c 7 [.nat a, .nat b, .nat d, .nat e] = encNat a ++ nl ++ encNat b ++ nl ++ encNat d ++ nl ++ encNat e ++ nl := by
  show encNat a ++ (10 :: (encNat b ++ (10 :: (encNat d ++ (10 :: (encNat e ++ [10])))))) = _
  simp [nl]
theorem fmtK_8 {D : Type} (c : Codec D) (v : D) : fmtK c 8 [.real v] = c.enc v ++ nl := by
  show c.enc v ++ [10] = _
  rfl
theorem fmtK_9 {D : Type} (c : Codec D) (v : D) : fmtK c 9 [.real v] = c.enc v ++ nl := by
  show c.enc v ++ [10] = _
  rfl
theorem fmtK_10 {D : Type} (c : Codec D) (a b : Int) : fmtK c 10 [.int a, .int b] = str "objno " ++ encInt a ++ sp ++ encInt b ++ nl := by
  show str "objno " ++ (encInt a ++ (32 :: (encInt b ++ [10]))) = _
  simp [sp, nl]

theorem wEntriesI_eq {D : Type} (c : Codec D) (vs : List Int) : ∀ i, wEntriesI c i vs = writeEntries (sparseI i vs) := by
  induction vs with
  | nil => intro i; rfl
  | cons v vs ih =>
    intro i
    simp only [wEntriesI, sparseI]
    split
    · exact ih (i + 1)
    · rw [fmtK_0, ih (i + 1)]; simp [writeEntries]

theorem wEntriesD_eq {D : Type} (c : Codec D) (vs : List D) : ∀ i, wEntriesD c i vs = writeEntries (sparseD c i vs) := by
  induction vs with
  | nil => intro i; rfl
  | cons v vs ih =>
    intro i
    simp only [wEntriesD, sparseD]
    split
    · exact ih (i + 1)
    · rw [fmtK_1, ih (i + 1)]; simp [writeEntries]

theorem wSuffix_eq {D : Type} (c : Codec D) (s : Suf D) : wSuffix c s = writeSuffix c s := by
  unfold wSuffix writeSuffix
  split
  · rfl
  · simp only [fmtK_2, fmtK_3, wEntriesD_eq, wEntriesI_eq, Suf.entries]
    split <;> simp [List.append_assoc]

theorem wSuffixes_eq {D : Type} (c : Codec D) (l : List (Suf D)) : wSuffixes c l = writeSuffixes c l := by
  induction l with
  | nil => rfl
  | cons s r ih => simp [wSuffixes, writeSuffixes, wSuffix_eq, ih]

theorem wIntLines_eq {D : Type} (c : Codec D) (l : List Int) : wIntLines c l = writeIntLines l := by
  induction l with
  | nil => rfl
  | cons i r ih => simp [wIntLines, writeIntLines, fmtK_6, ih]

theorem wVals_eq8 {D : Type} (c : Codec D) (l : List D) : wVals c 8 l = writeVals c l := by
  induction l with
  | nil => rfl
  | cons i r ih => simp [wVals, writeVals, fmtK_8, ih]

theorem wVals_eq9 {D : Type} (c : Codec D) (l : List D) : wVals c 9 l = writeVals c l := by
  induction l with
  | nil => rfl
  | cons i r ih => simp [wVals, writeVals, fmtK_9, ih]

/-- the file rendered from the format strings of the tree under test is the hand-written form the lemmas are about -/
theorem writeSol_eq_lit {D : Type} (c : Codec D) (s : Sol D) : writeSol c s = writeSolLit c s := by
  unfold writeSol writeSolLit
  simp only [fmtK_4, fmtK_5, fmtK_7, fmtK_10, wIntLines_eq, wVals_eq8, wVals_eq9, wSuffixes_eq, List.append_assoc]

/-- **Round trip** for the writer model that renders the generated format strings -/
theorem roundtrip' {D : Type} (fx fm : Bool) (c : Codec D) (s : Sol D) (nv nc : Nat) (w : Wf c s nv nc) :
    readSol fx fm nv nc readAll (writeSol c s) = ⟨.ok, observable c s, false⟩ := by
  rw [writeSol_eq_lit]; exact roundtrip fx fm c s nv nc w

end MpVerif.C05

import MpVerif.C05.LemmasSec
/-! # C05 — one written suffix as `gsufread` parses it -/
namespace MpVerif.C05
open MpVerif.C14

/-! ## the name line in the 512-byte buffer -/

theorem getD_name_nl (name : Bytes) (tl : Buf) :
    ((name ++ [10]).map some ++ some 0 :: tl).getD name.length none = some 10 := by
  induction name with
  | nil => simp
  | cons c cs ih => simpa using ih

theorem bufCstr_name (name : Bytes) (tl : Buf) (h0 : ∀ c ∈ name, c ≠ 0) :
    bufCstr (((name ++ [10]).map some ++ some 0 :: tl).set name.length (some 0)) = name := by
  induction name with
  | nil => simp [bufCstr]
  | cons c cs ih =>
    have hc : c ≠ 0 := h0 c (by simp)
    simp only [List.cons_append, List.map_cons, List.length_cons, List.set_cons_succ, bufCstr, hc, if_false]
    rw [ih (fun x hx => h0 x (by simp [hx]))]

/-- `gsufBody` on a written name line when the suffix has no table -/
theorem gsufBody_notable (fx : Bool) (buf : Buf) (name rest : Bytes) (tablines : Nat) (hn : GoodName name) :
    ∃ buf', gsufBody fx buf (name.length + 1) 0 tablines (name ++ 10 :: rest) = .ok (name, [], rest, buf') := by
  unfold gsufBody
  rw [fgets_line 511 name rest (fun c hc => (hn.clean c hc).1) (by have := hn.short; omega)]
  simp only
  have hcs : cstr (name ++ [10]) = name ++ [10] := cstr_line name (fun c hc => (hn.clean c hc).2)
  have hfx : ¬ (fx = true ∧ (cstr (name ++ [10])).length < name.length + 1) := by
    rw [hcs]; simp
  simp only [hfx, if_false]
  have hread : bufRead (bufStore buf (name ++ [10])) (name.length + 1 - 1) = .ok 10 := by
    unfold bufRead bufStore
    have : ¬ (name.length + 1 - 1 ≥ 512) := by have := hn.short; omega
    simp only [Nat.add_sub_cancel] at this ⊢
    simp only [this, if_false]
    rw [getD_name_nl]
  have hend : nameEnd (bufStore buf (name ++ [10])) (name.length + 1) = .ok true := by
    unfold nameEnd
    rw [hread]
    simp
  rw [hend]
  simp only [Nat.add_sub_cancel, if_true]
  refine ⟨List.set (bufStore buf (name ++ [10])) (List.length name) (some 0), ?_⟩
  have : bufCstr (List.set (bufStore buf (name ++ [10])) (List.length name) (some 0)) = name := by
    unfold bufStore
    exact bufCstr_name name _ (fun c hc => (hn.clean c hc).2)
  rw [this]

/-! ## tables -/

theorem writeAt_zeros (p d : Bytes) (m : Nat) (h : d.length ≤ m) :
    writeAt (p ++ List.replicate m 0) p.length d = p ++ d ++ List.replicate (m - d.length) 0 := by
  unfold writeAt
  rw [List.take_left' rfl]
  congr 1
  rw [List.drop_append]
  simp [List.drop_replicate]

theorem cstr_zeros (p : Bytes) (m : Nat) (h0 : ∀ c ∈ p, c ≠ 0) : cstr (p ++ List.replicate m 0) = p := by
  unfold cstr
  induction p with
  | nil => cases m <;> simp [List.replicate]
  | cons c cs ih =>
    have hc : c ≠ 0 := h0 c (by simp)
    simp only [List.cons_append, List.takeWhile_cons, hc, ne_eq, not_false_eq_true, decide_true, if_true]
    rw [ih (fun x hx => h0 x (by simp [hx]))]

theorem tabLines_written (init : List Bytes) (hinit : ∀ l ∈ init, ∀ c ∈ l, c ≠ 10 ∧ c ≠ 0) (p : Bytes) (m : Nat) (tail : Bytes)
    (hm : (joinNl init).length + 1 ≤ m) :
    tabLines init.length (p ++ List.replicate m 0) p.length (p.length + m) (joinNl init ++ tail) =
      .ok ((p ++ joinNl init) ++ List.replicate (m - (joinNl init).length) 0, p.length + (joinNl init).length, tail) := by
  induction init generalizing p m with
  | nil => simp [tabLines, joinNl]
  | cons l ls ih =>
    have hl := hinit l (by simp)
    simp only [joinNl, List.flatMap_cons, List.length_append, List.length_cons, List.length_nil] at hm
    simp only [List.length_cons, joinNl, List.flatMap_cons, List.append_assoc]
    unfold tabLines
    rw [show l ++ ([10] ++ (List.flatMap (fun x => x ++ [10]) ls ++ tail)) = l ++ 10 :: (List.flatMap (fun x => x ++ [10]) ls ++ tail) from by simp]
    rw [show p.length + m - p.length = m from by omega]
    rw [fgets_line m l _ (fun c hc => (hl c hc).1) (by omega)]
    simp only
    rw [cstr_line l (fun c hc => (hl c hc).2)]
    rw [writeAt_zeros p (l ++ [10] ++ [0]) m (by simp; omega)]
    have e1 : p ++ (l ++ [10] ++ [0]) ++ List.replicate (m - (l ++ [10] ++ [0]).length) 0 =
        (p ++ (l ++ [10])) ++ List.replicate (m - (l.length + 1)) 0 := by
      have : m - (l.length + 1) = (m - (l ++ [10] ++ [0]).length) + 1 := by simp; omega
      rw [this, List.replicate_succ]; simp
    rw [e1]
    have e2 : p.length + (l ++ [10]).length = (p ++ (l ++ [10])).length := by simp
    have e3 : p.length + m = (p ++ (l ++ [10])).length + (m - (l.length + 1)) := by simp; omega
    rw [e2, e3]
    have := ih (fun x hx => hinit x (by simp [hx])) (p ++ (l ++ [10])) (m - (l.length + 1)) (by simp only [joinNl]; omega)
    simp only [joinNl] at this
    rw [this]
    simp [List.append_assoc, Nat.sub_sub, Nat.add_assoc, Nat.add_comm, Nat.add_left_comm]

theorem joinNl_clean (init : List Bytes) (h : ∀ l ∈ init, ∀ c ∈ l, c ≠ 10 ∧ c ≠ 0) : ∀ c ∈ joinNl init, c ≠ 0 := by
  intro c hc
  simp only [joinNl, List.mem_flatMap, List.mem_append, List.mem_cons, List.mem_nil_iff, or_false] at hc
  obtain ⟨l, hl, hc | hc⟩ := hc
  · exact (h l hl c hc).2
  · omega

theorem getD_last (l : Bytes) (x : Nat) (t : Bytes) : (l ++ x :: t).getD l.length 0 = x := by
  induction l with
  | nil => simp
  | cons c cs ih => simpa using ih

/-- `gsufBody` on a written name line followed by a written table `joinNl init ++ last` -/
theorem gsufBody_table (fx : Bool) (buf : Buf) (name : Bytes) (init : List Bytes) (last rest : Bytes)
    (hn : GoodName name) (ht : GoodTable init last) :
    ∃ buf', gsufBody fx buf (name.length + 1) ((joinNl init ++ last).length + 1) (init.length + 1)
        (name ++ 10 :: (joinNl init ++ last ++ 10 :: rest)) = .ok (name, joinNl init ++ last, rest, buf') := by
  unfold gsufBody
  rw [fgets_line 511 name _ (fun c hc => (hn.clean c hc).1) (by have := hn.short; omega)]
  simp only
  have hcs : cstr (name ++ [10]) = name ++ [10] := cstr_line name (fun c hc => (hn.clean c hc).2)
  have hfx : ¬ (fx = true ∧ (cstr (name ++ [10])).length < name.length + 1) := by
    rw [hcs]; simp
  simp only [hfx, if_false]
  have hread : bufRead (bufStore buf (name ++ [10])) (name.length + 1 - 1) = .ok 10 := by
    unfold bufRead bufStore
    have : ¬ (name.length + 1 - 1 ≥ 512) := by have := hn.short; omega
    simp only [Nat.add_sub_cancel] at this ⊢
    simp only [this, if_false]
    rw [getD_name_nl]
  have hend : nameEnd (bufStore buf (name ++ [10])) (name.length + 1) = .ok true := by
    unfold nameEnd
    rw [hread]
    simp
  rw [hend]
  have hname : bufCstr (List.set (bufStore buf (name ++ [10])) (List.length name) (some 0)) = name := by
    unfold bufStore
    exact bufCstr_name name _ (fun c hc => (hn.clean c hc).2)
  simp only [Nat.add_sub_cancel, Nat.add_one_ne_zero, if_false, hname]
  have htl := tabLines_written init ht.init_clean [] ((joinNl init ++ last).length + 1) (last ++ 10 :: rest)
    (by simp only [List.length_append]; omega)
  simp only [List.nil_append, List.length_nil, Nat.zero_add] at htl
  rw [show joinNl init ++ last ++ 10 :: rest = joinNl init ++ (last ++ 10 :: rest) from by simp, htl]
  simp only
  rw [fgets_line 511 last rest (fun c hc => (ht.last_clean c hc).1) (by have := ht.last_short; omega)]
  simp only
  rw [cstr_line last (fun c hc => (ht.last_clean c hc).2)]
  have h1 : ¬ ((last ++ [10]).length = 0) := by simp
  have h2 : ¬ ((last ++ [10]).getLast? ≠ some 10) := by simp
  have h3 : ¬ ((last ++ [10]).length - 1 ≥ (joinNl init ++ last).length + 1 - (joinNl init).length) := by
    simp only [List.length_append, List.length_cons, List.length_nil]; omega
  simp only [h1, h2, h3, if_false]
  have hm : (joinNl init ++ last).length + 1 - (joinNl init).length = last.length + 1 := by
    simp only [List.length_append]; omega
  have h0 : ∀ c ∈ joinNl init ++ last, c ≠ 0 := by
    intro c hc
    rcases List.mem_append.mp hc with hc | hc
    · exact joinNl_clean init ht.init_clean c hc
    · exact (ht.last_clean c hc).2
  rw [hm]
  have hlen : (last ++ [10]).length - 1 = last.length := by simp
  rw [hlen]
  rcases List.eq_nil_or_concat last with hl | ⟨l', x, hl⟩
  · subst hl
    refine ⟨bufStore (List.set (bufStore buf (name ++ [10])) (List.length name) (some 0)) ([] ++ [10]), ?_⟩
    simp only [List.length_nil, ne_eq, not_true_eq_false, false_and, if_false, if_true, List.append_nil]
    rw [cstr_zeros _ _ (by simpa using h0)]
  · rw [List.concat_eq_append] at hl
    have hx : x ≠ 13 := by
      have := ht.last_nocr
      rw [hl] at this
      simpa using this
    have hL : ¬ (last.length ≠ 0 ∧ (last ++ [10]).getD (last.length - 1) 0 = 13) := by
      rw [hl]
      intro ⟨_, h⟩
      apply hx
      have : ((l' ++ [x]) ++ [10]).getD ((l' ++ [x]).length - 1) 0 = x := by
        simp only [List.length_append, List.length_cons, List.length_nil, Nat.add_sub_cancel, List.append_assoc, List.cons_append,
          List.nil_append]
        exact getD_last l' x [10]
      rw [this] at h; exact h
    have hne : ¬ (last.length = 0) := by rw [hl]; simp
    refine ⟨bufStore (List.set (bufStore buf (name ++ [10])) (List.length name) (some 0)) (last ++ [10]), ?_⟩
    simp only [hL, if_false, hne]
    have htk : (last ++ [10]).take last.length = last := List.take_left' rfl
    rw [htk]
    rw [writeAt_zeros (joinNl init) last (last.length + 1) (by omega)]
    rw [show joinNl init ++ last ++ List.replicate (last.length + 1 - last.length) 0 = (joinNl init ++ last) ++ List.replicate (last.length + 1 - last.length) 0 from rfl]
    rw [cstr_zeros _ _ h0]

/-! ## the header line and one whole suffix -/

theorem lget_encNat (fx : Bool) (n t : Nat) (r : Bytes) (ht : t = 32 ∨ t = 10) (hb : n ≤ 2147483599) :
    lget fx (encNat n ++ t :: r) = .ok n (t :: r) := by
  obtain ⟨hd, hne, hv⟩ := encNat_spec n
  have := lget_digits fx (encNat n) hd hne t r ht (by rw [hv]; omega)
  rwa [hv] at this

theorem lget_sp_encNat (fx : Bool) (n t : Nat) (r : Bytes) (ht : t = 32 ∨ t = 10) (hb : n ≤ 2147483599) :
    lget fx (32 :: (encNat n ++ t :: r)) = .ok n (t :: r) := by
  obtain ⟨hd, hne, hv⟩ := encNat_spec n
  have := lget_sp_digits fx (encNat n) hd hne t r ht (by rw [hv]; omega)
  rw [hv] at this
  simpa using this

/-- the five header fields after `suffix ` -/
def hdrFields (k n nl tl tls : Nat) : Bytes :=
  encNat k ++ 32 :: (encNat n ++ 32 :: (encNat nl ++ 32 :: (encNat tl ++ 32 :: encNat tls)))

theorem lget5_hdr (fx : Bool) (k n nl tl tls : Nat)
    (hk : k ≤ 2147483599) (hn : n ≤ 2147483599) (hnl : nl ≤ 2147483599) (htl : tl ≤ 2147483599) (htls : tls ≤ 2147483599) :
    lget5 fx (hdrFields k n nl tl tls ++ [10]) = .ok [k, n, nl, tl, tls] := by
  unfold lget5 hdrFields
  simp only [List.append_assoc, List.cons_append]
  rw [lget_encNat fx k 32 _ (.inl rfl) hk]
  simp only
  rw [lget_sp_encNat fx n 32 _ (.inl rfl) hn]
  simp only
  rw [lget_sp_encNat fx nl 32 _ (.inl rfl) hnl]
  simp only
  rw [lget_sp_encNat fx tl 32 _ (.inl rfl) htl]
  simp only
  rw [lget_sp_encNat fx tls 10 [] (.inr rfl) htls]

theorem hdrFields_clean (k n nl tl tls : Nat) : ∀ c ∈ hdrFields k n nl tl tls, c ≠ 10 ∧ c ≠ 0 := by
  intro c hc
  unfold hdrFields at hc
  simp only [List.mem_append, List.mem_cons] at hc
  have e := fun m h => encNat_clean m c h
  rcases hc with hc | hc | hc | hc | hc | hc | hc | hc | hc
  all_goals first
    | exact ⟨(e _ hc).1, (e _ hc).2.1⟩
    | (subst hc; decide)

theorem hdrFields_len (k n nl tl tls : Nat)
    (hk : k ≤ 2147483647) (hn : n ≤ 2147483647) (hnl : nl ≤ 2147483647) (htl : tl ≤ 2147483647) (htls : tls ≤ 2147483647) :
    (hdrFields k n nl tl tls).length ≤ 59 := by
  unfold hdrFields
  have := encNat_len32 k hk; have := encNat_len32 n hn; have := encNat_len32 nl hnl
  have := encNat_len32 tl htl; have := encNat_len32 tls htls
  simp only [List.length_append, List.length_cons]; omega

theorem sufKind_ne_dbl (k : Int) : sufKind k ≠ .dbl := by
  unfold sufKind; split <;> simp

/-- one written suffix, from its header line to its last entry, as one iteration of `gsufread` -/
theorem gsuf_step (fx : Bool) (f : Nat) (buf : Buf) (k : Nat) (name : Bytes) (tablen tablines : Nat)
    (tfile table : Bytes) (es : List (Nat × Bytes)) (rest : Bytes)
    (hk : k ≤ 15) (hn : GoodName name)
    (hes : ∀ e ∈ es, e.1 ≤ 2147483647 ∧ GoodSufTok e.2) (hcount : es.length ≤ 2147483599)
    (htl : tablen ≤ 200000000) (htls : tablines ≤ 200000001)
    (hT : tablen = 0 ∨ (1 ≤ tablines ∧ tablines ≤ tablen + 1))
    (hbody : ∀ b, ∃ b', gsufBody fx b (name.length + 1) tablen tablines (name ++ 10 :: (tfile ++ (writeEntries es ++ rest))) =
      .ok (name, table, writeEntries es ++ rest, b')) :
    ∃ buf', gsuf fx (f + 1) ⟨0, .all, .all, .all⟩ buf
        (str "suffix " ++ hdrFields k es.length (name.length + 1) tablen tablines ++ 10 :: (name ++ 10 :: (tfile ++ (writeEntries es ++ rest)))) =
      Result.cons (.suffix false (k : Int) ((name.length + 1 : Nat) : Int) (tablen : Int) name table
          ⟨es.length, es.map (fun e => ⟨(e.1 : Int), 32 :: e.2⟩), .ok, 0⟩)
        (gsuf fx f ⟨0, .all, .all, .all⟩ buf' rest) := by
  have hnl := hn.short
  have hclean := hdrFields_clean k es.length (name.length + 1) tablen tablines
  have hlen := hdrFields_len k es.length (name.length + 1) tablen tablines (by omega) (by omega) (by omega) (by omega) (by omega)
  have hline : ∀ c ∈ str "suffix " ++ hdrFields k es.length (name.length + 1) tablen tablines, c ≠ 10 ∧ c ≠ 0 := by
    intro c hc
    rcases List.mem_append.mp hc with hc | hc
    · rw [strSuffix] at hc
      simp only [List.mem_cons, List.mem_nil_iff, or_false] at hc; omega
    · exact hclean c hc
  obtain ⟨b', hb'⟩ := hbody (bufStore buf (str "suffix " ++ hdrFields k es.length (name.length + 1) tablen tablines ++ [10]))
  refine ⟨b', ?_⟩
  conv => lhs; unfold gsuf
  rw [fgets_line 511 _ _ (fun c hc => (hline c hc).1) (by rw [strSuffix]; simp only [List.length_append, List.length_cons, List.length_nil]; omega)]
  simp only
  rw [cstr_line _ (fun c hc => (hline c hc).2)]
  have e1 : (str "suffix " ++ hdrFields k es.length (name.length + 1) tablen tablines ++ [10]).take 7 = str "suffix " := by
    rw [strSuffix]; simp
  have e2 : (str "suffix " ++ hdrFields k es.length (name.length + 1) tablen tablines ++ [10]).drop 7 =
      hdrFields k es.length (name.length + 1) tablen tablines ++ [10] := by
    rw [strSuffix]; simp
  simp only [e1, e2, ne_eq, not_true_eq_false, if_false]
  rw [lget5_hdr fx k es.length (name.length + 1) tablen tablines (by omega) (by omega) (by omega) (by omega) (by omega)]
  simp only [List.getD_cons_zero, List.getD_cons_succ]
  have hsc : sufheadcheck fx (k : Int) (es.length : Int) ((name.length + 1 : Nat) : Int) (tablen : Int) (tablines : Int) = .ok := by
    have hne : 1 ≤ name.length := by
      have := hn.nonempty
      cases h' : name with
      | nil => exact absurd h' this
      | cons _ _ => simp
    unfold sufheadcheck
    cases fx <;> (repeat' split) <;> (try rfl) <;> (exfalso; simp at * <;> omega)
  rw [hsc]
  simp only
  rw [hb']
  simp only
  have hv := vecLoop_entries (sufKind (k : Int)) (sufKind_ne_dbl _) es hes rest
  have hrun : runVec false (sufKind (k : Int)) .all es.length (writeEntries es ++ rest) =
      (⟨es.length, es.map (fun e => ⟨(e.1 : Int), 32 :: e.2⟩), .ok, 0⟩, rest) := by
    unfold runVec
    simp [hv]
  rw [hrun]
  simp [afterVec, checkReader]

end MpVerif.C05

import MpVerif.C05.Lemmas
/-! # C05 — decimal integers: what `strtol`, `Lget` and the `strtod` scanner do with the text `encInt` prints -/
namespace MpVerif.C05
open MpVerif.C14

theorem decValAcc_nil (acc : Nat) : decValAcc acc [] = acc := rfl
theorem decValAcc_cons (acc c : Nat) (cs : Bytes) : decValAcc acc (c :: cs) = decValAcc (10 * acc + (c - 48)) cs := by
  unfold decValAcc; rw [List.foldl_cons]

theorem isDigit_iff (c : Nat) : isDigit c = true ↔ 48 ≤ c ∧ c ≤ 57 := by
  simp [isDigit]

theorem decValAcc_append (acc : Nat) (ds : Bytes) (d : Nat) :
    decValAcc acc (ds ++ [d]) = 10 * decValAcc acc ds + (d - 48) := by
  simp [decValAcc, List.foldl_append]

theorem decValAcc_ge (acc : Nat) (ds : Bytes) : acc ≤ decValAcc acc ds := by
  induction ds generalizing acc with
  | nil => simp [decValAcc_nil]
  | cons c cs ih =>
    rw [decValAcc_cons]
    have := ih (10 * acc + (c - 48))
    omega

theorem encNatAux_spec (f n : Nat) (h : n ≤ f) :
    AllDigits (encNatAux f n) ∧ encNatAux f n ≠ [] ∧ decVal (encNatAux f n) = n := by
  induction f generalizing n with
  | zero =>
    have : n = 0 := by omega
    subst this
    refine ⟨?_, by simp [encNatAux], by simp [encNatAux, decVal, decValAcc_cons, decValAcc_nil]⟩
    intro c hc; simp [encNatAux] at hc; subst hc; decide
  | succ f ih =>
    unfold encNatAux
    split
    · rename_i hlt
      refine ⟨?_, by simp, by simp [decVal, decValAcc_cons, decValAcc_nil]⟩
      intro c hc; simp at hc; subst hc; rw [isDigit_iff]; omega
    · rename_i hge
      have := ih (n / 10) (by omega)
      obtain ⟨a, b, c⟩ := this
      refine ⟨?_, by simp, ?_⟩
      · intro x hx
        rcases List.mem_append.mp hx with hx | hx
        · exact a x hx
        · simp at hx; subst hx; rw [isDigit_iff]; omega
      · unfold decVal at c ⊢
        rw [decValAcc_append, c]; omega

theorem encNat_spec (n : Nat) : AllDigits (encNat n) ∧ encNat n ≠ [] ∧ decVal (encNat n) = n :=
  encNatAux_spec n n (Nat.le_refl _)

/-! ## scanners on `digits ++ terminator :: rest` -/

theorem digitsVal_digits (ds : Bytes) (hd : AllDigits ds) (t : Nat) (r : Bytes) (acc : Nat) (ht : isDigit t = false) :
    digitsVal (ds ++ t :: r) acc = (decValAcc acc ds, ds.length) := by
  induction ds generalizing acc with
  | nil => simp [digitsVal, ht, decValAcc_nil]
  | cons c cs ih =>
    have hc : isDigit c = true := hd c (by simp)
    simp only [List.cons_append, digitsVal, hc, if_true, decValAcc_cons, List.length_cons]
    rw [ih (fun x hx => hd x (by simp [hx]))]

theorem countWhile_digits (ds : Bytes) (hd : AllDigits ds) (t : Nat) (r : Bytes) (ht : isDigit t = false) :
    countWhile isDigit (ds ++ t :: r) = ds.length := by
  induction ds with
  | nil => simp [countWhile, ht]
  | cons c cs ih =>
    have hc : isDigit c = true := hd c (by simp)
    simp only [List.cons_append, countWhile, hc, if_true, List.length_cons]
    rw [ih (fun x hx => hd x (by simp [hx]))]

theorem lgetDigits_digits (fx : Bool) (ds : Bytes) (hd : AllDigits ds) (t : Nat) (r : Bytes) (acc : Nat)
    (ht : isDigit t = false) (hb : decValAcc acc ds + 48 ≤ 2147483647) :
    lgetDigits fx (ds ++ t :: r) acc = .ok (decValAcc acc ds) (t :: r) := by
  induction ds generalizing acc with
  | nil => simp [lgetDigits, ht, decValAcc_nil]
  | cons c cs ih =>
    have hc : isDigit c = true := hd c (by simp)
    have hc' := (isDigit_iff c).mp hc
    have hge := decValAcc_ge (10 * acc + (c - 48)) cs
    simp only [decValAcc_cons] at hb
    simp only [List.cons_append, lgetDigits, hc, if_true, decValAcc_cons]
    cases fx
    · have h1 : ¬ (10 * acc + c > 2147483647) := by omega
      have h2 : 10 * acc + c - 48 = 10 * acc + (c - 48) := by omega
      simp only [Bool.false_eq_true, if_false, h1, h2]
      exact ih (fun x hx => hd x (by simp [hx])) _ hb
    · have h1 : ¬ (acc > 214748363) := by omega
      simp only [if_true, h1, if_false]
      exact ih (fun x hx => hd x (by simp [hx])) _ hb

/-- a non-empty digit string followed by a blank or a newline -/
structure NumTerm (t : Nat) : Prop where
  h : t = 32 ∨ t = 10

theorem lget_digits (fx : Bool) (ds : Bytes) (hd : AllDigits ds) (hne : ds ≠ []) (t : Nat) (r : Bytes)
    (ht : t = 32 ∨ t = 10) (hb : decVal ds + 48 ≤ 2147483647) :
    lget fx (ds ++ t :: r) = .ok (decVal ds) (t :: r) := by
  cases ds with
  | nil => exact absurd rfl hne
  | cons c cs =>
    have hc : isDigit c = true := hd c (by simp)
    have hc' := (isDigit_iff c).mp hc
    have htd : isDigit t = false := by rcases ht with h | h <;> subst h <;> decide
    unfold lget
    have h32 : ¬ c = 32 := by omega
    simp only [List.cons_append, List.dropWhile_cons, h32, decide_false, Bool.false_eq_true, if_false, hc, Bool.not_true]
    have : lgetDigits fx (cs ++ t :: r) (c - 48) = .ok (decVal (c :: cs)) (t :: r) := by
      have := lgetDigits_digits fx cs (fun x hx => hd x (by simp [hx])) t r (c - 48) htd (by simpa [decVal, decValAcc_cons] using hb)
      simpa [decVal, decValAcc_cons] using this
    rw [this]
    rcases ht with h | h <;> subst h <;> simp

theorem lget_sp_digits (fx : Bool) (ds : Bytes) (hd : AllDigits ds) (hne : ds ≠ []) (t : Nat) (r : Bytes)
    (ht : t = 32 ∨ t = 10) (hb : decVal ds + 48 ≤ 2147483647) :
    lget fx (32 :: ds ++ t :: r) = .ok (decVal ds) (t :: r) := by
  have := lget_digits fx ds hd hne t r ht hb
  unfold lget at this ⊢
  simpa [List.dropWhile_cons] using this

/-! ## `strtol` and the `strtod` scanner on `encInt` -/

theorem digit_not_space (c : Nat) (h : isDigit c = true) : isSpace c = false := by
  have := (isDigit_iff c).mp h
  simp [isSpace]; omega

theorem strtol_digits (ds : Bytes) (hd : AllDigits ds) (hne : ds ≠ []) (t : Nat) (r : Bytes)
    (ht : isDigit t = false) (hb : decVal ds ≤ 9223372036854775807) :
    strtol (ds ++ t :: r) = ((decVal ds : Int), ds.length) := by
  cases ds with
  | nil => exact absurd rfl hne
  | cons c cs =>
    have hc : isDigit c = true := hd c (by simp)
    have hc' := (isDigit_iff c).mp hc
    have hsp := digit_not_space c hc
    have hdv := digitsVal_digits (c :: cs) hd t r 0 ht
    unfold strtol
    have h43 : ¬ c = 43 := by omega
    have h45 : ¬ c = 45 := by omega
    simp only [List.cons_append, List.takeWhile_cons, hsp, Bool.false_eq_true, if_false, List.length_nil, List.drop_zero,
      h43, h45]
    simp only [List.cons_append] at hdv
    rw [hdv]
    have hlen : ¬ ((c :: cs).length = 0) := by simp
    have hgt : ¬ (decValAcc 0 (c :: cs) > 9223372036854775807) := by unfold decVal at hb; omega
    simp [hgt, decVal]

theorem strtol_neg_digits (ds : Bytes) (hd : AllDigits ds) (hne : ds ≠ []) (t : Nat) (r : Bytes)
    (ht : isDigit t = false) (hb : decVal ds ≤ 9223372036854775808) :
    strtol (45 :: ds ++ t :: r) = (-(decVal ds : Int), ds.length + 1) := by
  have hdv := digitsVal_digits ds hd t r 0 ht
  unfold strtol
  have hsp : isSpace 45 = false := by decide
  simp only [List.cons_append, List.takeWhile_cons, hsp, Bool.false_eq_true, if_false, List.length_nil, List.drop_zero]
  simp only [show ¬ ((45 : Nat) = 43) from by decide, if_false, if_true, List.drop_succ_cons, List.drop_zero]
  rw [hdv]
  have hlen : ¬ (ds.length = 0) := by
    cases ds with
    | nil => exact absurd rfl hne
    | cons _ _ => simp
  have hgt : ¬ (decValAcc 0 ds > 9223372036854775808) := by unfold decVal at hb; omega
  simp [hlen, hgt, decVal]; omega

/-! ## the `strtod` scanner on decimal integers -/

theorem lower_digit (c : Nat) (h : isDigit c = true) : lower c = c := by
  have := (isDigit_iff c).mp h
  unfold lower
  have : ¬ (65 ≤ c) := by omega
  simp [this]

theorem mantLen_digits (ds : Bytes) (hd : AllDigits ds) (hne : ds ≠ []) (t : Nat) (r : Bytes) (ht : t = 32 ∨ t = 10) :
    mantLen isDigit 101 (ds ++ t :: r) = ds.length := by
  have htd : isDigit t = false := by rcases ht with h | h <;> subst h <;> decide
  have hcw := countWhile_digits ds hd t r htd
  have hlen : 0 < ds.length := by
    cases ds with
    | nil => exact absurd rfl hne
    | cons _ _ => simp
  unfold mantLen
  simp only [hcw, List.drop_left']
  have hdot : (t == 46) = false := by rcases ht with h | h <;> subst h <;> decide
  simp only [hdot, Bool.false_eq_true, if_false, Nat.add_zero]
  have : ¬ ds.length = 0 := by omega
  simp only [this, if_false, List.drop_left']
  have hexp : expLen 101 (t :: r) = 0 := by
    unfold expLen
    have : ¬ (lower t = 101) := by rcases ht with h | h <;> subst h <;> decide
    simp [this]
  rw [hexp]; rfl

theorem scanBody_digits (ds : Bytes) (hd : AllDigits ds) (hne : ds ≠ []) (t : Nat) (r : Bytes) (ht : t = 32 ∨ t = 10) :
    scanBody (ds ++ t :: r) = ds.length := by
  have hm := mantLen_digits ds hd hne t r ht
  have h1 : str "infinity" = [105, 110, 102, 105, 110, 105, 116, 121] := by decide
  have h2 : str "inf" = [105, 110, 102] := by decide
  have h3 : str "nan" = [110, 97, 110] := by decide
  cases ds with
  | nil => exact absurd rfl hne
  | cons c cs =>
    have hc : isDigit c = true := hd c (by simp)
    have hc' := (isDigit_iff c).mp hc
    have hl := lower_digit c hc
    unfold scanBody
    have n1 : ¬ (c = 105) := by omega
    have n2 : ¬ (c = 110) := by omega
    simp only [h1, h2, h3, List.cons_append, prefixCI, hl, n1, n2, decide_false, Bool.false_and, Bool.false_eq_true, if_false]
    simp only [List.cons_append] at hm
    -- the hexadecimal form needs `0x`
    by_cases h48 : c = 48
    · subst h48
      cases cs with
      | nil =>
        have : ¬ (lower t = 120) := by rcases ht with h | h <;> subst h <;> decide
        simp only [List.nil_append, this, if_false] at hm ⊢
        simpa using hm
      | cons d ds' =>
        have hdd : isDigit d = true := hd d (by simp)
        have hd' := (isDigit_iff d).mp hdd
        have : ¬ (lower d = 120) := by rw [lower_digit d hdd]; omega
        simp only [List.cons_append, this, if_false] at hm ⊢
        simpa using hm
    · split
      · rename_i heq
        simp at heq; exact absurd heq.1 h48
      · simpa using hm

/-- `strtod` consumes exactly a decimal integer that is followed by a blank or a newline -/
theorem strtodLen_digits (ds : Bytes) (hd : AllDigits ds) (hne : ds ≠ []) (t : Nat) (r : Bytes) (ht : t = 32 ∨ t = 10) :
    strtodLen (ds ++ t :: r) = ds.length := by
  have hb := scanBody_digits ds hd hne t r ht
  cases ds with
  | nil => exact absurd rfl hne
  | cons c cs =>
    have hc : isDigit c = true := hd c (by simp)
    have hc' := (isDigit_iff c).mp hc
    have hsp := digit_not_space c hc
    unfold strtodLen
    have n1 : ¬ (c = 43) := by omega
    have n2 : ¬ (c = 45) := by omega
    simp only [List.cons_append, List.takeWhile_cons, hsp, Bool.false_eq_true, if_false, List.length_nil, List.drop_zero,
      n1, n2, decide_false, Bool.or_self]
    simp only [List.cons_append] at hb
    rw [hb]
    simp

theorem strtodLen_neg_digits (ds : Bytes) (hd : AllDigits ds) (hne : ds ≠ []) (t : Nat) (r : Bytes) (ht : t = 32 ∨ t = 10) :
    strtodLen (45 :: ds ++ t :: r) = ds.length + 1 := by
  have hb := scanBody_digits ds hd hne t r ht
  have hlen : 0 < ds.length := by
    cases ds with
    | nil => exact absurd rfl hne
    | cons _ _ => simp
  unfold strtodLen
  have hsp : isSpace 45 = false := by decide
  simp only [List.cons_append, List.takeWhile_cons, hsp, Bool.false_eq_true, if_false, List.length_nil, List.drop_zero]
  simp only [show ((45 : Nat) = 43) = False from by decide, decide_false, decide_true, Bool.or_true, Bool.false_or, if_true,
    List.drop_succ_cons, List.drop_zero, hb]
  have : ¬ ds.length = 0 := by omega
  simp [this]; omega

/-! ## `encInt` -/

/-- `encInt i` is an optional minus sign followed by the digits of `|i|` -/
theorem encInt_cases (i : Int) :
    (0 ≤ i ∧ encInt i = encNat i.natAbs) ∨ (i < 0 ∧ encInt i = 45 :: encNat i.natAbs) := by
  unfold encInt
  by_cases h : i < 0
  · exact .inr ⟨h, by simp [h]⟩
  · exact .inl ⟨by omega, by simp [h]⟩

theorem strtodLen_encInt (i : Int) (t : Nat) (r : Bytes) (ht : t = 32 ∨ t = 10) :
    strtodLen (encInt i ++ t :: r) = (encInt i).length := by
  obtain ⟨hd, hne, _⟩ := encNat_spec i.natAbs
  rcases encInt_cases i with ⟨_, h⟩ | ⟨_, h⟩
  · rw [h]; exact strtodLen_digits _ hd hne t r ht
  · rw [h]; simpa using strtodLen_neg_digits _ hd hne t r ht

theorem strtol_encInt (i : Int) (t : Nat) (r : Bytes) (ht : t = 32 ∨ t = 10)
    (hb : -9223372036854775808 ≤ i ∧ i ≤ 9223372036854775807) :
    strtol (encInt i ++ t :: r) = (i, (encInt i).length) := by
  obtain ⟨hd, hne, hv⟩ := encNat_spec i.natAbs
  have htd : isDigit t = false := by rcases ht with h | h <;> subst h <;> decide
  rcases encInt_cases i with ⟨hi, h⟩ | ⟨hi, h⟩
  · rw [h, strtol_digits _ hd hne t r htd (by rw [hv]; omega), hv]
    congr 1; omega
  · rw [h]
    have := strtol_neg_digits _ hd hne t r htd (by rw [hv]; omega)
    simp only [List.cons_append] at this ⊢
    rw [this, hv]
    simp; omega

theorem encInt_clean (i : Int) : ∀ c ∈ encInt i, c ≠ 10 ∧ c ≠ 0 ∧ c ≠ 32 := by
  obtain ⟨hd, _, _⟩ := encNat_spec i.natAbs
  have hdig : ∀ c ∈ encNat i.natAbs, c ≠ 10 ∧ c ≠ 0 ∧ c ≠ 32 := by
    intro c hc
    have := (isDigit_iff c).mp (hd c hc)
    omega
  intro c hc
  rcases encInt_cases i with ⟨_, h⟩ | ⟨_, h⟩
  · rw [h] at hc; exact hdig c hc
  · rw [h] at hc
    rcases List.mem_cons.mp hc with rfl | hc
    · decide
    · exact hdig c hc

end MpVerif.C05

import MpVerif.C05.Spec
import MpVerif.C14.Lemmas
/-! # C05 — line-level lemmas: what the reader does with a line the writer printed -/
namespace MpVerif.C05
open MpVerif.C14

theorem fgetsAux_line (k : Nat) (l rest : Bytes) (h10 : ∀ c ∈ l, c ≠ 10) (hk : l.length < k) :
    fgetsAux k (l ++ 10 :: rest) = (l ++ [10], rest) := by
  induction l generalizing k with
  | nil =>
    cases k with
    | zero => simp at hk
    | succ k => simp [fgetsAux]
  | cons c cs ih =>
    cases k with
    | zero => simp at hk
    | succ k =>
      have hc : c ≠ 10 := h10 c (by simp)
      simp only [List.cons_append, fgetsAux, hc, if_false]
      rw [ih k (fun x hx => h10 x (by simp [hx])) (by simpa using hk)]

/-- `fgets(buf, sz, f)` on a file that starts with a line shorter than the buffer returns exactly that line -/
theorem fgets_line (sz : Nat) (l rest : Bytes) (h10 : ∀ c ∈ l, c ≠ 10) (hk : l.length + 2 ≤ sz) :
    fgets sz (l ++ 10 :: rest) = some (l ++ [10], rest) := by
  unfold fgets
  have h1 : ¬ sz = 0 := by omega
  have h2 : ¬ sz = 1 := by omega
  simp only [h1, h2, if_false]
  cases l with
  | nil =>
    simp only [List.nil_append]
    rw [show (10 :: rest) = [] ++ 10 :: rest from rfl, fgetsAux_line _ [] rest (by simp) (by simp; omega)]
    simp
  | cons c cs =>
    simp only [List.cons_append]
    rw [show c :: (cs ++ 10 :: rest) = (c :: cs) ++ 10 :: rest from rfl, fgetsAux_line _ (c :: cs) rest h10 (by simp at hk ⊢; omega)]
    simp

theorem cstr_line (l : Bytes) (h0 : ∀ c ∈ l, c ≠ 0) : cstr (l ++ [10]) = l ++ [10] := by
  unfold cstr
  induction l with
  | nil => simp
  | cons c cs ih =>
    have hc : c ≠ 0 := h0 c (by simp)
    simp only [List.cons_append, List.takeWhile_cons, hc, ne_eq, not_false_eq_true, decide_true, if_true]
    rw [ih (fun x hx => h0 x (by simp [hx]))]

theorem crlfCut_line (l : Bytes) (h10 : ∀ c ∈ l, c ≠ 10) (hcr : l.getLast? ≠ some 13) :
    crlfCut (l ++ [10]) = l ++ [10] := by
  induction l with
  | nil => simp [crlfCut]
  | cons c cs ih =>
    simp only [List.cons_append, crlfCut]
    have hcs : ∀ x ∈ cs, x ≠ 10 := fun x hx => h10 x (by simp [hx])
    cases cs with
    | nil =>
      have : c ≠ 13 := by simpa using hcr
      simp [this, crlfCut]
    | cons d ds =>
      have hd : d ≠ 10 := hcs d (by simp)
      have : ¬ (c = 13 ∧ ((d :: ds) ++ [10]).head? = some 10) := by simp [hd]
      simp only [this, if_false]
      rw [ih hcs (by simpa [List.getLast?_cons_cons] using hcr)]

theorem msgText_lines (ls : List Bytes) (h : ∀ l ∈ ls, GoodLine l) (rest : Bytes) (st : MsgState) (hbs : st.bs = true)
    (f : Nat) (hf : ls.length < f) :
    msgText f (ls.flatMap (· ++ [10]) ++ 10 :: rest) st = .ok (⟨st.msg ++ ls.flatMap (· ++ [10]), st.nbs, true⟩, rest) := by
  induction ls generalizing st f with
  | nil =>
    cases f with
    | zero => simp at hf
    | succ f =>
      simp only [List.flatMap_nil, List.nil_append, List.append_nil]
      unfold msgText
      rw [show (10 :: rest) = [] ++ 10 :: rest from rfl, fgets_line 512 [] rest (by simp) (by simp)]
      simp [cstr, crlfCut, ← hbs]
  | cons l ls ih =>
    cases f with
    | zero => simp at hf
    | succ f =>
      have gl := h l (by simp)
      simp only [List.flatMap_cons, List.append_assoc]
      unfold msgText
      rw [show l ++ ([10] ++ (ls.flatMap (· ++ [10]) ++ 10 :: rest)) = l ++ 10 :: (ls.flatMap (· ++ [10]) ++ 10 :: rest) from by simp]
      rw [fgets_line 512 l _ (fun c hc => (gl.clean c hc).1) (by have := gl.short; omega)]
      simp only
      rw [cstr_line l (fun c hc => (gl.clean c hc).2), crlfCut_line l (fun c hc => (gl.clean c hc).1) gl.nocr]
      have hhead : (l ++ [10]).head? ≠ some 10 := by
        cases l with
        | nil => exact absurd rfl gl.nonempty
        | cons c cs => simp; exact (gl.clean c (by simp)).1
      have hproc : procLine (l ++ [10]) st.bs = (l ++ [10], 0, st.bs) := by
        cases l with
        | nil => exact absurd rfl gl.nonempty
        | cons c cs =>
          have hc : c ≠ 8 := by simpa using gl.nobs
          simp [procLine, hc]
      simp only [hhead, if_false, hproc]
      have := ih (fun x hx => h x (by simp [hx])) ⟨st.msg ++ (l ++ [10]), st.nbs + 0, st.bs⟩ hbs f (by simpa using hf)
      rw [this]
      simp [List.append_assoc]

/-! ## vectors of reals -/

theorem goodNumB_sound (t : Bytes) (h : goodNumB t = true) : GoodNum t := by
  simp only [goodNumB, Bool.and_eq_true, decide_eq_true_eq, List.all_eq_true, bne_iff_ne, ne_eq, beq_iff_eq] at h
  exact ⟨h.1.1, fun c hc => h.1.2 c hc, h.2⟩

theorem readItem_num (t rest : Bytes) (h : GoodNum t) :
    readItem false .dbl (t ++ 10 :: rest) = (.ok ⟨0, t⟩, rest) := by
  unfold readItem
  simp only [Bool.false_eq_true, if_false]
  rw [fgets_line 511 t rest (fun c hc => (h.clean c hc).1) (by have := h.short; omega)]
  simp only
  rw [cstr_line t (fun c hc => (h.clean c hc).2), h.dec]

theorem vecLoop_vals {D : Type} (c : Codec D) (vs : List D) (h : ∀ v ∈ vs, GoodNum (c.enc v)) (rest : Bytes) (extra : Nat) :
    vecLoop false .dbl (vs.length + extra) vs.length (writeVals c vs ++ rest) =
      (vs.map (fun v => ⟨0, c.enc v⟩), .ok, 0, rest) := by
  induction vs with
  | nil => cases extra <;> simp [vecLoop, writeVals]
  | cons v vs ih =>
    have hv := h v (by simp)
    simp only [List.length_cons, writeVals, nl, List.append_assoc]
    rw [show vs.length + 1 + extra = (vs.length + extra) + 1 from by omega]
    unfold vecLoop
    simp only [Nat.add_one_ne_zero, if_false]
    rw [show c.enc v ++ ([10] ++ (writeVals c vs ++ rest)) = c.enc v ++ 10 :: (writeVals c vs ++ rest) from by simp]
    rw [readItem_num _ _ hv]
    simp only [Nat.add_sub_cancel]
    rw [ih (fun x hx => h x (by simp [hx]))]
    simp

end MpVerif.C05

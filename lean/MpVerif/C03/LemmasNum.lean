import MpVerif.C03.ModelSpec
/-! # C03 — `BinaryFormatter::nput` packs integer-valued doubles into short/long exactly -/
namespace MpVerif.C03

theorem pow_split (k : Nat) (hk : k ≤ 52) : 2 ^ 52 = 2 ^ (52 - k) * 2 ^ k := by
  rw [← Nat.pow_add]; congr 1; omega

theorem pow_split53 (k : Nat) (hk : k ≤ 52) : 2 ^ 53 = 2 ^ (52 - k + 1) * 2 ^ k := by
  rw [← Nat.pow_add]; congr 1; omega

/-- the integer test of `nput` and the conversion back `(double)(int)` are inverse to each other:
    if `x` is the double with integer value `v` then `(double)v` is `x` again (up to the sign of zero) -/
theorem ofInt_toInt' (x : Dbl) (v : Int) (h : x.toInt? = some v) :
    (Dbl.ofInt v).normZero = x.normZero := by
  obtain ⟨neg, ex, man⟩ := x
  unfold Dbl.toInt? at h
  simp only at h
  by_cases hman : man ≥ 2 ^ 52
  · rw [if_pos hman] at h; simp at h
  rw [if_neg hman] at h
  have hx : ex < 2048 ∨ True := Or.inr trivial
  have hx2 : man < 2 ^ 52 := by omega
  by_cases h0 : ex = 0
  · subst h0
    by_cases hm : man = 0
    · subst hm
      simp at h
      subst h
      simp [Dbl.ofInt, Dbl.normZero, Dbl.isZero, Dbl.zero]
    · simp [hm] at h
  · have hb0 : (ex == 0) = false := by simp [h0]
    simp only [hb0, Bool.false_eq_true, if_false] at h
    by_cases h1 : ex ≥ 2047
    · simp [h1] at h
    · simp only [h1, if_false] at h
      by_cases h2 : ex > 1075
      · simp [h2] at h
      · simp only [h2, if_false] at h
        by_cases h3 : 1075 - ex ≤ 52 ∧ (2 ^ 52 + man) % 2 ^ (1075 - ex) = 0
        · rw [if_pos h3] at h
          obtain ⟨hk, hdiv⟩ := h3
          generalize hkdef : 1075 - ex = k at *
          have hex : ex = 1075 - k := by omega
          have hmul : (2 ^ 52 + man) / 2 ^ k * 2 ^ k = 2 ^ 52 + man :=
            Nat.div_mul_cancel (Nat.dvd_of_mod_eq_zero hdiv)
          generalize ha : (2 ^ 52 + man) / 2 ^ k = a at *
          have hpk : 0 < 2 ^ k := Nat.two_pow_pos _
          have hlo : 2 ^ (52 - k) ≤ a := by
            have : 2 ^ (52 - k) * 2 ^ k ≤ a * 2 ^ k := by rw [← pow_split k hk, hmul]; omega
            exact Nat.le_of_mul_le_mul_right this hpk
          have hhi : a < 2 ^ (52 - k + 1) := by
            have : a * 2 ^ k < 2 ^ (52 - k + 1) * 2 ^ k := by rw [← pow_split53 k hk, hmul]; omega
            exact Nat.lt_of_mul_lt_mul_right this
          have hapos : a ≠ 0 := by
            have : 0 < 2 ^ (52 - k) := Nat.two_pow_pos _
            omega
          have hlog : a.log2 = 52 - k := (Nat.log2_eq_iff hapos).mpr ⟨hlo, hhi⟩
          have hsub : 52 - (52 - k) = k := by omega
          have hv : v = if neg = true then -(a : Int) else (a : Int) := by simpa using h.symm
          have hvne : v ≠ 0 := by
            rw [hv]; split <;> omega
          have hnat : v.natAbs = a := by
            rw [hv]; split <;> simp
          have hneg : decide (v < 0) = neg := by
            rw [hv]
            cases neg <;> simp <;> omega
          have hnz : (Dbl.mk neg ex man).isZero = false := by simp [Dbl.isZero, h0]
          have hres : Dbl.ofInt v = ⟨neg, ex, man⟩ := by
            unfold Dbl.ofInt Dbl.ofNatPos
            have e1 : 52 - k + 1023 = ex := by omega
            have e2 : 2 ^ 52 + man - 2 ^ 52 = man := Nat.add_sub_cancel_left (2 ^ 52) man
            rw [if_neg hvne, hnat, hlog, hsub, hneg, hmul, e1, e2]
          rw [hres]
        · rw [if_neg h3] at h; simp at h

theorem ofInt_toInt (x : Dbl) (_hx : x.Valid) (v : Int) (h : x.toInt? = some v) :
    (Dbl.ofInt v).normZero = x.normZero := ofInt_toInt' x v h

/-- the value `ReadConstant` returns for what binary `nput` wrote, for every `Dbl` whatsoever -/
theorem numVal_binary_exact' (x : Dbl) (o : Opts) (hb : o.binary = true) :
    (numVal idCodec o x).normZero = x.normZero := by
  unfold numVal
  simp only [hb, if_true]
  cases ht : x.toInt? with
  | none => simp [idCodec]
  | some v =>
    simp only
    split
    · exact ofInt_toInt' x v ht
    · simp [idCodec]

/-- **`nput` is exact.**  For every (valid, non-NaN is implied) double the value `ReadConstant` returns for what
    `BinaryFormatter::nput` wrote — `s` + int16, `l` + int32 or `n` + 8 bytes — is the double itself up to the sign of zero;
    in particular every integer `-2^31 ≤ v < 2^31` is packed and unpacked exactly. -/
theorem numVal_binary_exact (x : Dbl) (hx : x.Valid) (o : Opts) (hb : o.binary = true) :
    (numVal idCodec o x).normZero = x.normZero := by
  unfold numVal
  simp only [hb, if_true]
  cases ht : x.toInt? with
  | none => simp [idCodec]
  | some v =>
    simp only
    split
    · exact ofInt_toInt x hx v ht
    · simp [idCodec]

/-- text: with a codec that returns every written double up to the sign of zero, so does `nput`/`ReadConstant` -/
theorem numVal_text_exact (cd : Codec) (hcd : ∀ x, (cd.rd x).normZero = x.normZero) (x : Dbl) (o : Opts) (hb : o.binary = false) :
    (numVal cd o x).normZero = x.normZero := by
  simp [numVal, hb, hcd]

end MpVerif.C03

namespace MpVerif.C03
/-- the 64-bit pattern of a binary64 determines it: what the binary format copies (8 bytes) is the number -/
theorem ofBits_toBits (x : Dbl) (hx : x.Valid) : Dbl.ofBits x.toBits = x := by
  obtain ⟨neg, ex, man⟩ := x
  simp only [Dbl.Valid] at hx
  obtain ⟨h1, h2⟩ := hx
  cases neg <;> simp only [Dbl.ofBits, Dbl.toBits, Dbl.mk.injEq, Bool.false_eq_true, if_false, if_true, decide_eq_false_iff_not,
    decide_eq_true_eq] <;> refine ⟨?_, ?_, ?_⟩ <;> omega
end MpVerif.C03

import MpVerif.C03.ModelSpec
/-!
# C03 — the text of an integer-valued double: `g_fmt` (nl-writer2.cc) on the digits of `dtoa` mode 0, and `strtod` back

For a non-zero integer `v` with `|v| < 10^15` (< 2^53, spacing of doubles < 1) the shortest digit string `dtoa` returns is
the decimal expansion of `|v|` without its trailing zeros, `decpt` = number of digits of `|v|`.  `g_fmt` then prints either the
plain digits followed by the stripped zeros, or — when more than 4 (one digit) / 5 (several digits) zeros were stripped —
`d.ddde+XX`.  That this is what the real `g_fmt` prints is **compared on every run** (harness lines `Z`, driver op `gint`);
the theorem `C03_int_text_roundtrip` is about these functions: reading the printed text back gives `v`, hence the same double.
-/
namespace MpVerif.C03

/-- decimal digits, least significant first -/
def digitsLE : Nat → Nat → List Nat
  | 0, _ => []
  | f + 1, n => if n = 0 then [] else (n % 10) :: digitsLE f (n / 10)

def ofLE : List Nat → Nat
  | [] => 0
  | d :: r => d + 10 * ofLE r

/-- `n = d · 10^z` with as many zeros stripped as possible -/
def stripZ : Nat → Nat → Nat × Nat
  | 0, n => (n, 0)
  | f + 1, n => if n % 10 = 0 ∧ n ≠ 0 then ((stripZ f (n / 10)).1, (stripZ f (n / 10)).2 + 1) else (n, 0)

/-- what `g_fmt` prints for an integer: digits (most significant first) and the layout -/
inductive GText
  | plain (neg : Bool) (ds : List Nat) (zeros : Nat)        -- ddd000
  | sci (neg : Bool) (ds : List Nat) (e : Nat)              -- d.dde+XX
deriving Repr, DecidableEq

/-- `g_fmt(x, 0)` for the integer-valued double `x = v ≠ 0`: `s` = digits, `decpt = L + z`;
    exponent form iff `decpt > L + (s[1] ? 5 : 4)` -/
def gfmtInt (v : Int) : GText :=
  let n := v.natAbs
  let dz := stripZ n n
  let ds := (digitsLE dz.1 dz.1).reverse
  if dz.2 ≤ (if ds.length > 1 then 5 else 4) then .plain (decide (v < 0)) ds dz.2
  else .sci (decide (v < 0)) ds (ds.length + dz.2 - 1)

/-- `strtod` on such a text (exact: the value is an integer below 2^53) -/
def strtodInt : GText → Int
  | .plain neg ds z => (if neg then -1 else 1) * ((ofLE ds.reverse * 10 ^ z : Nat) : Int)
  | .sci neg ds e => (if neg then -1 else 1) * ((ofLE ds.reverse * 10 ^ (e + 1 - ds.length) : Nat) : Int)

def digitChar (d : Nat) : Char := Char.ofNat (48 + d)

/-- the characters (for the comparison with the real `g_fmt`) -/
def GText.render : GText → String
  | .plain neg ds z => (if neg then "-" else "") ++ String.ofList (ds.map digitChar) ++ String.ofList (List.replicate z '0')
  | .sci neg ds e =>
    (if neg then "-" else "") ++ String.ofList ((ds.take 1).map digitChar) ++
      (if ds.length > 1 then "." ++ String.ofList ((ds.drop 1).map digitChar) else "") ++ "e+" ++
      (if e < 10 then "0" else "") ++ toString e

end MpVerif.C03
